#!/bin/bash
# regress_seeded.sh [pattern]: apply every stored seeded change to /repo in turn, run its property's quick check,
# restore /repo; one line per change: DETECTED / DETECTED-no-failing-input / MISSED / NOAPPLY. Needs /repo clean and
# nothing else running. Log: .build/seeded_regress.log
cd /verif
pat=${1:-}
out=.build/seeded_regress.log
: > $out
# a first argument that names a file is a list of ids (one per line); otherwise a pattern
if [ -f "$pat" ]; then dirs=$(sed 's#^#seeded/#; s#$#/#' "$pat"); else dirs=$(ls -d seeded/*${pat}*/); fi
for d in $dirs; do
  id=$(basename $d)
  prop=$(python3 -c "import json;print(json.load(open('$d/meta.json'))['property'])")
  r=$(tools/try_mutant.sh $prop /verif/$d/patch.diff quick 2>&1 | grep -v conda)
  if echo "$r" | grep -q "patch does not apply"; then v=NOAPPLY
  elif echo "$r" | grep -q "VIOLATION.*no-failing-input-found"; then v=DETECTED-no-failing-input
  elif echo "$r" | grep -q "VIOLATION"; then v=DETECTED
  else v=MISSED; fi
  echo "$id $prop $v" | tee -a $out
  if [ -n "$(git -C /repo status --short)" ]; then git -C /repo checkout -- .; fi
done
echo "summary: $(grep -c ' DETECTED' $out) detected, $(grep -c MISSED $out) missed, $(grep -c NOAPPLY $out) do not apply" | tee -a $out
