#!/bin/bash
# try_mutant.sh <Cxx> <patch.diff> [tier]: apply a seeded change to /repo, run the property's check, undo.
P=$1; PATCH=$2; TIER=${3:-quick}
cd /repo || exit 2
if ! git diff --quiet; then echo "/repo not clean"; exit 2; fi
git apply "$PATCH" 2>/dev/null || git apply -C1 "$PATCH" 2>/dev/null || patch -p1 -s --fuzz=3 < "$PATCH" || { echo "patch does not apply"; git checkout -- .; exit 2; }
cd /verif && bin/vcheck $P --tier $TIER 2>&1 | grep -v "^KNOWN-FINDING" | tail -4
RC=${PIPESTATUS[0]}
git -C /repo checkout -- . 
find /repo/src /repo/tests -name "*.orig" -o -name "*.rej" | xargs -r rm -f
echo "exit=$RC  (repo restored: $(git -C /repo status --short | wc -l) changes)"
