#!/usr/bin/env python3
"""Writes /verif/MANIFEST.json from the table below (one entry per claimed property)."""
import json, os
ROOT = os.path.dirname(os.path.dirname(os.path.abspath(__file__)))
props = [json.loads(l) for l in open(os.path.join(ROOT, "properties.jsonl"))]
CLAIMED = {
 "C19": ("Build status and behavioural identity are decided on the real code: the harness is rebuilt against /repo's working tree for all 8 subsets of {std, macho, pe} (default-features off) and a fixed battery of DWARF and frame-pointer scenarios (ground-truth walks on both architectures and policies, fallback matrix, three presentations) is run on each binary; every result line must equal the default build's, which in turn is held to the model and to the truth oracles. What a theorem carries: the only place where features decide a module's unwind data (ModuleUnwindDataInternal::new) is regenerated from the source as the ordered selector list (guarding feature, section); kernel-checked: for any two feature sets, a module that offers only sections the unguarded DWARF part looks at (or none) gets the same kind, and no guarded selector looks at a DWARF section name.",
         "8 real builds + battery digests (decides the property) + theorem (Coq) over the regenerated selector list",
         "Partial by nature: a theorem cannot exhibit a build failure; 'builds' means host-target cargo build per subset (no bare-metal target installed). The cfg_if matrix of the Unwinding trait is covered by the builds only."),
 "C03": ("Kernel-checked theorems: for every PE module whose unwind data is well-formed at the address (chain of UNWIND_INFOs present and finite, chained infos keep the frame register, stack adjustments multiples of 8, mov-saves listed first as compilers emit them, text bytes available for an innermost frame, a caller frame not inside an epilog) and ARBITRARY registers and stack on which the documented unwind procedure (Pe.ms_unwind: function-table lookup, epilog simulation, unwind codes filtered by prolog offset with the frame base fixed on entry, chained infos, machine frames; exact arithmetic) succeeds, Unwinder::unwind_frame returns the same return address (null = end of stack) and the same sixteen general-purpose registers - through the compressed cacheable rule (proved lossless for every (offset|pop)* sequence the encoder accepts, via the register-ordering round trip) and through the uncacheable path; walks over described activations yield exactly the chain and complete with Ok(None). The specification itself is run (extracted) against an independent Python transcription of the procedure on every input. Real code: synthesized PE programs with real prolog/epilog bytes (push, MSVC home-space saves, frame register + dynamic allocation, alloc-large both forms, chained cold regions, leaves without table entry), call chains, every interruption point, fresh and warmed cache, compared with the truth known by construction; plus arbitrary registers/stack against the oracle procedure.",
         "theorem (Coq, refinement to the documented procedure + losslessness of rule compression) + ground-truth and procedure oracles on real code + specification-vs-oracle check",
         "pe-unwind-info's byte parsers (.pdata, UNWIND_INFO, epilog instruction decoder) are transcribed and tied by correspondence, not verified; UWOP_EPILOG (version 2) and XMM register values are outside; data that compilers do not emit (mov-saves after stack adjustments, stack adjustments not divisible by 8, chained infos with another frame register) is excluded by the well-formedness hypothesis."),
 "C01": ("Row-level: kernel-checked theorems for both architectures - if every activation of a thread is exactly described by the registered CFI (some FDE of the containing module covers the frame's lookup address and the DWARF specification step of the row in force yields that activation's return address, caller sp and caller fp; the root's row declares the return address undefined), the walk yields exactly the chain with the caller's sp and fp after every step and completes with Ok(None) - any presentation and section order (through C12, C07, C05). On the real code: programs synthesized from compiler-style function shapes (frame-pointer, frameless with pushes/allocation, leaf, noreturn tail, early-return epilogues, aarch64 return-address signing with the vendor opcode), call chains and every interruption point, compared with the chain known by construction.",
         "theorem (Coq, induction over activations) + ground-truth scenario oracle on real code",
         "Rows are taken per instruction boundary as a compiler emits them; deriving them from an instruction-level machine (stage 2) is not done. gimli by contract."),
 "C08": ("Module relocation: kernel-checked theorems - the moved address falls into the moved module with the same relative address, the per-module callback never looks at the mapping, hence a step at the moved address on the relocated unwinder returns exactly the original result and registers (both architectures; per-module deltas; addresses outside all modules stay outside). Stack relocation and pointer-encoding resolution (inside gimli) are decided on the real code only: every ground-truth scenario is built twice (other load addresses, other stack position, absolute / pc-relative / data-relative encodings) and the two walks must differ exactly by the deltas.",
         "theorem (Coq, module relocation) + twin-scenario oracle on real code (stack relocation, encodings)",
         "Partial: equivariance of rule execution under a stack shift is not proved (needs a typing of stack values); gimli's pointer-encoding resolution is outside the model."),
 "C04": ("Kernel-checked decision theorems at the unwind_frame level: no module / module without data / unbuildable index -> exactly the frame-pointer rule; address not covered by any FDE (any presentation) -> leaf rule in a first frame, frame-pointer rule in a caller frame; what both conventions compute; a frame-pointer chain ending in the architecture's null marker is walked completely and completes with Ok(None) (x86_64 tests the current bp, aarch64 the saved fp - stated explicitly). Python convention oracle on the real code over the whole reason matrix and over chains.",
         "theorem (Coq, decision matrix + chain induction) + convention oracle on real code",
         "Mach-O and PE reasons (outside __unwind_info, missing .pdata entry, PE on aarch64) join with their models; empty FDE sets count as 'no usable unwind information'."),
 "C05": ("Kernel-checked theorems for both architectures: for every row of the class and every state on which the DWARF specification step (exact integers) is defined, translate-then-exec or generic evaluation returns exactly the specified return address, sp and fp, outside the guard cases other properties justify; both paths are proved against the same specification (lossless compression). Independent Python DWARF oracle on the real code over an offset/slot/state grid; hook-level correspondence for the compressed rules. Known finding S14 (aarch64 undefined lr/fp rules) excluded and classified.",
         "theorem (Coq, refinement to a DWARF spec) + independent DWARF oracle on real code",
         "gimli's CFI parsing/row computation by contract; expression-valued rules are outside the class."),
 "C10": ("Kernel-checked theorems at the unwind_frame level for any cache and any unwind data of the modelled kinds: x86_64 caller steps never decrease sp, never succeed with sp and address both unchanged, and two consecutive steps strictly increase sp (so no state repeats and at most 2*(sp_end-sp_start)+1 steps: termination); aarch64 caller steps strictly increase sp; frame-pointer steps are strict. Real code judged on recorded (address, sp, fp) traces of adversarial walks.",
         "theorem (Coq) + trace judge on real code",
         "PE generic path (SET_FPREG / machine frames) is outside until PE is modelled (suspected finding S9b)."),
 "C11": ("Kernel-checked theorems: no null frame is ever yielded; rule execution completes with Ok(None) only at an enumerated root marker (both architectures); on a stack truncated at any cut a rule step either names an unreadable address (at or above the cut) or returns exactly its full-stack result. Real code: every scenario walked on every truncation of its stack and compared with the full walk; root markers incl. the generic-path null return address.",
         "theorem (Coq, truncation monotonicity + marker enumeration) + all-cuts oracle on real code",
         "Truncation clause is for rule-based steps, as the property states; generic paths swallow failed reads into the fallback."),
 "C12": ("Kernel-checked theorems: for any FDE set with pairwise disjoint non-empty ranges in any section order, gimli's hdr table (by contract) and framehop's own index (stable sort + binary search) both select the covering FDE whenever one exists and a non-covering one otherwise, hence identical callback results for the three presentations on every address (both architectures). Real code: the same FDE set registered three times, every boundary probed, results compared with each other and with the covering FDE.",
         "theorem (Coq, sortedness/permutation) + triple-presentation oracle on real code",
         "gimli EhHdrTable::lookup, sort_by_key and binary_search by contract; FDE starts within 4 GiB of the image base."),
 "C06": ("Kernel-checked theorem over arbitrary histories (any number of unwinders/caches, add/remove/clone, <= 65536 operations, consistent address kinds): every unwinding call returns the (result, registers) of the same call on a freshly created cache; proved by the generation/cache invariants (each identity denotes one module list; every entry holds the state-independent rule of its address) and instantiated for both architectures after proving that every callback outcome is either state-independent or never cached. On the real code every call is twinned with a fresh-cache call.",
         "theorem (Coq, invariant over histories) + fresh-cache twin oracle on real code + correspondence",
         "gimli by contract; Mach-O/PE callbacks join the static classification when their models land."),
 "C07": ("Kernel-checked refinement: on the sorted-disjoint representation, lookup returns exactly the unique module containing the address (with base-relative offset, u32 guard, no panic), add is set insertion preserving the invariant, remove deletes exactly the module with that start or changes nothing, max is the largest end or 0. Real code judged by an independent Python map oracle with modules distinguishable by sp delta.",
         "theorem (Coq, refinement to a set of ranges) + independent map oracle on real code",
         "binary_search_by_key / Vec::insert / remove by contract on sorted duplicate-free keys; clone independence is structural in the pure model and covered by correspondence."),
 "C09": ("Kernel-checked theorems: x86_64 and aarch64 rule execution return Ok/Err for every producible rule, flag, register file and reader (no Panic/Hang), the pop-order decoder is total on producible encodings; correspondence ties the model to the real exec hooks and to unwind_frame/iter over valid DWARF modules, and the judge on the real outputs is 'no panic, no hang'.",
         "theorem (Coq) + differential correspondence + no-panic judge on real code",
         "Model is of the overflow-checked build; gimli/arrayvec by contract; PE/Mach-O paths are added to the cone as the model grows (see DESIGN.md)."),
 "C13": ("Kernel-checked theorems on the model's lookup_address (RA a -> a-1 without underflow, IP a -> a) and NonZero construction; independent oracle on real code: adjacent functions/modules with distinguishable sp deltas probed at the shared boundary both ways, all three DWARF presentations.",
         "theorem (Coq) + boundary-pair oracle on real code",
         "FDE/module selection by gimli and binary search are covered by the oracle, and by C07/C12 theorems."),
 "C16": ("Kernel-checked theorems: every successful aarch64 rule execution and every successful unwind_frame (cache hit, computed rule, fallback, generic DWARF) reports an address with all bits outside the mask clear, leaves that same value in lr and never changes the mask; the max-address mask constructor is total and preserves all addresses up to its argument including 0. Judge on real outputs checks the same bit conditions.",
         "theorem (Coq) + bit-level judge on real code + correspondence",
         "gimli by contract."),
 "C17": ("Kernel-checked theorem, generic in the architecture: n+1 next() calls equal the pc followed by the hand-written fold of unwind_frame (null RA -> Err(ReturnAddressIsNull), Ok(None) persists, no null frame). On the real code the iterator (inherent and FallibleIterator next) is compared with a hand-written unwind_frame loop.",
         "theorem (Coq) + iterator-vs-manual-loop oracle on real code",
         "The real iterator's private state is observed only through what next() returns."),
 "C18": ("Partial: kernel-checked theorem over an interleaving model whose per-draw atomic step list is regenerated from the body of next_global_modules_generation() on every run: for any number of threads, operations and any schedule, identities are pairwise distinct while <= 65536 were drawn; a load+store draw is refuted by a 4-step schedule. What a proof cannot exhibit - that AtomicU16::fetch_add(Relaxed) is indivisible on the hardware - is assumed; a 16-thread stress run on the real code supports it.",
         "theorem (Coq, all interleavings of regenerated atomic steps) + real-thread stress",
         "Atomicity of the primitive assumed (trusted base); the extractor's mapping of source text to steps is trusted."),
 "C20": ("Kernel-checked theorems: every unwinding call bumps exactly the counter matching the slot's situation (empty / hit / other identity / other address); hits touch no section; after a cacheable call the slot holds (address, identity, rule), calls to other slots leave it alone, and a filled slot is a hit. Judge on real code: exactly-one-counter, hits have zero Deref calls on the section wrapper, immediate repeats of cacheable calls are hits.",
         "theorem (Coq) + counter/deref judge on real code + correspondence",
         "u64 counter overflow ignored; gimli by contract."),
}
checks = []
for pid in sorted(CLAIMED):
    text, tech, note = CLAIMED[pid]
    checks.append({"property_id": pid, "quick_cmd": "bin/vcheck %s --tier quick" % pid,
                   "thorough_cmd": "bin/vcheck %s --tier thorough" % pid,
                   "evidence_file": "/verif/evidence/%s.json" % pid,
                   "replay_cmd_template": "bin/vcheck %s --replay {path}" % pid, "engine": "vcheck",
                   "level_claimed": {"category": "proof", "text": text, "design_ref": "DESIGN.md section 5 (%s)" % pid},
                   "level_note": note, "technique": tech})
NA_REASON = {}
na = [{"property_id": p["id"], "reason": NA_REASON.get(p["id"], "check not built yet in this round; planned (DESIGN.md section 9)")}
      for p in props if p["id"] not in CLAIMED]
m = {"version": 1, "setup_cmd": "bin/setup",
     "hooks": {"guard": "framehop_verif",
               "enable": "RUSTFLAGS='--cfg framehop_verif' cargo build (harness crate /verif/harness, path dependency on /repo)",
               "baseline_off_cmd": "cd /repo && cargo test --workspace --no-fail-fast --offline",
               "source_commits": ["7d36eba"], "add_only": True},
     "engines": [{"name": "vcheck", "path": "bin/vcheck", "serves_properties": sorted(CLAIMED),
                  "kind_free_text": "Coq 8.16 theorems over a hand-written executable model + extracted-OCaml-vs-Rust correspondence + property judge on real outputs"}],
     "checks": checks, "not_applicable": na,
     "notes": "See DESIGN.md. known_findings.txt lists repaired defects (fixed:) and recorded ones (known:)."}
json.dump(m, open(os.path.join(ROOT, "MANIFEST.json"), "w"), indent=1)
print("claimed:", sorted(CLAIMED), "not_applicable:", [x["property_id"] for x in na])
