#!/usr/bin/env python3
"""Regenerate coq/Generated/Consts.v from /repo's current source.

What is read from the source (and nothing else):
  CACHE_ENTRY_COUNT                 rule_cache.rs
  ENCODE_REGISTERS (order)          x86_64/register_ordering.rs
  Reg discriminant order            x86_64/unwindregs.rs
  StoreOnStack capacities           cache.rs
  the atomic-step list of next_global_modules_generation()   unwinder.rs   (C18)
  the initial value and width of GLOBAL_MODULES_GENERATION   unwinder.rs

If something cannot be found (harmless rename) the committed default is used and the
fallback is reported on stdout as `FALLBACK <name>`; the correspondence check still notices a
changed value.  The file is only rewritten when its content changes (keeps make's cache).
"""
import re, sys, os, json

REPO = os.environ.get("FRAMEHOP_REPO", "/repo")
OUT = os.path.join(os.path.dirname(os.path.abspath(__file__)), "..", "coq", "Generated", "Consts.v")

fallbacks = []

def read(p):
    try:
        return open(os.path.join(REPO, p)).read()
    except OSError:
        return ""

def strip_comments(s):
    s = re.sub(r"//[^\n]*", "", s)
    s = re.sub(r"/\*.*?\*/", "", s, flags=re.S)
    return s

def cache_entry_count():
    s = strip_comments(read("src/rule_cache.rs"))
    m = re.search(r"const\s+CACHE_ENTRY_COUNT\s*:\s*usize\s*=\s*([0-9_]+)\s*;", s)
    if m:
        return int(m.group(1).replace("_", ""))
    fallbacks.append("CACHE_ENTRY_COUNT")
    return 509

def encode_registers():
    s = strip_comments(read("src/x86_64/register_ordering.rs"))
    m = re.search(r"const\s+ENCODE_REGISTERS\s*:\s*\[\s*Reg\s*;\s*(\d+)\s*\]\s*=\s*\[(.*?)\]\s*;", s, re.S)
    if m:
        regs = re.findall(r"Reg::(\w+)", m.group(2))
        if regs:
            return regs
    fallbacks.append("ENCODE_REGISTERS")
    return ["RBX", "RBP", "RDI", "RSI", "R12", "R13", "R14", "R15"]

def reg_order():
    s = strip_comments(read("src/x86_64/unwindregs.rs"))
    m = re.search(r"pub\s+enum\s+Reg\s*\{(.*?)\}", s, re.S)
    if m:
        names = [x.strip() for x in m.group(1).split(",") if x.strip()]
        if names and all(re.fullmatch(r"\w+", n) for n in names):
            return names
    fallbacks.append("Reg")
    return "RAX RDX RCX RBX RSI RDI RBP RSP R8 R9 R10 R11 R12 R13 R14 R15".split()

def store_on_stack():
    s = strip_comments(read("src/cache.rs"))
    d = {}
    pats = {
        "SOS_RULES": r"type\s+Rules\s*=\s*\[[^;\]]*;\s*(\d+)\s*\]",
        "SOS_ROWS": r"type\s+Stack\s*=\s*\[\s*gimli::UnwindTableRow[^;]*;\s*(\d+)\s*\]",
        "SOS_EVAL_STACK": r"type\s+Stack\s*=\s*\[\s*gimli::Value\s*;\s*(\d+)\s*\]",
        "SOS_EXPR_STACK": r"type\s+ExpressionStack\s*=\s*\[[^;]*;\s*(\d+)\s*\]",
        "SOS_RESULT": r"type\s+Result\s*=\s*\[[^;]*;\s*(\d+)\s*\]",
    }
    defaults = {"SOS_RULES": 192, "SOS_ROWS": 4, "SOS_EVAL_STACK": 64, "SOS_EXPR_STACK": 4, "SOS_RESULT": 1}
    for k, p in pats.items():
        m = re.search(p, s)
        if m:
            d[k] = int(m.group(1))
        else:
            fallbacks.append(k)
            d[k] = defaults[k]
    # which storage MustNotAllocateDuringUnwind is wired to
    m = re.search(r"impl\s+AllocationPolicy\s+for\s+MustNotAllocateDuringUnwind\s*\{(.*?)\}", s, re.S)
    must_on_stack = True
    if m:
        body = m.group(1)
        must_on_stack = ("StoreOnHeap" not in body) and body.count("StoreOnStack") >= 2
    else:
        fallbacks.append("MUST_POLICY")
    d["MUST_IS_ON_STACK"] = must_on_stack
    return d

def expr_max_iterations():
    """The bound eval_expr (src/dwarf.rs) sets on gimli's expression evaluator: the argument of
    `set_max_iterations` in its body (a literal, or a `const` of the file).  None if the body sets no bound."""
    s = strip_comments(read("src/dwarf.rs"))
    body = fn_body(s, r"fn\s+eval_expr\s*<")
    if body is None:
        fallbacks.append("EXPR_MAX_ITERATIONS")
        return 1000
    m = re.search(r"\.set_max_iterations\(\s*([A-Za-z_0-9]+)\s*\)", body)
    if not m:
        return None
    a = m.group(1)
    if re.fullmatch(r"[0-9_]+(u32)?", a):
        return int(a.replace("u32", "").replace("_", ""))
    c = re.search(r"const\s+%s\s*:\s*u32\s*=\s*([0-9_]+)\s*;" % re.escape(a), s)
    if not c:
        fallbacks.append("EXPR_MAX_ITERATIONS")
        return 1000
    return int(c.group(1).replace("_", ""))

def pe_chain_limit():
    """x86_64/pe.rs: the bound on the walk over chained UNWIND_INFOs - the constant the chain counter is compared with
    (`chain_len > LIMIT`). None if the loop compares its counter with nothing (cyclic chains would never end: S11e)."""
    s = strip_comments(read("src/x86_64/pe.rs"))
    m = re.search(r"chain_len\s*>=?\s*([A-Za-z_0-9]+)", s)
    if not m:
        return None
    a = m.group(1)
    if re.fullmatch(r"[0-9_]+(usize)?", a):
        return int(a.replace("usize", "").replace("_", ""))
    c = re.search(r"const\s+%s\s*:\s*usize\s*=\s*([0-9_]+)\s*;" % re.escape(a), s)
    if not c:
        fallbacks.append("PE_CHAIN_LIMIT")
        return 32
    return int(c.group(1).replace("_", ""))

def gen_steps():
    """Atomic-step list of next_global_modules_generation().
    fetch_add(k, _) -> [FetchAdd k]; x.load(_) ... x.store(v+k, _) -> [Load; StoreLoadedPlus k];
    anything else -> [Unknown]."""
    s = strip_comments(read("src/unwinder.rs"))
    m = re.search(r"fn\s+next_global_modules_generation\s*\(\s*\)\s*->\s*(\w+)\s*\{(.*?)\n\}", s, re.S)
    width = 16
    init = 0
    mi = re.search(r"static\s+GLOBAL_MODULES_GENERATION\s*:\s*Atomic(U\d+)\s*=\s*AtomicU\d+::new\((\d+)\)", s)
    if mi:
        width = int(mi.group(1)[1:])
        init = int(mi.group(2))
    else:
        fallbacks.append("GLOBAL_MODULES_GENERATION")
    if not m:
        fallbacks.append("next_global_modules_generation")
        return width, init, ["(FetchAdd 1)"]
    body = m.group(2)
    steps = []
    toks = re.findall(r"GLOBAL_MODULES_GENERATION\s*\.\s*(\w+)\s*\(([^;]*?)\)\s*[;\n}]", body + "\n")
    for name, args in toks:
        if name == "fetch_add":
            k = re.match(r"\s*(\d+)", args)
            steps.append("(FetchAdd %d)" % (int(k.group(1)) if k else 1))
        elif name == "load":
            steps.append("Load")
        elif name == "store":
            k = re.search(r"\+\s*(\d+)", args) or re.search(r"wrapping_add\((\d+)\)", args)
            steps.append("(StoreLoadedPlus %d)" % (int(k.group(1)) if k else 1))
        elif name in ("fetch_update", "compare_exchange", "compare_exchange_weak", "swap"):
            steps.append("Unknown")
        else:
            steps.append("Unknown")
    if not steps:
        steps = ["Unknown"]
    # frame condition: the counter is touched nowhere else (its definition and the accesses inside the drawing
    # function are all the mentions there are in the crate); any other mention is an access the model does not know
    import glob as _glob
    mentions = 0
    for fn in _glob.glob(os.path.join(REPO, "src", "**", "*.rs"), recursive=True):
        mentions += len(re.findall(r"\bGLOBAL_MODULES_GENERATION\b", strip_comments(open(fn).read())))
    inside = len(re.findall(r"\bGLOBAL_MODULES_GENERATION\b", body))
    if mentions != inside + 1:
        steps.append("Unknown")
    return width, init, steps

def fn_body(src, header_re):
    """text between the braces of the first fn whose header matches"""
    m = re.search(header_re, src)
    if not m:
        return None
    i = src.index("{", m.end() - 1) if src[m.end() - 1] != "{" else m.end() - 1
    depth = 0
    for j in range(i, len(src)):
        if src[j] == "{":
            depth += 1
        elif src[j] == "}":
            depth -= 1
            if depth == 0:
                return src[i + 1:j]
    return None

def module_new_selectors():
    """ModuleUnwindDataInternal::new: the top-level statements that pick the unwind-data kind.
    Returns (selectors, unguarded_names): selectors = [(feature or None, section name, returns)] for every
    top-level `if let Some(_) = section_info.section_data(b"NAME")` (with the #[cfg(feature = "...")] in front of
    it), in source order; unguarded_names = every section name consulted outside feature-guarded statements."""
    s = strip_comments(read("src/unwinder.rs"))
    mi = re.search(r"impl\s*<[^{]*>\s*ModuleUnwindDataInternal\s*<\s*D\s*>\s*\{", s)
    body = fn_body(s[mi.start():], r"fn\s+new\s*\([^)]*\)\s*->\s*Self\s*\{") if mi else None
    if body is None:
        fallbacks.append("ModuleUnwindDataInternal::new")
        return [("macho", "__unwind_info", True), ("pe", ".pdata", True), (None, ".eh_frame", False)], \
               [".eh_frame", "__eh_frame", ".eh_frame_hdr", "__eh_frame_hdr", ".debug_frame"]
    # split into top-level statements (depth 0 inside the body)
    stmts = []
    depth = 0
    cur = ""
    for ch in body:
        cur += ch
        if ch in "{([":
            depth += 1
        elif ch in "})]":
            depth -= 1
            if depth == 0 and ch == "}":
                stmts.append(cur); cur = ""
        elif ch == ";" and depth == 0:
            stmts.append(cur); cur = ""
    if cur.strip():
        stmts.append(cur)
    sels = []
    unguarded = []
    for st in stmts:
        t = st.strip()
        feat = None
        mg = re.match(r"#\s*\[\s*cfg\s*\((.*?)\)\s*\]\s*", t, re.S)
        guard_text = None
        if mg:
            guard_text = mg.group(1)
            mf = re.fullmatch(r"\s*feature\s*=\s*\"(\w+)\"\s*", guard_text)
            feat = mf.group(1) if mf else "other:" + re.sub(r"\s+", "", guard_text)
            t = t[mg.end():]
        msel = re.match(r"(?:else\s+)?if\s+let\s+Some\s*\(\s*\w+\s*\)\s*=\s*section_info\s*\.\s*section_data\s*\(\s*b\"([^\"]+)\"\s*\)", t, re.S)
        if msel:
            sels.append((feat, msel.group(1), bool(re.search(r"\breturn\b", t))))
        if feat is None:
            unguarded += re.findall(r"b\"([^\"]+)\"", t)
    seen = []
    for n in unguarded:
        if n not in seen:
            seen.append(n)
    return sels, seen

def state_dependent_errors():
    """error.rs, UnwinderError::depends_on_registers_or_stack: the arms that answer `true`, as
    (guarding feature of the arm or None, "Enum::Variant") in source order. A `#[cfg]` attribute in front of an arm
    guards the WHOLE arm, every alternative of its or-pattern included."""
    s = strip_comments(read("src/error.rs"))
    body = fn_body(s, r"fn\s+depends_on_registers_or_stack\s*\(\s*&self\s*\)\s*->\s*bool")
    if body is None:
        fallbacks.append("STATE_DEPENDENT_ERRORS")
        return None
    m = re.search(r"match\s+self\s*\{(.*)\}", body, re.S)
    if not m:
        fallbacks.append("STATE_DEPENDENT_ERRORS")
        return None
    arms = re.split(r"=>\s*(true|false)\s*,", m.group(1))
    out = []
    for i in range(0, len(arms) - 1, 2):
        pat, val = arms[i], arms[i + 1]
        if val != "true":
            continue
        g = re.search(r'#\[cfg\(feature\s*=\s*"(\w+)"\)\]', pat)
        guard = g.group(1) if g else None
        # Self::Enum( A::V1 | A::V2(_) | ... ) possibly several groups joined by |
        for em in re.finditer(r"Self::(\w+)\s*\(((?:[^()]|\([^()]*\))*)\)", pat):
            enum = em.group(1)
            for v in re.findall(r"::(\w+)", em.group(2)):
                out.append((guard, "%s::%s" % (enum, v)))
    if not out:
        fallbacks.append("STATE_DEPENDENT_ERRORS")
        return None
    return out

def write_if_changed(path, text):
    os.makedirs(os.path.dirname(path), exist_ok=True)
    old = None
    try:
        old = open(path).read()
    except OSError:
        pass
    if old != text:
        open(path, "w").write(text)
        print("UPDATED", os.path.basename(path))

def feat_consts():
    sels, names = module_new_selectors()
    out = ["(* GENERATED by tools/extract_consts.py from /repo/src/unwinder.rs (ModuleUnwindDataInternal::new) - do not edit. *)",
           "From Coq Require Import String List.", "Import ListNotations.", "Open Scope string_scope.",
           "Inductive feature := FStd | FMacho | FPe | FOther.",
           "(* top-level selectors of the unwind-data kind, in source order: (guarding feature, section, returns) *)"]
    fm = {"std": "FStd", "macho": "FMacho", "pe": "FPe"}
    def f(x):
        return "None" if x is None else "(Some %s)" % fm.get(x, "FOther")
    out.append("Definition SRC_NEW_SELECTORS : list (option feature * string * bool) := [" +
               "; ".join('(%s, "%s", %s)' % (f(a), b, "true" if c else "false") for a, b, c in sels) + "].")
    out.append("Definition SRC_NEW_UNGUARDED_NAMES : list string := [" + "; ".join('"%s"' % n for n in names) + "].")
    sde = state_dependent_errors()
    out.append("(* error.rs depends_on_registers_or_stack: the errors that are NOT cached as the fallback rule, with the feature that")
    out.append("   guards their match arm (None when the source cannot be read that way) *)")
    if sde is None:
        out.append("Definition SRC_STATE_DEPENDENT_ERRORS : option (list (option feature * string)) := None.")
    else:
        out.append("Definition SRC_STATE_DEPENDENT_ERRORS : option (list (option feature * string)) := Some [" +
                   "; ".join('(%s, "%s")' % (f(g), n) for g, n in sde) + "].")
    write_if_changed(os.path.join(os.path.dirname(OUT), "FeatConsts.v"), "\n".join(out) + "\n")
    return sels, names

def main():
    feat_sels, feat_names = feat_consts()
    cec = cache_entry_count()
    enc = encode_registers()
    regs = reg_order()
    sos = store_on_stack()
    width, init, steps = gen_steps()
    maxit = expr_max_iterations()
    out = []
    out.append("(* GENERATED by tools/extract_consts.py from /repo's source - do not edit. *)")
    out.append("From Coq Require Import NArith List.")
    out.append("Import ListNotations.")
    out.append("Open Scope N_scope.")
    out.append("Definition CACHE_ENTRY_COUNT : N := %d." % cec)
    out.append("(* register names as strings-free enumerations: indices into the model's reg type *)")
    out.append("Inductive regname := " + " | ".join("N_" + r for r in "RAX RDX RCX RBX RSI RDI RBP RSP R8 R9 R10 R11 R12 R13 R14 R15".split()) + " | N_OTHER.")
    def rn(x):
        return "N_" + x if x in "RAX RDX RCX RBX RSI RDI RBP RSP R8 R9 R10 R11 R12 R13 R14 R15".split() else "N_OTHER"
    out.append("Definition SRC_ENCODE_REGISTERS : list regname := [" + "; ".join(rn(r) for r in enc) + "].")
    out.append("Definition SRC_REG_ORDER : list regname := [" + "; ".join(rn(r) for r in regs) + "].")
    for k in ("SOS_RULES", "SOS_ROWS", "SOS_EVAL_STACK", "SOS_EXPR_STACK", "SOS_RESULT"):
        out.append("Definition %s : N := %d." % (k, sos[k]))
    out.append("Definition MUST_IS_ON_STACK : bool := %s." % ("true" if sos["MUST_IS_ON_STACK"] else "false"))
    out.append("Inductive astep := FetchAdd (k : N) | Load | StoreLoadedPlus (k : N) | Unknown.")
    out.append("Definition GEN_WIDTH : N := %d." % width)
    out.append("Definition GEN_INIT : N := %d." % init)
    out.append("Definition SRC_DRAW_STEPS : list astep := [" + "; ".join(steps) + "].")
    out.append("(* eval_expr's bound on gimli's expression evaluator (None: no bound is set) *)")
    out.append("Definition EXPR_MAX_ITERATIONS : option N := %s." % ("None" if maxit is None else "Some %d" % maxit))
    pcl = pe_chain_limit()
    out.append("(* x86_64/pe.rs: the bound on the walk over chained unwind infos (None: the walk is not bounded) *)")
    out.append("Definition PE_CHAIN_LIMIT : option N := %s." % ("None" if pcl is None else "Some %d" % pcl))
    text = "\n".join(out) + "\n"
    os.makedirs(os.path.dirname(OUT), exist_ok=True)
    old = None
    try:
        old = open(OUT).read()
    except OSError:
        pass
    if old != text:
        open(OUT, "w").write(text)
        print("UPDATED Consts.v")
    for f in fallbacks:
        print("FALLBACK", f)
    print(json.dumps({"CACHE_ENTRY_COUNT": cec, "ENCODE_REGISTERS": enc, "REG_ORDER": regs,
                      "SOS": sos, "EXPR_MAX_ITERATIONS": maxit, "GEN_WIDTH": width, "GEN_INIT": init, "DRAW_STEPS": steps,
                      "NEW_SELECTORS": feat_sels, "NEW_UNGUARDED_NAMES": feat_names,
                      "fallbacks": fallbacks}))

if __name__ == "__main__":
    main()
