#!/usr/bin/env python3
"""coverage.py [tier] [props...] - which lines / regions of /repo/src do the generated inputs of the checks reach?
Not a check and not evidence of correctness: a tool for finding the inputs the generators do not produce
(every seeded change a check missed was a branch its inputs never took, or took with one value only).
Builds the harness with -C instrument-coverage (nightly toolchain, its own target directory), runs
every script of every property's generator, merges the profiles and prints the uncovered lines of
framehop's sources (functions never entered first)."""
import sys, os, subprocess, importlib, json, glob, shutil
ROOT = "/verif"
sys.path.insert(0, os.path.join(ROOT, "gen")); sys.path.insert(0, os.path.join(ROOT, "gen", "props"))
import fhgen
tier = sys.argv[1] if len(sys.argv) > 1 else "quick"
props = sys.argv[2:] or ["C%02d" % i for i in range(1, 21)]
BUILD = os.path.join(ROOT, ".build", "cov")
shutil.rmtree(BUILD, ignore_errors=True)
os.makedirs(os.path.join(BUILD, "scripts"))
TC = "nightly"
bindir = subprocess.check_output(["rustc", "+" + TC, "--print", "sysroot"], text=True).strip() + "/lib/rustlib/x86_64-unknown-linux-gnu/bin"
env = dict(os.environ, RUSTFLAGS="--cfg framehop_verif -C instrument-coverage", CARGO_TARGET_DIR=os.path.join(BUILD, "target"),
           CARGO_NET_OFFLINE="true", LLVM_PROFILE_FILE=os.path.join(BUILD, "prof", "build-%p.profraw"))   # build scripts are instrumented too: keep their profiles out of /repo
r = subprocess.run(["cargo", "+" + TC, "build", "--offline"], cwd=os.path.join(ROOT, "harness"), env=env, capture_output=True, text=True)
if r.returncode:
    print(r.stderr[-3000:]); sys.exit(1)
binp = os.path.join(BUILD, "target", "debug", "fh-harness")
n = 0
for p in props:
    mod = importlib.import_module("props." + p)
    rng = fhgen.Rng(1)
    for name, s in mod.generate(rng, tier):
        path = os.path.join(BUILD, "scripts", "%s-%s.txt" % (p, name))
        open(path, "w").write(s.text())
        e = dict(os.environ, LLVM_PROFILE_FILE=os.path.join(BUILD, "prof", "%s-%d.profraw" % (p, n)))
        try:
            subprocess.run([binp, path, "4000"], env=e, capture_output=True, timeout=600)
        except subprocess.TimeoutExpired:
            pass
        n += 1
print("ran", n, "scripts")
subprocess.check_call([bindir + "/llvm-profdata", "merge", "-sparse", "-o", os.path.join(BUILD, "all.profdata")] + glob.glob(os.path.join(BUILD, "prof", "*.profraw")))
out = subprocess.check_output([bindir + "/llvm-cov", "export", "-format=text", "-instr-profile", os.path.join(BUILD, "all.profdata"), binp,
                               "--ignore-filename-regex", r"(\.cargo|rustc|harness)"], text=True)
data = json.loads(out)["data"][0]
rep = []
for f in data["files"]:
    fn = f["filename"]
    if "/repo/src/" not in fn:
        continue
    # segments: [line, col, count, has_count, is_region_entry, is_gap]
    unc = set()
    segs = f["segments"]
    for i, sg in enumerate(segs):
        line, col, count, has_count, entry = sg[0], sg[1], sg[2], sg[3], sg[4]
        if has_count and count == 0 and entry:
            unc.add(line)
    s = f["summary"]
    rep.append((fn.replace("/repo/src/", ""), s["lines"]["percent"], s["regions"]["count"] - s["regions"]["covered"], sorted(unc)))
rep.sort()
src_cache = {}
with open(os.path.join(BUILD, "report.txt"), "w") as o:
    for fn, pct, nunc, lines in rep:
        o.write("%-50s lines %.1f%%  uncovered regions %d\n" % (fn, pct, nunc))
        src = open("/repo/src/" + fn).read().split("\n")
        for l in lines:
            o.write("    %5d  %s\n" % (l, src[l - 1].strip()[:140]))
print(open(os.path.join(BUILD, "report.txt")).read())
