#!/usr/bin/env python3
"""confirm_mutant.py <worktree> <patch.diff> <demo.rs> <property> <name> [vcheck verdict text]
Confirms in the scratch worktree that: the demo passes at HEAD, the patch applies and compiles, the
baseline suite's pass set is unchanged with the patch, the demo fails with the patch.  On success
stores the mutant under /verif/seeded/<name>/ (patch.diff, demo.rs, meta.json)."""
import sys, os, subprocess, json, re, shutil
wt, patch, demo, prop, name = sys.argv[1:6]
needs = sys.argv[6] if len(sys.argv) > 6 else ""
env = dict(os.environ, CARGO_NET_OFFLINE="true")
def sh(cmd):
    p = subprocess.run(cmd, shell=True, cwd=wt, capture_output=True, text=True, env=env)
    return p.returncode, p.stdout + p.stderr
def suite():
    rc, out = sh("cargo test --offline --no-fail-fast --lib --test integration_tests 2>&1")
    res = dict(re.findall(r"^test (\S+) \.\.\. (\w+)", out, re.M))
    return {k for k, v in res.items() if v == "ok"}, out
sh("git checkout -- . && rm -f tests/zz_demo.rs")
base = json.load(open("/root/.vp/BASELINE.json"))["stable_pass"]
base = {t.replace("framehop::integration_tests::", "").replace("framehop::", "", 1) for t in base}
# DEMO_FLAGS: extra cargo flags for the demo run (e.g. a feature subset); a .sh demo is run with bash instead
flags = os.environ.get("DEMO_FLAGS", "")
is_sh = demo.endswith(".sh")
if is_sh:
    shutil.copy(demo, os.path.join(wt, "zz_demo.sh"))
    demo_cmd = "bash zz_demo.sh 2>&1"
else:
    shutil.copy(demo, os.path.join(wt, "tests", "zz_demo.rs"))
    demo_cmd = "cargo test --offline %s --test zz_demo 2>&1" % flags
rc0, out0 = sh(demo_cmd)
demo_head = (rc0 == 0)
rc, out = sh("git apply %s" % patch)
if rc != 0:
    print("PATCH DOES NOT APPLY", out); sys.exit(1)
rc1, out1 = sh(demo_cmd)
demo_patched_fails = (rc1 != 0) and (is_sh or ("error[" not in out1 and "could not compile" not in out1))
passed, sout = suite()
suite_ok = base <= passed
sh("git checkout -- . && rm -f tests/zz_demo.rs zz_demo.sh")
ok = demo_head and demo_patched_fails and suite_ok
print("demo passes at HEAD:", demo_head, "| demo fails with patch:", demo_patched_fails, "| baseline pass set intact:", suite_ok, "(%d/%d)" % (len(base & passed), len(base)))
if not ok:
    print(out0[-800:] if not demo_head else "", out1[-800:] if not demo_patched_fails else "")
    sys.exit(1)
d = os.path.join("/verif/seeded", name)
os.makedirs(d, exist_ok=True)
shutil.copy(patch, os.path.join(d, "patch.diff"))
shutil.copy(demo, os.path.join(d, "demo.sh" if is_sh else "demo.rs"))
notes = os.path.splitext(patch)[0].replace("patch", "notes") + ".md"
if os.path.exists(notes):
    shutil.copy(notes, os.path.join(d, "notes.md"))
json.dump({"property": prop, "needs_to_manifest": needs,
           "confirmed": {"demo_passes_at_head": demo_head, "demo_fails_with_patch": demo_patched_fails,
                         "baseline_pass_set_intact": suite_ok},
           "ran": ["git apply patch.diff (scratch worktree %s)" % wt, "cargo test --offline --no-fail-fast --lib --test integration_tests",
                   (demo_cmd + " with and without the patch")]},
          open(os.path.join(d, "meta.json"), "w"), indent=1)
print("stored", d)
