(* driver.ml - runs the extracted Coq model (model.ml) on a script; prints one canonical result
   line per operation, in the same format as the Rust harness.  Hand-written glue: the token
   parser, the conversions between decimal/hex text and the extracted N / Z, id tables,
   and a Hashtbl-backed memory (extensionally the model's mem_of_list with first-binding-wins). *)
open Model

(* ---------- numbers ---------- *)
let rec pos_of_int64 (x : int64) : positive =
  (* x > 0 as unsigned *)
  if Int64.equal x 1L then XH
  else
    let rest = Int64.shift_right_logical x 1 in
    if Int64.equal (Int64.logand x 1L) 1L then XI (pos_of_int64 rest) else XO (pos_of_int64 rest)

let n_of_int64 (x : int64) : n = if Int64.equal x 0L then N0 else Npos (pos_of_int64 x)

let rec int64_of_pos (p : positive) : int64 =
  match p with
  | XH -> 1L
  | XO q -> Int64.shift_left (int64_of_pos q) 1
  | XI q -> Int64.logor (Int64.shift_left (int64_of_pos q) 1) 1L

let int64_of_n (x : n) : int64 = match x with N0 -> 0L | Npos p -> int64_of_pos p

let parse_u64 (s : string) : int64 =
  if String.length s > 2 && s.[0] = '0' && (s.[1] = 'x' || s.[1] = 'X') then Int64.of_string s
  else Int64.of_string ("0u" ^ s)

let n_of_string s = n_of_int64 (parse_u64 s)

let z_of_string (s : string) : z =
  if String.length s > 0 && s.[0] = '-' then
    let m = parse_u64 (String.sub s 1 (String.length s - 1)) in
    if Int64.equal m 0L then Z0 else Zneg (pos_of_int64 m)
  else
    let m = parse_u64 s in
    if Int64.equal m 0L then Z0 else Zpos (pos_of_int64 m)

let hex (x : n) : string = Printf.sprintf "0x%Lx" (int64_of_n x)
let dec (x : n) : string = Printf.sprintf "%Lu" (int64_of_n x)
let zdec (x : z) : string =
  match x with
  | Z0 -> "0"
  | Zpos p -> Printf.sprintf "%Lu" (int64_of_pos p)
  | Zneg p -> Printf.sprintf "-%Lu" (int64_of_pos p)

let rec nat_of_int (i : int) : nat = if i <= 0 then O else S (nat_of_int (i - 1))

(* ---------- tokens ---------- *)
type toks = { t : string array; mutable i : int }

let mk_toks (line : string) : toks =
  let l = List.filter (fun s -> s <> "") (String.split_on_char ' ' line) in
  { t = Array.of_list l; i = 0 }

let next (k : toks) : string =
  let s = if k.i < Array.length k.t then k.t.(k.i) else "" in
  k.i <- k.i + 1;
  s

let skip_to (k : toks) (marker : string) : unit =
  while k.i < Array.length k.t && k.t.(k.i) <> marker do
    k.i <- k.i + 1
  done;
  k.i <- k.i + 1

let nx k = n_of_string (next k)
let zx k = z_of_string (next k)
let ix k = int_of_string (next k)

(* ---------- ids ---------- *)
let ids : (string, n) Hashtbl.t = Hashtbl.create 64
let id_of (s : string) : n =
  match Hashtbl.find_opt ids s with
  | Some x -> x
  | None ->
    let x = n_of_int64 (Int64.of_int (Hashtbl.length ids + 1)) in
    Hashtbl.add ids s x;
    x

(* ---------- memory ---------- *)
let mems : (string, mem) Hashtbl.t = Hashtbl.create 16

let parse_mem (k : toks) : unit =
  let id = next k in
  let cnt = ix k in
  let tbl : (int64, n) Hashtbl.t = Hashtbl.create (2 * cnt + 1) in
  for _ = 1 to cnt do
    let a = parse_u64 (next k) in
    let v = nx k in
    if not (Hashtbl.mem tbl a) then Hashtbl.add tbl a v
  done;
  Hashtbl.replace mems id (fun a -> Hashtbl.find_opt tbl (int64_of_n a))

(* ---------- printing ---------- *)
let fmt_err (e : error) : string =
  match e with
  | CouldNotReadStack a -> "err CouldNotReadStack " ^ hex a
  | FpMovedBackwards -> "err FpMovedBackwards"
  | DidNotAdvance -> "err DidNotAdvance"
  | IntegerOverflow -> "err IntegerOverflow"
  | ReturnAddressIsNull -> "err ReturnAddressIsNull"

let fmt_panic (s : site) : string = if site_is_own s then "panic own" else "panic dep"

let fmt_res (r : n option res) : string =
  match r with
  | Ok (Some a) -> "ok some " ^ hex a
  | Ok None -> "ok none"
  | Err e -> fmt_err e
  | Panic s -> fmt_panic s
  | Hang -> "hang"

let fmt_fres (r : faddr option res) : string =
  match r with
  | Ok (Some (IP a)) -> "ok ip " ^ hex a
  | Ok (Some (RA a)) -> "ok ra " ^ hex a
  | Ok None -> "ok none"
  | Err e -> fmt_err e
  | Panic s -> fmt_panic s
  | Hang -> "hang"

let all_regs = [ RAX; RDX; RCX; RBX; RSI; RDI; RBP; RSP; R8; R9; R10; R11; R12; R13; R14; R15 ]

let reg_name = function
  | RAX -> "RAX" | RDX -> "RDX" | RCX -> "RCX" | RBX -> "RBX" | RSI -> "RSI" | RDI -> "RDI"
  | RBP -> "RBP" | RSP -> "RSP" | R8 -> "R8" | R9 -> "R9" | R10 -> "R10" | R11 -> "R11"
  | R12 -> "R12" | R13 -> "R13" | R14 -> "R14" | R15 -> "R15"

let reg_by_name = function
  | "RAX" -> RAX | "RDX" -> RDX | "RCX" -> RCX | "RBX" -> RBX | "RSI" -> RSI | "RDI" -> RDI
  | "RBP" -> RBP | "RSP" -> RSP | "R8" -> R8 | "R9" -> R9 | "R10" -> R10 | "R11" -> R11
  | "R12" -> R12 | "R13" -> R13 | "R14" -> R14 | "R15" -> R15
  | s -> failwith ("bad reg " ^ s)

let reg_index r =
  let rec go l i = match l with [] -> -1 | x :: t -> if x = r then i else go t (i + 1) in
  go all_regs 0

let policy_must = ref false

let parse_regs_x86 (k : toks) : regs =
  let i = nx k in
  let arr = Array.make 16 N0 in
  for j = 0 to 15 do
    arr.(j) <- nx k
  done;
  { ip = i; rf = (fun r -> arr.(reg_index r)) }

let fmt_regs_x86 (rg : regs) : string =
  String.concat " " (hex rg.ip :: List.map (fun r -> hex (rg.rf r)) all_regs)

let parse_regs_a64 (k : toks) : aregs =
  let m = nx k in
  let l = nx k in
  let s = nx k in
  let f = nx k in
  aregs_new_with_mask m l s f

let fmt_regs_a64 (rg : aregs) : string =
  String.concat " " [ hex rg.mask0; hex rg.lr; hex rg.asp; hex rg.afp ]

let parse_rule_x86 (k : toks) : rule =
  match next k with
  | "EndOfStack" -> EndOfStack
  | "JustReturn" -> JustReturn
  | "JustReturnIfFirstFrameOtherwiseFp" -> JustReturnIfFirstFrameOtherwiseFp
  | "OffsetSp" -> OffsetSp (nx k)
  | "OffsetSpAndRestoreBp" ->
    let a = nx k in
    let y = zx k in
    OffsetSpAndRestoreBp (a, y)
  | "UseFramePointer" -> UseFramePointer
  | "OffsetSpAndPopRegisters" ->
    let a = nx k in
    let c = nx k in
    let e = nx k in
    OffsetSpAndPopRegisters (a, c, e)
  | s -> failwith ("bad rule " ^ s)

let fmt_rule_x86 (r : rule) : string =
  match r with
  | EndOfStack -> "EndOfStack"
  | JustReturn -> "JustReturn"
  | JustReturnIfFirstFrameOtherwiseFp -> "JustReturnIfFirstFrameOtherwiseFp"
  | OffsetSp a -> "OffsetSp " ^ dec a
  | OffsetSpAndRestoreBp (a, y) -> "OffsetSpAndRestoreBp " ^ dec a ^ " " ^ zdec y
  | UseFramePointer -> "UseFramePointer"
  | OffsetSpAndPopRegisters (a, c, e) ->
    "OffsetSpAndPopRegisters " ^ dec a ^ " " ^ dec c ^ " " ^ dec e

let parse_rule_a64 (k : toks) : arule =
  match next k with
  | "NoOp" -> ANoOp
  | "NoOpIfFirstFrameOtherwiseFp" -> ANoOpIfFirstFrameOtherwiseFp
  | "OffsetSp" -> AOffsetSp (nx k)
  | "OffsetSpIfFirstFrameOtherwiseStackEndsHere" ->
    AOffsetSpIfFirstFrameOtherwiseStackEndsHere (nx k)
  | "OffsetSpAndRestoreLr" ->
    let a = nx k in
    let l = zx k in
    AOffsetSpAndRestoreLr (a, l)
  | "OffsetSpAndRestoreFpAndLr" ->
    let a = nx k in
    let f = zx k in
    let l = zx k in
    AOffsetSpAndRestoreFpAndLr (a, f, l)
  | "UseFramePointer" -> AUseFramePointer
  | "UseFramepointerWithOffsets" ->
    let a = nx k in
    let f = zx k in
    let l = zx k in
    AUseFramepointerWithOffsets (a, f, l)
  | s -> failwith ("bad rule " ^ s)

let fmt_rule_a64 (r : arule) : string =
  match r with
  | ANoOp -> "NoOp"
  | ANoOpIfFirstFrameOtherwiseFp -> "NoOpIfFirstFrameOtherwiseFp"
  | AOffsetSp a -> "OffsetSp " ^ dec a
  | AOffsetSpIfFirstFrameOtherwiseStackEndsHere a ->
    "OffsetSpIfFirstFrameOtherwiseStackEndsHere " ^ dec a
  | AOffsetSpAndRestoreLr (a, l) -> "OffsetSpAndRestoreLr " ^ dec a ^ " " ^ zdec l
  | AOffsetSpAndRestoreFpAndLr (a, f, l) ->
    "OffsetSpAndRestoreFpAndLr " ^ dec a ^ " " ^ zdec f ^ " " ^ zdec l
  | AUseFramePointer -> "UseFramePointer"
  | AUseFramepointerWithOffsets (a, f, l) ->
    "UseFramepointerWithOffsets " ^ dec a ^ " " ^ zdec f ^ " " ^ zdec l

(* ---------- abstract unwind data ---------- *)
let parse_expr (k : toks) : expr =
  let cnt = ix k in
  let rec go i =
    if i = 0 then []
    else
      let o =
        match next k with
        | "breg" ->
          let r = nx k in
          let off = zx k in
          EBreg (r, off)
        | "lit" -> ELit (nx k)
        | "pluc" -> EPlusUconst (nx k)
        | "plus" -> EPlus
        | "and" -> EAnd
        | "shl" -> EShl
        | "ge" -> EGe
        | "deref" -> EDeref
        | _ -> EBad
      in
      o :: go (i - 1)
  in
  go cnt

let parse_cfa (k : toks) : cfa_rule =
  match next k with
  | "r" ->
    let r = nx k in
    let off = zx k in
    CfaRegOff (r, off)
  | "e" -> CfaExpr (parse_expr k)
  | s -> failwith ("bad cfa " ^ s)

let parse_regrule (k : toks) : reg_rule =
  match next k with
  | "u" -> RUndefined
  | "s" -> RSameValue
  | "o" -> ROffset (zx k)
  | "vo" -> RValOffset (zx k)
  | "reg" -> RRegister (nx k)
  | "e" -> RExpr (parse_expr k)
  | "ve" -> RValExpr (parse_expr k)
  | "arch" -> RArchitectural
  | s -> failwith ("bad regrule " ^ s)

let parse_row (k : toks) : row =
  let c = parse_cfa k in
  let f = parse_regrule k in
  let r = parse_regrule k in
  { r_cfa = c; r_fp = f; r_ra = r }

let parse_fdes (k : toks) : fde list =
  let cnt = ix k in
  let rec go i =
    if i = 0 then []
    else begin
      let st = nx k in
      let ln = nx k in
      let ok = ix k <> 0 in
      let nrows = ix k in
      let rec rows j =
        if j = 0 then []
        else begin
          let off = nx k in
          let rw = parse_row k in
          (off, rw) :: rows (j - 1)
        end
      in
      let rs = rows nrows in
      let f = { f_start = st; f_len = ln; f_rows = rs; f_ok = ok } in
      f :: go (i - 1)
    end
  in
  go cnt

let parse_pres = function
  | "hdr" -> PHdr
  | "eh" -> POwnEh
  | _ -> POwnDebug

type absdata = AbsNone | AbsDwarf of pres * fde list | AbsPe of pe_data | AbsMacho of macho_data

let parse_hex_bytes (s : string) : n list =
  if s = "-" then []
  else begin
    let len = String.length s / 2 in
    let rec go i acc =
      if i < 0 then acc
      else go (i - 1) (n_of_int64 (Int64.of_string ("0x" ^ String.sub s (2 * i) 2)) :: acc)
    in
    go (len - 1) []
  end

let parse_uop (k : toks) : uop =
  match next k with
  | "pop" -> UPop (nx k)
  | "alloc" -> UAlloc (nx k)
  | "setfp" -> USetFp
  | "save" ->
    let r = nx k in
    let o = nx k in
    USaveNonvol (r, o)
  | "savexmm" -> USaveXmm (nx k)
  | "mach" -> UMachFrame (ix k <> 0)
  | s -> failwith ("bad uop " ^ s)

let parse_pe (k : toks) : pe_data =
  let nf = ix k in
  let rec funcs i =
    if i = 0 then []
    else begin
      let b = nx k in
      let e = nx k in
      let u = nx k in
      { rt_begin = b; rt_end = e; rt_uinfo = u } :: funcs (i - 1)
    end
  in
  let fl = funcs nf in
  let nu = ix k in
  let rec uinfos i =
    if i = 0 then []
    else begin
      let rva = nx k in
      let ok = ix k <> 0 in
      let fpr = (match next k with "-" -> None | s -> Some (n_of_string s)) in
      let fpo = nx k in
      let nops = ix k in
      let rec ops j =
        if j = 0 then []
        else begin
          let off = nx k in
          let o = parse_uop k in
          (off, o) :: ops (j - 1)
        end
      in
      let ol = ops nops in
      let ch = (match next k with "-" -> None | s -> Some (n_of_string s)) in
      let u = { ui_fpreg = fpr; ui_fpoff = fpo; ui_ops = ol; ui_chain = ch } in
      (rva, (if ok then Some u else None)) :: uinfos (i - 1)
    end
  in
  let ul = uinfos nu in
  let text =
    match next k with
    | "text" ->
      let lo = nx k in
      let hi = nx k in
      let bytes = parse_hex_bytes (next k) in
      Some ((lo, hi), bytes)
    | _ -> None
  in
  { pe_funcs = fl; pe_uinfos = ul; pe_text = text }

(* macho <n> (start opcode)* end stubs_lo stubs_hi helper_lo helper_hi (text lo hex | notext) (eh k (off fde)* | noeh) *)
let parse_macho (k : toks) : macho_data =
  let n = ix k in
  let rec ents i = if i = 0 then [] else begin
      let st = nx k in let op = nx k in { me_start = st; me_opcode = op } :: ents (i - 1) end in
  let el = ents n in
  let en = nx k in
  let sl = nx k in let sh = nx k in
  let hl = nx k in let hh = nx k in
  let text = match next k with
    | "text" -> let lo = nx k in let bytes = parse_hex_bytes (next k) in Some (lo, bytes)
    | _ -> None in
  let eh = match next k with
    | "eh" ->
      let cnt = ix k in
      let rec go i = if i = 0 then [] else begin
          let off = nx k in
          let st = nx k in
          let ln = nx k in
          let ok = ix k <> 0 in
          let nrows = ix k in
          let rec rows j = if j = 0 then [] else begin
              let o = nx k in let rw = parse_row k in (o, rw) :: rows (j - 1) end in
          let rs = rows nrows in
          (off, { f_start = st; f_len = ln; f_rows = rs; f_ok = ok }) :: go (i - 1) end in
      Some (go cnt)
    | _ -> None in
  { m_entries = el; m_end = en; m_stubs = (sl, sh); m_helper = (hl, hh); m_text = text; m_eh = eh }

let parse_abs (k : toks) : absdata =
  match next k with
  | "none" -> AbsNone
  | "dwarf" ->
    let p = parse_pres (next k) in
    let fs = parse_fdes k in
    AbsDwarf (p, fs)
  | "pe" -> AbsPe (parse_pe k)
  | "macho" -> AbsMacho (parse_macho k)
  | s -> failwith ("bad abstract data " ^ s)

(* ---------- per-architecture runner ---------- *)
let fmt_stats (s : stats) : string =
  String.concat " " [ dec s.hit; dec s.miss_empty; dec s.miss_wrong_modules; dec s.miss_wrong_address ]

let b01 b = if b then "1" else "0"

let fmt_obs fmt_regs (o : 'r obs) : string =
  match o with
  | ObsNone -> "ok"
  | ObsBad -> "bad"
  | ObsGen g -> "gen " ^ dec g
  | ObsMax x -> "max " ^ hex x
  | ObsUnwind (r, rg, st, e) ->
    (match r with
     | Panic _ | Hang -> fmt_res r
     | _ ->
       Printf.sprintf "%s ; regs %s ; stats %s ; eff %s %s" (fmt_res r) (fmt_regs rg)
         (fmt_stats st) (b01 e.touched) (b01 e.alloc))

let regenc (k : toks) : string =
  let cnt = ix k in
  let rec go i = if i = 0 then [] else let r = reg_by_name (next k) in r :: go (i - 1) in
  let l = go cnt in
  match encode l with
  | None -> "none"
  | Some (Ok (c, e)) -> "some " ^ dec c ^ " " ^ dec e
  | Some (Panic s) -> fmt_panic s
  | Some _ -> "hang"

let regdec (k : toks) : string =
  let c = nx k in
  let e = nx k in
  match decode c e with
  | Ok l -> Printf.sprintf "regs %d %s" (List.length l) (String.concat " " (List.map reg_name l))
  | Panic s -> fmt_panic s
  | _ -> "hang"

(* the hand-written loop over unwind_frame (oracle side of C17), arch-generic glue *)
let manual_loop (uf : 'c -> faddr -> 'r -> ('ru, 'r) outcome) (pc : n) (rg : 'r) (c : 'c) (cnt : int)
  : string list * 'c =
  let out = ref [] in
  let addr = ref (IP pc) in
  let regs = ref rg in
  let cache = ref c in
  let fin = ref false in
  let stop = ref false in
  for i = 0 to cnt - 1 do
    if !stop then ()
    else if i = 0 then out := ("ok ip " ^ hex pc) :: !out
    else if !fin then out := "ok none" :: !out
    else begin
      let o = uf !cache !addr !regs in
      regs := o.o_regs;
      cache := o.o_cache;
      match o.o_res with
      | Ok (Some ra) ->
        if ra = N0 then out := "err ReturnAddressIsNull" :: !out
        else begin addr := RA ra; out := ("ok ra " ^ hex ra) :: !out end
      | Ok None -> fin := true; out := "ok none" :: !out
      | Err e -> out := fmt_err e :: !out
      | Panic s -> out := fmt_panic s :: !out; stop := true
      | Hang -> out := "hang" :: !out; stop := true
    end
  done;
  (List.rev !out, !cache)

(* like manual_loop but stops at the first non-frame result and shows sp / fp after each step *)
let trace_loop (uf : 'c -> faddr -> 'r -> ('ru, 'r) outcome) (spfp : 'r -> n * n) (pc : n) (rg : 'r) (c : 'c) (cnt : int)
  : string list * 'c =
  let out = ref [] in
  let addr = ref (IP pc) in
  let regs = ref rg in
  let cache = ref c in
  let stop = ref false in
  let s0, f0 = spfp rg in
  out := [ Printf.sprintf "ok ip %s sp=%s fp=%s" (hex pc) (hex s0) (hex f0) ];
  for _ = 1 to cnt - 1 do
    if !stop then ()
    else begin
      let o = uf !cache !addr !regs in
      regs := o.o_regs;
      cache := o.o_cache;
      let s1, f1 = spfp !regs in
      match o.o_res with
      | Ok (Some ra) ->
        if ra = N0 then begin out := "err ReturnAddressIsNull" :: !out; stop := true end
        else begin addr := RA ra; out := Printf.sprintf "ok ra %s sp=%s fp=%s" (hex ra) (hex s1) (hex f1) :: !out end
      | Ok None -> out := "ok none" :: !out; stop := true
      | Err e -> out := fmt_err e :: !out; stop := true
      | Panic s -> out := fmt_panic s :: !out; stop := true
      | Hang -> out := "hang" :: !out; stop := true
    end
  done;
  (List.rev !out, !cache)

let run_x86 (lines : string list) : unit =
  let w = ref (world0 N0) in
  let mods : (string, xmodule) Hashtbl.t = Hashtbl.create 16 in
  List.iteri
    (fun idx line ->
      let lineno = idx + 1 in
      let k = mk_toks line in
      let op = next k in
      if op = "" || op.[0] = '#' || op = "config" then ()
      else begin
        let res =
          match op with
          | "mem" -> parse_mem k; "ok"
          | "mod" ->
            let id = next k in
            let st = nx k in
            let en = nx k in
            let ba = nx k in
            let bs = nx k in
            skip_to k "A";
            let d = match parse_abs k with AbsNone -> MNone | AbsDwarf (p, fs) -> MDwarf (p, fs) | AbsPe pe -> MPe pe | AbsMacho d -> MMacho d in
            (* MustNotAllocateDuringUnwind: expressions evaluated on the fixed-size stack (Policy.v) *)
            let d = if !policy_must then cap_mdata d else d in
            Hashtbl.replace mods id { mstart = st; mend = en; base_avma = ba; base_svma = bs; mdat = d };
            "ok"
          | "new" ->
            let w', o = run_op_x !w (ONew (id_of ("u:" ^ next k))) in
            w := w'; fmt_obs fmt_regs_x86 o
          | "add" ->
            let u = id_of ("u:" ^ next k) in
            (match Hashtbl.find_opt mods (next k) with
             | None -> "bad"
             | Some m ->
               let w', o = run_op_x !w (OAdd (u, m)) in
               w := w'; fmt_obs fmt_regs_x86 o)
          | "remove" ->
            let u = id_of ("u:" ^ next k) in
            let st = nx k in
            let w', o = run_op_x !w (ORemove (u, st)) in
            w := w'; fmt_obs fmt_regs_x86 o
          | "clone" ->
            let u = id_of ("u:" ^ next k) in
            let v = id_of ("u:" ^ next k) in
            let w', o = run_op_x !w (OClone (u, v)) in
            w := w'; fmt_obs fmt_regs_x86 o
          | "clonefrom" ->                                   (* Clone::clone_from: dst becomes a clone of src *)
            let v = id_of ("u:" ^ next k) in
            let u = id_of ("u:" ^ next k) in
            let w', o = run_op_x !w (OClone (u, v)) in
            w := w'; fmt_obs fmt_regs_x86 o
          | "newcache" ->
            let w', o = run_op_x !w (ONewCache (id_of ("c:" ^ next k))) in
            w := w'; fmt_obs fmt_regs_x86 o
          | "max" ->
            let w', o = run_op_x !w (OMax (id_of ("u:" ^ next k))) in
            w := w'; fmt_obs fmt_regs_x86 o
          | "gen" ->
            (match !w.unws (id_of ("u:" ^ next k)) with
             | Some u -> "gen " ^ dec u.gen
             | None -> "bad")
          | "stats" ->
            (match !w.caches (id_of ("c:" ^ next k)) with
             | Some c -> "stats " ^ fmt_stats c.cstats
             | None -> "bad")
          | "unwind" ->
            let u = id_of ("u:" ^ next k) in
            let c = id_of ("c:" ^ next k) in
            let kind = next k in
            let a = nx k in
            let rg = parse_regs_x86 k in
            (match Hashtbl.find_opt mems (next k) with
             | None -> "bad"
             | Some m ->
               if kind = "ra" && a = N0 then "bad"
               else begin
                 let fa = if kind = "ip" then IP a else RA a in
                 let w', o = run_op_x !w (OUnwind (u, c, fa, rg, m)) in
                 w := w'; fmt_obs fmt_regs_x86 o
               end)
          | "iter" ->
            let u = id_of ("u:" ^ next k) in
            let c = id_of ("c:" ^ next k) in
            let pc = nx k in
            let rg = parse_regs_x86 k in
            let memid = next k in
            let cnt = ix k in
            let _via = next k in
            (match !w.unws u, !w.caches c, Hashtbl.find_opt mems memid with
             | Some uw, Some ca, Some m ->
               let it = iter_new pc rg ca in
               let rs, it' = iter_run_x uw m it (nat_of_int cnt) in
               let ww = !w in
               w := { ww with caches = upd ww.caches c it'.i_cache };
               (* the real iterator stops being callable after a panic; cut the list there *)
               let rec cut l = match l with
                 | [] -> []
                 | (Panic _ as p) :: _ -> [ p ]
                 | (Hang as p) :: _ -> [ p ]
                 | x :: t -> x :: cut t in
               "iter " ^ String.concat " | " (List.map fmt_fres (cut rs))
             | _ -> "bad")
          | "manual" ->
            let u = id_of ("u:" ^ next k) in
            let c = id_of ("c:" ^ next k) in
            let pc = nx k in
            let rg = parse_regs_x86 k in
            let memid = next k in
            let cnt = ix k in
            (match !w.unws u, !w.caches c, Hashtbl.find_opt mems memid with
             | Some uw, Some ca, Some m ->
               let outl, ca' = manual_loop (fun c a r -> unwind_frame_x uw c a r m) pc rg ca cnt in
               let ww = !w in
               w := { ww with caches = upd ww.caches c ca' };
               "iter " ^ String.concat " | " outl
             | _ -> "bad")
          | "trace" ->
            let u = id_of ("u:" ^ next k) in
            let c = id_of ("c:" ^ next k) in
            let pc = nx k in
            let rg = parse_regs_x86 k in
            let memid = next k in
            let cnt = ix k in
            (match !w.unws u, !w.caches c, Hashtbl.find_opt mems memid with
             | Some uw, Some ca, Some m ->
               let outl, ca' = trace_loop (fun c a r -> unwind_frame_x uw c a r m) (fun r -> (r.rf RSP, r.rf RBP)) pc rg ca cnt in
               let ww = !w in
               w := { ww with caches = upd ww.caches c ca' };
               "iter " ^ String.concat " | " outl
             | _ -> "bad")
          | "exec" ->
            let ru = parse_rule_x86 k in
            let first = ix k <> 0 in
            let rg = parse_regs_x86 k in
            (match Hashtbl.find_opt mems (next k) with
             | None -> "bad"
             | Some m ->
               let r, rg' = exec_x ru first rg m in
               (match r with
                | Panic _ | Hang -> fmt_res r
                | _ -> fmt_res r ^ " ; regs " ^ fmt_regs_x86 rg'))
          | "regenc" -> regenc k
          | "regdec" -> regdec k
          | "analyze" ->
            let kind = next k in
            let bytes = parse_hex_bytes (next k) in
            let off = nat_of_int (ix k) in
            let r = (match kind with
                | "pro" -> prologue_x86 bytes off
                | "epi" -> epilogue_x86 bytes off
                | _ -> analysis_x86 bytes off) in
            (match r with Some ru -> "some " ^ fmt_rule_x86 ru | None -> "none")
          | "msproc" ->
            (* the SPECIFICATION side of C03 (Pe.ms_unwind), compared with the independent oracle *)
            let md = Hashtbl.find_opt mods (next k) in
            let rva = nx k in
            let rg = parse_regs_x86 k in
            (match md, Hashtbl.find_opt mems (next k) with
             | Some { mdat = MPe pe; _ }, Some m ->
               (match ms_unwind pe rva rg m with
                | None -> "spec none"
                | Some (ra, rg') -> "spec some " ^ hex ra ^ " ; regs " ^ fmt_regs_x86 rg')
             | _ -> "bad")
          | _ -> "unknown-op " ^ op
        in
        Printf.printf "%d %s\n" lineno res
      end)
    lines

let run_a64 (lines : string list) : unit =
  let w = ref (world0 N0) in
  let mods : (string, amodule) Hashtbl.t = Hashtbl.create 16 in
  List.iteri
    (fun idx line ->
      let lineno = idx + 1 in
      let k = mk_toks line in
      let op = next k in
      if op = "" || op.[0] = '#' || op = "config" then ()
      else begin
        let res =
          match op with
          | "mem" -> parse_mem k; "ok"
          | "mod" ->
            let id = next k in
            let st = nx k in
            let en = nx k in
            let ba = nx k in
            let bs = nx k in
            skip_to k "A";
            let d = match parse_abs k with AbsNone -> AMNone | AbsDwarf (p, fs) -> AMDwarf (p, fs) | AbsPe _ -> AMPe | AbsMacho d -> AMMacho d in
            let d = if !policy_must then cap_amdata d else d in
            Hashtbl.replace mods id { mstart = st; mend = en; base_avma = ba; base_svma = bs; mdat = d };
            "ok"
          | "new" ->
            let w', o = run_op_a !w (ONew (id_of ("u:" ^ next k))) in
            w := w'; fmt_obs fmt_regs_a64 o
          | "add" ->
            let u = id_of ("u:" ^ next k) in
            (match Hashtbl.find_opt mods (next k) with
             | None -> "bad"
             | Some m ->
               let w', o = run_op_a !w (OAdd (u, m)) in
               w := w'; fmt_obs fmt_regs_a64 o)
          | "remove" ->
            let u = id_of ("u:" ^ next k) in
            let st = nx k in
            let w', o = run_op_a !w (ORemove (u, st)) in
            w := w'; fmt_obs fmt_regs_a64 o
          | "clone" ->
            let u = id_of ("u:" ^ next k) in
            let v = id_of ("u:" ^ next k) in
            let w', o = run_op_a !w (OClone (u, v)) in
            w := w'; fmt_obs fmt_regs_a64 o
          | "clonefrom" ->                                   (* Clone::clone_from: dst becomes a clone of src *)
            let v = id_of ("u:" ^ next k) in
            let u = id_of ("u:" ^ next k) in
            let w', o = run_op_a !w (OClone (u, v)) in
            w := w'; fmt_obs fmt_regs_a64 o
          | "newcache" ->
            let w', o = run_op_a !w (ONewCache (id_of ("c:" ^ next k))) in
            w := w'; fmt_obs fmt_regs_a64 o
          | "max" ->
            let w', o = run_op_a !w (OMax (id_of ("u:" ^ next k))) in
            w := w'; fmt_obs fmt_regs_a64 o
          | "gen" ->
            (match !w.unws (id_of ("u:" ^ next k)) with
             | Some u -> "gen " ^ dec u.gen
             | None -> "bad")
          | "stats" ->
            (match !w.caches (id_of ("c:" ^ next k)) with
             | Some c -> "stats " ^ fmt_stats c.cstats
             | None -> "bad")
          | "unwind" ->
            let u = id_of ("u:" ^ next k) in
            let c = id_of ("c:" ^ next k) in
            let kind = next k in
            let a = nx k in
            let rg = parse_regs_a64 k in
            (match Hashtbl.find_opt mems (next k) with
             | None -> "bad"
             | Some m ->
               if kind = "ra" && a = N0 then "bad"
               else begin
                 let fa = if kind = "ip" then IP a else RA a in
                 let w', o = run_op_a !w (OUnwind (u, c, fa, rg, m)) in
                 w := w'; fmt_obs fmt_regs_a64 o
               end)
          | "iter" ->
            let u = id_of ("u:" ^ next k) in
            let c = id_of ("c:" ^ next k) in
            let pc = nx k in
            let rg = parse_regs_a64 k in
            let memid = next k in
            let cnt = ix k in
            let _via = next k in
            (match !w.unws u, !w.caches c, Hashtbl.find_opt mems memid with
             | Some uw, Some ca, Some m ->
               let it = iter_new pc rg ca in
               let rs, it' = iter_run_a uw m it (nat_of_int cnt) in
               let ww = !w in
               w := { ww with caches = upd ww.caches c it'.i_cache };
               let rec cut l = match l with
                 | [] -> []
                 | (Panic _ as p) :: _ -> [ p ]
                 | (Hang as p) :: _ -> [ p ]
                 | x :: t -> x :: cut t in
               "iter " ^ String.concat " | " (List.map fmt_fres (cut rs))
             | _ -> "bad")
          | "manual" ->
            let u = id_of ("u:" ^ next k) in
            let c = id_of ("c:" ^ next k) in
            let pc = nx k in
            let rg = parse_regs_a64 k in
            let memid = next k in
            let cnt = ix k in
            (match !w.unws u, !w.caches c, Hashtbl.find_opt mems memid with
             | Some uw, Some ca, Some m ->
               let outl, ca' = manual_loop (fun c a r -> unwind_frame_a uw c a r m) pc rg ca cnt in
               let ww = !w in
               w := { ww with caches = upd ww.caches c ca' };
               "iter " ^ String.concat " | " outl
             | _ -> "bad")
          | "trace" ->
            let u = id_of ("u:" ^ next k) in
            let c = id_of ("c:" ^ next k) in
            let pc = nx k in
            let rg = parse_regs_a64 k in
            let memid = next k in
            let cnt = ix k in
            (match !w.unws u, !w.caches c, Hashtbl.find_opt mems memid with
             | Some uw, Some ca, Some m ->
               let outl, ca' = trace_loop (fun c a r -> unwind_frame_a uw c a r m) (fun r -> (r.asp, r.afp)) pc rg ca cnt in
               let ww = !w in
               w := { ww with caches = upd ww.caches c ca' };
               "iter " ^ String.concat " | " outl
             | _ -> "bad")
          | "exec" ->
            let ru = parse_rule_a64 k in
            let first = ix k <> 0 in
            let rg = parse_regs_a64 k in
            (match Hashtbl.find_opt mems (next k) with
             | None -> "bad"
             | Some m ->
               let r, rg' = aexec ru first rg m in
               (match r with
                | Panic _ | Hang -> fmt_res r
                | _ -> fmt_res r ^ " ; regs " ^ fmt_regs_a64 rg'))
          | "mask" ->
            (match next k with
             | "max" ->
               (match mask_from_max_checked (nx k) with
                | Ok v -> "mask " ^ hex v
                | Panic s -> fmt_panic s
                | _ -> "hang")
             | "2440" -> "mask " ^ hex mask_24_40
             | _ -> "mask " ^ hex mask_no_strip)
          | "aregs" -> "regs " ^ fmt_regs_a64 (parse_regs_a64 k)
          | "analyze" ->
            let kind = next k in
            let bytes = parse_hex_bytes (next k) in
            let off = nat_of_int (ix k) in
            let r = (match kind with
                | "pro" -> prologue_a64 bytes off
                | "epi" -> epilogue_a64 bytes off
                | _ -> analysis_a64 bytes off) in
            (match r with Some ru -> "some " ^ fmt_rule_a64 ru | None -> "none")
          | _ -> "unknown-op " ^ op
        in
        Printf.printf "%d %s\n" lineno res
      end)
    lines

let () =
  let file = Sys.argv.(1) in
  let ic = open_in file in
  let rec rd acc = match input_line ic with l -> rd (l :: acc) | exception End_of_file -> List.rev acc in
  let lines = rd [] in
  close_in ic;
  let arch = ref "x86" in
  List.iter
    (fun l ->
      let k = mk_toks l in
      if next k = "config" then
        Array.iter
          (fun kv ->
            match String.index_opt kv '=' with
            | Some p when String.sub kv 0 p = "arch" ->
              arch := String.sub kv (p + 1) (String.length kv - p - 1)
            | Some p when String.sub kv 0 p = "policy" ->
              policy_must := (String.sub kv (p + 1) (String.length kv - p - 1) = "must")
            | _ -> ())
          k.t)
    lines;
  if !arch = "x86" then run_x86 lines else run_a64 lines
