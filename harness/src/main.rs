//! Script runner for the real framehop crate (built from /repo's working tree).
//! Reads a script (one operation per line, space separated tokens), runs each operation
//! against the real code inside catch_unwind, prints one canonical result line per operation.
//! See /verif/DESIGN.md section 4 and /verif/gen/script.md for the grammar.

use std::alloc::{GlobalAlloc, Layout, System};
use std::collections::HashMap;
use std::io::{BufRead, Write};
use std::ops::{Deref, Range};
use std::panic::{catch_unwind, AssertUnwindSafe};
use std::sync::atomic::{AtomicBool, AtomicU64, Ordering};
use std::sync::{Arc, Mutex};

use framehop::aarch64::{
    CacheAarch64, PtrAuthMask, UnwindRegsAarch64, UnwindRuleAarch64, UnwinderAarch64,
};
use framehop::x86_64::{CacheX86_64, Reg, UnwindRegsX86_64, UnwindRuleX86_64, UnwinderX86_64};
use framehop::{
    AllocationPolicy, Error, FrameAddress, MayAllocateDuringUnwind, Module, ModuleSectionInfo,
    MustNotAllocateDuringUnwind, Unwinder,
};

// ---------- a scripted implementation of the public Unwinder trait ----------
// UnwindIterator is generic in the unwinder: whatever unwind_frame returns, the iterator has to turn it into
// frames the documented way (C17).  The crate's own unwinders no longer return Some(0); a scripted one can.
#[derive(Clone)]
struct ScriptedUnwinder {
    answers: Arc<Mutex<Vec<Result<Option<u64>, Error>>>>,
}
impl Unwinder for ScriptedUnwinder {
    type UnwindRegs = ();
    type Cache = ();
    type Module = ();
    fn add_module(&mut self, _m: ()) {}
    fn remove_module(&mut self, _s: u64) {}
    fn max_known_code_address(&self) -> u64 {
        0
    }
    fn unwind_frame<F>(&self, _a: FrameAddress, _r: &mut (), _c: &mut (), _f: &mut F) -> Result<Option<u64>, Error>
    where
        F: FnMut(u64) -> Result<u64, ()>,
    {
        let mut v = self.answers.lock().unwrap();
        if v.is_empty() {
            Ok(None)
        } else {
            v.remove(0)
        }
    }
}

// ---------- counting allocator ----------
// Counts allocator calls made by the thread that runs the script while COUNT_ON is set; the
// watchdog thread (and any other) is not counted, so the count is deterministic.
struct CountingAlloc;
static ALLOCS: AtomicU64 = AtomicU64::new(0);
static COUNT_ON: AtomicBool = AtomicBool::new(false);
static COUNT_ITEMS: AtomicBool = AtomicBool::new(false);
thread_local! {
    // const-initialised: reading it never allocates
    static IS_SCRIPT_THREAD: std::cell::Cell<bool> = const { std::cell::Cell::new(false) };
}
#[inline]
fn counted() -> bool {
    COUNT_ON.load(Ordering::Relaxed) && IS_SCRIPT_THREAD.try_with(|c| c.get()).unwrap_or(false)
}
unsafe impl GlobalAlloc for CountingAlloc {
    unsafe fn alloc(&self, l: Layout) -> *mut u8 {
        if counted() {
            ALLOCS.fetch_add(1, Ordering::Relaxed);
        }
        System.alloc(l)
    }
    unsafe fn dealloc(&self, p: *mut u8, l: Layout) {
        if counted() {
            ALLOCS.fetch_add(1, Ordering::Relaxed);
        }
        System.dealloc(p, l)
    }
    unsafe fn realloc(&self, p: *mut u8, l: Layout, n: usize) -> *mut u8 {
        if counted() {
            ALLOCS.fetch_add(1, Ordering::Relaxed);
        }
        System.realloc(p, l, n)
    }
}
#[global_allocator]
static GLOBAL: CountingAlloc = CountingAlloc;

// ---------- deref counting section data ----------
static DEREFS: AtomicU64 = AtomicU64::new(0);
#[derive(Clone)]
struct Data(Arc<Vec<u8>>, usize);
impl Deref for Data {
    type Target = [u8];
    fn deref(&self) -> &[u8] {
        DEREFS.fetch_add(1, Ordering::Relaxed);
        &self.0[self.1..]
    }
}
// `config ... misalign=N`: section bytes start N bytes into their allocation (a view into a file mapping
// whose sections lie at odd file offsets)
static MISALIGN: std::sync::atomic::AtomicUsize = std::sync::atomic::AtomicUsize::new(0);
fn section_data(bytes: Vec<u8>) -> Data {
    let mis = MISALIGN.load(Ordering::Relaxed);
    if mis == 0 {
        return Data(Arc::new(bytes), 0);
    }
    let mut v = vec![0u8; mis];
    v.extend_from_slice(&bytes);
    Data(Arc::new(v), mis)
}

// ---------- panic location capture ----------
static PANIC_LOC: Mutex<Option<String>> = Mutex::new(None);

fn install_panic_hook() {
    std::panic::set_hook(Box::new(|info| {
        COUNT_ON.store(false, Ordering::Relaxed);
        let loc = info
            .location()
            .map(|l| format!("{}:{}", l.file(), l.line()))
            .unwrap_or_else(|| "unknown".to_string());
        if let Ok(mut g) = PANIC_LOC.lock() {
            *g = Some(loc);
        }
    }));
}

fn classify_panic() -> String {
    let loc = PANIC_LOC.lock().ok().and_then(|mut g| g.take()).unwrap_or_default();
    // own = a file of the framehop crate itself (it is a path dependency rooted at /repo)
    let own = loc.starts_with("/repo/src/") || loc.starts_with("src/");
    let short = loc
        .rsplit_once("/src/")
        .map(|(pre, post)| {
            let krate = pre.rsplit('/').next().unwrap_or("");
            format!("{}/src/{}", krate, post)
        })
        .unwrap_or(loc.clone());
    format!("panic {} {}", if own { "own" } else { "dep" }, short)
}

// ---------- tokens ----------
struct Toks<'a> {
    t: Vec<&'a str>,
    i: usize,
}
impl<'a> Toks<'a> {
    fn new(line: &'a str) -> Self {
        Toks { t: line.split_whitespace().collect(), i: 0 }
    }
    fn next(&mut self) -> &'a str {
        let s = self.t.get(self.i).copied().unwrap_or("");
        self.i += 1;
        s
    }
    fn peek(&self) -> &'a str {
        self.t.get(self.i).copied().unwrap_or("")
    }
    fn u64(&mut self) -> u64 {
        parse_u64(self.next())
    }
    fn i64(&mut self) -> i64 {
        let s = self.next();
        if let Some(r) = s.strip_prefix('-') {
            (parse_u64(r) as i64).wrapping_neg()
        } else {
            parse_u64(s) as i64
        }
    }
    fn usize(&mut self) -> usize {
        self.u64() as usize
    }
    fn skip_to(&mut self, marker: &str) {
        while self.i < self.t.len() && self.t[self.i] != marker {
            self.i += 1;
        }
        self.i += 1;
    }
}
fn parse_u64(s: &str) -> u64 {
    if let Some(h) = s.strip_prefix("0x") {
        u64::from_str_radix(h, 16).unwrap_or_else(|_| panic!("bad hex {}", s))
    } else {
        s.parse::<u64>().unwrap_or_else(|_| panic!("bad num {}", s))
    }
}
fn parse_hex(s: &str) -> Vec<u8> {
    if s == "-" || s == "." {
        return Vec::new();
    }
    let b = s.as_bytes();
    let mut v = Vec::with_capacity(b.len() / 2);
    let mut i = 0;
    while i + 1 < b.len() {
        let h = (b[i] as char).to_digit(16).unwrap() as u8;
        let l = (b[i + 1] as char).to_digit(16).unwrap() as u8;
        v.push(h << 4 | l);
        i += 2;
    }
    v
}

// ---------- section info ----------
struct SecInfo {
    base_svma: u64,
    data: HashMap<Vec<u8>, Data>,
    ranges: HashMap<Vec<u8>, Range<u64>>,
    seg_data: HashMap<Vec<u8>, Data>,
    seg_ranges: HashMap<Vec<u8>, Range<u64>>,
}
impl ModuleSectionInfo<Data> for SecInfo {
    fn base_svma(&self) -> u64 {
        self.base_svma
    }
    fn section_svma_range(&mut self, name: &[u8]) -> Option<Range<u64>> {
        self.ranges.get(name).cloned()
    }
    fn section_data(&mut self, name: &[u8]) -> Option<Data> {
        self.data.remove(name)
    }
    fn segment_svma_range(&mut self, name: &[u8]) -> Option<Range<u64>> {
        self.seg_ranges.get(name).cloned()
    }
    fn segment_data(&mut self, name: &[u8]) -> Option<Data> {
        self.seg_data.remove(name)
    }
}

// ---------- architecture abstraction ----------
trait ArchOps {
    type U: Unwinder<Module = Module<Data>> + Default;
    type Regs: Clone;
    type Cache;
    fn new_cache() -> Self::Cache;
    fn parse_regs(t: &mut Toks) -> Self::Regs;
    fn fmt_regs(r: &Self::Regs) -> String;
    fn stats(c: &Self::Cache) -> framehop::CacheStats;
    fn unwind(
        u: &Self::U,
        a: FrameAddress,
        r: &mut Self::Regs,
        c: &mut Self::Cache,
        rs: &mut dyn FnMut(u64) -> Result<u64, ()>,
    ) -> Result<Option<u64>, Error>;
    fn iter(
        u: &Self::U,
        pc: u64,
        r: Self::Regs,
        c: &mut Self::Cache,
        rs: &mut dyn FnMut(u64) -> Result<u64, ()>,
        n: usize,
        via_trait: bool,
        out: &mut Vec<String>,
    );
    fn generation(u: &Self::U) -> u16;
    fn sp_fp(r: &Self::Regs) -> (u64, u64);
    fn exec(t: &mut Toks, mems: &HashMap<String, HashMap<u64, u64>>) -> String;
    fn analyze(kind: u8, bytes: &[u8], off: usize) -> String;
}

fn fmt_err(e: &Error) -> String {
    match e {
        Error::CouldNotReadStack(a) => format!("err CouldNotReadStack 0x{:x}", a),
        Error::FramepointerUnwindingMovedBackwards => "err FpMovedBackwards".into(),
        Error::DidNotAdvance => "err DidNotAdvance".into(),
        Error::IntegerOverflow => "err IntegerOverflow".into(),
        Error::ReturnAddressIsNull => "err ReturnAddressIsNull".into(),
    }
}
fn fmt_res(r: &Result<Option<u64>, Error>) -> String {
    match r {
        Ok(Some(a)) => format!("ok some 0x{:x}", a),
        Ok(None) => "ok none".into(),
        Err(e) => fmt_err(e),
    }
}
fn fmt_fres(r: &Result<Option<FrameAddress>, Error>) -> String {
    match r {
        Ok(Some(FrameAddress::InstructionPointer(a))) => format!("ok ip 0x{:x}", a),
        Ok(Some(FrameAddress::ReturnAddress(a))) => format!("ok ra 0x{:x}", u64::from(*a)),
        Ok(None) => "ok none".into(),
        Err(e) => fmt_err(e),
    }
}

const REG_ORDER: [Reg; 16] = [
    Reg::RAX, Reg::RDX, Reg::RCX, Reg::RBX, Reg::RSI, Reg::RDI, Reg::RBP, Reg::RSP,
    Reg::R8, Reg::R9, Reg::R10, Reg::R11, Reg::R12, Reg::R13, Reg::R14, Reg::R15,
];
fn reg_by_name(s: &str) -> Reg {
    match s {
        "RAX" => Reg::RAX, "RDX" => Reg::RDX, "RCX" => Reg::RCX, "RBX" => Reg::RBX,
        "RSI" => Reg::RSI, "RDI" => Reg::RDI, "RBP" => Reg::RBP, "RSP" => Reg::RSP,
        "R8" => Reg::R8, "R9" => Reg::R9, "R10" => Reg::R10, "R11" => Reg::R11,
        "R12" => Reg::R12, "R13" => Reg::R13, "R14" => Reg::R14, "R15" => Reg::R15,
        _ => panic!("bad reg {}", s),
    }
}
fn reg_name(r: Reg) -> &'static str {
    match r {
        Reg::RAX => "RAX", Reg::RDX => "RDX", Reg::RCX => "RCX", Reg::RBX => "RBX",
        Reg::RSI => "RSI", Reg::RDI => "RDI", Reg::RBP => "RBP", Reg::RSP => "RSP",
        Reg::R8 => "R8", Reg::R9 => "R9", Reg::R10 => "R10", Reg::R11 => "R11",
        Reg::R12 => "R12", Reg::R13 => "R13", Reg::R14 => "R14", Reg::R15 => "R15",
    }
}

fn parse_rule_x86(t: &mut Toks) -> UnwindRuleX86_64 {
    match t.next() {
        "EndOfStack" => UnwindRuleX86_64::EndOfStack,
        "JustReturn" => UnwindRuleX86_64::JustReturn,
        "JustReturnIfFirstFrameOtherwiseFp" => UnwindRuleX86_64::JustReturnIfFirstFrameOtherwiseFp,
        "OffsetSp" => UnwindRuleX86_64::OffsetSp { sp_offset_by_8: t.u64() as u16 },
        "OffsetSpAndRestoreBp" => {
            let k = t.u64() as u16;
            let y = t.i64() as i16;
            UnwindRuleX86_64::OffsetSpAndRestoreBp {
                sp_offset_by_8: k,
                bp_storage_offset_from_sp_by_8: y,
            }
        }
        "UseFramePointer" => UnwindRuleX86_64::UseFramePointer,
        "OffsetSpAndPopRegisters" => {
            let k = t.u64() as u16;
            let c = t.u64() as u8;
            let e = t.u64() as u16;
            UnwindRuleX86_64::OffsetSpAndPopRegisters {
                sp_offset_by_8: k,
                register_count: c,
                encoded_registers_to_pop: e,
            }
        }
        x => panic!("bad rule {}", x),
    }
}
fn fmt_rule_x86(r: &UnwindRuleX86_64) -> String {
    match *r {
        UnwindRuleX86_64::EndOfStack => "EndOfStack".into(),
        UnwindRuleX86_64::JustReturn => "JustReturn".into(),
        UnwindRuleX86_64::JustReturnIfFirstFrameOtherwiseFp => {
            "JustReturnIfFirstFrameOtherwiseFp".into()
        }
        UnwindRuleX86_64::OffsetSp { sp_offset_by_8 } => format!("OffsetSp {}", sp_offset_by_8),
        UnwindRuleX86_64::OffsetSpAndRestoreBp {
            sp_offset_by_8,
            bp_storage_offset_from_sp_by_8,
        } => format!("OffsetSpAndRestoreBp {} {}", sp_offset_by_8, bp_storage_offset_from_sp_by_8),
        UnwindRuleX86_64::UseFramePointer => "UseFramePointer".into(),
        UnwindRuleX86_64::OffsetSpAndPopRegisters {
            sp_offset_by_8,
            register_count,
            encoded_registers_to_pop,
        } => format!(
            "OffsetSpAndPopRegisters {} {} {}",
            sp_offset_by_8, register_count, encoded_registers_to_pop
        ),
    }
}
fn parse_rule_a64(t: &mut Toks) -> UnwindRuleAarch64 {
    match t.next() {
        "NoOp" => UnwindRuleAarch64::NoOp,
        "NoOpIfFirstFrameOtherwiseFp" => UnwindRuleAarch64::NoOpIfFirstFrameOtherwiseFp,
        "OffsetSp" => UnwindRuleAarch64::OffsetSp { sp_offset_by_16: t.u64() as u16 },
        "OffsetSpIfFirstFrameOtherwiseStackEndsHere" => {
            UnwindRuleAarch64::OffsetSpIfFirstFrameOtherwiseStackEndsHere {
                sp_offset_by_16: t.u64() as u16,
            }
        }
        "OffsetSpAndRestoreLr" => {
            let k = t.u64() as u16;
            let l = t.i64() as i16;
            UnwindRuleAarch64::OffsetSpAndRestoreLr {
                sp_offset_by_16: k,
                lr_storage_offset_from_sp_by_8: l,
            }
        }
        "OffsetSpAndRestoreFpAndLr" => {
            let k = t.u64() as u16;
            let f = t.i64() as i16;
            let l = t.i64() as i16;
            UnwindRuleAarch64::OffsetSpAndRestoreFpAndLr {
                sp_offset_by_16: k,
                fp_storage_offset_from_sp_by_8: f,
                lr_storage_offset_from_sp_by_8: l,
            }
        }
        "UseFramePointer" => UnwindRuleAarch64::UseFramePointer,
        "UseFramepointerWithOffsets" => {
            let k = t.u64() as u16;
            let f = t.i64() as i16;
            let l = t.i64() as i16;
            UnwindRuleAarch64::UseFramepointerWithOffsets {
                sp_offset_from_fp_by_8: k,
                fp_storage_offset_from_fp_by_8: f,
                lr_storage_offset_from_fp_by_8: l,
            }
        }
        x => panic!("bad rule {}", x),
    }
}
fn fmt_rule_a64(r: &UnwindRuleAarch64) -> String {
    match *r {
        UnwindRuleAarch64::NoOp => "NoOp".into(),
        UnwindRuleAarch64::NoOpIfFirstFrameOtherwiseFp => "NoOpIfFirstFrameOtherwiseFp".into(),
        UnwindRuleAarch64::OffsetSp { sp_offset_by_16 } => format!("OffsetSp {}", sp_offset_by_16),
        UnwindRuleAarch64::OffsetSpIfFirstFrameOtherwiseStackEndsHere { sp_offset_by_16 } => {
            format!("OffsetSpIfFirstFrameOtherwiseStackEndsHere {}", sp_offset_by_16)
        }
        UnwindRuleAarch64::OffsetSpAndRestoreLr {
            sp_offset_by_16,
            lr_storage_offset_from_sp_by_8,
        } => format!("OffsetSpAndRestoreLr {} {}", sp_offset_by_16, lr_storage_offset_from_sp_by_8),
        UnwindRuleAarch64::OffsetSpAndRestoreFpAndLr {
            sp_offset_by_16,
            fp_storage_offset_from_sp_by_8,
            lr_storage_offset_from_sp_by_8,
        } => format!(
            "OffsetSpAndRestoreFpAndLr {} {} {}",
            sp_offset_by_16, fp_storage_offset_from_sp_by_8, lr_storage_offset_from_sp_by_8
        ),
        UnwindRuleAarch64::UseFramePointer => "UseFramePointer".into(),
        UnwindRuleAarch64::UseFramepointerWithOffsets {
            sp_offset_from_fp_by_8,
            fp_storage_offset_from_fp_by_8,
            lr_storage_offset_from_fp_by_8,
        } => format!(
            "UseFramepointerWithOffsets {} {} {}",
            sp_offset_from_fp_by_8, fp_storage_offset_from_fp_by_8, lr_storage_offset_from_fp_by_8
        ),
    }
}

fn reader<'a>(m: &'a HashMap<u64, u64>) -> impl FnMut(u64) -> Result<u64, ()> + 'a {
    move |a| m.get(&a).copied().ok_or(())
}

fn parse_regs_x86(t: &mut Toks) -> UnwindRegsX86_64 {
    let ip = t.u64();
    let mut r = UnwindRegsX86_64::new(ip, 0, 0);
    for reg in REG_ORDER.iter() {
        let v = t.u64();
        r.set(*reg, v);
    }
    r
}
fn fmt_regs_x86(r: &UnwindRegsX86_64) -> String {
    let mut s = format!("0x{:x}", r.ip());
    for reg in REG_ORDER.iter() {
        s.push_str(&format!(" 0x{:x}", r.get(*reg)));
    }
    s
}
fn parse_regs_a64(t: &mut Toks) -> UnwindRegsAarch64 {
    let mask = t.u64();
    let lr = t.u64();
    let sp = t.u64();
    let fp = t.u64();
    if mask == u64::MAX {
        // the plain constructor: documented as "no stripping", i.e. the all-ones mask
        UnwindRegsAarch64::new(lr, sp, fp)
    } else {
        UnwindRegsAarch64::new_with_ptr_auth_mask(PtrAuthMask(mask), lr, sp, fp)
    }
}
fn fmt_regs_a64(r: &UnwindRegsAarch64) -> String {
    format!("0x{:x} 0x{:x} 0x{:x} 0x{:x}", r.lr_mask().0, r.lr(), r.sp(), r.fp())
}

struct X86<P>(std::marker::PhantomData<P>);
struct A64<P>(std::marker::PhantomData<P>);

macro_rules! iter_impl {
    ($u:expr, $pc:expr, $r:expr, $c:expr, $rs:expr, $n:expr, $via_trait:expr, $out:expr) => {{
        // with `count=1` in the config line the allocator calls made inside iter_frames() and every
        // next() are counted (formatting the results is not)
        let counting = COUNT_ITEMS.load(Ordering::Relaxed);
        COUNT_ON.store(counting, Ordering::Relaxed);
        let mut it = $u.iter_frames($pc, $r, $c, $rs);
        COUNT_ON.store(false, Ordering::Relaxed);
        for _ in 0..$n {
            COUNT_ON.store(counting, Ordering::Relaxed);
            let res = if $via_trait {
                fallible_iterator::FallibleIterator::next(&mut it)
            } else {
                it.next()
            };
            COUNT_ON.store(false, Ordering::Relaxed);
            $out.push(fmt_fres(&res));
        }
    }};
}

impl<P: AllocationPolicy> ArchOps for X86<P> {
    type U = UnwinderX86_64<Data, P>;
    type Regs = UnwindRegsX86_64;
    type Cache = CacheX86_64<P>;
    fn new_cache() -> Self::Cache {
        CacheX86_64::<P>::new_in()
    }
    fn parse_regs(t: &mut Toks) -> Self::Regs {
        parse_regs_x86(t)
    }
    fn fmt_regs(r: &Self::Regs) -> String {
        fmt_regs_x86(r)
    }
    fn stats(c: &Self::Cache) -> framehop::CacheStats {
        c.stats()
    }
    fn unwind(
        u: &Self::U,
        a: FrameAddress,
        r: &mut Self::Regs,
        c: &mut Self::Cache,
        rs: &mut dyn FnMut(u64) -> Result<u64, ()>,
    ) -> Result<Option<u64>, Error> {
        let mut f = |a| rs(a);
        u.unwind_frame(a, r, c, &mut f)
    }
    fn iter(
        u: &Self::U,
        pc: u64,
        r: Self::Regs,
        c: &mut Self::Cache,
        rs: &mut dyn FnMut(u64) -> Result<u64, ()>,
        n: usize,
        via_trait: bool,
        out: &mut Vec<String>,
    ) {
        let mut f = |a| rs(a);
        iter_impl!(u, pc, r, c, &mut f, n, via_trait, out)
    }
    fn generation(u: &Self::U) -> u16 {
        u.verif_modules_generation()
    }
    fn sp_fp(r: &Self::Regs) -> (u64, u64) {
        (r.sp(), r.bp())
    }
    fn exec(t: &mut Toks, mems: &HashMap<String, HashMap<u64, u64>>) -> String {
        let rule = parse_rule_x86(t);
        let first = t.u64() != 0;
        let mut regs = parse_regs_x86(t);
        let mem = mems.get(t.next()).expect("mem id");
        let mut rs = reader(mem);
        let res = framehop::verif_hooks::exec_rule_x86_64(rule, first, &mut regs, &mut rs);
        format!("{} ; regs {}", fmt_res(&res), fmt_regs_x86(&regs))
    }
    fn analyze(kind: u8, bytes: &[u8], off: usize) -> String {
        match framehop::verif_hooks::analyze_x86_64(kind, bytes, off) {
            Some(r) => format!("some {}", fmt_rule_x86(&r)),
            None => "none".into(),
        }
    }
}

impl<P: AllocationPolicy> ArchOps for A64<P> {
    type U = UnwinderAarch64<Data, P>;
    type Regs = UnwindRegsAarch64;
    type Cache = CacheAarch64<P>;
    fn new_cache() -> Self::Cache {
        CacheAarch64::<P>::new_in()
    }
    fn parse_regs(t: &mut Toks) -> Self::Regs {
        parse_regs_a64(t)
    }
    fn fmt_regs(r: &Self::Regs) -> String {
        fmt_regs_a64(r)
    }
    fn stats(c: &Self::Cache) -> framehop::CacheStats {
        c.stats()
    }
    fn unwind(
        u: &Self::U,
        a: FrameAddress,
        r: &mut Self::Regs,
        c: &mut Self::Cache,
        rs: &mut dyn FnMut(u64) -> Result<u64, ()>,
    ) -> Result<Option<u64>, Error> {
        let mut f = |a| rs(a);
        u.unwind_frame(a, r, c, &mut f)
    }
    fn iter(
        u: &Self::U,
        pc: u64,
        r: Self::Regs,
        c: &mut Self::Cache,
        rs: &mut dyn FnMut(u64) -> Result<u64, ()>,
        n: usize,
        via_trait: bool,
        out: &mut Vec<String>,
    ) {
        let mut f = |a| rs(a);
        iter_impl!(u, pc, r, c, &mut f, n, via_trait, out)
    }
    fn generation(u: &Self::U) -> u16 {
        u.verif_modules_generation()
    }
    fn sp_fp(r: &Self::Regs) -> (u64, u64) {
        (r.sp(), r.fp())
    }
    fn exec(t: &mut Toks, mems: &HashMap<String, HashMap<u64, u64>>) -> String {
        let rule = parse_rule_a64(t);
        let first = t.u64() != 0;
        let mut regs = parse_regs_a64(t);
        let mem = mems.get(t.next()).expect("mem id");
        let mut rs = reader(mem);
        let res = framehop::verif_hooks::exec_rule_aarch64(rule, first, &mut regs, &mut rs);
        format!("{} ; regs {}", fmt_res(&res), fmt_regs_a64(&regs))
    }
    fn analyze(kind: u8, bytes: &[u8], off: usize) -> String {
        match framehop::verif_hooks::analyze_aarch64(kind, bytes, off) {
            Some(r) => format!("some {}", fmt_rule_a64(&r)),
            None => "none".into(),
        }
    }
}

// sections: after the "B" marker: <nsec> then per section: <name> <hex|-> <lo|-> <hi|->
// names starting with "seg:" are segments
fn parse_module(t: &mut Toks) -> (String, Module<Data>) {
    let id = t.next().to_string();
    let start = t.u64();
    let end = t.u64();
    let base_avma = t.u64();
    let base_svma = t.u64();
    t.skip_to("B");
    let n = t.usize();
    let mut si = SecInfo {
        base_svma,
        data: HashMap::new(),
        ranges: HashMap::new(),
        seg_data: HashMap::new(),
        seg_ranges: HashMap::new(),
    };
    for _ in 0..n {
        let name = t.next();
        let hex = t.next();
        let lo = t.next();
        let hi = t.next();
        let (is_seg, name) = match name.strip_prefix("seg:") {
            Some(n) => (true, n),
            None => (false, name),
        };
        if hex != "-" {
            let d = section_data(parse_hex(hex));
            if is_seg {
                si.seg_data.insert(name.as_bytes().to_vec(), d);
            } else {
                si.data.insert(name.as_bytes().to_vec(), d);
            }
        }
        if lo != "-" {
            let r = parse_u64(lo)..parse_u64(hi);
            if is_seg {
                si.seg_ranges.insert(name.as_bytes().to_vec(), r);
            } else {
                si.ranges.insert(name.as_bytes().to_vec(), r);
            }
        }
    }
    let m = Module::new(id.clone(), start..end, base_avma, si);
    (id, m)
}

fn guarded<F: FnOnce() -> String>(f: F) -> String {
    match catch_unwind(AssertUnwindSafe(f)) {
        Ok(s) => s,
        Err(_) => {
            COUNT_ON.store(false, Ordering::Relaxed);
            classify_panic()
        }
    }
}

static CUR_LINE: AtomicU64 = AtomicU64::new(0);
static BUSY_SINCE_MS: AtomicU64 = AtomicU64::new(0);

fn now_ms() -> u64 {
    use std::time::{SystemTime, UNIX_EPOCH};
    SystemTime::now().duration_since(UNIX_EPOCH).map(|d| d.as_millis() as u64).unwrap_or(0)
}

fn run<A: ArchOps>(lines: Vec<String>, hang_ms: u64) {
    IS_SCRIPT_THREAD.with(|c| c.set(true));
    // not locked: the watchdog thread must be able to print while this thread is stuck in a call
    let mut out = std::io::BufWriter::new(std::io::stdout());
    let mut mems: HashMap<String, HashMap<u64, u64>> = HashMap::new();
    let mut modules: HashMap<String, Module<Data>> = HashMap::new();
    let mut unws: HashMap<String, A::U> = HashMap::new();
    let mut caches: HashMap<String, A::Cache> = HashMap::new();

    // watchdog: if one operation takes longer than hang_ms, report a hang and leave
    std::thread::spawn(move || loop {
        std::thread::sleep(std::time::Duration::from_millis(50));
        let since = BUSY_SINCE_MS.load(Ordering::Relaxed);
        if since != 0 && now_ms().saturating_sub(since) > hang_ms {
            COUNT_ON.store(false, Ordering::Relaxed);
            let l = CUR_LINE.load(Ordering::Relaxed);
            println!("{} hang", l);
            println!("ABORTED-AFTER-HANG {}", l);
            std::process::exit(3);
        }
    });

    for (idx, line) in lines.iter().enumerate() {
        let lineno = idx + 1;
        let mut t = Toks::new(line);
        let op = t.next();
        if op.is_empty() || op.starts_with('#') || op == "config" {
            continue;
        }
        CUR_LINE.store(lineno as u64, Ordering::Relaxed);
        out.flush().ok();
        BUSY_SINCE_MS.store(now_ms(), Ordering::Relaxed);
        let res: String = match op {
            "mem" => {
                let id = t.next().to_string();
                let n = t.usize();
                let mut m = HashMap::with_capacity(n);
                for _ in 0..n {
                    let a = t.u64();
                    let v = t.u64();
                    m.entry(a).or_insert(v); // first binding wins, like the model's assoc list
                }
                mems.insert(id, m);
                "ok".into()
            }
            "mod" => guarded(|| {
                let (id, m) = parse_module(&mut t);
                modules.insert(id, m);
                "ok".into()
            }),
            "new" => {
                let id = t.next().to_string();
                let u = A::U::default();
                let g = A::generation(&u);
                unws.insert(id, u);
                format!("gen {}", g)
            }
            "add" => {
                let uid = t.next();
                let mid = t.next();
                match (unws.get_mut(uid), modules.get(mid)) {
                    (Some(u), Some(m)) => {
                        let m = m.clone();
                        guarded(|| {
                            u.add_module(m);
                            format!("gen {}", A::generation(u))
                        })
                    }
                    _ => "bad".into(),
                }
            }
            "remove" => {
                let uid = t.next();
                let start = t.u64();
                match unws.get_mut(uid) {
                    Some(u) => guarded(|| {
                        u.remove_module(start);
                        format!("gen {}", A::generation(u))
                    }),
                    None => "bad".into(),
                }
            }
            "clonefrom" => {
                // Clone::clone_from on an existing unwinder (created as a plain clone when it does not exist yet)
                let vid = t.next().to_string();
                let uid = t.next();
                match unws.get(uid).map(|u| u.clone()) {
                    Some(src) => {
                        match unws.get_mut(&vid) {
                            Some(dst) => dst.clone_from(&src),
                            None => {
                                unws.insert(vid.clone(), src.clone());
                            }
                        }
                        let g = A::generation(unws.get(&vid).unwrap());
                        format!("gen {}", g)
                    }
                    None => "bad".into(),
                }
            }
            "clone" => {
                let uid = t.next();
                let vid = t.next().to_string();
                match unws.get(uid) {
                    Some(u) => {
                        let v = u.clone();
                        let g = A::generation(&v);
                        unws.insert(vid, v);
                        format!("gen {}", g)
                    }
                    None => "bad".into(),
                }
            }
            "newcache" => {
                let id = t.next().to_string();
                caches.insert(id, A::new_cache());
                "ok".into()
            }
            "max" => match unws.get(t.next()) {
                Some(u) => format!("max 0x{:x}", u.max_known_code_address()),
                None => "bad".into(),
            },
            "gen" => match unws.get(t.next()) {
                Some(u) => format!("gen {}", A::generation(u)),
                None => "bad".into(),
            },
            "stats" => match caches.get(t.next()) {
                Some(c) => {
                    let s = A::stats(c);
                    // the derived accessors must agree with the four counters
                    let misses = s.miss_empty_slot_count + s.miss_wrong_modules_count + s.miss_wrong_address_count;
                    let derived_ok = s.hits() == s.hit_count && s.misses() == misses && s.total() == s.hit_count + misses;
                    format!(
                        "stats {} {} {} {}{}",
                        s.hit_count,
                        s.miss_empty_slot_count,
                        s.miss_wrong_modules_count,
                        s.miss_wrong_address_count,
                        if derived_ok { String::new() } else { format!(" derived-mismatch total={} hits={} misses={}", s.total(), s.hits(), s.misses()) }
                    )
                }
                None => "bad".into(),
            },
            "unwind" => {
                let uid = t.next();
                let cid = t.next();
                let kind = t.next();
                let addr = t.u64();
                let mut regs = A::parse_regs(&mut t);
                let memid = t.next();
                match (unws.get(uid), caches.get_mut(cid), mems.get(memid)) {
                    (Some(u), Some(c), Some(mem)) => {
                        let fa = if kind == "ip" {
                            Some(FrameAddress::from_instruction_pointer(addr))
                        } else {
                            FrameAddress::from_return_address(addr)
                        };
                        match fa {
                            None => "bad".into(),
                            Some(fa) => {
                                let mut rs = reader(mem);
                                let d0 = DEREFS.load(Ordering::Relaxed);
                                let a0 = ALLOCS.load(Ordering::Relaxed);
                                let r = catch_unwind(AssertUnwindSafe(|| {
                                    COUNT_ON.store(true, Ordering::Relaxed);
                                    let r = A::unwind(u, fa, &mut regs, c, &mut rs);
                                    COUNT_ON.store(false, Ordering::Relaxed);
                                    r
                                }));
                                COUNT_ON.store(false, Ordering::Relaxed);
                                let d1 = DEREFS.load(Ordering::Relaxed);
                                let a1 = ALLOCS.load(Ordering::Relaxed);
                                match r {
                                    Ok(r) => {
                                        let s = A::stats(c);
                                        format!(
                                            "{} ; regs {} ; stats {} {} {} {} ; eff {} {}",
                                            fmt_res(&r),
                                            A::fmt_regs(&regs),
                                            s.hit_count,
                                            s.miss_empty_slot_count,
                                            s.miss_wrong_modules_count,
                                            s.miss_wrong_address_count,
                                            d1 - d0,
                                            a1 - a0
                                        )
                                    }
                                    Err(_) => classify_panic(),
                                }
                            }
                        }
                    }
                    _ => "bad".into(),
                }
            }
            "iter" => {
                let uid = t.next();
                let cid = t.next();
                let pc = t.u64();
                let regs = A::parse_regs(&mut t);
                let memid = t.next();
                let n = t.usize();
                let via_trait = t.u64() != 0;
                match (unws.get(uid), caches.get_mut(cid), mems.get(memid)) {
                    (Some(u), Some(c), Some(mem)) => {
                        let mut rs = reader(mem);
                        let mut outv: Vec<String> = Vec::new();
                        let a0 = ALLOCS.load(Ordering::Relaxed);
                        let r = catch_unwind(AssertUnwindSafe(|| {
                            A::iter(u, pc, regs, c, &mut rs, n, via_trait, &mut outv);
                        }));
                        COUNT_ON.store(false, Ordering::Relaxed);
                        let suffix = if COUNT_ITEMS.load(Ordering::Relaxed) {
                            format!(" ; allocs {}", ALLOCS.load(Ordering::Relaxed) - a0)
                        } else {
                            String::new()
                        };
                        match r {
                            Ok(()) => format!("iter {}{}", outv.join(" | "), suffix),
                            Err(_) => {
                                outv.push(classify_panic());
                                format!("iter {}{}", outv.join(" | "), suffix)
                            }
                        }
                    }
                    _ => "bad".into(),
                }
            }
            "trace" => {
                // like `manual`, but every item also shows sp and fp after the step (C10 / C11)
                let trace_a0 = ALLOCS.load(Ordering::Relaxed);
                let uid = t.next();
                let cid = t.next();
                let pc = t.u64();
                let mut regs = A::parse_regs(&mut t);
                let memid = t.next();
                let n = t.usize();
                match (unws.get(uid), caches.get_mut(cid), mems.get(memid)) {
                    (Some(u), Some(c), Some(mem)) => {
                        let mut rs = reader(mem);
                        let mut outv: Vec<String> = Vec::new();
                        let r = catch_unwind(AssertUnwindSafe(|| {
                            let mut addr = FrameAddress::from_instruction_pointer(pc);
                            let (s0, f0) = A::sp_fp(&regs);
                            outv.push(format!("ok ip 0x{:x} sp=0x{:x} fp=0x{:x}", pc, s0, f0));
                            for _ in 1..n {
                                COUNT_ON.store(COUNT_ITEMS.load(Ordering::Relaxed), Ordering::Relaxed);
                                let r = A::unwind(u, addr, &mut regs, c, &mut rs);
                                COUNT_ON.store(false, Ordering::Relaxed);
                                let (s1, f1) = A::sp_fp(&regs);
                                match r {
                                    Ok(Some(ra)) => match FrameAddress::from_return_address(ra) {
                                        Some(fa) => {
                                            addr = fa;
                                            outv.push(format!("ok ra 0x{:x} sp=0x{:x} fp=0x{:x}", ra, s1, f1));
                                        }
                                        None => {
                                            outv.push("err ReturnAddressIsNull".into());
                                            break;
                                        }
                                    },
                                    Ok(None) => {
                                        outv.push("ok none".into());
                                        break;
                                    }
                                    Err(e) => {
                                        outv.push(fmt_err(&e));
                                        break;
                                    }
                                }
                            }
                        }));
                        COUNT_ON.store(false, Ordering::Relaxed);
                        if r.is_err() {
                            outv.push(classify_panic());
                        }
                        if COUNT_ITEMS.load(Ordering::Relaxed) {
                            format!("iter {} ; allocs {}", outv.join(" | "), ALLOCS.load(Ordering::Relaxed) - trace_a0)
                        } else {
                            format!("iter {}", outv.join(" | "))
                        }
                    }
                    _ => "bad".into(),
                }
            }
            "iterscript" => {
                // iterscript <pc> <calls> <via_trait> <answer>*   answer = 0x.. (Some) | none | err
                let pc = t.u64();
                let n = t.u64() as usize;
                let via = t.u64() != 0;
                let mut answers = Vec::new();
                while !t.peek().is_empty() {
                    let a = t.next();
                    answers.push(match a {
                        "none" => Ok(None),
                        "err" => Err(Error::DidNotAdvance),
                        x => Ok(Some(u64::from_str_radix(x.trim_start_matches("0x"), 16).unwrap_or(0))),
                    });
                }
                let u = ScriptedUnwinder { answers: Arc::new(Mutex::new(answers)) };
                let mut cache = ();
                let mut rs = |_a: u64| -> Result<u64, ()> { Err(()) };
                let mut it = u.iter_frames(pc, (), &mut cache, &mut rs);
                let mut outv = Vec::new();
                for _ in 0..n {
                    let r = if via { fallible_iterator::FallibleIterator::next(&mut it) } else { it.next() };
                    outv.push(match r {
                        Ok(Some(FrameAddress::InstructionPointer(a))) => format!("ok ip 0x{:x}", a),
                        Ok(Some(FrameAddress::ReturnAddress(a))) => format!("ok ra 0x{:x}", u64::from(a)),
                        Ok(None) => "ok none".to_string(),
                        Err(e) => fmt_err(&e),
                    });
                }
                format!("iterscript {}", outv.join(" | "))
            }
            "manual" => {
                // the loop a caller writes by hand with unwind_frame (oracle for C17)
                let uid = t.next();
                let cid = t.next();
                let pc = t.u64();
                let mut regs = A::parse_regs(&mut t);
                let memid = t.next();
                let n = t.usize();
                match (unws.get(uid), caches.get_mut(cid), mems.get(memid)) {
                    (Some(u), Some(c), Some(mem)) => {
                        let mut rs = reader(mem);
                        let mut outv: Vec<String> = Vec::new();
                        let r = catch_unwind(AssertUnwindSafe(|| {
                            let mut addr = FrameAddress::from_instruction_pointer(pc);
                            let mut done = false;
                            for i in 0..n {
                                if i == 0 {
                                    outv.push(format!("ok ip 0x{:x}", pc));
                                    continue;
                                }
                                if done {
                                    outv.push("ok none".into());
                                    continue;
                                }
                                match A::unwind(u, addr, &mut regs, c, &mut rs) {
                                    Ok(Some(ra)) => match FrameAddress::from_return_address(ra) {
                                        Some(fa) => {
                                            addr = fa;
                                            outv.push(format!("ok ra 0x{:x}", ra));
                                        }
                                        None => outv.push("err ReturnAddressIsNull".into()),
                                    },
                                    Ok(None) => {
                                        done = true;
                                        outv.push("ok none".into());
                                    }
                                    Err(e) => outv.push(fmt_err(&e)),
                                }
                            }
                        }));
                        if r.is_err() {
                            outv.push(classify_panic());
                        }
                        format!("iter {}", outv.join(" | "))
                    }
                    _ => "bad".into(),
                }
            }
            "exec" => guarded(|| A::exec(&mut t, &mems)),
            "analyze" => {
                let kind = match t.next() {
                    "pro" => 0u8,
                    "epi" => 1,
                    _ => 2,
                };
                let bytes = parse_hex(t.next());
                let off = t.usize();
                guarded(|| A::analyze(kind, &bytes, off))
            }
            "regenc" => {
                let n = t.usize();
                let regs: Vec<Reg> = (0..n).map(|_| reg_by_name(t.next())).collect();
                guarded(|| match framehop::x86_64::verif_hooks::regorder_encode(&regs) {
                    Some((c, e)) => format!("some {} {}", c, e),
                    None => "none".into(),
                })
            }
            "regdec" => {
                let c = t.u64() as u8;
                let e = t.u64() as u16;
                guarded(|| {
                    let v = framehop::x86_64::verif_hooks::regorder_decode(c, e);
                    let names: Vec<&str> = v.iter().map(|r| reg_name(*r)).collect();
                    format!("regs {} {}", names.len(), names.join(" "))
                })
            }
            "mask" => {
                let kind = t.next();
                match kind {
                    "max" => {
                        let a = t.u64();
                        guarded(|| format!("mask 0x{:x}", PtrAuthMask::from_max_known_address(a).0))
                    }
                    "2440" => format!("mask 0x{:x}", PtrAuthMask::new_24_40().0),
                    _ => format!("mask 0x{:x}", PtrAuthMask::new_no_strip().0),
                }
            }
            "aregs" => {
                let r = parse_regs_a64(&mut t);
                format!("regs {}", fmt_regs_a64(&r))
            }
            "seqrule" => {
                // for_sequence_of_offset_or_pop over: off <n> | pop <REG> | none
                let n = t.usize();
                let mut v: Vec<framehop::x86_64::OffsetOrPop> = Vec::new();
                for _ in 0..n {
                    match t.next() {
                        "off" => v.push(framehop::x86_64::OffsetOrPop::OffsetBy8(t.u64() as u16)),
                        "pop" => v.push(framehop::x86_64::OffsetOrPop::Pop(reg_by_name(t.next()))),
                        _ => v.push(framehop::x86_64::OffsetOrPop::None),
                    }
                }
                guarded(|| {
                    match UnwindRuleX86_64::for_sequence_of_offset_or_pop(v.into_iter()) {
                        Some(r) => format!("some {}", fmt_rule_x86(&r)),
                        None => "none".into(),
                    }
                })
            }
            // evaluated by the model driver only (specification side of C03)
            "msproc" => "skip".to_string(),
            _ => format!("unknown-op {}", op),
        };
        BUSY_SINCE_MS.store(0, Ordering::Relaxed);
        writeln!(out, "{} {}", lineno, res).ok();
    }
    out.flush().ok();
}

fn main() {
    let args: Vec<String> = std::env::args().collect();
    if args.len() < 2 {
        eprintln!("usage: fh-harness <script> [hang_ms]");
        std::process::exit(2);
    }
    if args[1] == "--features" {
        let mut f: Vec<&str> = Vec::new();
        if cfg!(feature = "std") { f.push("std"); }
        if cfg!(feature = "macho") { f.push("macho"); }
        if cfg!(feature = "pe") { f.push("pe"); }
        println!("{}", f.join(","));
        return;
    }
    if args[1] == "--threads" {
        // C18 stress: T threads, each performing new / add_module / remove_module on its own
        // unwinders; every identity handed out is printed as "<thread> <generation>".
        let nthreads: usize = args[2].parse().unwrap();
        let ops: usize = args[3].parse().unwrap();
        let seed: u64 = args.get(4).and_then(|s| s.parse().ok()).unwrap_or(1);
        let barrier = Arc::new(std::sync::Barrier::new(nthreads));
        let mut handles = Vec::new();
        for t in 0..nthreads {
            let b = barrier.clone();
            handles.push(std::thread::spawn(move || {
                let mut out: Vec<u16> = Vec::with_capacity(ops);
                let mut x = seed.wrapping_mul(0x9E3779B97F4A7C15).wrapping_add(t as u64 + 1) | 1;
                let mut next = move || {
                    x ^= x >> 12;
                    x ^= x << 25;
                    x ^= x >> 27;
                    x.wrapping_mul(0x2545F4914F6CDD1D)
                };
                b.wait();
                let mut u: UnwinderX86_64<Data, MayAllocateDuringUnwind> = UnwinderX86_64::new();
                out.push(u.verif_modules_generation());
                let mut starts: Vec<u64> = Vec::new();
                let mut done = 1;
                while done < ops {
                    // every fourth thread mostly hammers no-op removes between its own draws
                    let sel = if t % 4 == 3 && next() % 8 != 0 { 4 } else { next() % 5 };
                    if t % 4 == 3 && sel == 4 {
                        u = UnwinderX86_64::new();
                        starts.clear();
                        out.push(u.verif_modules_generation());
                        done += 1;
                    }
                    match sel {
                        4 => {
                            // removing a start that was never registered changes nothing - and must not disturb
                            // the identities other threads are drawing at the same moment
                            let before = u.verif_modules_generation();
                            for _ in 0..8 {
                                u.remove_module(0xdead0000 + (next() & 0xfff));
                            }
                            assert_eq!(before, u.verif_modules_generation());
                        }
                        0 => {
                            u = UnwinderX86_64::new();
                            starts.clear();
                            out.push(u.verif_modules_generation());
                            done += 1;
                        }
                        1 | 2 => {
                            let st = 0x1000 * (starts.len() as u64 + 1);
                            let si = SecInfo {
                                base_svma: 0,
                                data: HashMap::new(),
                                ranges: HashMap::new(),
                                seg_data: HashMap::new(),
                                seg_ranges: HashMap::new(),
                            };
                            u.add_module(Module::new("m".to_string(), st..st + 0x100, st, si));
                            starts.push(st);
                            out.push(u.verif_modules_generation());
                            done += 1;
                        }
                        _ => {
                            if let Some(st) = starts.pop() {
                                u.remove_module(st);
                                out.push(u.verif_modules_generation());
                                done += 1;
                            } else {
                                let before = u.verif_modules_generation();
                                u.remove_module(0xdead);
                                assert_eq!(before, u.verif_modules_generation());
                            }
                        }
                    }
                }
                out
            }));
        }
        for (t, h) in handles.into_iter().enumerate() {
            for g in h.join().unwrap() {
                println!("{} {}", t, g);
            }
        }
        return;
    }
    let hang_ms: u64 = args.get(2).and_then(|s| s.parse().ok()).unwrap_or(5000);
    install_panic_hook();
    let f = std::fs::File::open(&args[1]).expect("open script");
    let lines: Vec<String> = std::io::BufReader::new(f).lines().map(|l| l.unwrap()).collect();
    let mut arch = "x86".to_string();
    let mut policy = "may".to_string();
    for l in lines.iter() {
        let mut t = Toks::new(l);
        if t.next() == "config" {
            while !t.peek().is_empty() {
                let kv = t.next();
                if let Some((k, v)) = kv.split_once('=') {
                    match k {
                        "arch" => arch = v.to_string(),
                        "policy" => policy = v.to_string(),
                        "count" => COUNT_ITEMS.store(v == "1", Ordering::Relaxed),
                        "misalign" => MISALIGN.store(v.parse().unwrap_or(0), Ordering::Relaxed),
                        _ => {}
                    }
                }
            }
            break;
        }
    }
    match (arch.as_str(), policy.as_str()) {
        ("x86", "may") => run::<X86<MayAllocateDuringUnwind>>(lines, hang_ms),
        ("x86", _) => run::<X86<MustNotAllocateDuringUnwind>>(lines, hang_ms),
        ("a64", "may") => run::<A64<MayAllocateDuringUnwind>>(lines, hang_ms),
        (_, _) => run::<A64<MustNotAllocateDuringUnwind>>(lines, hang_ms),
    }
}
