(* StaticSuff.v - when is every step through an unwinder rule-based (TruncWalk.all_static)? A sufficient condition
   that can be read off the modules: every module has no unwind data, or DWARF CFI (any presentation) all of whose
   rows compress into a cacheable rule. (Uncovered addresses, unbuildable indexes and lookups that find nothing are
   answered by a rule or a state-independent error anyway.) *)
From FH Require Import Consts Word X86 A64 DwarfRow Cfi Unwinder X86Dwarf A64Dwarf DwarfCb X86Unw A64Unw WordFacts HistFacts StaticFacts ModFacts TruncFacts TruncWalk.
From Coq Require Import Lia ZifyBool ZifyN List.
Import ListNotations.
Open Scope N_scope.

Lemma last_le_in {A} (key : A -> N) l : forall a cur r,
  last_le_by key l a cur = Some r -> In r l \/ cur = Some r.
Proof.
  induction l as [|f t IH]; intros a cur r; cbn [last_le_by]; [auto|].
  destruct (key f <=? a); [|auto]. intros H. destruct (IH _ _ _ H) as [H1|H1]; [left; now right|].
  inversion H1; subst. left. now left.
Qed.

Lemma insert_sorted_in' {A} (key : A -> N) x l z : In z (insert_sorted key x l) -> z = x \/ In z l.
Proof.
  induction l as [|y t IH]; cbn [insert_sorted]; [intros [<-|[]]; auto|].
  destruct (key x <? key y); [intros [<-|H]; auto|]. intros [<-|H]; [right; now left|].
  destruct (IH H) as [->|H1]; [now left | right; now right].
Qed.

Lemma sort_in {A} (key : A -> N) (l : list A) z : In z (sort_by_key key l) -> In z l.
Proof.
  unfold sort_by_key.
  assert (G : forall l acc, In z (fold_left (fun acc x => insert_sorted key x acc) l acc) -> In z l \/ In z acc).
  { induction l0 as [|x t IH]; cbn [fold_left]; [auto|]. intros acc H.
    destruct (IH _ H) as [H1|H1]; [left; now right|].
    destruct (insert_sorted_in' _ _ _ _ H1) as [->|H2]; [left; now left | now right]. }
  intros H. destruct (G l [] H) as [H1|[]]. exact H1.
Qed.

Lemma hdr_lookup_in sec a f : hdr_lookup sec a = Some f -> In f sec.
Proof.
  unfold hdr_lookup. destruct (sort_by_key f_start sec) as [|f0 t] eqn:E; [discriminate|].
  intros H. apply (sort_in f_start). rewrite E.
  destruct (last_le_in _ _ _ _ _ H) as [H1|H1]; [exact H1 | inversion H1; now left].
Qed.

Lemma index_entries_in sec b : forall l, index_entries sec b = Some l -> forall e, In e l -> In (snd e) sec.
Proof.
  induction sec as [|f t IH]; cbn [index_entries]; intros l H e He.
  - inversion H; subst. destruct He.
  - destruct (sub64c (f_start f) b) as [rel|]; [|discriminate]. destruct (rel <? W32); [|discriminate].
    destruct (index_entries t b) as [l0|]; [|discriminate]. inversion H; subst.
    destruct He as [<-|He]; [now left | right; eapply IH; eauto].
Qed.

Lemma index_lookup_in sec b idx fb rel f :
  index_build sec b = Some idx -> index_lookup fb idx rel = Some f -> In f sec.
Proof.
  unfold index_build. destruct (index_entries sec b) as [l|] eqn:E; [|discriminate].
  intros H; inversion H; subst idx. clear H.
  assert (M : forall e, In e (sort_by_key fst l) -> In (snd e) sec)
    by (intros e He; eapply index_entries_in; [exact E | apply (sort_in fst); exact He]).
  unfold index_lookup. destruct (sort_by_key fst l) as [|e0 t] eqn:Es; [discriminate|].
  destruct (rel <? fst e0).
  - destruct fb; [|discriminate]. intros H; inversion H; subst. apply M. now left.
  - destruct (last_le_by fst (e0 :: t) rel None) as [e|] eqn:El; [|discriminate].
    cbn. intros H; inversion H; subst. apply M.
    destruct (last_le_in _ _ _ _ _ El) as [H1|H1]; [exact H1 | discriminate].
Qed.

Lemma row_at_in rows : forall off cur rw, row_at rows off cur = Some rw -> In rw (map snd rows) \/ cur = Some rw.
Proof.
  induction rows as [|[o r] t IH]; cbn [row_at map snd]; intros off cur rw; [auto|].
  destruct (o <=? off); [|auto]. intros H. destruct (IH _ _ _ H) as [H1|H1]; [left; now right|].
  inversion H1; subst. left. now left.
Qed.

Section S.
Variable rule : Type.
Variable translate : row -> option rule.
Variable uncovered : rule.

(* every row of the FDE compresses *)
Definition fde_compresses (f : fde) : Prop := forall rw, In rw (map snd (f_rows f)) -> translate rw <> None.

Lemma fde_static_not_dyn f svma : fde_compresses f -> fde_static rule translate uncovered f svma <> SDyn _.
Proof.
  intros Hc. unfold fde_static. destruct (row_for_address f svma) as [rw|] eqn:E; [|discriminate].
  unfold row_for_address in E. destruct (f_ok f && fde_contains f svma); [|discriminate].
  destruct (row_at_in _ _ _ _ E) as [H|H]; [|discriminate].
  specialize (Hc rw H). destruct (translate rw); [discriminate | contradiction].
Qed.

Lemma dwarf_static_not_dyn p sec b rel :
  (forall f, In f sec -> fde_compresses f) -> dwarf_static rule translate uncovered p sec b rel <> SDyn _.
Proof.
  intros Hc. unfold dwarf_static. destruct p.
  - destruct (add64p S_dwarf_svma_add b rel) as [svma| | |]; try discriminate.
    destruct (hdr_lookup sec svma) as [f|] eqn:E; [|discriminate].
    apply fde_static_not_dyn. apply Hc. eapply hdr_lookup_in; exact E.
  - destruct (index_build sec b) as [idx|] eqn:Eb; [|discriminate].
    destruct (index_lookup true idx rel) as [f|] eqn:El; [|discriminate].
    destruct (add64p S_dwarf_svma_add b rel) as [svma| | |]; try discriminate.
    apply fde_static_not_dyn. apply Hc. eapply index_lookup_in; eassumption.
  - destruct (index_build sec b) as [idx|] eqn:Eb; [|discriminate].
    destruct (index_lookup true idx rel) as [f|] eqn:El; [|discriminate].
    destruct (add64p S_dwarf_svma_add b rel) as [svma| | |]; try discriminate.
    apply fde_static_not_dyn. apply Hc. eapply index_lookup_in; eassumption.
Qed.
End S.

(* x86_64: modules without data, or with DWARF CFI all of whose rows compress *)
Definition module_rule_based_x86 (md : xmodule) : Prop :=
  match mdat md with
  | MNone => True
  | MDwarf p sec => forall f, In f sec -> fde_compresses rule translate_x86 f
  | _ => False
  end.

Theorem all_static_x86 (u : xunwinder) :
  (forall md, In md (mods _ u) -> module_rule_based_x86 md) -> all_static rule mdata cb_static_x86 u.
Proof.
  intros H x first md rel Hf. pose proof (find_module_in mdata _ _ _ _ Hf) as Hin. specialize (H md Hin).
  unfold module_rule_based_x86 in H. unfold cb_static_x86. destruct (mdat md) as [|p sec|pe|d]; try contradiction.
  - discriminate.
  - apply dwarf_static_not_dyn. exact H.
Qed.

(* aarch64: modules without data, PE images (not supported on this architecture: a state-independent error), or
   DWARF CFI all of whose rows compress *)
Definition module_rule_based_a64 (md : amodule) : Prop :=
  match mdat md with
  | AMNone | AMPe => True
  | AMDwarf p sec => forall f, In f sec -> fde_compresses arule translate_a64 f
  | AMMacho _ => False
  end.

Theorem all_static_a64 (u : aunwinder) :
  (forall md, In md (mods _ u) -> module_rule_based_a64 md) -> all_static arule amdata cb_static_a64 u.
Proof.
  intros H x first md rel Hf. pose proof (find_module_in amdata _ _ _ _ Hf) as Hin. specialize (H md Hin).
  unfold module_rule_based_a64 in H. unfold cb_static_a64. destruct (mdat md) as [|p sec| |d]; try contradiction.
  - discriminate.
  - apply dwarf_static_not_dyn. exact H.
  - discriminate.
Qed.
