(* PacFacts.v - C16, second sentence: a stack whose saved return addresses carry authentication bits
   unwinds like the unsigned stack. Rule execution reads the return address from at most one slot
   (lr_slot); if two stacks agree everywhere else and the words in that slot agree after stripping, the
   step returns the same result and the same registers. *)
From FH Require Import Consts Word A64 Unwinder A64Unw WordFacts A64Exec.
From Coq Require Import Lia ZifyBool ZifyN.
Open Scope N_scope.
Arguments N.add : simpl never.
Arguments N.sub : simpl never.
Arguments N.mul : simpl never.
Arguments N.eqb : simpl never.
Arguments N.ltb : simpl never.
Arguments N.leb : simpl never.
Arguments N.land : simpl never.

(* the slot a rule takes the return address from (None: from the lr register, or not at all) *)
Definition lr_slot (ru : arule) (first : bool) (rg : aregs) : option N :=
  match ru with
  | ANoOpIfFirstFrameOtherwiseFp => if first then None else Some (afp rg + 8)
  | AUseFramePointer => Some (afp rg + 8)
  | AOffsetSpAndRestoreLr _ lo | AOffsetSpAndRestoreFpAndLr _ _ lo => adds64c (asp rg) (lo * 8)
  | AUseFramepointerWithOffsets _ _ lo => adds64c (afp rg) (lo * 8)
  | _ => None
  end.

(* the rules that restore fp and lr from stated slots name two different slots *)
Definition slots_distinct (ru : arule) : Prop :=
  match ru with
  | AOffsetSpAndRestoreFpAndLr _ fo lo | AUseFramepointerWithOffsets _ fo lo => fo <> lo
  | _ => True
  end.

(* m' is m with authentication bits (bits outside k) possibly set in the word at [slot] *)
Definition signed_at (k : N) (slot : option N) (m m' : mem) : Prop :=
  (forall a, slot <> Some a -> m' a = m a) /\
  (forall a, slot = Some a ->
     match m a, m' a with
     | Some v, Some v' => strip k v' = strip k v
     | None, None => True
     | _, _ => False
     end).

Lemma aexec_tail_signed first rg nl nl' ns nf :
  strip (mask rg) nl' = strip (mask rg) nl -> aexec_tail first rg nl' ns nf = aexec_tail first rg nl ns nf.
Proof. intros H. unfold aexec_tail, set_lr. rewrite H. reflexivity. Qed.

Lemma adds64c_inj a x y r :
  a < W64 -> in_i16 x = true -> in_i16 y = true ->
  adds64c a (x * 8) = Some r -> adds64c a (y * 8) = Some r -> x = y.
Proof.
  intros Ha Hx Hy H1 H2.
  assert (Ix : in_i64 (x * 8) = true) by (unfold in_i16, in_i64, I64MIN, I64MAX in *; lia).
  assert (Iy : in_i64 (y * 8) = true) by (unfold in_i16, in_i64, I64MIN, I64MAX in *; lia).
  destruct (adds64c_some _ _ _ Ha Ix H1) as [E1 _]. destruct (adds64c_some _ _ _ Ha Iy H2) as [E2 _]. lia.
Qed.

Theorem aexec_signed ru first rg m m' :
  arule_wf ru = true -> asp rg < W64 -> afp rg < W64 ->
  slots_distinct ru -> signed_at (mask rg) (lr_slot ru first rg) m m' ->
  aexec ru first rg m' = aexec ru first rg m.
Proof.
  intros Hwf Hsp Hfp Hd [Hsame Hslot].
  assert (LR : forall a, lr_slot ru first rg = Some a ->
               (m a = None /\ m' a = None) \/
               exists v v', m a = Some v /\ m' a = Some v' /\ strip (mask rg) v' = strip (mask rg) v).
  { intros a Ha. specialize (Hslot a Ha). destruct (m a) as [v|], (m' a) as [v'|]; try contradiction.
    - right. exists v, v'. auto.
    - left. auto. }
  destruct ru; cbn [aexec lr_slot slots_distinct] in *.
  - reflexivity.
  - destruct first; [reflexivity|].
    destruct (add64c (afp rg) 16); [|reflexivity].
    unfold add64p. destruct (afp rg + 8 <? W64) eqn:E8; [|reflexivity].
    rewrite (Hsame (afp rg)) by (intros H; inversion H; lia).
    destruct (LR _ eq_refl) as [[-> ->]|(v & v' & -> & -> & Hv)]; [reflexivity|].
    destruct (m (afp rg)); [|reflexivity]. destruct (n0 =? 0); [reflexivity|]. destruct (n <=? asp rg); [reflexivity|].
    apply aexec_tail_signed. exact Hv.
  - reflexivity.
  - reflexivity.
  - destruct (add64c (asp rg) (k * 16)); [|reflexivity].
    destruct (adds64c (asp rg) (l * 8)) as [ll|]; [|reflexivity].
    destruct (LR _ eq_refl) as [[-> ->]|(v & v' & -> & -> & Hv)]; [reflexivity|].
    apply aexec_tail_signed. exact Hv.
  - destruct (add64c (asp rg) (k * 16)); [|reflexivity].
    destruct (adds64c (asp rg) (l * 8)) as [ll|] eqn:El; [|reflexivity].
    destruct (LR _ eq_refl) as [[-> ->]|(v & v' & -> & -> & Hv)]; [reflexivity|].
    destruct (adds64c (asp rg) (f * 8)) as [fl|] eqn:Ef; [|reflexivity].
    assert (Hw : in_i16 f = true /\ in_i16 l = true)
      by (cbn [arule_wf] in Hwf; destruct (k <? W16), (in_i16 f), (in_i16 l); cbn in Hwf; auto; discriminate).
    rewrite (Hsame fl) by (intros H; inversion H; subst; apply Hd; apply (adds64c_inj (asp rg) f l fl); tauto).
    destruct (m fl); [|reflexivity]. apply aexec_tail_signed. exact Hv.
  - destruct (add64c (afp rg) 16); [|reflexivity].
    unfold add64p. destruct (afp rg + 8 <? W64) eqn:E8; [|reflexivity].
    rewrite (Hsame (afp rg)) by (intros H; inversion H; lia).
    destruct (LR _ eq_refl) as [[-> ->]|(v & v' & -> & -> & Hv)]; [reflexivity|].
    destruct (m (afp rg)); [|reflexivity]. destruct (n0 =? 0); [reflexivity|].
    destruct ((n0 <=? afp rg) || (n <=? asp rg)); [reflexivity|].
    apply aexec_tail_signed. exact Hv.
  - destruct (add64c (afp rg) (k * 8)); [|reflexivity].
    destruct (adds64c (afp rg) (l * 8)) as [ll|] eqn:El; [|reflexivity].
    destruct (LR _ eq_refl) as [[-> ->]|(v & v' & -> & -> & Hv)]; [reflexivity|].
    destruct (adds64c (afp rg) (f * 8)) as [fl|] eqn:Ef; [|reflexivity].
    assert (Hw : in_i16 f = true /\ in_i16 l = true)
      by (cbn [arule_wf] in Hwf; destruct (k <? W16), (in_i16 f), (in_i16 l); cbn in Hwf; auto; discriminate).
    rewrite (Hsame fl) by (intros H; inversion H; subst; apply Hd; apply (adds64c_inj (afp rg) f l fl); tauto).
    destruct (m fl); [|reflexivity]. destruct (n0 =? 0); [reflexivity|].
    destruct ((n0 <=? afp rg) || (n <=? asp rg)); [reflexivity|].
    apply aexec_tail_signed. exact Hv.
Qed.
