(* StaticFacts.v - the per-module callback is "static or never cached" (hypothesis cb_ok of
   HistFacts) for the DWARF module kinds, and the instantiation of C06 / C20 for both
   architectures. *)
From FH Require Import Macho MachoCb Consts Word X86 A64 DwarfRow Cfi Unwinder X86Dwarf A64Dwarf DwarfCb Pe X86Unw A64Unw
  WordFacts HistFacts.
From Coq Require Import Lia ZifyBool ZifyN.
Open Scope N_scope.

Section DwarfStatic.
Variables rule regs : Type.
Variable row_step : row -> bool -> regs -> mem -> cb_result rule regs.
Variable translate : row -> option rule.
Variable uncovered : rule.
Hypothesis row_step_ok : forall rw first rg m,
  match translate rw with
  | Some r => row_step rw first rg m = CbRule r
  | None => match row_step rw first rg m with CbRule _ | CbErr _ => False | _ => True end
  end.

Definition fde_static (f : fde) (svma : N) : sclass rule :=
  match row_for_address f svma with
  | None => SRule _ uncovered
  | Some rw => match translate rw with Some r => SRule _ r | None => SDyn _ end
  end.

Definition dwarf_static (p : pres) (sec : list fde) (base_svma rel : N) : sclass rule :=
  match p with
  | PHdr =>
    match add64p S_dwarf_svma_add base_svma rel with
    | Ok svma => match hdr_lookup sec svma with None => SErr _ | Some f => fde_static f svma end
    | _ => SErr _
    end
  | POwnEh | POwnDebug =>
    match index_build sec base_svma with
    | None => SErr _
    | Some idx =>
      match index_lookup true idx rel with
      | None => SErr _
      | Some f =>
        match add64p S_dwarf_svma_add base_svma rel with
        | Ok svma => fde_static f svma
        | _ => SRule _ uncovered
        end
      end
    end
  end.

Lemma with_fde_ok f svma first rg m :
  match fde_static f svma with
  | SRule _ r => with_fde rule regs row_step uncovered f svma first rg m = CbRule r
  | SErr _ => with_fde rule regs row_step uncovered f svma first rg m = CbErr rg
  | SDyn _ => match with_fde rule regs row_step uncovered f svma first rg m with
              | CbRule _ | CbErr _ => False | _ => True end
  end.
Proof.
  unfold fde_static, with_fde. destruct (row_for_address f svma) as [rw|]; [|reflexivity].
  pose proof (row_step_ok rw first rg m) as H. destruct (translate rw); exact H.
Qed.

Lemma cb_dwarf_ok p sec base_svma first rel rg m :
  match dwarf_static p sec base_svma rel with
  | SRule _ r => fst (cb_dwarf rule regs row_step uncovered true p sec base_svma first rel rg m) = CbRule r
  | SErr _ => fst (cb_dwarf rule regs row_step uncovered true p sec base_svma first rel rg m) = CbErr rg
  | SDyn _ => match fst (cb_dwarf rule regs row_step uncovered true p sec base_svma first rel rg m) with
              | CbRule _ | CbErr _ => False | _ => True end
  end.
Proof.
  unfold dwarf_static, cb_dwarf. destruct p.
  - destruct (add64p S_dwarf_svma_add base_svma rel) as [svma|e|s|]; cbn; try reflexivity.
    destruct (hdr_lookup sec svma) as [f|]; cbn; [apply with_fde_ok | reflexivity].
  - destruct (index_build sec base_svma) as [idx|]; cbn; [|reflexivity].
    destruct (index_lookup true idx rel) as [f|]; cbn; [|reflexivity].
    destruct (add64p S_dwarf_svma_add base_svma rel) as [svma|e|s|]; cbn; try reflexivity. apply with_fde_ok.
  - destruct (index_build sec base_svma) as [idx|]; cbn; [|reflexivity].
    destruct (index_lookup true idx rel) as [f|]; cbn; [|reflexivity].
    destruct (add64p S_dwarf_svma_add base_svma rel) as [svma|e|s|]; cbn; try reflexivity. apply with_fde_ok.
Qed.
(* Mach-O: the compact-unwind step looks at the unwind data only; deferred entries are DWARF rows *)
Variable arch_unwind : mfunction -> bool -> N -> option (list N) -> cui_result rule.
Variables stub_rule start_rule : rule.
Variable helper_rule : N -> rule.

Definition macho_static (d : macho_data) (base_svma : N) (first : bool) (rel : N) : sclass rule :=
  match macho_cui rule arch_unwind stub_rule start_rule helper_rule d rel first with
  | CuiRule r => SRule _ r
  | CuiErr => SErr _
  | CuiNeedDwarf off =>
    match m_eh d with
    | None => SErr _
    | Some l =>
      match eh_find l off with
      | None => SErr _
      | Some f =>
        match add64p S_dwarf_svma_add base_svma rel with
        | Ok svma => fde_static f svma
        | _ => SRule _ uncovered
        end
      end
    end
  end.

Lemma cb_macho_ok d base_svma first rel rg m :
  match macho_static d base_svma first rel with
  | SRule _ r => fst (cb_macho rule regs row_step uncovered arch_unwind stub_rule start_rule helper_rule d base_svma first rel rg m) = CbRule r
  | SErr _ => fst (cb_macho rule regs row_step uncovered arch_unwind stub_rule start_rule helper_rule d base_svma first rel rg m) = CbErr rg
  | SDyn _ => match fst (cb_macho rule regs row_step uncovered arch_unwind stub_rule start_rule helper_rule d base_svma first rel rg m) with
              | CbRule _ | CbErr _ => False | _ => True end
  end.
Proof.
  unfold macho_static, cb_macho.
  destruct (macho_cui rule arch_unwind stub_rule start_rule helper_rule d rel first); try reflexivity.
  destruct (m_eh d) as [l|]; [|reflexivity].
  destruct (eh_find l fde_offset) as [f|]; [|reflexivity].
  destruct (add64p S_dwarf_svma_add base_svma rel) as [svma|e|s|]; cbn; try reflexivity. apply with_fde_ok.
Qed.
End DwarfStatic.

(* ---------- x86_64 ---------- *)
Lemma generic_x86_dyn rw first rg m :
  match generic_x86 rw first rg m with CbRule _ | CbErr _ => False | _ => True end.
Proof.
  unfold generic_x86. destruct (eval_cfa_rule (x86_getreg rg) (r_cfa rw)); [|exact I].
  match goal with |- context[match ?o with Some _ => _ | None => CbErrV rg end] => destruct o end; [|exact I].
  destruct ((n =? sp rg) && (n0 =? ip rg)); [exact I|].
  destruct (negb first && (n <=? sp rg)); exact I.
Qed.

Lemma row_step_x86_ok rw first rg m :
  match translate_x86 rw with
  | Some r => row_step_x86 rw first rg m = CbRule r
  | None => match row_step_x86 rw first rg m with CbRule _ | CbErr _ => False | _ => True end
  end.
Proof. unfold row_step_x86. destruct (translate_x86 rw); [reflexivity | apply generic_x86_dyn]. Qed.

(* PE: which of the three classes a (function table, address, first?) falls into *)
Definition pe_static (pe : pe_data) (address : N) (first : bool) : sclass rule :=
  match pe_lookup (pe_funcs pe) address None with
  | None => SRule _ JustReturn
  | Some f =>
    match ui_at (pe_uinfos pe) (rt_uinfo f) with
    | UiMissing | UiBad => SErr _
    | UiOk u0 =>
      let epi :=
        if first then
          if rt_end f <? address then Some (SErr _)
          else
            match pe_text pe with
            | None => Some (SErr _)
            | Some (lo, hi, bytes) =>
              if (lo <=? address) && (address <? hi) then
                let off := N.to_nat (address - lo) in
                if Nat.ltb (length bytes) off then Some (SErr _)
                else
                  let rest := skipn off bytes in
                  let n := N.to_nat (rt_end f - address) in
                  if Nat.ltb (length rest) n then Some (SErr _)
                  else
                    match (if local_jump (firstn n rest) address (rt_begin f) (rt_end f) then None
                           else eparse_sequence (firstn n rest) (ui_fpreg u0)) with
                    | None => None
                    | Some insns =>
                      match rule_for_sequence (map oop_of_einsn insns) with
                      | Some (Ok r) => Some (SRule _ r)
                      | _ => Some (SDyn _)
                      end
                    end
              else Some (SErr _)
            end
        else None in
      match epi with
      | Some c => c
      | None =>
        match chain_infos CHAIN_LIMIT pe u0 with
        | Ok None => SErr _
        | Ok (Some infos) =>
          if address <? rt_begin f then SDyn _
          else match rule_for_sequence (map oop_of_uop (all_ops (address - rt_begin f) infos)) with
               | Some (Ok r) => SRule _ r
               | _ => SDyn _
               end
        | _ => SDyn _
        end
      end
    end
  end.

Lemma pe_uncacheable_dyn first rg0 ra rg' :
  match pe_uncacheable first rg0 ra rg' with CbRule _ | CbErr _ => False | _ => True end.
Proof.
  unfold pe_uncacheable. destruct ((sp rg' =? sp rg0) && (ra =? ip rg0)); [exact I|].
  destruct (negb first && (sp rg' <=? sp rg0)); exact I.
Qed.

Lemma final_pop_dyn c first rg0 rg m :
  match final_pop c first rg0 rg m with CbRule _ | CbErr _ => False | _ => True end.
Proof.
  unfold final_pop. destruct (m (sp rg)); [|exact I].
  destruct (sp rg + 8 <? W64); [apply pe_uncacheable_dyn|]. destruct c; exact I.
Qed.

Lemma pe_step_raw_ok pe address first rg m :
  match pe_static pe address first with
  | SRule _ r => fst (pe_step_raw true pe address first rg m) = CbRule r
  | SErr _ => fst (pe_step_raw true pe address first rg m) = CbErr rg
  | SDyn _ => match fst (pe_step_raw true pe address first rg m) with CbRule _ | CbErr _ => False | _ => True end
  end.
Proof.
  unfold pe_static, pe_step_raw.
  destruct (pe_lookup (pe_funcs pe) address None) as [f|]; [|reflexivity].
  destruct (ui_at (pe_uinfos pe) (rt_uinfo f)) as [u0| |]; try reflexivity.
  assert (TAIL :
    match
      match chain_infos CHAIN_LIMIT pe u0 with
      | Ok None => SErr rule
      | Ok (Some infos) =>
        if address <? rt_begin f then SDyn rule
        else match rule_for_sequence (map oop_of_uop (all_ops (address - rt_begin f) infos)) with
             | Some (Ok r) => SRule rule r
             | _ => SDyn rule
             end
      | _ => SDyn rule
      end
    with
    | SRule _ r =>
      fst (match chain_infos CHAIN_LIMIT pe u0 with
           | Hang => (CbHang, pe_eff_alloc)
           | Ok None => (CbErr rg, pe_eff_alloc)
           | Ok (Some infos) =>
             if address <? rt_begin f then (CbPanic S_pe_own_sub, pe_eff_alloc)
             else
               match rule_for_sequence (map oop_of_uop (all_ops (address - rt_begin f) infos)) with
               | Some (Ok r) => (CbRule r, pe_eff_alloc)
               | Some (Panic s) => (CbPanic s, pe_eff_alloc)
               | Some _ => (CbHang, pe_eff_alloc)
               | None =>
                 match run_ops_pe u0 (all_ops (address - rt_begin f) infos) rg m with
                 | OpCont rg' => (final_pop true first rg rg' m, pe_eff_alloc)
                 | OpBreak ra rg' => (pe_uncacheable first rg ra rg', pe_eff_alloc)
                 | OpNoStack rg' => (CbErrV rg', pe_eff_alloc)
                 | OpPanic => (CbPanic S_pe_dep, pe_eff_alloc)
                 end
               end
           | _ => (CbHang, pe_eff_alloc)
           end) = CbRule r
    | SErr _ => fst (match chain_infos CHAIN_LIMIT pe u0 with
           | Hang => (CbHang, pe_eff_alloc)
           | Ok None => (CbErr rg, pe_eff_alloc)
           | Ok (Some infos) =>
             if address <? rt_begin f then (CbPanic S_pe_own_sub, pe_eff_alloc)
             else
               match rule_for_sequence (map oop_of_uop (all_ops (address - rt_begin f) infos)) with
               | Some (Ok r) => (CbRule r, pe_eff_alloc)
               | Some (Panic s) => (CbPanic s, pe_eff_alloc)
               | Some _ => (CbHang, pe_eff_alloc)
               | None =>
                 match run_ops_pe u0 (all_ops (address - rt_begin f) infos) rg m with
                 | OpCont rg' => (final_pop true first rg rg' m, pe_eff_alloc)
                 | OpBreak ra rg' => (pe_uncacheable first rg ra rg', pe_eff_alloc)
                 | OpNoStack rg' => (CbErrV rg', pe_eff_alloc)
                 | OpPanic => (CbPanic S_pe_dep, pe_eff_alloc)
                 end
               end
           | _ => (CbHang, pe_eff_alloc)
           end) = CbErr rg
    | SDyn _ => match fst (match chain_infos CHAIN_LIMIT pe u0 with
           | Hang => (CbHang, pe_eff_alloc)
           | Ok None => (CbErr rg, pe_eff_alloc)
           | Ok (Some infos) =>
             if address <? rt_begin f then (CbPanic S_pe_own_sub, pe_eff_alloc)
             else
               match rule_for_sequence (map oop_of_uop (all_ops (address - rt_begin f) infos)) with
               | Some (Ok r) => (CbRule r, pe_eff_alloc)
               | Some (Panic s) => (CbPanic s, pe_eff_alloc)
               | Some _ => (CbHang, pe_eff_alloc)
               | None =>
                 match run_ops_pe u0 (all_ops (address - rt_begin f) infos) rg m with
                 | OpCont rg' => (final_pop true first rg rg' m, pe_eff_alloc)
                 | OpBreak ra rg' => (pe_uncacheable first rg ra rg', pe_eff_alloc)
                 | OpNoStack rg' => (CbErrV rg', pe_eff_alloc)
                 | OpPanic => (CbPanic S_pe_dep, pe_eff_alloc)
                 end
               end
           | _ => (CbHang, pe_eff_alloc)
           end) with CbRule _ | CbErr _ => False | _ => True end
    end).
  { destruct (chain_infos CHAIN_LIMIT pe u0) as [[infos|]|e|s|]; cbn; try exact I; try reflexivity.
    destruct (address <? rt_begin f); [exact I|].
    destruct (rule_for_sequence (map oop_of_uop (all_ops (address - rt_begin f) infos))) as [[r|e|s|]|]; cbn; try exact I; try reflexivity.
    destruct (run_ops_pe u0 (all_ops (address - rt_begin f) infos) rg m); cbn [fst]; try exact I.
    - apply final_pop_dyn.
    - apply pe_uncacheable_dyn. }
  destruct first; [|exact TAIL].
  destruct (rt_end f <? address); [reflexivity|].
  destruct (pe_text pe) as [[[lo hi] bytes]|]; [|reflexivity].
  destruct ((lo <=? address) && (address <? hi)); [|reflexivity].
  destruct (Nat.ltb (length bytes) (N.to_nat (address - lo))); [reflexivity|].
  destruct (Nat.ltb (length (skipn (N.to_nat (address - lo)) bytes)) (N.to_nat (rt_end f - address))); [reflexivity|].
  destruct (local_jump _ address (rt_begin f) (rt_end f)); [exact TAIL|].
  destruct (eparse_sequence _ (ui_fpreg u0)) as [insns|]; [|exact TAIL].
  destruct (rule_for_sequence (map oop_of_einsn insns)) as [[r|e|s|]|]; cbn; try exact I; try reflexivity.
  destruct (run_epilog true u0 insns rg m); cbn [fst]; try exact I.
  - apply final_pop_dyn.
  - apply pe_uncacheable_dyn.
Qed.

Lemma pe_step_ok pe address first rg m :
  match pe_static pe address first with
  | SRule _ r => fst (pe_step true pe address first rg m) = CbRule r
  | SErr _ => fst (pe_step true pe address first rg m) = CbErr rg
  | SDyn _ => match fst (pe_step true pe address first rg m) with CbRule _ | CbErr _ => False | _ => True end
  end.
Proof.
  pose proof (pe_step_raw_ok pe address first rg m) as H. unfold pe_step. cbn [fst].
  destruct (pe_static pe address first).
  - rewrite H. reflexivity.
  - rewrite H. reflexivity.
  - destruct (fst (pe_step_raw true pe address first rg m)); cbn [pe_restore]; auto.
Qed.

Definition cb_static_x86 (md : xmodule) (first : bool) (rel : N) : sclass rule :=
  match mdat md with
  | MNone => SErr _
  | MDwarf p sec => dwarf_static rule translate_x86 uncovered_rule_x86 p sec (base_svma md) rel
  | MPe pe => pe_static pe rel first
  | MMacho d => macho_static rule translate_x86 uncovered_rule_x86 x86_macho_unwind JustReturn JustReturn x86_stub_helper_rule
                             d (base_svma md) first rel
  end.

Lemma cb_x86_ok md first rel rg m :
  match cb_static_x86 md first rel with
  | SRule _ r => fst (cb_x86 md first rel rg m) = CbRule r
  | SErr _ => fst (cb_x86 md first rel rg m) = CbErr rg
  | SDyn _ => match fst (cb_x86 md first rel rg m) with CbRule _ | CbErr _ => False | _ => True end
  end.
Proof.
  unfold cb_static_x86, cb_x86. destruct (mdat md); [reflexivity | | apply pe_step_ok |].
  - apply cb_dwarf_ok. apply row_step_x86_ok.
  - apply cb_macho_ok. apply row_step_x86_ok.
Qed.

(* ---------- aarch64 ---------- *)
Lemma generic_a64_dyn rw first rg m :
  match generic_a64 rw first rg m with CbRule _ | CbErr _ => False | _ => True end.
Proof.
  unfold generic_a64. destruct (eval_cfa_rule (a64_getreg rg) (r_cfa rw)); [|exact I].
  destruct (negb first); [|exact I].
  destruct (n <=? asp rg); [exact I|].
  destruct (eval_register_rule (a64_getreg rg) (r_fp rw) n (afp rg) m); [|exact I].
  destruct (eval_register_rule (a64_getreg rg) (r_ra rw) n (lr rg) m); exact I.
Qed.

Lemma row_step_a64_ok rw first rg m :
  match translate_a64 rw with
  | Some r => row_step_a64 rw first rg m = CbRule r
  | None => match row_step_a64 rw first rg m with CbRule _ | CbErr _ => False | _ => True end
  end.
Proof. unfold row_step_a64. destruct (translate_a64 rw); [reflexivity | apply generic_a64_dyn]. Qed.

Definition cb_static_a64 (md : amodule) (first : bool) (rel : N) : sclass arule :=
  match mdat md with
  | AMNone => SErr _
  | AMDwarf p sec => dwarf_static arule translate_a64 uncovered_rule_a64 p sec (base_svma md) rel
  | AMPe => SErr _
  | AMMacho d => macho_static arule translate_a64 uncovered_rule_a64 a64_macho_unwind ANoOp ANoOp a64_stub_helper_rule
                              d (base_svma md) first rel
  end.

Lemma cb_a64_ok md first rel rg m :
  match cb_static_a64 md first rel with
  | SRule _ r => fst (cb_a64 md first rel rg m) = CbRule r
  | SErr _ => fst (cb_a64 md first rel rg m) = CbErr rg
  | SDyn _ => match fst (cb_a64 md first rel rg m) with CbRule _ | CbErr _ => False | _ => True end
  end.
Proof.
  unfold cb_static_a64, cb_a64. destruct (mdat md); [reflexivity| |reflexivity|].
  - apply cb_dwarf_ok. apply row_step_a64_ok.
  - apply cb_macho_ok. apply row_step_a64_ok.
Qed.
