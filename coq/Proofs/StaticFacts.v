(* StaticFacts.v - the per-module callback is "static or never cached" (hypothesis cb_ok of
   HistFacts) for the DWARF module kinds, and the instantiation of C06 / C20 for both
   architectures. *)
From FH Require Import Consts Word X86 A64 DwarfRow Cfi Unwinder X86Dwarf A64Dwarf DwarfCb X86Unw A64Unw
  WordFacts HistFacts.
From Coq Require Import Lia ZifyBool ZifyN.
Open Scope N_scope.

Section DwarfStatic.
Variables rule regs : Type.
Variable row_step : row -> bool -> regs -> mem -> cb_result rule regs.
Variable translate : row -> option rule.
Variable uncovered : rule.
Hypothesis row_step_ok : forall rw first rg m,
  match translate rw with
  | Some r => row_step rw first rg m = CbRule r
  | None => match row_step rw first rg m with CbRule _ | CbErr _ => False | _ => True end
  end.

Definition fde_static (f : fde) (svma : N) : sclass rule :=
  match row_for_address f svma with
  | None => SRule _ uncovered
  | Some rw => match translate rw with Some r => SRule _ r | None => SDyn _ end
  end.

Definition dwarf_static (p : pres) (sec : list fde) (base_svma rel : N) : sclass rule :=
  match p with
  | PHdr =>
    match add64p S_dwarf_svma_add base_svma rel with
    | Ok svma => match hdr_lookup sec svma with None => SErr _ | Some f => fde_static f svma end
    | _ => SDyn _
    end
  | POwnEh | POwnDebug =>
    match index_build sec base_svma with
    | None => SErr _
    | Some idx =>
      match index_lookup true idx rel with
      | None => SErr _
      | Some f =>
        match add64p S_dwarf_svma_add base_svma rel with
        | Ok svma => fde_static f svma
        | _ => SDyn _
        end
      end
    end
  end.

Lemma with_fde_ok f svma first rg m :
  match fde_static f svma with
  | SRule _ r => with_fde rule regs row_step uncovered f svma first rg m = CbRule r
  | SErr _ => with_fde rule regs row_step uncovered f svma first rg m = CbErr rg
  | SDyn _ => match with_fde rule regs row_step uncovered f svma first rg m with
              | CbRule _ | CbErr _ => False | _ => True end
  end.
Proof.
  unfold fde_static, with_fde. destruct (row_for_address f svma) as [rw|]; [|reflexivity].
  pose proof (row_step_ok rw first rg m) as H. destruct (translate rw); exact H.
Qed.

Lemma cb_dwarf_ok p sec base_svma first rel rg m :
  match dwarf_static p sec base_svma rel with
  | SRule _ r => fst (cb_dwarf rule regs row_step uncovered true p sec base_svma first rel rg m) = CbRule r
  | SErr _ => fst (cb_dwarf rule regs row_step uncovered true p sec base_svma first rel rg m) = CbErr rg
  | SDyn _ => match fst (cb_dwarf rule regs row_step uncovered true p sec base_svma first rel rg m) with
              | CbRule _ | CbErr _ => False | _ => True end
  end.
Proof.
  unfold dwarf_static, cb_dwarf. destruct p.
  - destruct (add64p S_dwarf_svma_add base_svma rel) as [svma|e|s|]; cbn; try exact I.
    destruct (hdr_lookup sec svma) as [f|]; cbn; [apply with_fde_ok | reflexivity].
  - destruct (index_build sec base_svma) as [idx|]; cbn; [|reflexivity].
    destruct (index_lookup true idx rel) as [f|]; cbn; [|reflexivity].
    destruct (add64p S_dwarf_svma_add base_svma rel) as [svma|e|s|]; cbn; try exact I. apply with_fde_ok.
  - destruct (index_build sec base_svma) as [idx|]; cbn; [|reflexivity].
    destruct (index_lookup true idx rel) as [f|]; cbn; [|reflexivity].
    destruct (add64p S_dwarf_svma_add base_svma rel) as [svma|e|s|]; cbn; try exact I. apply with_fde_ok.
Qed.
End DwarfStatic.

(* ---------- x86_64 ---------- *)
Lemma generic_x86_dyn rw first rg m :
  match generic_x86 rw first rg m with CbRule _ | CbErr _ => False | _ => True end.
Proof.
  unfold generic_x86. destruct (eval_cfa_rule (x86_getreg rg) (r_cfa rw)); [|exact I].
  match goal with |- context[match ?o with Some _ => _ | None => CbErrV rg end] => destruct o end; [|exact I].
  destruct ((n =? sp rg) && (n0 =? ip rg)); [exact I|].
  destruct (negb first && (n <=? sp rg)); exact I.
Qed.

Lemma row_step_x86_ok rw first rg m :
  match translate_x86 rw with
  | Some r => row_step_x86 rw first rg m = CbRule r
  | None => match row_step_x86 rw first rg m with CbRule _ | CbErr _ => False | _ => True end
  end.
Proof. unfold row_step_x86. destruct (translate_x86 rw); [reflexivity | apply generic_x86_dyn]. Qed.

Definition cb_static_x86 (md : xmodule) (first : bool) (rel : N) : sclass rule :=
  match mdat md with
  | MNone => SErr _
  | MDwarf p sec => dwarf_static rule translate_x86 uncovered_rule_x86 p sec (base_svma md) rel
  end.

Lemma cb_x86_ok md first rel rg m :
  match cb_static_x86 md first rel with
  | SRule _ r => fst (cb_x86 md first rel rg m) = CbRule r
  | SErr _ => fst (cb_x86 md first rel rg m) = CbErr rg
  | SDyn _ => match fst (cb_x86 md first rel rg m) with CbRule _ | CbErr _ => False | _ => True end
  end.
Proof.
  unfold cb_static_x86, cb_x86. destruct (mdat md); [reflexivity|].
  apply cb_dwarf_ok. apply row_step_x86_ok.
Qed.

(* ---------- aarch64 ---------- *)
Lemma generic_a64_dyn rw first rg m :
  match generic_a64 rw first rg m with CbRule _ | CbErr _ => False | _ => True end.
Proof.
  unfold generic_a64. destruct (eval_cfa_rule (a64_getreg rg) (r_cfa rw)); [|exact I].
  destruct (negb first); [|exact I].
  destruct (n <=? asp rg); [exact I|].
  destruct (eval_register_rule (a64_getreg rg) (r_fp rw) n (afp rg) m); [|exact I].
  destruct (eval_register_rule (a64_getreg rg) (r_ra rw) n (lr rg) m); exact I.
Qed.

Lemma row_step_a64_ok rw first rg m :
  match translate_a64 rw with
  | Some r => row_step_a64 rw first rg m = CbRule r
  | None => match row_step_a64 rw first rg m with CbRule _ | CbErr _ => False | _ => True end
  end.
Proof. unfold row_step_a64. destruct (translate_a64 rw); [reflexivity | apply generic_a64_dyn]. Qed.

Definition cb_static_a64 (md : amodule) (first : bool) (rel : N) : sclass arule :=
  match mdat md with
  | AMNone => SErr _
  | AMDwarf p sec => dwarf_static arule translate_a64 uncovered_rule_a64 p sec (base_svma md) rel
  end.

Lemma cb_a64_ok md first rel rg m :
  match cb_static_a64 md first rel with
  | SRule _ r => fst (cb_a64 md first rel rg m) = CbRule r
  | SErr _ => fst (cb_a64 md first rel rg m) = CbErr rg
  | SDyn _ => match fst (cb_a64 md first rel rg m) with CbRule _ | CbErr _ => False | _ => True end
  end.
Proof.
  unfold cb_static_a64, cb_a64. destruct (mdat md); [reflexivity|].
  apply cb_dwarf_ok. apply row_step_a64_ok.
Qed.
