(* CfiFacts.v - C12: the .eh_frame_hdr table and framehop's own index select the covering FDE
   whenever one exists, whatever the order of FDEs in the section, and treat uncovered addresses
   alike. *)
From FH Require Import Word DwarfRow Cfi Unwinder DwarfCb WordFacts.
From Coq Require Import Lia ZifyBool ZifyN ZifyNat.
Open Scope N_scope.

Section Sorted.
Variable A : Type.
Variables key en : A -> N.       (* range of an element: [key x, en x) *)

Definition covers (x : A) (a : N) : Prop := key x <= a < en x.
Definition disj (x y : A) : Prop := en x <= key y \/ en y <= key x.

Inductive sdg : list A -> Prop :=
| sdg_nil : sdg []
| sdg_cons x t : key x < en x -> (forall y, In y t -> en x <= key y) -> sdg t -> sdg (x :: t).

Inductive pairwise_disj : list A -> Prop :=
| pd_nil : pairwise_disj []
| pd_cons x t : (forall y, In y t -> disj x y) -> pairwise_disj t -> pairwise_disj (x :: t).

Lemma insert_sorted_in x l z : In z (insert_sorted key x l) <-> z = x \/ In z l.
Proof.
  induction l as [|y t IH]; cbn [insert_sorted]; [cbn; intuition|].
  destruct (key x <? key y); cbn [In]; [intuition|]. rewrite IH. intuition.
Qed.

Lemma insert_sorted_sdg x l :
  sdg l -> key x < en x -> (forall y, In y l -> disj x y) -> sdg (insert_sorted key x l).
Proof.
  induction l as [|y t IH]; intros Hs Hx Hd; cbn [insert_sorted].
  - constructor; [exact Hx | intros ? [] | constructor].
  - inversion Hs as [|? ? Hy Hall Ht]; subst.
    pose proof (Hd y (or_introl eq_refl)) as Hdy. unfold disj in Hdy.
    destruct (key x <? key y) eqn:E.
    + constructor; [exact Hx | | exact Hs].
      intros z [<-|Hz]; [lia|]. specialize (Hall z Hz). lia.
    + constructor; [exact Hy | | apply IH; auto].
      * intros z Hz. apply insert_sorted_in in Hz. destruct Hz as [->|Hz]; [lia | auto].
      * intros z Hz. apply Hd. now right.
Qed.

Lemma sort_fold_sdg l : forall acc,
  sdg acc -> pairwise_disj l -> (forall x, In x l -> key x < en x) ->
  (forall x y, In x l -> In y acc -> disj x y) ->
  sdg (fold_left (fun acc x => insert_sorted key x acc) l acc) /\
  (forall z, In z (fold_left (fun acc x => insert_sorted key x acc) l acc) <-> In z acc \/ In z l).
Proof.
  induction l as [|x t IH]; intros acc Hacc Hpd Hne Hd; cbn [fold_left].
  - split; [exact Hacc | intros z; cbn; intuition].
  - inversion Hpd as [|? ? Hx Ht]; subst.
    destruct (IH (insert_sorted key x acc)) as [H1 H2].
    + apply insert_sorted_sdg; [exact Hacc | apply Hne; now left | intros y Hy; apply Hd; [now left | exact Hy]].
    + exact Ht.
    + intros y Hy. apply Hne. now right.
    + intros y z Hy Hz. apply insert_sorted_in in Hz. destruct Hz as [->|Hz].
      * specialize (Hx y Hy). unfold disj in *. lia.
      * apply Hd; [now right | exact Hz].
    + split; [exact H1|]. intros z. rewrite H2, insert_sorted_in. cbn [In]. intuition.
Qed.

Lemma sort_sdg l : pairwise_disj l -> (forall x, In x l -> key x < en x) ->
  sdg (sort_by_key key l) /\ (forall z, In z (sort_by_key key l) <-> In z l).
Proof.
  intros Hpd Hne. unfold sort_by_key.
  destruct (sort_fold_sdg l [] sdg_nil Hpd Hne) as [H1 H2]; [intros ? ? ? []|].
  split; [exact H1|]. intros z. rewrite H2. cbn. intuition.
Qed.

(* scanning a sorted-disjoint list: the covering element wins *)
Lemma last_le_covering l : forall a cur g,
  sdg l -> In g l -> covers g a -> last_le_by key l a cur = Some g.
Proof.
  induction l as [|y t IH]; intros a cur g Hs Hin Hc; [destruct Hin|].
  inversion Hs as [|? ? Hy Hall Ht]; subst. cbn [last_le_by]. unfold covers in Hc.
  destruct Hin as [<-|Hin].
  - destruct (key y <=? a) eqn:E; [|lia].
    destruct t as [|z t']; [reflexivity|]. cbn [last_le_by].
    specialize (Hall z (or_introl eq_refl)). destruct (key z <=? a) eqn:E2; [lia | reflexivity].
  - specialize (Hall g Hin). destruct (key y <=? a) eqn:E; [|lia]. apply IH; assumption.
Qed.

(* ... and when nothing covers the address, whatever is selected does not cover it *)
Lemma last_le_noncover l : forall a cur r,
  (forall g, In g l -> ~ covers g a) -> (forall c, cur = Some c -> ~ covers c a) ->
  last_le_by key l a cur = Some r -> ~ covers r a.
Proof.
  induction l as [|y t IH]; intros a cur r Hn Hc; cbn [last_le_by].
  - intros H. apply Hc. exact H.
  - destruct (key y <=? a).
    + apply IH; [intros g Hg; apply Hn; now right | intros c Hcc; inversion Hcc; subst; apply Hn; now left].
    + intros H. apply Hc. exact H.
Qed.
Lemma last_le_some l : forall a c, exists r, last_le_by key l a (Some c) = Some r.
Proof.
  induction l as [|y t IH]; intros a c; cbn [last_le_by]; [eauto|].
  destruct (key y <=? a); [apply IH | eauto].
Qed.
End Sorted.

(* ---------- FDE sets ---------- *)
Definition f_end (f : fde) : N := f_start f + f_len f.

Definition fdes_wf (sec : list fde) (base_svma : N) : Prop :=
  pairwise_disj fde f_start f_end sec /\
  forall f, In f sec -> 0 < f_len f /\ base_svma <= f_start f /\ f_start f - base_svma < W32.

(* gimli computes an FDE's end with wrapping arithmetic: what it contains it covers; the converse needs a range
   that does not run past 2^64 *)
Lemma fde_contains_covers f a : fde_contains f a = true -> covers fde f_start f_end f a.
Proof. unfold fde_contains, covers, f_end, W64. intros H. split; [lia|]. 
  assert ((f_start f + f_len f) mod 18446744073709551616 <= f_start f + f_len f) by (apply N.mod_le; discriminate). lia. Qed.
Lemma covers_fde_contains f a : f_end f < W64 -> covers fde f_start f_end f a -> fde_contains f a = true.
Proof. unfold fde_contains, covers, f_end, W64. intros Hw H. rewrite N.mod_small by exact Hw. lia. Qed.

Lemma sdg_head_min (A : Type) (key en : A -> N) x t y :
  sdg A key en (x :: t) -> In y (x :: t) -> key x <= key y.
Proof.
  intros Hs [<-|Hy]; [lia|]. inversion Hs as [|? ? Hx Hall Ht]; subst. specialize (Hall y Hy). lia.
Qed.

(* hdr table: selects the covering FDE if there is one; otherwise something that does not cover
   (and nothing at all only for an empty section) *)
Lemma hdr_lookup_spec sec base a : fdes_wf sec base ->
  (forall g, In g sec -> covers fde f_start f_end g a -> hdr_lookup sec a = Some g) /\
  ((forall g, In g sec -> ~ covers fde f_start f_end g a) ->
   match hdr_lookup sec a with Some r => ~ covers fde f_start f_end r a | None => sec = [] end) /\
  (sec = [] -> hdr_lookup sec a = None).
Proof.
  intros [Hpd Hwf].
  destruct (sort_sdg fde f_start f_end sec Hpd) as [Hs Hin].
  { intros x Hx. destruct (Hwf x Hx) as (H1 & _). unfold f_end. lia. }
  unfold hdr_lookup. split; [|split].
  - intros g Hg Hc. destruct (sort_by_key f_start sec) as [|f0 t] eqn:E.
    + exfalso. apply Hin in Hg. exact Hg.
    + apply (last_le_covering fde f_start f_end); [exact Hs | apply Hin; exact Hg | exact Hc].
  - intros Hn. destruct (sort_by_key f_start sec) as [|f0 t] eqn:E.
    + destruct sec as [|x s]; [reflexivity|]. exfalso. apply (Hin x). now left.
    + destruct (last_le_by f_start (f0 :: t) a (Some f0)) as [r|] eqn:El.
      * apply (last_le_noncover fde f_start f_end (f0 :: t) a (Some f0) r); [| | exact El].
        -- intros g Hg. apply Hn. apply Hin. exact Hg.
        -- intros c Hc. inversion Hc; subst. apply Hn. apply Hin. now left.
      * exfalso. destruct (last_le_some fde f_start (f0 :: t) a f0) as [r Hr]. congruence.
  - intros ->. reflexivity.
Qed.

(* ---------- the own index ---------- *)
Definition e_end (e : N * fde) : N := fst e + f_len (snd e).

Lemma index_entries_spec sec base : fdes_wf sec base ->
  index_entries sec base = Some (map (fun f => (f_start f - base, f)) sec).
Proof.
  intros [_ Hwf]. induction sec as [|f t IH]; [reflexivity|].
  cbn [index_entries map]. destruct (Hwf f (or_introl eq_refl)) as (H1 & H2 & H3).
  unfold sub64c. destruct (base <=? f_start f) eqn:E; [|lia].
  destruct (f_start f - base <? W32) eqn:E2; [|lia].
  rewrite IH; [reflexivity|]. intros g Hg. apply Hwf. now right.
Qed.

Lemma entries_pd sec base : fdes_wf sec base ->
  pairwise_disj (N * fde) fst e_end (map (fun f => (f_start f - base, f)) sec).
Proof.
  intros [Hpd Hwf]. induction Hpd as [|x t Hx Ht IH]; cbn [map]; constructor.
  - intros y Hy. apply in_map_iff in Hy. destruct Hy as [g [<- Hg]].
    specialize (Hx g Hg). unfold disj, e_end, f_end in *. cbn [fst snd].
    destruct (Hwf x (or_introl eq_refl)) as (_ & H2 & _). destruct (Hwf g (or_intror Hg)) as (_ & H4 & _). lia.
  - apply IH. intros g Hg. apply Hwf. now right.
Qed.

Lemma index_spec sec base rel : fdes_wf sec base -> base + rel < W64 ->
  exists idx, index_build sec base = Some idx /\
  (forall g, In g sec -> covers fde f_start f_end g (base + rel) -> index_lookup true idx rel = Some g) /\
  ((forall g, In g sec -> ~ covers fde f_start f_end g (base + rel)) ->
   match index_lookup true idx rel with Some r => ~ covers fde f_start f_end r (base + rel) | None => sec = [] end) /\
  (sec = [] -> index_lookup true idx rel = None).
Proof.
  intros Hwf Hrel. pose proof Hwf as [Hpd Hw].
  unfold index_build. rewrite (index_entries_spec sec base Hwf).
  set (ents := map (fun f => (f_start f - base, f)) sec).
  destruct (sort_sdg (N * fde) fst e_end ents (entries_pd sec base Hwf)) as [Hs Hin].
  { intros e He. apply in_map_iff in He. destruct He as [g [<- Hg]]. unfold e_end. cbn.
    destruct (Hw g Hg) as (H1 & _). lia. }
  assert (Hent : forall e, In e (sort_by_key fst ents) -> In (snd e) sec /\ fst e = f_start (snd e) - base).
  { intros e He. apply Hin in He. apply in_map_iff in He. destruct He as [g [<- Hg]]. cbn. auto. }
  assert (Hcov : forall e, In e (sort_by_key fst ents) ->
            (covers (N * fde) fst e_end e rel <-> covers fde f_start f_end (snd e) (base + rel))).
  { intros e He. destruct (Hent e He) as [Hg Hk]. destruct (Hw _ Hg) as (_ & H2 & _).
    unfold covers, e_end, f_end. rewrite Hk. lia. }
  eexists. split; [reflexivity|]. unfold index_lookup. split; [|split].
  - intros g Hg Hc.
    assert (He : In (f_start g - base, g) (sort_by_key fst ents)).
    { apply Hin. apply in_map_iff. exists g. auto. }
    destruct (sort_by_key fst ents) as [|e0 t] eqn:E; [destruct He|].
    assert (Hce : covers (N * fde) fst e_end (f_start g - base, g) rel) by (apply Hcov; [exact He | exact Hc]).
    pose proof (sdg_head_min _ fst e_end e0 t _ Hs He) as Hmin. cbn [fst] in Hmin.
    unfold covers in Hce. cbn [fst] in Hce.
    destruct (rel <? fst e0) eqn:El; [lia|].
    rewrite (last_le_covering (N * fde) fst e_end (e0 :: t) rel None (f_start g - base, g) Hs He Hce). reflexivity.
  - intros Hn. destruct (sort_by_key fst ents) as [|e0 t] eqn:E.
    + destruct sec as [|x s]; [reflexivity|]. exfalso. apply (Hin (f_start x - base, x)). cbn. now left.
    + destruct (rel <? fst e0) eqn:El.
      * destruct (Hent e0 (or_introl eq_refl)) as [Hg _]. apply Hn. exact Hg.
      * destruct (last_le_by fst (e0 :: t) rel None) as [r|] eqn:Er; cbn [option_map].
        -- assert (Hr : ~ covers (N * fde) fst e_end r rel).
           { apply (last_le_noncover (N * fde) fst e_end (e0 :: t) rel None r); [| discriminate | exact Er].
             intros e He Hc. apply Hcov in Hc; [|exact He]. destruct (Hent e He) as [Hg _]. exact (Hn _ Hg Hc). }
           assert (Hrin : In r (e0 :: t)).
           { clear - Er. revert Er. assert (G : forall l cur, (forall c, cur = Some c -> In c (e0 :: t)) ->
                 incl l (e0 :: t) -> last_le_by fst l rel cur = Some r -> In r (e0 :: t)).
             { induction l as [|y l IH]; intros c Hc Hi; cbn [last_le_by].
               - intros H. apply Hc. exact H.
               - destruct (fst y <=? rel).
                 + apply IH; [intros c' Hc'; inversion Hc'; subst; apply Hi; now left |
                              intros z Hz; apply Hi; now right].
                 + intros H. apply Hc. exact H. }
             apply G; [discriminate | apply incl_refl]. }
           intros Hc. apply Hr. apply Hcov; assumption.
        -- exfalso. cbn [last_le_by] in Er. destruct (fst e0 <=? rel) eqn:E0; [|lia].
           destruct (last_le_some (N * fde) fst t rel e0) as [r Hr]. congruence.
  - intros ->. reflexivity.
Qed.

Lemma cover_dec sec a :
  (exists g, In g sec /\ covers fde f_start f_end g a) \/ (forall g, In g sec -> ~ covers fde f_start f_end g a).
Proof.
  induction sec as [|f t IH]; [right; intros g []|].
  destruct ((f_start f <=? a) && (a <? f_end f)) eqn:E.
  - left. exists f. split; [now left | unfold covers; lia].
  - destruct IH as [[g [Hg Hc]]|Hn].
    + left. exists g. split; [now right | exact Hc].
    + right. intros g [<-|Hg]; [|apply Hn; exact Hg].
      unfold covers. lia.
Qed.

(* ---------- C12: the presentations agree ---------- *)
Section Agree.
Variables rule regs : Type.
Variable row_step : row -> bool -> regs -> mem -> cb_result rule regs.
Variable uncovered : rule.

Lemma with_fde_noncover f svma first rg m :
  ~ covers fde f_start f_end f svma ->
  with_fde rule regs row_step uncovered f svma first rg m = CbRule uncovered.
Proof.
  intros Hn. unfold with_fde, row_for_address.
  destruct (fde_contains f svma) eqn:E; [exfalso; apply Hn; apply fde_contains_covers; exact E|].
  rewrite Bool.andb_false_r. reflexivity.
Qed.

Lemma own_vs_hdr sec base first rel rg m :
  fdes_wf sec base -> base + rel < W64 ->
  match index_build sec base with
  | None => False
  | Some idx =>
    match index_lookup true idx rel with
    | None => hdr_lookup sec (base + rel) = None
    | Some f => exists f', hdr_lookup sec (base + rel) = Some f' /\
                with_fde rule regs row_step uncovered f (base + rel) first rg m =
                with_fde rule regs row_step uncovered f' (base + rel) first rg m
    end
  end.
Proof.
  intros Hwf Hrel.
  destruct (index_spec sec base rel Hwf Hrel) as (idx & Hib & Hcov & Hnc & Hemp). rewrite Hib.
  destruct (hdr_lookup_spec sec base (base + rel) Hwf) as (Hhc & Hhn & Hhe).
  destruct (cover_dec sec (base + rel)) as [[g [Hg Hc]]|Hn].
  - rewrite (Hcov g Hg Hc). exists g. split; [apply Hhc; assumption | reflexivity].
  - specialize (Hnc Hn). specialize (Hhn Hn).
    destruct (index_lookup true idx rel) as [r1|].
    + destruct (hdr_lookup sec (base + rel)) as [r2|].
      * exists r2. split; [reflexivity|]. rewrite !with_fde_noncover by assumption. reflexivity.
      * subst sec. specialize (Hemp eq_refl). discriminate.
    + subst sec. apply Hhe. reflexivity.
Qed.

Theorem presentations_agree sec base first rel rg m p1 p2 :
  fdes_wf sec base -> base + rel < W64 ->
  fst (cb_dwarf rule regs row_step uncovered true p1 sec base first rel rg m) =
  fst (cb_dwarf rule regs row_step uncovered true p2 sec base first rel rg m).
Proof.
  intros Hwf Hrel.
  assert (K : forall p, fst (cb_dwarf rule regs row_step uncovered true p sec base first rel rg m) =
                        fst (cb_dwarf rule regs row_step uncovered true PHdr sec base first rel rg m)).
  { intros p. pose proof (own_vs_hdr sec base first rel rg m Hwf Hrel) as H.
    destruct p; [reflexivity | |]; unfold cb_dwarf; rewrite add64p_nopanic by exact Hrel;
      (destruct (index_build sec base) as [idx|]; [|contradiction]);
      (destruct (index_lookup true idx rel) as [f|];
        [destruct H as (f' & Hh & Hw); rewrite Hh; cbn [fst]; exact Hw | rewrite H; reflexivity]). }
  rewrite (K p1), (K p2). reflexivity.
Qed.
End Agree.
