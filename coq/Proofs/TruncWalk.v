(* TruncWalk.v - C11(c) for whole walks: unwinding a truncated stack with rule-based steps.
   m1 is m2 with some reads failing (mem_le). One call to unwind_frame whose step is rule-based (served
   from the cache, by a rule the module's data gives for this address whatever the registers and the
   stack hold, or by the fallback rule) either names an address m1 cannot read, or returns on m1 exactly
   what it returns on m2 - result, registers and cache. By induction over the calls to next(): the
   frames a walk yields on the truncated stack are a prefix of those it yields on the full stack,
   followed (if at all) by Err(CouldNotReadStack x) with x unreadable. *)
From FH Require Import Consts Word X86 A64 Unwinder X86Unw A64Unw WordFacts X86Exec A64Exec HistFacts StaticFacts TruncFacts.
From Coq Require Import Lia ZifyBool ZifyN ZifyNat List.
Import ListNotations.
Open Scope N_scope.
Arguments N.add : simpl never.
Arguments N.sub : simpl never.
Arguments N.mul : simpl never.
Arguments N.eqb : simpl never.
Arguments N.ltb : simpl never.
Arguments N.leb : simpl never.

Lemma lookup_address_no_err a e : lookup_address a <> Err e.
Proof. destruct a as [x|x]; cbn; [discriminate|]. unfold sub64p. destruct (1 <=? x); discriminate. Qed.

Lemma find_module_no_err mdata (l : list (module mdata)) x e : find_module mdata l x <> Err e.
Proof.
  unfold find_module. destruct (find_cand mdata l x None) as [md|]; [|discriminate].
  destruct (x <? base_avma md); [discriminate|].
  unfold sub64p. destruct (base_avma md <=? x); cbn; [|discriminate].
  destruct (x - base_avma md <? W32); discriminate.
Qed.

Section G.
Variables rule regs mdata : Type.
Variable exec : rule -> bool -> regs -> mem -> res (option N) * regs.
Variable fallback : rule.
Variable cb : module mdata -> bool -> N -> regs -> mem -> cb_result rule regs * eff.
Notation unwind_frame := (unwind_frame rule regs mdata exec fallback cb).
Notation iter_next := (iter_next rule regs mdata exec fallback cb).
Notation iter_run := (iter_run rule regs mdata exec fallback cb).
Notation iter := (Unwinder.iter rule regs).

(* the static classification of the callback (HistFacts / StaticFacts) *)
Variable cb_static : module mdata -> bool -> N -> sclass rule.
Hypothesis cb_ok : forall md first rel rg m,
  match cb_static md first rel with
  | SRule _ r => fst (cb md first rel rg m) = CbRule r
  | SErr _ => fst (cb md first rel rg m) = CbErr rg
  | SDyn _ => match fst (cb md first rel rg m) with CbRule _ | CbErr _ => False | _ => True end
  end.

Variables m1 m2 : mem.
(* side condition of the rule execution lemma (x86_64, first frames only: the optional read below sp) *)
Variable pre : bool -> regs -> Prop.
Hypothesis pre_caller : forall rg, pre false rg.
Hypothesis exec_trunc : forall ru first rg, pre first rg ->
  trunc_ok (exec ru first rg m1) (exec ru first rg m2) m1.

Variable u : unwinder mdata.
(* every step through this unwinder's modules is rule-based *)
Definition all_static : Prop := forall x first md rel,
  find_module mdata (mods _ u) x = Ok (Some (md, rel)) -> cb_static md first rel <> SDyn _.
Hypothesis St : all_static.

Definition frame_trunc (o1 o2 : outcome rule regs) : Prop :=
  match o_res _ _ o1 with
  | Err (CouldNotReadStack x) => m1 x = None
  | _ => o_res _ _ o1 = o_res _ _ o2 /\ o_regs _ _ o1 = o_regs _ _ o2 /\ o_cache _ _ o1 = o_cache _ _ o2
  end.

Lemma exec_frame_trunc ru first rg c e1 e2 :
  pre first rg ->
  frame_trunc (let '(o, rg') := exec ru first rg m1 in mkout _ _ o rg' c e1)
              (let '(o, rg') := exec ru first rg m2 in mkout _ _ o rg' c e2).
Proof.
  intros Hp. pose proof (exec_trunc ru first rg Hp) as T. unfold trunc_ok in T. unfold frame_trunc.
  destruct (exec ru first rg m1) as [r1 g1]. destruct (exec ru first rg m2) as [r2 g2]. cbn [fst] in T. cbn.
  destruct r1 as [o|e|s|].
  - inversion T; subst; auto.
  - destruct e; try (inversion T; subst; auto; fail); try exact T.
  - inversion T; subst; auto.
  - inversion T; subst; auto.
Qed.

Theorem unwind_frame_trunc c a rg :
  pre (negb (is_ra a)) rg ->
  frame_trunc (unwind_frame u c a rg m1) (unwind_frame u c a rg m2).
Proof.
  intros Hp. unfold Unwinder.unwind_frame.
  pose proof (lookup_address_no_err a) as NL.
  destruct (lookup_address a) as [x|e|s|]; [| exfalso; eapply NL; reflexivity | unfold frame_trunc; cbn; auto ..].
  destruct (cache_lookup rule c x (gen _ u)) as [[r|slot] c1].
  - apply exec_frame_trunc. exact Hp.
  - pose proof (find_module_no_err mdata (mods _ u) x) as NF.
    destruct (find_module mdata (mods _ u) x) as [[[md rel]|]|e|s|] eqn:Efm;
      [| | exfalso; eapply NF; reflexivity | unfold frame_trunc; cbn; auto ..].
    + pose proof (cb_ok md (negb (is_ra a)) rel rg m1) as A. pose proof (cb_ok md (negb (is_ra a)) rel rg m2) as B.
      pose proof (St x (negb (is_ra a)) md rel Efm) as Hs.
      destruct (cb_static md (negb (is_ra a)) rel) as [r| |]; [| |contradiction].
      * destruct (cb md (negb (is_ra a)) rel rg m1) as [cr1 ef1]. destruct (cb md (negb (is_ra a)) rel rg m2) as [cr2 ef2].
        cbn [fst] in A, B. subst. apply exec_frame_trunc. exact Hp.
      * destruct (cb md (negb (is_ra a)) rel rg m1) as [cr1 ef1]. destruct (cb md (negb (is_ra a)) rel rg m2) as [cr2 ef2].
        cbn [fst] in A, B. subst. apply exec_frame_trunc. exact Hp.
    + apply exec_frame_trunc. exact Hp.
Qed.

(* ---------- the whole walk ---------- *)
Definition is_frame (r : res (option faddr)) : bool := match r with Ok (Some _) => true | _ => false end.

(* a walk as its user sees it: the results up to and including the first that is not a frame *)
Fixpoint until_stop (l : list (res (option faddr))) : list (res (option faddr)) :=
  match l with
  | [] => []
  | r :: t => if is_frame r then r :: until_stop t else [r]
  end.

(* the walk on the truncated stack against the walk on the full stack: identical, or identical up to a
   call that reports an unreadable address *)
Definition walk_trunc_ok (l1 l2 : list (res (option faddr))) : Prop :=
  l1 = l2 \/
  exists k x, firstn k l1 = firstn k l2 /\ nth_error l1 k = Some (Err (CouldNotReadStack x)) /\ m1 x = None.

Lemma walk_trunc_cons r l1 l2 : walk_trunc_ok l1 l2 -> walk_trunc_ok (r :: l1) (r :: l2).
Proof.
  intros [->|(k & x & H1 & H2 & H3)]; [left; reflexivity | right].
  exists (S k), x. cbn [firstn nth_error]. rewrite H1. auto.
Qed.

(* iterator states from which the side condition of the first-frame step holds *)
Definition start_ok (it : iter) : Prop :=
  match i_state _ _ it with
  | Initial _ | Unwinding (IP _) => pre true (i_regs _ _ it)
  | _ => True
  end.

Lemma iter_next_trunc it :
  start_ok it ->
  (exists x, fst (iter_next u m1 it) = Err (CouldNotReadStack x) /\ m1 x = None) \/
  (iter_next u m1 it = iter_next u m2 it /\
   (is_frame (fst (iter_next u m1 it)) = true -> start_ok (snd (iter_next u m1 it)))).
Proof.
  intros Hst. unfold Unwinder.iter_next. destruct (i_state _ _ it) as [pc|a|] eqn:Es.
  - right. split; [reflexivity|]. intros _. unfold start_ok in *. rewrite Es in Hst. exact Hst.
  - assert (Hp : pre (negb (is_ra a)) (i_regs _ _ it)).
    { unfold start_ok in Hst. rewrite Es in Hst. destruct a; cbn; [exact Hst | apply pre_caller]. }
    pose proof (unwind_frame_trunc (i_cache _ _ it) a (i_regs _ _ it) Hp) as T. unfold frame_trunc in T.
    cbv zeta.
    destruct (o_res _ _ (unwind_frame u (i_cache _ _ it) a (i_regs _ _ it) m1)) as [[ra|]|e|s|] eqn:E1.
    + destruct T as (T1 & T2 & T3). rewrite <- T1, <- T2, <- T3. right. split; [reflexivity|].
      unfold from_return_address. destruct (ra =? 0); cbn; [discriminate|]. intros _. exact I.
    + destruct T as (T1 & T2 & T3). rewrite <- T1, <- T2, <- T3. right. split; [reflexivity | discriminate].
    + destruct e; try (destruct T as (T1 & T2 & T3); rewrite <- T1, <- T2, <- T3; right; split; [reflexivity | discriminate]).
      left. exists a0. split; [reflexivity | exact T].
    + destruct T as (T1 & T2 & T3). rewrite <- T1, <- T2, <- T3. right. split; [reflexivity | discriminate].
    + destruct T as (T1 & T2 & T3). rewrite <- T1, <- T2, <- T3. right. split; [reflexivity | discriminate].
  - right. split; [reflexivity | discriminate].
Qed.

Theorem walk_trunc n : forall it,
  start_ok it ->
  walk_trunc_ok (until_stop (fst (iter_run u m1 it n))) (until_stop (fst (iter_run u m2 it n))).
Proof.
  induction n as [|n IH]; intros it Hst; [left; reflexivity|].
  cbn [Unwinder.iter_run].
  destruct (iter_next_trunc it Hst) as [(x & Hx & Hm)|(Heq & Hnext)].
  - destruct (iter_next u m1 it) as [r1 i1]. destruct (iter_next u m2 it) as [r2 i2]. cbn [fst] in Hx. subst r1.
    destruct (Unwinder.iter_run rule regs mdata exec fallback cb u m1 i1 n) as [l1 j1].
    destruct (Unwinder.iter_run rule regs mdata exec fallback cb u m2 i2 n) as [l2 j2].
    cbn [fst until_stop is_frame]. right. exists 0%nat, x. cbn. auto.
  - rewrite <- Heq. destruct (iter_next u m1 it) as [r1 i1]. cbn [fst snd] in Hnext.
    specialize (IH i1).
    destruct (Unwinder.iter_run rule regs mdata exec fallback cb u m1 i1 n) as [l1 j1].
    destruct (Unwinder.iter_run rule regs mdata exec fallback cb u m2 i1 n) as [l2 j2].
    cbn [fst until_stop] in *. destruct (is_frame r1) eqn:Ef; [|left; reflexivity].
    apply walk_trunc_cons. apply IH. apply Hnext. reflexivity.
Qed.

(* the frames of the truncated walk are a prefix of the frames of the full walk *)
Definition frames_of (l : list (res (option faddr))) : list faddr :=
  flat_map (fun r => match r with Ok (Some f) => [f] | _ => [] end) l.

(* what a user of the walk gets: the frames before the error are a prefix of the frames of the full walk *)
Theorem walk_trunc_frames n it :
  start_ok it ->
  let l1 := until_stop (fst (iter_run u m1 it n)) in
  let l2 := until_stop (fst (iter_run u m2 it n)) in
  l1 = l2 \/
  exists k x, nth_error l1 k = Some (Err (CouldNotReadStack x)) /\ m1 x = None /\
              frames_of (firstn k l1) = frames_of (firstn k l2) /\
              exists rest, frames_of l2 = frames_of (firstn k l1) ++ rest.
Proof.
  intros Hst l1 l2. destruct (walk_trunc n it Hst) as [H|(k & x & H1 & H2 & H3)]; [left; exact H | right].
  fold l1 l2 in H1, H2. exists k, x. repeat split; try assumption; [rewrite H1; reflexivity|].
  exists (frames_of (skipn k l2)). rewrite H1. unfold frames_of. rewrite <- flat_map_app, firstn_skipn. reflexivity.
Qed.

End G.

(* ---------- x86_64 ---------- *)
Section X86.
Variables (u : xunwinder) (m1 m2 : mem).
Hypothesis Hle : mem_le m1 m2.
Hypothesis St : all_static rule mdata (cb_static_x86) u.

Definition pre_x (first : bool) (rg : regs) : Prop := first = true -> forall a, a < sp rg -> m1 a = m2 a.

Theorem unwind_frame_trunc_x c a rg :
  pre_x (negb (is_ra a)) rg ->
  frame_trunc rule regs m1 (unwind_frame_x u c a rg m1) (unwind_frame_x u c a rg m2).
Proof.
  apply (unwind_frame_trunc rule regs mdata exec_x fallback_rule cb_x86 cb_static_x86 cb_x86_ok m1 m2 pre_x).
  - intros ru first rg0 Hp. apply exec_x_trunc; assumption.
  - exact St.
Qed.

Theorem walk_trunc_x n it :
  start_ok rule regs pre_x it ->
  walk_trunc_ok m1 (until_stop (fst (iter_run_x u m1 it n))) (until_stop (fst (iter_run_x u m2 it n))).
Proof.
  apply (walk_trunc rule regs mdata exec_x fallback_rule cb_x86 cb_static_x86 cb_x86_ok m1 m2 pre_x).
  - intros rg H. discriminate.
  - intros ru first rg0 Hp. apply exec_x_trunc; assumption.
  - exact St.
Qed.
End X86.

(* the stack cut at [cut]: a walk that starts with sp at or below the cut *)
Theorem walk_cut_x (u : xunwinder) m cut n pc rg c :
  all_static rule mdata cb_static_x86 u -> sp rg <= cut ->
  walk_trunc_ok (mem_cut m cut)
    (until_stop (fst (iter_run_x u (mem_cut m cut) (iter_new _ _ pc rg c) n)))
    (until_stop (fst (iter_run_x u m (iter_new _ _ pc rg c) n))).
Proof.
  intros St Hsp. apply walk_trunc_x; [apply mem_cut_le | exact St |].
  unfold start_ok, pre_x. cbn. intros _ a Ha. apply mem_cut_below. lia.
Qed.

(* ---------- aarch64 ---------- *)
Section A64.
Variables (u : aunwinder) (m1 m2 : mem).
Hypothesis Hle : mem_le m1 m2.
Hypothesis St : all_static arule amdata (cb_static_a64) u.

Theorem unwind_frame_trunc_a c a rg :
  frame_trunc arule aregs m1 (unwind_frame_a u c a rg m1) (unwind_frame_a u c a rg m2).
Proof.
  apply (unwind_frame_trunc arule aregs amdata aexec afallback_rule cb_a64 cb_static_a64 cb_a64_ok m1 m2 (fun _ _ => True)).
  - intros ru first rg0 _. apply aexec_trunc; assumption.
  - exact St.
  - exact I.
Qed.

Theorem walk_trunc_a n it :
  walk_trunc_ok m1 (until_stop (fst (iter_run_a u m1 it n))) (until_stop (fst (iter_run_a u m2 it n))).
Proof.
  apply (walk_trunc arule aregs amdata aexec afallback_rule cb_a64 cb_static_a64 cb_a64_ok m1 m2 (fun _ _ => True)).
  - intros rg. exact I.
  - intros ru first rg0 _. apply aexec_trunc; assumption.
  - exact St.
  - unfold start_ok. destruct (i_state _ _ it) as [|[|]|]; exact I.
Qed.
End A64.
