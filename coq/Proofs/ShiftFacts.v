(* ShiftFacts.v - C08, stack relocation: executing an unwind rule on a stack that has been placed
   [s] bytes higher gives the same outcome up to the offset.

   The statement is typed by VALUE, the way a relocated thread stack really looks: a word (in a
   register or in memory) that points into the stack [lo, hi] is moved by s; every other word
   (code addresses, null, scratch values) is unchanged - and is assumed to lie at least [D] bytes
   away from both the old and the new stack (otherwise "the same stack elsewhere" is not well
   defined: a scratch value that happens to point into the NEW stack reads different memory).
   The stack pointer itself is treated separately (it may be one word past the readable part).

   Conclusions: same kind of outcome; return address moved by [sh] (i.e. unchanged for code);
   new stack pointer exactly + s; every other register moved by [sh]; a CouldNotReadStack error
   names the corresponding address. *)
From FH Require Import Consts Word X86 A64 WordFacts X86Exec A64Exec.
From Coq Require Import Lia ZifyBool ZifyN.
Open Scope N_scope.
Ltac Zify.zify_post_hook ::= Z.div_mod_to_equations.

Definition DIST : N := 1048576.          (* 2^20: larger than any offset a rule can hold *)

Section Shift.
Variables lo hi s : N.
Hypothesis Hlo : 2 * DIST <= lo.
Hypothesis Hlh : lo <= hi.
Hypothesis Hov : hi + s + 2 * DIST < W64.

Definition ptr (v : N) : bool := (lo <=? v) && (v <=? hi).
Definition far (v : N) : bool := (v + DIST <=? lo) || (hi + s + DIST <=? v).
Definition okv (v : N) : bool := ptr v || far v.
Definition sh (v : N) : N := if ptr v then v + s else v.

(* readable stack = [lo, hi); every stored word is a stack pointer or far from both stacks *)
Definition mem_ok (m : mem) : Prop :=
  forall a v, m a = Some v -> (lo <= a /\ a < hi) /\ okv v = true.
(* the relocated stack *)
Definition shm (m : mem) : mem :=
  fun a' => if (lo + s <=? a') && (a' <? hi + s) then option_map sh (m (a' - s)) else None.

Lemma shm_read m a : mem_ok m -> shm m (a + s) = option_map sh (m a).
Proof.
  intros Hm. unfold shm.
  destruct ((lo + s <=? a + s) && (a + s <? hi + s)) eqn:E.
  - replace (a + s - s) with a by lia. reflexivity.
  - destruct (m a) as [v|] eqn:Ea; [|reflexivity].
    destruct (Hm a v Ea) as [[H1 H2] _]. lia.
Qed.

Lemma shm_far_none m a : mem_ok m -> (a < lo \/ hi + s <= a) -> m a = None /\ shm m a = None.
Proof.
  intros Hm Ha. split.
  - destruct (m a) as [v|] eqn:Ea; [|reflexivity]. destruct (Hm a v Ea) as [[H1 H2] _]. lia.
  - unfold shm. destruct ((lo + s <=? a) && (a <? hi + s)) eqn:E; [|reflexivity].
    destruct (m (a - s)) as [v|] eqn:Ea; [|reflexivity].
    destruct (Hm _ v Ea) as [[H1 H2] _]. lia.
Qed.

Lemma sh_eqb a b : okv a = true -> okv b = true -> (sh a =? sh b) = (a =? b).
Proof. unfold okv, sh, ptr, far, DIST in *. intros Ha Hb.
  destruct ((lo <=? a) && (a <=? hi)) eqn:Pa; destruct ((lo <=? b) && (b <=? hi)) eqn:Pb; lia. Qed.

Lemma sh_leb a b : okv a = true -> okv b = true -> (sh a <=? sh b) = (a <=? b).
Proof. unfold okv, sh, ptr, far, DIST in *. intros Ha Hb.
  destruct ((lo <=? a) && (a <=? hi)) eqn:Pa; destruct ((lo <=? b) && (b <=? hi)) eqn:Pb; lia. Qed.

Lemma sh_zero v : okv v = true -> (sh v =? 0) = (v =? 0).
Proof. unfold okv, sh, ptr, far, DIST in *. intros Ha.
  destruct ((lo <=? v) && (v <=? hi)) eqn:Pa; lia. Qed.

Lemma okv_zero : okv 0 = true.
Proof. unfold okv, ptr, far, DIST in *. lia. Qed.

(* outcomes *)
Definition err_rel (e e' : error) : Prop :=
  e' = e \/ exists a, e = CouldNotReadStack a /\ e' = CouldNotReadStack (a + s).

Definition res_rel (r r' : res (option N)) : Prop :=
  match r, r' with
  | Ok None, Ok None => True
  | Ok (Some a), Ok (Some a') => a' = sh a /\ okv a = true
  | Err e, Err e' => err_rel e e'
  | Panic p, Panic p' => p = p'
  | Hang, Hang => True
  | _, _ => False
  end.

Lemma add64c_small x k : x + k < W64 -> add64c x k = Some (x + k).
Proof. intros H. unfold add64c. destruct (x + k <? W64) eqn:E; [reflexivity|lia]. Qed.

Lemma adds64c_small x z : DIST <= x -> x + DIST < W64 -> (- 524288 <= z <= 524288)%Z ->
  adds64c x z = Some (Z.to_N (Z.of_N x + z)).
Proof.
  intros H1 H2 Hz. rewrite adds64c_spec.
  - unfold DIST, W64 in *.
    destruct ((0 <=? Z.of_N x + z)%Z && (Z.of_N x + z <? Z.of_N 18446744073709551616)%Z) eqn:E; [reflexivity|lia].
  - unfold DIST in *. lia.
  - unfold in_i64, I64MIN, I64MAX. lia.
Qed.

(* ------------------------------------------------------------------ x86_64 *)
Definition vok (rg : regs) : Prop :=
  okv (ip rg) = true /\ forall r, r <> RSP -> okv (rf rg r) = true.
Definition spok (rg : regs) : Prop := lo <= sp rg /\ sp rg <= hi + 8.
Definition rrel (rg rg' : regs) : Prop :=
  ip rg' = sh (ip rg) /\ (forall r, r <> RSP -> rf rg' r = sh (rf rg r)) /\ sp rg' = sp rg + s.

Definition out_rel (o o' : res (option N) * regs) : Prop :=
  res_rel (fst o) (fst o') /\ rrel (snd o) (snd o') /\ vok (snd o) /\
  (forall ra, fst o = Ok (Some ra) -> spok (snd o)).

Lemma reg_eqb_refl r : reg_eqb r r = true.
Proof. destruct r; reflexivity. Qed.
Lemma reg_eqb_neq a b : a <> b -> reg_eqb a b = false.
Proof. intros H. destruct a, b; try reflexivity; congruence. Qed.
Lemma reg_eqb_true a b : reg_eqb a b = true -> a = b.
Proof. destruct a, b; cbn; intros H; try reflexivity; discriminate. Qed.

Lemma rrel_setr rg rg' r v : r <> RSP -> rrel rg rg' -> rrel (setr rg r v) (setr rg' r (sh v)).
Proof.
  intros Hr (Hi & Hf & Hs). unfold rrel, setr, sp, getr in *. cbn. repeat split.
  - exact Hi.
  - intros r' Hr'. destruct (reg_eqb r r'); [reflexivity | apply Hf; exact Hr'].
  - rewrite (reg_eqb_neq r RSP Hr). exact Hs.
Qed.

Lemma vok_setr rg r v : vok rg -> okv v = true -> vok (setr rg r v).
Proof.
  intros (Hi & Hf) Hv. unfold vok, setr. cbn. split; [exact Hi|].
  intros r' Hr'. destruct (reg_eqb r r'); [exact Hv | apply Hf; exact Hr'].
Qed.

Lemma sp_setr rg r v : r <> RSP -> sp (setr rg r v) = sp rg.
Proof. intros H. unfold sp, getr, setr. cbn. rewrite (reg_eqb_neq r RSP H). reflexivity. Qed.

Lemma final_rrel rg rg' ra ns nb :
  rrel rg rg' -> okv ra = true ->
  rrel (set_bp (set_sp (set_ip rg ra) ns) nb) (set_bp (set_sp (set_ip rg' (sh ra)) (ns + s)) (sh nb)).
Proof.
  intros (Hi & Hf & Hs) Hra. unfold rrel, set_bp, set_sp, set_ip, setr, sp, getr. cbn. repeat split.
  intros r Hr. destruct (reg_eqb RBP r); [reflexivity|].
  rewrite (reg_eqb_neq RSP r) by congruence. apply Hf; exact Hr.
Qed.

Lemma final_vok rg ra ns nb : vok rg -> okv ra = true -> okv nb = true ->
  vok (set_bp (set_sp (set_ip rg ra) ns) nb).
Proof.
  intros (Hi & Hf) Hra Hnb. unfold vok, set_bp, set_sp, set_ip, setr. cbn. split; [exact Hra|].
  intros r Hr. destruct (reg_eqb RBP r); [exact Hnb|].
  rewrite (reg_eqb_neq RSP r) by congruence. apply Hf; exact Hr.
Qed.

Lemma err_out rg rg' e e' : rrel rg rg' -> vok rg -> err_rel e e' ->
  out_rel (Err e, rg) (Err e', rg').
Proof. intros Hr Hv He. unfold out_rel; cbn [fst snd]. split; [exact He|]. split; [exact Hr|].
  split; [exact Hv|]. intros ? HH; discriminate HH. Qed.

Lemma none_out rg rg' : rrel rg rg' -> vok rg -> out_rel (Ok None, rg) (Ok None, rg').
Proof. intros Hr Hv. unfold out_rel; cbn [fst snd]. split; [exact I|]. split; [exact Hr|].
  split; [exact Hv|]. intros ? HH; discriminate HH. Qed.

Lemma panic_out rg rg' p : rrel rg rg' -> vok rg -> out_rel (Panic p, rg) (Panic p, rg').
Proof. intros Hr Hv. unfold out_rel; cbn [fst snd]. split; [reflexivity|]. split; [exact Hr|].
  split; [exact Hv|]. intros ? HH; discriminate HH. Qed.
Lemma hang_out rg rg' : rrel rg rg' -> vok rg -> out_rel (Hang, rg) (Hang, rg').
Proof. intros Hr Hv. unfold out_rel; cbn [fst snd]. split; [exact I|]. split; [exact Hr|].
  split; [exact Hv|]. intros ? HH; discriminate HH. Qed.

Lemma exec_tail_shift osp rg rg' m ns nb :
  mem_ok m -> rrel rg rg' -> vok rg -> lo <= ns -> okv nb = true ->
  out_rel (exec_tail ra_addr_checked osp rg m ns nb)
          (exec_tail ra_addr_checked (osp + s) rg' (shm m) (ns + s) (sh nb)).
Proof.
  intros Hm Hr Hv Hns Hnb. unfold exec_tail, ra_addr_checked, sub64c, ok_or.
  assert (E1 : (8 <=? ns) = true) by (unfold DIST in *; lia).
  assert (E2 : (8 <=? ns + s) = true) by (unfold DIST in *; lia).
  rewrite E1, E2. replace (ns + s - 8) with (ns - 8 + s) by lia.
  rewrite (shm_read m (ns - 8) Hm).
  destruct (m (ns - 8)) as [ra|] eqn:Era; cbn [option_map].
  - destruct (Hm _ _ Era) as [[Ha1 Ha2] Hra].
    rewrite (sh_zero ra Hra).
    destruct (ra =? 0) eqn:E0; [apply none_out; assumption|].
    rewrite (proj1 Hr). rewrite (sh_eqb ra (ip rg) Hra (proj1 Hv)).
    replace (ns + s =? osp + s) with (ns =? osp) by lia.
    destruct ((ns =? osp) && (ra =? ip rg)) eqn:Ed; [apply err_out; try assumption; left; reflexivity|].
    unfold out_rel; cbn [fst snd]. split; [split; [reflexivity|exact Hra]|].
    split; [apply final_rrel; assumption|].
    split; [apply final_vok; assumption|].
    intros ? _. unfold spok. rewrite sp_final. lia.
  - apply err_out; try assumption. right. eexists; split; reflexivity.
Qed.

Lemma rrel_bp rg rg' : rrel rg rg' -> bp rg' = sh (bp rg).
Proof. intros (_ & Hf & _). unfold bp, getr. apply Hf. discriminate. Qed.
Lemma vok_bp rg : vok rg -> okv (bp rg) = true.
Proof. intros (_ & Hf). unfold bp, getr. apply Hf. discriminate. Qed.

(* the frame-pointer arm, shared by UseFramePointer and the caller case of the uncovered rule *)
Lemma fp_arm_shift rg rg' m :
  mem_ok m -> rrel rg rg' -> vok rg -> spok rg ->
  out_rel
   (let b := bp rg in
    if b =? 0 then (Ok None, rg)
    else match add64c b 16 with
         | None => (Err IntegerOverflow, rg)
         | Some ns => if ns <=? sp rg then (Err FpMovedBackwards, rg)
                      else match m b with
                           | None => (Err (CouldNotReadStack b), rg)
                           | Some nb => exec_tail ra_addr_checked (sp rg) rg m ns nb
                           end
         end)
   (let b := bp rg' in
    if b =? 0 then (Ok None, rg')
    else match add64c b 16 with
         | None => (Err IntegerOverflow, rg')
         | Some ns => if ns <=? sp rg' then (Err FpMovedBackwards, rg')
                      else match shm m b with
                           | None => (Err (CouldNotReadStack b), rg')
                           | Some nb => exec_tail ra_addr_checked (sp rg') rg' (shm m) ns nb
                           end
         end).
Proof.
  intros Hm Hr Hv [Hs1 Hs2]. cbv zeta.
  rewrite (rrel_bp _ _ Hr). pose proof (vok_bp _ Hv) as Hb.
  assert (Hsp : sp rg' = sp rg + s) by apply Hr. rewrite Hsp.
  rewrite (sh_zero _ Hb). destruct (bp rg =? 0) eqn:E0; [apply none_out; assumption|].
  unfold sh. destruct (ptr (bp rg)) eqn:Pb.
  - unfold ptr in Pb.
    rewrite (add64c_small (bp rg) 16) by (unfold DIST in *; lia).
    rewrite (add64c_small (bp rg + s) 16) by (unfold DIST in *; lia).
    replace (bp rg + s + 16 <=? sp rg + s) with (bp rg + 16 <=? sp rg) by lia.
    destruct (bp rg + 16 <=? sp rg) eqn:El; [apply err_out; try assumption; left; reflexivity|].
    rewrite (shm_read m (bp rg) Hm).
    destruct (m (bp rg)) as [nb|] eqn:Enb; cbn [option_map].
    + destruct (Hm _ _ Enb) as [_ Hnb].
      replace (bp rg + s + 16) with (bp rg + 16 + s) by lia.
      apply exec_tail_shift; try assumption. lia.
    + apply err_out; try assumption. right; eexists; split; reflexivity.
  - unfold okv in Hb. rewrite Pb in Hb. cbn in Hb. unfold far in Hb.
    destruct (add64c (bp rg) 16) as [ns|] eqn:Ea; [|apply err_out; try assumption; left; reflexivity].
    apply add64c_some in Ea. destruct Ea as [-> Ea].
    destruct (bp rg + DIST <=? lo) eqn:Ef.
    + assert (E1 : (bp rg + 16 <=? sp rg) = true) by (unfold DIST in *; lia).
      assert (E2 : (bp rg + 16 <=? sp rg + s) = true) by (unfold DIST in *; lia).
      rewrite E1, E2. apply err_out; try assumption; left; reflexivity.
    + cbn in Hb.
      assert (E1 : (bp rg + 16 <=? sp rg) = false) by (unfold DIST in *; lia).
      assert (E2 : (bp rg + 16 <=? sp rg + s) = false) by (unfold DIST in *; lia).
      rewrite E1, E2.
      destruct (shm_far_none m (bp rg) Hm) as [N1 N2]; [unfold DIST in *; lia|].
      rewrite N1, N2. apply err_out; try assumption; left; reflexivity.
Qed.


(* the registers a pop rule names come from ENCODE_REGISTERS: never rsp *)
Lemma nth_opt_In {A} (l : list A) : forall n a, nth_opt l n = Some a -> In a l.
Proof. induction l as [|x l IH]; intros n a H; destruct n; cbn in H; try discriminate.
  - inversion H; left; reflexivity.
  - right; eapply IH; exact H. Qed.
Lemma set_nth_In {A} (l : list A) : forall n v x, In x (set_nth l n v) -> x = v \/ In x l.
Proof. induction l as [|y l IH]; intros n v x H; destruct n; cbn in H; try contradiction.
  - destruct H as [<-|H]; [left; reflexivity | right; right; exact H].
  - destruct H as [<-|H]; [right; left; reflexivity|]. destruct (IH _ _ _ H); [left|right; right]; assumption. Qed.
Lemma swap_tail_In {A} (l l' : list A) from i x : swap_tail l from i = Some l' -> In x l' -> In x l.
Proof. unfold swap_tail. destruct (nth_opt l from) as [a|] eqn:Ea; [|discriminate].
  destruct (nth_opt l (from + i)) as [b|] eqn:Eb; [|discriminate]. intros H; inversion H; subst; clear H.
  intros H. apply set_nth_In in H. destruct H as [->|H]; [eapply nth_opt_In; exact Ea|].
  apply set_nth_In in H. destruct H as [->|H]; [eapply nth_opt_In; exact Eb | exact H]. Qed.
Lemma decode_loop_In fuel : forall rs r n rs' x, decode_loop fuel rs r n = Ok rs' -> In x rs' -> In x rs.
Proof. induction fuel as [|f IH]; intros rs r n rs' x H Hx; cbn [decode_loop] in H; [discriminate|].
  destruct (r =? 0); [inversion H; subst; exact Hx|]. destruct (n =? 0); [discriminate|].
  destruct (r mod n =? 0).
  - eapply IH; eassumption.
  - destruct (swap_tail rs (N.to_nat (8 - n)) (N.to_nat (r mod n))) as [rs2|] eqn:Es; [|discriminate].
    eapply swap_tail_In; [exact Es|]. eapply IH; eassumption. Qed.
Lemma firstn_In' {A} n : forall (l : list A) y, In y (firstn n l) -> In y l.
Proof. induction n as [|n IH]; intros [|x l] y H; cbn in H; try contradiction.
  destruct H as [<-|H]; [left; reflexivity | right; apply IH; exact H]. Qed.
Lemma decode_loop_len fuel : forall rs r n rs', decode_loop fuel rs r n = Ok rs' -> length rs' = length rs.
Proof. induction fuel as [|f IH]; intros rs r n rs' H; cbn [decode_loop] in H; [discriminate|].
  destruct (r =? 0); [inversion H; reflexivity|]. destruct (n =? 0); [discriminate|].
  destruct (r mod n =? 0); [eapply IH; eassumption|].
  destruct (swap_tail rs (N.to_nat (8 - n)) (N.to_nat (r mod n))) as [rs2|] eqn:Es; [|discriminate].
  rewrite (IH _ _ _ _ H). unfold swap_tail in Es.
  destruct (nth_opt rs (N.to_nat (8 - n))); [|discriminate].
  destruct (nth_opt rs (N.to_nat (8 - n) + N.to_nat (r mod n))); [|discriminate].
  inversion Es. now rewrite !set_nth_length. Qed.
Lemma decode_facts cnt enc l : decode cnt enc = Ok l -> ~ In RSP l /\ (length l <= 8)%nat.
Proof. unfold decode. destruct (decode_loop 18 ENCODE_REGISTERS enc 8) as [rs| | |] eqn:E; cbn [res_bind]; try discriminate.
  intros H; inversion H; subst; clear H. split.
  - intros Hin. apply firstn_In' in Hin. apply (decode_loop_In _ _ _ _ _ _ E) in Hin.
    cbn in Hin. intuition discriminate.
  - rewrite List.firstn_length. apply decode_loop_len in E. cbn in E. lia. Qed.

Definition pop_rel (o o' : res N * regs) : Prop :=
  rrel (snd o) (snd o') /\ vok (snd o) /\ sp (snd o) = sp (snd o) /\
  match fst o, fst o' with
  | Ok s2, Ok s2' => s2' = s2 + s
  | Err e, Err e' => err_rel e e'
  | Panic p, Panic p' => p = p'
  | Hang, Hang => True
  | _, _ => False
  end.

Lemma pop_loop_shift m l : mem_ok m -> forall s1 rg rg',
  ~ In RSP l -> rrel rg rg' -> vok rg -> s1 + 8 * N.of_nat (length l) + s < W64 ->
  pop_rel (pop_loop l s1 rg m) (pop_loop l (s1 + s) rg' (shm m)) /\
  sp (snd (pop_loop l s1 rg m)) = sp rg /\
  (forall s2, fst (pop_loop l s1 rg m) = Ok s2 -> s2 = s1 + 8 * N.of_nat (length l)).
Proof.
  intros Hm. induction l as [|r l IH]; intros s1 rg rg' Hn Hr Hv Hb; cbn [pop_loop].
  - unfold pop_rel; cbn. repeat split; try apply Hr; try apply Hv.
    intros s2 H; inversion H; lia.
  - rewrite (shm_read m s1 Hm). destruct (m s1) as [v|] eqn:Ev; cbn [option_map].
    + destruct (Hm _ _ Ev) as [_ Hok]. cbn [length] in Hb.
      rewrite (add64c_small s1 8) by lia. rewrite (add64c_small (s1 + s) 8) by lia.
      replace (s1 + s + 8) with (s1 + 8 + s) by lia.
      assert (Hr' : r <> RSP) by (intros ->; apply Hn; left; reflexivity).
      destruct (IH (s1 + 8) (setr rg r v) (setr rg' r (sh v))) as (A & B & C).
      * intros Hin; apply Hn; right; exact Hin.
      * apply rrel_setr; assumption.
      * apply vok_setr; assumption.
      * lia.
      * split; [exact A|]. split; [rewrite B; apply sp_setr; exact Hr'|].
        intros s2 H2. rewrite (C s2 H2). cbn [length]. lia.
    + unfold pop_rel; cbn. repeat split; try apply Hr; try apply Hv.
      * right; eexists; split; reflexivity.
      * intros s2 H; discriminate H.
Qed.

Theorem exec_x_stack_shift ru first rg rg' m :
  mem_ok m -> rule_wf ru = true -> rrel rg rg' -> vok rg -> spok rg ->
  out_rel (exec ra_addr_checked ru first rg m) (exec ra_addr_checked ru first rg' (shm m)).
Proof.
  intros Hm Hwf Hr Hv Hsp. pose proof Hsp as [Hs1 Hs2].
  assert (Hsp' : sp rg' = sp rg + s) by apply Hr.
  pose proof (rrel_bp _ _ Hr) as Hbp. pose proof (vok_bp _ Hv) as Hbok.
  destruct ru as [| | |k|k y| |k cnt enc]; unfold exec; cbv zeta.
  - apply none_out; assumption.
  - rewrite Hsp'. rewrite (add64c_small (sp rg) 8) by (unfold DIST in *; lia).
    rewrite (add64c_small (sp rg + s) 8) by (unfold DIST in *; lia).
    replace (sp rg + s + 8) with (sp rg + 8 + s) by lia. rewrite Hbp.
    apply exec_tail_shift; try assumption. lia.
  - destruct first.
    + rewrite Hsp'. rewrite (add64c_small (sp rg) 8) by (unfold DIST in *; lia).
      rewrite (add64c_small (sp rg + s) 8) by (unfold DIST in *; lia).
      replace (sp rg + s + 8) with (sp rg + 8 + s) by lia. rewrite Hbp.
      apply exec_tail_shift; try assumption. lia.
    + apply (fp_arm_shift rg rg' m Hm Hr Hv Hsp).
  - cbn in Hwf. rewrite Hsp'.
    rewrite (add64c_small (sp rg) (k * 8)) by (unfold DIST, W16 in *; lia).
    rewrite (add64c_small (sp rg + s) (k * 8)) by (unfold DIST, W16 in *; lia).
    replace (sp rg + s + k * 8) with (sp rg + k * 8 + s) by lia. rewrite Hbp.
    apply exec_tail_shift; try assumption. lia.
  - cbn in Hwf. unfold in_i16 in Hwf. rewrite Hsp'.
    rewrite (add64c_small (sp rg) (k * 8)) by (unfold DIST, W16 in *; lia).
    rewrite (add64c_small (sp rg + s) (k * 8)) by (unfold DIST, W16 in *; lia).
    replace (sp rg + s + k * 8) with (sp rg + k * 8 + s) by lia.
    rewrite (adds64c_small (sp rg) (y * 8)) by (unfold DIST in *; lia).
    rewrite (adds64c_small (sp rg + s) (y * 8)) by (unfold DIST in *; lia).
    replace (Z.to_N (Z.of_N (sp rg + s) + y * 8)) with (Z.to_N (Z.of_N (sp rg) + y * 8) + s)
      by (unfold DIST in *; lia).
    set (loc := Z.to_N (Z.of_N (sp rg) + y * 8)).
    rewrite (shm_read m loc Hm).
    destruct (m loc) as [nb|] eqn:Enb; cbn [option_map].
    + destruct (Hm _ _ Enb) as [_ Hnb]. apply exec_tail_shift; try assumption. lia.
    + replace (loc + s <? sp rg + s) with (loc <? sp rg) by lia.
      destruct (first && (loc <? sp rg)) eqn:Ef.
      * rewrite Hbp. apply exec_tail_shift; try assumption. lia.
      * apply err_out; try assumption. right; eexists; split; reflexivity.
  - apply (fp_arm_shift rg rg' m Hm Hr Hv Hsp).
  - cbn in Hwf. rewrite Hsp'.
    rewrite (add64c_small (sp rg) (k * 8)) by (unfold DIST, W16 in *; lia).
    rewrite (add64c_small (sp rg + s) (k * 8)) by (unfold DIST, W16 in *; lia).
    replace (sp rg + s + k * 8) with (sp rg + k * 8 + s) by lia.
    destruct (decode cnt enc) as [l|e|p|] eqn:Ed.
    + destruct (decode_facts _ _ _ Ed) as [Hn Hlen].
      destruct (pop_loop_shift m l Hm (sp rg + k * 8) rg rg' Hn Hr Hv) as (A & B & C).
      { unfold DIST, W16 in *. lia. }
      destruct (pop_loop l (sp rg + k * 8) rg m) as [r2 rg2] eqn:E2.
      destruct (pop_loop l (sp rg + k * 8 + s) rg' (shm m)) as [r2' rg2'] eqn:E2'.
      destruct A as (Ar & Av & _ & Am). cbn [fst snd] in *.
      destruct r2 as [s2|e|p|]; destruct r2' as [s2'|e'|p'|]; try contradiction.
      * subst s2'. specialize (C s2 eq_refl).
        rewrite (add64c_small s2 8) by (unfold DIST, W16 in *; lia).
        rewrite (add64c_small (s2 + s) 8) by (unfold DIST, W16 in *; lia).
        replace (s2 + s + 8) with (s2 + 8 + s) by lia. rewrite (rrel_bp _ _ Ar).
        apply exec_tail_shift; try assumption. lia. apply vok_bp; exact Av.
      * apply err_out; assumption.
      * subst p'. apply panic_out; assumption.
      * apply hang_out; assumption.
    + apply err_out; try assumption. left; reflexivity.
    + apply panic_out; assumption.
    + apply hang_out; assumption.
Qed.



(* ------------------------------------------------------------------ whole walks over cached rules (x86_64) *)
Fixpoint run_rules (rs : list rule) (first : bool) (rg : regs) (m : mem) : list (res (option N)) * regs :=
  match rs with
  | [] => ([], rg)
  | r :: t =>
    match exec ra_addr_checked r first rg m with
    | (Ok (Some ra), rg2) => let (l, rgf) := run_rules t false rg2 m in (Ok (Some ra) :: l, rgf)
    | (o, rg2) => ([o], rg2)
    end
  end.

Theorem run_rules_stack_shift m : mem_ok m -> forall rs first rg rg',
  Forall (fun r => rule_wf r = true) rs -> rrel rg rg' -> vok rg -> spok rg ->
  Forall2 res_rel (fst (run_rules rs first rg m)) (fst (run_rules rs first rg' (shm m))) /\
  rrel (snd (run_rules rs first rg m)) (snd (run_rules rs first rg' (shm m))).
Proof.
  intros Hm. induction rs as [|r t IH]; intros first rg rg' Hwf Hr Hv Hsp; cbn [run_rules].
  - split; [constructor | exact Hr].
  - inversion Hwf as [|? ? Hw1 Hw2]; subst.
    pose proof (exec_x_stack_shift r first rg rg' m Hm Hw1 Hr Hv Hsp) as (A & B & C & D).
    destruct (exec ra_addr_checked r first rg m) as [o rg2].
    destruct (exec ra_addr_checked r first rg' (shm m)) as [o' rg2']. cbn [fst snd] in *.
    destruct o as [[ra|]|e|p|]; destruct o' as [[ra'|]|e'|p'|]; try contradiction;
      try (cbn [fst snd]; split; [constructor; [exact A | constructor] | exact B]).
    specialize (IH false rg2 rg2' Hw2 B C (D ra eq_refl)).
    destruct (run_rules t false rg2 m) as [l rgf]. destruct (run_rules t false rg2' (shm m)) as [l' rgf'].
    cbn [fst snd] in *. destruct IH as [I1 I2]. split; [constructor; [exact A | exact I1] | exact I2].
Qed.

(* ------------------------------------------------------------------ aarch64 *)
Section A64.
Variable k : N.                                   (* the pointer-authentication mask *)
(* the mask keeps every address up to the top of both stacks *)
Hypothesis Hmask : forall v, v <= hi + s -> strip k v = v.

(* a word that may be used as a return address: after stripping it is still a stack pointer
   (if it was one) or still far from both stacks *)
Definition cok (v : N) : bool :=
  okv v && okv (strip k v) && (negb (ptr (strip k v)) || ptr v).

Definition mem_ok_a (m : mem) : Prop := mem_ok m /\ forall a v, m a = Some v -> cok v = true.

Lemma cok_okv v : cok v = true -> okv v = true.
Proof. unfold cok. destruct (okv v); [reflexivity | cbn; intros H; discriminate H]. Qed.
Lemma strip_sh v : cok v = true -> strip k (sh v) = sh (strip k v).
Proof.
  unfold cok, sh. intros H. destruct (ptr v) eqn:Pv.
  - unfold ptr in Pv. rewrite (Hmask v) by lia. rewrite (Hmask (v + s)) by lia.
    unfold ptr. rewrite Pv. reflexivity.
  - destruct (ptr (strip k v)); [|reflexivity].
    destruct (okv v); destruct (okv (strip k v)); cbn in H; discriminate H.
Qed.
Lemma cok_strip v : cok v = true -> cok (strip k v) = true.
Proof. unfold cok. rewrite strip_idem. intros H.
  destruct (okv (strip k v)); [|destruct (okv v); cbn in H; discriminate H].
  destruct (ptr (strip k v)); reflexivity. Qed.
Lemma okv_strip v : cok v = true -> okv (strip k v) = true.
Proof. unfold cok. destruct (okv (strip k v)); [reflexivity|]. destruct (okv v); cbn; intros H; discriminate H. Qed.

Definition avok (rg : aregs) : Prop := cok (lr rg) = true /\ okv (afp rg) = true.
Definition arel (rg rg' : aregs) : Prop :=
  mask rg = k /\ mask rg' = k /\ lr rg' = sh (lr rg) /\ asp rg' = asp rg + s /\ afp rg' = sh (afp rg).
Definition aout_rel (o o' : res (option N) * aregs) : Prop :=
  res_rel (fst o) (fst o') /\ arel (snd o) (snd o') /\ avok (snd o).

Lemma aerr_out rg rg' e e' : arel rg rg' -> avok rg -> err_rel e e' -> aout_rel (Err e, rg) (Err e', rg').
Proof. intros Hr Hv He. unfold aout_rel; cbn [fst snd]. split; [exact He | split; assumption]. Qed.
Lemma anone_out rg rg' : arel rg rg' -> avok rg -> aout_rel (Ok None, rg) (Ok None, rg').
Proof. intros Hr Hv. unfold aout_rel; cbn [fst snd]. split; [exact I | split; assumption]. Qed.

Lemma aexec_tail_shift first rg rg' nl ns nf :
  arel rg rg' -> avok rg -> cok nl = true -> okv nf = true ->
  aout_rel (aexec_tail first rg nl ns nf) (aexec_tail first rg' (sh nl) (ns + s) (sh nf)).
Proof.
  intros Hr Hv Hnl Hnf. pose proof Hr as (M1 & M2 & R1 & R2 & R3). unfold aexec_tail.
  rewrite M1, M2, R2. rewrite (strip_sh nl Hnl). rewrite (sh_zero _ (okv_strip nl Hnl)).
  destruct (strip k nl =? 0) eqn:E0; [apply anone_out; assumption|].
  replace (ns + s =? asp rg + s) with (ns =? asp rg) by lia.
  destruct (negb first && (ns =? asp rg)); [apply aerr_out; try assumption; left; reflexivity|].
  unfold aout_rel; cbn [fst snd]. split; [split; [reflexivity | apply okv_strip; exact Hnl]|].
  unfold arel, avok, set_afp, set_asp, set_lr; cbn. rewrite M1, M2.
  repeat split; try reflexivity; try assumption.
  - apply strip_sh; exact Hnl.
  - apply cok_strip; exact Hnl.
Qed.

(* reads through a frame pointer that is not a stack pointer fail identically on both stacks *)
Lemma far_reads m f z a : mem_ok m -> okv f = true -> ptr f = false ->
  (- 524288 <= z <= 524288)%Z -> (Z.of_N a = Z.of_N f + z)%Z -> m a = None /\ shm m a = None.
Proof.
  intros Hm Hok Pf Hz Ha. apply shm_far_none; [exact Hm|].
  unfold okv in Hok. rewrite Pf in Hok. cbn in Hok. unfold far, DIST in *. lia.
Qed.

Theorem aexec_stack_shift ru first rg rg' m :
  mem_ok_a m -> arule_wf ru = true -> arel rg rg' -> avok rg ->
  lo <= asp rg -> asp rg + s + 2 * DIST < W64 ->
  aout_rel (aexec ru first rg m) (aexec ru first rg' (shm m)).
Proof.
  intros [Hm Hc] Hwf Hr Hv Hs1 Hs2. pose proof Hr as (M1 & M2 & R1 & R2 & R3).
  pose proof Hv as [Hl Hf]. unfold aexec; cbv zeta. rewrite R1, R2, R3.
  assert (Tail : forall first nl ns nf, cok nl = true -> okv nf = true ->
            aout_rel (aexec_tail first rg nl ns nf) (aexec_tail first rg' (sh nl) (ns + s) (sh nf)))
    by (intros; apply aexec_tail_shift; assumption).
  assert (ErrSame : forall e, aout_rel (Err e, rg) (Err e, rg'))
    by (intros; apply aerr_out; try assumption; left; reflexivity).
  assert (ErrRead : forall a, aout_rel (Err (CouldNotReadStack a), rg) (Err (CouldNotReadStack (a + s)), rg'))
    by (intros; apply aerr_out; try assumption; right; eexists; split; reflexivity).
  destruct ru as [| |n|n|n l0|n f0 l0| |n f0 l0]; cbn in Hwf; unfold in_i16 in Hwf.
  - (* NoOp *) destruct (negb first); [apply ErrSame | apply Tail; assumption].
  - (* NoOpIfFirstFrameOtherwiseFp *)
    destruct first; [apply Tail; assumption|].
    unfold sh at 1 2 3 4. destruct (ptr (afp rg)) eqn:Pf.
    + unfold ptr in Pf.
      rewrite (add64c_small (afp rg) 16) by (unfold DIST in *; lia).
      rewrite (add64c_small (afp rg + s) 16) by (unfold DIST in *; lia).
      rewrite (add64p_nopanic _ (afp rg) 8) by (unfold DIST in *; lia).
      rewrite (add64p_nopanic _ (afp rg + s) 8) by (unfold DIST in *; lia).
      replace (afp rg + s + 8) with (afp rg + 8 + s) by lia.
      rewrite !(shm_read m _ Hm).
      destruct (m (afp rg + 8)) as [nl|] eqn:El; cbn [option_map]; [|apply ErrRead].
      destruct (m (afp rg)) as [nf|] eqn:Ef; cbn [option_map]; [|apply ErrRead].
      pose proof (Hc _ _ El) as Hnl. destruct (Hm _ _ Ef) as [_ Hnf].
      rewrite (sh_zero nf Hnf). destruct (nf =? 0); [apply anone_out; assumption|].
      replace (afp rg + s + 16 <=? asp rg + s) with (afp rg + 16 <=? asp rg) by lia.
      destruct (afp rg + 16 <=? asp rg); [apply ErrSame|].
      replace (afp rg + s + 16) with (afp rg + 16 + s) by lia. apply Tail; assumption.
    + destruct (add64c (afp rg) 16) as [ns|] eqn:Ea; [|apply ErrSame].
      apply add64c_some in Ea. destruct Ea as [-> Ea].
      rewrite (add64p_nopanic _ (afp rg) 8) by lia.
      destruct (far_reads m (afp rg) 8 (afp rg + 8) Hm Hf Pf) as [N1 N2]; [lia | lia |].
      rewrite N1, N2. apply ErrSame.
  - (* OffsetSp *)
    destruct (negb first); [apply ErrSame|].
    rewrite (add64c_small (asp rg) (n * 16)) by (unfold DIST, W16 in *; lia).
    rewrite (add64c_small (asp rg + s) (n * 16)) by (unfold DIST, W16 in *; lia).
    replace (asp rg + s + n * 16) with (asp rg + n * 16 + s) by lia. apply Tail; assumption.
  - (* OffsetSpIfFirstFrameOtherwiseStackEndsHere *)
    destruct (negb first); [apply anone_out; assumption|].
    rewrite (add64c_small (asp rg) (n * 16)) by (unfold DIST, W16 in *; lia).
    rewrite (add64c_small (asp rg + s) (n * 16)) by (unfold DIST, W16 in *; lia).
    replace (asp rg + s + n * 16) with (asp rg + n * 16 + s) by lia. apply Tail; assumption.
  - (* OffsetSpAndRestoreLr *)
    rewrite (add64c_small (asp rg) (n * 16)) by (unfold DIST, W16 in *; lia).
    rewrite (add64c_small (asp rg + s) (n * 16)) by (unfold DIST, W16 in *; lia).
    replace (asp rg + s + n * 16) with (asp rg + n * 16 + s) by lia.
    rewrite (adds64c_small (asp rg) (l0 * 8)) by (unfold DIST in *; lia).
    rewrite (adds64c_small (asp rg + s) (l0 * 8)) by (unfold DIST in *; lia).
    replace (Z.to_N (Z.of_N (asp rg + s) + l0 * 8)) with (Z.to_N (Z.of_N (asp rg) + l0 * 8) + s)
      by (unfold DIST in *; lia).
    rewrite (shm_read m _ Hm).
    destruct (m (Z.to_N (Z.of_N (asp rg) + l0 * 8))) as [nl|] eqn:El; cbn [option_map]; [|apply ErrRead].
    apply Tail; [exact (Hc _ _ El) | assumption].
  - (* OffsetSpAndRestoreFpAndLr *)
    rewrite (add64c_small (asp rg) (n * 16)) by (unfold DIST, W16 in *; lia).
    rewrite (add64c_small (asp rg + s) (n * 16)) by (unfold DIST, W16 in *; lia).
    replace (asp rg + s + n * 16) with (asp rg + n * 16 + s) by lia.
    rewrite (adds64c_small (asp rg) (l0 * 8)) by (unfold DIST in *; lia).
    rewrite (adds64c_small (asp rg + s) (l0 * 8)) by (unfold DIST in *; lia).
    replace (Z.to_N (Z.of_N (asp rg + s) + l0 * 8)) with (Z.to_N (Z.of_N (asp rg) + l0 * 8) + s)
      by (unfold DIST in *; lia).
    rewrite (shm_read m _ Hm).
    destruct (m (Z.to_N (Z.of_N (asp rg) + l0 * 8))) as [nl|] eqn:El; cbn [option_map]; [|apply ErrRead].
    rewrite (adds64c_small (asp rg) (f0 * 8)) by (unfold DIST in *; lia).
    rewrite (adds64c_small (asp rg + s) (f0 * 8)) by (unfold DIST in *; lia).
    replace (Z.to_N (Z.of_N (asp rg + s) + f0 * 8)) with (Z.to_N (Z.of_N (asp rg) + f0 * 8) + s)
      by (unfold DIST in *; lia).
    rewrite (shm_read m _ Hm).
    destruct (m (Z.to_N (Z.of_N (asp rg) + f0 * 8))) as [nf|] eqn:Ef; cbn [option_map]; [|apply ErrRead].
    apply Tail; [exact (Hc _ _ El) | exact (proj2 (Hm _ _ Ef))].
  - (* UseFramePointer *)
    unfold sh at 1 2 3 4 5. destruct (ptr (afp rg)) eqn:Pf.
    + pose proof Pf as Pf'. unfold ptr in Pf.
      rewrite (add64c_small (afp rg) 16) by (unfold DIST in *; lia).
      rewrite (add64c_small (afp rg + s) 16) by (unfold DIST in *; lia).
      rewrite (add64p_nopanic _ (afp rg) 8) by (unfold DIST in *; lia).
      rewrite (add64p_nopanic _ (afp rg + s) 8) by (unfold DIST in *; lia).
      replace (afp rg + s + 8) with (afp rg + 8 + s) by lia.
      rewrite !(shm_read m _ Hm).
      destruct (m (afp rg + 8)) as [nl|] eqn:El; cbn [option_map]; [|apply ErrRead].
      destruct (m (afp rg)) as [nf|] eqn:Ef; cbn [option_map]; [|apply ErrRead].
      pose proof (Hc _ _ El) as Hnl. destruct (Hm _ _ Ef) as [_ Hnf].
      rewrite (sh_zero nf Hnf). destruct (nf =? 0); [apply anone_out; assumption|].
      replace (afp rg + s + 16 <=? asp rg + s) with (afp rg + 16 <=? asp rg) by lia.
      assert (Ele : (sh nf <=? afp rg + s) = (nf <=? afp rg)).
      { replace (afp rg + s) with (sh (afp rg)) by (unfold sh; rewrite Pf'; reflexivity).
        apply sh_leb; assumption. }
      rewrite Ele.
      destruct ((nf <=? afp rg) || (afp rg + 16 <=? asp rg)); [apply ErrSame|].
      replace (afp rg + s + 16) with (afp rg + 16 + s) by lia. apply Tail; assumption.
    + destruct (add64c (afp rg) 16) as [ns|] eqn:Ea; [|apply ErrSame].
      apply add64c_some in Ea. destruct Ea as [-> Ea].
      rewrite (add64p_nopanic _ (afp rg) 8) by lia.
      destruct (far_reads m (afp rg) 8 (afp rg + 8) Hm Hf Pf) as [N1 N2]; [lia | lia |].
      rewrite N1, N2. apply ErrSame.
  - (* UseFramepointerWithOffsets *)
    destruct (ptr (afp rg)) eqn:Pf.
    + pose proof Pf as Pf'. unfold ptr in Pf.
      assert (Esh : sh (afp rg) = afp rg + s) by (unfold sh; rewrite Pf'; reflexivity).
      rewrite Esh.
      rewrite (add64c_small (afp rg) (n * 8)) by (unfold DIST, W16 in *; lia).
      rewrite (add64c_small (afp rg + s) (n * 8)) by (unfold DIST, W16 in *; lia).
      replace (afp rg + s + n * 8) with (afp rg + n * 8 + s) by lia.
      rewrite (adds64c_small (afp rg) (l0 * 8)) by (unfold DIST in *; lia).
      rewrite (adds64c_small (afp rg + s) (l0 * 8)) by (unfold DIST in *; lia).
      replace (Z.to_N (Z.of_N (afp rg + s) + l0 * 8)) with (Z.to_N (Z.of_N (afp rg) + l0 * 8) + s)
        by (unfold DIST in *; lia).
      rewrite (shm_read m _ Hm).
      destruct (m (Z.to_N (Z.of_N (afp rg) + l0 * 8))) as [nl|] eqn:El; cbn [option_map]; [|apply ErrRead].
      rewrite (adds64c_small (afp rg) (f0 * 8)) by (unfold DIST in *; lia).
      rewrite (adds64c_small (afp rg + s) (f0 * 8)) by (unfold DIST in *; lia).
      replace (Z.to_N (Z.of_N (afp rg + s) + f0 * 8)) with (Z.to_N (Z.of_N (afp rg) + f0 * 8) + s)
        by (unfold DIST in *; lia).
      rewrite (shm_read m _ Hm).
      destruct (m (Z.to_N (Z.of_N (afp rg) + f0 * 8))) as [nf|] eqn:Ef; cbn [option_map]; [|apply ErrRead].
      pose proof (Hc _ _ El) as Hnl. destruct (Hm _ _ Ef) as [_ Hnf].
      rewrite (sh_zero nf Hnf). destruct (nf =? 0); [apply anone_out; assumption|].
      replace (afp rg + n * 8 + s <=? asp rg + s) with (afp rg + n * 8 <=? asp rg) by lia.
      assert (Ele : (sh nf <=? afp rg + s) = (nf <=? afp rg)).
      { rewrite <- Esh. apply sh_leb; assumption. }
      rewrite Ele.
      destruct ((nf <=? afp rg) || (afp rg + n * 8 <=? asp rg)); [apply ErrSame|].
      apply Tail; assumption.
    + assert (Esh : sh (afp rg) = afp rg) by (unfold sh; rewrite Pf; reflexivity).
      rewrite Esh.
      destruct (add64c (afp rg) (n * 8)) as [ns|] eqn:Ea; [|apply ErrSame].
      apply add64c_some in Ea. destruct Ea as [-> Ea].
      destruct (adds64c (afp rg) (l0 * 8)) as [ll|] eqn:Ell; [|apply ErrSame].
      apply adds64c_some in Ell; [|lia | unfold in_i64, I64MIN, I64MAX; lia].
      destruct (far_reads m (afp rg) (l0 * 8) ll Hm Hf Pf) as [N1 N2]; [lia | lia |].
      rewrite N1, N2. apply ErrSame.
Qed.
End A64.

End Shift.

(* ------------------------------------------------------------------ the hypotheses are satisfiable *)
Lemma mem_of_list_In l : forall a v, mem_of_list l a = Some v -> In (a, v) l.
Proof. induction l as [|[k0 v0] l IH]; intros a v H; cbn in H; [discriminate|].
  destruct (N.eqb_spec k0 a); [inversion H; subst; left; reflexivity | right; apply IH; exact H]. Qed.

Definition ex_lo : N := 2147352576.        (* 0x7ffe0000 *)
Definition ex_hi : N := 2147356672.        (* 0x7ffe1000 *)
Definition ex_s  : N := 4294967296.        (* the stack is placed 4 GiB higher *)
(* a frame-pointer chain of two frames: [fp] -> saved fp, [fp+8] -> return address *)
Definition ex_cells : list (N * N) :=
  [(2147352576 + 16, 2147352576 + 48); (2147352576 + 24, 4198400);
   (2147352576 + 48, 0);               (2147352576 + 56, 4202496)].
Definition ex_regs (d : N) : regs := regs_new 4194304 (2147352576 + d) (2147352576 + 16 + d).

Lemma ex_mem_ok : mem_ok ex_lo ex_hi ex_s (mem_of_list ex_cells).
Proof.
  intros a v H. apply mem_of_list_In in H. cbn in H.
  repeat (destruct H as [H|H]; [inversion H; subst; vm_compute; split; [split; [discriminate | reflexivity] | reflexivity]|]).
  contradiction.
Qed.

Example shift_premises_hold :
  2 * DIST <= ex_lo /\ ex_lo <= ex_hi /\ ex_hi + ex_s + 2 * DIST < W64 /\
  mem_ok ex_lo ex_hi ex_s (mem_of_list ex_cells) /\
  rrel ex_lo ex_hi ex_s (ex_regs 0) (ex_regs ex_s) /\ vok ex_lo ex_hi ex_s (ex_regs 0) /\
  spok ex_lo ex_hi (ex_regs 0) /\
  fst (run_rules [UseFramePointer; UseFramePointer; UseFramePointer] false (ex_regs 0) (mem_of_list ex_cells))
    = [Ok (Some 4198400); Ok (Some 4202496); Ok None].
Proof.
  split; [vm_compute; discriminate|]. split; [vm_compute; discriminate|]. split; [vm_compute; reflexivity|].
  split; [exact ex_mem_ok|].
  split; [split; [reflexivity|split; [intros r Hr; destruct r; try reflexivity; congruence | reflexivity]]|].
  split; [split; [reflexivity | intros r Hr; destruct r; try reflexivity; congruence]|].
  split; [split; vm_compute; discriminate|]. reflexivity.
Qed.
