(* MachoWf.v - every rule that the compact-unwind translation, the instruction analysers and the stub
   rules can hand to the cache is well-formed (its fields fit the compressed rule's u16 / i16 fields).
   Used by C08: the stack-relocation theorem for one unwind_frame call needs it of the callback's rule. *)
From FH Require Import Consts Word X86 A64 Unwinder Macho WordFacts.
From Coq Require Import Lia ZifyBool ZifyN List.
Import ListNotations.
Open Scope N_scope.
Ltac Zify.zify_post_hook ::= Z.div_mod_to_equations.

Definition cui_wf {R} (wf : R -> bool) (c : cui_result R) : Prop :=
  match c with CuiRule r => wf r = true | _ => True end.

Lemma macho_cui_wf {R} (wf : R -> bool) au stub start helper d rel first :
  (forall f fi o b, cui_wf wf (au f fi o b)) -> wf stub = true -> wf start = true -> (forall o, wf (helper o) = true) ->
  cui_wf wf (macho_cui R au stub start helper d rel first).
Proof.
  intros Ha Hs Ht Hh. unfold macho_cui.
  destruct (in_range (m_stubs d) rel); [destruct first; cbn; auto|].
  destruct (in_range (m_helper d) rel); [destruct first; cbn; auto|].
  destruct (macho_lookup d rel) as [f|]; [|destruct first; cbn; auto].
  destruct (first && (rel =? fn_start f)); [cbn; auto | apply Ha].
Qed.

(* ---------------------------------------------------------------- x86_64 *)
Lemma pro_walk_x86_wf fuel : forall rb cnt r, pro_walk_x86 fuel rb cnt = Some r -> rule_wf r = true.
Proof.
  induction fuel as [|f IH]; intros rb cnt r; cbn [pro_walk_x86]; [discriminate|].
  repeat match goal with
         | |- context [match ?x with _ => _ end] =>
           lazymatch x with
           | N.land _ _ =? _ => fail
           | _ + 1 <? _ => fail
           | _ => destruct x
           end
         end;
  repeat match goal with |- context [if ?c then _ else _] => destruct c eqn:? end;
  first [ discriminate | apply IH | intros H; inversion H; subst; cbn [rule_wf]; first [reflexivity | assumption] ].
Qed.

Lemma as_i16_in n : in_i16 (as_i16 n) = true.
Proof. unfold in_i16, as_i16, W16. cbv zeta. destruct (n mod 65536 <? 32768) eqn:E; lia. Qed.

Lemma analysis_x86_wf b pc r : analysis_x86 b pc = Some r -> rule_wf r = true.
Proof.
  unfold analysis_x86, prologue_x86, epilogue_x86.
  destruct (is_next_expected_in_prologue (skipn pc b)).
  - destruct (pro_walk_x86 _ _ 0) as [r0|] eqn:E.
    + intros H; inversion H; subst. eapply pro_walk_x86_wf; exact E.
    + destruct (epi_walk_x86 _ _ _ 0 None) as [[cnt bp]|]; [|discriminate].
      destruct (cnt =? 0); [intros H; inversion H; reflexivity|].
      destruct (cnt + 1 <? W16) eqn:Ec; [|discriminate].
      destruct bp; intros H; inversion H; subst; cbn [rule_wf]; rewrite Ec; [rewrite as_i16_in|]; reflexivity.
  - destruct (epi_walk_x86 _ _ _ 0 None) as [[cnt bp]|]; [|discriminate].
    destruct (cnt =? 0); [intros H; inversion H; reflexivity|].
    destruct (cnt + 1 <? W16) eqn:Ec; [|discriminate].
    destruct bp; intros H; inversion H; subst; cbn [rule_wf]; rewrite Ec; [rewrite as_i16_in|]; reflexivity.
Qed.

Lemma i64_to_i16_in z y : i64_to_i16 z = Some y -> in_i16 y = true.
Proof. unfold i64_to_i16. destruct (in_i16 z) eqn:E; [|discriminate]. intros H; inversion H; subst. exact E. Qed.

Lemma land255_div8 x : (N.land x 255 * 8 / 8 <? W16) = true.
Proof.
  assert (N.land x 255 < 256).
  { change 255 with (N.ones 8). rewrite N.land_ones. apply N.mod_lt. discriminate. }
  rewrite N.div_mul by discriminate. unfold W16. lia.
Qed.

Lemma frameless_rule_x86_wf sz regs : (sz / 8 <? W16) = true -> cui_wf rule_wf (frameless_rule_x86 sz regs).
Proof.
  intros Hs. unfold frameless_rule_x86. destruct (bp_position_from_outside regs) as [pos|]; cbn [cui_wf rule_wf]; [|exact Hs].
  destruct (i64_to_i16 _) as [y|] eqn:E; cbn [cui_wf rule_wf]; [|exact I].
  rewrite Hs, (i64_to_i16_in _ _ E). reflexivity.
Qed.

Lemma x86_macho_unwind_wf f first o b : cui_wf rule_wf (x86_macho_unwind f first o b).
Proof.
  unfold x86_macho_unwind. cbv zeta.
  set (kind := N.land (N.shiftr (fn_opcode f) 24) 15).
  assert (Late : cui_wf rule_wf
    (if kind =? 0 then CuiErr
     else if kind =? 1 then CuiRule UseFramePointer
     else if kind =? 2 then
       match decode_permutation (N.land (N.shiftr (fn_opcode f) 10) 7) (N.land (fn_opcode f) 1023) with
       | None => CuiErr
       | Some regs => if N.land (N.shiftr (fn_opcode f) 16) 255 * 8 =? 8 then CuiRule JustReturn
                      else frameless_rule_x86 (N.land (N.shiftr (fn_opcode f) 16) 255 * 8) regs
       end
     else if kind =? 3 then
       match decode_permutation (N.land (N.shiftr (fn_opcode f) 10) 7) (N.land (fn_opcode f) 1023) with
       | None => CuiErr
       | Some regs =>
         match b with
         | None => CuiErr
         | Some b0 =>
           match u32_at b0 (N.land (N.shiftr (fn_opcode f) 16) 255) with
           | None => CuiErr
           | Some imm =>
             let size := imm + N.land (N.shiftr (fn_opcode f) 13) 7 * 8 in
             if W32 <=? size then CuiErr
             else if W16 <=? size / 8 then CuiErr
             else match bp_position_from_outside regs with
                  | Some pos =>
                    let sz := if size <? 2147483648 then Z.of_N size else (Z.of_N size - 4294967296)%Z in
                    match i64_to_i16 (divz (sz - 16 - Z.of_N pos * 8)%Z 8) with
                    | Some y => CuiRule (OffsetSpAndRestoreBp (size / 8) y)
                    | None => CuiErr
                    end
                  | None => CuiRule (OffsetSp (size / 8))
                  end
           end
         end
       end
     else if kind =? 4 then CuiNeedDwarf (N.land (fn_opcode f) 16777215)
     else CuiErr)).
  { destruct (kind =? 0); [exact I|]. destruct (kind =? 1); [reflexivity|].
    destruct (kind =? 2).
    - destruct (decode_permutation _ _) as [regs|]; [|exact I].
      destruct (_ =? 8); [reflexivity|]. apply frameless_rule_x86_wf. apply land255_div8.
    - destruct (kind =? 3); [|destruct (kind =? 4); exact I].
      destruct (decode_permutation _ _) as [regs|]; [|exact I].
      destruct b as [b0|]; [|exact I]. destruct (u32_at b0 _) as [imm|]; [|exact I]. cbv zeta.
      destruct (W32 <=? _); [exact I|].
      destruct (W16 <=? _) eqn:E16; [exact I|].
      assert (Hk : ((imm + N.land (N.shiftr (fn_opcode f) 13) 7 * 8) / 8 <? W16) = true) by lia.
      destruct (bp_position_from_outside regs) as [pos|]; cbn [cui_wf rule_wf]; [|exact Hk].
      destruct (i64_to_i16 _) as [y|] eqn:Ey; cbn [cui_wf rule_wf]; [|exact I].
      rewrite Hk, (i64_to_i16_in _ _ Ey). reflexivity. }
  destruct first; [|exact Late].
  destruct b as [b0|].
  - destruct (analysis_x86 b0 (N.to_nat o)) as [r|] eqn:Ea; [cbn; eapply analysis_x86_wf; exact Ea|].
    destruct ((kind =? 0) && starts_with_fp_prologue b0); [reflexivity|].
    destruct (kind =? 0) eqn:K0; [reflexivity|]. try rewrite K0 in Late. exact Late.
  - destruct (kind =? 0) eqn:K0; [reflexivity|]. try rewrite K0 in Late. exact Late.
Qed.

Lemma x86_stub_helper_rule_wf o : rule_wf (x86_stub_helper_rule o) = true.
Proof. unfold x86_stub_helper_rule. destruct (o <? 9); [reflexivity|]. destruct (o <? 16); [reflexivity|]. destruct (_ <? 5); reflexivity. Qed.

Theorem x86_macho_rules_wf d rel first r :
  macho_cui rule x86_macho_unwind JustReturn JustReturn x86_stub_helper_rule d rel first = CuiRule r -> rule_wf r = true.
Proof.
  intros H. pose proof (macho_cui_wf rule_wf x86_macho_unwind JustReturn JustReturn x86_stub_helper_rule d rel first
                         x86_macho_unwind_wf eq_refl eq_refl x86_stub_helper_rule_wf) as W.
  rewrite H in W. exact W.
Qed.

(* ---------------------------------------------------------------- aarch64 *)
Lemma u16_of_z_lt z k : u16_of_z z = Some k -> (k <? W16) = true.
Proof. unfold u16_of_z. destruct ((0 <=? z)%Z && (z <? 65536)%Z) eqn:E; [|discriminate]. intros H; inversion H; subst. unfold W16. lia. Qed.

Lemma i16_of_z_in z y : i16_of_z z = Some y -> in_i16 y = true.
Proof. unfold i16_of_z, in_i16. destruct ((-32768 <=? z)%Z && (z <=? 32767)%Z) eqn:E; [|discriminate]. intros H; inversion H; subst. lia. Qed.

Lemma noop_or_offset_wf k : (k <? W16) = true -> arule_wf (if k =? 0 then ANoOp else AOffsetSp k) = true.
Proof. intros H. destruct (k =? 0); [reflexivity | exact H]. Qed.

Lemma prologue_a64_wf b pc r : prologue_a64 b pc = Some r -> arule_wf r = true.
Proof.
  unfold prologue_a64. cbv zeta. destruct (word_at (skipn pc b) 0) as [nw|]; [|discriminate].
  destruct (a_pro_itype nw); [discriminate| |];
    (destruct (a_pro_walk _ 0) as [spo|]; [|discriminate]);
    try (destruct (spo =? 0)%Z; [discriminate|]);
    (destruct (u16_of_z (divz spo 16)) as [k|] eqn:E; [|discriminate]);
    intros H; inversion H; subst; apply noop_or_offset_wf; eapply u16_of_z_lt; exact E.
Qed.

Lemma a_epi_rule_wf s r : a_epi_rule s = Some r -> arule_wf r = true.
Proof.
  unfold a_epi_rule. destruct (u16_of_z (divz (es_sp s) 16)) as [k|] eqn:E; [|discriminate].
  pose proof (u16_of_z_lt _ _ E) as Hk.
  destruct (es_fp s) as [f|], (es_lr s) as [l|]; try discriminate.
  - destruct (i16_of_z (divz f 8)) as [f8|] eqn:Ef; [|discriminate].
    destruct (i16_of_z (divz l 8)) as [l8|] eqn:El; [|discriminate].
    intros H; inversion H; subst. cbn [arule_wf]. rewrite Hk, (i16_of_z_in _ _ Ef), (i16_of_z_in _ _ El). reflexivity.
  - destruct (i16_of_z (divz l 8)) as [l8|] eqn:El; [|discriminate].
    intros H; inversion H; subst. cbn [arule_wf]. rewrite Hk, (i16_of_z_in _ _ El). reflexivity.
  - intros H; inversion H; subst. apply noop_or_offset_wf. exact Hk.
Qed.

Lemma epilogue_a64_wf b pc r : epilogue_a64 b pc = Some r -> arule_wf r = true.
Proof.
  unfold epilogue_a64, found0. cbv zeta. destruct (word_at (skipn pc b) 0) as [w|]; [|discriminate].
  destruct (a_epi_itype w) as [|k|k|]; [discriminate| | |].
  - repeat match goal with
           | |- context [if ?c then _ else _] => destruct c
           | |- context [match ?x with _ => _ end] => destruct x
           end; try discriminate; intros H; inversion H; reflexivity.
  - repeat match goal with
           | |- context [if ?c then _ else _] => destruct c
           | |- context [match ?x with _ => _ end] => destruct x
           end; try discriminate; intros H; inversion H; reflexivity.
  - destruct (a_epi_loop _ w _ _) as [s|]; [apply a_epi_rule_wf | discriminate].
Qed.

Lemma analysis_a64_wf b pc r : analysis_a64 b pc = Some r -> arule_wf r = true.
Proof.
  unfold analysis_a64. destruct (prologue_a64 b pc) as [r0|] eqn:E.
  - intros H; inversion H; subst. eapply prologue_a64_wf; exact E.
  - apply epilogue_a64_wf.
Qed.

Lemma a64_macho_unwind_wf f first o b : cui_wf arule_wf (a64_macho_unwind f first o b).
Proof.
  unfold a64_macho_unwind. cbv zeta.
  set (kind := N.land (N.shiftr (fn_opcode f) 24) 15).
  assert (Late : cui_wf arule_wf
    (if kind =? 0 then CuiErr
     else if kind =? 2 then
       if first then
         if bits (fn_opcode f) 12 12 * 16 mod W16 =? 0 then CuiRule ANoOp
         else CuiRule (AOffsetSp (bits (fn_opcode f) 12 12 * 16 mod W16 / 16))
       else CuiErr
     else if kind =? 3 then CuiNeedDwarf (N.land (fn_opcode f) 16777215)
     else if kind =? 4 then CuiRule AUseFramePointer
     else CuiErr)).
  { destruct (kind =? 0); [exact I|]. destruct (kind =? 2).
    - destruct first; [|exact I]. destruct (_ =? 0); [reflexivity|]. cbn [cui_wf arule_wf]. unfold W16. lia.
    - destruct (kind =? 3); [exact I|]. destruct (kind =? 4); [reflexivity | exact I]. }
  destruct first; [|exact Late].
  destruct (kind =? 0) eqn:K0; [reflexivity|]. try rewrite K0 in Late.
  destruct b as [b0|]; [|exact Late].
  destruct (analysis_a64 b0 (N.to_nat o)) as [r|] eqn:Ea; [cbn; eapply analysis_a64_wf; exact Ea | exact Late].
Qed.

Lemma a64_stub_helper_rule_wf o : arule_wf (a64_stub_helper_rule o) = true.
Proof. unfold a64_stub_helper_rule. destruct (o <? 12); [reflexivity|]. destruct (o <? 24); reflexivity. Qed.

Theorem a64_macho_rules_wf d rel first r :
  macho_cui arule a64_macho_unwind ANoOp ANoOp a64_stub_helper_rule d rel first = CuiRule r -> arule_wf r = true.
Proof.
  intros H. pose proof (macho_cui_wf arule_wf a64_macho_unwind ANoOp ANoOp a64_stub_helper_rule d rel first
                         a64_macho_unwind_wf eq_refl eq_refl a64_stub_helper_rule_wf) as W.
  rewrite H in W. exact W.
Qed.
