(* WalkProgress.v - C10 for whole walks through the iterator: the caller frames of one walk.
   From the one-step theorems of X86Walk.v / A64Walk.v, by induction over the calls to next():
   the stack pointer after n successful caller steps, no repeated (address, sp, fp) state, a bound
   on the number of frames, termination. Any unwinder, any cache contents, any memory. *)
From FH Require Import Consts Word X86 A64 Unwinder X86Unw A64Unw X86Exec A64Exec X86Walk A64Walk.
From Coq Require Import Lia ZifyBool ZifyN ZifyNat List.
Import ListNotations.
Open Scope N_scope.
Arguments N.add : simpl never.
Arguments N.sub : simpl never.
Arguments N.mul : simpl never.
Arguments N.eqb : simpl never.
Arguments N.ltb : simpl never.
Arguments N.leb : simpl never.

Lemma div2_SS (n : nat) : (S (S n) / 2 = S (n / 2))%nat.
Proof. replace (S (S n)) with (1 * 2 + n)%nat by lia. rewrite Nat.div_add_l by lia. lia. Qed.

(* ====================================================================================== *)
(* generic in the architecture: chains of successful calls to next()                        *)
Section Steps.
Variables rule regs mdata : Type.
Variable exec : rule -> bool -> regs -> mem -> res (option N) * regs.
Variable fallback : rule.
Variable cb : module mdata -> bool -> N -> regs -> mem -> cb_result rule regs * eff.
Notation iter := (Unwinder.iter rule regs).
Notation iter_next := (iter_next rule regs mdata exec fallback cb).
Notation iter_run := (iter_run rule regs mdata exec fallback cb).
Variables (u : unwinder mdata) (m : mem).

(* [steps it n it']: n calls to next(), every one of which yields a frame, lead from it to it' *)
Inductive steps : iter -> nat -> iter -> Prop :=
| steps_0 it : steps it 0 it
| steps_S it f it1 n it2 :
    iter_next u m it = (Ok (Some f), it1) -> steps it1 n it2 -> steps it (S n) it2.

Lemma steps_app it1 a it2 b it3 : steps it1 a it2 -> steps it2 b it3 -> steps it1 (a + b) it3.
Proof. induction 1 as [|? ? ? ? ? H1 H2 IH]; cbn; [auto|]. intros H. econstructor; eauto. Qed.

Lemma steps_snoc it1 n it2 f it3 :
  steps it1 n it2 -> iter_next u m it2 = (Ok (Some f), it3) -> steps it1 (S n) it3.
Proof.
  intros H E. replace (S n) with (n + 1)%nat by lia. eapply steps_app; [exact H|].
  econstructor; [exact E | constructor].
Qed.

Lemma steps_split a : forall it1 b it3,
  steps it1 (a + b) it3 -> exists it2, steps it1 a it2 /\ steps it2 b it3.
Proof.
  induction a as [|a IH]; cbn; intros it1 b it3 H.
  - exists it1. split; [constructor | exact H].
  - inversion H as [|? f it1' ? ? E H']; subst. destruct (IH _ _ _ H') as (it2 & Ha & Hb).
    exists it2. split; [econstructor; eauto | exact Hb].
Qed.

Lemma steps_det it n : forall it1 it2, steps it n it1 -> steps it n it2 -> it1 = it2.
Proof.
  revert it. induction n as [|n IH]; intros it it1 it2 H1 H2.
  - inversion H1; inversion H2; subst; congruence.
  - inversion H1 as [|? f1 a1 ? ? E1 H1']; inversion H2 as [|? f2 a2 ? ? E2 H2']; subst.
    rewrite E1 in E2. inversion E2; subst. eapply IH; eauto.
Qed.

(* the tie to iter_run (the function the correspondence executes): n calls that all yield a frame *)
Lemma steps_iter_run n : forall it it',
  steps it n it' <->
  (snd (iter_run u m it n) = it' /\ Forall (fun r => exists f, r = Ok (Some f)) (fst (iter_run u m it n))).
Proof.
  induction n as [|n IH]; intros it it'; cbn [Unwinder.iter_run].
  - split.
    + intros H; inversion H; subst. split; [reflexivity | constructor].
    + intros [H _]. cbn in H. subst. constructor.
  - destruct (iter_next u m it) as [r it1] eqn:E.
    destruct (Unwinder.iter_run rule regs mdata exec fallback cb u m it1 n) as [rs it2] eqn:E2.
    cbn [fst snd]. split.
    + intros H. inversion H as [|? f a1 ? ? E1 H']; subst. rewrite E in E1. inversion E1; subst.
      apply IH in H'. rewrite E2 in H'. cbn [fst snd] in H'. destruct H' as [H1 H2].
      split; [exact H1 | constructor; [eexists; reflexivity | exact H2]].
    + intros [H1 H2]. inversion H2 as [|? ? [f Hf] H2']; subst.
      econstructor; [exact E|]. apply IH. rewrite E2. cbn [fst snd]. split; [reflexivity | exact H2'].
Qed.

(* a walk either yields n further frames or stops (with Ok(None), an error, ...) before that *)
Lemma steps_or_stop n : forall it,
  (exists it', steps it n it') \/
  (exists k it1 r it2, (k < n)%nat /\ steps it k it1 /\ iter_next u m it1 = (r, it2) /\
                       forall f, r <> Ok (Some f)).
Proof.
  induction n as [|n IH]; intros it.
  - left. exists it. constructor.
  - destruct (iter_next u m it) as [r it1] eqn:E.
    assert (D : (exists f, r = Ok (Some f)) \/ (forall f, r <> Ok (Some f))).
    { destruct r as [[f|]|e|s|]; try (right; intros f H; discriminate). left; eexists; reflexivity. }
    destruct D as [[f ->]|D].
    + destruct (IH it1) as [[it' H]|(k & ia & r & ib & Hk & Hs & En & Hr)].
      * left. exists it'. econstructor; eauto.
      * right. exists (S k), ia, r, ib. repeat split; try assumption; [lia | econstructor; eauto].
    + right. exists 0%nat, it, r, it1. repeat split; try assumption; [lia | constructor].
Qed.

End Steps.

Arguments steps {rule regs mdata} exec fallback cb u m _ _ _.

(* ====================================================================================== *)
(* x86_64                                                                                   *)
Section X86.
Variables (u : xunwinder) (m : mem).
Notation xiter := (Unwinder.iter rule regs).
Notation xsteps := (steps exec_x fallback_rule cb_x86 u m).

(* the iterator stands at a caller frame: it will unwind from the return address the ip register holds *)
Definition caller_x (it : xiter) : Prop :=
  exists x, i_state _ _ it = Unwinding (RA x) /\ ip (i_regs _ _ it) = x.

Definition addr_of (it : xiter) : N :=
  match i_state _ _ it with Unwinding a => faddr_address a | Initial pc => pc | Done => 0 end.
Definition sp_of (it : xiter) : N := sp (i_regs _ _ it).
Definition bp_of (it : xiter) : N := bp (i_regs _ _ it).

(* one successful call in a caller frame, unfolded to unwind_frame *)
Lemma next_caller_x it x f it1 :
  i_state _ _ it = Unwinding (RA x) ->
  iter_next_x u m it = (Ok (Some f), it1) ->
  let o := unwind_frame_x u (i_cache _ _ it) (RA x) (i_regs _ _ it) m in
  exists ra, o_res _ _ o = Ok (Some ra) /\ f = RA ra /\ ra <> 0 /\
             i_state _ _ it1 = Unwinding (RA ra) /\ i_regs _ _ it1 = o_regs _ _ o.
Proof.
  intros Hs. unfold iter_next_x, iter_next. rewrite Hs. cbv zeta.
  fold (unwind_frame_x u (i_cache _ _ it) (RA x) (i_regs _ _ it) m).
  destruct (o_res _ _ (unwind_frame_x u (i_cache _ _ it) (RA x) (i_regs _ _ it) m)) as [[ra|]|e|s|] eqn:E;
    try discriminate.
  unfold from_return_address. destruct (ra =? 0) eqn:E0; [discriminate|].
  intros H; inversion H; subst. exists ra. repeat split; try reflexivity. lia.
Qed.

Lemma caller_step_x it f it1 :
  caller_x it -> iter_next_x u m it = (Ok (Some f), it1) ->
  caller_x it1 /\
  (sp_of it < sp_of it1 \/
   (sp_of it1 = sp_of it /\ 8 <= sp_of it1 /\ m (sp_of it1 - 8) = Some (addr_of it1) /\ addr_of it1 <> addr_of it)).
Proof.
  intros (x & Hs & Hip) E.
  destruct (next_caller_x it x f it1 Hs E) as (ra & Ho & -> & Hnz & Hs1 & Hr1).
  pose proof (caller_step_progress_x86 u (i_cache _ _ it) x (i_regs _ _ it) m ra Ho) as P. cbv zeta in P.
  destruct P as (_ & Hip1 & P). unfold caller_x, sp_of, addr_of. rewrite Hs1, Hr1, Hs. cbn [faddr_address].
  split; [exists ra; split; [reflexivity | exact Hip1]|].
  destruct P as [P|(P1 & P2 & P3 & P4)]; [left; exact P | right].
  repeat split; try assumption. congruence.
Qed.

(* two successive caller steps strictly advance the stack pointer *)
Lemma caller_two_steps_x it f1 it1 f2 it2 :
  caller_x it -> iter_next_x u m it = (Ok (Some f1), it1) -> iter_next_x u m it1 = (Ok (Some f2), it2) ->
  caller_x it2 /\ sp_of it < sp_of it2.
Proof.
  intros C E1 E2. destruct (caller_step_x _ _ _ C E1) as (C1 & P1).
  destruct (caller_step_x _ _ _ C1 E2) as (C2 & P2). split; [exact C2|].
  destruct P1 as [P1|(A1 & B1 & M1 & D1)]; destruct P2 as [P2|(A2 & B2 & M2 & D2)]; try lia.
  exfalso. rewrite A2 in M2. rewrite M1 in M2. inversion M2 as [Heq].
  (* the word below sp is both the address of it1 and of it2: the second step did not move *)
  apply D2. symmetry. exact Heq.
Qed.

(* n successful caller steps: still at a caller frame, sp has not decreased, and has advanced by at
   least n/2 (a step that keeps sp is followed by one that moves it) *)
Theorem walk_sp_x n : forall it it',
  caller_x it -> xsteps it n it' ->
  caller_x it' /\ sp_of it + N.of_nat (n / 2) <= sp_of it'.
Proof.
  induction n as [n IH] using lt_wf_ind. intros it it' C H.
  destruct n as [|[|n]].
  - inversion H; subst. split; [exact C | cbn; lia].
  - inversion H as [|? f a1 ? ? E H']; subst. inversion H'; subst.
    destruct (caller_step_x _ _ _ C E) as (C1 & P). split; [exact C1|]. cbn. lia.
  - inversion H as [|? f1 a1 ? ? E1 H']; subst. inversion H' as [|? f2 a2 ? ? E2 H'']; subst.
    destruct (caller_two_steps_x _ _ _ _ _ C E1 E2) as (C2 & P).
    destruct (IH n ltac:(lia) _ _ C2 H'') as (C' & Q). split; [exact C'|].
    rewrite div2_SS. lia.
Qed.

(* no state of the walk is visited twice: any later caller state differs from an earlier one in
   (address, sp) - hence in (address, sp, fp) *)
Theorem walk_no_repeat_x it i it1 j it2 :
  caller_x it -> xsteps it i it1 -> xsteps it1 (S j) it2 ->
  (addr_of it1, sp_of it1, bp_of it1) <> (addr_of it2, sp_of it2, bp_of it2).
Proof.
  intros C H1 H2 Heq. inversion Heq as [[Ha Hs Hb]].
  destruct (walk_sp_x _ _ _ C H1) as (C1 & _).
  destruct j as [|j].
  - inversion H2 as [|? f a1 ? ? E H']; subst. inversion H'; subst.
    destruct (caller_step_x _ _ _ C1 E) as (_ & P). destruct P as [P|(_ & _ & _ & D)]; [lia | congruence].
  - destruct (walk_sp_x _ _ _ C1 H2) as (_ & Q).
    rewrite div2_SS in Q. lia.
Qed.

(* a walk whose stack pointers stay at or below L has at most 2 (L - sp) + 1 caller frames *)
Theorem walk_bounded_x it n it' L :
  caller_x it -> xsteps it n it' -> sp_of it' <= L -> N.of_nat n <= 2 * (L - sp_of it) + 1.
Proof.
  intros C H HL. destruct (walk_sp_x _ _ _ C H) as (_ & Q).
  pose proof (Nat.div_mod n 2 ltac:(lia)) as D. pose proof (Nat.mod_upper_bound n 2 ltac:(lia)) as B. lia.
Qed.

(* termination: stack pointers are 64-bit values (below L = 2^64 in the implementation; the model's
   registers are unbounded numbers, so the width is a premise here). Within 2 (L - sp) + 2 further
   calls, next() yields something other than a frame: Ok(None) or an error. *)
Theorem walk_terminates_x it L :
  caller_x it ->
  (forall k it', xsteps it k it' -> sp_of it' <= L) ->
  exists k it1 r it2,
    N.of_nat k <= 2 * (L - sp_of it) + 1 /\ xsteps it k it1 /\
    iter_next_x u m it1 = (r, it2) /\ forall f, r <> Ok (Some f).
Proof.
  intros C HL.
  destruct (steps_or_stop _ _ _ exec_x fallback_rule cb_x86 u m (N.to_nat (2 * (L - sp_of it) + 2)) it)
    as [[it' H]|(k & it1 & r & it2 & Hk & Hs & En & Hr)].
  - exfalso. pose proof (walk_bounded_x _ _ _ L C H (HL _ _ H)). lia.
  - exists k, it1, r, it2. repeat split; try assumption. lia.
Qed.

(* the whole walk, from iter_frames(pc, regs): the first call yields pc, the second unwinds the first
   frame; if it yields a frame, the iterator stands at a caller frame *)
Lemma first_frame_ip_x c x rg ra :
  o_res _ _ (unwind_frame_x u c (IP x) rg m) = Ok (Some ra) ->
  ra <> 0 /\ ip (o_regs _ _ (unwind_frame_x u c (IP x) rg m)) = ra.
Proof.
  assert (EX : forall r rgi res rgo, exec ra_addr_checked r true rgi m = (res, rgo) -> res = Ok (Some ra) ->
               ra <> 0 /\ ip rgo = ra).
  { intros r rgi res rgo E ->. pose proof (exec_x_some _ _ _ _ _ _ E) as (H1 & H2 & _). split; assumption. }
  unfold unwind_frame_x, unwind_frame, exec_x. cbn [is_ra negb lookup_address].
  destruct (cache_lookup rule c x (gen _ u)) as [[r|slot] c1].
  - destruct (exec ra_addr_checked r true rg m) as [res rgo] eqn:E. cbn. intros H. eapply EX; eassumption.
  - destruct (find_module mdata (mods _ u) x) as [[[md rel]|]|e|s|] eqn:Efm; cbn; try discriminate.
    + pose proof (cb_x86_shape md true rel rg m) as Hcb.
      destruct (cb_x86 md true rel rg m) as [cr ef]. cbn [fst] in Hcb.
      destruct cr; cbn; try discriminate.
      * destruct (exec ra_addr_checked r true rg m) as [res rgo] eqn:E. cbn. intros H. eapply EX; eassumption.
      * destruct (ra0 =? 0) eqn:E0; [discriminate|]. intros H; inversion H; subst.
        destruct Hcb as (H1 & _). split; [lia | exact H1].
      * subst rg0. destruct (exec ra_addr_checked fallback_rule true rg m) as [res rgo] eqn:E. cbn. intros H. eapply EX; eassumption.
      * subst rg0. destruct (exec ra_addr_checked fallback_rule true rg m) as [res rgo] eqn:E. cbn. intros H. eapply EX; eassumption.
    + destruct (exec ra_addr_checked fallback_rule true rg m) as [res rgo] eqn:E. cbn. intros H. eapply EX; eassumption.
Qed.

Theorem walk_reaches_caller_x pc rg c it2 :
  xsteps (iter_new _ _ pc rg c) 2 it2 -> caller_x it2.
Proof.
  intros H. inversion H as [|? f1 a1 ? ? E1 H']; subst. inversion H' as [|? f2 a2 ? ? E2 H'']; subst.
  inversion H''; subst. clear H H' H''.
  unfold iter_next_x, iter_next, iter_new in E1. cbn in E1. inversion E1; subst. clear E1.
  unfold iter_next_x, iter_next in E2. cbn [i_state i_regs i_cache] in E2. cbv zeta in E2.
  fold (unwind_frame_x u c (IP pc) rg m) in E2.
  destruct (o_res _ _ (unwind_frame_x u c (IP pc) rg m)) as [[ra|]|e|s|] eqn:E; try discriminate.
  unfold from_return_address in E2. destruct (ra =? 0) eqn:E0; [discriminate|].
  inversion E2; subst. destruct (first_frame_ip_x c pc rg ra E) as (_ & Hip).
  exists ra. split; [reflexivity | exact Hip].
Qed.

End X86.

(* ====================================================================================== *)
(* aarch64: every successful caller step strictly increases sp                              *)
Section A64.
Variables (u : aunwinder) (m : mem).
Notation aiter := (Unwinder.iter arule aregs).
Notation asteps := (steps aexec afallback_rule cb_a64 u m).

Definition caller_a (it : aiter) : Prop := exists x, i_state _ _ it = Unwinding (RA x).
Definition asp_of (it : aiter) : N := asp (i_regs _ _ it).
Definition afp_of (it : aiter) : N := afp (i_regs _ _ it).
Definition aaddr_of (it : aiter) : N :=
  match i_state _ _ it with Unwinding a => faddr_address a | Initial pc => pc | Done => 0 end.

Lemma caller_step_a it f it1 :
  caller_a it -> iter_next_a u m it = (Ok (Some f), it1) -> caller_a it1 /\ asp_of it < asp_of it1.
Proof.
  intros (x & Hs). unfold iter_next_a, iter_next. rewrite Hs. cbv zeta.
  fold (unwind_frame_a u (i_cache _ _ it) (RA x) (i_regs _ _ it) m).
  destruct (o_res _ _ (unwind_frame_a u (i_cache _ _ it) (RA x) (i_regs _ _ it) m)) as [[ra|]|e|s|] eqn:E;
    try discriminate.
  unfold from_return_address. destruct (ra =? 0) eqn:E0; [discriminate|].
  intros H; inversion H; subst.
  destruct (caller_step_progress_a64 u (i_cache _ _ it) x (i_regs _ _ it) m ra E) as (_ & P).
  split; [exists ra; reflexivity | exact P].
Qed.

Theorem walk_sp_a n : forall it it',
  caller_a it -> asteps it n it' -> caller_a it' /\ asp_of it + N.of_nat n <= asp_of it'.
Proof.
  induction n as [|n IH]; intros it it' C H.
  - inversion H; subst. split; [exact C | lia].
  - inversion H as [|? f a1 ? ? E H']; subst. destruct (caller_step_a _ _ _ C E) as (C1 & P).
    destruct (IH _ _ C1 H') as (C' & Q). split; [exact C' | lia].
Qed.

Theorem walk_no_repeat_a it i it1 j it2 :
  caller_a it -> asteps it i it1 -> asteps it1 (S j) it2 ->
  (aaddr_of it1, asp_of it1, afp_of it1) <> (aaddr_of it2, asp_of it2, afp_of it2).
Proof.
  intros C H1 H2 Heq. inversion Heq as [[Ha Hs Hb]].
  destruct (walk_sp_a _ _ _ C H1) as (C1 & _). destruct (walk_sp_a _ _ _ C1 H2) as (_ & Q). lia.
Qed.

Theorem walk_bounded_a it n it' L :
  caller_a it -> asteps it n it' -> asp_of it' <= L -> N.of_nat n <= L - asp_of it.
Proof. intros C H HL. destruct (walk_sp_a _ _ _ C H) as (_ & Q). lia. Qed.

Theorem walk_terminates_a it L :
  caller_a it ->
  (forall k it', asteps it k it' -> asp_of it' <= L) ->
  exists k it1 r it2,
    N.of_nat k <= L - asp_of it /\ asteps it k it1 /\
    iter_next_a u m it1 = (r, it2) /\ forall f, r <> Ok (Some f).
Proof.
  intros C HL.
  destruct (steps_or_stop _ _ _ aexec afallback_rule cb_a64 u m (N.to_nat (L - asp_of it + 1)) it)
    as [[it' H]|(k & it1 & r & it2 & Hk & Hs & En & Hr)].
  - exfalso. pose proof (walk_bounded_a _ _ _ L C H (HL _ _ H)). lia.
  - exists k, it1, r, it2. repeat split; try assumption. lia.
Qed.

Theorem walk_reaches_caller_a pc rg c it2 :
  asteps (iter_new _ _ pc rg c) 2 it2 -> caller_a it2.
Proof.
  intros H. inversion H as [|? f1 a1 ? ? E1 H']; subst. inversion H' as [|? f2 a2 ? ? E2 H'']; subst.
  inversion H''; subst. clear H H' H''.
  unfold iter_next_a, iter_next, iter_new in E1. cbn in E1. inversion E1; subst. clear E1.
  unfold iter_next_a, iter_next in E2. cbn [i_state i_regs i_cache] in E2. cbv zeta in E2.
  destruct (o_res _ _ _) as [[ra|]|e|s|]; try discriminate.
  unfold from_return_address in E2. destruct (ra =? 0) eqn:E0; [discriminate|].
  inversion E2; subst. exists ra. reflexivity.
Qed.

End A64.
