(* X86Walk.v - x86_64, unwind_frame level: progress (C10), truncation (C11), fallback decisions (C04). *)
From FH Require Import Consts Word X86 DwarfRow DwarfSpec Cfi Unwinder X86Dwarf DwarfCb Pe X86Unw
  WordFacts X86Exec HistFacts StaticFacts CfiFacts ModFacts.
From Coq Require Import Lia ZifyBool ZifyN.
Open Scope N_scope.
Arguments N.add : simpl never.
Arguments N.sub : simpl never.
Arguments N.mul : simpl never.
Arguments N.eqb : simpl never.
Arguments N.ltb : simpl never.
Arguments N.leb : simpl never.
Arguments exec : simpl never.
Arguments cb_x86 : simpl never.
Arguments find_module : simpl never.
Arguments cache_lookup : simpl never.

(* ---------- shape of the callback's answers ---------- *)
Lemma generic_x86_shape rw first rg m :
  match generic_x86 rw first rg m with
  | CbUncacheable ra rg' =>
      ip rg' = ra /\ ~ (sp rg' = sp rg /\ ra = ip rg) /\ (first = false -> sp rg < sp rg')
  | CbErrV rg1 => rg1 = rg
  | _ => False
  end.
Proof.
  unfold generic_x86. destruct (eval_cfa_rule (x86_getreg rg) (r_cfa rw)) as [cfa|]; [|reflexivity].
  match goal with |- context[match ?o with Some _ => _ | None => CbErrV rg end] => destruct o as [ra|] end; [|reflexivity].
  destruct ((cfa =? sp rg) && (ra =? ip rg)) eqn:Ea; [reflexivity|].
  destruct (negb first && (cfa <=? sp rg)) eqn:Eb; [reflexivity|].
  rewrite ip_generic, sp_generic. split; [reflexivity|]. split; [lia|]. intros ->. cbn [negb andb] in Eb. lia.
Qed.

(* PE: an uncacheable step passed uncacheable_step's progress checks; a failed step hands back the
   entry registers (both since the repairs of S9b / S9c) *)
Definition unc_shape (first : bool) (rg : regs) (cr : cb_result rule regs) : Prop :=
  match cr with
  | CbUncacheable ra rg' =>
      ip rg' = ra /\ ~ (sp rg' = sp rg /\ ra = ip rg) /\ (first = false -> sp rg < sp rg')
  | _ => True
  end.

Lemma pe_uncacheable_shape first rg ra rg' : unc_shape first rg (pe_uncacheable first rg ra rg').
Proof.
  unfold pe_uncacheable. destruct ((sp rg' =? sp rg) && (ra =? ip rg)) eqn:Ea; [exact I|].
  destruct (negb first && (sp rg' <=? sp rg)) eqn:Eb; [exact I|].
  cbn [unc_shape]. split; [reflexivity|]. split.
  - change (sp (set_ip rg' ra)) with (sp rg'). lia.
  - intros ->. change (sp (set_ip rg' ra)) with (sp rg'). cbn [negb andb] in Eb. lia.
Qed.

Lemma final_pop_shape c first rg rg1 m : unc_shape first rg (final_pop c first rg rg1 m).
Proof.
  unfold final_pop. destruct (m (sp rg1)); [|exact I].
  destruct (sp rg1 + 8 <? W64); [apply pe_uncacheable_shape|]. destruct c; exact I.
Qed.

Lemma pe_step_raw_shape pe address first rg m : unc_shape first rg (fst (pe_step_raw true pe address first rg m)).
Proof.
  unfold pe_step_raw.
  destruct (pe_lookup (pe_funcs pe) address None) as [f|]; [|exact I].
  destruct (ui_at (pe_uinfos pe) (rt_uinfo f)) as [u0| |]; try exact I.
  assert (TAIL : unc_shape first rg (fst
    match chain_infos CHAIN_LIMIT pe u0 with
    | Hang => (CbHang, pe_eff_alloc)
    | Ok None => (CbErr rg, pe_eff_alloc)
    | Ok (Some infos) =>
      if address <? rt_begin f then (CbPanic S_pe_own_sub, pe_eff_alloc)
      else
        let ops := all_ops (address - rt_begin f) infos in
        match rule_for_sequence (map oop_of_uop ops) with
        | Some (Ok r) => (CbRule r, pe_eff_alloc)
        | Some (Panic s) => (CbPanic s, pe_eff_alloc)
        | Some _ => (CbHang, pe_eff_alloc)
        | None =>
          match run_ops_pe u0 ops rg m with
          | OpCont rg' => (final_pop true first rg rg' m, pe_eff_alloc)
          | OpBreak ra rg' => (pe_uncacheable first rg ra rg', pe_eff_alloc)
          | OpNoStack rg' => (CbErrV rg', pe_eff_alloc)
          | OpPanic => (CbPanic S_pe_dep, pe_eff_alloc)
          end
        end
    | _ => (CbHang, pe_eff_alloc)
    end)).
  { destruct (chain_infos CHAIN_LIMIT pe u0) as [[infos|]|e|s|]; try exact I.
    destruct (address <? rt_begin f); [exact I|]. cbv zeta.
    destruct (rule_for_sequence (map oop_of_uop (all_ops (address - rt_begin f) infos))) as [[r|e|s|]|]; try exact I.
    destruct (run_ops_pe u0 (all_ops (address - rt_begin f) infos) rg m); cbn [fst]; try exact I.
    - apply final_pop_shape.
    - apply pe_uncacheable_shape. }
  destruct first; [|exact TAIL].
  destruct (rt_end f <? address); [exact I|].
  destruct (pe_text pe) as [[[lo hi] bytes]|]; [|exact I].
  destruct ((lo <=? address) && (address <? hi)); [|exact I].
  destruct (Nat.ltb (length bytes) (N.to_nat (address - lo))); [exact I|]. cbv zeta.
  destruct (Nat.ltb _ _); [exact I|].
  destruct (local_jump _ address (rt_begin f) (rt_end f)); [exact TAIL|].
  destruct (eparse_sequence _ (ui_fpreg u0)) as [insns|]; [|exact TAIL].
  destruct (rule_for_sequence (map oop_of_einsn insns)) as [[r|e|s|]|]; try exact I.
  destruct (run_epilog true u0 insns rg m); cbn [fst]; try exact I.
  - apply final_pop_shape.
  - apply pe_uncacheable_shape.
Qed.

Lemma cb_x86_shape md first rel rg m :
  match fst (cb_x86 md first rel rg m) with
  | CbUncacheable ra rg' =>
      ip rg' = ra /\ ~ (sp rg' = sp rg /\ ra = ip rg) /\ (first = false -> sp rg < sp rg')
  | CbErr rg1 | CbErrV rg1 => rg1 = rg
  | _ => True
  end.
Proof.
  assert (W : forall f svma,
    match with_fde rule regs row_step_x86 uncovered_rule_x86 f svma first rg m with
    | CbUncacheable ra rg' =>
        ip rg' = ra /\ ~ (sp rg' = sp rg /\ ra = ip rg) /\ (first = false -> sp rg < sp rg')
    | CbErr rg1 | CbErrV rg1 => rg1 = rg
    | _ => True end).
  { intros f svma. unfold with_fde. destruct (row_for_address f svma) as [rw|]; [|exact I].
    unfold row_step_x86. destruct (translate_x86 rw); [exact I|].
    pose proof (generic_x86_shape rw first rg m) as H.
    destruct (generic_x86 rw first rg m); auto; contradiction. }
  unfold cb_x86. destruct (mdat md) as [|p sec|pe|d]; [reflexivity| | |].
  2:{ pose proof (pe_step_raw_shape pe rel first rg m) as H. unfold pe_step. cbn [fst].
      destruct (fst (pe_step_raw true pe rel first rg m)); cbn [pe_restore unc_shape] in *; auto. }
  2:{ unfold MachoCb.cb_macho.
      destruct (Macho.macho_cui _ _ _ _ _ d rel first); try reflexivity.
      destruct (Macho.m_eh d) as [l|]; [|reflexivity].
      destruct (MachoCb.eh_find l fde_offset) as [f|]; [|reflexivity].
      destruct (add64p S_dwarf_svma_add (base_svma md) rel); cbn [fst]; try exact I. apply W. }
  unfold cb_dwarf.
  destruct p.
  - unfold add64p. destruct (base_svma md + rel <? W64); cbn; [|reflexivity].
    destruct (hdr_lookup sec (base_svma md + rel)); cbn; [apply W | reflexivity].
  - destruct (index_build sec (base_svma md)); cbn; [|reflexivity].
    destruct (index_lookup true l rel); cbn; [|reflexivity].
    unfold add64p. destruct (base_svma md + rel <? W64); cbn; [apply W | exact I].
  - destruct (index_build sec (base_svma md)); cbn; [|reflexivity].
    destruct (index_lookup true l rel); cbn; [|reflexivity].
    unfold add64p. destruct (base_svma md + rel <? W64); cbn; [apply W | exact I].
Qed.

(* ---------- C10: every successful caller-frame step ---------- *)
Theorem caller_step_progress_x86 u c x rg m ra :
  o_res _ _ (unwind_frame_x u c (RA x) rg m) = Ok (Some ra) ->
  let rg' := o_regs _ _ (unwind_frame_x u c (RA x) rg m) in
  ra <> 0 /\ ip rg' = ra /\
  (sp rg < sp rg' \/ (sp rg' = sp rg /\ 8 <= sp rg' /\ m (sp rg' - 8) = Some ra /\ ra <> ip rg)).
Proof.
  assert (EX : forall r rgi res rgo, exec ra_addr_checked r false rgi m = (res, rgo) -> res = Ok (Some ra) ->
               ra <> 0 /\ ip rgo = ra /\
               (sp rgi < sp rgo \/ (sp rgo = sp rgi /\ 8 <= sp rgo /\ m (sp rgo - 8) = Some ra /\ ra <> ip rgi))).
  { intros r rgi res rgo E ->. pose proof (exec_x_some _ _ _ _ _ _ E) as (H1 & H2 & H3 & H4).
    pose proof (exec_x_some_mem _ _ _ _ _ _ E) as (H5 & H6).
    repeat split; try assumption.
    destruct (N.eq_dec (sp rgo) (sp rgi)) as [Heq|Hne]; [right | left; lia].
    repeat split; try assumption. intros ->. apply H4. split; [exact Heq | reflexivity]. }
  cbv zeta. unfold unwind_frame_x, unwind_frame, exec_x. cbn [is_ra negb].
  destruct (lookup_address (RA x)) as [a| | |]; cbn; try discriminate.
  destruct (cache_lookup rule c a (gen _ u)) as [[r|slot] c1].
  - destruct (exec ra_addr_checked r false rg m) as [res rgo] eqn:E. cbn. intros H. eapply EX; eassumption.
  - destruct (find_module mdata (mods _ u) a) as [[[md rel]|]|e|s|] eqn:Efm; cbn; try discriminate.
    + pose proof (cb_x86_shape md false rel rg m) as Hcb.
      destruct (cb_x86 md false rel rg m) as [cr ef]. cbn [fst] in Hcb.
      destruct cr; cbn; try discriminate.
      * destruct (exec ra_addr_checked r false rg m) as [res rgo] eqn:E. cbn. intros H. eapply EX; eassumption.
      * destruct (ra0 =? 0) eqn:E0; [discriminate|]. intros H; inversion H; subst.
        destruct Hcb as (H1 & H2 & H3). repeat split; [lia | exact H1 | left; apply H3; reflexivity].
      * subst rg0. destruct (exec ra_addr_checked fallback_rule false rg m) as [res rgo] eqn:E. cbn. intros H. eapply EX; eassumption.
      * subst rg0. destruct (exec ra_addr_checked fallback_rule false rg m) as [res rgo] eqn:E. cbn. intros H. eapply EX; eassumption.
    + destruct (exec ra_addr_checked fallback_rule false rg m) as [res rgo] eqn:E. cbn. intros H. eapply EX; eassumption.
Qed.

(* two consecutive successful caller steps cannot both leave the stack pointer unchanged *)
Theorem two_caller_steps_advance_x86 u c1 c2 x rg m ra1 ra2 :
  ip rg = x ->
  o_res _ _ (unwind_frame_x u c1 (RA x) rg m) = Ok (Some ra1) ->
  let rg1 := o_regs _ _ (unwind_frame_x u c1 (RA x) rg m) in
  o_res _ _ (unwind_frame_x u c2 (RA ra1) rg1 m) = Ok (Some ra2) ->
  let rg2 := o_regs _ _ (unwind_frame_x u c2 (RA ra1) rg1 m) in
  sp rg < sp rg2.
Proof.
  intros Hip H1 rg1 H2 rg2.
  pose proof (caller_step_progress_x86 u c1 x rg m ra1 H1) as HH1. cbv zeta in HH1. destruct HH1 as (N1 & I1 & P1).
  pose proof (caller_step_progress_x86 u c2 ra1 rg1 m ra2 H2) as HH2. cbv zeta in HH2. destruct HH2 as (N2 & I2 & P2).
  fold rg1 in I1, P1. fold rg2 in I2, P2.
  destruct P1 as [P1|(E1 & L1 & M1 & D1)]; destruct P2 as [P2|(E2 & L2 & M2 & D2)]; try lia.
  exfalso. rewrite E2 in M2. rewrite M1 in M2. inversion M2 as [Heq]. apply D2. rewrite <- Heq. symmetry. exact I1.
Qed.

(* a single successful caller step never reproduces its own state *)
Theorem caller_step_no_self_loop_x86 u c x rg m ra :
  ip rg = x ->
  o_res _ _ (unwind_frame_x u c (RA x) rg m) = Ok (Some ra) ->
  let rg' := o_regs _ _ (unwind_frame_x u c (RA x) rg m) in
  ~ (ra = x /\ sp rg' = sp rg).
Proof.
  intros Hip H rg' [Hra Hsp].
  pose proof (caller_step_progress_x86 u c x rg m ra H) as HH1. cbv zeta in HH1. destruct HH1 as (N1 & I1 & P1). fold rg' in I1, P1.
  destruct P1 as [P1|(E1 & L1 & M1 & D1)]; [lia|]. apply D1. congruence.
Qed.

(* ---------- C04: which rule runs when no unwind information applies ---------- *)
Lemma fresh_lookup_miss x g : exists c1, cache_lookup rule (cache_new rule) x g = (Miss rule (x mod CACHE_ENTRY_COUNT), c1).
Proof. apply cache_new_lookup. Qed.

(* no registered module contains the address -> frame pointer rule *)
Theorem no_module_uses_fp_x86 u a x rg m :
  lookup_address a = Ok x -> find_module mdata (mods _ u) x = Ok None ->
  let o := unwind_frame_x u (cache_new rule) a rg m in
  (o_res _ _ o, o_regs _ _ o) = exec_x UseFramePointer (negb (is_ra a)) rg m.
Proof.
  intros Hx Hf. unfold unwind_frame_x, unwind_frame. rewrite Hx.
  destruct (fresh_lookup_miss x (gen _ u)) as [c1 Hl]. rewrite Hl, Hf.
  change fallback_rule with UseFramePointer.
  destruct (exec_x UseFramePointer (negb (is_ra a)) rg m). reflexivity.
Qed.

(* the module has no usable unwind data (none, or the index could not be built) -> frame pointer *)
Theorem empty_module_uses_fp_x86 u a x rg m md rel :
  lookup_address a = Ok x -> find_module mdata (mods _ u) x = Ok (Some (md, rel)) ->
  (mdat md = MNone \/ exists p sec, mdat md = MDwarf p sec /\ p <> PHdr /\ index_build sec (base_svma md) = None) ->
  let o := unwind_frame_x u (cache_new rule) a rg m in
  (o_res _ _ o, o_regs _ _ o) = exec_x UseFramePointer (negb (is_ra a)) rg m.
Proof.
  intros Hx Hf Hd. unfold unwind_frame_x, unwind_frame. rewrite Hx.
  destruct (fresh_lookup_miss x (gen _ u)) as [c1 Hl]. rewrite Hl, Hf.
  assert (Hcb : fst (cb_x86 md (negb (is_ra a)) rel rg m) = CbErr rg).
  { unfold cb_x86. destruct Hd as [->|(p & sec & -> & Hp & Hi)]; [reflexivity|].
    unfold cb_dwarf. destruct p; [contradiction | |]; rewrite Hi; reflexivity. }
  destruct (cb_x86 md (negb (is_ra a)) rel rg m) as [cr ef]. cbn [fst] in Hcb. subst cr.
  change fallback_rule with UseFramePointer.
  destruct (exec_x UseFramePointer (negb (is_ra a)) rg m). reflexivity.
Qed.

(* a DWARF module none of whose FDEs covers the address: leaf for a first frame, frame pointer
   for a caller frame - in every presentation *)
Theorem uncovered_address_x86 u a x rg m md rel p sec :
  lookup_address a = Ok x -> find_module mdata (mods _ u) x = Ok (Some (md, rel)) ->
  mdat md = MDwarf p sec -> fdes_wf sec (base_svma md) -> sec <> [] -> base_svma md + rel < W64 ->
  (forall g, In g sec -> ~ covers fde f_start f_end g (base_svma md + rel)) ->
  let o := unwind_frame_x u (cache_new rule) a rg m in
  (o_res _ _ o, o_regs _ _ o) =
    exec_x (if is_ra a then UseFramePointer else JustReturn) (negb (is_ra a)) rg m.
Proof.
  intros Hx Hf Hd Hwf Hne Hrel Hnc. unfold unwind_frame_x, unwind_frame. rewrite Hx.
  destruct (fresh_lookup_miss x (gen _ u)) as [c1 Hl]. rewrite Hl, Hf.
  assert (Hcb : fst (cb_x86 md (negb (is_ra a)) rel rg m) = CbRule uncovered_rule_x86).
  { unfold cb_x86. rewrite Hd.
    rewrite (presentations_agree rule regs row_step_x86 uncovered_rule_x86 sec (base_svma md)
               (negb (is_ra a)) rel rg m p PHdr Hwf Hrel).
    unfold cb_dwarf. rewrite add64p_nopanic by exact Hrel.
    destruct (hdr_lookup_spec sec (base_svma md) (base_svma md + rel) Hwf) as (_ & Hn & _).
    specialize (Hn Hnc). destruct (hdr_lookup sec (base_svma md + rel)) as [r|]; [|contradiction].
    cbn [fst]. apply with_fde_noncover. exact Hn. }
  destruct (cb_x86 md (negb (is_ra a)) rel rg m) as [cr ef]. cbn [fst] in Hcb. subst cr.
  unfold uncovered_rule_x86, exec_x.
  destruct (is_ra a); cbn [negb].
  - rewrite <- uncovered_caller_is_fp.
    destruct (exec ra_addr_checked JustReturnIfFirstFrameOtherwiseFp false rg m). reflexivity.
  - rewrite <- uncovered_first_is_leaf.
    destruct (exec ra_addr_checked JustReturnIfFirstFrameOtherwiseFp true rg m). reflexivity.
Qed.

(* PE convention: an address without a function-table entry is a frameless leaf - in every frame *)
Theorem no_pdata_entry_is_leaf_x86 u a x rg m md rel pe :
  lookup_address a = Ok x -> find_module mdata (mods _ u) x = Ok (Some (md, rel)) ->
  mdat md = MPe pe -> pe_lookup (pe_funcs pe) rel None = None ->
  let o := unwind_frame_x u (cache_new rule) a rg m in
  (o_res _ _ o, o_regs _ _ o) = exec_x JustReturn (negb (is_ra a)) rg m.
Proof.
  intros Hx Hf Hd Hl. unfold unwind_frame_x, unwind_frame. rewrite Hx.
  destruct (fresh_lookup_miss x (gen _ u)) as [c1 Hc]. rewrite Hc, Hf.
  unfold cb_x86. rewrite Hd. unfold pe_step, pe_step_raw. rewrite Hl. cbn [fst snd pe_restore].
  destruct (exec_x JustReturn (negb (is_ra a)) rg m). reflexivity.
Qed.
