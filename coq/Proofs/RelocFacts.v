(* RelocFacts.v - C08, module relocation: framehop's computation depends on a code address only
   through (the module containing it, the address relative to the module's base). Mapping the
   same modules elsewhere (range and base moved together, per-module deltas) and moving the address
   along gives the same callback inputs, hence the same step. *)
From FH Require Import Consts Word X86 A64 Unwinder X86Unw A64Unw WordFacts ModFacts HistFacts.
From Coq Require Import Lia ZifyBool ZifyN.
Open Scope N_scope.

Section Reloc.
Variable mdata : Type.
Notation module := (module mdata).

(* lookup is determined by containment (converse of find_module_spec) *)
Lemma find_module_of_contains l a md :
  sd mdata l -> In md l -> contains mdata md a -> base_avma md <= a -> a - base_avma md < W32 ->
  find_module mdata l a = Ok (Some (md, a - base_avma md)).
Proof.
  intros Hsd Hin Hc Hb Hr. pose proof (find_module_spec mdata l a Hsd) as Hs.
  destruct (find_module mdata l a) as [[[m rel]|]|e|s|]; try contradiction.
  - destruct Hs as (Hin' & Hc' & Hb' & Hrel & Hlt).
    assert (m = md) by (eapply contains_unique; eassumption). subst. reflexivity.
  - exfalso. destruct (Hs md Hin Hc); lia.
Qed.

(* the same module mapped [d] bytes higher *)
Definition moved (d : N) (md : module) : module :=
  mkmod (mstart md + d) (mend md + d) (base_avma md + d) (base_svma md) (mdat md).

(* [l'] registers images of the modules of [l] (each moved by its own delta) *)
Theorem find_module_relocated l l' a md d rel :
  sd mdata l -> sd mdata l' ->
  find_module mdata l a = Ok (Some (md, rel)) -> In (moved d md) l' ->
  find_module mdata l' (a + d) = Ok (Some (moved d md, rel)).
Proof.
  intros Hsd Hsd' Hf Hin'. pose proof (find_module_spec mdata l a Hsd) as Hs. rewrite Hf in Hs.
  destruct Hs as (Hin & Hc & Hb & -> & Hlt). unfold contains in Hc.
  rewrite (find_module_of_contains l' (a + d) (moved d md) Hsd' Hin').
  - cbn. f_equal. f_equal. f_equal. lia.
  - unfold contains. cbn. lia.
  - cbn. lia.
  - cbn. replace (a + d - (base_avma md + d)) with (a - base_avma md) by lia. exact Hlt.
Qed.

(* an address no module contains stays uncovered when every module of l' is the image of one of l
   and the address moves with none of them ... stated for the uniform shift *)
Theorem find_module_none_uniform l a d :
  sd mdata l -> find_module mdata l a = Ok None ->
  (forall m, In m l -> contains mdata m a -> False) ->
  forall l', sd mdata l' -> (forall m', In m' l' -> exists m, In m l /\ m' = moved d m) ->
  match find_module mdata l' (a + d) with
  | Ok None => True
  | Ok (Some _) => False
  | _ => False
  end.
Proof.
  intros Hsd Hf Hnc l' Hsd' Himg.
  pose proof (find_module_spec mdata l' (a + d) Hsd') as Hs.
  destruct (find_module mdata l' (a + d)) as [[[m' rel]|]|e|s|]; try contradiction; [|exact I].
  destruct Hs as (Hin' & Hc' & _). destruct (Himg m' Hin') as (m & Hin & ->).
  apply (Hnc m Hin). unfold contains in *. cbn in Hc'. lia.
Qed.
End Reloc.

(* the per-module callback never looks at where the module is mapped *)
Lemma cb_x86_moved d md first rel rg m : cb_x86 (moved mdata d md) first rel rg m = cb_x86 md first rel rg m.
Proof. reflexivity. Qed.

Lemma cb_a64_moved d md first rel rg m : cb_a64 (moved amdata d md) first rel rg m = cb_a64 md first rel rg m.
Proof. reflexivity. Qed.

(* hence one unwinding step at the moved address, on the relocated unwinder, returns exactly the
   same result and registers as the original step (the return address comes from the stack and the
   stack is the same): frames differ only by the load-address delta of their modules *)
Theorem unwind_frame_relocated_x86 (u u' : xunwinder) a a' x d md rel rg m :
  sd mdata (mods _ u) -> sd mdata (mods _ u') ->
  lookup_address a = Ok x -> lookup_address a' = Ok (x + d) -> is_ra a' = is_ra a ->
  find_module mdata (mods _ u) x = Ok (Some (md, rel)) -> In (moved mdata d md) (mods _ u') ->
  let o := unwind_frame_x u (cache_new rule) a rg m in
  let o' := unwind_frame_x u' (cache_new rule) a' rg m in
  o_res _ _ o' = o_res _ _ o /\ o_regs _ _ o' = o_regs _ _ o.
Proof.
  intros Hsd Hsd' Hx Hx' Hk Hf Hin. cbv zeta. unfold unwind_frame_x, unwind_frame.
  rewrite Hx, Hx', Hk.
  destruct (cache_new_lookup rule x (gen _ u)) as [c1 Hl]. rewrite Hl.
  destruct (cache_new_lookup rule (x + d) (gen _ u')) as [c1' Hl']. rewrite Hl'.
  rewrite Hf. rewrite (find_module_relocated mdata _ _ x md d rel Hsd Hsd' Hf Hin).
  rewrite cb_x86_moved.
  destruct (cb_x86 md (negb (is_ra a)) rel rg m) as [cr ef]. destruct cr; try (split; reflexivity).
  - destruct (exec_x r (negb (is_ra a)) rg m). split; reflexivity.
  - destruct (exec_x fallback_rule (negb (is_ra a)) rg0 m). split; reflexivity.
  - destruct (exec_x fallback_rule (negb (is_ra a)) rg0 m). split; reflexivity.
Qed.

Theorem unwind_frame_relocated_a64 (u u' : aunwinder) a a' x d md rel rg m :
  sd amdata (mods _ u) -> sd amdata (mods _ u') ->
  lookup_address a = Ok x -> lookup_address a' = Ok (x + d) -> is_ra a' = is_ra a ->
  find_module amdata (mods _ u) x = Ok (Some (md, rel)) -> In (moved amdata d md) (mods _ u') ->
  let o := unwind_frame_a u (cache_new arule) a rg m in
  let o' := unwind_frame_a u' (cache_new arule) a' rg m in
  o_res _ _ o' = o_res _ _ o /\ o_regs _ _ o' = o_regs _ _ o.
Proof.
  intros Hsd Hsd' Hx Hx' Hk Hf Hin. cbv zeta. unfold unwind_frame_a, unwind_frame.
  rewrite Hx, Hx', Hk.
  destruct (cache_new_lookup arule x (gen _ u)) as [c1 Hl]. rewrite Hl.
  destruct (cache_new_lookup arule (x + d) (gen _ u')) as [c1' Hl']. rewrite Hl'.
  rewrite Hf. rewrite (find_module_relocated amdata _ _ x md d rel Hsd Hsd' Hf Hin).
  rewrite cb_a64_moved.
  destruct (cb_a64 md (negb (is_ra a)) rel rg m) as [cr ef]. destruct cr; try (split; reflexivity).
  - destruct (aexec r (negb (is_ra a)) rg m). split; reflexivity.
  - destruct (aexec afallback_rule (negb (is_ra a)) rg0 m). split; reflexivity.
  - destruct (aexec afallback_rule (negb (is_ra a)) rg0 m). split; reflexivity.
Qed.
