(* AtomicFacts.v - C18: with a single read-modify-write step per draw, all values handed out in any
   interleaving are pairwise distinct while at most 65536 have been drawn. *)
From FH Require Import Consts Word Atomic.
From Coq Require Import Lia ZifyBool ZifyN ZifyNat.
Open Scope N_scope.
Ltac Zify.zify_post_hook ::= Z.div_mod_to_equations.

(* the source's draw is one fetch_add(1) on a 16-bit cell (checked against the regenerated
   Consts.v: if next_global_modules_generation() stops being a single RMW this fails) *)
Lemma src_draw_is_rmw : SRC_DRAW_STEPS = [FetchAdd 1].
Proof. reflexivity. Qed.

Lemma gen_width : GEN_WIDTH = 16. Proof. reflexivity. Qed.

Definition all_rmw (t : thread) : Prop := Forall (fun s => s = FetchAdd 1) (steps t).

Lemma draws_of_rmw n : Forall (fun s => s = FetchAdd 1) (draws_of n).
Proof.
  induction n as [|n IH]; cbn [draws_of]; [constructor|].
  rewrite src_draw_is_rmw. cbn. constructor; auto.
Qed.

(* the j-th value handed out is cell + j (mod 2^16), whatever the schedule *)
Lemma run_sched_rmw sched : forall cell ts,
  cell < W16 -> (forall i, all_rmw (ts i)) ->
  forall j v, nth_error (run_sched cell ts sched) j = Some v -> v = (cell + N.of_nat j) mod W16.
Proof.
  induction sched as [|i rest IH]; intros cell ts Hc Hall j v; cbn [run_sched].
  - destruct j; discriminate.
  - unfold step1. pose proof (Hall i) as Hi. unfold all_rmw in Hi.
    destruct (steps (ts i)) as [|s r] eqn:Es.
    + apply IH; assumption.
    + inversion Hi as [|? ? Hs Hr]; subst.
      assert (Hall' : forall j, all_rmw (tupd ts i (mkthread r (loaded (ts i))) j)).
      { intros j'. unfold tupd. destruct (j' =? i); [exact Hr | apply Hall]. }
      destruct j as [|j]; cbn [nth_error].
      * intros H; inversion H; subst. unfold W16 in *. lia.
      * intros H. apply (IH ((cell + 1) mod W16) _) in H; [| unfold W16; lia | exact Hall'].
        subst v. unfold W16 in *. lia.
Qed.

Theorem rmw_distinct sched cell ts :
  cell < W16 -> (forall i, all_rmw (ts i)) ->
  N.of_nat (length (run_sched cell ts sched)) <= 65536 ->
  NoDup (run_sched cell ts sched).
Proof.
  intros Hc Hall Hlen. apply NoDup_nth_error. intros i j Hi Hij.
  destruct (nth_error (run_sched cell ts sched) i) as [v|] eqn:Ei; [|apply nth_error_None in Ei; lia].
  symmetry in Hij.
  assert (Hj : (j < length (run_sched cell ts sched))%nat) by (apply nth_error_Some; congruence).
  apply (run_sched_rmw sched cell ts Hc Hall) in Ei.
  apply (run_sched_rmw sched cell ts Hc Hall) in Hij.
  unfold W16 in *. lia.
Qed.

(* threads that each perform some number of new/add/remove operations *)
Theorem draws_distinct (nthreads : N -> nat) sched cell :
  cell < W16 ->
  let ts := fun i => mkthread (draws_of (nthreads i)) 0 in
  N.of_nat (length (run_sched cell ts sched)) <= 65536 ->
  NoDup (run_sched cell ts sched).
Proof.
  intros Hc ts Hlen. apply rmw_distinct; [exact Hc | | exact Hlen].
  intros i. unfold all_rmw, ts. cbn. apply draws_of_rmw.
Qed.

(* a draw made of a separate load and store hands out the same identity twice under the
   interleaving  T0:Load  T1:Load  T0:Store  T1:Store  - what the check reports as the replay when
   the source stops being a single RMW *)
Lemma load_store_collides :
  let ts := fun _ : N => mkthread [Load; StoreLoadedPlus 1] 0 in
  run_sched 7 ts [0; 1; 0; 1] = [7; 7].
Proof. vm_compute. reflexivity. Qed.

(* after 65536 draws the identities wrap: the documented limit is tight *)
Lemma wraps_after_65536 : (0 + 65536) mod W16 = 0.
Proof. reflexivity. Qed.
