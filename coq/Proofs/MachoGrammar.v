(* MachoGrammar.v - C02, x86_64: the prologue / epilogue analysers are exact on the compiler grammar.
   Prologue:  [push rbp; mov rbp, rsp]? ; push r* ; [sub rsp, N]?      Epilogue:  pop r* ; ret
   For a thread stopped at ANY instruction boundary inside such a prologue or epilogue, the rule the
   analyser returns, executed on the machine state reached there, yields the return address, the
   caller's sp and the caller's rbp.  Registers are machine numbers 0..15 (rbp = 5). *)
From FH Require Import Consts Word X86 Unwinder Macho WordFacts X86Exec MachoFacts.
From Coq Require Import Lia ZifyBool ZifyN ZifyNat.
Open Scope N_scope.
Ltac Zify.zify_post_hook ::= Z.div_mod_to_equations.
Arguments N.add : simpl never.
Arguments N.sub : simpl never.
Arguments N.mul : simpl never.
Arguments N.eqb : simpl never.
Arguments N.ltb : simpl never.
Arguments N.leb : simpl never.
Arguments N.land : simpl never.

Definition enc_push (r : N) : list N := if r <? 8 then [80 + r] else [65; 80 + (r - 8)].
Definition enc_pop (r : N) : list N := if r <? 8 then [88 + r] else [65; 88 + (r - 8)].
Definition enc_pushes (rs : list N) : list N := flat_map enc_push rs.
Definition enc_pops (rs : list N) : list N := flat_map enc_pop rs.
Definition MOV_RBP_RSP : list N := [72; 137; 229].
Definition enc_sub (n : N) : list N :=
  if n <? 128 then [72; 131; 236; n]
  else [72; 129; 236; n mod 256; (n / 256) mod 256; (n / 65536) mod 256; (n / 16777216) mod 256].

Definition regs_ok (rs : list N) : Prop := Forall (fun r => r < 16) rs.

(* ---------- byte facts, by enumeration over the low 3 bits ---------- *)
Lemma lt8_cases r : r < 8 -> r = 0 \/ r = 1 \/ r = 2 \/ r = 3 \/ r = 4 \/ r = 5 \/ r = 6 \/ r = 7.
Proof. lia. Qed.

Lemma push_byte k : k < 8 -> N.land (80 + k) 248 = 80 /\ N.land (80 + k) 254 <> 64 /\ 80 + k <> 229.
Proof. intros H. destruct (lt8_cases k H) as [->|[->|[->|[->|[->|[->|[->| ->]]]]]]]; vm_compute; repeat split; discriminate. Qed.

Lemma pop_byte k : k < 8 -> N.land (88 + k) 248 = 88 /\ 88 <= 88 + k <= 95.
Proof. intros H. destruct (lt8_cases k H) as [->|[->|[->|[->|[->|[->|[->| ->]]]]]]]; vm_compute; repeat split; discriminate. Qed.

(* ---------- the backward walk over pushes ---------- *)
Definition not_prefix_head (l : list N) : Prop :=
  match l with p :: _ => N.land p 254 <> 64 | [] => True end.

Lemma pro_walk_byte b tail fuel cnt :
  N.land b 248 = 80 -> b <> 229 -> cnt + 1 < W16 ->
  pro_walk_x86 (S fuel) (b :: tail) cnt =
    match tail with
    | p :: t' => if N.land p 254 =? 64 then pro_walk_x86 fuel t' (cnt + 1) else pro_walk_x86 fuel tail (cnt + 1)
    | [] => pro_walk_x86 fuel tail (cnt + 1)
    end.
Proof.
  intros Hb Hn Hc. cbn [pro_walk_x86].
  assert (Hpat : forall A (x y : A), match b with 229 => x | _ => y end = y).
  { intros A x y. destruct b as [|p]; [reflexivity|].
    repeat (destruct p as [p|p|]; try reflexivity). exfalso. apply Hn. reflexivity. }
  destruct b as [|p]; [vm_compute in Hb; discriminate|].
  (* the 4-byte pattern needs b = 229 *)
  assert (Hne : N.pos p <> 229) by exact Hn.
  destruct (N.eq_dec (N.pos p) 229) as [E|E]; [contradiction|].
  replace (N.land (N.pos p) 248 =? 80) with true by (symmetry; apply N.eqb_eq; exact Hb).
  destruct (cnt + 1 <? W16) eqn:Ec; [|lia].
  clear Hpat.
  (* peel the literal pattern *)
  repeat match goal with
         | |- context [match ?q with xI _ => _ | xO _ => _ | xH => _ end] => is_var q; fail
         end.
  destruct p as [p|p|]; try reflexivity;
  destruct p as [p|p|]; try reflexivity;
  destruct p as [p|p|]; try reflexivity;
  destruct p as [p|p|]; try reflexivity;
  destruct p as [p|p|]; try reflexivity;
  destruct p as [p|p|]; try reflexivity;
  destruct p as [p|p|]; try reflexivity;
  destruct p as [p|p|]; try reflexivity.
  all: try (exfalso; apply Hn; reflexivity).
Qed.

Lemma pro_walk_push r tail fuel cnt :
  r < 16 -> cnt + 1 < W16 -> not_prefix_head tail ->
  pro_walk_x86 (S (S fuel)) (rev (enc_push r) ++ tail) cnt = pro_walk_x86 (S fuel) tail (cnt + 1).
Proof.
  intros Hr Hc Ht. unfold enc_push. destruct (r <? 8) eqn:E8.
  - destruct (push_byte r) as (H1 & H2 & H3); [lia|].
    cbn [rev app]. rewrite pro_walk_byte by assumption.
    destruct tail as [|p t]; [reflexivity|]. cbn [not_prefix_head] in Ht.
    destruct (N.land p 254 =? 64) eqn:Ep; [lia | reflexivity].
  - destruct (push_byte (r - 8)) as (H1 & H2 & H3); [lia|].
    cbn [rev app]. rewrite pro_walk_byte by assumption.
    change (N.land 65 254 =? 64) with true. cbv iota. reflexivity.
Qed.

Lemma enc_push_last_not_prefix r rest : r < 16 -> not_prefix_head (rev (enc_push r) ++ rest).
Proof.
  intros Hr. unfold enc_push. destruct (r <? 8) eqn:E8.
  - destruct (push_byte r) as (_ & H2 & _); [lia|]. exact H2.
  - destruct (push_byte (r - 8)) as (_ & H2 & _); [lia|]. exact H2.
Qed.

(* walking back over a run of pushes counts them (one unit of fuel per push) *)
Lemma pro_walk_pushes : forall rs tail fuel cnt,
  regs_ok rs -> cnt + N.of_nat (length rs) < W16 -> not_prefix_head tail ->
  pro_walk_x86 (S fuel + length rs) (rev (enc_pushes rs) ++ tail) cnt =
  pro_walk_x86 (S fuel) tail (cnt + N.of_nat (length rs)).
Proof.
  intros rs. induction rs as [|r t IH] using rev_ind; intros tail fuel cnt Hok Hc Ht.
  - cbn. replace (cnt + 0) with cnt by lia. rewrite Nat.add_0_r. reflexivity.
  - unfold enc_pushes. rewrite flat_map_app. cbn [flat_map]. rewrite app_nil_r, rev_app_distr, <- app_assoc.
    rewrite app_length in *. cbn [length] in *.
    apply Forall_app in Hok. destruct Hok as [Hok1 Hok2]. inversion Hok2 as [|? ? Hr _]; subst.
    replace (S fuel + (length t + 1))%nat with (S (S (fuel + length t)))%nat by lia.
    rewrite pro_walk_push; [|exact Hr|lia|].
    + replace (S (fuel + length t))%nat with (S fuel + length t)%nat by lia.
      fold (enc_pushes t). rewrite IH; [|exact Hok1|lia|exact Ht].
      f_equal; lia.
    + fold (enc_pushes t). destruct t as [|x t'] using rev_ind; [exact Ht|].
      unfold enc_pushes. rewrite flat_map_app. cbn [flat_map]. rewrite app_nil_r, rev_app_distr, <- app_assoc.
      apply enc_push_last_not_prefix. apply Forall_app in Hok1. destruct Hok1 as [_ Hx]. inversion Hx; assumption.
Qed.

Lemma enc_push_len r : (1 <= length (enc_push r))%nat.
Proof. unfold enc_push. destruct (r <? 8); cbn; lia. Qed.

Lemma enc_pushes_len rs : (length rs <= length (enc_pushes rs))%nat.
Proof.
  induction rs as [|r t IH]; [cbn; lia|]. unfold enc_pushes in *. cbn [flat_map length].
  rewrite app_length. pose proof (enc_push_len r). lia.
Qed.

(* the whole backward walk for a frameless prologue prefix *)
Lemma pro_walk_frameless rs :
  regs_ok rs -> N.of_nat (length rs) + 1 < W16 ->
  pro_walk_x86 (S (length (enc_pushes rs))) (rev (enc_pushes rs)) 0 = Some (OffsetSp (N.of_nat (length rs) + 1)).
Proof.
  intros Hok Hc. pose proof (enc_pushes_len rs) as Hl.
  replace (S (length (enc_pushes rs))) with (S (length (enc_pushes rs) - length rs) + length rs)%nat by lia.
  rewrite <- (app_nil_r (rev (enc_pushes rs))).
  rewrite pro_walk_pushes; [|exact Hok|lia|exact I].
  cbn [pro_walk_x86]. replace (0 + N.of_nat (length rs)) with (N.of_nat (length rs)) by lia.
  destruct (N.of_nat (length rs) + 1 <? W16) eqn:E; [reflexivity | lia].
Qed.

(* ... and once push rbp; mov rbp, rsp have been executed *)
Lemma pro_walk_frame rs :
  regs_ok rs -> N.of_nat (length rs) < W16 ->
  pro_walk_x86 (S (length ([85; 72; 137; 229] ++ enc_pushes rs))) (rev ([85; 72; 137; 229] ++ enc_pushes rs)) 0
    = Some UseFramePointer.
Proof.
  intros Hok Hc. pose proof (enc_pushes_len rs) as Hl.
  set (F := S (length ([85; 72; 137; 229] ++ enc_pushes rs))).
  assert (HF : (F = S (F - 1 - length rs) + length rs)%nat) by (unfold F; rewrite app_length; cbn [length]; lia).
  rewrite HF. rewrite rev_app_distr.
  rewrite pro_walk_pushes; [|exact Hok|lia|cbn; vm_compute; discriminate].
  reflexivity.
Qed.

(* ---------- "the next instruction belongs to a prologue" ---------- *)
Lemma next_push r more : r < 16 -> (4 <= length (enc_push r ++ more))%nat ->
  is_next_expected_in_prologue (enc_push r ++ more) = true.
Proof.
  intros Hr Hl. unfold is_next_expected_in_prologue.
  destruct (Nat.ltb (length (enc_push r ++ more)) 4) eqn:E; [apply Nat.ltb_lt in E; lia|].
  unfold enc_push in *. destruct (r <? 8) eqn:E8.
  - destruct (push_byte r) as (H1 & _ & _); [lia|]. cbn [app nthb nth].
    replace (N.land (80 + r) 248 =? 80) with true by (symmetry; apply N.eqb_eq; exact H1). reflexivity.
  - destruct (push_byte (r - 8)) as (H1 & _ & _); [lia|]. cbn [app nthb nth].
    replace (N.land (80 + (r - 8)) 248 =? 80) with true by (symmetry; apply N.eqb_eq; exact H1).
    change (N.land 65 254 =? 64) with true. cbn [andb orb]. destruct (N.land 65 248 =? 80); reflexivity.
Qed.

Lemma next_mov more : (1 <= length more)%nat -> is_next_expected_in_prologue (MOV_RBP_RSP ++ more) = true.
Proof.
  intros Hl. unfold is_next_expected_in_prologue, MOV_RBP_RSP.
  destruct (Nat.ltb (length ([72; 137; 229] ++ more)) 4) eqn:E; [apply Nat.ltb_lt in E; cbn [app length] in E; lia|].
  cbn [app nthb nth]. vm_compute. reflexivity.
Qed.

Lemma next_sub n more : is_next_expected_in_prologue (enc_sub n ++ more) = true.
Proof.
  unfold is_next_expected_in_prologue, enc_sub. destruct (n <? 128).
  - cbn [app length nthb nth Nat.ltb Nat.leb]. vm_compute. reflexivity.
  - cbn [app length nthb nth Nat.ltb Nat.leb]. vm_compute. reflexivity.
Qed.

Lemma firstn_app_exact {A} (a b : list A) : firstn (length a) (a ++ b) = a.
Proof. rewrite firstn_app, Nat.sub_diag, firstn_all. cbn. apply app_nil_r. Qed.
Lemma skipn_app_exact {A} (a b : list A) : skipn (length a) (a ++ b) = b.
Proof. rewrite skipn_app, Nat.sub_diag, skipn_all. reflexivity. Qed.

(* ---------- prologue, frame pointer not (yet) set up: [done] pushes have been executed ---------- *)
Theorem prologue_frameless_exact done after first rg m ra sp0 :
  regs_ok done -> N.of_nat (length done) + 1 < W16 ->
  is_next_expected_in_prologue after = true ->
  (* the machine after the pushes: rsp moved down by 8 per push; the return address is where the call left it *)
  8 * N.of_nat (length done) <= sp0 -> sp rg = sp0 - 8 * N.of_nat (length done) ->
  m sp0 = Some ra -> ra <> 0 -> sp0 + 8 < W64 ->
  prologue_x86 (enc_pushes done ++ after) (length (enc_pushes done)) = Some (OffsetSp (N.of_nat (length done) + 1)) /\
  exec ra_addr_checked (OffsetSp (N.of_nat (length done) + 1)) first rg m =
    (Ok (Some ra), set_bp (set_sp (set_ip rg ra) (sp0 + 8)) (bp rg)).
Proof.
  intros Hok Hc Hnext Hfit Hsp Hra Hnz Hlt. split.
  - unfold prologue_x86. rewrite firstn_app_exact, skipn_app_exact, Hnext.
    apply pro_walk_frameless; assumption.
  - rewrite (exec_offset_sp (N.of_nat (length done) + 1) first rg m ra); try lia.
    + f_equal. f_equal. f_equal. lia.
    + rewrite Hsp. replace (sp0 - 8 * N.of_nat (length done) + (N.of_nat (length done) + 1) * 8 - 8) with sp0 by lia. exact Hra.
Qed.

(* ---------- prologue, after push rbp; mov rbp, rsp ---------- *)
Theorem prologue_frame_exact done after first rg m ra sp0 bp0 :
  regs_ok done -> N.of_nat (length done) < W16 ->
  is_next_expected_in_prologue after = true ->
  (* the machine: rbp points at the saved rbp, just below the return address; rsp is at or below it *)
  8 < sp0 -> bp rg = sp0 - 8 -> sp rg <= bp rg ->
  m (sp0 - 8) = Some bp0 -> m sp0 = Some ra -> ra <> 0 -> sp0 + 8 < W64 ->
  prologue_x86 ([85; 72; 137; 229] ++ enc_pushes done ++ after) (length ([85; 72; 137; 229] ++ enc_pushes done))
    = Some UseFramePointer /\
  exec ra_addr_checked UseFramePointer first rg m =
    (Ok (Some ra), set_bp (set_sp (set_ip rg ra) (sp0 + 8)) bp0).
Proof.
  intros Hok Hc Hnext Hsp0 Hbp Hsp Hm1 Hra Hnz Hlt. split.
  - unfold prologue_x86. rewrite app_assoc, firstn_app_exact, skipn_app_exact, Hnext.
    apply pro_walk_frame; assumption.
  - rewrite (fp_rule_semantics first rg m ra bp0); try lia.
    + f_equal. f_equal. f_equal. lia.
    + rewrite Hbp. exact Hm1.
    + rewrite Hbp. replace (sp0 - 8 + 8) with sp0 by lia. exact Hra.
Qed.

(* ---------- epilogue: pops, then ret ---------- *)
Lemma epi_walk_pop r rest prev fuel cnt bp :
  r < 16 -> cnt + 1 < W16 ->
  epi_walk_x86 (S fuel) (enc_pop r ++ rest) prev cnt bp =
  epi_walk_x86 fuel rest prev (cnt + 1) (if r =? 5 then Some cnt else bp).
Proof.
  intros Hr Hc. unfold enc_pop. destruct (r <? 8) eqn:E8.
  - destruct (lt8_cases r) as [->|[->|[->|[->|[->|[->|[->| ->]]]]]]]; [lia|..];
      cbn [app epi_walk_x86]; vm_compute (_ =? 195); vm_compute (_ =? 93); cbv iota;
      repeat match goal with |- context [(?a =? ?b) || _] => let v := eval vm_compute in (a =? b) in change (a =? b) with v end;
      cbn [orb andb]; cbv iota;
      repeat match goal with |- context [(?a <=? ?b)] => let v := eval vm_compute in (a <=? b) in change (a <=? b) with v end;
      cbn [orb andb]; cbv iota; (destruct (cnt + 1 <? W16) eqn:E; [|lia]); reflexivity.
  - assert (Hk : r - 8 < 8) by lia.
    destruct (pop_byte (r - 8) Hk) as (H1 & H2).
    assert (Hn5 : (r =? 5) = false) by lia. rewrite Hn5.
    cbn [app epi_walk_x86]. vm_compute (65 =? 195). vm_compute (65 =? 93).
    change ((65 =? 235) || (65 =? 233) || (65 =? 255)) with false. change ((88 <=? 65) && (65 <=? 95)) with false.
    cbv iota. change (N.land 65 254 =? 64) with true.
    replace (N.land (88 + (r - 8)) 248 =? 88) with true by (symmetry; apply N.eqb_eq; exact H1).
    cbn [andb]. destruct (cnt + 1 <? W16) eqn:E; [reflexivity | lia].
Qed.

(* the index (counted from [i]) of rbp among the registers still to be popped *)
Fixpoint rbp_slot (l : list N) (i : N) (acc : option N) : option N :=
  match l with
  | [] => acc
  | r :: t => rbp_slot t (i + 1) (if r =? 5 then Some i else acc)
  end.

Lemma epi_walk_pops : forall todo rest prev fuel cnt bp,
  regs_ok todo -> cnt + N.of_nat (length todo) < W16 ->
  epi_walk_x86 (fuel + length todo) (enc_pops todo ++ rest) prev cnt bp =
  epi_walk_x86 fuel rest prev (cnt + N.of_nat (length todo)) (rbp_slot todo cnt bp).
Proof.
  induction todo as [|r t IH]; intros rest prev fuel cnt bp Hok Hc.
  - cbn. rewrite Nat.add_0_r. replace (cnt + 0) with cnt by lia. reflexivity.
  - inversion Hok as [|? ? Hr Ht]; subst. cbn [length] in *.
    unfold enc_pops. cbn [flat_map]. rewrite <- app_assoc. fold (enc_pops t).
    replace (fuel + S (length t))%nat with (S (fuel + length t)) by lia.
    rewrite epi_walk_pop; [|exact Hr|lia].
    rewrite IH; [|exact Ht|lia]. cbn [rbp_slot]. f_equal. lia.
Qed.

Lemma enc_pop_len r : (1 <= length (enc_pop r))%nat.
Proof. unfold enc_pop. destruct (r <? 8); cbn; lia. Qed.
Lemma enc_pops_len rs : (length rs <= length (enc_pops rs))%nat.
Proof.
  induction rs as [|r t IH]; [cbn; lia|]. unfold enc_pops in *. cbn [flat_map length].
  rewrite app_length. pose proof (enc_pop_len r). lia.
Qed.

Definition epilogue_rule (todo : list N) : rule :=
  let n := N.of_nat (length todo) in
  if n =? 0 then JustReturn
  else match rbp_slot todo 0 None with
       | Some j => OffsetSpAndRestoreBp (n + 1) (Z.of_N j)
       | None => OffsetSp (n + 1)
       end.

Lemma rbp_slot_bound l : forall i acc j, rbp_slot l i acc = Some j ->
  (acc = Some j \/ (i <= j < i + N.of_nat (length l))).
Proof.
  induction l as [|r t IH]; intros i acc j; cbn [rbp_slot length]; [auto|].
  intros H. apply IH in H. destruct H as [H|H]; [|right; lia].
  destruct (r =? 5); [inversion H; subst; right; lia | left; exact H].
Qed.

(* the analyser, at the boundary before the remaining pops [todo] of an epilogue ending in ret *)
Lemma epilogue_analysis pre todo more :
  regs_ok todo -> N.of_nat (length todo) < 32768 ->
  epilogue_x86 (pre ++ enc_pops todo ++ 195 :: more) (length pre) = Some (epilogue_rule todo).
Proof.
  intros Hok Hc0. assert (Hc : N.of_nat (length todo) + 1 < W16) by (unfold W16; lia).
  unfold epilogue_x86. rewrite firstn_app_exact, skipn_app_exact.
  set (F := S (length (enc_pops todo ++ 195 :: more))).
  pose proof (enc_pops_len todo) as Hl.
  assert (HF : (F = S (F - 1 - length todo) + length todo)%nat) by (unfold F; rewrite app_length; cbn [length]; lia).
  rewrite HF, epi_walk_pops; [|exact Hok|lia].
  cbn [epi_walk_x86]. change (195 =? 195) with true. cbv iota.
  replace (0 + N.of_nat (length todo)) with (N.of_nat (length todo)) by lia.
  unfold epilogue_rule. cbv zeta.
  destruct (N.of_nat (length todo) =? 0) eqn:E0; [reflexivity|].
  destruct (N.of_nat (length todo) + 1 <? W16) eqn:E1; [|lia].
  destruct (rbp_slot todo 0 None) as [j|] eqn:Ej; [|reflexivity].
  apply rbp_slot_bound in Ej. destruct Ej as [Ej|Ej]; [discriminate|].
  unfold as_i16. assert (Hj : j mod W16 = j) by (apply N.mod_small; unfold W16 in *; lia).
  rewrite Hj. destruct (j <? 32768) eqn:E2; [reflexivity|]. unfold W16 in *. lia.
Qed.

(* ... and what the rule does on the machine: the words at rsp are the values the remaining pops
   would load, then the return address *)
Theorem epilogue_exact pre todo more first rg m ra bpv :
  regs_ok todo -> N.of_nat (length todo) < 32768 ->
  let n := N.of_nat (length todo) in
  sp rg + 8 * n + 8 < W64 -> m (sp rg + 8 * n) = Some ra -> ra <> 0 ->
  (forall j, rbp_slot todo 0 None = Some j -> m (sp rg + 8 * j) = Some bpv) ->
  (rbp_slot todo 0 None = None -> bpv = bp rg) ->
  epilogue_x86 (pre ++ enc_pops todo ++ 195 :: more) (length pre) = Some (epilogue_rule todo) /\
  exec ra_addr_checked (epilogue_rule todo) first rg m =
    (Ok (Some ra), set_bp (set_sp (set_ip rg ra) (sp rg + 8 * n + 8)) bpv).
Proof.
  intros Hok Hc0 n Hlt Hra Hnz Hbp Hnobp. split; [apply epilogue_analysis; assumption|].
  assert (Hc : n + 1 < W16) by (unfold n, W16; lia).
  unfold epilogue_rule. cbv zeta. fold n.
  destruct (n =? 0) eqn:E0.
  - assert (n = 0) by lia. rewrite (Hnobp ltac:(destruct todo; [reflexivity | cbn [length] in *; lia])).
    replace (sp rg + 8 * n + 8) with (sp rg + 8) by lia.
    apply leaf_rule_semantics; [|exact Hnz|lia]. replace (sp rg) with (sp rg + 8 * n) by lia. exact Hra.
  - destruct (rbp_slot todo 0 None) as [j|] eqn:Ej.
    + pose proof Ej as Ej'. apply rbp_slot_bound in Ej'. destruct Ej' as [Ej'|Ej']; [discriminate|].
      fold n in Ej'.
      assert (C1 : (n + 1) * 8 >= 8) by lia.
      assert (C2 : sp rg + (n + 1) * 8 < W64) by lia.
      assert (C3 : (0 <= Z.of_N j <= 32767)%Z) by (unfold n in *; lia).
      assert (C4 : sp rg + Z.to_N (Z.of_N j) * 8 < W64) by (rewrite N2Z.id; lia).
      assert (C5 : m (sp rg + Z.to_N (Z.of_N j) * 8) = Some bpv).
      { rewrite N2Z.id. replace (sp rg + j * 8) with (sp rg + 8 * j) by lia. apply Hbp. reflexivity. }
      assert (C6 : m (sp rg + (n + 1) * 8 - 8) = Some ra).
      { replace (sp rg + (n + 1) * 8 - 8) with (sp rg + 8 * n) by lia. exact Hra. }
      rewrite (exec_offset_sp_bp (n + 1) (Z.of_N j) first rg m ra bpv C1 C2 C3 C4 C5 C6 Hnz).
      f_equal. f_equal. f_equal. lia.
    + rewrite (Hnobp eq_refl).
      assert (C1 : (n + 1) * 8 >= 8) by lia.
      assert (C2 : sp rg + (n + 1) * 8 < W64) by lia.
      assert (C6 : m (sp rg + (n + 1) * 8 - 8) = Some ra).
      { replace (sp rg + (n + 1) * 8 - 8) with (sp rg + 8 * n) by lia. exact Hra. }
      rewrite (exec_offset_sp (n + 1) first rg m ra C1 C2 C6 Hnz).
      f_equal. f_equal. f_equal. lia.
Qed.
