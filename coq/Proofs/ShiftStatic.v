(* ShiftStatic.v - C08: the callback premise of the stack-relocation theorems, discharged from the static
   classification of the callbacks (StaticFacts.v, also used by C06 / C20): whenever the per-module callback answers
   (module, first, relative address) with a rule or with a state-independent error - for every format, including PE
   steps that compress into the pop rule, Mach-O entries that defer to DWARF rows that compress - it answers the
   relocated state the same way. *)
From FH Require Import Consts Word X86 A64 Unwinder DwarfRow Cfi X86Dwarf A64Dwarf DwarfCb Macho MachoCb Pe X86Unw A64Unw
  WordFacts X86Exec HistFacts StaticFacts ShiftFacts ShiftFrame.
From Coq Require Import Lia ZifyBool ZifyN List.
Import ListNotations.
Open Scope N_scope.

(* what a call touches and whether it allocates is decided by the address alone *)
Lemma pe_step_eff c pe a f rg m : snd (pe_step c pe a f rg m) = mkeff true false.
Proof.
  unfold pe_step, pe_step_raw, pe_eff, pe_eff_alloc. cbv zeta. cbn [snd].
  repeat match goal with
         | |- context [match ?x with _ => _ end] =>
           lazymatch x with
           | context [match _ with _ => _ end] => fail
           | _ => destruct x
           end
         end; reflexivity.
Qed.

Lemma cb_x86_eff_static (md : xmodule) first rel rg rg' m m' :
  snd (cb_x86 md first rel rg m) = snd (cb_x86 md first rel rg' m').
Proof.
  unfold cb_x86. destruct (mdat md) as [|p sec|pe|d].
  - reflexivity.
  - unfold cb_dwarf. destruct p;
      repeat match goal with
             | |- context [match add64p ?a ?b ?c with _ => _ end] => destruct (add64p a b c)
             | |- context [match hdr_lookup ?a ?b with _ => _ end] => destruct (hdr_lookup a b)
             | |- context [match index_build ?a ?b with _ => _ end] => destruct (index_build a b)
             | |- context [match index_lookup ?a ?b ?c with _ => _ end] => destruct (index_lookup a b c)
             end; reflexivity.
  - rewrite !pe_step_eff. reflexivity.
  - unfold cb_macho. destruct (macho_cui _ _ _ _ _ _ _ _); try reflexivity.
    destruct (m_eh d); [|reflexivity]. destruct (eh_find _ _); [|reflexivity].
    destruct (add64p _ _ _); reflexivity.
Qed.

Lemma cb_a64_eff_static (md : amodule) first rel rg rg' m m' :
  snd (cb_a64 md first rel rg m) = snd (cb_a64 md first rel rg' m').
Proof.
  unfold cb_a64. destruct (mdat md) as [|p sec| |d].
  - reflexivity.
  - unfold cb_dwarf. destruct p;
      repeat match goal with
             | |- context [match add64p ?a ?b ?c with _ => _ end] => destruct (add64p a b c)
             | |- context [match hdr_lookup ?a ?b with _ => _ end] => destruct (hdr_lookup a b)
             | |- context [match index_build ?a ?b with _ => _ end] => destruct (index_build a b)
             | |- context [match index_lookup ?a ?b ?c with _ => _ end] => destruct (index_lookup a b c)
             end; reflexivity.
  - reflexivity.
  - unfold cb_macho. destruct (macho_cui _ _ _ _ _ _ _ _); try reflexivity.
    destruct (m_eh d); [|reflexivity]. destruct (eh_find _ _); [|reflexivity].
    destruct (add64p _ _ _); reflexivity.
Qed.

Definition static_ok_x86 (md : xmodule) (first : bool) (rel : N) : Prop :=
  match cb_static_x86 md first rel with SRule _ r => rule_wf r = true | SErr _ => True | SDyn _ => False end.
Definition static_ok_a64 (md : amodule) (first : bool) (rel : N) : Prop :=
  match cb_static_a64 md first rel with SRule _ r => arule_wf r = true | SErr _ => True | SDyn _ => False end.

Section S.
Variables lo hi s : N.

Lemma cb_rel_static (md : xmodule) first rel rg rg' m :
  static_ok_x86 md first rel -> rrel lo hi s rg rg' -> vok lo hi s rg -> spok lo hi rg ->
  cb_rel lo hi s (cb_x86 md first rel rg m) (cb_x86 md first rel rg' (shm lo hi s m)).
Proof.
  unfold static_ok_x86. intros Hst Hr Hv Hs.
  pose proof (cb_x86_ok md first rel rg m) as A. pose proof (cb_x86_ok md first rel rg' (shm lo hi s m)) as B.
  split; [apply cb_x86_eff_static|].
  destruct (cb_static_x86 md first rel) as [r| |]; [| |contradiction].
  - rewrite A, B. split; [reflexivity | exact Hst].
  - rewrite A, B. auto.
Qed.

Variable k : N.
Lemma cb_rel_a_static (md : amodule) first rel rg rg' m :
  static_ok_a64 md first rel -> arel lo hi s k rg rg' -> avok lo hi s k rg -> aspok lo s rg ->
  cb_rel_a lo hi s k (cb_a64 md first rel rg m) (cb_a64 md first rel rg' (shm lo hi s m)).
Proof.
  unfold static_ok_a64. intros Hst Hr Hv Hs.
  pose proof (cb_a64_ok md first rel rg m) as A. pose proof (cb_a64_ok md first rel rg' (shm lo hi s m)) as B.
  split; [apply cb_a64_eff_static|].
  destruct (cb_static_a64 md first rel) as [r| |]; [| |contradiction].
  - rewrite A, B. split; [reflexivity | exact Hst].
  - rewrite A, B. auto.
Qed.
End S.
