(* A64Walk.v - aarch64, unwind_frame level: progress (C10), fallback decisions (C04), root
   markers (C11). *)
From FH Require Import Consts Word A64 DwarfRow DwarfSpec Cfi Unwinder A64Dwarf DwarfCb A64Unw
  WordFacts A64Exec A64UnwFacts HistFacts StaticFacts CfiFacts.
From Coq Require Import Lia ZifyBool ZifyN.
Open Scope N_scope.
Arguments N.add : simpl never.
Arguments N.sub : simpl never.
Arguments N.mul : simpl never.
Arguments N.eqb : simpl never.
Arguments N.ltb : simpl never.
Arguments N.leb : simpl never.
Arguments N.land : simpl never.
Arguments aexec : simpl never.
Arguments cb_a64 : simpl never.
Arguments find_module : simpl never.
Arguments cache_lookup : simpl never.

Lemma generic_a64_progress rw rg m ra rg' :
  generic_a64 rw false rg m = CbUncacheable ra rg' -> asp rg < asp rg'.
Proof.
  unfold generic_a64. destruct (eval_cfa_rule (a64_getreg rg) (r_cfa rw)) as [cfa|]; [|discriminate].
  cbn [negb]. destruct (cfa <=? asp rg) eqn:E; [discriminate|].
  destruct (eval_register_rule (a64_getreg rg) (r_fp rw) cfa (afp rg) m); [|discriminate].
  destruct (eval_register_rule (a64_getreg rg) (r_ra rw) cfa (lr rg) m); [|discriminate].
  intros H; inversion H; subst. cbn. lia.
Qed.

Lemma cb_a64_progress md rel rg m ra rg' :
  fst (cb_a64 md false rel rg m) = CbUncacheable ra rg' -> asp rg < asp rg'.
Proof.
  assert (W : forall f svma, with_fde arule aregs row_step_a64 uncovered_rule_a64 f svma false rg m
                              = CbUncacheable ra rg' -> asp rg < asp rg').
  { intros f svma. unfold with_fde. destruct (row_for_address f svma) as [rw|]; [|discriminate].
    unfold row_step_a64. destruct (translate_a64 rw); [discriminate|]. apply generic_a64_progress. }
  unfold cb_a64. destruct (mdat md) as [|p sec| |d]; [discriminate| |discriminate|].
  2:{ unfold MachoCb.cb_macho.
      destruct (Macho.macho_cui _ _ _ _ _ d rel false); try discriminate.
      destruct (Macho.m_eh d) as [l|]; [|discriminate].
      destruct (MachoCb.eh_find l fde_offset) as [f|]; [|discriminate].
      destruct (add64p S_dwarf_svma_add (base_svma md) rel); cbn [fst]; try discriminate. apply W. }
  unfold cb_dwarf.
  destruct p.
  - unfold add64p. destruct (base_svma md + rel <? W64); cbn; [|discriminate].
    destruct (hdr_lookup sec (base_svma md + rel)); cbn; [apply W | discriminate].
  - destruct (index_build sec (base_svma md)); cbn; [|discriminate].
    destruct (index_lookup true l rel); cbn; [|discriminate].
    unfold add64p. destruct (base_svma md + rel <? W64); cbn; [apply W | discriminate].
  - destruct (index_build sec (base_svma md)); cbn; [|discriminate].
    destruct (index_lookup true l rel); cbn; [|discriminate].
    unfold add64p. destruct (base_svma md + rel <? W64); cbn; [apply W | discriminate].
Qed.

(* C10: every successful caller-frame step strictly increases the stack pointer *)
Theorem caller_step_progress_a64 u c x rg m ra :
  o_res _ _ (unwind_frame_a u c (RA x) rg m) = Ok (Some ra) ->
  ra <> 0 /\ asp rg < asp (o_regs _ _ (unwind_frame_a u c (RA x) rg m)).
Proof.
  assert (EX : forall r rgi res rgo, aexec r false rgi m = (res, rgo) -> res = Ok (Some ra) ->
               ra <> 0 /\ asp rgi < asp rgo).
  { intros r rgi res rgo E ->. pose proof (aexec_some _ _ _ _ _ _ E) as (H1 & H2 & H3 & H4 & H5).
    split; [exact H4 | apply H5; reflexivity]. }
  unfold unwind_frame_a, unwind_frame. cbn [is_ra negb].
  destruct (lookup_address (RA x)) as [a| | |]; cbn; try discriminate.
  destruct (cache_lookup arule c a (gen _ u)) as [[r|slot] c1].
  - destruct (aexec r false rg m) as [res rgo] eqn:E. cbn. intros H. eapply EX; eassumption.
  - destruct (find_module amdata (mods _ u) a) as [[[md rel]|]|e|s|]; cbn; try discriminate.
    + pose proof (cb_a64_shape md false rel rg m) as Hcb.
      pose proof (cb_a64_progress md rel rg m) as Hpr.
      destruct (cb_a64 md false rel rg m) as [cr ef]. cbn [fst] in Hcb, Hpr.
      destruct cr; cbn; try discriminate.
      * destruct (aexec r false rg m) as [res rgo] eqn:E. cbn. intros H. eapply EX; eassumption.
      * destruct (ra0 =? 0) eqn:E0; [discriminate|]. intros H; inversion H; subst.
        split; [lia | apply (Hpr ra rg0 eq_refl)].
      * subst rg0. destruct (aexec afallback_rule false rg m) as [res rgo] eqn:E. cbn. intros H. eapply EX; eassumption.
      * subst rg0. destruct (aexec afallback_rule false rg m) as [res rgo] eqn:E. cbn. intros H. eapply EX; eassumption.
    + destruct (aexec afallback_rule false rg m) as [res rgo] eqn:E. cbn. intros H. eapply EX; eassumption.
Qed.

(* ---------- C04 ---------- *)
Lemma a_uncovered_first_is_leaf rg m :
  aexec ANoOpIfFirstFrameOtherwiseFp true rg m = aexec ANoOp true rg m.
Proof. reflexivity. Qed.

(* in caller frames the uncovered rule walks the frame pointer chain like the fallback rule
   (it lacks only the fallback's "saved fp must increase" sanity check) *)
Lemma a_uncovered_caller_is_fp rg m r rg' :
  aexec AUseFramePointer false rg m = (r, rg') ->
  (forall e, r <> Err e) ->
  aexec ANoOpIfFirstFrameOtherwiseFp false rg m = (r, rg').
Proof.
  unfold aexec at 1 2. cbn [negb].
  destruct (add64c (afp rg) 16) as [ns|]; [|intros H Hn; inversion H; subst; exfalso; eapply Hn; reflexivity].
  destruct (add64p S_a64_rule_fp_add (afp rg) 8) as [f8| | |]; try (intros H Hn; exact H).
  destruct (m f8) as [nl|]; [|intros H Hn; inversion H; subst; exfalso; eapply Hn; reflexivity].
  destruct (m (afp rg)) as [nf|]; [|intros H Hn; inversion H; subst; exfalso; eapply Hn; reflexivity].
  destruct (nf =? 0); [intros H _; exact H|].
  destruct (ns <=? asp rg) eqn:E1; rewrite ?Bool.orb_true_r; [intros H _; exact H|].
  rewrite Bool.orb_false_r. destruct (nf <=? afp rg).
  - intros H Hn; inversion H; subst; exfalso; eapply Hn; reflexivity.
  - intros H _; exact H.
Qed.

Lemma a_leaf_rule_semantics rg m :
  strip (mask rg) (lr rg) <> 0 ->
  aexec ANoOp true rg m = (Ok (Some (strip (mask rg) (lr rg))), set_afp (set_asp (set_lr rg (lr rg)) (asp rg)) (afp rg)).
Proof.
  intros H. unfold aexec. cbn [negb]. unfold aexec_tail.
  destruct (strip (mask rg) (lr rg) =? 0) eqn:E; [lia|]. reflexivity.
Qed.

Lemma a_fp_rule_semantics first rg m nl nf :
  afp rg + 16 < W64 -> asp rg < afp rg + 16 ->
  m (afp rg + 8) = Some nl -> m (afp rg) = Some nf -> nf <> 0 -> afp rg < nf ->
  strip (mask rg) nl <> 0 ->
  aexec AUseFramePointer first rg m =
    (Ok (Some (strip (mask rg) nl)), set_afp (set_asp (set_lr rg nl) (afp rg + 16)) nf).
Proof.
  intros Hlt Hsp Hl Hf Hnz Hgt Hra. unfold aexec. unfold add64c.
  destruct (afp rg + 16 <? W64) eqn:E; [|lia]. rewrite add64p_nopanic by lia. rewrite Hl, Hf.
  destruct (nf =? 0) eqn:E0; [lia|].
  destruct ((nf <=? afp rg) || (afp rg + 16 <=? asp rg)) eqn:Eg; [lia|].
  unfold aexec_tail. destruct (strip (mask rg) nl =? 0) eqn:Es; [lia|].
  destruct (negb first && (afp rg + 16 =? asp rg)) eqn:Ed; [lia | reflexivity].
Qed.

Lemma a_fp_rule_null_end first rg m nl :
  afp rg + 16 < W64 -> m (afp rg + 8) = Some nl -> m (afp rg) = Some 0 ->
  aexec AUseFramePointer first rg m = (Ok None, rg).
Proof.
  intros Hlt Hl Hf. unfold aexec. unfold add64c.
  destruct (afp rg + 16 <? W64) eqn:E; [|lia]. rewrite add64p_nopanic by lia. rewrite Hl, Hf. reflexivity.
Qed.

Lemma a_fresh_lookup_miss x g : exists c1, cache_lookup arule (cache_new arule) x g = (Miss arule (x mod CACHE_ENTRY_COUNT), c1).
Proof. apply cache_new_lookup. Qed.

Theorem no_module_uses_fp_a64 u a x rg m :
  lookup_address a = Ok x -> find_module amdata (mods _ u) x = Ok None ->
  let o := unwind_frame_a u (cache_new arule) a rg m in
  (o_res _ _ o, o_regs _ _ o) = aexec AUseFramePointer (negb (is_ra a)) rg m.
Proof.
  intros Hx Hf. unfold unwind_frame_a, unwind_frame. rewrite Hx.
  destruct (a_fresh_lookup_miss x (gen _ u)) as [c1 Hl]. rewrite Hl, Hf.
  change afallback_rule with AUseFramePointer.
  destruct (aexec AUseFramePointer (negb (is_ra a)) rg m). reflexivity.
Qed.

Theorem empty_module_uses_fp_a64 u a x rg m md rel :
  lookup_address a = Ok x -> find_module amdata (mods _ u) x = Ok (Some (md, rel)) ->
  (mdat md = AMNone \/ exists p sec, mdat md = AMDwarf p sec /\ p <> PHdr /\ index_build sec (base_svma md) = None) ->
  let o := unwind_frame_a u (cache_new arule) a rg m in
  (o_res _ _ o, o_regs _ _ o) = aexec AUseFramePointer (negb (is_ra a)) rg m.
Proof.
  intros Hx Hf Hd. unfold unwind_frame_a, unwind_frame. rewrite Hx.
  destruct (a_fresh_lookup_miss x (gen _ u)) as [c1 Hl]. rewrite Hl, Hf.
  assert (Hcb : fst (cb_a64 md (negb (is_ra a)) rel rg m) = CbErr rg).
  { unfold cb_a64. destruct Hd as [->|(p & sec & -> & Hp & Hi)]; [reflexivity|].
    unfold cb_dwarf. destruct p; [contradiction | |]; rewrite Hi; reflexivity. }
  destruct (cb_a64 md (negb (is_ra a)) rel rg m) as [cr ef]. cbn [fst] in Hcb. subst cr.
  change afallback_rule with AUseFramePointer.
  destruct (aexec AUseFramePointer (negb (is_ra a)) rg m). reflexivity.
Qed.

Theorem uncovered_address_a64 u a x rg m md rel p sec :
  lookup_address a = Ok x -> find_module amdata (mods _ u) x = Ok (Some (md, rel)) ->
  mdat md = AMDwarf p sec -> fdes_wf sec (base_svma md) -> sec <> [] -> base_svma md + rel < W64 ->
  (forall g, In g sec -> ~ covers fde f_start f_end g (base_svma md + rel)) ->
  let o := unwind_frame_a u (cache_new arule) a rg m in
  (o_res _ _ o, o_regs _ _ o) = aexec ANoOpIfFirstFrameOtherwiseFp (negb (is_ra a)) rg m.
Proof.
  intros Hx Hf Hd Hwf Hne Hrel Hnc. unfold unwind_frame_a, unwind_frame. rewrite Hx.
  destruct (a_fresh_lookup_miss x (gen _ u)) as [c1 Hl]. rewrite Hl, Hf.
  assert (Hcb : fst (cb_a64 md (negb (is_ra a)) rel rg m) = CbRule uncovered_rule_a64).
  { unfold cb_a64. rewrite Hd.
    rewrite (presentations_agree arule aregs row_step_a64 uncovered_rule_a64 sec (base_svma md)
               (negb (is_ra a)) rel rg m p PHdr Hwf Hrel).
    unfold cb_dwarf. rewrite add64p_nopanic by exact Hrel.
    destruct (hdr_lookup_spec sec (base_svma md) (base_svma md + rel) Hwf) as (_ & Hn & _).
    specialize (Hn Hnc). destruct (hdr_lookup sec (base_svma md + rel)) as [r|]; [|contradiction].
    cbn [fst]. apply with_fde_noncover. exact Hn. }
  destruct (cb_a64 md (negb (is_ra a)) rel rg m) as [cr ef]. cbn [fst] in Hcb. subst cr.
  unfold uncovered_rule_a64.
  destruct (aexec ANoOpIfFirstFrameOtherwiseFp (negb (is_ra a)) rg m). reflexivity.
Qed.

(* ---------- C11: when rule execution completes with Ok(None) ---------- *)
Theorem aexec_none ru first rg m rg' :
  aexec ru first rg m = (Ok None, rg') ->
  (exists k, ru = AOffsetSpIfFirstFrameOtherwiseStackEndsHere k /\ first = false) \/
  ((ru = AUseFramePointer \/ (ru = ANoOpIfFirstFrameOtherwiseFp /\ first = false) \/
    exists k f l, ru = AUseFramepointerWithOffsets k f l) /\ exists a, m a = Some 0) \/
  (exists nl, strip (mask rg) nl = 0).
Proof.
  assert (T : forall f0 nl ns nf, aexec_tail f0 rg nl ns nf = (Ok None, rg') -> exists nl, strip (mask rg) nl = 0).
  { intros f0 nl ns nf. unfold aexec_tail. destruct (strip (mask rg) nl =? 0) eqn:E.
    - intros _. exists nl. lia.
    - destruct (negb f0 && (ns =? asp rg)); discriminate. }
  unfold aexec. destruct ru.
  - destruct (negb first); [discriminate|]. intros H. right; right. eapply T; exact H.
  - destruct first.
    + intros H. right; right. eapply T; exact H.
    + destruct (add64c (afp rg) 16); [|discriminate].
      destruct (add64p S_a64_rule_fp_add (afp rg) 8); try discriminate.
      destruct (m a) eqn:Ea; [|discriminate]. destruct (m (afp rg)) eqn:Ef; [|discriminate].
      destruct (n1 =? 0) eqn:E0.
      * intros _. right; left. split; [right; left; split; reflexivity|].
        exists (afp rg). rewrite Ef. f_equal. lia.
      * destruct (n <=? asp rg); [discriminate|]. intros H. right; right. eapply T; exact H.
  - destruct (negb first); [discriminate|].
    destruct (add64c (asp rg) (k * 16)); [|discriminate]. intros H. right; right. eapply T; exact H.
  - destruct (negb first) eqn:Ef.
    + intros _. left. exists k. split; [reflexivity | destruct first; [discriminate | reflexivity]].
    + destruct (add64c (asp rg) (k * 16)); [|discriminate]. intros H. right; right. eapply T; exact H.
  - destruct (add64c (asp rg) (k * 16)); [|discriminate].
    destruct (adds64c (asp rg) (l * 8)); [|discriminate].
    destruct (m n0); [|discriminate]. intros H. right; right. eapply T; exact H.
  - destruct (add64c (asp rg) (k * 16)); [|discriminate].
    destruct (adds64c (asp rg) (l * 8)); [|discriminate].
    destruct (m n0); [|discriminate].
    destruct (adds64c (asp rg) (f * 8)); [|discriminate].
    destruct (m n2); [|discriminate]. intros H. right; right. eapply T; exact H.
  - destruct (add64c (afp rg) 16); [|discriminate].
    destruct (add64p S_a64_rule_fp_add (afp rg) 8); try discriminate.
    destruct (m a) eqn:Ea; [|discriminate]. destruct (m (afp rg)) eqn:Ef; [|discriminate].
    destruct (n1 =? 0) eqn:E0.
    + intros _. right; left. split; [left; reflexivity|].
      exists (afp rg). rewrite Ef. f_equal. lia.
    + destruct ((n1 <=? afp rg) || (n <=? asp rg)); [discriminate|]. intros H. right; right. eapply T; exact H.
  - destruct (add64c (afp rg) (k * 8)); [|discriminate].
    destruct (adds64c (afp rg) (l * 8)); [|discriminate].
    destruct (m n0); [|discriminate].
    destruct (adds64c (afp rg) (f * 8)) eqn:Eloc; [|discriminate].
    destruct (m n2) eqn:Ef; [|discriminate].
    destruct (n3 =? 0) eqn:E0.
    + intros _. right; left. split; [right; right; exists k, f, l; reflexivity|].
      exists n2. rewrite Ef. f_equal. lia.
    + destruct ((n3 <=? afp rg) || (n <=? asp rg)); [discriminate|]. intros H. right; right. eapply T; exact H.
Qed.

(* a PE module on aarch64 (PeUnwinderError::Aarch64Unsupported) -> frame pointer *)
Theorem pe_on_aarch64_uses_fp u a x rg m md rel :
  lookup_address a = Ok x -> find_module amdata (mods _ u) x = Ok (Some (md, rel)) -> mdat md = AMPe ->
  let o := unwind_frame_a u (cache_new arule) a rg m in
  (o_res _ _ o, o_regs _ _ o) = aexec AUseFramePointer (negb (is_ra a)) rg m.
Proof.
  intros Hx Hf Hd. unfold unwind_frame_a, unwind_frame. rewrite Hx.
  destruct (a_fresh_lookup_miss x (gen _ u)) as [c1 Hl]. rewrite Hl, Hf.
  unfold cb_a64. rewrite Hd.
  change afallback_rule with AUseFramePointer.
  destruct (aexec AUseFramePointer (negb (is_ra a)) rg m). reflexivity.
Qed.
