(* A64Enc.v - encoders of the arm64 prologue / epilogue instructions and, by enumeration of the whole
   operand space, the facts about their bit fields that the analysers look at (used by A64Grammar.v).
   C02, arm64: the prologue / epilogue analysers are exact on the compiler grammar.
   Prologue:  [pacibsp] ; (stp xa, xb, [sp, #-n]! | stp xa, xb, [sp, #n] | sub sp, sp, #n)* ; add x29, sp, #n
   Epilogue:  (add sp, sp, #n | ldp xa, xb, [sp, #n] | ldp xa, xb, [sp], #n)* ; (ret | retab | b target)
   For a thread stopped at any instruction boundary inside such a prologue (before the frame pointer
   is set up) or epilogue, the rule the analyser returns, executed on the machine state reached
   there, yields the return address, the caller's sp and the caller's fp.
   Instruction words are built by the encoders below (the A64 encodings); the facts about their bit
   fields are proved by enumeration of the whole operand space. *)
From FH Require Import Consts Word A64 Unwinder Macho WordFacts A64Exec.
From Coq Require Import Lia ZifyBool ZifyN ZifyNat.
Open Scope N_scope.
Ltac Zify.zify_post_hook ::= Z.div_mod_to_equations.
Arguments N.add : simpl never.
Arguments N.sub : simpl never.
Arguments N.mul : simpl never.
Arguments N.eqb : simpl never.
Arguments N.ltb : simpl never.
Arguments N.leb : simpl never.
Arguments N.land : simpl never.
Arguments N.shiftr : simpl never.

(* ---------- encoders ---------- *)
Definition PACIBSP : N := 3573752703.                     (* 0xd503237f *)
Definition RET : N := 3596551104.                         (* 0xd65f03c0 *)
Definition RETAB : N := 3596554239.                       (* 0xd65f0fff *)
Definition enc_pair (opc a b i7 : N) : N := opc + i7 * 32768 + b * 1024 + 31 * 32 + a.
Definition enc_stp_pre := enc_pair 2843738112.            (* 0xa9800000  stp a, b, [sp, #imm]!  *)
Definition enc_stp_off := enc_pair 2835349504.            (* 0xa9000000  stp a, b, [sp, #imm]   *)
Definition enc_ldp_post := enc_pair 2831155200.           (* 0xa8c00000  ldp a, b, [sp], #imm   *)
Definition enc_ldp_off := enc_pair 2839543808.            (* 0xa9400000  ldp a, b, [sp, #imm]   *)
Definition enc_sub_sp (i12 sh : N) : N := 3506439167 + sh * 4194304 + i12 * 1024.   (* 0xd10003ff *)
Definition enc_add_sp (i12 sh : N) : N := 2432697343 + sh * 4194304 + i12 * 1024.   (* 0x910003ff *)
Definition enc_add_fp (i12 : N) : N := 2432697341 + i12 * 1024.                     (* 0x910003fd add x29, sp, #imm *)
Definition enc_b (i26 : N) : N := 335544320 + i26.                                  (* 0x14000000 *)

Definition simm7 (i7 : N) : Z := if i7 <? 64 then Z.of_N i7 else (Z.of_N i7 - 128)%Z.
Definition imm12 (i12 sh : N) : Z := if sh =? 1 then Z.of_N (i12 * 4096) else Z.of_N i12.

(* ---------- enumeration machinery ---------- *)
Fixpoint nrange (n : nat) : list N := match n with O => [] | S k => nrange k ++ [N.of_nat k] end.
Lemma nrange_In n x : x < N.of_nat n -> In x (nrange n).
Proof.
  induction n as [|n IH]; intros H; [lia|]. cbn [nrange]. apply in_or_app.
  destruct (N.eq_dec x (N.of_nat n)) as [->|Hne]; [right; left; reflexivity | left; apply IH; lia].
Qed.
Definition all3 (na nb nc : nat) (f : N -> N -> N -> bool) : bool :=
  forallb (fun a => forallb (fun b => forallb (fun c => f a b c) (nrange nc)) (nrange nb)) (nrange na).
Lemma all3_spec na nb nc f : all3 na nb nc f = true ->
  forall a b c, a < N.of_nat na -> b < N.of_nat nb -> c < N.of_nat nc -> f a b c = true.
Proof.
  unfold all3. intros H a b c Ha Hb Hc. rewrite forallb_forall in H.
  specialize (H a (nrange_In _ _ Ha)). rewrite forallb_forall in H.
  specialize (H b (nrange_In _ _ Hb)). rewrite forallb_forall in H.
  exact (H c (nrange_In _ _ Hc)).
Qed.

(* pairs are stored / loaded for the callee-saved registers x19..x28, the frame pointer and the link register *)
Definition creg (r : N) : Prop := 19 <= r /\ r <= 30.
Lemma pair_spec (F : N -> N -> N -> bool) :
  all3 12 12 128 (fun a' b' i => F (19 + a') (19 + b') i) = true ->
  forall a b i, creg a -> creg b -> i < 128 -> F a b i = true.
Proof.
  intros H a b i [Ha1 Ha2] [Hb1 Hb2] Hi.
  pose proof (all3_spec _ _ _ _ H (a - 19) (b - 19) i ltac:(lia) ltac:(lia) ltac:(lia)) as E. cbv beta in E.
  replace (19 + (a - 19)) with a in E by lia. replace (19 + (b - 19)) with b in E by lia. exact E.
Qed.

(* the bit fields every analyser looks at, for the four pair forms *)
Definition pair_fields (opc wb : N) (a b i7 : N) : bool :=
  let w := enc_pair opc a b i7 in
  (w <? 4294967296) && negb (w =? PACIBSP) && negb (w =? RET) && negb (w =? RETAB) && negb (w =? 2432697341) &&
  negb (N.land w 4290774015 =? 2432697341) &&
  (bits w 23 2 =? wb) && (N.land (N.shiftr w 22) 6 =? 2 * wb) && (bits w 5 5 =? 31) &&
  (bits w 15 7 =? i7) && (bits w 0 5 =? a) && (bits w 10 5 =? b) &&
  negb (N.shiftr w 26 =? 5) && negb (w =? 3573752831).

Definition is_pvl (t : pro_itype) : bool := match t with PVeryLikely => true | _ => false end.
Definition is_pws (t : pro_itype) : bool := match t with PCouldBeWithSub => true | _ => false end.
Definition is_evl (t : epi_itype) : bool := match t with EVeryLikely => true | _ => false end.

Definition stp_pre_ok (a b i : N) : bool := pair_fields 2843738112 3 a b i &&
   (N.land (N.shiftr (enc_stp_pre a b i) 22) 761 =? 672) && is_pvl (a_pro_itype (enc_stp_pre a b i)).
Lemma stp_pre_fields_all : all3 12 12 128 (fun a' b' i => stp_pre_ok (19 + a') (19 + b') i) = true.
Proof. vm_compute. reflexivity. Qed.
Definition stp_off_ok (a b i : N) : bool := pair_fields 2835349504 2 a b i &&
   (N.land (N.shiftr (enc_stp_off a b i) 22) 761 =? 672) && is_pws (a_pro_itype (enc_stp_off a b i)).
Lemma stp_off_fields_all : all3 12 12 128 (fun a' b' i => stp_off_ok (19 + a') (19 + b') i) = true.
Proof. vm_compute. reflexivity. Qed.
Definition ldp_post_ok (a b i : N) : bool := pair_fields 2831155200 1 a b i &&
   (N.land (N.shiftr (enc_ldp_post a b i) 22) 761 =? 673) && is_evl (a_epi_itype (enc_ldp_post a b i)) &&
   adjusts_sp (enc_ldp_post a b i).
Lemma ldp_post_fields_all : all3 12 12 128 (fun a' b' i => ldp_post_ok (19 + a') (19 + b') i) = true.
Proof. vm_compute. reflexivity. Qed.
Definition ldp_off_ok (a b i : N) : bool := pair_fields 2839543808 2 a b i &&
   (N.land (N.shiftr (enc_ldp_off a b i) 22) 761 =? 673) && is_evl (a_epi_itype (enc_ldp_off a b i)).
Lemma ldp_off_fields_all : all3 12 12 128 (fun a' b' i => ldp_off_ok (19 + a') (19 + b') i) = true.
Proof. vm_compute. reflexivity. Qed.

(* sub sp / add sp / add x29: 4096 immediates x 2 shifts *)
Definition sub_fields (i12 sh : N) : bool :=
  let w := enc_sub_sp i12 sh in
  (w <? 4294967296) && negb (w =? PACIBSP) && negb (N.land w 4290774015 =? 2432697341) &&
  negb (N.land (N.shiftr w 22) 761 =? 672) && (bits w 23 9 =? 418) && (bits w 0 5 =? 31) && (bits w 5 5 =? 31) &&
  (bits w 10 12 =? i12) && (bits w 22 1 =? sh) && is_pvl (a_pro_itype w).
Definition add_fields (i12 sh : N) : bool :=
  let w := enc_add_sp i12 sh in
  (w <? 4294967296) && negb (w =? RET) && negb (w =? RETAB) && negb (w =? 3573752831) && negb (N.shiftr w 26 =? 5) &&
  negb (N.land (N.shiftr w 22) 761 =? 673) && (bits w 23 9 =? 290) && (bits w 0 5 =? 31) && (bits w 5 5 =? 31) &&
  (bits w 10 12 =? i12) && (bits w 22 1 =? sh) && is_evl (a_epi_itype w) && adjusts_sp w.
Definition addfp_fields (i12 z : N) : bool :=
  let w := enc_add_fp i12 in
  (w <? 4294967296) && (N.land w 4290774015 =? 2432697341) && is_pvl (a_pro_itype w).
Lemma sub_fields_all : all3 4096 2 1 (fun i sh _ => sub_fields i sh) = true.
Proof. vm_compute. reflexivity. Qed.
Lemma add_fields_all : all3 4096 2 1 (fun i sh _ => add_fields i sh) = true.
Proof. vm_compute. reflexivity. Qed.
Lemma addfp_fields_all : all3 4096 1 1 (fun i _ _ => addfp_fields i 0) = true.
Proof. vm_compute. reflexivity. Qed.

