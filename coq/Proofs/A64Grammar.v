(* A64Grammar.v - C02, arm64: the prologue / epilogue analysers are exact on the compiler grammar.
   Prologue:  [pacibsp] ; (stp xa, xb, [sp, #-n]! | stp xa, xb, [sp, #n] | sub sp, sp, #n)* ; add x29, sp, #n
   Epilogue:  (add sp, sp, #n | ldp xa, xb, [sp, #n] | ldp xa, xb, [sp], #n)* ; (ret | retab | b target)
   For a thread stopped at any instruction boundary inside such a prologue (before the frame pointer
   is set up) or epilogue, the rule the analyser returns, executed on the machine state reached
   there, yields the return address, the caller's sp and the caller's fp. *)
From FH Require Import Consts Word A64 Unwinder Macho WordFacts A64Exec A64Enc.
From Coq Require Import Lia ZifyBool ZifyN ZifyNat.
Open Scope N_scope.
Ltac Zify.zify_post_hook ::= Z.div_mod_to_equations.
Arguments N.add : simpl never.
Arguments N.sub : simpl never.
Arguments N.mul : simpl never.
Arguments N.eqb : simpl never.
Arguments N.ltb : simpl never.
Arguments N.leb : simpl never.
Arguments N.land : simpl never.
Arguments N.shiftr : simpl never.

Ltac split_andb H :=
  repeat match type of H with
         | (_ && _) = true => let H1 := fresh H in apply andb_prop in H; destruct H as [H H1]
         end.

(* ---------- the prologue grammar ---------- *)
Inductive pinsn := PPac | PStpPre (a b i7 : N) | PStpOff (a b i7 : N) | PSubSp (i12 sh : N).
Definition penc (i : pinsn) : N :=
  match i with
  | PPac => PACIBSP | PStpPre a b i7 => enc_stp_pre a b i7 | PStpOff a b i7 => enc_stp_off a b i7
  | PSubSp i12 sh => enc_sub_sp i12 sh
  end.
(* a pre-index store in a prologue moves sp DOWN (negative immediate) *)
Definition pvalid (i : pinsn) : Prop :=
  match i with
  | PPac => True
  | PStpPre a b i7 => creg a /\ creg b /\ 64 <= i7 < 128
  | PStpOff a b i7 => creg a /\ creg b /\ i7 < 128
  | PSubSp i12 sh => i12 < 4096 /\ sh < 2
  end.
(* by how much the instruction lowers sp *)
Definition pdelta (i : pinsn) : Z :=
  match i with
  | PStpPre _ _ i7 => (- simm7 i7 * 8)%Z
  | PSubSp i12 sh => imm12 i12 sh
  | _ => 0%Z
  end.
Definition psum (l : list pinsn) : Z := fold_right (fun i acc => (pdelta i + acc)%Z) 0%Z l.

Lemma pdelta_nonneg i : pvalid i -> (0 <= pdelta i <= 16777216)%Z.
Proof. destruct i; cbn; unfold simm7, imm12; intros H; try lia.
  - destruct H as (_ & _ & H). destruct (i7 <? 64) eqn:E; lia.
  - destruct H as [H1 H2]. destruct (sh =? 1); lia.
Qed.

Lemma imm7_scaled_enc opc a b i7 : bits (enc_pair opc a b i7) 15 7 = i7 -> imm7_scaled (enc_pair opc a b i7) = (simm7 i7 * 8)%Z.
Proof. intros H. unfold imm7_scaled, simm7. rewrite H. destruct (i7 <? 64); reflexivity. Qed.

Lemma rstep_enc i spo : pvalid i -> i32_ok (spo + pdelta i) = true ->
  a_pro_rstep (penc i) spo = Some (spo + pdelta i)%Z /\ (N.land (penc i) 4290774015 =? 2432697341) = false /\ penc i < 4294967296.
Proof.
  destruct i as [|a b i7|a b i7|i12 sh]; cbn [pvalid penc pdelta]; intros Hv Hok.
  - split; [|split; [reflexivity | reflexivity]]. unfold a_pro_rstep. change (PACIBSP =? 3573752703) with true. cbv iota.
    f_equal. lia.
  - destruct Hv as (Ha & Hb & Hi).
    pose proof (pair_spec _ stp_pre_fields_all a b i7 Ha Hb ltac:(lia)) as F.
    unfold stp_pre_ok, pair_fields in F. fold (enc_stp_pre a b i7) in F. cbv zeta in F. split_andb F.
    split; [|split; [|lia]].
    + unfold a_pro_rstep.
      replace (enc_stp_pre a b i7 =? 3573752703) with false by (unfold PACIBSP in *; lia).
      replace (N.land (N.shiftr (enc_stp_pre a b i7) 22) 761 =? 672) with true by lia.
      replace (bits (enc_stp_pre a b i7) 23 2) with 3 by lia.
      replace (bits (enc_stp_pre a b i7) 5 5) with 31 by lia.
      change (3 =? 0) with false. change (negb (31 =? 31)) with false. change ((3 =? 3) || (3 =? 1)) with true. cbv iota.
      unfold enc_stp_pre. rewrite imm7_scaled_enc by (unfold enc_stp_pre in *; lia).
      replace (spo - simm7 i7 * 8)%Z with (spo + - simm7 i7 * 8)%Z by lia. rewrite Hok. reflexivity.
    + lia.
  - destruct Hv as (Ha & Hb & Hi).
    pose proof (pair_spec _ stp_off_fields_all a b i7 Ha Hb ltac:(lia)) as F.
    unfold stp_off_ok, pair_fields in F. fold (enc_stp_off a b i7) in F. cbv zeta in F. split_andb F.
    split; [|split; [|lia]].
    + unfold a_pro_rstep.
      replace (enc_stp_off a b i7 =? 3573752703) with false by (unfold PACIBSP in *; lia).
      replace (N.land (N.shiftr (enc_stp_off a b i7) 22) 761 =? 672) with true by lia.
      replace (bits (enc_stp_off a b i7) 23 2) with 2 by lia.
      replace (bits (enc_stp_off a b i7) 5 5) with 31 by lia.
      change (2 =? 0) with false. change (negb (31 =? 31)) with false. change ((2 =? 3) || (2 =? 1)) with false. cbv iota.
      f_equal. lia.
    + lia.
  - destruct Hv as (Hi & Hs).
    pose proof (all3_spec _ _ _ _ sub_fields_all i12 sh 0 ltac:(lia) ltac:(lia) ltac:(lia)) as F.
    cbv beta in F. unfold sub_fields in F. cbv zeta in F. split_andb F.
    split; [|split; [|lia]].
    + unfold a_pro_rstep.
      replace (enc_sub_sp i12 sh =? 3573752703) with false by (unfold PACIBSP in *; lia).
      replace (N.land (N.shiftr (enc_sub_sp i12 sh) 22) 761 =? 672) with false by lia.
      replace (bits (enc_sub_sp i12 sh) 23 9 =? 418) with true by lia.
      replace (bits (enc_sub_sp i12 sh) 0 5) with 31 by lia.
      replace (bits (enc_sub_sp i12 sh) 5 5) with 31 by lia.
      change (negb (31 =? 31) || negb (31 =? 31)) with false. cbv iota.
      assert (Ei : imm12_val (enc_sub_sp i12 sh) = imm12 i12 sh).
      { unfold imm12_val, imm12. replace (bits (enc_sub_sp i12 sh) 10 12) with i12 by lia.
        replace (bits (enc_sub_sp i12 sh) 22 1) with sh by lia. reflexivity. }
      rewrite Ei, Hok. reflexivity.
    + lia.
Qed.

(* walking back over the executed part of a prologue recovers by how much sp was lowered *)
Lemma a_pro_walk_exact : forall l spo,
  Forall pvalid l -> (0 <= spo)%Z -> (spo + psum l <= 2147483647)%Z ->
  a_pro_walk (rev (map penc l)) spo = Some (spo + psum l)%Z.
Proof.
  intros l. induction l as [|x l IH] using rev_ind; intros spo Hv H0 Hs.
  - cbn. f_equal. lia.
  - rewrite map_app, rev_app_distr. cbn [map rev app].
    apply Forall_app in Hv. destruct Hv as [Hvl Hvx]. inversion Hvx as [|? ? Hx _]; subst.
    assert (Hsum : psum (l ++ [x]) = (psum l + pdelta x)%Z).
    { clear. induction l as [|y l IH]; cbn; [lia|]. unfold psum in *. cbn. rewrite IH. lia. }
    assert (Hnn : (0 <= psum l)%Z).
    { clear - Hvl. induction l as [|y l IH]; cbn; [lia|]. inversion Hvl; subst.
      pose proof (pdelta_nonneg y ltac:(assumption)). unfold psum in *. cbn. specialize (IH ltac:(assumption)). lia. }
    pose proof (pdelta_nonneg x Hx) as Hd.
    destruct (rstep_enc x spo Hx) as (R1 & R2 & _).
    { unfold i32_ok. lia. }
    cbn [a_pro_walk]. rewrite R2, R1. rewrite IH; [f_equal; lia | exact Hvl | lia | lia].
Qed.

(* ---------- words and bytes ---------- *)
Definition word_bytes (w : N) : list N := [w mod 256; (w / 256) mod 256; (w / 65536) mod 256; (w / 16777216) mod 256].
Definition bytes_of (ws : list N) : list N := flat_map word_bytes ws.
Definition words_ok (ws : list N) : Prop := Forall (fun w => w < 4294967296) ws.

Lemma word_recompose w : w < 4294967296 ->
  w mod 256 + 256 * ((w / 256) mod 256) + 65536 * ((w / 65536) mod 256) + 16777216 * ((w / 16777216) mod 256) = w.
Proof. intros H. lia. Qed.

Lemma words_of_bytes ws : words_ok ws -> words_of (bytes_of ws) = ws.
Proof.
  induction ws as [|w t IH]; intros H; [reflexivity|]. inversion H as [|? ? Hw Ht]; subst.
  unfold bytes_of. cbn [flat_map word_bytes app]. cbn [words_of]. fold (bytes_of t).
  rewrite IH by assumption. rewrite word_recompose by assumption. reflexivity.
Qed.
Lemma word_at_bytes w t : w < 4294967296 -> word_at (bytes_of (w :: t)) 0 = Some w.
Proof. intros H. unfold bytes_of, word_at. cbn [flat_map word_bytes app skipn]. rewrite word_recompose by assumption. reflexivity. Qed.
Lemma word_at_nil : word_at (bytes_of []) 0 = None.
Proof. reflexivity. Qed.
Lemma skipn4_bytes w t : skipn 4 (bytes_of (w :: t)) = bytes_of t.
Proof. reflexivity. Qed.
Lemma bytes_of_app a b : bytes_of (a ++ b) = bytes_of a ++ bytes_of b.
Proof. unfold bytes_of. apply flat_map_app. Qed.
Lemma bytes_of_length ws : length (bytes_of ws) = (4 * length ws)%nat.
Proof. induction ws as [|w t IH]; [reflexivity|]. unfold bytes_of in *. cbn [flat_map word_bytes app length]. rewrite IH. lia. Qed.
Lemma firstn_app_exact {A} (a b : list A) : firstn (length a) (a ++ b) = a.
Proof. induction a; cbn; [destruct b; reflexivity | f_equal; assumption]. Qed.
Lemma skipn_app_exact {A} (a b : list A) : skipn (length a) (a ++ b) = b.
Proof. induction a; cbn; [reflexivity | assumption]. Qed.

Lemma penc_ok l : Forall pvalid l -> words_ok (map penc l).
Proof.
  induction l as [|x l IH]; intros H; [constructor|]. inversion H as [|? ? Hx Hl]; subst. constructor; [|apply IH; exact Hl].
  pose proof (pdelta_nonneg x Hx) as Hd.
  destruct (rstep_enc x 0 Hx) as (_ & _ & R); [unfold i32_ok; lia | exact R].
Qed.

(* the instruction the thread is about to execute: any prologue instruction, or the frame-pointer set-up *)
Inductive pnext := NIns (i : pinsn) | NAddFp (i12 : N).
Definition nenc (n : pnext) : N := match n with NIns i => penc i | NAddFp i12 => enc_add_fp i12 end.
Definition nvalid (n : pnext) : Prop := match n with NIns i => pvalid i | NAddFp i12 => i12 < 4096 end.
(* a signed-offset store is only taken for a prologue instruction once sp has been lowered *)
Definition nneeds_sub (n : pnext) : bool := match n with NIns (PStpOff _ _ _) => true | _ => false end.

Lemma nenc_facts n : nvalid n -> nenc n < 4294967296 /\
  a_pro_itype (nenc n) = (if nneeds_sub n then PCouldBeWithSub else PVeryLikely).
Proof.
  destruct n as [[|a b i7|a b i7|i12 sh]|i12]; cbn [nvalid pvalid nenc penc nneeds_sub]; intros Hv.
  - split; reflexivity.
  - destruct Hv as (Ha & Hb & Hi).
    pose proof (pair_spec _ stp_pre_fields_all a b i7 Ha Hb ltac:(lia)) as F.
    unfold stp_pre_ok, pair_fields in F. fold (enc_stp_pre a b i7) in F. cbv zeta in F. split_andb F.
    split; [lia|]. destruct (a_pro_itype (enc_stp_pre a b i7)); try discriminate; reflexivity.
  - destruct Hv as (Ha & Hb & Hi).
    pose proof (pair_spec _ stp_off_fields_all a b i7 Ha Hb ltac:(lia)) as F.
    unfold stp_off_ok, pair_fields in F. fold (enc_stp_off a b i7) in F. cbv zeta in F. split_andb F.
    split; [lia|]. destruct (a_pro_itype (enc_stp_off a b i7)); try discriminate; reflexivity.
  - destruct Hv as (Hi & Hs).
    pose proof (all3_spec _ _ _ _ sub_fields_all i12 sh 0 ltac:(lia) ltac:(lia) ltac:(lia)) as F.
    cbv beta in F. unfold sub_fields in F. cbv zeta in F. split_andb F.
    split; [lia|]. destruct (a_pro_itype (enc_sub_sp i12 sh)); try discriminate; reflexivity.
  - pose proof (all3_spec _ _ _ _ addfp_fields_all i12 0 0 ltac:(lia) ltac:(lia) ltac:(lia)) as F.
    cbv beta in F. unfold addfp_fields in F. cbv zeta in F. split_andb F.
    split; [lia|]. destruct (a_pro_itype (enc_add_fp i12)); try discriminate; reflexivity.
Qed.

Definition rule_of_delta (d : Z) : arule := let k := Z.to_N (d / 16) in if k =? 0 then ANoOp else AOffsetSp k.

(* the analysis at any boundary inside the prologue, before the frame pointer is set up *)
Theorem prologue_a64_analysis done nxt rest :
  Forall pvalid done -> nvalid nxt -> words_ok rest ->
  (psum done < 1048576)%Z -> (psum done mod 16 = 0)%Z ->
  (nneeds_sub nxt = true -> psum done <> 0%Z) ->
  prologue_a64 (bytes_of (map penc done ++ nenc nxt :: rest)) (4 * length done) = Some (rule_of_delta (psum done)).
Proof.
  intros Hd Hn Hr Hlt Hmod Hsub.
  destruct (nenc_facts nxt Hn) as [Hw Hty].
  assert (Hnn : (0 <= psum done)%Z).
  { clear - Hd. induction done as [|y l IH]; cbn; [lia|]. inversion Hd; subst.
    pose proof (pdelta_nonneg y ltac:(assumption)). unfold psum in *. cbn. specialize (IH ltac:(assumption)). lia. }
  unfold prologue_a64. rewrite bytes_of_app.
  replace (4 * length done)%nat with (length (bytes_of (map penc done))) by (rewrite bytes_of_length, map_length; reflexivity).
  rewrite firstn_app_exact, skipn_app_exact. rewrite word_at_bytes by exact Hw.
  rewrite words_of_bytes by (apply penc_ok; exact Hd).
  rewrite a_pro_walk_exact by (try assumption; lia). rewrite Hty.
  replace (0 + psum done)%Z with (psum done) by lia.
  assert (Hu : u16_of_z (divz (psum done) 16) = Some (Z.to_N (psum done / 16))).
  { unfold u16_of_z, divz. rewrite Z.quot_div_nonneg by lia.
    destruct ((0 <=? psum done / 16)%Z && (psum done / 16 <? 65536)%Z) eqn:E; [reflexivity | lia]. }
  unfold rule_of_delta. destruct (nneeds_sub nxt) eqn:En.
  - specialize (Hsub eq_refl). destruct (psum done =? 0)%Z eqn:E0; [lia|]. rewrite Hu. reflexivity.
  - rewrite Hu. reflexivity.
Qed.

(* the machine: what the executed part of the prologue did to sp and lr (x29 is not written before the set-up;
   pacibsp signs lr: any function that stripping undoes) *)
Section ProMachine.
Variable k : N.
Variable sign : N -> N.
Hypothesis sign_strip : forall v, strip k (sign v) = strip k v.

Definition pexec (i : pinsn) (st : N * N) : N * N :=        (* (sp, lr) *)
  let (s, l) := st in
  match i with
  | PPac => (s, sign l)
  | _ => (Z.to_N (Z.of_N s - pdelta i), l)
  end.
Definition prun (l : list pinsn) (st : N * N) : N * N := fold_left (fun st i => pexec i st) l st.

Lemma prun_facts l : forall s lr0, Forall pvalid l -> (psum l <= Z.of_N s)%Z ->
  fst (prun l (s, lr0)) = Z.to_N (Z.of_N s - psum l) /\ strip k (snd (prun l (s, lr0))) = strip k lr0.
Proof.
  induction l as [|x l IH]; intros s lr0 Hv Hs; cbn [prun fold_left].
  - cbn. split; [lia | reflexivity].
  - inversion Hv as [|? ? Hx Hl]; subst. pose proof (pdelta_nonneg x Hx) as Hd.
    assert (Hnn : (0 <= psum l)%Z).
    { clear - Hl. induction l as [|y l IH]; cbn; [lia|]. inversion Hl; subst.
      pose proof (pdelta_nonneg y ltac:(assumption)). unfold psum in *. cbn. specialize (IH ltac:(assumption)). lia. }
    change (psum (x :: l)) with (pdelta x + psum l)%Z in *.
    assert (Gen : forall s' l', (psum l <= Z.of_N s')%Z -> Z.of_N s' = (Z.of_N s - pdelta x)%Z -> strip k l' = strip k lr0 ->
              fst (prun l (s', l')) = Z.to_N (Z.of_N s - (pdelta x + psum l)) /\ strip k (snd (prun l (s', l'))) = strip k lr0).
    { intros s' l' H1 H2 H3. destruct (IH s' l' Hl H1) as [I1 I2]. split; [rewrite I1; lia | rewrite I2; exact H3]. }
    destruct x as [|a b i7|a b i7|i12 sh]; cbn [pexec]; fold (prun l); apply Gen; cbn [pdelta] in *;
      try lia; try reflexivity; apply sign_strip.
Qed.

(* EXACTNESS: the thread entered the function with (sp0, lr0, fp0), executed [done]; the rule the analyser returns
   for that point, executed on the registers the thread has now, gives the caller's frame *)
Theorem prologue_a64_exact done nxt rest sp0 lr0 fp0 m :
  Forall pvalid done -> nvalid nxt -> words_ok rest ->
  (psum done < 1048576)%Z -> (psum done mod 16 = 0)%Z -> (psum done <= Z.of_N sp0)%Z -> sp0 < W64 ->
  (nneeds_sub nxt = true -> psum done <> 0%Z) ->
  strip k lr0 <> 0 ->
  let st := prun done (sp0, lr0) in
  let rg := mkaregs k (snd st) (fst st) fp0 in
  exists ru, prologue_a64 (bytes_of (map penc done ++ nenc nxt :: rest)) (4 * length done) = Some ru /\
  aexec ru true rg m = (Ok (Some (strip k lr0)), mkaregs k (strip k lr0) sp0 fp0).
Proof.
  intros Hd Hn Hr Hlt Hmod Hle Hsp Hsub Hnz st rg.
  exists (rule_of_delta (psum done)). split; [apply prologue_a64_analysis; assumption|].
  destruct (prun_facts done sp0 lr0 Hd Hle) as [P1 P2]. fold st in P1, P2.
  assert (Hnn : (0 <= psum done)%Z).
  { clear - Hd. induction done as [|y l IH]; cbn; [lia|]. inversion Hd; subst.
    pose proof (pdelta_nonneg y ltac:(assumption)). unfold psum in *. cbn. specialize (IH ltac:(assumption)). lia. }
  unfold rule_of_delta. destruct (Z.to_N (psum done / 16) =? 0) eqn:E0.
  - assert (psum done = 0)%Z by lia.
    unfold aexec. cbn [negb]. unfold aexec_tail. subst rg. cbn [mask lr asp afp].
    rewrite P2. destruct (strip k lr0 =? 0) eqn:Ez; [lia|]. cbn [negb andb].
    unfold set_afp, set_asp, set_lr. cbn [mask lr asp afp]. rewrite P2, P1. repeat f_equal. lia.
  - unfold aexec. cbn [negb]. subst rg. cbn [mask lr asp afp]. rewrite P1.
    unfold add64c. replace (Z.to_N (Z.of_N sp0 - psum done) + Z.to_N (psum done / 16) * 16) with sp0 by lia.
    destruct (sp0 <? W64) eqn:El; [|lia].
    unfold aexec_tail. cbn [mask lr asp afp]. rewrite P2. destruct (strip k lr0 =? 0) eqn:Ez; [lia|]. cbn [negb andb].
    unfold set_afp, set_asp, set_lr. cbn [mask lr asp afp]. rewrite P2. reflexivity.
Qed.
End ProMachine.

(* ====================================================================== epilogues *)
Inductive einsn := EAddSp (i12 sh : N) | ELdpOff (a b i7 : N) | ELdpPost (a b i7 : N).
Inductive eterm := TRet | TRetab | TB (i26 : N).
Definition eenc (i : einsn) : N :=
  match i with EAddSp i12 sh => enc_add_sp i12 sh | ELdpOff a b i7 => enc_ldp_off a b i7 | ELdpPost a b i7 => enc_ldp_post a b i7 end.
Definition tenc (t : eterm) : N := match t with TRet => RET | TRetab => RETAB | TB i => enc_b i end.
(* a post-index load in an epilogue moves sp UP *)
Definition evalid (i : einsn) : Prop :=
  match i with
  | EAddSp i12 sh => i12 < 4096 /\ sh < 2
  | ELdpOff a b i7 => creg a /\ creg b /\ i7 < 128
  | ELdpPost a b i7 => creg a /\ creg b /\ i7 < 64
  end.
Definition tvalid (t : eterm) : Prop := match t with TB i => i < 67108864 | _ => True end.

Definition upd (r : N) (loc : Z) (fl : option Z * option Z) : option Z * option Z :=
  if r =? 29 then (Some loc, snd fl) else if r =? 30 then (fst fl, Some loc) else fl.

(* what the analyser's state should be after one more instruction (the specification of a_epi_step) *)
Definition sstep (i : einsn) (s : epi_state) : epi_state :=
  match i with
  | EAddSp i12 sh => mkes (es_sp s + imm12 i12 sh) (es_fp s) (es_lr s)
  | ELdpOff a b i7 =>
      let loc := (es_sp s + simm7 i7 * 8)%Z in
      let fl := upd b (loc + 8) (upd a loc (es_fp s, es_lr s)) in
      mkes (es_sp s) (fst fl) (snd fl)
  | ELdpPost a b i7 =>
      let loc := es_sp s in
      let fl := upd b (loc + 8) (upd a loc (es_fp s, es_lr s)) in
      mkes (es_sp s + simm7 i7 * 8) (fst fl) (snd fl)
  end.
Definition edelta (i : einsn) : Z :=
  match i with EAddSp i12 sh => imm12 i12 sh | ELdpPost _ _ i7 => (simm7 i7 * 8)%Z | _ => 0%Z end.
Lemma edelta_nonneg i : evalid i -> (0 <= edelta i <= 16777216)%Z.
Proof. destruct i; cbn; unfold simm7, imm12; intros H; try lia.
  - destruct H as [H1 H2]. destruct (sh =? 1); lia.
  - destruct H as (_ & _ & H). destruct (i7 <? 64) eqn:E; lia.
Qed.
Lemma sstep_sp i s : es_sp (sstep i s) = (es_sp s + edelta i)%Z.
Proof. destruct i; cbn; lia. Qed.

Lemma upd_analyser r1 r2 loc loc2 f l :
  (let fp1 := if r1 =? 29 then Some loc else f in
   let lr1 := if r1 =? 29 then l else if r1 =? 30 then Some loc else l in
   let fp2 := if r2 =? 29 then Some loc2 else fp1 in
   let lr2 := if r2 =? 29 then lr1 else if r2 =? 30 then Some loc2 else lr1 in
   (fp2, lr2)) = upd r2 loc2 (upd r1 loc (f, l)).
Proof. unfold upd. destruct (r1 =? 29), (r1 =? 30), (r2 =? 29), (r2 =? 30); reflexivity. Qed.

Lemma epi_step_enc i s : evalid i -> (0 <= es_sp s <= 1073741824)%Z ->
  a_epi_step (eenc i) s = ENeedMore (sstep i s) /\ eenc i < 4294967296.
Proof.
  destruct i as [i12 sh|a b i7|a b i7]; cbn [evalid eenc]; intros Hv Hs.
  - destruct Hv as (Hi & Hsh).
    pose proof (all3_spec _ _ _ _ add_fields_all i12 sh 0 ltac:(lia) ltac:(lia) ltac:(lia)) as F.
    cbv beta in F. unfold add_fields in F. cbv zeta in F. split_andb F. split; [|lia].
    unfold a_epi_step.
    replace (enc_add_sp i12 sh =? 3596551104) with false by (unfold RET in *; lia).
    replace (enc_add_sp i12 sh =? 3596554239) with false by (unfold RETAB in *; lia).
    replace (enc_add_sp i12 sh =? 3573752831) with false by lia.
    replace (N.shiftr (enc_add_sp i12 sh) 26 =? 5) with false by lia.
    replace (N.land (N.shiftr (enc_add_sp i12 sh) 22) 761 =? 673) with false by lia.
    replace (bits (enc_add_sp i12 sh) 23 9 =? 290) with true by lia.
    replace (bits (enc_add_sp i12 sh) 0 5) with 31 by lia. replace (bits (enc_add_sp i12 sh) 5 5) with 31 by lia.
    cbn [orb]. change (negb (31 =? 31) || negb (31 =? 31)) with false. cbv iota.
    assert (Ei : imm12_val (enc_add_sp i12 sh) = imm12 i12 sh).
    { unfold imm12_val, imm12. replace (bits (enc_add_sp i12 sh) 10 12) with i12 by lia.
      replace (bits (enc_add_sp i12 sh) 22 1) with sh by lia. reflexivity. }
    rewrite Ei. assert (Hok : i32_ok (es_sp s + imm12 i12 sh) = true).
    { unfold i32_ok, imm12. destruct (sh =? 1); lia. }
    rewrite Hok. reflexivity.
  - destruct Hv as (Ha & Hb & Hi).
    pose proof (pair_spec _ ldp_off_fields_all a b i7 Ha Hb ltac:(lia)) as F.
    unfold ldp_off_ok, pair_fields in F. fold (enc_ldp_off a b i7) in F. cbv zeta in F. split_andb F. split; [|lia].
    unfold a_epi_step.
    replace (enc_ldp_off a b i7 =? 3596551104) with false by (unfold RET in *; lia).
    replace (enc_ldp_off a b i7 =? 3596554239) with false by (unfold RETAB in *; lia).
    replace (enc_ldp_off a b i7 =? 3573752831) with false by lia.
    replace (N.shiftr (enc_ldp_off a b i7) 26 =? 5) with false by lia.
    replace (N.land (N.shiftr (enc_ldp_off a b i7) 22) 761 =? 673) with true by lia.
    replace (bits (enc_ldp_off a b i7) 23 2) with 2 by lia. replace (bits (enc_ldp_off a b i7) 5 5) with 31 by lia.
    replace (bits (enc_ldp_off a b i7) 0 5) with a by lia. replace (bits (enc_ldp_off a b i7) 10 5) with b by lia.
    cbn [orb]. change (2 =? 0) with false. change (negb (31 =? 31)) with false. change (2 =? 1) with false. change (2 =? 3) with false.
    cbv iota. cbv zeta. unfold enc_ldp_off. rewrite imm7_scaled_enc by (unfold enc_ldp_off in *; lia).
    assert (Hr : (-512 <= simm7 i7 * 8 <= 504)%Z) by (unfold simm7; destruct (i7 <? 64) eqn:E; lia).
    replace (i32_ok (es_sp s + simm7 i7 * 8)) with true by (unfold i32_ok; lia).
    replace (i32_ok (es_sp s + simm7 i7 * 8 + 8)) with true by (unfold i32_ok; lia).
    cbn [negb orb]. cbv iota. f_equal. cbn [sstep]. cbv zeta.
    pose proof (upd_analyser a b (es_sp s + simm7 i7 * 8)%Z (es_sp s + simm7 i7 * 8 + 8)%Z (es_fp s) (es_lr s)) as U.
    cbv zeta in U. rewrite <- U. reflexivity.
  - destruct Hv as (Ha & Hb & Hi).
    pose proof (pair_spec _ ldp_post_fields_all a b i7 Ha Hb ltac:(lia)) as F.
    unfold ldp_post_ok, pair_fields in F. fold (enc_ldp_post a b i7) in F. cbv zeta in F. split_andb F. split; [|lia].
    unfold a_epi_step.
    replace (enc_ldp_post a b i7 =? 3596551104) with false by (unfold RET in *; lia).
    replace (enc_ldp_post a b i7 =? 3596554239) with false by (unfold RETAB in *; lia).
    replace (enc_ldp_post a b i7 =? 3573752831) with false by lia.
    replace (N.shiftr (enc_ldp_post a b i7) 26 =? 5) with false by lia.
    replace (N.land (N.shiftr (enc_ldp_post a b i7) 22) 761 =? 673) with true by lia.
    replace (bits (enc_ldp_post a b i7) 23 2) with 1 by lia. replace (bits (enc_ldp_post a b i7) 5 5) with 31 by lia.
    replace (bits (enc_ldp_post a b i7) 0 5) with a by lia. replace (bits (enc_ldp_post a b i7) 10 5) with b by lia.
    cbn [orb]. change (1 =? 0) with false. change (negb (31 =? 31)) with false. change (1 =? 1) with true. change (1 =? 3) with false.
    cbv iota. cbv zeta. unfold enc_ldp_post. rewrite imm7_scaled_enc by (unfold enc_ldp_post in *; lia).
    assert (Hr : (0 <= simm7 i7 * 8 <= 504)%Z) by (unfold simm7; destruct (i7 <? 64) eqn:E; lia).
    replace (i32_ok (es_sp s + simm7 i7 * 8)) with true by (unfold i32_ok; lia).
    replace (i32_ok (es_sp s + 8)) with true by (unfold i32_ok; lia).
    cbn [negb orb]. cbv iota. f_equal. cbn [sstep]. cbv zeta.
    pose proof (upd_analyser a b (es_sp s) (es_sp s + 8)%Z (es_fp s) (es_lr s)) as U.
    cbv zeta in U. rewrite <- U. reflexivity.
Qed.

(* b imm26: the top six bits are 000101 whatever the immediate *)
Lemma enc_b_facts i : i < 67108864 ->
  enc_b i < 4294967296 /\ N.shiftr (enc_b i) 26 = 5 /\ enc_b i <> RET /\ enc_b i <> RETAB /\ enc_b i <> 3573752831.
Proof.
  intros H. unfold enc_b, RET, RETAB. rewrite N.shiftr_div_pow2. change (2 ^ 26) with 67108864. repeat split; lia.
Qed.

Definition run_spec (l : list einsn) (s : epi_state) : epi_state := fold_left (fun s i => sstep i s) l s.
Definition esum (l : list einsn) : Z := fold_right (fun i acc => (edelta i + acc)%Z) 0%Z l.
Lemma esum_nonneg l : Forall evalid l -> (0 <= esum l)%Z.
Proof. induction l as [|y l IH]; intros H; cbn; [lia|]. inversion H; subst.
  pose proof (edelta_nonneg y ltac:(assumption)). specialize (IH ltac:(assumption)). unfold esum in *. lia. Qed.
Lemma run_spec_sp l : forall s, es_sp (run_spec l s) = (es_sp s + esum l)%Z.
Proof. induction l as [|x l IH]; intros s; cbn [run_spec fold_left]; [cbn; lia|].
  fold (run_spec l (sstep x s)). rewrite IH, sstep_sp. cbn [esum fold_right]. fold (esum l). lia. Qed.

(* the terminator ends the loop with the state reached (a tail-call branch only if sp has been raised) *)
Definition term_ok (t : eterm) (s : epi_state) : Prop := match t with TB _ => es_sp s <> 0%Z | _ => True end.
Lemma epi_term t s more fuel : tvalid t -> term_ok t s -> a_epi_loop (S fuel) (tenc t) more s = Some s.
Proof.
  intros Hv Hok. cbn [a_epi_loop]. destruct t as [| |i]; cbn [tenc]; unfold a_epi_step.
  - reflexivity.
  - reflexivity.
  - destruct (enc_b_facts i Hv) as (_ & H26 & N1 & N2 & N3). unfold RET, RETAB in *.
    replace (enc_b i =? 3596551104) with false by lia. replace (enc_b i =? 3596554239) with false by lia.
    replace (enc_b i =? 3573752831) with false by lia. rewrite H26. change (5 =? 5) with true. cbn [orb]. cbv iota.
    cbn [term_ok] in Hok. destruct (es_sp s =? 0)%Z eqn:E; [lia | reflexivity].
Qed.

Lemma tenc_ok t : tvalid t -> tenc t < 4294967296.
Proof. destruct t; cbn; unfold RET, RETAB; try lia. intros H. apply enc_b_facts; exact H. Qed.

(* the forward loop over the rest of an epilogue: one unit of fuel per instruction *)
Lemma epi_loop_exact t more : tvalid t -> forall l x s fuel,
  Forall evalid (x :: l) -> (0 <= es_sp s)%Z -> (es_sp s + esum (x :: l) <= 1073741824)%Z ->
  term_ok t (run_spec (x :: l) s) -> (length l + 2 <= fuel)%nat ->
  a_epi_loop fuel (eenc x) (bytes_of (map eenc l ++ tenc t :: more)) s = Some (run_spec (x :: l) s).
Proof.
  intros Ht l. induction l as [|y l IH]; intros x s fuel Hv H0 Hs Hok Hf.
  - destruct fuel as [|[|f]]; cbn [length] in Hf; try lia.
    inversion Hv as [|? ? Hx _]; subst. pose proof (edelta_nonneg x Hx) as Hd. cbn [esum fold_right] in Hs.
    destruct (epi_step_enc x s Hx) as [E1 _]; [lia|].
    cbn [a_epi_loop]. rewrite E1. cbn [map app]. rewrite word_at_bytes by (apply tenc_ok; exact Ht).
    rewrite skipn4_bytes. apply epi_term; assumption.
  - destruct fuel as [|f]; cbn [length] in Hf; [lia|].
    inversion Hv as [|? ? Hx Hl]; subst. pose proof (edelta_nonneg x Hx) as Hd.
    pose proof (esum_nonneg (y :: l) Hl) as Hn.
    change (esum (x :: y :: l)) with (edelta x + esum (y :: l))%Z in Hs.
    destruct (epi_step_enc x s Hx) as [E1 _]; [lia|].
    cbn [a_epi_loop]. rewrite E1. cbn [map app].
    inversion Hl as [|? ? Hy _]; subst.
    destruct (epi_step_enc y (sstep x s) Hy) as [_ Ey]; [rewrite sstep_sp; lia|].
    rewrite word_at_bytes by exact Ey. rewrite skipn4_bytes.
    change (run_spec (x :: y :: l) s) with (run_spec (y :: l) (sstep x s)) in *.
    apply IH; try assumption; rewrite ?sstep_sp; try lia.
Qed.

Lemma eenc_itype x : evalid x -> a_epi_itype (eenc x) = EVeryLikely /\ eenc x < 4294967296.
Proof.
  destruct x as [i12 sh|a b i7|a b i7]; cbn [evalid eenc]; intros Hv.
  - destruct Hv as (Hi & Hsh).
    pose proof (all3_spec _ _ _ _ add_fields_all i12 sh 0 ltac:(lia) ltac:(lia) ltac:(lia)) as F.
    cbv beta in F. unfold add_fields in F. cbv zeta in F. split_andb F. split; [|lia].
    destruct (a_epi_itype (enc_add_sp i12 sh)); try discriminate; reflexivity.
  - destruct Hv as (Ha & Hb & Hi).
    pose proof (pair_spec _ ldp_off_fields_all a b i7 Ha Hb ltac:(lia)) as F.
    unfold ldp_off_ok, pair_fields in F. fold (enc_ldp_off a b i7) in F. cbv zeta in F. split_andb F. split; [|lia].
    destruct (a_epi_itype (enc_ldp_off a b i7)); try discriminate; reflexivity.
  - destruct Hv as (Ha & Hb & Hi).
    pose proof (pair_spec _ ldp_post_fields_all a b i7 Ha Hb ltac:(lia)) as F.
    unfold ldp_post_ok, pair_fields in F. fold (enc_ldp_post a b i7) in F. cbv zeta in F. split_andb F. split; [|lia].
    destruct (a_epi_itype (enc_ldp_post a b i7)); try discriminate; reflexivity.
Qed.

Definition s0 : epi_state := mkes 0 None None.

(* the analysis at an epilogue instruction: the rule of the state the rest of the epilogue leads to *)
Theorem epilogue_a64_analysis pre x l t more :
  words_ok pre -> Forall evalid (x :: l) -> tvalid t -> (esum (x :: l) <= 1073741824)%Z ->
  term_ok t (run_spec (x :: l) s0) ->
  epilogue_a64 (bytes_of (pre ++ eenc x :: map eenc l ++ tenc t :: more)) (4 * length pre) =
  a_epi_rule (run_spec (x :: l) s0).
Proof.
  intros Hp Hv Ht Hs Hok. inversion Hv as [|? ? Hx Hl]; subst.
  destruct (eenc_itype x Hx) as [Hty Hw].
  unfold epilogue_a64. rewrite bytes_of_app.
  replace (4 * length pre)%nat with (length (bytes_of pre)) by (rewrite bytes_of_length; reflexivity).
  rewrite skipn_app_exact. rewrite word_at_bytes by exact Hw. rewrite Hty. rewrite skipn4_bytes.
  rewrite (epi_loop_exact t more Ht l x s0); try assumption.
  - reflexivity.
  - unfold s0; cbn; lia.
  - rewrite bytes_of_length. cbn [length]. rewrite app_length, map_length. cbn [length]. lia.
Qed.

(* at the return instruction itself everything has been restored *)
Theorem epilogue_a64_at_ret pre t more : words_ok pre -> (t = TRet \/ t = TRetab) ->
  epilogue_a64 (bytes_of (pre ++ tenc t :: more)) (4 * length pre) = Some ANoOp.
Proof.
  intros Hp Ht. unfold epilogue_a64. rewrite bytes_of_app.
  replace (4 * length pre)%nat with (length (bytes_of pre)) by (rewrite bytes_of_length; reflexivity).
  rewrite skipn_app_exact. destruct Ht as [-> | ->]; cbn [tenc].
  - rewrite word_at_bytes by (unfold RET; lia). reflexivity.
  - rewrite word_at_bytes by (unfold RETAB; lia). reflexivity.
Qed.

Lemma itype_b i : i < 67108864 -> a_epi_itype (enc_b i) = ECouldBeTailCall 16.
Proof.
  intros H. destruct (enc_b_facts i H) as (Hw & H26 & N1 & N2 & N3). unfold a_epi_itype. unfold RET, RETAB in *.
  assert (Hs : enc_b i < 402653184) by (unfold enc_b; lia).
  replace (enc_b i =? 3596551104) with false by lia. replace (enc_b i =? 3596554239) with false by lia.
  replace (enc_b i =? 3573752831) with false by lia. replace (enc_b i =? 3390965712) with false by lia.
  replace (enc_b i =? 3069182032) with false by lia. replace (enc_b i =? 3560476192) with false by lia.
  rewrite H26. reflexivity.
Qed.

Lemma adjusts_enc x : evalid x -> (match x with ELdpOff _ _ _ => False | _ => True end) -> adjusts_sp (eenc x) = true.
Proof.
  destruct x as [i12 sh|a b i7|a b i7]; cbn [evalid eenc]; intros Hv Hk; try contradiction.
  - destruct Hv as (Hi & Hsh).
    pose proof (all3_spec _ _ _ _ add_fields_all i12 sh 0 ltac:(lia) ltac:(lia) ltac:(lia)) as F.
    cbv beta in F. unfold add_fields in F. cbv zeta in F. split_andb F. assumption.
  - destruct Hv as (Ha & Hb & Hi).
    pose proof (pair_spec _ ldp_post_fields_all a b i7 Ha Hb ltac:(lia)) as F.
    unfold ldp_post_ok, pair_fields in F. fold (enc_ldp_post a b i7) in F. cbv zeta in F. split_andb F. assumption.
Qed.

(* at a tail-call branch that follows the instruction which raised sp, everything has been restored *)
Theorem epilogue_a64_at_tail_call pre x i more :
  words_ok pre -> evalid x -> (match x with ELdpOff _ _ _ => False | _ => True end) -> i < 67108864 ->
  epilogue_a64 (bytes_of ((pre ++ [eenc x]) ++ enc_b i :: more)) (4 * length (pre ++ [eenc x])) = Some ANoOp.
Proof.
  intros Hp Hx Hk Hi. destruct (enc_b_facts i Hi) as (Hw & _).
  destruct (eenc_itype x Hx) as [_ Hxw].
  unfold epilogue_a64. rewrite bytes_of_app.
  replace (4 * length (pre ++ [eenc x]))%nat with (length (bytes_of (pre ++ [eenc x]))) by (rewrite bytes_of_length; reflexivity).
  rewrite skipn_app_exact. rewrite word_at_bytes by exact Hw. rewrite (itype_b i Hi). cbv zeta.
  match goal with |- (if ?c then _ else _) = _ => destruct c end; [reflexivity|].
  assert (Hlen : (length (bytes_of (pre ++ [eenc x])) = length (bytes_of pre) + 4)%nat).
  { rewrite !bytes_of_length, app_length. cbn [length]. lia. }
  assert (H4 : Nat.leb 4 (length (bytes_of (pre ++ [eenc x]))) = true) by (apply Nat.leb_le; lia).
  rewrite H4. replace (length (bytes_of (pre ++ [eenc x])) - 4)%nat with (length (bytes_of pre)) by lia.
  rewrite (bytes_of_app pre [eenc x]), <- app_assoc, skipn_app_exact.
  rewrite <- bytes_of_app. cbn [app]. rewrite word_at_bytes by exact Hxw.
  rewrite (adjusts_enc x Hx Hk). reflexivity.
Qed.

(* ---------- the machine: what the rest of the epilogue does ---------- *)
Section EpiMachine.
Variable m : mem.
Definition rd (a : N) : N := match m a with Some v => v | None => 0 end.
Record mst := mkmst { m_sp : N; m_fp : N; m_lr : N }.
Definition wr (r v : N) (st : mst) : mst :=
  if r =? 29 then mkmst (m_sp st) v (m_lr st) else if r =? 30 then mkmst (m_sp st) (m_fp st) v else st.
Definition zaddr (base : N) (off : Z) : N := Z.to_N (Z.of_N base + off).
Definition mexec (i : einsn) (st : mst) : mst :=
  match i with
  | EAddSp i12 sh => mkmst (zaddr (m_sp st) (imm12 i12 sh)) (m_fp st) (m_lr st)
  | ELdpOff a b i7 =>
      let a0 := zaddr (m_sp st) (simm7 i7 * 8) in
      wr b (rd (a0 + 8)) (wr a (rd a0) st)
  | ELdpPost a b i7 =>
      let a0 := m_sp st in
      let st' := wr b (rd (a0 + 8)) (wr a (rd a0) st) in
      mkmst (zaddr a0 (simm7 i7 * 8)) (m_fp st') (m_lr st')
  end.
Definition mrun (l : list einsn) (st : mst) : mst := fold_left (fun st i => mexec i st) l st.

(* the machine state an analyser state stands for, relative to the registers at the point of interruption *)
Variables sp0 fp0 lr0 : N.
Definition M (s : epi_state) : mst :=
  mkmst (zaddr sp0 (es_sp s))
        (match es_fp s with Some loc => rd (zaddr sp0 loc) | None => fp0 end)
        (match es_lr s with Some loc => rd (zaddr sp0 loc) | None => lr0 end).

Lemma mexec_M x s : evalid x -> (0 <= es_sp s)%Z -> (512 <= Z.of_N sp0)%Z -> mexec x (M s) = M (sstep x s).
Proof.
  intros Hx Hs Hsp. destruct x as [i12 sh|a b i7|a b i7]; cbn [mexec sstep]; unfold M; cbn [m_sp m_fp m_lr es_sp es_fp es_lr].
  - pose proof (edelta_nonneg (EAddSp i12 sh) Hx) as Hd. cbn [edelta] in Hd. f_equal. unfold zaddr. lia.
  - cbv zeta. assert (Hr : (-512 <= simm7 i7 * 8 <= 504)%Z) by (unfold simm7; destruct (i7 <? 64) eqn:E; cbn in Hx; lia).
    replace (zaddr (zaddr sp0 (es_sp s)) (simm7 i7 * 8)) with (zaddr sp0 (es_sp s + simm7 i7 * 8)) by (unfold zaddr; lia).
    replace (zaddr sp0 (es_sp s + simm7 i7 * 8) + 8) with (zaddr sp0 (es_sp s + simm7 i7 * 8 + 8)) by (unfold zaddr; lia).
    unfold wr, upd. cbn [m_sp m_fp m_lr fst snd].
    destruct (a =? 29), (a =? 30), (b =? 29), (b =? 30); cbn [m_sp m_fp m_lr fst snd]; reflexivity.
  - cbv zeta. assert (Hr : (0 <= simm7 i7 * 8 <= 504)%Z) by (unfold simm7; destruct (i7 <? 64) eqn:E; cbn in Hx; lia).
    replace (zaddr sp0 (es_sp s) + 8) with (zaddr sp0 (es_sp s + 8)) by (unfold zaddr; lia).
    replace (zaddr (zaddr sp0 (es_sp s)) (simm7 i7 * 8)) with (zaddr sp0 (es_sp s + simm7 i7 * 8)) by (unfold zaddr; lia).
    unfold wr, upd. cbn [m_sp m_fp m_lr fst snd].
    destruct (a =? 29), (a =? 30), (b =? 29), (b =? 30); cbn [m_sp m_fp m_lr fst snd]; reflexivity.
Qed.

Lemma mrun_M l : forall s, Forall evalid l -> (0 <= es_sp s)%Z -> (512 <= Z.of_N sp0)%Z ->
  mrun l (M s) = M (run_spec l s).
Proof.
  induction l as [|x l IH]; intros s Hv Hs Hsp; [reflexivity|]. inversion Hv as [|? ? Hx Hl]; subst.
  cbn [mrun run_spec fold_left]. fold (mrun l) (run_spec l). rewrite mexec_M by assumption.
  apply IH; try assumption. rewrite sstep_sp. pose proof (edelta_nonneg x Hx). lia.
Qed.
End EpiMachine.

Lemma divz_exact z d : (0 < d)%Z -> (z mod d = 0)%Z -> divz z d = (z / d)%Z.
Proof. intros Hd Hm. unfold divz. assert (E : z = (z / d * d)%Z) by (pose proof (Z.div_mod z d); lia).
  rewrite E at 1. apply Z.quot_mul. lia. Qed.

(* a location the analyser recorded can be used by a rule: a multiple of 8 within the i16 range, readable *)
Definition loc_ok (m : mem) (sp0 : N) (o : option Z) : Prop :=
  match o with
  | None => True
  | Some z => (z mod 8 = 0)%Z /\ (-262144 <= z <= 262136)%Z /\ m (zaddr sp0 z) <> None
  end.

Lemma adds_loc sp0 z : (512 <= Z.of_N sp0)%Z -> sp0 + 2097152 < W64 -> (z mod 8 = 0)%Z -> (-262144 <= z <= 262136)%Z ->
  (0 <= Z.of_N sp0 + z)%Z ->
  i16_of_z (divz z 8) = Some (z / 8)%Z /\ adds64c sp0 (z / 8 * 8) = Some (zaddr sp0 z).
Proof.
  intros H1 H2 Hm Hr Hp. rewrite divz_exact by lia. split.
  - unfold i16_of_z. destruct ((-32768 <=? z / 8)%Z && (z / 8 <=? 32767)%Z) eqn:E; [reflexivity | lia].
  - rewrite adds64c_spec; [| unfold W64 in *; lia | unfold in_i64, I64MIN, I64MAX; lia].
    unfold zaddr. replace (z / 8 * 8)%Z with z by lia.
    destruct ((0 <=? Z.of_N sp0 + z)%Z && (Z.of_N sp0 + z <? Z.of_N W64)%Z) eqn:E; [reflexivity | unfold W64 in *; lia].
Qed.

(* EXACTNESS: the thread is about to execute epilogue instruction x with registers (sp0, fp0, lr0); the rule the
   analyser returns, executed on these registers, produces exactly what running the rest of the epilogue on the
   machine produces: the return address in lr (stripped), the caller's sp and the caller's fp *)
Theorem epilogue_a64_exact pre x l t more k sp0 fp0 lr0 m :
  words_ok pre -> Forall evalid (x :: l) -> tvalid t ->
  let sF := run_spec (x :: l) s0 in
  let MF := mrun m (x :: l) (mkmst sp0 fp0 lr0) in
  term_ok t sF ->
  (es_sp sF < 1048576)%Z -> (es_sp sF mod 16 = 0)%Z ->
  loc_ok m sp0 (es_fp sF) -> loc_ok m sp0 (es_lr sF) -> (es_fp sF <> None -> es_lr sF <> None) ->
  (262144 <= Z.of_N sp0)%Z -> sp0 + 2097152 < W64 ->
  strip k (m_lr MF) <> 0 ->
  exists ru,
    epilogue_a64 (bytes_of (pre ++ eenc x :: map eenc l ++ tenc t :: more)) (4 * length pre) = Some ru /\
    aexec ru true (mkaregs k lr0 sp0 fp0) m = (Ok (Some (strip k (m_lr MF))), mkaregs k (strip k (m_lr MF)) (m_sp MF) (m_fp MF)).
Proof.
  intros Hp Hv Ht sF MF Hok Hlt Hmod Hf Hl Hfl Hsp Hov Hnz.
  assert (Hsum : es_sp sF = esum (x :: l)) by (unfold sF; rewrite run_spec_sp; unfold s0; cbn [es_sp]; lia).
  pose proof (esum_nonneg _ Hv) as Hnn.
  assert (HM : MF = M m sp0 fp0 lr0 sF).
  { unfold MF, sF. rewrite <- (mrun_M m sp0 fp0 lr0 (x :: l) s0 Hv); [|unfold s0; cbn; lia|lia].
    f_equal. unfold M, s0. cbn [es_sp es_fp es_lr]. f_equal. unfold zaddr. lia. }
  rewrite (epilogue_a64_analysis pre x l t more Hp Hv Ht); [|lia|exact Hok]. fold sF.
  assert (Hu : u16_of_z (divz (es_sp sF) 16) = Some (Z.to_N (es_sp sF / 16))).
  { rewrite divz_exact by lia. unfold u16_of_z.
    destruct ((0 <=? es_sp sF / 16)%Z && (es_sp sF / 16 <? 65536)%Z) eqn:E; [reflexivity | lia]. }
  unfold a_epi_rule. rewrite Hu. rewrite HM in *. unfold M in *. cbn [m_sp m_fp m_lr] in *.
  set (kk := Z.to_N (es_sp sF / 16)) in *.
  assert (Hns : sp0 + kk * 16 = zaddr sp0 (es_sp sF)) by (unfold zaddr, kk; lia).
  assert (Hadd : add64c sp0 (kk * 16) = Some (zaddr sp0 (es_sp sF))).
  { unfold add64c. rewrite Hns. destruct (zaddr sp0 (es_sp sF) <? W64) eqn:E; [reflexivity | unfold zaddr, W64 in *; lia]. }
  destruct (es_fp sF) as [f|] eqn:Ef; destruct (es_lr sF) as [lo|] eqn:El.
  - (* fp and lr restored *)
    destruct Hf as (Hf1 & Hf2 & Hf3). destruct Hl as (Hl1 & Hl2 & Hl3).
    destruct (adds_loc sp0 f) as [A1 A2]; try assumption; try lia.
    destruct (adds_loc sp0 lo) as [B1 B2]; try assumption; try lia.
    rewrite A1, B1. eexists; split; [reflexivity|].
    unfold aexec. cbn [mask lr asp afp]. rewrite Hadd, B2.
    unfold rd in *. destruct (m (zaddr sp0 lo)) as [nl|] eqn:Enl; [|contradiction].
    rewrite A2. destruct (m (zaddr sp0 f)) as [nf|] eqn:Enf; [|contradiction].
    unfold aexec_tail. cbn [mask lr asp afp]. destruct (strip k nl =? 0) eqn:Ez; [lia|]. cbn [negb andb].
    unfold set_afp, set_asp, set_lr. cbn [mask lr asp afp]. reflexivity.
  - exfalso. apply Hfl; [discriminate | reflexivity].
  - (* only lr restored *)
    destruct Hl as (Hl1 & Hl2 & Hl3).
    destruct (adds_loc sp0 lo) as [B1 B2]; try assumption; try lia.
    rewrite B1. eexists; split; [reflexivity|].
    unfold aexec. cbn [mask lr asp afp]. rewrite Hadd, B2.
    unfold rd in *. destruct (m (zaddr sp0 lo)) as [nl|] eqn:Enl; [|contradiction].
    unfold aexec_tail. cbn [mask lr asp afp]. destruct (strip k nl =? 0) eqn:Ez; [lia|]. cbn [negb andb].
    unfold set_afp, set_asp, set_lr. cbn [mask lr asp afp]. reflexivity.
  - (* nothing left to restore but sp *)
    destruct (kk =? 0) eqn:Ek; (eexists; split; [reflexivity|]).
    + assert (es_sp sF = 0)%Z by (unfold kk in *; lia).
      unfold aexec. cbn [negb]. unfold aexec_tail. cbn [mask lr asp afp].
      destruct (strip k lr0 =? 0) eqn:Ez; [lia|]. cbn [negb andb].
      unfold set_afp, set_asp, set_lr. cbn [mask lr asp afp]. repeat f_equal. unfold zaddr. lia.
    + unfold aexec. cbn [negb]. cbn [mask lr asp afp]. rewrite Hadd.
      unfold aexec_tail. cbn [mask lr asp afp]. destruct (strip k lr0 =? 0) eqn:Ez; [lia|]. cbn [negb andb].
      unfold set_afp, set_asp, set_lr. cbn [mask lr asp afp]. reflexivity.
Qed.

(* the grammar is inhabited: clang's frame with two callee-saved pairs and 32 bytes of locals, stopped at the
   first epilogue instruction; and its prologue stopped before the frame-pointer set-up *)
Example epilogue_example :
  let l := [EAddSp 32 0; ELdpOff 29 30 4; ELdpPost 20 19 6] in
  Forall evalid l /\ run_spec l s0 = mkes 80 (Some 64%Z) (Some 72%Z) /\
  epilogue_a64 (bytes_of ([2853240832] ++ map eenc l ++ [RET])) 4 = Some (AOffsetSpAndRestoreFpAndLr 5 8 9).
Proof. cbv zeta. split; [repeat constructor; cbn; lia|]. split; vm_compute; reflexivity. Qed.
Example prologue_example :
  let done := [PPac; PStpPre 20 19 122; PStpOff 29 30 4] in
  Forall pvalid done /\ psum done = 48%Z /\
  prologue_a64 (bytes_of (map penc done ++ [enc_add_fp 32; enc_sub_sp 32 0])) 12 = Some (AOffsetSp 3).
Proof. cbv zeta. split; [repeat constructor; cbn; lia|]. split; vm_compute; reflexivity. Qed.
