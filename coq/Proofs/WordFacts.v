(* WordFacts.v - characterisations of the checked arithmetic used by every later proof. *)
From FH Require Import Word.
From Coq Require Import Lia ZifyBool ZifyN.
Open Scope N_scope.
Ltac Zify.zify_post_hook ::= Z.div_mod_to_equations.

Lemma W64_val : W64 = 2 ^ 64. Proof. reflexivity. Qed.

Lemma add64c_some a b r : add64c a b = Some r <-> (r = a + b /\ a + b < W64).
Proof. unfold add64c. destruct (a + b <? W64) eqn:E; split; intros H.
  - inversion H; subst. split; [reflexivity | lia].
  - destruct H as [-> _]; reflexivity.
  - discriminate.
  - lia.
Qed.

Lemma add64c_none a b : add64c a b = None <-> W64 <= a + b.
Proof. unfold add64c. destruct (a + b <? W64) eqn:E; split; intros H; try discriminate; try lia; reflexivity. Qed.

Lemma sub64c_some a b r : sub64c a b = Some r <-> (b <= a /\ r = a - b).
Proof. unfold sub64c. destruct (b <=? a) eqn:E; split; intros H.
  - inversion H; split; [lia | reflexivity].
  - destruct H as [_ ->]; reflexivity.
  - discriminate.
  - lia.
Qed.

Lemma sub64p_ok s a b r : sub64p s a b = Ok r <-> (b <= a /\ r = a - b).
Proof. unfold sub64p. destruct (b <=? a) eqn:E; split; intros H.
  - inversion H; split; [lia | reflexivity].
  - destruct H as [_ ->]; reflexivity.
  - discriminate.
  - lia.
Qed.

Lemma sub64p_nopanic s a b : b <= a -> sub64p s a b = Ok (a - b).
Proof. intros H. unfold sub64p. destruct (b <=? a) eqn:E; [reflexivity | lia]. Qed.

Lemma add64p_nopanic s a b : a + b < W64 -> add64p s a b = Ok (a + b).
Proof. intros H. unfold add64p. destruct (a + b <? W64) eqn:E; [reflexivity | lia]. Qed.

(* checked_add_signed as written in add_signed.rs is the mathematical checked sum *)
Lemma adds64c_spec lhs rhs :
  lhs < W64 -> in_i64 rhs = true ->
  adds64c lhs rhs =
    if ((0 <=? Z.of_N lhs + rhs) && (Z.of_N lhs + rhs <? Z.of_N W64))%Z
    then Some (Z.to_N (Z.of_N lhs + rhs)) else None.
Proof.
  intros Hl Hr. unfold adds64c, add64w, z_as_u64, in_i64, I64MIN, I64MAX in *.
  change (Z.of_N W64) with 18446744073709551616%Z. unfold W64 in *.
  match goal with |- (if ?c then _ else _) = _ => destruct c eqn:Hc end;
  match goal with |- _ = (if ?c then _ else _) => destruct c eqn:Hd end;
  try reflexivity; try (f_equal; lia); exfalso; lia.
Qed.

Lemma adds64c_some lhs rhs r :
  lhs < W64 -> in_i64 rhs = true -> adds64c lhs rhs = Some r ->
  (Z.of_N r = Z.of_N lhs + rhs)%Z /\ r < W64.
Proof.
  intros Hl Hr H. rewrite adds64c_spec in H by assumption.
  destruct ((0 <=? Z.of_N lhs + rhs)%Z && (Z.of_N lhs + rhs <? Z.of_N W64)%Z) eqn:E; [|discriminate].
  inversion H; subst. unfold W64 in *. lia.
Qed.

Lemma u64_plus_i64_bound : True. Proof. exact I. Qed.
