(* ModFacts.v - C07: the module list refines a set of pairwise disjoint ranges. *)
From FH Require Import Word Unwinder WordFacts.
From Coq Require Import Lia ZifyBool ZifyN ZifyNat.
Open Scope N_scope.

Section Mods.
Variable mdata : Type.
Notation module := (module mdata).
Notation mods_add := (mods_add mdata).
Notation mods_remove := (mods_remove mdata).

Definition contains (m : module) (a : N) : Prop := mstart m <= a < mend m.

(* sorted by start, non-empty ranges, pairwise disjoint *)
Inductive sd : list module -> Prop :=
| sd_nil : sd []
| sd_cons m t : mstart m < mend m -> (forall x, In x t -> mend m <= mstart x) -> sd t -> sd (m :: t).

Definition disjoint_from (l : list module) (m : module) : Prop :=
  forall x, In x l -> mend x <= mstart m \/ mend m <= mstart x.

(* ---------- add ---------- *)
Lemma mods_add_in l m x : In x (mods_add l m) <-> x = m \/ In x l.
Proof.
  induction l as [|y t IH]; cbn [mods_add].
  - cbn. intuition.
  - destruct (mstart y =? mstart m); [cbn; intuition|].
    destruct (mstart m <? mstart y); [cbn; intuition|].
    cbn [In]. rewrite IH. intuition.
Qed.

Lemma sd_starts_lt m t x : sd (m :: t) -> In x t -> mstart m < mstart x.
Proof. intros H Hx. inversion H; subst. specialize (H3 x Hx). lia. Qed.

Lemma mods_add_sd l m : sd l -> mstart m < mend m -> disjoint_from l m -> sd (mods_add l m).
Proof.
  induction l as [|y t IH]; intros Hsd Hm Hd; cbn [mods_add].
  - constructor; [exact Hm | intros x [] | constructor].
  - inversion Hsd as [|? ? Hy Hall Ht]; subst.
    assert (Hdy := Hd y (or_introl eq_refl)).
    destruct (mstart y =? mstart m) eqn:E1; [exfalso; lia|].
    destruct (mstart m <? mstart y) eqn:E2.
    + constructor; [exact Hm | | exact Hsd].
      intros x [<-|Hx]; [lia|].
      specialize (Hall x Hx). lia.
    + constructor; [exact Hy | | apply IH; auto].
      * intros x Hx. apply mods_add_in in Hx. destruct Hx as [->|Hx]; [lia | auto].
      * intros x Hx. apply Hd. now right.
Qed.

(* ---------- remove ---------- *)
Lemma mods_remove_none l s : sd l ->
  (mods_remove l s = None <-> forall x, In x l -> mstart x <> s).
Proof.
  induction l as [|y t IH]; intros Hsd; cbn [mods_remove].
  - split; [intros _ x [] | reflexivity].
  - inversion Hsd as [|? ? Hy Hall Ht]; subst.
    destruct (mstart y =? s) eqn:E1.
    + split; [discriminate|]. intros H. exfalso. apply (H y); [now left | lia].
    + destruct (s <? mstart y) eqn:E2.
      * split; [|reflexivity]. intros _ x [<-|Hx]; [lia|]. specialize (Hall x Hx). lia.
      * specialize (IH Ht). destruct (mods_remove t s) eqn:Er.
        -- split; [discriminate|]. intros H.
           assert (Hn : Some l = None); [|discriminate].
           apply IH. intros x Hx. apply H. now right.
        -- split; [|reflexivity]. intros _ x [<-|Hx]; [lia|].
           destruct IH as [IH1 _]. now apply IH1.
Qed.

Lemma mods_remove_some l s l' : sd l -> mods_remove l s = Some l' ->
  sd l' /\ (forall x, In x l' <-> In x l /\ mstart x <> s).
Proof.
  revert l'. induction l as [|y t IH]; intros l' Hsd; cbn [mods_remove]; [discriminate|].
  inversion Hsd as [|? ? Hy Hall Ht]; subst.
  destruct (mstart y =? s) eqn:E1.
  - intros H; inversion H; subst. split; [exact Ht|].
    intros x. split.
    + intros Hx. split; [now right|]. specialize (Hall x Hx). lia.
    + intros [[<-|Hx] Hne]; [lia | exact Hx].
  - destruct (s <? mstart y) eqn:E2; [discriminate|].
    destruct (mods_remove t s) as [t'|] eqn:Er; [|discriminate].
    intros H; inversion H; subst.
    destruct (IH t' Ht eq_refl) as [Hsd' Hin].
    split.
    + constructor; [exact Hy | | exact Hsd']. intros x Hx. apply Hin in Hx. apply Hall. tauto.
    + intros x. cbn [In]. rewrite Hin. split.
      * intros [<-|[Hx Hne]]; [split; [now left | lia] | tauto].
      * intros [[<-|Hx] Hne]; [now left | right; tauto].
Qed.

(* ---------- lookup ---------- *)
Lemma check_end_spec (prev : option module) a m :
  (forall p, prev = Some p -> mstart p < a) ->
  (check_end _ prev a = Some m <-> prev = Some m /\ contains m a).
Proof.
  intros Hp. unfold check_end, contains. destruct prev as [p|].
  - specialize (Hp p eq_refl). destruct (mend p <=? a) eqn:E; split.
    + discriminate.
    + intros [H1 H2]; inversion H1; subst. lia.
    + intros H; inversion H; subst. split; [reflexivity | lia].
    + intros [H1 _]; exact H1.
  - split; [discriminate | intros [H _]; discriminate].
Qed.

Lemma find_cand_spec l : forall a prev m,
  sd l ->
  (forall p, prev = Some p -> mstart p < a /\ forall x, In x l -> mend p <= mstart x) ->
  (find_cand _ l a prev = Some m <-> (In m l \/ prev = Some m) /\ contains m a).
Proof.
  induction l as [|y t IH]; intros a prev m Hsd Hp; cbn [find_cand].
  - rewrite check_end_spec by (intros p E; apply Hp; exact E). cbn. intuition.
  - inversion Hsd as [|? ? Hy Hall Ht]; subst.
    destruct (mstart y =? a) eqn:E1.
    + unfold contains, check_end. destruct (mend y <=? a) eqn:E0; [exfalso; lia|]. split.
      * intros H; inversion H; subst. split; [left; now left | lia].
      * intros [[[<-|Hx]|Hpm] Hc]; [reflexivity | |].
        -- specialize (Hall m Hx). exfalso. lia.
        -- destruct (Hp m Hpm) as [H1 H2]. specialize (H2 y (or_introl eq_refl)). exfalso. lia.
    + destruct (a <? mstart y) eqn:E2.
      * rewrite check_end_spec by (intros p E; apply Hp; exact E).
        unfold contains. split; [intuition|].
        intros [[[<-|Hx]|Hpm] Hc]; [exfalso; lia | | tauto].
        specialize (Hall m Hx). exfalso. lia.
      * rewrite IH; [| exact Ht |].
        -- unfold contains. split.
           ++ intros [[Hx|Hpm] Hc]; [split; [left; now right | exact Hc]|].
              inversion Hpm; subst. split; [left; now left | exact Hc].
           ++ intros [[[<-|Hx]|Hpm] Hc]; [split; [now right | exact Hc] | split; [now left | exact Hc] |].
              destruct (Hp m Hpm) as [H1 H2]. specialize (H2 y (or_introl eq_refl)). exfalso. lia.
        -- intros p E. inversion E; subst. split; [lia | exact Hall].
Qed.

Lemma find_cand_iff l a m : sd l ->
  (find_cand _ l a None = Some m <-> In m l /\ contains m a).
Proof.
  intros Hsd. rewrite find_cand_spec; [| exact Hsd | intros p E; discriminate].
  intuition. discriminate.
Qed.

(* at most one module contains an address *)
Lemma contains_unique l a m1 m2 : sd l -> In m1 l -> In m2 l -> contains m1 a -> contains m2 a -> m1 = m2.
Proof.
  intros Hsd H1 H2 C1 C2.
  assert (F1 : find_cand _ l a None = Some m1) by (apply find_cand_iff; auto).
  assert (F2 : find_cand _ l a None = Some m2) by (apply find_cand_iff; auto).
  congruence.
Qed.

(* find_module: the module whose range contains the address, with the relative address;
   nothing if no range contains it (or the base is above it / the offset does not fit u32);
   never panics. *)
Theorem find_module_spec l a : sd l ->
  match find_module _ l a with
  | Ok (Some (m, rel)) => In m l /\ contains m a /\ base_avma m <= a /\ rel = a - base_avma m /\ rel < W32
  | Ok None => forall m, In m l -> contains m a -> a < base_avma m \/ W32 <= a - base_avma m
  | _ => False
  end.
Proof.
  intros Hsd. unfold find_module.
  destruct (find_cand _ l a None) as [m|] eqn:Ef.
  - apply find_cand_iff in Ef; [|exact Hsd]. destruct Ef as [Hin Hc].
    destruct (a <? base_avma m) eqn:Eb.
    + intros m' Hin' Hc'. rewrite (contains_unique l a m' m Hsd Hin' Hin Hc' Hc). left. lia.
    + rewrite sub64p_nopanic by lia. cbn [res_bind].
      destruct (a - base_avma m <? W32) eqn:Er.
      * unfold contains in *. repeat split; try assumption; lia.
      * intros m' Hin' Hc'. rewrite (contains_unique l a m' m Hsd Hin' Hin Hc' Hc). right. lia.
  - intros m Hin Hc. exfalso.
    assert (F : find_cand _ l a None = Some m) by (apply find_cand_iff; auto). congruence.
Qed.


(* the module a lookup returns is one of the registered modules (no invariant needed) *)
Lemma check_end_in (prev : option module) a m (l : list module) :
  (forall p, prev = Some p -> In p l) -> check_end mdata prev a = Some m -> In m l.
Proof.
  unfold check_end. destruct prev as [p|]; [|discriminate].
  destruct (mend p <=? a); [discriminate|]. intros H E. inversion E; subst. apply H. reflexivity.
Qed.

Lemma find_cand_in (l : list module) : forall a prev m (l0 : list module),
  incl l l0 -> (forall p, prev = Some p -> In p l0) -> find_cand mdata l a prev = Some m -> In m l0.
Proof.
  induction l as [|y t IH]; intros a prev m l0 Hi Hp; cbn [find_cand].
  - apply check_end_in. exact Hp.
  - destruct (mstart y =? a).
    + apply check_end_in. intros p E; inversion E; subst. apply Hi. now left.
    + destruct (a <? mstart y); [apply check_end_in; exact Hp|].
      apply IH; [intros z Hz; apply Hi; now right | intros p E; inversion E; subst; apply Hi; now left].
Qed.

(* whatever the list looks like - unsorted, overlapping, with empty or inverted ranges - the lookup never
   answers with a module whose range does not contain the address (since the repair of S24 the exact hit of
   the binary search makes the end test too) *)
Lemma find_cand_contains (l : list module) : forall a prev m,
  (forall p, prev = Some p -> mstart p <= a) -> find_cand mdata l a prev = Some m -> contains m a.
Proof.
  assert (CE : forall (prev : option module) a m, (forall p, prev = Some p -> mstart p <= a) ->
               check_end mdata prev a = Some m -> contains m a).
  { intros prev a m Hp. unfold check_end, contains. destruct prev as [p|]; [|discriminate].
    specialize (Hp p eq_refl). destruct (mend p <=? a) eqn:E; [discriminate|]. intros H; inversion H; subst. lia. }
  induction l as [|y t IH]; intros a prev m Hp; cbn [find_cand].
  - apply CE. exact Hp.
  - destruct (mstart y =? a) eqn:E1.
    + apply CE. intros p E; inversion E; subst. lia.
    + destruct (a <? mstart y) eqn:E2; [apply CE; exact Hp|].
      apply IH. intros p E; inversion E; subst. lia.
Qed.

Lemma find_module_in (l : list module) a m rel : find_module mdata l a = Ok (Some (m, rel)) -> In m l.
Proof.
  unfold find_module. destruct (find_cand _ l a None) as [c|] eqn:E; [|discriminate].
  destruct (a <? base_avma c); [discriminate|].
  destruct (sub64p S_find_sub a (base_avma c)); cbn; try discriminate.
  destruct (a0 <? W32); [|discriminate]. intros H; inversion H; subst.
  eapply find_cand_in; [apply incl_refl | | exact E]. intros p Hp; discriminate.
Qed.

Theorem find_module_only_container (l : list module) a m rel :
  find_module mdata l a = Ok (Some (m, rel)) -> In m l /\ contains m a.
Proof.
  intros H. split; [eapply find_module_in; exact H|].
  unfold find_module in H. destruct (find_cand _ l a None) as [c|] eqn:E; [|discriminate].
  destruct (a <? base_avma c); [discriminate|].
  unfold res_bind, sub64p in H. destruct (base_avma c <=? a); [|discriminate].
  destruct (a - base_avma c <? W32); [|discriminate]. inversion H; subst.
  eapply find_cand_contains; [|exact E]. intros p Hp; discriminate.
Qed.


(* ---------- max_known_code_address ---------- *)
Lemma mods_max_nil : mods_max mdata [] = 0. Proof. reflexivity. Qed.

Lemma mods_max_spec l : sd l -> l <> [] ->
  (exists m, In m l /\ mods_max _ l = mend m) /\ (forall x, In x l -> mend x <= mods_max _ l).
Proof.
  induction l as [|y t IH]; intros Hsd Hne; [congruence|].
  inversion Hsd as [|? ? Hy Hall Ht]; subst.
  destruct t as [|z t'].
  - cbn. split; [exists y; split; [now left | reflexivity]|].
    intros x [<-|[]]. lia.
  - assert (Hne' : z :: t' <> []) by discriminate.
    destruct (IH Ht Hne') as [[m [Hm Hmax]] Hle].
    change (mods_max _ (y :: z :: t')) with (mods_max _ (z :: t')).
    split.
    + exists m. split; [now right | exact Hmax].
    + intros x [<-|Hx]; [|apply Hle; exact Hx].
      specialize (Hall z (or_introl eq_refl)). specialize (Hle z (or_introl eq_refl)).
      inversion Ht; subst. lia.
Qed.

End Mods.
