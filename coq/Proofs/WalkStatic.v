(* WalkStatic.v - C10, termination on finite readable memory without a premise about register width, for
   unwinders all of whose steps are rule-based (TruncWalk.all_static): on x86_64 every successful rule step
   READS the return address from the word below the new stack pointer, so the stack pointer of a successful
   step lies at most 8 above the readable memory, and the walk stops within 2 (B + 7 - sp) + 2 calls. *)
From FH Require Import Consts Word X86 Unwinder X86Unw WordFacts X86Exec HistFacts StaticFacts X86Walk TruncFacts TruncWalk WalkProgress.
From Coq Require Import Lia ZifyBool ZifyN ZifyNat List.
Import ListNotations.
Open Scope N_scope.
Arguments N.add : simpl never.
Arguments N.sub : simpl never.
Arguments N.mul : simpl never.
Arguments N.eqb : simpl never.
Arguments N.ltb : simpl never.
Arguments N.leb : simpl never.

Section X86.
Variables (u : xunwinder) (m : mem).
Hypothesis St : all_static rule mdata cb_static_x86 u.
Notation xsteps := (steps exec_x fallback_rule cb_x86 u m).

(* a successful call through a rule-based step has read its return address just below the new sp *)
Lemma static_step_reads_x c a rg ra :
  o_res _ _ (unwind_frame_x u c a rg m) = Ok (Some ra) ->
  let rg' := o_regs _ _ (unwind_frame_x u c a rg m) in
  8 <= sp rg' /\ m (sp rg' - 8) = Some ra.
Proof.
  assert (EX : forall r f rgi res rgo, exec ra_addr_checked r f rgi m = (res, rgo) -> res = Ok (Some ra) ->
               8 <= sp rgo /\ m (sp rgo - 8) = Some ra).
  { intros r f rgi res rgo E ->. exact (exec_x_some_mem _ _ _ _ _ _ E). }
  cbv zeta. unfold unwind_frame_x, unwind_frame, exec_x.
  destruct (lookup_address a) as [x| | |]; cbn; try discriminate.
  destruct (cache_lookup rule c x (gen _ u)) as [[r|slot] c1].
  - destruct (exec ra_addr_checked r (negb (is_ra a)) rg m) as [res rgo] eqn:E. cbn. intros H. eapply EX; eassumption.
  - destruct (find_module mdata (mods _ u) x) as [[[md rel]|]|e|s|] eqn:Efm; cbn; try discriminate.
    + pose proof (cb_x86_ok md (negb (is_ra a)) rel rg m) as A.
      pose proof (St x (negb (is_ra a)) md rel Efm) as Hs.
      destruct (cb_static_x86 md (negb (is_ra a)) rel) as [r| |]; [| |contradiction].
      * destruct (cb_x86 md (negb (is_ra a)) rel rg m) as [cr ef]. cbn [fst] in A. subst cr.
        destruct (exec ra_addr_checked r (negb (is_ra a)) rg m) as [res rgo] eqn:E. cbn. intros H. eapply EX; eassumption.
      * destruct (cb_x86 md (negb (is_ra a)) rel rg m) as [cr ef]. cbn [fst] in A. subst cr.
        destruct (exec ra_addr_checked fallback_rule (negb (is_ra a)) rg m) as [res rgo] eqn:E. cbn. intros H. eapply EX; eassumption.
    + destruct (exec ra_addr_checked fallback_rule (negb (is_ra a)) rg m) as [res rgo] eqn:E. cbn. intros H. eapply EX; eassumption.
Qed.

(* readable memory ends at B *)
Variable B : N.
Hypothesis Fin : forall a, B <= a -> m a = None.

Lemma static_steps_sp_x it k it' :
  caller_x it -> xsteps it (S k) it' -> sp_of it' <= B + 7.
Proof.
  intros C H. replace (S k) with (k + 1)%nat in H by lia.
  destruct (steps_split _ _ _ exec_x fallback_rule cb_x86 u m k _ 1%nat _ H) as (it2 & H1 & H2).
  destruct (walk_sp_x u m _ _ _ C H1) as (C2 & _). destruct C2 as (x & Hs & _).
  inversion H2 as [|? f a1 ? ? E H3]; subst. inversion H3; subst.
  destruct (next_caller_x u m it2 x f it' Hs E) as (ra & Ho & _ & _ & _ & Hr).
  pose proof (static_step_reads_x _ _ _ _ Ho) as P. cbv zeta in P. destruct P as (P1 & P2).
  unfold sp_of. rewrite Hr.
  destruct (N.le_gt_cases B (sp (o_regs _ _ (unwind_frame_x u (i_cache _ _ it2) (RA x) (i_regs _ _ it2) m)) - 8)) as [Hge|Hlt].
  - rewrite (Fin _ Hge) in P2. discriminate.
  - lia.
Qed.

(* every walk over a stack whose readable memory is finite terminates: within 2 (B + 7 - sp) + 2 calls next()
   yields Ok(None) or an error (at once if sp already lies above the readable memory) *)
Theorem walk_terminates_finite_memory_x it :
  caller_x it ->
  exists k it1 r it2,
    N.of_nat k <= 2 * (B + 7 - sp_of it) + 1 /\ xsteps it k it1 /\
    iter_next_x u m it1 = (r, it2) /\ forall f, r <> Ok (Some f).
Proof.
  intros C.
  destruct (walk_terminates_x u m it (N.max (B + 7) (sp_of it)) C) as (k & it1 & r & it2 & Hk & Hs & En & Hr).
  - intros k it' H. destruct k as [|k].
    + inversion H; subst. lia.
    + pose proof (static_steps_sp_x _ _ _ C H). lia.
  - exists k, it1, r, it2. repeat split; try assumption. lia.
Qed.

End X86.
