(* HistFacts.v - invariants over arbitrary operation histories (several unwinders, several
   caches, one global generation counter): C06 (cache transparency), C20 (statistics, hits). *)
From FH Require Import Consts Word Unwinder WordFacts.
From Coq Require Import Lia ZifyBool ZifyN ZifyNat.
Open Scope N_scope.
Ltac Zify.zify_post_hook ::= Z.div_mod_to_equations.

Section Hist.
Variables rule regs mdata : Type.
Variable exec : rule -> bool -> regs -> mem -> res (option N) * regs.
Variable fallback : rule.
Variable cb : module mdata -> bool -> N -> regs -> mem -> cb_result rule regs * eff.

Notation module := (module mdata).
Notation unwinder := (unwinder mdata).
Notation cache := (cache rule).
Notation world := (world rule mdata).
Notation op := (op regs mdata).
Notation obs := (obs regs).
Notation unwind_frame := (unwind_frame rule regs mdata exec fallback cb).
Notation run_op := (run_op rule regs mdata exec fallback cb).
Notation run_ops := (run_ops rule regs mdata exec fallback cb).
Notation cache_new := (cache_new rule).
Notation find_module := (find_module mdata).

(* What the per-module callback does for (module, first, relative address), independently of the
   registers and the stack: always the same rule, always the same state-independent error, or a
   result that is never cached. *)
Inductive sclass := SRule (r : rule) | SErr | SDyn.
Variable cb_static : module -> bool -> N -> sclass.
Hypothesis cb_ok : forall md first rel rg m,
  match cb_static md first rel with
  | SRule r => fst (cb md first rel rg m) = CbRule r
  | SErr => fst (cb md first rel rg m) = CbErr rg
  | SDyn => match fst (cb md first rel rg m) with CbRule _ | CbErr _ => False | _ => True end
  end.

(* "each code address used consistently as instruction pointer or as return address" *)
Variable kind : N -> bool.       (* lookup address -> is_first_frame *)
Definition op_consistent (o : op) : Prop :=
  match o with
  | OUnwind _ _ _ _ a _ _ => forall x, lookup_address a = Ok x -> negb (is_ra a) = kind x
  | _ => True
  end.

(* the rule a call for lookup address x caches (if it caches one) under module list ml *)
Definition stable_rule (ml : list module) (x : N) : option rule :=
  match find_module ml x with
  | Ok None => Some fallback
  | Ok (Some (md, rel)) =>
    match cb_static md (kind x) rel with
    | SRule r => Some r
    | SErr => Some fallback
    | SDyn => None
    end
  | _ => None
  end.

Definition out_eq (o1 o2 : outcome rule regs) : Prop :=
  o_res _ _ o1 = o_res _ _ o2 /\ o_regs _ _ o1 = o_regs _ _ o2.

Lemma cache_new_lookup x g : exists c1, cache_lookup rule cache_new x g = (Miss rule (x mod CACHE_ENTRY_COUNT), c1).
Proof. unfold cache_lookup, Unwinder.cache_new. cbn. eexists. reflexivity. Qed.

(* after a miss the outcome does not depend on the cache's contents *)
Lemma miss_equiv (u : unwinder) c a rg m x slot c1 :
  lookup_address a = Ok x ->
  cache_lookup rule c x (gen _ u) = (Miss rule slot, c1) ->
  out_eq (unwind_frame u c a rg m) (unwind_frame u cache_new a rg m).
Proof.
  intros Hx Hl. unfold Unwinder.unwind_frame. rewrite Hx, Hl.
  destruct (cache_new_lookup x (gen _ u)) as [c1' Hn]. rewrite Hn.
  destruct (find_module (mods _ u) x) as [[[md rel]|]|e|s|]; try (split; reflexivity).
  - destruct (cb md (negb (is_ra a)) rel rg m) as [r ef]. destruct r; try (split; reflexivity).
    + destruct (exec r (negb (is_ra a)) rg m); split; reflexivity.
    + destruct (exec fallback (negb (is_ra a)) rg0 m); split; reflexivity.
    + destruct (exec fallback (negb (is_ra a)) rg0 m); split; reflexivity.
  - destruct (exec fallback (negb (is_ra a)) rg m); split; reflexivity.
Qed.

(* a cached stable rule is what a fresh cache computes *)
Lemma hit_equiv (u : unwinder) a rg m x r :
  lookup_address a = Ok x -> negb (is_ra a) = kind x ->
  stable_rule (mods _ u) x = Some r ->
  o_res _ _ (unwind_frame u cache_new a rg m) = fst (exec r (negb (is_ra a)) rg m) /\
  o_regs _ _ (unwind_frame u cache_new a rg m) = snd (exec r (negb (is_ra a)) rg m).
Proof.
  intros Hx Hk Hs. unfold Unwinder.unwind_frame. rewrite Hx.
  destruct (cache_new_lookup x (gen _ u)) as [c1' Hn]. rewrite Hn.
  unfold stable_rule in Hs.
  destruct (find_module (mods _ u) x) as [[[md rel]|]|e|s|]; try discriminate.
  - pose proof (cb_ok md (kind x) rel rg m) as Hc. rewrite Hk.
    destruct (cb_static md (kind x) rel) as [r'| |]; try discriminate.
    + inversion Hs; subst. destruct (cb md (kind x) rel rg m) as [cr ef]. cbn in Hc. subst cr.
      destruct (exec r (kind x) rg m); split; reflexivity.
    + inversion Hs; subst. destruct (cb md (kind x) rel rg m) as [cr ef]. cbn in Hc. subst cr.
      destruct (exec r (kind x) rg m); split; reflexivity.
  - inversion Hs; subst. destruct (exec r (negb (is_ra a)) rg m); split; reflexivity.
Qed.

(* ---------- invariants ---------- *)
Definition CacheInv (G : N -> option (list module)) (c : cache) : Prop :=
  forall s e, slots _ c s = Some e ->
    exists ml, G (e_gen _ e) = Some ml /\ stable_rule ml (e_addr _ e) = Some (e_rule _ e).

Variable g0 : N.
Hypothesis g0_lt : g0 < W16.

Record Inv (w : world) (G : N -> option (list module)) (k : N) : Prop := {
  inv_next : next_gen _ _ w = (g0 + k) mod W16;
  inv_unws : forall u uw, unws _ _ w u = Some uw -> G (gen _ uw) = Some (mods _ uw);
  inv_drawn : forall g ml, G g = Some ml -> exists i, i < k /\ g = (g0 + i) mod W16;
  inv_caches : forall c ca, caches _ _ w c = Some ca -> CacheInv G ca
}.

Definition extends (G G' : N -> option (list module)) : Prop :=
  forall g ml, G g = Some ml -> G' g = Some ml.

Lemma CacheInv_extends G G' c : extends G G' -> CacheInv G c -> CacheInv G' c.
Proof. intros He Hc s e Hs. destruct (Hc s e Hs) as [ml [H1 H2]]. exists ml. split; [apply He; exact H1 | exact H2]. Qed.

Lemma inv0 : Inv (world0 rule mdata g0) (fun _ => None) 0.
Proof.
  constructor; cbn; try discriminate.
  rewrite N.add_0_r. symmetry. apply N.mod_small. exact g0_lt.
Qed.

(* cache_lookup only changes statistics; a hit returns the entry's rule *)
Lemma cache_lookup_slots c x g r c1 : cache_lookup rule c x g = (r, c1) -> slots _ c1 = slots _ c.
Proof. clear cb_ok g0_lt.
  unfold cache_lookup. destruct (slots _ c (x mod CACHE_ENTRY_COUNT)) as [e|].
  - destruct (e_gen _ e =? g); [destruct (e_addr _ e =? x)|]; intros H; inversion H; reflexivity.
  - intros H; inversion H; reflexivity.
Qed.

Lemma cache_lookup_hit c x g r c1 : cache_lookup rule c x g = (Hit rule r, c1) ->
  exists e, slots _ c (x mod CACHE_ENTRY_COUNT) = Some e /\ e_gen _ e = g /\ e_addr _ e = x /\ e_rule _ e = r.
Proof. clear cb_ok g0_lt.
  unfold cache_lookup. destruct (slots _ c (x mod CACHE_ENTRY_COUNT)) as [e|]; [|discriminate].
  destruct (e_gen _ e =? g) eqn:Eg; [|discriminate].
  destruct (e_addr _ e =? x) eqn:Ea; [|discriminate].
  intros H; inversion H; subst. exists e. repeat split; lia.
Qed.

Lemma cache_lookup_miss_slot c x g slot c1 : cache_lookup rule c x g = (Miss rule slot, c1) ->
  slot = x mod CACHE_ENTRY_COUNT.
Proof. clear cb_ok g0_lt.
  unfold cache_lookup. destruct (slots _ c (x mod CACHE_ENTRY_COUNT)) as [e|].
  - destruct (e_gen _ e =? g); [destruct (e_addr _ e =? x)|]; intros H; inversion H; reflexivity.
  - intros H; inversion H; reflexivity.
Qed.

Lemma CacheInv_lookup G c x g r c1 : CacheInv G c -> cache_lookup rule c x g = (r, c1) -> CacheInv G c1.
Proof. intros Hc Hl s e Hs. rewrite (cache_lookup_slots _ _ _ _ _ Hl) in Hs. exact (Hc s e Hs). Qed.

Lemma CacheInv_insert G c slot x g r ml :
  CacheInv G c -> G g = Some ml -> stable_rule ml x = Some r -> CacheInv G (cache_insert rule c slot x g r).
Proof.
  intros Hc Hg Hs s e. unfold cache_insert. cbn. destruct (s =? slot).
  - intros H; inversion H; subst. cbn. exists ml. split; assumption.
  - apply Hc.
Qed.

(* the cache after unwind_frame still satisfies the invariant *)
Lemma unwind_frame_inv G (u : unwinder) c a rg m :
  G (gen _ u) = Some (mods _ u) ->
  (forall x, lookup_address a = Ok x -> negb (is_ra a) = kind x) ->
  CacheInv G c -> CacheInv G (o_cache _ _ (unwind_frame u c a rg m)).
Proof.
  intros Hg Hk Hc. unfold Unwinder.unwind_frame.
  destruct (lookup_address a) as [x| | |] eqn:Hx; try exact Hc.
  specialize (Hk x eq_refl).
  destruct (cache_lookup rule c x (gen _ u)) as [[r|slot] c1] eqn:Hl.
  - destruct (exec r (negb (is_ra a)) rg m). cbn. eapply CacheInv_lookup; eassumption.
  - assert (Hc1 := CacheInv_lookup _ _ _ _ _ _ Hc Hl).
    destruct (find_module (mods _ u) x) as [[[md rel]|]|e|s|] eqn:Hf; try exact Hc1.
    + pose proof (cb_ok md (kind x) rel rg m) as Hcb. rewrite Hk.
      destruct (cb md (kind x) rel rg m) as [cr ef] eqn:Ecb. cbn [fst] in Hcb.
      destruct cr; cbn; try exact Hc1.
      * destruct (exec r (kind x) rg m). cbn.
        eapply CacheInv_insert; [exact Hc1 | exact Hg |].
        unfold stable_rule. rewrite Hf.
        destruct (cb_static md (kind x) rel); try contradiction; [|discriminate]. congruence.
      * destruct (exec fallback (kind x) rg0 m). cbn.
        eapply CacheInv_insert; [exact Hc1 | exact Hg |].
        unfold stable_rule. rewrite Hf.
        destruct (cb_static md (kind x) rel); try contradiction; [discriminate | reflexivity].
      * destruct (exec fallback (kind x) rg0 m). cbn. exact Hc1.
    + destruct (exec fallback (negb (is_ra a)) rg m). cbn.
      eapply CacheInv_insert; [exact Hc1 | exact Hg |].
      unfold stable_rule. rewrite Hf. reflexivity.
Qed.

(* C06, one call: under the invariants the outcome equals that with a fresh cache *)
Lemma unwind_frame_transparent G (u : unwinder) c a rg m :
  G (gen _ u) = Some (mods _ u) ->
  (forall x, lookup_address a = Ok x -> negb (is_ra a) = kind x) ->
  CacheInv G c ->
  out_eq (unwind_frame u c a rg m) (unwind_frame u cache_new a rg m).
Proof.
  intros Hg Hk Hc.
  destruct (lookup_address a) as [x| | |] eqn:Hx;
    try (unfold Unwinder.unwind_frame; rewrite Hx; split; reflexivity).
  specialize (Hk x eq_refl).
  destruct (cache_lookup rule c x (gen _ u)) as [[r|slot] c1] eqn:Hl.
  - destruct (cache_lookup_hit _ _ _ _ _ Hl) as [e [Hs [Hge [Hae Hre]]]].
    destruct (Hc _ _ Hs) as [ml [Hml Hst]]. rewrite Hge, Hg in Hml. inversion Hml; subst ml.
    rewrite Hae, Hre in Hst.
    destruct (hit_equiv u a rg m x r Hx Hk Hst) as [H1 H2].
    unfold out_eq. rewrite H1, H2.
    unfold Unwinder.unwind_frame. rewrite Hx, Hl.
    destruct (exec r (negb (is_ra a)) rg m). split; reflexivity.
  - eapply miss_equiv; eassumption.
Qed.

(* ---------- histories ---------- *)
Definition obs_eq (o1 o2 : obs) : Prop :=
  match o1, o2 with
  | ObsUnwind _ r rg _ _, ObsUnwind _ r' rg' _ _ => r = r' /\ rg = rg'
  | ObsUnwind _ _ _ _ _, _ => False
  | _, ObsUnwind _ _ _ _ _ => False
  | a, b => a = b
  end.

(* the same operation observed with a freshly created cache *)
Definition fresh_obs (w : world) (o : op) : obs :=
  match o with
  | OUnwind _ _ u c a rg m =>
    match unws _ _ w u, caches _ _ w c with
    | Some uw, Some _ =>
      let r := unwind_frame uw cache_new a rg m in
      ObsUnwind _ (o_res _ _ r) (o_regs _ _ r) (cstats _ (o_cache _ _ r)) (o_eff _ _ r)
    | _, _ => ObsBad _
    end
  | _ => snd (run_op w o)
  end.

Fixpoint fresh_list (w : world) (l : list op) : list obs :=
  match l with
  | [] => []
  | o :: t => fresh_obs w o :: fresh_list (fst (run_op w o)) t
  end.

Definition draws (o : op) : N :=
  match o with ONew _ _ _ | OAdd _ _ _ _ | ORemove _ _ _ _ => 1 | _ => 0 end.

Lemma mod_fresh i k : i < k -> k < 65536 -> (g0 + i) mod W16 <> (g0 + k) mod W16.
Proof. unfold W16. intros. lia. Qed.

Lemma obs_eq_refl o : obs_eq o o.
Proof. destruct o; cbn; auto. Qed.

Lemma step_obs w G k o : Inv w G k -> op_consistent o -> obs_eq (snd (run_op w o)) (fresh_obs w o).
Proof.
  intros HI Hc. destruct o; cbn [fresh_obs]; try apply obs_eq_refl.
  cbn [Unwinder.run_op].
  destruct (unws _ _ w u) as [uw|] eqn:Eu; [|cbn; reflexivity].
  destruct (caches _ _ w c) as [ca|] eqn:Ec; [|cbn; reflexivity].
  cbn [snd obs_eq].
  apply (unwind_frame_transparent G uw ca a rg m).
  - eapply inv_unws; eassumption.
  - exact Hc.
  - eapply inv_caches; eassumption.
Qed.

Lemma upd_same {A} (f : N -> option A) k v : upd f k v k = Some v.
Proof. unfold upd. rewrite N.eqb_refl. reflexivity. Qed.

Lemma upd_cases {A} (f : N -> option A) k v x y : upd f k v x = Some y -> (x = k /\ y = v) \/ (x <> k /\ f x = Some y).
Proof. unfold upd. destruct (x =? k) eqn:E; intros H; [left; inversion H; split; [lia | reflexivity] | right; split; [lia | exact H]]. Qed.

Lemma CacheInv_new G : CacheInv G cache_new.
Proof. intros s e H. discriminate. Qed.

(* drawing a generation for unwinder u with module list ml *)
Lemma draw_inv w G k u ml :
  Inv w G k -> k < 65536 ->
  let g := next_gen _ _ w in
  let G' := fun x => if x =? g then Some ml else G x in
  extends G G' /\
  Inv (mkworld _ _ ((g + 1) mod W16) (upd (unws _ _ w) u (mkunw _ ml g)) (caches _ _ w)) G' (k + 1).
Proof.
  intros HI Hk g G'.
  assert (Hfresh : forall ml', G g = Some ml' -> False).
  { intros ml' H. destruct (inv_drawn _ _ _ HI _ _ H) as [i [Hi Hg]].
    unfold g in Hg. rewrite (inv_next _ _ _ HI) in Hg. symmetry in Hg. revert Hg. apply mod_fresh; assumption. }
  assert (He : extends G G').
  { intros x ml' H. unfold G'. destruct (x =? g) eqn:E; [|exact H].
    exfalso. apply (Hfresh ml'). assert (x = g) by lia. subst. exact H. }
  split; [exact He|].
  constructor; cbn.
  - unfold g. rewrite (inv_next _ _ _ HI). unfold W16. lia.
  - intros u' uw Hu. apply upd_cases in Hu. destruct Hu as [[-> ->]|[Hne Hu]].
    + cbn. unfold G'. rewrite N.eqb_refl. reflexivity.
    + apply He. eapply inv_unws; eassumption.
  - intros x ml' H. unfold G' in H. destruct (x =? g) eqn:E.
    + exists k. split; [lia|]. assert (x = g) by lia. subst. unfold g. apply (inv_next _ _ _ HI).
    + destruct (inv_drawn _ _ _ HI _ _ H) as [i [Hi Hx]]. exists i. split; [lia | exact Hx].
  - intros c ca Hc. eapply CacheInv_extends; [exact He|]. eapply inv_caches; eassumption.
Qed.

(* one operation preserves the invariant (with a possibly larger ghost map) *)
Lemma step_inv w G k o :
  Inv w G k -> op_consistent o -> k + draws o <= 65536 ->
  exists G' k', extends G G' /\ k <= k' <= k + draws o /\ Inv (fst (run_op w o)) G' k'.
Proof.
  intros HI Hc Hk. destruct o; cbn [Unwinder.run_op draws] in *.
  - destruct (draw_inv w G k u [] HI) as [He HI']; [lia|].
    eexists _, (k + 1). split; [exact He|]. split; [lia|]. exact HI'.
  - destruct (unws _ _ w u) as [uw|] eqn:Eu.
    + destruct (draw_inv w G k u (mods_add _ (mods _ uw) md) HI) as [He HI']; [lia|].
      eexists _, (k + 1). split; [exact He|]. split; [lia|]. exact HI'.
    + exists G, k. split; [intros ? ? H; exact H|]. split; [lia|]. exact HI.
  - destruct (unws _ _ w u) as [uw|] eqn:Eu.
    + destruct (mods_remove _ (mods _ uw) start) as [l|] eqn:Er.
      * destruct (draw_inv w G k u l HI) as [He HI']; [lia|].
        eexists _, (k + 1). split; [exact He|]. split; [lia|]. exact HI'.
      * exists G, k. split; [intros ? ? H; exact H|]. split; [lia|]. exact HI.
    + exists G, k. split; [intros ? ? H; exact H|]. split; [lia|]. exact HI.
  - destruct (unws _ _ w u) as [uw|] eqn:Eu.
    + exists G, k. split; [intros ? ? H; exact H|]. split; [lia|].
      constructor; cbn.
      * apply (inv_next _ _ _ HI).
      * intros u' uw' Hu. apply upd_cases in Hu. destruct Hu as [[-> ->]|[Hne Hu]];
          eapply inv_unws; eassumption.
      * apply (inv_drawn _ _ _ HI).
      * apply (inv_caches _ _ _ HI).
    + exists G, k. split; [intros ? ? H; exact H|]. split; [lia|]. exact HI.
  - exists G, k. split; [intros ? ? H; exact H|]. split; [lia|].
    constructor; cbn.
    + apply (inv_next _ _ _ HI).
    + apply (inv_unws _ _ _ HI).
    + apply (inv_drawn _ _ _ HI).
    + intros c' ca Hca. apply upd_cases in Hca. destruct Hca as [[-> ->]|[Hne Hca]];
        [apply CacheInv_new | eapply inv_caches; eassumption].
  - destruct (unws _ _ w u) as [uw|] eqn:Eu; [|exists G, k; split; [intros ? ? H; exact H|]; split; [lia|]; exact HI].
    destruct (caches _ _ w c) as [ca|] eqn:Ec; [|exists G, k; split; [intros ? ? H; exact H|]; split; [lia|]; exact HI].
    exists G, k. split; [intros ? ? H; exact H|]. split; [lia|].
    constructor; cbn.
    + apply (inv_next _ _ _ HI).
    + apply (inv_unws _ _ _ HI).
    + apply (inv_drawn _ _ _ HI).
    + intros c' ca' Hca. apply upd_cases in Hca. destruct Hca as [[-> ->]|[Hne Hca]];
        [|eapply inv_caches; eassumption].
      apply unwind_frame_inv; [eapply inv_unws; eassumption | exact Hc | eapply inv_caches; eassumption].
  - destruct (unws _ _ w u); exists G, k; (split; [intros ? ? H; exact H|]); (split; [lia|]); exact HI.
Qed.

Lemma draws_le_1 o : draws o <= 1.
Proof. destruct o; cbn; lia. Qed.

(* C06: in every history (any number of unwinders and caches, module changes, clones), every
   unwinding call returns what the same call returns with a freshly created cache. *)
Theorem history_transparent : forall ops w G k,
  Inv w G k -> Forall op_consistent ops -> k + N.of_nat (length ops) <= 65536 ->
  Forall2 obs_eq (snd (run_ops w ops)) (fresh_list w ops).
Proof.
  induction ops as [|o t IH]; intros w G k HI Hc Hk; cbn [Unwinder.run_ops fresh_list].
  - constructor.
  - inversion Hc as [|? ? Hco Hct]; subst.
    pose proof (step_obs w G k o HI Hco) as Hobs.
    pose proof (draws_le_1 o) as Hd.
    destruct (step_inv w G k o HI Hco) as [G' [k' [He [Hk' HI']]]]; [cbn [length] in Hk; lia|].
    destruct (run_op w o) as [w1 ob] eqn:E1. cbn [fst snd] in *.
    specialize (IH w1 G' k' HI' Hct).
    destruct (run_ops w1 t) as [w2 obs'] eqn:E2. cbn [snd] in *.
    constructor; [exact Hobs|]. apply IH. cbn [length] in Hk. lia.
Qed.

(* ---------- C20: statistics and hits ---------- *)
Definition stats_total (s : stats) : N := hit s + miss_empty s + miss_wrong_modules s + miss_wrong_address s.

(* which counter a lookup bumps *)
Inductive situation := SitHit | SitEmpty | SitOtherModules | SitOtherAddress.

Definition situation_of (c : cache) (x g : N) : situation :=
  match slots _ c (x mod CACHE_ENTRY_COUNT) with
  | None => SitEmpty
  | Some e => if e_gen _ e =? g then (if e_addr _ e =? x then SitHit else SitOtherAddress) else SitOtherModules
  end.

Definition bump (s : stats) (sit : situation) : stats :=
  match sit with
  | SitHit => mkstats (hit s + 1) (miss_empty s) (miss_wrong_modules s) (miss_wrong_address s)
  | SitEmpty => mkstats (hit s) (miss_empty s + 1) (miss_wrong_modules s) (miss_wrong_address s)
  | SitOtherModules => mkstats (hit s) (miss_empty s) (miss_wrong_modules s + 1) (miss_wrong_address s)
  | SitOtherAddress => mkstats (hit s) (miss_empty s) (miss_wrong_modules s) (miss_wrong_address s + 1)
  end.

Lemma cache_lookup_stats c x g : cstats _ (snd (cache_lookup rule c x g)) = bump (cstats _ c) (situation_of c x g).
Proof. clear cb_ok g0_lt.
  unfold cache_lookup, situation_of. destruct (slots _ c (x mod CACHE_ENTRY_COUNT)) as [e|]; [|reflexivity].
  destruct (e_gen _ e =? g); [destruct (e_addr _ e =? x)|]; reflexivity.
Qed.

(* every unwinding call is counted exactly once, in the category that matches the situation *)
Theorem unwind_frame_stats (u : unwinder) c a rg m x :
  lookup_address a = Ok x ->
  cstats _ (o_cache _ _ (unwind_frame u c a rg m)) = bump (cstats _ c) (situation_of c x (gen _ u)).
Proof. clear cb_ok g0_lt.
  intros Hx. rewrite <- cache_lookup_stats. unfold Unwinder.unwind_frame. rewrite Hx.
  destruct (cache_lookup rule c x (gen _ u)) as [[r|slot] c1]; cbn [snd].
  - destruct (exec r (negb (is_ra a)) rg m); reflexivity.
  - destruct (find_module (mods _ u) x) as [[[md rel]|]|e|s|]; try reflexivity.
    + destruct (cb md (negb (is_ra a)) rel rg m) as [r ef]. destruct r; try reflexivity.
      * destruct (exec r (negb (is_ra a)) rg m); reflexivity.
      * destruct (exec fallback (negb (is_ra a)) rg0 m); reflexivity.
      * destruct (exec fallback (negb (is_ra a)) rg0 m); reflexivity.
    + destruct (exec fallback (negb (is_ra a)) rg m); reflexivity.
Qed.

Lemma bump_total s sit : stats_total (bump s sit) = stats_total s + 1.
Proof. clear cb_ok g0_lt. destruct sit; unfold stats_total; cbn; lia. Qed.

(* a hit does not touch the module's sections and performs no own-code allocation *)
Theorem hit_no_touch (u : unwinder) c a rg m x :
  lookup_address a = Ok x -> situation_of c x (gen _ u) = SitHit ->
  o_eff _ _ (unwind_frame u c a rg m) = no_eff.
Proof. clear cb_ok g0_lt.
  intros Hx Hs. unfold Unwinder.unwind_frame. rewrite Hx.
  unfold situation_of in Hs. unfold cache_lookup.
  destruct (slots _ c (x mod CACHE_ENTRY_COUNT)) as [e|]; [|discriminate].
  destruct (e_gen _ e =? gen _ u); [|discriminate]. destruct (e_addr _ e =? x); [|discriminate].
  destruct (exec (e_rule _ e) (negb (is_ra a)) rg m); reflexivity.
Qed.

(* after a call whose rule is cacheable, the slot holds (x, generation, rule) ... *)
Theorem cacheable_call_fills_slot (u : unwinder) c a rg m x r :
  lookup_address a = Ok x -> negb (is_ra a) = kind x ->
  stable_rule (mods _ u) x = Some r ->
  situation_of c x (gen _ u) <> SitHit ->
  slots _ (o_cache _ _ (unwind_frame u c a rg m)) (x mod CACHE_ENTRY_COUNT) = Some (mkentry _ x (gen _ u) r).
Proof.
  intros Hx Hk Hst Hsit. unfold Unwinder.unwind_frame. rewrite Hx.
  destruct (cache_lookup rule c x (gen _ u)) as [[r'|slot] c1] eqn:Hl.
  - exfalso. apply Hsit. destruct (cache_lookup_hit _ _ _ _ _ Hl) as [e [Hs [Hg [Ha _]]]].
    unfold situation_of. rewrite Hs, Hg, Ha, !N.eqb_refl. reflexivity.
  - assert (Hslot := cache_lookup_miss_slot _ _ _ _ _ Hl). subst slot.
    unfold stable_rule in Hst.
    destruct (find_module (mods _ u) x) as [[[md rel]|]|e|s|]; try discriminate.
    + pose proof (cb_ok md (kind x) rel rg m) as Hcb. rewrite Hk.
      destruct (cb_static md (kind x) rel); try discriminate; inversion Hst; subst;
        destruct (cb md (kind x) rel rg m) as [cr ef]; cbn in Hcb; subst cr;
        destruct (exec r (kind x) rg m); cbn; rewrite N.eqb_refl; reflexivity.
    + inversion Hst; subst. destruct (exec r (negb (is_ra a)) rg m). cbn. rewrite N.eqb_refl. reflexivity.
Qed.

(* ... so the same call repeated is a hit *)
Theorem filled_slot_is_hit c x g r :
  slots _ c (x mod CACHE_ENTRY_COUNT) = Some (mkentry _ x g r) -> situation_of c x g = SitHit.
Proof. clear cb_ok g0_lt. intros H. unfold situation_of. rewrite H. cbn. rewrite !N.eqb_refl. reflexivity. Qed.

(* a call that maps to another slot leaves the slot alone *)
Theorem other_slot_untouched (u : unwinder) c a rg m y s :
  lookup_address a = Ok y -> y mod CACHE_ENTRY_COUNT <> s ->
  slots _ (o_cache _ _ (unwind_frame u c a rg m)) s = slots _ c s.
Proof. clear cb_ok g0_lt.
  intros Hy Hne. unfold Unwinder.unwind_frame. rewrite Hy.
  destruct (cache_lookup rule c y (gen _ u)) as [[r|slot] c1] eqn:Hl.
  - destruct (exec r (negb (is_ra a)) rg m). cbn. rewrite (cache_lookup_slots _ _ _ _ _ Hl). reflexivity.
  - assert (Hslot := cache_lookup_miss_slot _ _ _ _ _ Hl). subst slot.
    assert (Hs1 := cache_lookup_slots _ _ _ _ _ Hl).
    assert (Hins : forall r, slots _ (cache_insert rule c1 (y mod CACHE_ENTRY_COUNT) y (gen _ u) r) s = slots _ c s).
    { intros r. cbn. destruct (s =? y mod CACHE_ENTRY_COUNT) eqn:E; [lia|]. rewrite Hs1. reflexivity. }
    destruct (find_module (mods _ u) y) as [[[md rel]|]|e|st|]; try (cbn; rewrite Hs1; reflexivity).
    + destruct (cb md (negb (is_ra a)) rel rg m) as [r ef]. destruct r; try (cbn; rewrite Hs1; reflexivity).
      * destruct (exec r (negb (is_ra a)) rg m). cbn [o_cache]. apply Hins.
      * destruct (exec fallback (negb (is_ra a)) rg0 m). cbn [o_cache]. apply Hins.
      * destruct (exec fallback (negb (is_ra a)) rg0 m). cbn [o_cache]. rewrite Hs1. reflexivity.
    + destruct (exec fallback (negb (is_ra a)) rg m). cbn [o_cache]. apply Hins.
Qed.

End Hist.

Lemma bump_total_closed s sit : stats_total (bump s sit) = stats_total s + 1.
Proof. destruct sit; unfold stats_total; cbn; lia. Qed.
