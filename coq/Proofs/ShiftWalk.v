(* ShiftWalk.v - C08, stack relocation of a whole walk through the iterator WITH its cache (x86_64).
   The unwinder's modules answer with rules only (no data, DWARF whose rows compress, Mach-O entries
   that do not defer to DWARF); the cache holds well-formed rules (it does when it was only ever filled
   by such unwinders: the invariant is re-established by every call).  Then the relocated walk reports
   the same frames (a reported address that is itself a stack address moves with the stack), ends the
   same way, names the moved address in a read error, and leaves the SAME cache. *)
From FH Require Import Consts Word X86 Unwinder DwarfRow Cfi X86Dwarf DwarfCb Macho MachoCb X86Unw WordFacts X86Exec ShiftFacts MachoWf ShiftFrame.
From Coq Require Import Lia ZifyBool ZifyN List.
Import ListNotations.
Open Scope N_scope.
Ltac Zify.zify_post_hook ::= Z.div_mod_to_equations.
Arguments cache_lookup : simpl never.

Section Walk.
Variables lo hi s : N.
Hypothesis Hlo : 2 * DIST <= lo.
Hypothesis Hlh : lo <= hi.
Hypothesis Hov : hi + s + 2 * DIST < W64.

Notation sh := (sh lo hi s).
Notation ptr := (ptr lo hi).
Notation okv := (okv lo hi).
Notation shm := (shm lo hi s).
Notation rrel := (rrel lo hi s).
Notation vok := (vok lo hi s).
Notation spok := (spok lo hi).
Notation mem_ok := (mem_ok lo hi s).
Notation cb_rel := (cb_rel lo hi s).
Notation out_rel := (out_rel lo hi s).

Definition cache_wf (c : xcache) : Prop :=
  forall sl e, slots rule c sl = Some e -> rule_wf (e_rule rule e) = true.

Lemma cache_new_wf : cache_wf (cache_new rule).
Proof. intros sl e H. discriminate H. Qed.

Lemma cache_lookup_wf c x g r c1 : cache_wf c -> cache_lookup rule c x g = (r, c1) ->
  cache_wf c1 /\ (forall ru, r = Hit rule ru -> rule_wf ru = true).
Proof.
  intros Hw. unfold cache_lookup. cbv zeta.
  destruct (slots rule c (x mod CACHE_ENTRY_COUNT)) as [e|] eqn:Es.
  - destruct (e_gen rule e =? g); [destruct (e_addr rule e =? x)|]; intros H; inversion H; subst; (split; [exact Hw|]);
      intros ru Hr; inversion Hr; subst. apply (Hw _ _ Es).
  - intros H; inversion H; subst. split; [exact Hw|]. intros ru Hr; discriminate Hr.
Qed.

Lemma cache_insert_wf c sl a g r : cache_wf c -> rule_wf r = true -> cache_wf (cache_insert rule c sl a g r).
Proof.
  intros Hw Hr sl' e. unfold cache_insert. cbn [slots]. destruct (sl' =? sl).
  - intros H; inversion H; subst. exact Hr.
  - apply Hw.
Qed.

(* modules that answer with rules only *)
Definition mod_rule_only (md : xmodule) : Prop :=
  match mdat md with
  | MNone => True
  | MDwarf p sec => rows_compress sec
  | MMacho d => forall rel first off,
      macho_cui rule x86_macho_unwind JustReturn JustReturn x86_stub_helper_rule d rel first <> CuiNeedDwarf off
  | MPe _ => False
  end.

Definition unw_rule_only (u : xunwinder) : Prop :=
  forall x md rel, find_module mdata (mods _ u) x = Ok (Some (md, rel)) -> mod_rule_only md.

Lemma cb_rel_rule_only md first rel rg rg' m :
  mod_rule_only md -> rrel rg rg' -> vok rg -> spok rg ->
  cb_rel (cb_x86 md first rel rg m) (cb_x86 md first rel rg' (shm m)).
Proof.
  unfold mod_rule_only. intros Hm Hr Hv Hs. destruct (mdat md) as [|p sec|pe|d] eqn:Ed.
  - apply cb_rel_none; assumption.
  - eapply cb_rel_dwarf; eassumption.
  - contradiction.
  - eapply cb_rel_macho; try eassumption. intros off. apply Hm.
Qed.

Lemma frame_cache_wf (u : xunwinder) c a rg rg' m :
  cache_wf c -> unw_rule_only u -> rrel rg rg' -> vok rg -> spok rg ->
  cache_wf (o_cache _ _ (unwind_frame_x u c a rg m)).
Proof.
  intros Hw Hu Hr Hv Hs. unfold unwind_frame_x, unwind_frame.
  destruct (lookup_address a) as [x|e|p|]; cbn [o_cache]; try exact Hw.
  destruct (cache_lookup rule c x (gen mdata u)) as [[r|slot] c1] eqn:Ec;
    destruct (cache_lookup_wf c x _ _ _ Hw Ec) as [Hw1 Hh].
  - destruct (exec_x r (negb (is_ra a)) rg m). exact Hw1.
  - destruct (find_module mdata (mods mdata u) x) as [[[md rel]|]|e|p|] eqn:Ef; cbn [o_cache]; try exact Hw1.
    + pose proof (cb_rel_rule_only md (negb (is_ra a)) rel rg rg' m (Hu _ _ _ Ef) Hr Hv Hs) as [_ Hk].
      destruct (cb_x86 md (negb (is_ra a)) rel rg m) as [k ef].
      destruct (cb_x86 md (negb (is_ra a)) rel rg' (shm m)) as [k' ef']. cbn [fst snd] in Hk.
      destruct k as [r|ra g|g|g|p|]; destruct k' as [r'|ra' g'|g'|g'|p'|]; try contradiction; cbn [o_cache].
      * destruct Hk as [_ Hwf]. destruct (exec_x r (negb (is_ra a)) rg m). apply cache_insert_wf; assumption.
      * destruct (exec_x fallback_rule (negb (is_ra a)) g m). apply cache_insert_wf; [assumption | reflexivity].
    + destruct (exec_x fallback_rule (negb (is_ra a)) rg m). apply cache_insert_wf; [assumption | reflexivity].
Qed.

(* ---- the iterator *)
Definition fa_sh (f : faddr) : faddr := match f with IP a => IP (sh a) | RA a => RA (sh a) end.

Definition ires_rel (r r' : res (option faddr)) : Prop :=
  match r, r' with
  | Ok None, Ok None => True
  | Ok (Some f), Ok (Some f') => f' = fa_sh f
  | Err e, Err e' => err_rel s e e'
  | Panic p, Panic p' => p = p'
  | Hang, Hang => True
  | _, _ => False
  end.

(* a reported frame whose address is a code address (not a word that points into the stack) *)
Definition good (r : res (option faddr)) : Prop :=
  match r with Ok (Some f) => ptr (faddr_address f) = false | _ => False end.

Definition xiter := Unwinder.iter rule regs.

Definition it_rel (it it' : xiter) : Prop :=
  i_state _ _ it' = i_state _ _ it /\ i_cache _ _ it' = i_cache _ _ it /\ cache_wf (i_cache _ _ it) /\
  match i_state _ _ it with
  | Done => True
  | Initial pc => ptr pc = false /\ rrel (i_regs _ _ it) (i_regs _ _ it') /\ vok (i_regs _ _ it) /\ spok (i_regs _ _ it)
  | Unwinding _ => rrel (i_regs _ _ it) (i_regs _ _ it') /\ vok (i_regs _ _ it) /\ spok (i_regs _ _ it)
  end.

Lemma sh_noptr v : ptr v = false -> sh v = v.
Proof. intros H. unfold ShiftFacts.sh. rewrite H. reflexivity. Qed.

Lemma iter_next_shift (u : xunwinder) m it it' :
  mem_ok m -> unw_rule_only u -> it_rel it it' ->
  let o := iter_next_x u m it in let o' := iter_next_x u (shm m) it' in
  ires_rel (fst o) (fst o') /\ i_cache _ _ (snd o') = i_cache _ _ (snd o) /\ cache_wf (i_cache _ _ (snd o)) /\
  (good (fst o) -> it_rel (snd o) (snd o')).
Proof.
  intros Hm Hu (Hst & Hc & Hw & Hx). cbv zeta. unfold iter_next_x, iter_next. rewrite Hst, Hc.
  destruct (i_state rule regs it) as [pc|a|] eqn:Es.
  - (* Initial *)
    destruct Hx as (Hp & Hr & Hv & Hs). cbn [fst snd i_cache].
    refine (conj _ (conj eq_refl (conj Hw _))).
    + cbn. rewrite (sh_noptr _ Hp). reflexivity.
    + intros _. unfold it_rel. cbn [i_state i_cache i_regs].
      exact (conj eq_refl (conj eq_refl (conj Hw (conj Hr (conj Hv Hs))))).
  - (* Unwinding *)
    destruct Hx as (Hr & Hv & Hs).
    pose proof (unwind_frame_x_stack_shift lo hi s Hlo Hlh Hov u (i_cache _ _ it) a (i_regs _ _ it) (i_regs _ _ it') m Hm Hr Hv Hs) as F.
    assert (Hhit : forall x r c1, lookup_address a = Ok x ->
              cache_lookup rule (i_cache rule regs it) x (gen mdata u) = (Hit rule r, c1) -> rule_wf r = true).
    { intros x r c1 _ Ec. destruct (cache_lookup_wf _ _ _ _ _ Hw Ec) as [_ Hh]. apply Hh. reflexivity. }
    assert (Hcb : forall x md rel, lookup_address a = Ok x -> find_module mdata (mods mdata u) x = Ok (Some (md, rel)) ->
              cb_rel (cb_x86 md (negb (is_ra a)) rel (i_regs _ _ it) m) (cb_x86 md (negb (is_ra a)) rel (i_regs _ _ it') (shm m))).
    { intros x md rel _ Ef. apply cb_rel_rule_only; try assumption. exact (Hu _ _ _ Ef). }
    specialize (F Hhit Hcb). cbv zeta in F. destruct F as ((Rr & Rg & Rv & Rs) & Fc & _).
    pose proof (frame_cache_wf u (i_cache _ _ it) a (i_regs _ _ it) (i_regs _ _ it') m Hw Hu Hr Hv Hs) as Wc.
    change (unwind_frame rule regs mdata exec_x fallback_rule cb_x86) with unwind_frame_x.
    destruct (unwind_frame_x u (i_cache rule regs it) a (i_regs rule regs it) m) as [q g c2 ef].
    destruct (unwind_frame_x u (i_cache rule regs it) a (i_regs rule regs it') (shm m)) as [q' g' c2' ef'].
    cbn [o_res o_regs o_cache fst snd] in *. subst c2'.
    destruct q as [[ra|]|e|p|]; destruct q' as [[ra'|]|e'|p'|]; cbn in Rr; try contradiction;
      cbn [fst snd i_cache];
      try (refine (conj _ (conj eq_refl (conj Wc _))); [cbn; try exact Rr; try exact I | intros G; contradiction G]).
    destruct Rr as [-> Hok]. unfold from_return_address. rewrite (sh_zero lo hi s Hlo Hlh Hov ra Hok).
    destruct (ra =? 0) eqn:Ez; cbn [fst snd i_cache].
    + refine (conj _ (conj eq_refl (conj Wc _))); [cbn; left; reflexivity | intros G; contradiction G].
    + refine (conj _ (conj eq_refl (conj Wc _))); [cbn; reflexivity|].
      intros G. cbn in G. unfold it_rel. cbn [i_state i_cache i_regs]. rewrite (sh_noptr _ G).
      exact (conj eq_refl (conj eq_refl (conj Wc (conj Rg (conj Rv (Rs ra eq_refl)))))).
  - (* Done *)
    cbn [fst snd]. refine (conj I (conj Hc (conj Hw _))). intros G; contradiction G.
Qed.

Lemma iter_run_length (u : xunwinder) m : forall n it, length (fst (iter_run_x u m it n)) = n.
Proof.
  induction n as [|n IH]; intros it; [reflexivity|]. unfold iter_run_x in *. cbn [iter_run].
  destruct (iter_next rule regs mdata exec_x fallback_rule cb_x86 u m it) as [r it1].
  specialize (IH it1). destruct (iter_run rule regs mdata exec_x fallback_rule cb_x86 u m it1 n) as [rs it2].
  cbn [fst length] in *. rewrite IH. reflexivity.
Qed.

Theorem iter_run_x_stack_shift (u : xunwinder) m : mem_ok m -> unw_rule_only u -> forall n it it',
  it_rel it it' ->
  Forall good (removelast (fst (iter_run_x u m it n))) ->
  Forall2 ires_rel (fst (iter_run_x u m it n)) (fst (iter_run_x u (shm m) it' n)) /\
  i_cache _ _ (snd (iter_run_x u (shm m) it' n)) = i_cache _ _ (snd (iter_run_x u m it n)).
Proof.
  intros Hm Hu. induction n as [|n IH]; intros it it' Hi Hg.
  - cbn. split; [constructor | destruct Hi as (_ & Hc & _); exact Hc].
  - pose proof (iter_next_shift u m it it' Hm Hu Hi) as N. cbv zeta in N.
    pose proof (iter_run_length u m n) as L. pose proof (iter_run_length u (shm m) n) as L'.
    unfold iter_run_x, iter_next_x in *. cbn [iter_run] in *.
    destruct (iter_next rule regs mdata exec_x fallback_rule cb_x86 u m it) as [r it1].
    destruct (iter_next rule regs mdata exec_x fallback_rule cb_x86 u (shm m) it') as [r' it1'].
    cbn [fst snd] in N. destruct N as (Nr & Nc & Nw & Ng).
    specialize (IH it1 it1'). specialize (L it1). specialize (L' it1').
    destruct n as [|n].
    + cbn [iter_run fst snd] in *. split; [constructor; [exact Nr | constructor] | exact Nc].
    + destruct (iter_run rule regs mdata exec_x fallback_rule cb_x86 u m it1 (S n)) as [rs it2].
      destruct (iter_run rule regs mdata exec_x fallback_rule cb_x86 u (shm m) it1' (S n)) as [rs' it2'].
      cbn [fst snd] in *.
      destruct rs as [|r2 rs]; [discriminate L|].
      cbn [removelast] in Hg. inversion Hg as [|? ? G1 G2]; subst.
      destruct (IH (Ng G1) G2) as [I1 I2]. split; [constructor; assumption | exact I2].
Qed.
End Walk.

(* the premises are met by a real-looking walk: three frames over frame records, the stack moved by 4 GiB *)
Definition ex_u : xunwinder := mkunw mdata [] 0.
Definition ex_it (d : N) : xiter := iter_new rule regs 4194304 (ex_regs d) (cache_new rule).
Lemma ex_walk : fst (iter_run_x ex_u (mem_of_list ex_cells) (ex_it 0) 4)
    = [Ok (Some (IP 4194304)); Ok (Some (RA 4198400)); Ok (Some (RA 4202496)); Ok None].
Proof. vm_compute; reflexivity. Qed.
Example walk_premises_hold :
  unw_rule_only ex_u /\ it_rel ex_lo ex_hi ex_s (ex_it 0) (ex_it ex_s) /\
  Forall (good ex_lo ex_hi) (removelast (fst (iter_run_x ex_u (mem_of_list ex_cells) (ex_it 0) 4))) /\
  fst (iter_run_x ex_u (mem_of_list ex_cells) (ex_it 0) 4)
    = [Ok (Some (IP 4194304)); Ok (Some (RA 4198400)); Ok (Some (RA 4202496)); Ok None].
Proof.
  destruct shift_premises_hold as (_ & _ & _ & _ & Hr & Hv & Hs & _).
  split; [intros x md rel H; cbn in H; discriminate H|].
  split; [unfold it_rel; cbn [ex_it iter_new i_state i_cache i_regs];
          exact (conj eq_refl (conj eq_refl (conj cache_new_wf (conj eq_refl (conj Hr (conj Hv Hs))))))|].
  split; [rewrite ex_walk; cbn [removelast]; repeat constructor | exact ex_walk].
Qed.

