(* ShiftWalk.v - C08, stack relocation of a whole walk through the iterator WITH its cache (x86_64).
   The unwinder's modules answer with rules only (no data, DWARF whose rows compress, Mach-O entries
   that do not defer to DWARF); the cache holds well-formed rules (it does when it was only ever filled
   by such unwinders: the invariant is re-established by every call).  Then the relocated walk reports
   the same frames (a reported address that is itself a stack address moves with the stack), ends the
   same way, names the moved address in a read error, and leaves the SAME cache. *)
From FH Require Import Consts Word X86 Unwinder DwarfRow Cfi X86Dwarf DwarfCb Macho MachoCb X86Unw WordFacts X86Exec ShiftFacts MachoWf ShiftFrame ShiftStatic.
From Coq Require Import Lia ZifyBool ZifyN List.
Import ListNotations.
Open Scope N_scope.
Ltac Zify.zify_post_hook ::= Z.div_mod_to_equations.
Arguments cache_lookup : simpl never.

Section Walk.
Variables lo hi s : N.
Hypothesis Hlo : 2 * DIST <= lo.
Hypothesis Hlh : lo <= hi.
Hypothesis Hov : hi + s + 2 * DIST < W64.

Notation sh := (sh lo hi s).
Notation ptr := (ptr lo hi).
Notation okv := (okv lo hi).
Notation shm := (shm lo hi s).
Notation rrel := (rrel lo hi s).
Notation vok := (vok lo hi s).
Notation spok := (spok lo hi).
Notation mem_ok := (mem_ok lo hi s).
Notation cb_rel := (cb_rel lo hi s).
Notation out_rel := (out_rel lo hi s).

Definition cache_wf (c : xcache) : Prop :=
  forall sl e, slots rule c sl = Some e -> rule_wf (e_rule rule e) = true.

Lemma cache_new_wf : cache_wf (cache_new rule).
Proof. intros sl e H. discriminate H. Qed.

Lemma cache_lookup_wf c x g r c1 : cache_wf c -> cache_lookup rule c x g = (r, c1) ->
  cache_wf c1 /\ (forall ru, r = Hit rule ru -> rule_wf ru = true).
Proof.
  intros Hw. unfold cache_lookup. cbv zeta.
  destruct (slots rule c (x mod CACHE_ENTRY_COUNT)) as [e|] eqn:Es.
  - destruct (e_gen rule e =? g); [destruct (e_addr rule e =? x)|]; intros H; inversion H; subst; (split; [exact Hw|]);
      intros ru Hr; inversion Hr; subst. apply (Hw _ _ Es).
  - intros H; inversion H; subst. split; [exact Hw|]. intros ru Hr; discriminate Hr.
Qed.

Lemma cache_insert_wf c sl a g r : cache_wf c -> rule_wf r = true -> cache_wf (cache_insert rule c sl a g r).
Proof.
  intros Hw Hr sl' e. unfold cache_insert. cbn [slots]. destruct (sl' =? sl).
  - intros H; inversion H; subst. exact Hr.
  - apply Hw.
Qed.

(* unwinders whose callbacks answer every (module, role, address) they can be asked with a rule or a
   state-independent error - the static classification of StaticFacts.v: modules without data, DWARF rows that
   compress, compact-unwind entries (also those that defer to such DWARF rows), PE steps that compress into the pop
   rule; NOT: DWARF rows with expressions, PE steps that interpret unwind codes *)
Definition unw_rule_only (u : xunwinder) : Prop :=
  forall x md rel first, find_module mdata (mods _ u) x = Ok (Some (md, rel)) -> static_ok_x86 md first rel.

Lemma frame_cache_wf (u : xunwinder) c a rg rg' m :
  cache_wf c -> unw_rule_only u -> rrel rg rg' -> vok rg -> spok rg ->
  cache_wf (o_cache _ _ (unwind_frame_x u c a rg m)).
Proof.
  intros Hw Hu Hr Hv Hs. unfold unwind_frame_x, unwind_frame.
  destruct (lookup_address a) as [x|e|p|]; cbn [o_cache]; try exact Hw.
  destruct (cache_lookup rule c x (gen mdata u)) as [[r|slot] c1] eqn:Ec;
    destruct (cache_lookup_wf c x _ _ _ Hw Ec) as [Hw1 Hh].
  - destruct (exec_x r (negb (is_ra a)) rg m). exact Hw1.
  - destruct (find_module mdata (mods mdata u) x) as [[[md rel]|]|e|p|] eqn:Ef; cbn [o_cache]; try exact Hw1.
    + pose proof (cb_rel_static lo hi s md (negb (is_ra a)) rel rg rg' m (Hu _ _ _ _ Ef) Hr Hv Hs) as [_ Hk].
      destruct (cb_x86 md (negb (is_ra a)) rel rg m) as [k ef].
      destruct (cb_x86 md (negb (is_ra a)) rel rg' (shm m)) as [k' ef']. cbn [fst snd] in Hk.
      destruct k as [r|ra g|g|g|p|]; destruct k' as [r'|ra' g'|g'|g'|p'|]; try contradiction; cbn [o_cache].
      * destruct Hk as [_ Hwf]. destruct (exec_x r (negb (is_ra a)) rg m). apply cache_insert_wf; assumption.
      * destruct (exec_x fallback_rule (negb (is_ra a)) g m). apply cache_insert_wf; [assumption | reflexivity].
    + destruct (exec_x fallback_rule (negb (is_ra a)) rg m). apply cache_insert_wf; [assumption | reflexivity].
Qed.

(* ---- the iterator *)
Definition fa_sh (f : faddr) : faddr := match f with IP a => IP (sh a) | RA a => RA (sh a) end.

Definition ires_rel (r r' : res (option faddr)) : Prop :=
  match r, r' with
  | Ok None, Ok None => True
  | Ok (Some f), Ok (Some f') => f' = fa_sh f
  | Err e, Err e' => err_rel s e e'
  | Panic p, Panic p' => p = p'
  | Hang, Hang => True
  | _, _ => False
  end.

(* a reported frame whose address is a code address (not a word that points into the stack) *)
Definition good (r : res (option faddr)) : Prop :=
  match r with Ok (Some f) => ptr (faddr_address f) = false | _ => False end.

Definition xiter := Unwinder.iter rule regs.

Definition it_rel (it it' : xiter) : Prop :=
  i_state _ _ it' = i_state _ _ it /\ i_cache _ _ it' = i_cache _ _ it /\ cache_wf (i_cache _ _ it) /\
  match i_state _ _ it with
  | Done => True
  | Initial pc => ptr pc = false /\ rrel (i_regs _ _ it) (i_regs _ _ it') /\ vok (i_regs _ _ it) /\ spok (i_regs _ _ it)
  | Unwinding _ => rrel (i_regs _ _ it) (i_regs _ _ it') /\ vok (i_regs _ _ it) /\ spok (i_regs _ _ it)
  end.

Lemma sh_noptr v : ptr v = false -> sh v = v.
Proof. intros H. unfold ShiftFacts.sh. rewrite H. reflexivity. Qed.

Lemma iter_next_shift (u : xunwinder) m it it' :
  mem_ok m -> unw_rule_only u -> it_rel it it' ->
  let o := iter_next_x u m it in let o' := iter_next_x u (shm m) it' in
  ires_rel (fst o) (fst o') /\ i_cache _ _ (snd o') = i_cache _ _ (snd o) /\ cache_wf (i_cache _ _ (snd o)) /\
  (good (fst o) -> it_rel (snd o) (snd o')).
Proof.
  intros Hm Hu (Hst & Hc & Hw & Hx). cbv zeta. unfold iter_next_x, iter_next. rewrite Hst, Hc.
  destruct (i_state rule regs it) as [pc|a|] eqn:Es.
  - (* Initial *)
    destruct Hx as (Hp & Hr & Hv & Hs). cbn [fst snd i_cache].
    refine (conj _ (conj eq_refl (conj Hw _))).
    + cbn. rewrite (sh_noptr _ Hp). reflexivity.
    + intros _. unfold it_rel. cbn [i_state i_cache i_regs].
      exact (conj eq_refl (conj eq_refl (conj Hw (conj Hr (conj Hv Hs))))).
  - (* Unwinding *)
    destruct Hx as (Hr & Hv & Hs).
    pose proof (unwind_frame_x_stack_shift lo hi s Hlo Hlh Hov u (i_cache _ _ it) a (i_regs _ _ it) (i_regs _ _ it') m Hm Hr Hv Hs) as F.
    assert (Hhit : forall x r c1, lookup_address a = Ok x ->
              cache_lookup rule (i_cache rule regs it) x (gen mdata u) = (Hit rule r, c1) -> rule_wf r = true).
    { intros x r c1 _ Ec. destruct (cache_lookup_wf _ _ _ _ _ Hw Ec) as [_ Hh]. apply Hh. reflexivity. }
    assert (Hcb : forall x md rel, lookup_address a = Ok x -> find_module mdata (mods mdata u) x = Ok (Some (md, rel)) ->
              cb_rel (cb_x86 md (negb (is_ra a)) rel (i_regs _ _ it) m) (cb_x86 md (negb (is_ra a)) rel (i_regs _ _ it') (shm m))).
    { intros x md rel _ Ef. apply cb_rel_static; try assumption. exact (Hu _ _ _ _ Ef). }
    specialize (F Hhit Hcb). cbv zeta in F. destruct F as ((Rr & Rg & Rv & Rs) & Fc & _).
    pose proof (frame_cache_wf u (i_cache _ _ it) a (i_regs _ _ it) (i_regs _ _ it') m Hw Hu Hr Hv Hs) as Wc.
    change (unwind_frame rule regs mdata exec_x fallback_rule cb_x86) with unwind_frame_x.
    destruct (unwind_frame_x u (i_cache rule regs it) a (i_regs rule regs it) m) as [q g c2 ef].
    destruct (unwind_frame_x u (i_cache rule regs it) a (i_regs rule regs it') (shm m)) as [q' g' c2' ef'].
    cbn [o_res o_regs o_cache fst snd] in *. subst c2'.
    destruct q as [[ra|]|e|p|]; destruct q' as [[ra'|]|e'|p'|]; cbn in Rr; try contradiction;
      cbn [fst snd i_cache];
      try (refine (conj _ (conj eq_refl (conj Wc _))); [cbn; try exact Rr; try exact I | intros G; contradiction G]).
    destruct Rr as [-> Hok]. unfold from_return_address. rewrite (sh_zero lo hi s Hlo Hlh Hov ra Hok).
    destruct (ra =? 0) eqn:Ez; cbn [fst snd i_cache].
    + refine (conj _ (conj eq_refl (conj Wc _))); [cbn; left; reflexivity | intros G; contradiction G].
    + refine (conj _ (conj eq_refl (conj Wc _))); [cbn; reflexivity|].
      intros G. cbn in G. unfold it_rel. cbn [i_state i_cache i_regs]. rewrite (sh_noptr _ G).
      exact (conj eq_refl (conj eq_refl (conj Wc (conj Rg (conj Rv (Rs ra eq_refl)))))).
  - (* Done *)
    cbn [fst snd]. refine (conj I (conj Hc (conj Hw _))). intros G; contradiction G.
Qed.

Lemma iter_run_length (u : xunwinder) m : forall n it, length (fst (iter_run_x u m it n)) = n.
Proof.
  induction n as [|n IH]; intros it; [reflexivity|]. unfold iter_run_x in *. cbn [iter_run].
  destruct (iter_next rule regs mdata exec_x fallback_rule cb_x86 u m it) as [r it1].
  specialize (IH it1). destruct (iter_run rule regs mdata exec_x fallback_rule cb_x86 u m it1 n) as [rs it2].
  cbn [fst length] in *. rewrite IH. reflexivity.
Qed.

Theorem iter_run_x_stack_shift (u : xunwinder) m : mem_ok m -> unw_rule_only u -> forall n it it',
  it_rel it it' ->
  Forall good (removelast (fst (iter_run_x u m it n))) ->
  Forall2 ires_rel (fst (iter_run_x u m it n)) (fst (iter_run_x u (shm m) it' n)) /\
  i_cache _ _ (snd (iter_run_x u (shm m) it' n)) = i_cache _ _ (snd (iter_run_x u m it n)).
Proof.
  intros Hm Hu. induction n as [|n IH]; intros it it' Hi Hg.
  - cbn. split; [constructor | destruct Hi as (_ & Hc & _); exact Hc].
  - pose proof (iter_next_shift u m it it' Hm Hu Hi) as N. cbv zeta in N.
    pose proof (iter_run_length u m n) as L. pose proof (iter_run_length u (shm m) n) as L'.
    unfold iter_run_x, iter_next_x in *. cbn [iter_run] in *.
    destruct (iter_next rule regs mdata exec_x fallback_rule cb_x86 u m it) as [r it1].
    destruct (iter_next rule regs mdata exec_x fallback_rule cb_x86 u (shm m) it') as [r' it1'].
    cbn [fst snd] in N. destruct N as (Nr & Nc & Nw & Ng).
    specialize (IH it1 it1'). specialize (L it1). specialize (L' it1').
    destruct n as [|n].
    + cbn [iter_run fst snd] in *. split; [constructor; [exact Nr | constructor] | exact Nc].
    + destruct (iter_run rule regs mdata exec_x fallback_rule cb_x86 u m it1 (S n)) as [rs it2].
      destruct (iter_run rule regs mdata exec_x fallback_rule cb_x86 u (shm m) it1' (S n)) as [rs' it2'].
      cbn [fst snd] in *.
      destruct rs as [|r2 rs]; [discriminate L|].
      cbn [removelast] in Hg. inversion Hg as [|? ? G1 G2]; subst.
      destruct (IH (Ng G1) G2) as [I1 I2]. split; [constructor; assumption | exact I2].
Qed.
End Walk.

(* the premises are met by a real-looking walk: three frames over frame records, the stack moved by 4 GiB *)
Definition ex_u : xunwinder := mkunw mdata [] 0.
Definition ex_it (d : N) : xiter := iter_new rule regs 4194304 (ex_regs d) (cache_new rule).
Lemma ex_walk : fst (iter_run_x ex_u (mem_of_list ex_cells) (ex_it 0) 4)
    = [Ok (Some (IP 4194304)); Ok (Some (RA 4198400)); Ok (Some (RA 4202496)); Ok None].
Proof. vm_compute; reflexivity. Qed.
Example walk_premises_hold :
  unw_rule_only ex_u /\ it_rel ex_lo ex_hi ex_s (ex_it 0) (ex_it ex_s) /\
  Forall (good ex_lo ex_hi) (removelast (fst (iter_run_x ex_u (mem_of_list ex_cells) (ex_it 0) 4))) /\
  fst (iter_run_x ex_u (mem_of_list ex_cells) (ex_it 0) 4)
    = [Ok (Some (IP 4194304)); Ok (Some (RA 4198400)); Ok (Some (RA 4202496)); Ok None].
Proof.
  destruct shift_premises_hold as (_ & _ & _ & _ & Hr & Hv & Hs & _).
  split; [intros x md rel first H; cbn in H; discriminate H|].
  split; [unfold it_rel; cbn [ex_it iter_new i_state i_cache i_regs];
          exact (conj eq_refl (conj eq_refl (conj cache_new_wf (conj eq_refl (conj Hr (conj Hv Hs))))))|].
  split; [rewrite ex_walk; cbn [removelast]; repeat constructor | exact ex_walk].
Qed.

(* ------------------------------------------------------------------ aarch64: the same, with one more premise.
   A rule that takes the return address from lr reads no memory, so nothing ties the new sp to the stack: that every
   state of the ORIGINAL walk has its sp inside the stack (below the top of the address space, above the stack's low
   end) is asked of the walk ([sp_ok_run]) instead of being derived. *)
From FH Require Import A64 A64Dwarf A64Unw.
Section WalkA.
Variables lo hi s : N.
Hypothesis Hlo : 2 * DIST <= lo.
Hypothesis Hlh : lo <= hi.
Hypothesis Hov : hi + s + 2 * DIST < W64.
Variable k : N.
Hypothesis Hmask : forall v, v <= hi + s -> strip k v = v.

Notation sh := (sh lo hi s).
Notation ptr := (ptr lo hi).
Notation shm := (shm lo hi s).
Notation arel := (arel lo hi s k).
Notation avok := (avok lo hi s k).
Notation aspok := (aspok lo s).
Notation mem_ok_a := (mem_ok_a lo hi s k).
Notation cb_rel_a := (cb_rel_a lo hi s k).

Definition acache_wf (c : acache) : Prop :=
  forall sl e, slots arule c sl = Some e -> arule_wf (e_rule arule e) = true.

Lemma acache_new_wf : acache_wf (cache_new arule).
Proof. intros sl e H. discriminate H. Qed.

Lemma acache_lookup_wf c x g r c1 : acache_wf c -> cache_lookup arule c x g = (r, c1) ->
  acache_wf c1 /\ (forall ru, r = Hit arule ru -> arule_wf ru = true).
Proof.
  intros Hw. unfold cache_lookup. cbv zeta.
  destruct (slots arule c (x mod CACHE_ENTRY_COUNT)) as [e|] eqn:Es.
  - destruct (e_gen arule e =? g); [destruct (e_addr arule e =? x)|]; intros H; inversion H; subst; (split; [exact Hw|]);
      intros ru Hr; inversion Hr; subst. apply (Hw _ _ Es).
  - intros H; inversion H; subst. split; [exact Hw|]. intros ru Hr; discriminate Hr.
Qed.

Lemma acache_insert_wf c sl a g r : acache_wf c -> arule_wf r = true -> acache_wf (cache_insert arule c sl a g r).
Proof.
  intros Hw Hr sl' e. unfold cache_insert. cbn [slots]. destruct (sl' =? sl).
  - intros H; inversion H; subst. exact Hr.
  - apply Hw.
Qed.

Definition aunw_rule_only (u : aunwinder) : Prop :=
  forall x md rel first, find_module amdata (mods _ u) x = Ok (Some (md, rel)) -> static_ok_a64 md first rel.

Lemma aframe_cache_wf (u : aunwinder) c a rg rg' m :
  acache_wf c -> aunw_rule_only u -> arel rg rg' -> avok rg -> aspok rg ->
  acache_wf (o_cache _ _ (unwind_frame_a u c a rg m)).
Proof.
  intros Hw Hu Hr Hv Hs. unfold unwind_frame_a, unwind_frame.
  destruct (lookup_address a) as [x|e|p|]; cbn [o_cache]; try exact Hw.
  destruct (cache_lookup arule c x (gen amdata u)) as [[r|slot] c1] eqn:Ec;
    destruct (acache_lookup_wf c x _ _ _ Hw Ec) as [Hw1 Hh].
  - destruct (aexec r (negb (is_ra a)) rg m). exact Hw1.
  - destruct (find_module amdata (mods amdata u) x) as [[[md rel]|]|e|p|] eqn:Ef; cbn [o_cache]; try exact Hw1.
    + pose proof (cb_rel_a_static lo hi s k md (negb (is_ra a)) rel rg rg' m (Hu _ _ _ _ Ef) Hr Hv Hs) as [_ Hk].
      destruct (cb_a64 md (negb (is_ra a)) rel rg m) as [kk ef].
      destruct (cb_a64 md (negb (is_ra a)) rel rg' (shm m)) as [kk' ef']. cbn [fst snd] in Hk.
      destruct kk as [r|ra g|g|g|p|]; destruct kk' as [r'|ra' g'|g'|g'|p'|]; try contradiction; cbn [o_cache].
      * destruct Hk as [_ Hwf]. destruct (aexec r (negb (is_ra a)) rg m). apply acache_insert_wf; assumption.
      * destruct (aexec afallback_rule (negb (is_ra a)) g m). apply acache_insert_wf; [assumption | reflexivity].
    + destruct (aexec afallback_rule (negb (is_ra a)) rg m). apply acache_insert_wf; [assumption | reflexivity].
Qed.

Definition afa_sh (f : faddr) : faddr := match f with IP a => IP (sh a) | RA a => RA (sh a) end.
Definition aires_rel (r r' : res (option faddr)) : Prop :=
  match r, r' with
  | Ok None, Ok None => True
  | Ok (Some f), Ok (Some f') => f' = afa_sh f
  | Err e, Err e' => err_rel s e e'
  | Panic p, Panic p' => p = p'
  | Hang, Hang => True
  | _, _ => False
  end.
Definition agood (r : res (option faddr)) : Prop :=
  match r with Ok (Some f) => ptr (faddr_address f) = false | _ => False end.

Definition aiter := Unwinder.iter arule aregs.

Definition ait_rel (it it' : aiter) : Prop :=
  i_state _ _ it' = i_state _ _ it /\ i_cache _ _ it' = i_cache _ _ it /\ acache_wf (i_cache _ _ it) /\
  match i_state _ _ it with
  | Done => True
  | Initial pc => ptr pc = false /\ arel (i_regs _ _ it) (i_regs _ _ it') /\ avok (i_regs _ _ it)
  | Unwinding _ => arel (i_regs _ _ it) (i_regs _ _ it') /\ avok (i_regs _ _ it)
  end.

(* the sp of every state the original walk goes through lies in the stack *)
Definition st_sp_ok (it : aiter) : Prop :=
  match i_state _ _ it with Done => True | _ => aspok (i_regs _ _ it) end.
Fixpoint sp_ok_run (u : aunwinder) (m : mem) (it : aiter) (n : nat) : Prop :=
  st_sp_ok it /\
  match n with
  | O => True
  | S n' => sp_ok_run u m (snd (iter_next_a u m it)) n'
  end.

Lemma ash_noptr v : ptr v = false -> sh v = v.
Proof. intros H. unfold ShiftFacts.sh. rewrite H. reflexivity. Qed.

Lemma aiter_next_shift (u : aunwinder) m it it' :
  mem_ok_a m -> aunw_rule_only u -> ait_rel it it' -> st_sp_ok it ->
  let o := iter_next_a u m it in let o' := iter_next_a u (shm m) it' in
  aires_rel (fst o) (fst o') /\ i_cache _ _ (snd o') = i_cache _ _ (snd o) /\ acache_wf (i_cache _ _ (snd o)) /\
  (agood (fst o) -> ait_rel (snd o) (snd o')).
Proof.
  intros Hm Hu (Hst & Hc & Hw & Hx) Hsp. cbv zeta. unfold iter_next_a, iter_next. unfold st_sp_ok in Hsp. rewrite Hst, Hc.
  destruct (i_state arule aregs it) as [pc|a|] eqn:Es.
  - destruct Hx as (Hp & Hr & Hv). cbn [fst snd i_cache].
    refine (conj _ (conj eq_refl (conj Hw _))).
    + cbn. rewrite (ash_noptr _ Hp). reflexivity.
    + intros _. unfold ait_rel. cbn [i_state i_cache i_regs].
      exact (conj eq_refl (conj eq_refl (conj Hw (conj Hr Hv)))).
  - destruct Hx as (Hr & Hv).
    pose proof (unwind_frame_a_stack_shift lo hi s Hlo Hlh Hov k Hmask u (i_cache _ _ it) a (i_regs _ _ it) (i_regs _ _ it') m Hm Hr Hv Hsp) as F.
    assert (Hhit : forall x r c1, lookup_address a = Ok x ->
              cache_lookup arule (i_cache arule aregs it) x (gen amdata u) = (Hit arule r, c1) -> arule_wf r = true).
    { intros x r c1 _ Ec. destruct (acache_lookup_wf _ _ _ _ _ Hw Ec) as [_ Hh]. apply Hh. reflexivity. }
    assert (Hcb : forall x md rel, lookup_address a = Ok x -> find_module amdata (mods amdata u) x = Ok (Some (md, rel)) ->
              cb_rel_a (cb_a64 md (negb (is_ra a)) rel (i_regs _ _ it) m) (cb_a64 md (negb (is_ra a)) rel (i_regs _ _ it') (shm m))).
    { intros x md rel _ Ef. apply cb_rel_a_static; try assumption. exact (Hu _ _ _ _ Ef). }
    specialize (F Hhit Hcb). cbv zeta in F. destruct F as ((Rr & Rg & Rv) & Fc & _).
    pose proof (aframe_cache_wf u (i_cache _ _ it) a (i_regs _ _ it) (i_regs _ _ it') m Hw Hu Hr Hv Hsp) as Wc.
    change (unwind_frame arule aregs amdata aexec afallback_rule cb_a64) with unwind_frame_a.
    destruct (unwind_frame_a u (i_cache arule aregs it) a (i_regs arule aregs it) m) as [q g c2 ef].
    destruct (unwind_frame_a u (i_cache arule aregs it) a (i_regs arule aregs it') (shm m)) as [q' g' c2' ef'].
    cbn [o_res o_regs o_cache fst snd] in *. subst c2'.
    destruct q as [[ra|]|e|p|]; destruct q' as [[ra'|]|e'|p'|]; cbn in Rr; try contradiction;
      cbn [fst snd i_cache];
      try (refine (conj _ (conj eq_refl (conj Wc _))); [cbn; try exact Rr; try exact I | intros G; contradiction G]).
    destruct Rr as [-> Hok]. unfold from_return_address. rewrite (sh_zero lo hi s Hlo Hlh Hov ra Hok).
    destruct (ra =? 0) eqn:Ez; cbn [fst snd i_cache].
    + refine (conj _ (conj eq_refl (conj Wc _))); [cbn; left; reflexivity | intros G; contradiction G].
    + refine (conj _ (conj eq_refl (conj Wc _))); [cbn; reflexivity|].
      intros G. cbn in G. unfold ait_rel. cbn [i_state i_cache i_regs]. rewrite (ash_noptr _ G).
      exact (conj eq_refl (conj eq_refl (conj Wc (conj Rg Rv)))).
  - cbn [fst snd]. refine (conj I (conj Hc (conj Hw _))). intros G; contradiction G.
Qed.

Lemma aiter_run_length (u : aunwinder) m : forall n it, length (fst (iter_run_a u m it n)) = n.
Proof.
  induction n as [|n IH]; intros it; [reflexivity|]. unfold iter_run_a in *. cbn [iter_run].
  destruct (iter_next arule aregs amdata aexec afallback_rule cb_a64 u m it) as [r it1].
  specialize (IH it1). destruct (iter_run arule aregs amdata aexec afallback_rule cb_a64 u m it1 n) as [rs it2].
  cbn [fst length] in *. rewrite IH. reflexivity.
Qed.

Theorem iter_run_a_stack_shift (u : aunwinder) m : mem_ok_a m -> aunw_rule_only u -> forall n it it',
  ait_rel it it' -> sp_ok_run u m it n ->
  Forall agood (removelast (fst (iter_run_a u m it n))) ->
  Forall2 aires_rel (fst (iter_run_a u m it n)) (fst (iter_run_a u (shm m) it' n)) /\
  i_cache _ _ (snd (iter_run_a u (shm m) it' n)) = i_cache _ _ (snd (iter_run_a u m it n)).
Proof.
  intros Hm Hu. induction n as [|n IH]; intros it it' Hi Hs Hg.
  - cbn. split; [constructor | destruct Hi as (_ & Hc & _); exact Hc].
  - destruct Hs as [Hs0 Hs1].
    pose proof (aiter_next_shift u m it it' Hm Hu Hi Hs0) as N. cbv zeta in N.
    pose proof (aiter_run_length u m n) as L. pose proof (aiter_run_length u (shm m) n) as L'.
    unfold iter_run_a, iter_next_a in *. cbn [iter_run] in *.
    destruct (iter_next arule aregs amdata aexec afallback_rule cb_a64 u m it) as [r it1].
    destruct (iter_next arule aregs amdata aexec afallback_rule cb_a64 u (shm m) it') as [r' it1'].
    cbn [fst snd] in N, Hs1. destruct N as (Nr & Nc & Nw & Ng).
    specialize (IH it1 it1'). specialize (L it1). specialize (L' it1').
    destruct n as [|n].
    + cbn [iter_run fst snd] in *. split; [constructor; [exact Nr | constructor] | exact Nc].
    + destruct (iter_run arule aregs amdata aexec afallback_rule cb_a64 u m it1 (S n)) as [rs it2].
      destruct (iter_run arule aregs amdata aexec afallback_rule cb_a64 u (shm m) it1' (S n)) as [rs' it2'].
      cbn [fst snd] in *.
      destruct rs as [|r2 rs]; [discriminate L|].
      cbn [removelast] in Hg. inversion Hg as [|? ? G1 G2]; subst.
      destruct (IH (Ng G1) Hs1 G2) as [I1 I2]. split; [constructor; assumption | exact I2].
Qed.
End WalkA.

(* non-vacuity on aarch64: the same two-record stack, no pointer authentication bits in use *)
Definition ex_ua : aunwinder := mkunw amdata [] 0.
Definition ex_aregs (d : N) : aregs := mkaregs mask_no_strip 4194308 (2147352576 + d) (2147352576 + 16 + d).
Definition ex_ait (d : N) : aiter := iter_new arule aregs 4194304 (ex_aregs d) (cache_new arule).
Lemma ex_mask v : v <= ex_hi + ex_s -> strip mask_no_strip v = v.
Proof.
  intros H. unfold strip, mask_no_strip, MAX64. change 18446744073709551615 with (N.ones 64).
  rewrite N.land_ones. apply N.mod_small. unfold ex_hi, ex_s in H. lia.
Qed.
Lemma ex_mem_ok_a : mem_ok_a ex_lo ex_hi ex_s mask_no_strip (mem_of_list ex_cells).
Proof.
  split; [exact ex_mem_ok|]. intros a v H. apply mem_of_list_In in H. cbn in H.
  repeat (destruct H as [H|H]; [inversion H; subst; vm_compute; reflexivity|]). contradiction.
Qed.
Lemma ex_awalk : fst (iter_run_a ex_ua (mem_of_list ex_cells) (ex_ait 0) 3)
    = [Ok (Some (IP 4194304)); Ok (Some (RA 4198400)); Ok None].
Proof. vm_compute; reflexivity. Qed.
Example walk_a_premises_hold :
  (forall v, v <= ex_hi + ex_s -> strip mask_no_strip v = v) /\
  mem_ok_a ex_lo ex_hi ex_s mask_no_strip (mem_of_list ex_cells) /\ aunw_rule_only ex_ua /\
  ait_rel ex_lo ex_hi ex_s mask_no_strip (ex_ait 0) (ex_ait ex_s) /\
  sp_ok_run ex_lo ex_s ex_ua (mem_of_list ex_cells) (ex_ait 0) 3 /\
  Forall (agood ex_lo ex_hi) (removelast (fst (iter_run_a ex_ua (mem_of_list ex_cells) (ex_ait 0) 3))) /\
  fst (iter_run_a ex_ua (mem_of_list ex_cells) (ex_ait 0) 3) = [Ok (Some (IP 4194304)); Ok (Some (RA 4198400)); Ok None].
Proof.
  split; [exact ex_mask|]. split; [exact ex_mem_ok_a|].
  split; [intros x md rel first H; cbn in H; discriminate H|].
  split.
  { unfold ait_rel. cbn [ex_ait iter_new i_state i_cache i_regs].
    refine (conj eq_refl (conj eq_refl (conj acache_new_wf (conj eq_refl (conj _ _))))).
    - unfold ShiftFacts.arel. cbn. repeat split; vm_compute; reflexivity.
    - unfold ShiftFacts.avok. split; vm_compute; reflexivity. }
  split.
  { cbn [sp_ok_run]. unfold st_sp_ok, ShiftFrame.aspok. vm_compute. repeat split; try discriminate; try exact I. }
  split; [rewrite ex_awalk; cbn [removelast]; repeat constructor | exact ex_awalk].
Qed.

