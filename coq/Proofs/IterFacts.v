(* IterFacts.v - C13 (lookup address) and C17 (iterator = fold of unwind_frame), arch-generic. *)
From FH Require Import Word Unwinder WordFacts.
From Coq Require Import Lia ZifyBool ZifyN ZifyNat.
Open Scope N_scope.

(* ---------- C13 ---------- *)
Lemma lookup_ip a : lookup_address (IP a) = Ok a.
Proof. reflexivity. Qed.

Lemma lookup_ra a : 0 < a -> lookup_address (RA a) = Ok (a - 1).
Proof. intros H. cbn. apply sub64p_nopanic. lia. Qed.

Lemma lookup_total f : faddr_wf f = true -> exists x, lookup_address f = Ok x /\ x < W64.
Proof.
  destruct f as [a|a]; cbn [faddr_wf]; intros H.
  - exists a. split; [reflexivity | lia].
  - exists (a - 1). split; [apply lookup_ra; lia | lia].
Qed.

(* from_return_address never builds RA 0 *)
Lemma from_return_address_wf a f : from_return_address a = Some f -> f = RA a /\ a <> 0.
Proof. unfold from_return_address. destruct (a =? 0) eqn:E; [discriminate|]. intros H; inversion H. split; [reflexivity | lia]. Qed.

Section Iter.
Variables rule regs mdata : Type.
Variable exec : rule -> bool -> regs -> mem -> res (option N) * regs.
Variable fallback : rule.
Variable cb : module mdata -> bool -> N -> regs -> mem -> cb_result rule regs * eff.

Notation unwind_frame := (unwind_frame rule regs mdata exec fallback cb).
Notation iter_next := (iter_next rule regs mdata exec fallback cb).
Notation iter_run := (iter_run rule regs mdata exec fallback cb).
Notation unwinder := (unwinder mdata).
Notation cache := (cache rule).

(* The specification: what a caller doing the loop by hand with unwind_frame observes.
   [a] is the frame to unwind next. *)
Fixpoint fold_spec (u : unwinder) (m : mem) (a : faddr) (rg : regs) (c : cache) (n : nat)
  : list (res (option faddr)) :=
  match n with
  | O => []
  | S k =>
    let o := unwind_frame u c a rg m in
    match o_res _ _ o with
    | Ok (Some ra) =>
      if ra =? 0 then Err ReturnAddressIsNull :: fold_spec u m a (o_regs _ _ o) (o_cache _ _ o) k
      else Ok (Some (RA ra)) :: fold_spec u m (RA ra) (o_regs _ _ o) (o_cache _ _ o) k
    | Ok None => repeat (Ok None) (S k)
    | Err e => Err e :: fold_spec u m a (o_regs _ _ o) (o_cache _ _ o) k
    | Panic s => Panic s :: fold_spec u m a (o_regs _ _ o) (o_cache _ _ o) k
    | Hang => Hang :: fold_spec u m a (o_regs _ _ o) (o_cache _ _ o) k
    end
  end.

Lemma iter_run_done u m rg c n :
  fst (iter_run u m (mkiter _ _ Done rg c) n) = repeat (Ok None) n.
Proof.
  induction n as [|n IH]; [reflexivity|].
  cbn [Unwinder.iter_run Unwinder.iter_next i_state].
  destruct (Unwinder.iter_run rule regs mdata exec fallback cb u m (mkiter rule regs Done rg c) n) eqn:E.
  cbn in *. f_equal. exact IH.
Qed.

Lemma iter_run_unwinding u m n : forall a rg c,
  fst (iter_run u m (mkiter _ _ (Unwinding a) rg c) n) = fold_spec u m a rg c n.
Proof.
  induction n as [|n IH]; intros a rg c; [reflexivity|].
  cbn [Unwinder.iter_run Unwinder.iter_next i_state i_regs i_cache fold_spec].
  destruct (o_res _ _ (unwind_frame u c a rg m)) as [[ra|]|e|s|] eqn:Eo.
  - unfold from_return_address. destruct (ra =? 0) eqn:E0.
    + match goal with |- context[Unwinder.iter_run _ _ _ _ _ _ _ _ ?it n] =>
        specialize (IH a (o_regs _ _ (unwind_frame u c a rg m)) (o_cache _ _ (unwind_frame u c a rg m)));
        destruct (Unwinder.iter_run rule regs mdata exec fallback cb u m it n) eqn:E end.
      cbn in *. f_equal. exact IH.
    + match goal with |- context[Unwinder.iter_run _ _ _ _ _ _ _ _ ?it n] =>
        specialize (IH (RA ra) (o_regs _ _ (unwind_frame u c a rg m)) (o_cache _ _ (unwind_frame u c a rg m)));
        destruct (Unwinder.iter_run rule regs mdata exec fallback cb u m it n) eqn:E end.
      cbn in *. f_equal. exact IH.
  - pose proof (iter_run_done u m (o_regs _ _ (unwind_frame u c a rg m)) (o_cache _ _ (unwind_frame u c a rg m)) n) as Hd.
    match goal with |- context[Unwinder.iter_run _ _ _ _ _ _ _ _ ?it n] =>
      destruct (Unwinder.iter_run rule regs mdata exec fallback cb u m it n) eqn:E end.
    cbn in *. f_equal. exact Hd.
  - match goal with |- context[Unwinder.iter_run _ _ _ _ _ _ _ _ ?it n] =>
      specialize (IH a (o_regs _ _ (unwind_frame u c a rg m)) (o_cache _ _ (unwind_frame u c a rg m)));
      destruct (Unwinder.iter_run rule regs mdata exec fallback cb u m it n) eqn:E end.
    cbn in *. f_equal. exact IH.
  - match goal with |- context[Unwinder.iter_run _ _ _ _ _ _ _ _ ?it n] =>
      specialize (IH a (o_regs _ _ (unwind_frame u c a rg m)) (o_cache _ _ (unwind_frame u c a rg m)));
      destruct (Unwinder.iter_run rule regs mdata exec fallback cb u m it n) eqn:E end.
    cbn in *. f_equal. exact IH.
  - match goal with |- context[Unwinder.iter_run _ _ _ _ _ _ _ _ ?it n] =>
      specialize (IH a (o_regs _ _ (unwind_frame u c a rg m)) (o_cache _ _ (unwind_frame u c a rg m)));
      destruct (Unwinder.iter_run rule regs mdata exec fallback cb u m it n) eqn:E end.
    cbn in *. f_equal. exact IH.
Qed.

(* C17: n+1 calls of next() = the pc, then the hand-written fold *)
Theorem iter_is_fold u m pc rg c n :
  fst (iter_run u m (iter_new _ _ pc rg c) (S n)) = Ok (Some (IP pc)) :: fold_spec u m (IP pc) rg c n.
Proof.
  unfold iter_new. cbn [Unwinder.iter_run Unwinder.iter_next i_state i_regs i_cache].
  pose proof (iter_run_unwinding u m n (IP pc) rg c) as H.
  destruct (Unwinder.iter_run rule regs mdata exec fallback cb u m
              (mkiter rule regs (Unwinding (IP pc)) rg c) n) eqn:E.
  cbn in *. f_equal. exact H.
Qed.

(* no null frame is ever yielded, and once Ok None has been returned it stays *)
Lemma fold_spec_no_null u m n : forall a rg c f,
  In (Ok (Some f)) (fold_spec u m a rg c n) -> exists x, f = RA x /\ x <> 0.
Proof.
  induction n as [|n IH]; intros a rg c f; cbn [fold_spec]; [intros []|].
  destruct (o_res _ _ (unwind_frame u c a rg m)) as [[ra|]|e|s|].
  - destruct (ra =? 0) eqn:E0; intros [H|H]; try discriminate; try (eapply IH; exact H).
    inversion H; subst. exists ra. split; [reflexivity | lia].
  - intros H. apply repeat_spec in H. discriminate.
  - intros [H|H]; [discriminate | eapply IH; exact H].
  - intros [H|H]; [discriminate | eapply IH; exact H].
  - intros [H|H]; [discriminate | eapply IH; exact H].
Qed.

Lemma fold_spec_done_persists u m n : forall a rg c i,
  nth_error (fold_spec u m a rg c n) i = Some (Ok None) ->
  forall j, (i <= j < n)%nat -> nth_error (fold_spec u m a rg c n) j = Some (Ok None).
Proof.
  induction n as [|n IH]; intros a rg c i; cbn [fold_spec]; [destruct i; discriminate|].
  assert (STEP : forall (x : res (option faddr)) a' rg' c', x <> Ok None ->
    nth_error (x :: fold_spec u m a' rg' c' n) i = Some (Ok None) ->
    forall j, (i <= j < S n)%nat -> nth_error (x :: fold_spec u m a' rg' c' n) j = Some (Ok None)).
  { intros x a' rg' c' Hx. destruct i as [|i]; cbn [nth_error].
    - intros H; inversion H; contradiction.
    - intros H j Hj. destruct j as [|j]; [lia|]. cbn [nth_error]. eapply IH; [exact H | lia]. }
  destruct (o_res _ _ (unwind_frame u c a rg m)) as [[ra|]|e|s|].
  - destruct (ra =? 0); apply STEP; discriminate.
  - intros _ j Hj.
    assert (Hl : length (repeat (@Ok (option faddr) None) (S n)) = S n) by apply repeat_length.
    destruct (nth_error (repeat (@Ok (option faddr) None) (S n)) j) eqn:E.
    + apply nth_error_In in E. apply repeat_spec in E. now subst.
    + apply nth_error_None in E. lia.
  - apply STEP; discriminate.
  - apply STEP; discriminate.
  - apply STEP; discriminate.
Qed.

End Iter.
