(* MachoFacts.v - C02: what the compact-unwind opcodes mean, and that framehop's rules say the same. *)
From FH Require Import Consts Word X86 A64 Unwinder DwarfRow Cfi DwarfCb Macho MachoCb X86Unw A64Unw
  WordFacts X86Exec A64Exec X86Walk.
From Coq Require Import Lia ZifyBool ZifyN ZifyNat.
Open Scope N_scope.
Ltac Zify.zify_post_hook ::= Z.div_mod_to_equations.
Arguments N.add : simpl never.
Arguments N.sub : simpl never.
Arguments N.mul : simpl never.
Arguments N.div : simpl never.
Arguments N.modulo : simpl never.
Arguments N.eqb : simpl never.
Arguments N.ltb : simpl never.
Arguments N.leb : simpl never.

(* ---------- the register permutation of compact_unwind_encoding.h (the ENCODER, as specified) ---------- *)
Fixpoint count_less (x : N) (l : list N) : N :=
  match l with [] => 0 | y :: t => (if y <? x then 1 else 0) + count_less x t end.

(* renumbered registers: each minus the number of smaller registers before it, minus one *)
Fixpoint renum (done todo : list N) : list N :=
  match todo with
  | [] => []
  | r :: t => (r - count_less r done - 1) :: renum (done ++ [r]) t
  end.

Definition perm_encode (regs : list N) : N :=
  match renum [] regs with
  | [a; b; c; d; e; _] => 120 * a + 24 * b + 6 * c + 2 * d + e
  | [a; b; c; d; e] => 120 * a + 24 * b + 6 * c + 2 * d + e
  | [a; b; c; d] => 60 * a + 12 * b + 3 * c + d
  | [a; b; c] => 20 * a + 4 * b + c
  | [a; b] => 5 * a + b
  | [a] => a
  | _ => 0
  end.

(* all duplicate-free lists over 1..6 *)
Fixpoint arr6 (n : nat) (pool : list N) : list (list N) :=
  match n with
  | O => [[]]
  | S k => flat_map (fun x => map (cons x) (arr6 k (filter (fun y => negb (y =? x)) pool))) pool
  end.
Definition all_perms : list (list N) :=
  flat_map (fun n => arr6 n [1; 2; 3; 4; 5; 6]) [0; 1; 2; 3; 4; 5; 6]%nat.

Definition pad6 (l : list N) : list N := l ++ repeat 0 (6 - length l).

Definition perm_roundtrip_ok (l : list N) : bool :=
  match decode_permutation (N.of_nat (length l)) (perm_encode l) with
  | Some d => if list_eq_dec N.eq_dec d l then true else false
  | None => false
  end.

Lemma all_perms_roundtrip : forallb perm_roundtrip_ok all_perms = true.
Proof. vm_compute. reflexivity. Qed.

Lemma arr6_complete l : forall pool, NoDup l -> incl l pool -> In l (arr6 (length l) pool).
Proof.
  induction l as [|x t IH]; intros pool Hnd Hin; cbn [length arr6]; [now left|].
  inversion Hnd as [|? ? Hx Ht]; subst.
  apply in_flat_map. exists x. split; [apply Hin; now left|].
  apply in_map. apply IH; [exact Ht|].
  intros y Hy. apply filter_In. split; [apply Hin; now right|].
  destruct (y =? x) eqn:E; [|reflexivity]. exfalso. apply Hx. assert (y = x) by lia. subst. exact Hy.
Qed.

Lemma nodup_incl_len (l : list N) : NoDup l -> incl l [1; 2; 3; 4; 5; 6] -> (length l <= 6)%nat.
Proof. intros H1 H2. apply (NoDup_incl_length H1 H2). Qed.

(* the decoder framehop relies on inverts the specified encoder, for every register list a
   compiler can emit (distinct registers out of the six, in any order) *)
Theorem permutation_roundtrip l :
  NoDup l -> incl l [1; 2; 3; 4; 5; 6] ->
  decode_permutation (N.of_nat (length l)) (perm_encode l) = Some l.
Proof.
  intros Hnd Hin.
  pose proof (nodup_incl_len l Hnd Hin) as Hlen.
  assert (Hall : In l all_perms).
  { unfold all_perms. apply in_flat_map. exists (length l). split.
    - destruct (length l) as [|[|[|[|[|[|[|n]]]]]]]; cbn; auto 10. lia.
    - apply arr6_complete; assumption. }
  pose proof all_perms_roundtrip as H. rewrite forallb_forall in H. specialize (H l Hall).
  unfold perm_roundtrip_ok in H.
  destruct (decode_permutation (N.of_nat (length l)) (perm_encode l)) as [d|]; [|discriminate].
  destruct (list_eq_dec N.eq_dec d l); [subst; reflexivity | discriminate].
Qed.

(* ---------- frameless functions: the rule recovers what the layout says ---------- *)
(* Layout of a frameless function's frame of [size] bytes (return address included) whose pushed
   registers are [regs] in the order they are popped: the return address is the top word, register
   number i of the list (counted from the END) lies i+1 words below it. *)
Definition frameless_layout (size : N) (rl : list N) (rg : regs) (m : mem) (ra bpv : N) : Prop :=
  m (sp rg + size - 8) = Some ra /\
  (forall pos, bp_position_from_outside rl = Some pos -> m (sp rg + size - 16 - 8 * pos) = Some bpv) /\
  (bp_position_from_outside rl = None -> bpv = bp rg).

Lemma exec_offset_sp k first rg m ra :
  k * 8 >= 8 -> sp rg + k * 8 < W64 -> m (sp rg + k * 8 - 8) = Some ra -> ra <> 0 ->
  exec ra_addr_checked (OffsetSp k) first rg m =
    (Ok (Some ra), set_bp (set_sp (set_ip rg ra) (sp rg + k * 8)) (bp rg)).
Proof.
  intros Hk Hlt Hm Hnz. unfold exec. fold (sp rg). unfold add64c. destruct (sp rg + k * 8 <? W64) eqn:E; [|lia].
  unfold exec_tail, ra_addr_checked, ok_or, sub64c.
  destruct (8 <=? sp rg + k * 8) eqn:E8; [|lia]. rewrite Hm.
  destruct (ra =? 0) eqn:E0; [lia|].
  destruct ((sp rg + k * 8 =? sp rg) && (ra =? ip rg)) eqn:Ed; [lia | reflexivity].
Qed.

Lemma exec_offset_sp_bp k y first rg m ra nb :
  k * 8 >= 8 -> sp rg + k * 8 < W64 -> (0 <= y <= 32767)%Z -> sp rg + Z.to_N y * 8 < W64 ->
  m (sp rg + Z.to_N y * 8) = Some nb -> m (sp rg + k * 8 - 8) = Some ra -> ra <> 0 ->
  exec ra_addr_checked (OffsetSpAndRestoreBp k y) first rg m =
    (Ok (Some ra), set_bp (set_sp (set_ip rg ra) (sp rg + k * 8)) nb).
Proof.
  intros Hk Hlt Hy Hy2 Hb Hm Hnz. unfold exec. fold (sp rg). unfold add64c. destruct (sp rg + k * 8 <? W64) eqn:E; [|lia].
  assert (Ha : adds64c (sp rg) (y * 8) = Some (sp rg + Z.to_N y * 8)).
  { rewrite adds64c_spec; [| unfold W64 in *; lia | unfold in_i64, I64MIN, I64MAX; lia].
    destruct ((0 <=? Z.of_N (sp rg) + y * 8)%Z && (Z.of_N (sp rg) + y * 8 <? Z.of_N W64)%Z) eqn:Ec; [|unfold W64 in *; lia].
    f_equal. lia. }
  rewrite Ha, Hb.
  unfold exec_tail, ra_addr_checked, ok_or, sub64c.
  destruct (8 <=? sp rg + k * 8) eqn:E8; [|lia]. rewrite Hm.
  destruct (ra =? 0) eqn:E0; [lia|].
  destruct ((sp rg + k * 8 =? sp rg) && (ra =? ip rg)) eqn:Ed; [lia | reflexivity].
Qed.

Lemma position_of_bound x l : forall i p, position_of x l i = Some p -> i <= p /\ p < i + N.of_nat (length l).
Proof.
  induction l as [|y t IH]; intros i p; cbn [position_of length]; [discriminate|].
  destruct (y =? x).
  - intros H; inversion H; subst. lia.
  - intros H. apply IH in H. lia.
Qed.

Lemma filter_len_le {A} (f : A -> bool) l : (length (filter f l) <= length l)%nat.
Proof. induction l as [|x t IH]; cbn; [lia|]. destruct (f x); cbn; lia. Qed.

Lemma bp_position_bound rl pos : bp_position_from_outside rl = Some pos -> pos < N.of_nat (length rl).
Proof.
  unfold bp_position_from_outside. intros H. apply position_of_bound in H.
  rewrite rev_length in H. pose proof (filter_len_le (fun r => negb (r =? 0)) rl). lia.
Qed.

(* the rule for a frameless frame of [size] bytes with pushed registers [rl] (as x86_64/macho.rs
   builds it) recovers the return address, the caller's sp (= sp + size) and the caller's rbp *)
Theorem frameless_rule_exact size rl first rg m ra bpv :
  size mod 8 = 0 -> 16 <= size -> size < 2048 -> 8 * (N.of_nat (length rl) + 1) <= size ->
  sp rg + size < W64 -> ra <> 0 ->
  frameless_layout size rl rg m ra bpv ->
  exists r, frameless_rule_x86 size rl = CuiRule r /\
    exec ra_addr_checked r first rg m =
      (Ok (Some ra), set_bp (set_sp (set_ip rg ra) (sp rg + size)) bpv).
Proof.
  intros Hmod Hlo Hhi Hfit Hsp Hnz (Hra & Hbp & Hnobp).
  assert (Hdiv : size / 8 * 8 = size) by lia.
  unfold frameless_rule_x86.
  destruct (bp_position_from_outside rl) as [pos|] eqn:Ep.
  - pose proof (bp_position_bound rl pos Ep) as Hpb.
    assert (Hoff : (0 <= Z.of_N size - 16 - Z.of_N pos * 8)%Z) by lia.
    assert (Hq : divz (Z.of_N size - 16 - Z.of_N pos * 8) 8 = Z.of_N ((size - 16 - 8 * pos) / 8)).
    { unfold divz. rewrite Z.quot_div_nonneg by lia.
      replace (Z.of_N size - 16 - Z.of_N pos * 8)%Z with (Z.of_N (size - 16 - 8 * pos)) by lia.
      change 8%Z with (Z.of_N 8). rewrite <- N2Z.inj_div. reflexivity. }
    rewrite Hq.
    assert (Hi16 : i64_to_i16 (Z.of_N ((size - 16 - 8 * pos) / 8)) = Some (Z.of_N ((size - 16 - 8 * pos) / 8))).
    { unfold i64_to_i16, in_i16. destruct ((-32768 <=? Z.of_N ((size - 16 - 8 * pos) / 8))%Z && (Z.of_N ((size - 16 - 8 * pos) / 8) <=? 32767)%Z) eqn:E; [reflexivity | lia]. }
    rewrite Hi16. eexists. split; [reflexivity|].
    set (y := (size - 16 - 8 * pos) / 8).
    assert (Hy8 : y * 8 = size - 16 - 8 * pos) by (unfold y; lia).
    assert (Hylt : size - 16 - 8 * pos <= size - 16) by lia.
    assert (C1 : size / 8 * 8 >= 8) by lia.
    assert (C2 : sp rg + size / 8 * 8 < W64) by (rewrite Hdiv; exact Hsp).
    assert (C3 : (0 <= Z.of_N y <= 32767)%Z) by (unfold y; lia).
    assert (C4 : sp rg + Z.to_N (Z.of_N y) * 8 < W64) by (rewrite N2Z.id, Hy8; unfold W64 in *; lia).
    assert (C5 : m (sp rg + Z.to_N (Z.of_N y) * 8) = Some bpv).
    { rewrite N2Z.id, Hy8. replace (sp rg + (size - 16 - 8 * pos)) with (sp rg + size - 16 - 8 * pos) by lia.
      apply Hbp. reflexivity. }
    assert (C6 : m (sp rg + size / 8 * 8 - 8) = Some ra) by (rewrite Hdiv; exact Hra).
    rewrite (exec_offset_sp_bp (size / 8) (Z.of_N y) first rg m ra bpv C1 C2 C3 C4 C5 C6 Hnz).
    rewrite Hdiv. reflexivity.
  - rewrite (Hnobp eq_refl). eexists. split; [reflexivity|].
    assert (C1 : size / 8 * 8 >= 8) by lia.
    assert (C2 : sp rg + size / 8 * 8 < W64) by (rewrite Hdiv; exact Hsp).
    assert (C6 : m (sp rg + size / 8 * 8 - 8) = Some ra) by (rewrite Hdiv; exact Hra).
    rewrite (exec_offset_sp (size / 8) first rg m ra C1 C2 C6 Hnz).
    rewrite Hdiv. reflexivity.
Qed.

(* ---------- x86_64 opcodes: what x86_64/macho.rs does in a function body ---------- *)
(* [in_body f first off fb]: the frame is a caller frame, or the innermost frame outside any prologue /
   epilogue the analysers recognise (they said None) - the situation the opcode describes *)
Definition in_body_x86 (first : bool) (off : N) (fb : option (list N)) : Prop :=
  first = false \/ (exists b, fb = Some b /\ analysis_x86 b (N.to_nat off) = None) \/ fb = None.

Lemma x86_body_step f first off fb :
  in_body_x86 first off fb -> N.land (N.shiftr (fn_opcode f) 24) 15 <> 0 ->
  x86_macho_unwind f first off fb =
    let op := fn_opcode f in
    let kind := N.land (N.shiftr op 24) 15 in
    if kind =? 1 then CuiRule UseFramePointer
    else if kind =? 2 then
      match decode_permutation (N.land (N.shiftr op 10) 7) (N.land op 1023) with
      | None => CuiErr
      | Some rl => if N.land (N.shiftr op 16) 255 * 8 =? 8 then CuiRule JustReturn
                   else frameless_rule_x86 (N.land (N.shiftr op 16) 255 * 8) rl
      end
    else x86_macho_unwind f false off fb.
Proof.
  intros Hb Hk. unfold x86_macho_unwind. cbv zeta.
  destruct (N.land (N.shiftr (fn_opcode f) 24) 15 =? 0) eqn:E0; [lia|].
  assert (Hearly : (if first then
            match fb with
            | Some b =>
              match analysis_x86 b (N.to_nat off) with
              | Some r => Some (CuiRule r)
              | None => if false && starts_with_fp_prologue b then Some (CuiRule UseFramePointer)
                        else if false then Some (CuiRule JustReturn) else None
              end
            | None => if false then Some (CuiRule JustReturn) else None
            end
          else None) = @None (cui_result rule)).
  { destruct first; [|reflexivity].
    destruct Hb as [Hb|[Hb|Hb]]; [discriminate | |].
    - destruct Hb as (b & Hfb & Ha). subst fb. rewrite Ha. reflexivity.
    - subst fb. reflexivity. }
  rewrite Hearly.
  destruct (N.land (N.shiftr (fn_opcode f) 24) 15 =? 1); [reflexivity|].
  destruct (N.land (N.shiftr (fn_opcode f) 24) 15 =? 2); reflexivity.
Qed.

(* frame-based entries (UNWIND_X86_64_MODE_RBP_FRAME) *)
Theorem x86_frame_based f first off fb :
  in_body_x86 first off fb -> N.land (N.shiftr (fn_opcode f) 24) 15 = 1 ->
  x86_macho_unwind f first off fb = CuiRule UseFramePointer.
Proof.
  intros Hb Hk. rewrite x86_body_step by (try exact Hb; lia). cbv zeta. rewrite Hk. reflexivity.
Qed.

(* frameless immediate entries: for EVERY frame size and every register list a compiler can emit, the
   rule built from the opcode recovers the return address, the caller's sp and the caller's rbp *)
Theorem x86_frameless_immediate_exact f first off fb rl rg m ra bpv :
  in_body_x86 first off fb ->
  let op := fn_opcode f in
  let size := N.land (N.shiftr op 16) 255 * 8 in
  N.land (N.shiftr op 24) 15 = 2 ->
  NoDup rl -> incl rl [1; 2; 3; 4; 5; 6] ->
  N.land (N.shiftr op 10) 7 = N.of_nat (length rl) -> N.land op 1023 = perm_encode rl ->
  8 * (N.of_nat (length rl) + 1) <= size -> sp rg + size < W64 -> ra <> 0 ->
  frameless_layout size rl rg m ra bpv ->
  exists r, x86_macho_unwind f first off fb = CuiRule r /\
    exec ra_addr_checked r first rg m = (Ok (Some ra), set_bp (set_sp (set_ip rg ra) (sp rg + size)) bpv).
Proof.
  intros Hb op size Hk Hnd Hin Hcnt Hperm Hfit Hsp Hnz Hlay.
  rewrite x86_body_step by (try exact Hb; fold op; lia). cbv zeta. fold op. rewrite Hk.
  change (2 =? 1) with false. change (2 =? 2) with true. cbv iota.
  rewrite Hcnt, Hperm, (permutation_roundtrip rl Hnd Hin). fold size.
  assert (Hsz : size < 2048).
  { unfold size. assert (N.land (N.shiftr op 16) 255 < 256).
    { change 255 with (N.ones 8). rewrite N.land_ones. apply N.mod_lt. discriminate. } lia. }
  assert (Hmod : size mod 8 = 0) by (unfold size; lia).
  destruct (size =? 8) eqn:E8.
  - (* only the return address *)
    assert (size = 8) by lia. assert (Hl : rl = []) by (destruct rl; [reflexivity | cbn [length] in Hfit; lia]).
    subst rl. destruct Hlay as (Hra & _ & Hnb). rewrite (Hnb eq_refl).
    eexists. split; [reflexivity|].
    replace (sp rg + size) with (sp rg + 8) by lia.
    apply leaf_rule_semantics; [|exact Hnz|lia].
    replace (sp rg) with (sp rg + size - 8) by lia. exact Hra.
  - apply frameless_rule_exact; try assumption; lia.
Qed.

(* DWARF-deferred entries hand the FDE offset over *)
Theorem x86_dwarf_deferred f first off fb :
  in_body_x86 first off fb -> N.land (N.shiftr (fn_opcode f) 24) 15 = 4 ->
  x86_macho_unwind f first off fb = CuiNeedDwarf (N.land (fn_opcode f) 16777215).
Proof.
  intros Hb Hk. rewrite x86_body_step by (try exact Hb; lia). cbv zeta. rewrite Hk.
  change (4 =? 1) with false. change (4 =? 2) with false. cbv iota.
  unfold x86_macho_unwind. cbv zeta. rewrite Hk. reflexivity.
Qed.
