(* ShiftFrame.v - C08, stack relocation at the level of one unwind_frame call (x86_64).
   A call is served by a rule (from the cache, from the frame-pointer fallback, or from the module's
   callback when it produces one) in every case except the two uncacheable evaluations (DWARF rows
   that do not compress, PE unwind codes).  Whenever the callback's answer does not depend on the
   registers and the stack - it returns the same well-formed rule, or the same kind of error, for
   the original and for the relocated state - the whole call is equivariant: same kind of
   outcome, registers related by the relocation, and the SAME cache afterwards (what is cached
   never mentions the stack).  Instances: modules without data, every Mach-O entry that does not
   defer to DWARF, and every DWARF row that compresses into a rule. *)
From FH Require Import Consts Word X86 Unwinder DwarfRow Cfi X86Dwarf DwarfCb Macho MachoCb X86Unw WordFacts X86Exec ShiftFacts MachoWf.
From Coq Require Import Lia ZifyBool ZifyN.
Open Scope N_scope.
Ltac Zify.zify_post_hook ::= Z.div_mod_to_equations.

(* ---- DWARF: a row that compresses gives the same rule whatever the state *)
Lemma row_step_rule rw first rg m r : translate_x86 rw = Some r -> row_step_x86 rw first rg m = CbRule r.
Proof. intros H. unfold row_step_x86. rewrite H. reflexivity. Qed.

Lemma translate_x86_wf rw r : translate_x86 rw = Some r -> rule_wf r = true.
Proof.
  unfold translate_x86, i64_to_u16, i64_to_i16, in_u16z.
  repeat match goal with
         | |- context [match ?x with _ => _ end] => destruct x eqn:?; try discriminate
         end;
  intros H; inversion H; subst; cbn [rule_wf]; unfold W16, in_i16 in *; try reflexivity;
  repeat match goal with
         | Hc : (if ?c then _ else _) = Some _ |- _ => destruct c eqn:?; [inversion Hc; subst; clear Hc | discriminate Hc]
         end; unfold divz in *; lia.
Qed.

(* the FDE is chosen from the address alone; if the row it selects compresses, the answer is that rule *)
Lemma with_fde_rel f svma first rg rg' m m' :
  (forall rw, row_for_address f svma = Some rw -> translate_x86 rw <> None) ->
  exists r, with_fde rule regs row_step_x86 uncovered_rule_x86 f svma first rg m = CbRule r /\
            with_fde rule regs row_step_x86 uncovered_rule_x86 f svma first rg' m' = CbRule r /\ rule_wf r = true.
Proof.
  intros H. unfold with_fde. destruct (row_for_address f svma) as [rw|] eqn:E.
  - specialize (H rw eq_refl). destruct (translate_x86 rw) as [r|] eqn:Et; [|contradiction].
    exists r. rewrite !(row_step_rule rw _ _ _ r Et). repeat split. eapply translate_x86_wf; exact Et.
  - exists uncovered_rule_x86. repeat split.
Qed.


(* ---- which FDE answers is decided by the address: it is one of the module's *)
Lemma sort_in {A} (key : A -> N) (l : list A) : forall acc z,
  In z (fold_left (fun acc x => insert_sorted key x acc) l acc) -> In z acc \/ In z l.
Proof.
  induction l as [|x t IH]; intros acc z H; cbn [fold_left] in H; [left; exact H|].
  apply IH in H. destruct H as [H|H]; [|right; right; exact H].
  assert (E : forall l0, In z (insert_sorted key x l0) -> z = x \/ In z l0).
  { induction l0 as [|y t0 IH0]; cbn [insert_sorted]; [cbn; intuition|].
    destruct (key x <? key y); cbn [In]; [intuition|]. intros [->|Hz]; [right; left; reflexivity|].
    destruct (IH0 Hz); [left | right; right]; assumption. }
  destruct (E acc H) as [->|Hz]; [right; left; reflexivity | left; exact Hz].
Qed.
Lemma sort_by_key_in {A} (key : A -> N) (l : list A) z : In z (sort_by_key key l) -> In z l.
Proof. unfold sort_by_key. intros H. apply sort_in in H. destruct H as [[]|H]; exact H. Qed.
Lemma last_le_by_in {A} (key : A -> N) (l : list A) a : forall cur r,
  last_le_by key l a cur = Some r -> In r l \/ cur = Some r.
Proof.
  induction l as [|f t IH]; intros cur r H; cbn [last_le_by] in H; [right; exact H|].
  destruct (key f <=? a); [|right; exact H].
  apply IH in H. destruct H as [H|H]; [left; right; exact H | left; left; inversion H; reflexivity].
Qed.
Lemma hdr_lookup_in sec svma f : hdr_lookup sec svma = Some f -> In f sec.
Proof.
  unfold hdr_lookup. destruct (sort_by_key f_start sec) as [|f0 t] eqn:E; [discriminate|]. intros H.
  apply last_le_by_in in H. apply (sort_by_key_in f_start sec). rewrite E.
  destruct H as [H|H]; [exact H | inversion H; left; reflexivity].
Qed.
Lemma index_entries_in sec base : forall l rel f, index_entries sec base = Some l -> In (rel, f) l -> In f sec.
Proof.
  induction sec as [|g t IH]; intros l rel f H Hin; cbn [index_entries] in H; [inversion H; subst; contradiction|].
  destruct (sub64c (f_start g) base) as [r0|]; [|discriminate]. destruct (r0 <? W32); [|discriminate].
  destruct (index_entries t base) as [l0|] eqn:E; [|discriminate]. inversion H; subst.
  destruct Hin as [Hin|Hin]; [inversion Hin; left; reflexivity | right; eapply IH; [reflexivity | exact Hin]].
Qed.
Lemma index_lookup_in sec base idx b rel f : index_build sec base = Some idx -> index_lookup b idx rel = Some f -> In f sec.
Proof.
  unfold index_build. destruct (index_entries sec base) as [l|] eqn:E; [|discriminate]. intros H; inversion H; subst; clear H.
  unfold index_lookup. destruct (sort_by_key fst l) as [|e0 t] eqn:Es; [discriminate|].
  assert (Hall : forall e, In e (e0 :: t) -> In (snd e) sec).
  { intros [r g] He. rewrite <- Es in He. apply sort_by_key_in in He. eapply index_entries_in; [exact E | exact He]. }
  destruct (rel <? fst e0).
  - destruct b; [|discriminate]. intros H; inversion H; subst. apply Hall. left; reflexivity.
  - destruct (last_le_by fst (e0 :: t) rel None) as [e|] eqn:El; [|discriminate]. cbn [option_map]. intros H; inversion H; subst.
    apply last_le_by_in in El. destruct El as [El|El]; [apply Hall; exact El | discriminate].
Qed.

Section Frame.
Variables lo hi s : N.
Hypothesis Hlo : 2 * DIST <= lo.
Hypothesis Hlh : lo <= hi.
Hypothesis Hov : hi + s + 2 * DIST < W64.

Notation rrel := (rrel lo hi s).
Notation vok := (vok lo hi s).
Notation spok := (spok lo hi).
Notation shm := (shm lo hi s).
Notation out_rel := (out_rel lo hi s).

(* the callback's answers for the two states are "the same" *)
Definition cb_rel (r r' : cb_result rule regs * eff) : Prop :=
  snd r = snd r' /\
  match fst r, fst r' with
  | CbRule a, CbRule b => a = b /\ rule_wf a = true
  | CbErr g, CbErr g' => rrel g g' /\ vok g /\ spok g
  | _, _ => False
  end.

Lemma fallback_wf : rule_wf fallback_rule = true. Proof. reflexivity. Qed.

Theorem unwind_frame_x_stack_shift (u : xunwinder) (c : xcache) a rg rg' m :
  mem_ok lo hi s m -> rrel rg rg' -> vok rg -> spok rg ->
  (forall x r c1, lookup_address a = Ok x -> cache_lookup rule c x (gen _ u) = (Hit rule r, c1) -> rule_wf r = true) ->
  (forall x md rel, lookup_address a = Ok x -> find_module mdata (mods _ u) x = Ok (Some (md, rel)) ->
     cb_rel (cb_x86 md (negb (is_ra a)) rel rg m) (cb_x86 md (negb (is_ra a)) rel rg' (shm m))) ->
  let o := unwind_frame_x u c a rg m in
  let o' := unwind_frame_x u c a rg' (shm m) in
  out_rel (o_res _ _ o, o_regs _ _ o) (o_res _ _ o', o_regs _ _ o') /\
  o_cache _ _ o = o_cache _ _ o' /\ o_eff _ _ o = o_eff _ _ o'.
Proof.
  intros Hm Hr Hv Hsp Hhit Hcb o o'. subst o o'. unfold unwind_frame_x, unwind_frame.
  destruct (lookup_address a) as [x|e|p|] eqn:Ea; cbn [o_res o_regs o_cache o_eff].
  - specialize (Hhit x). specialize (Hcb x).
    destruct (cache_lookup rule c x (gen mdata u)) as [[r|slot] c1] eqn:Ec.
    + (* hit *)
      pose proof (exec_x_stack_shift lo hi s Hlo Hlh Hov r (negb (is_ra a)) rg rg' m Hm (Hhit r c1 eq_refl eq_refl) Hr Hv Hsp) as E.
      unfold exec_x. destruct (exec ra_addr_checked r (negb (is_ra a)) rg m) as [q g].
      destruct (exec ra_addr_checked r (negb (is_ra a)) rg' (shm m)) as [q' g']. cbn [o_res o_regs o_cache o_eff].
      split; [exact E | split; reflexivity].
    + destruct (find_module mdata (mods mdata u) x) as [[[md rel]|]|e|p|] eqn:Ef.
      * specialize (Hcb md rel eq_refl eq_refl). destruct Hcb as [He Hk].
        destruct (cb_x86 md (negb (is_ra a)) rel rg m) as [k ef]. destruct (cb_x86 md (negb (is_ra a)) rel rg' (shm m)) as [k' ef'].
        cbn [fst snd] in *. subst ef'.
        destruct k as [r|ra g|g|g|p|]; destruct k' as [r'|ra' g'|g'|g'|p'|]; try contradiction.
        -- destruct Hk as [<- Hw].
           pose proof (exec_x_stack_shift lo hi s Hlo Hlh Hov r (negb (is_ra a)) rg rg' m Hm Hw Hr Hv Hsp) as E.
           unfold exec_x. destruct (exec ra_addr_checked r (negb (is_ra a)) rg m) as [q g].
           destruct (exec ra_addr_checked r (negb (is_ra a)) rg' (shm m)) as [q' g']. cbn [o_res o_regs o_cache o_eff].
           split; [exact E | split; reflexivity].
        -- destruct Hk as (Kr & Kv & Ks).
           pose proof (exec_x_stack_shift lo hi s Hlo Hlh Hov fallback_rule (negb (is_ra a)) g g' m Hm fallback_wf Kr Kv Ks) as E.
           unfold exec_x. destruct (exec ra_addr_checked fallback_rule (negb (is_ra a)) g m) as [q g1].
           destruct (exec ra_addr_checked fallback_rule (negb (is_ra a)) g' (shm m)) as [q' g1']. cbn [o_res o_regs o_cache o_eff].
           split; [exact E | split; reflexivity].
      * (* no module: the frame-pointer fallback *)
        pose proof (exec_x_stack_shift lo hi s Hlo Hlh Hov fallback_rule (negb (is_ra a)) rg rg' m Hm fallback_wf Hr Hv Hsp) as E.
        unfold exec_x. destruct (exec ra_addr_checked fallback_rule (negb (is_ra a)) rg m) as [q g].
        destruct (exec ra_addr_checked fallback_rule (negb (is_ra a)) rg' (shm m)) as [q' g']. cbn [o_res o_regs o_cache o_eff].
        split; [exact E | split; reflexivity].
      * split; [apply err_out; try assumption; left; reflexivity | split; reflexivity].
      * split; [apply panic_out; assumption | split; reflexivity].
      * split; [apply hang_out; assumption | split; reflexivity].
  - split; [apply err_out; try assumption; left; reflexivity | split; reflexivity].
  - split; [apply panic_out; assumption | split; reflexivity].
  - split; [apply hang_out; assumption | split; reflexivity].
Qed.

(* ---- the callback does not look at the state: modules without data *)
Lemma cb_rel_none (md : xmodule) first rel rg rg' m :
  mdat md = MNone -> rrel rg rg' -> vok rg -> spok rg ->
  cb_rel (cb_x86 md first rel rg m) (cb_x86 md first rel rg' (shm m)).
Proof. intros Hd Hr Hv Hs. unfold cb_x86. rewrite Hd. split; [reflexivity|]. cbn. auto. Qed.

(* ---- DWARF modules all of whose rows compress (what compilers emit outside hand-written assembly) *)
Definition rows_compress (sec : list fde) : Prop :=
  forall f svma rw, In f sec -> row_for_address f svma = Some rw -> translate_x86 rw <> None.

Lemma cb_rel_dwarf (md : xmodule) p sec first rel rg rg' m :
  mdat md = MDwarf p sec -> rows_compress sec -> rrel rg rg' -> vok rg -> spok rg ->
  cb_rel (cb_x86 md first rel rg m) (cb_x86 md first rel rg' (shm m)).
Proof.
  intros Hd Hc Hr Hv Hs. unfold cb_x86. rewrite Hd. unfold cb_dwarf.
  assert (W : forall f svma, In f sec ->
            cb_rel (with_fde rule regs row_step_x86 uncovered_rule_x86 f svma first rg m, dw_eff)
                   (with_fde rule regs row_step_x86 uncovered_rule_x86 f svma first rg' (shm m), dw_eff)).
  { intros f svma Hin. destruct (with_fde_rel f svma first rg rg' m (shm m)) as (r & E1 & E2 & Ew).
    - intros rw Hrw. exact (Hc f svma rw Hin Hrw).
    - rewrite E1, E2. split; [reflexivity|]. cbn. split; [reflexivity | exact Ew]. }
  assert (E : cb_rel (CbErr rg, dw_eff) (CbErr rg', dw_eff)) by (split; [reflexivity|]; cbn; auto).
  destruct p.
  - destruct (add64p S_dwarf_svma_add (base_svma md) rel) as [svma|e|pp|]; try exact E.
    destruct (hdr_lookup sec svma) as [f|] eqn:Eh; [|exact E]. apply W. eapply hdr_lookup_in; exact Eh.
  - destruct (index_build sec (base_svma md)) as [idx|] eqn:Ei; [|split; [reflexivity|]; cbn; auto].
    destruct (index_lookup true idx rel) as [f|] eqn:El; [|exact E].
    destruct (add64p S_dwarf_svma_add (base_svma md) rel) as [svma|e|pp|];
      try (split; [reflexivity|]; cbn; split; reflexivity).
    apply W. eapply index_lookup_in; eassumption.
  - destruct (index_build sec (base_svma md)) as [idx|] eqn:Ei; [|split; [reflexivity|]; cbn; auto].
    destruct (index_lookup true idx rel) as [f|] eqn:El; [|exact E].
    destruct (add64p S_dwarf_svma_add (base_svma md) rel) as [svma|e|pp|];
      try (split; [reflexivity|]; cbn; split; reflexivity).
    apply W. eapply index_lookup_in; eassumption.
Qed.

(* ---- Mach-O: every entry that does not defer to DWARF *)
Lemma cb_rel_macho (md : xmodule) d first rel rg rg' m :
  mdat md = MMacho d -> rrel rg rg' -> vok rg -> spok rg ->
  (forall off, macho_cui rule x86_macho_unwind JustReturn JustReturn x86_stub_helper_rule d rel first <> CuiNeedDwarf off) ->
  cb_rel (cb_x86 md first rel rg m) (cb_x86 md first rel rg' (shm m)).
Proof.
  intros Hd Hr Hv Hs Hnd. pose proof (x86_macho_rules_wf d rel first) as Hwf. unfold cb_x86. rewrite Hd. unfold cb_macho.
  destruct (macho_cui rule x86_macho_unwind JustReturn JustReturn x86_stub_helper_rule d rel first) as [r|off|] eqn:E.
  - split; [reflexivity|]. cbn. split; [reflexivity | apply Hwf; reflexivity].
  - exfalso. apply (Hnd off). reflexivity.
  - split; [reflexivity|]. cbn. auto.
Qed.
End Frame.

(* ------------------------------------------------------------------ aarch64: the same statement *)
From FH Require Import A64 A64Dwarf A64Unw.

Lemma row_step_rule_a rw first rg m r : translate_a64 rw = Some r -> row_step_a64 rw first rg m = CbRule r.
Proof. intros H. unfold row_step_a64. rewrite H. reflexivity. Qed.

Lemma slot_by_8_i16 off x l : slot_by_8 off x = Some l -> in_i16 l = true.
Proof.
  unfold slot_by_8, i64_to_i16. destruct (addi64c off x) as [sm|]; [|discriminate].
  destruct (negb (Z.rem sm 8 =? 0)%Z); [discriminate|].
  destruct (in_i16 (divz sm 8)) eqn:E; [|discriminate]. intros H; inversion H; subst. exact E.
Qed.

Lemma i64_to_u16_lt z k : i64_to_u16 z = Some k -> (k <? W16) = true.
Proof.
  unfold i64_to_u16, in_u16z. destruct ((0 <=? z)%Z && (z <? 65536)%Z) eqn:E; [|discriminate].
  intros H; inversion H; subst. unfold W16. lia.
Qed.

Lemma translate_a64_wf rw r : translate_a64 rw = Some r -> arule_wf r = true.
Proof.
  unfold translate_a64.
  repeat match goal with
         | |- context [match ?x with _ => _ end] => destruct x eqn:?; try discriminate
         end;
  intros H; inversion H; subst; cbn [arule_wf]; try reflexivity;
  repeat match goal with
         | Hs : slot_by_8 _ _ = Some _ |- _ => apply slot_by_8_i16 in Hs
         | Hu : i64_to_u16 _ = Some _ |- _ => apply i64_to_u16_lt in Hu
         end;
  repeat match goal with Hx : _ = true |- _ => rewrite Hx end; reflexivity.
Qed.

Lemma with_fde_rel_a f svma first rg rg' m m' :
  (forall rw, row_for_address f svma = Some rw -> translate_a64 rw <> None) ->
  exists r, with_fde arule aregs row_step_a64 uncovered_rule_a64 f svma first rg m = CbRule r /\
            with_fde arule aregs row_step_a64 uncovered_rule_a64 f svma first rg' m' = CbRule r /\ arule_wf r = true.
Proof.
  intros H. unfold with_fde. destruct (row_for_address f svma) as [rw|] eqn:E.
  - specialize (H rw eq_refl). destruct (translate_a64 rw) as [r|] eqn:Et; [|contradiction].
    exists r. rewrite !(row_step_rule_a rw _ _ _ r Et). repeat split. eapply translate_a64_wf; exact Et.
  - exists uncovered_rule_a64. repeat split.
Qed.
Section FrameA.
Variables lo hi s : N.
Hypothesis Hlo : 2 * DIST <= lo.
Hypothesis Hlh : lo <= hi.
Hypothesis Hov : hi + s + 2 * DIST < W64.
Variable k : N.
Hypothesis Hmask : forall v, v <= hi + s -> strip k v = v.

Notation arel := (arel lo hi s k).
Notation avok := (avok lo hi s k).
Notation shm := (shm lo hi s).
Notation aout_rel := (aout_rel lo hi s k).
Definition aspok (rg : aregs) : Prop := lo <= asp rg /\ asp rg + s + 2 * DIST < W64.

Definition cb_rel_a (r r' : cb_result arule aregs * eff) : Prop :=
  snd r = snd r' /\
  match fst r, fst r' with
  | CbRule a, CbRule b => a = b /\ arule_wf a = true
  | CbErr g, CbErr g' => arel g g' /\ avok g /\ aspok g
  | _, _ => False
  end.

Lemma aout_other rg rg' (r : res (option N)) : arel rg rg' -> avok rg ->
  match r with Ok _ => False | _ => True end -> aout_rel (r, rg) (r, rg').
Proof.
  intros Hr Hv Hk. unfold ShiftFacts.aout_rel; cbn [fst snd]. split; [|split; assumption].
  destruct r as [o|e|p|]; try contradiction; cbn; [left; reflexivity | reflexivity | exact I].
Qed.

Theorem unwind_frame_a_stack_shift (u : aunwinder) (c : acache) a rg rg' m :
  mem_ok_a lo hi s k m -> arel rg rg' -> avok rg -> aspok rg ->
  (forall x r c1, lookup_address a = Ok x -> cache_lookup arule c x (gen _ u) = (Hit arule r, c1) -> arule_wf r = true) ->
  (forall x md rel, lookup_address a = Ok x -> find_module amdata (mods _ u) x = Ok (Some (md, rel)) ->
     cb_rel_a (cb_a64 md (negb (is_ra a)) rel rg m) (cb_a64 md (negb (is_ra a)) rel rg' (shm m))) ->
  let o := unwind_frame_a u c a rg m in
  let o' := unwind_frame_a u c a rg' (shm m) in
  aout_rel (o_res _ _ o, o_regs _ _ o) (o_res _ _ o', o_regs _ _ o') /\
  o_cache _ _ o = o_cache _ _ o' /\ o_eff _ _ o = o_eff _ _ o'.
Proof.
  intros Hm Hr Hv [Hs1 Hs2] Hhit Hcb o o'. subst o o'. unfold unwind_frame_a, unwind_frame.
  assert (Fb : arule_wf afallback_rule = true) by reflexivity.
  destruct (lookup_address a) as [x|e|p|] eqn:Ea; cbn [o_res o_regs o_cache o_eff];
    try (split; [apply aout_other; try assumption; exact I | split; reflexivity]).
  specialize (Hhit x). specialize (Hcb x).
  destruct (cache_lookup arule c x (gen amdata u)) as [[r|slot] c1] eqn:Ec.
  - pose proof (aexec_stack_shift lo hi s Hlo Hlh Hov k Hmask r (negb (is_ra a)) rg rg' m Hm (Hhit r c1 eq_refl eq_refl) Hr Hv Hs1 Hs2) as E.
    destruct (aexec r (negb (is_ra a)) rg m) as [q g]. destruct (aexec r (negb (is_ra a)) rg' (shm m)) as [q' g'].
    cbn [o_res o_regs o_cache o_eff]. split; [exact E | split; reflexivity].
  - destruct (find_module amdata (mods amdata u) x) as [[[md rel]|]|e|p|] eqn:Ef;
      try (split; [apply aout_other; try assumption; exact I | split; reflexivity]).
    + specialize (Hcb md rel eq_refl eq_refl). destruct Hcb as [He Hk].
      destruct (cb_a64 md (negb (is_ra a)) rel rg m) as [kk ef]. destruct (cb_a64 md (negb (is_ra a)) rel rg' (shm m)) as [kk' ef'].
      cbn [fst snd] in *. subst ef'.
      destruct kk as [r|ra g|g|g|p|]; destruct kk' as [r'|ra' g'|g'|g'|p'|]; try contradiction.
      * destruct Hk as [<- Hw].
        pose proof (aexec_stack_shift lo hi s Hlo Hlh Hov k Hmask r (negb (is_ra a)) rg rg' m Hm Hw Hr Hv Hs1 Hs2) as E.
        destruct (aexec r (negb (is_ra a)) rg m) as [q g]. destruct (aexec r (negb (is_ra a)) rg' (shm m)) as [q' g'].
        cbn [o_res o_regs o_cache o_eff]. split; [exact E | split; reflexivity].
      * destruct Hk as (Kr & Kv & Ks1 & Ks2).
        pose proof (aexec_stack_shift lo hi s Hlo Hlh Hov k Hmask afallback_rule (negb (is_ra a)) g g' m Hm Fb Kr Kv Ks1 Ks2) as E.
        destruct (aexec afallback_rule (negb (is_ra a)) g m) as [q g1]. destruct (aexec afallback_rule (negb (is_ra a)) g' (shm m)) as [q' g1'].
        cbn [o_res o_regs o_cache o_eff]. split; [exact E | split; reflexivity].
    + pose proof (aexec_stack_shift lo hi s Hlo Hlh Hov k Hmask afallback_rule (negb (is_ra a)) rg rg' m Hm Fb Hr Hv Hs1 Hs2) as E.
      destruct (aexec afallback_rule (negb (is_ra a)) rg m) as [q g]. destruct (aexec afallback_rule (negb (is_ra a)) rg' (shm m)) as [q' g'].
      cbn [o_res o_regs o_cache o_eff]. split; [exact E | split; reflexivity].
Qed.

Lemma cb_rel_a_none (md : amodule) first rel rg rg' m :
  (mdat md = AMNone \/ mdat md = AMPe) -> arel rg rg' -> avok rg -> aspok rg ->
  cb_rel_a (cb_a64 md first rel rg m) (cb_a64 md first rel rg' (shm m)).
Proof. intros [Hd|Hd] Hr Hv Hs; unfold cb_a64; rewrite Hd; (split; [reflexivity|]); cbn; auto. Qed.

(* ---- DWARF modules all of whose rows compress *)
Definition rows_compress_a (sec : list fde) : Prop :=
  forall f svma rw, In f sec -> row_for_address f svma = Some rw -> translate_a64 rw <> None.

Lemma cb_rel_a_dwarf (md : amodule) p sec first rel rg rg' m :
  mdat md = AMDwarf p sec -> rows_compress_a sec -> arel rg rg' -> avok rg -> aspok rg ->
  cb_rel_a (cb_a64 md first rel rg m) (cb_a64 md first rel rg' (shm m)).
Proof.
  intros Hd Hc Hr Hv Hs. unfold cb_a64. rewrite Hd. unfold cb_dwarf.
  assert (W : forall f svma, In f sec ->
            cb_rel_a (with_fde arule aregs row_step_a64 uncovered_rule_a64 f svma first rg m, dw_eff)
                     (with_fde arule aregs row_step_a64 uncovered_rule_a64 f svma first rg' (shm m), dw_eff)).
  { intros f svma Hin. destruct (with_fde_rel_a f svma first rg rg' m (shm m)) as (r & E1 & E2 & Ew).
    - intros rw Hrw. exact (Hc f svma rw Hin Hrw).
    - rewrite E1, E2. split; [reflexivity|]. cbn. split; [reflexivity | exact Ew]. }
  assert (E : cb_rel_a (CbErr rg, dw_eff) (CbErr rg', dw_eff)) by (split; [reflexivity|]; cbn; auto).
  destruct p.
  - destruct (add64p S_dwarf_svma_add (base_svma md) rel) as [svma|e|pp|]; try exact E.
    destruct (hdr_lookup sec svma) as [f|] eqn:Eh; [|exact E]. apply W. eapply hdr_lookup_in; exact Eh.
  - destruct (index_build sec (base_svma md)) as [idx|] eqn:Ei; [|split; [reflexivity|]; cbn; auto].
    destruct (index_lookup true idx rel) as [f|] eqn:El; [|exact E].
    destruct (add64p S_dwarf_svma_add (base_svma md) rel) as [svma|e|pp|];
      try (split; [reflexivity|]; cbn; split; reflexivity).
    apply W. eapply index_lookup_in; eassumption.
  - destruct (index_build sec (base_svma md)) as [idx|] eqn:Ei; [|split; [reflexivity|]; cbn; auto].
    destruct (index_lookup true idx rel) as [f|] eqn:El; [|exact E].
    destruct (add64p S_dwarf_svma_add (base_svma md) rel) as [svma|e|pp|];
      try (split; [reflexivity|]; cbn; split; reflexivity).
    apply W. eapply index_lookup_in; eassumption.
Qed.

(* ---- Mach-O: every entry that does not defer to DWARF (the rules the arm64 opcodes and the analysers give) *)
Lemma cb_rel_a_macho (md : amodule) d first rel rg rg' m :
  mdat md = AMMacho d -> arel rg rg' -> avok rg -> aspok rg ->
  (forall off, macho_cui arule a64_macho_unwind ANoOp ANoOp a64_stub_helper_rule d rel first <> CuiNeedDwarf off) ->
  cb_rel_a (cb_a64 md first rel rg m) (cb_a64 md first rel rg' (shm m)).
Proof.
  intros Hd Hr Hv Hs Hnd. pose proof (a64_macho_rules_wf d rel first) as Hwf. unfold cb_a64. rewrite Hd. unfold cb_macho.
  destruct (macho_cui arule a64_macho_unwind ANoOp ANoOp a64_stub_helper_rule d rel first) as [r|off|] eqn:E.
  - split; [reflexivity|]. cbn. split; [reflexivity | apply Hwf; reflexivity].
  - exfalso. apply (Hnd off). reflexivity.
  - split; [reflexivity|]. cbn. auto.
Qed.
End FrameA.
