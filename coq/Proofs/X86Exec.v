(* X86Exec.v - facts about x86_64 rule execution: totality (C09), progress (C10),
   non-null results (C11). *)
From FH Require Import Word X86 WordFacts.
From Coq Require Import Lia ZifyBool ZifyN ZifyNat.
Open Scope N_scope.
Ltac Zify.zify_post_hook ::= Z.div_mod_to_equations.
Arguments N.add : simpl never.
Arguments N.sub : simpl never.
Arguments N.mul : simpl never.
Arguments N.div : simpl never.
Arguments N.modulo : simpl never.
Arguments N.eqb : simpl never.
Arguments N.ltb : simpl never.
Arguments N.leb : simpl never.

(* ---------- decode ---------- *)
Fixpoint factN (n : nat) : N :=
  match n with O => 1 | S k => N.of_nat (S k) * factN k end.

Lemma nth_opt_some {A} (l : list A) n : (n < length l)%nat -> exists x, nth_opt l n = Some x.
Proof. revert n; induction l as [|a l IH]; intros n H; simpl in *; [lia|].
  destruct n; [eauto | apply IH; lia]. Qed.

Lemma set_nth_length {A} (l : list A) n v : length (set_nth l n v) = length l.
Proof. revert n; induction l as [|a l IH]; intros n; destruct n; simpl; auto. Qed.

Lemma swap_tail_ok {A} (l : list A) from i :
  (from + i < length l)%nat ->
  exists l', swap_tail l from i = Some l' /\ length l' = length l.
Proof.
  intros H. unfold swap_tail.
  destruct (nth_opt_some l from) as [a Ha]; [lia|].
  destruct (nth_opt_some l (from + i)) as [b Hb]; [lia|].
  rewrite Ha, Hb. eexists; split; [reflexivity|]. now rewrite !set_nth_length.
Qed.

Lemma decode_loop_ok : forall (n : nat) fuel rs r,
  (n <= 8)%nat -> length rs = 8%nat -> r < factN n -> (n < fuel)%nat ->
  exists rs', decode_loop fuel rs r (N.of_nat n) = Ok rs' /\ length rs' = 8%nat.
Proof.
  induction n as [|n IH]; intros fuel rs r Hn Hl Hr Hf.
  - destruct fuel as [|f]; [lia|]. simpl in Hr. assert (r = 0) by lia. subst.
    simpl. eauto.
  - destruct fuel as [|f]; [lia|].
    cbn [decode_loop].
    destruct (r =? 0) eqn:E0; [eauto|].
    assert (Hnz : (N.of_nat (S n) =? 0) = false) by lia. rewrite Hnz.
    assert (Hidx : r mod N.of_nat (S n) < N.of_nat (S n)) by (apply N.mod_lt; lia).
    assert (Hdiv : r / N.of_nat (S n) < factN n).
    { cbn [factN] in Hr. apply N.div_lt_upper_bound; lia. }
    assert (Hsub : N.of_nat (S n) - 1 = N.of_nat n) by lia. rewrite Hsub.
    destruct (r mod N.of_nat (S n) =? 0) eqn:Ei.
    + apply IH; [lia | assumption | assumption | lia].
    + destruct (swap_tail_ok rs (N.to_nat (8 - N.of_nat (S n))) (N.to_nat (r mod N.of_nat (S n))))
        as [rs' [Hs Hl']]; [lia|].
      rewrite Hs. apply IH; [lia | congruence | assumption | lia].
Qed.

Lemma fact8 : factN 8 = 40320. Proof. reflexivity. Qed.

Lemma decode_ok cnt enc : enc < 40320 ->
  exists l, decode cnt enc = Ok l /\ (length l <= 8)%nat.
Proof.
  intros H. unfold decode.
  destruct (decode_loop_ok 8 18 ENCODE_REGISTERS enc) as [rs [Hd Hl]];
    [lia | reflexivity | rewrite fact8; exact H | lia |].
  change 8 with (N.of_nat 8). rewrite Hd. cbn [res_bind].
  eexists; split; [reflexivity|]. rewrite List.firstn_length. lia.
Qed.

(* decode really does panic for larger encodings: recorded, not claimed as a violation of C09
   because no producer emits such a value (see producible_* lemmas). *)
Lemma decode_panics_40320 : decode 8 40320 = Panic S_regorder_rem.
Proof. vm_compute. reflexivity. Qed.

(* ---------- totality of exec ---------- *)
Definition producible (r : rule) : bool :=
  match r with
  | OffsetSpAndPopRegisters k c e => (k <? W16) && (c <=? 8) && (e <? 40320)
  | _ => rule_wf r
  end.

Lemma exec_tail_checked_returns osp rg m ns nb :
  returns (fst (exec_tail ra_addr_checked osp rg m ns nb)) = true.
Proof.
  unfold exec_tail, ra_addr_checked, ok_or. destruct (sub64c ns 8); cbn; [|reflexivity].
  destruct (m n); cbn; [|reflexivity].
  destruct (n0 =? 0); cbn; [reflexivity|].
  destruct ((ns =? osp) && (n0 =? ip rg)); reflexivity.
Qed.

Lemma pop_loop_returns l : forall s rg m, returns (fst (pop_loop l s rg m)) = true.
Proof.
  induction l as [|r l IH]; intros s rg m; cbn; [reflexivity|].
  destruct (m s); cbn; [|reflexivity]. destruct (add64c s 8); cbn; [apply IH | reflexivity].
Qed.

Theorem exec_x_total ru first rg m :
  producible ru = true -> returns (fst (exec ra_addr_checked ru first rg m)) = true.
Proof.
  intros Hp. destruct ru; cbn [exec].
  - reflexivity.
  - destruct (add64c (sp rg) 8); [apply exec_tail_checked_returns | reflexivity].
  - destruct first.
    + destruct (add64c (sp rg) 8); [apply exec_tail_checked_returns | reflexivity].
    + destruct (bp rg =? 0); [reflexivity|].
      destruct (add64c (bp rg) 16); [|reflexivity].
      destruct (n <=? sp rg); [reflexivity|].
      destruct (m (bp rg)); [apply exec_tail_checked_returns | reflexivity].
  - destruct (add64c (sp rg) (k * 8)); [apply exec_tail_checked_returns | reflexivity].
  - destruct (add64c (sp rg) (k * 8)); [|reflexivity].
    destruct (adds64c (sp rg) (y * 8)); [|reflexivity].
    destruct (m n0); [apply exec_tail_checked_returns|].
    destruct (first && (n0 <? sp rg)); [apply exec_tail_checked_returns | reflexivity].
  - destruct (bp rg =? 0); [reflexivity|].
    destruct (add64c (bp rg) 16); [|reflexivity].
    destruct (n <=? sp rg); [reflexivity|].
    destruct (m (bp rg)); [apply exec_tail_checked_returns | reflexivity].
  - destruct (add64c (sp rg) (k * 8)); [|reflexivity].
    cbn [producible] in Hp.
    destruct (decode_ok cnt enc) as [l [Hd _]]; [lia|]. rewrite Hd.
    pose proof (pop_loop_returns l n rg m) as Hpl.
    destruct (pop_loop l n rg m) as [r rg2]. cbn [fst] in Hpl.
    destruct r; try discriminate; cbn; try reflexivity.
    destruct (add64c a 8); [apply exec_tail_checked_returns | reflexivity].
Qed.

(* the tree before the fix for S3: a concrete panic *)
Lemma exec_bare_refuted :
  exists ru first rg m, producible ru = true /\
    fst (exec ra_addr_bare ru first rg m) = Panic S_x86_rule_ra_sub.
Proof.
  exists (OffsetSp 0), true, (regs_new 256 0 0), (fun _ => None). split; reflexivity.
Qed.

(* ---------- shape of a successful step (C10 / C11) ---------- *)
Lemma exec_tail_some osp rg m ns nb ra rg' :
  exec_tail ra_addr_checked osp rg m ns nb = (Ok (Some ra), rg') ->
  ra <> 0 /\ 8 <= ns /\ m (ns - 8) = Some ra /\ ~ (ns = osp /\ ra = ip rg) /\
  rg' = set_bp (set_sp (set_ip rg ra) ns) nb.
Proof.
  unfold exec_tail, ra_addr_checked, ok_or.
  destruct (sub64c ns 8) eqn:Es; cbn; [|discriminate].
  apply sub64c_some in Es. destruct Es as [Hle ->].
  destruct (m (ns - 8)) eqn:Em; [|discriminate].
  destruct (n =? 0) eqn:E0; [discriminate|].
  destruct ((ns =? osp) && (n =? ip rg)) eqn:Ed; [discriminate|].
  intros H; inversion H; subst. repeat split; try lia; auto.
Qed.

Lemma sp_set_bp rg v : sp (set_bp rg v) = sp rg.
Proof. reflexivity. Qed.
Lemma sp_set_sp rg v : sp (set_sp rg v) = v.
Proof. reflexivity. Qed.
Lemma sp_set_ip rg v : sp (set_ip rg v) = sp rg.
Proof. reflexivity. Qed.
Lemma ip_final rg ra ns nb : ip (set_bp (set_sp (set_ip rg ra) ns) nb) = ra.
Proof. reflexivity. Qed.
Lemma bp_final rg ra ns nb : bp (set_bp (set_sp (set_ip rg ra) ns) nb) = nb.
Proof. reflexivity. Qed.
Lemma sp_final rg ra ns nb : sp (set_bp (set_sp (set_ip rg ra) ns) nb) = ns.
Proof. reflexivity. Qed.

Lemma pop_loop_sp l : forall s rg m s2 rg2,
  pop_loop l s rg m = (Ok s2, rg2) -> s <= s2 /\ ip rg2 = ip rg.
Proof.
  induction l as [|r l IH]; intros s rg m s2 rg2; cbn.
  - intros H; inversion H; subst. split; [lia | reflexivity].
  - destruct (m s); [|discriminate]. destruct (add64c s 8) eqn:Ea; [|discriminate].
    apply add64c_some in Ea. destruct Ea as [-> _].
    intros H. apply IH in H. destruct H as [H1 H2]. split; [lia | exact H2].
Qed.

(* Every successful rule step: non-null return address, stack pointer does not decrease,
   the new sp is >= 8, and not (sp unchanged and address unchanged). *)
Theorem exec_x_some ru first rg m ra rg' :
  exec ra_addr_checked ru first rg m = (Ok (Some ra), rg') ->
  ra <> 0 /\ ip rg' = ra /\ sp rg <= sp rg' /\ ~ (sp rg' = sp rg /\ ra = ip rg).
Proof.
  destruct ru; cbn [exec].
  - discriminate.
  - destruct (add64c (sp rg) 8) eqn:Ea; [|discriminate]. apply add64c_some in Ea.
    intros H. apply exec_tail_some in H. destruct H as (H1 & H2 & H3 & H4 & ->).
    rewrite ip_final, sp_final. repeat split; try assumption; lia.
  - destruct first.
    + destruct (add64c (sp rg) 8) eqn:Ea; [|discriminate]. apply add64c_some in Ea.
      intros H. apply exec_tail_some in H. destruct H as (H1 & H2 & H3 & H4 & ->).
      rewrite ip_final, sp_final. repeat split; try assumption; lia.
    + destruct (bp rg =? 0); [discriminate|].
      destruct (add64c (bp rg) 16) eqn:Ea; [|discriminate].
      destruct (n <=? sp rg) eqn:El; [discriminate|].
      destruct (m (bp rg)); [|discriminate].
      intros H. apply exec_tail_some in H. destruct H as (H1 & H2 & H3 & H4 & ->).
      rewrite ip_final, sp_final. repeat split; try assumption; lia.
  - destruct (add64c (sp rg) (k * 8)) eqn:Ea; [|discriminate]. apply add64c_some in Ea.
    intros H. apply exec_tail_some in H. destruct H as (H1 & H2 & H3 & H4 & ->).
    rewrite ip_final, sp_final. repeat split; try assumption; lia.
  - destruct (add64c (sp rg) (k * 8)) eqn:Ea; [|discriminate]. apply add64c_some in Ea.
    destruct (adds64c (sp rg) (y * 8)); [|discriminate].
    destruct (m n0).
    + intros H. apply exec_tail_some in H. destruct H as (H1 & H2 & H3 & H4 & ->).
      rewrite ip_final, sp_final. repeat split; try assumption; lia.
    + destruct (first && (n0 <? sp rg)); [|discriminate].
      intros H. apply exec_tail_some in H. destruct H as (H1 & H2 & H3 & H4 & ->).
      rewrite ip_final, sp_final. repeat split; try assumption; lia.
  - destruct (bp rg =? 0); [discriminate|].
    destruct (add64c (bp rg) 16) eqn:Ea; [|discriminate].
    destruct (n <=? sp rg) eqn:El; [discriminate|].
    destruct (m (bp rg)); [|discriminate].
    intros H. apply exec_tail_some in H. destruct H as (H1 & H2 & H3 & H4 & ->).
    rewrite ip_final, sp_final. repeat split; try assumption; lia.
  - destruct (add64c (sp rg) (k * 8)) eqn:Ea; [|discriminate]. apply add64c_some in Ea.
    destruct (decode cnt enc); try discriminate.
    destruct (pop_loop a n rg m) as [r rg2] eqn:Ep.
    destruct r; try discriminate.
    apply pop_loop_sp in Ep. destruct Ep as [Hs Hip].
    destruct (add64c a0 8) eqn:Eb; [|discriminate]. apply add64c_some in Eb.
    intros H. apply exec_tail_some in H. destruct H as (H1 & H2 & H3 & H4 & ->).
    rewrite ip_final, sp_final. rewrite Hip in H4. repeat split; try assumption; lia.
Qed.

(* frame-pointer steps strictly increase sp *)
Theorem exec_x_fp_strict first rg m ra rg' :
  exec ra_addr_checked UseFramePointer first rg m = (Ok (Some ra), rg') -> sp rg < sp rg'.
Proof.
  cbn [exec]. destruct (bp rg =? 0); [discriminate|].
  destruct (add64c (bp rg) 16) eqn:Ea; [|discriminate].
  destruct (n <=? sp rg) eqn:El; [discriminate|].
  destruct (m (bp rg)); [|discriminate].
  intros H. apply exec_tail_some in H. destruct H as (H1 & H2 & H3 & H4 & ->).
  rewrite sp_final. lia.
Qed.

(* the reported return address is the word just below the new stack pointer *)
Theorem exec_x_some_mem ru first rg m ra rg' :
  exec ra_addr_checked ru first rg m = (Ok (Some ra), rg') ->
  8 <= sp rg' /\ m (sp rg' - 8) = Some ra.
Proof.
  assert (T : forall osp rg0 ns nb, exec_tail ra_addr_checked osp rg0 m ns nb = (Ok (Some ra), rg') ->
              8 <= sp rg' /\ m (sp rg' - 8) = Some ra).
  { intros osp rg0 ns nb H. apply exec_tail_some in H. destruct H as (H1 & H2 & H3 & H4 & ->).
    rewrite sp_final. split; assumption. }
  destruct ru; cbn [exec].
  - discriminate.
  - destruct (add64c (sp rg) 8); [apply T | discriminate].
  - destruct first.
    + destruct (add64c (sp rg) 8); [apply T | discriminate].
    + destruct (bp rg =? 0); [discriminate|].
      destruct (add64c (bp rg) 16); [|discriminate].
      destruct (n <=? sp rg); [discriminate|].
      destruct (m (bp rg)); [apply T | discriminate].
  - destruct (add64c (sp rg) (k * 8)); [apply T | discriminate].
  - destruct (add64c (sp rg) (k * 8)); [|discriminate].
    destruct (adds64c (sp rg) (y * 8)); [|discriminate].
    destruct (m n0); [apply T|].
    destruct (first && (n0 <? sp rg)); [apply T | discriminate].
  - destruct (bp rg =? 0); [discriminate|].
    destruct (add64c (bp rg) 16); [|discriminate].
    destruct (n <=? sp rg); [discriminate|].
    destruct (m (bp rg)); [apply T | discriminate].
  - destruct (add64c (sp rg) (k * 8)); [|discriminate].
    destruct (decode cnt enc); try discriminate.
    destruct (pop_loop a n rg m) as [r rg2].
    destruct r; try discriminate.
    destruct (add64c a0 8); [apply T | discriminate].
Qed.

(* the uncovered-by-FDE rule: leaf in the first frame, frame pointer in caller frames (C04) *)
Lemma uncovered_first_is_leaf rg m :
  exec ra_addr_checked JustReturnIfFirstFrameOtherwiseFp true rg m = exec ra_addr_checked JustReturn true rg m.
Proof. reflexivity. Qed.

Lemma uncovered_caller_is_fp rg m :
  exec ra_addr_checked JustReturnIfFirstFrameOtherwiseFp false rg m = exec ra_addr_checked UseFramePointer false rg m.
Proof. reflexivity. Qed.

(* what the leaf rule and the frame pointer rule compute *)
Lemma leaf_rule_semantics first rg m ra :
  m (sp rg) = Some ra -> ra <> 0 -> sp rg + 8 < W64 ->
  exec ra_addr_checked JustReturn first rg m =
    (Ok (Some ra), set_bp (set_sp (set_ip rg ra) (sp rg + 8)) (bp rg)).
Proof.
  intros Hm Hnz Hlt. cbn [exec]. unfold add64c. destruct (sp rg + 8 <? W64) eqn:E; [|lia].
  unfold exec_tail, ra_addr_checked, ok_or, sub64c.
  destruct (8 <=? sp rg + 8) eqn:E8; [|lia].
  replace (sp rg + 8 - 8) with (sp rg) by lia. rewrite Hm.
  destruct (ra =? 0) eqn:E0; [lia|].
  destruct ((sp rg + 8 =? sp rg) && (ra =? ip rg)) eqn:Ed; [lia | reflexivity].
Qed.

Lemma fp_rule_semantics first rg m ra nb :
  bp rg <> 0 -> bp rg + 16 < W64 -> sp rg < bp rg + 16 ->
  m (bp rg) = Some nb -> m (bp rg + 8) = Some ra -> ra <> 0 ->
  exec ra_addr_checked UseFramePointer first rg m =
    (Ok (Some ra), set_bp (set_sp (set_ip rg ra) (bp rg + 16)) nb).
Proof.
  intros Hb Hlt Hsp Hm Hra Hnz. cbn [exec].
  destruct (bp rg =? 0) eqn:E0; [lia|]. unfold add64c.
  destruct (bp rg + 16 <? W64) eqn:E; [|lia].
  destruct (bp rg + 16 <=? sp rg) eqn:El; [lia|]. rewrite Hm.
  unfold exec_tail, ra_addr_checked, ok_or, sub64c.
  destruct (8 <=? bp rg + 16) eqn:E8; [|lia].
  replace (bp rg + 16 - 8) with (bp rg + 8) by lia. rewrite Hra.
  destruct (ra =? 0) eqn:Er; [lia|].
  destruct ((bp rg + 16 =? sp rg) && (ra =? ip rg)) eqn:Ed; [lia | reflexivity].
Qed.

Lemma fp_rule_null_end first rg m :
  bp rg = 0 -> exec ra_addr_checked UseFramePointer first rg m = (Ok None, rg).
Proof. intros H. cbn [exec]. rewrite H. reflexivity. Qed.

(* exactly when rule execution completes with Ok(None): the root markers (C11) *)
Lemma exec_tail_none osp rg m ns nb rg' :
  exec_tail ra_addr_checked osp rg m ns nb = (Ok None, rg') -> 8 <= ns /\ m (ns - 8) = Some 0.
Proof.
  unfold exec_tail, ra_addr_checked, ok_or.
  destruct (sub64c ns 8) eqn:Es; cbn; [|discriminate].
  apply sub64c_some in Es. destruct Es as [Hle ->].
  destruct (m (ns - 8)) eqn:Em; [|discriminate].
  destruct (n =? 0) eqn:E0.
  - intros _. split; [exact Hle|]. assert (n = 0) by lia. subst. reflexivity.
  - destruct ((ns =? osp) && (n =? ip rg)); discriminate.
Qed.

Theorem exec_x_none ru first rg m rg' :
  exec ra_addr_checked ru first rg m = (Ok None, rg') ->
  ru = EndOfStack \/
  ((ru = UseFramePointer \/ (ru = JustReturnIfFirstFrameOtherwiseFp /\ first = false)) /\ bp rg = 0) \/
  (exists ns, 8 <= ns /\ m (ns - 8) = Some 0).
Proof.
  assert (T : forall osp rg0 ns nb, exec_tail ra_addr_checked osp rg0 m ns nb = (Ok None, rg') ->
              exists ns, 8 <= ns /\ m (ns - 8) = Some 0).
  { intros osp rg0 ns nb H. exists ns. eapply exec_tail_none. exact H. }
  destruct ru; cbn [exec].
  - intros _. left. reflexivity.
  - destruct (add64c (sp rg) 8); [intros H; right; right; eapply T; exact H | discriminate].
  - destruct first.
    + destruct (add64c (sp rg) 8); [intros H; right; right; eapply T; exact H | discriminate].
    + destruct (bp rg =? 0) eqn:E0.
      * intros _. right. left. split; [right; split; reflexivity | lia].
      * destruct (add64c (bp rg) 16); [|discriminate].
        destruct (n <=? sp rg); [discriminate|].
        destruct (m (bp rg)); [intros H; right; right; eapply T; exact H | discriminate].
  - destruct (add64c (sp rg) (k * 8)); [intros H; right; right; eapply T; exact H | discriminate].
  - destruct (add64c (sp rg) (k * 8)); [|discriminate].
    destruct (adds64c (sp rg) (y * 8)); [|discriminate].
    destruct (m n0); [intros H; right; right; eapply T; exact H|].
    destruct (first && (n0 <? sp rg)); [intros H; right; right; eapply T; exact H | discriminate].
  - destruct (bp rg =? 0) eqn:E0.
    + intros _. right. left. split; [left; reflexivity | lia].
    + destruct (add64c (bp rg) 16); [|discriminate].
      destruct (n <=? sp rg); [discriminate|].
      destruct (m (bp rg)); [intros H; right; right; eapply T; exact H | discriminate].
  - destruct (add64c (sp rg) (k * 8)); [|discriminate].
    destruct (decode cnt enc); try discriminate.
    destruct (pop_loop a n rg m) as [r rg2].
    destruct r; try discriminate.
    destruct (add64c a0 8); [intros H; right; right; eapply T; exact H | discriminate].
Qed.

Lemma sp_generic rg ra nb cfa : sp (set_sp (set_bp (set_ip rg ra) nb) cfa) = cfa.
Proof. reflexivity. Qed.
Lemma ip_generic rg ra nb cfa : ip (set_sp (set_bp (set_ip rg ra) nb) cfa) = ra.
Proof. reflexivity. Qed.
Lemma bp_generic rg ra nb cfa : bp (set_sp (set_bp (set_ip rg ra) nb) cfa) = nb.
Proof. reflexivity. Qed.

Lemma decode_loop_not_err fuel : forall rs r n e, decode_loop fuel rs r n <> Err e.
Proof.
  induction fuel as [|f IH]; intros rs r n e; cbn [decode_loop]; [discriminate|].
  destruct (r =? 0); [discriminate|]. destruct (n =? 0); [discriminate|].
  destruct (if r mod n =? 0 then Some rs else swap_tail rs (N.to_nat (8 - n)) (N.to_nat (r mod n)));
    [apply IH | discriminate].
Qed.

Lemma decode_not_err cnt enc e : decode cnt enc <> Err e.
Proof.
  unfold decode. pose proof (decode_loop_not_err 18 ENCODE_REGISTERS enc 8 e) as H.
  destruct (decode_loop 18 ENCODE_REGISTERS enc 8); cbn; try discriminate. exact H.
Qed.

(* ---------- totality for every rule a producer can emit, stated on the encoding bound alone ---------- *)
Definition rule_ok (r : rule) : Prop :=
  match r with OffsetSpAndPopRegisters _ _ e => e < 40320 | _ => True end.

Lemma exec_total_ok ru first rg m : rule_ok ru -> returns (fst (exec ra_addr_checked ru first rg m)) = true.
Proof.
  intros Hp. destruct ru; cbn [exec].
  - reflexivity.
  - destruct (add64c (sp rg) 8); [apply exec_tail_checked_returns | reflexivity].
  - destruct first.
    + destruct (add64c (sp rg) 8); [apply exec_tail_checked_returns | reflexivity].
    + destruct (bp rg =? 0); [reflexivity|].
      destruct (add64c (bp rg) 16); [|reflexivity].
      destruct (n <=? sp rg); [reflexivity|].
      destruct (m (bp rg)); [apply exec_tail_checked_returns | reflexivity].
  - destruct (add64c (sp rg) (k * 8)); [apply exec_tail_checked_returns | reflexivity].
  - destruct (add64c (sp rg) (k * 8)); [|reflexivity].
    destruct (adds64c (sp rg) (y * 8)); [|reflexivity].
    destruct (m n0); [apply exec_tail_checked_returns|].
    destruct (first && (n0 <? sp rg)); [apply exec_tail_checked_returns | reflexivity].
  - destruct (bp rg =? 0); [reflexivity|].
    destruct (add64c (bp rg) 16); [|reflexivity].
    destruct (n <=? sp rg); [reflexivity|].
    destruct (m (bp rg)); [apply exec_tail_checked_returns | reflexivity].
  - destruct (add64c (sp rg) (k * 8)); [|reflexivity].
    cbn [rule_ok] in Hp.
    destruct (decode_ok cnt enc) as [l [Hd _]]; [exact Hp|]. rewrite Hd.
    pose proof (pop_loop_returns l n rg m) as Hpl.
    destruct (pop_loop l n rg m) as [r rg2]. cbn [fst] in Hpl.
    destruct r; try discriminate; cbn; try reflexivity.
    destruct (add64c a 8); [apply exec_tail_checked_returns | reflexivity].
Qed.

