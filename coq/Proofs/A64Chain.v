(* A64Chain.v - C01 (row level), aarch64. *)
From FH Require Import Consts Word A64 DwarfRow DwarfSpec Cfi Unwinder A64Dwarf DwarfCb A64Unw
  WordFacts A64Exec SpecFacts A64Row HistFacts CfiFacts ModFacts A64Walk.
From Coq Require Import Lia ZifyBool ZifyN.
Open Scope N_scope.
Arguments aexec : simpl never.
Arguments cb_a64 : simpl never.
Arguments find_module : simpl never.
Arguments cache_lookup : simpl never.
Arguments row_step_a64 : simpl never.

Lemma unwind_frame_via_row_a u a x rg m md rel p sec f rw :
  lookup_address a = Ok x -> find_module amdata (mods _ u) x = Ok (Some (md, rel)) ->
  mdat md = AMDwarf p sec -> fdes_wf sec (base_svma md) -> base_svma md + rel < W64 ->
  In f sec -> covers fde f_start f_end f (base_svma md + rel) ->
  row_for_address f (base_svma md + rel) = Some rw ->
  let o := unwind_frame_a u (cache_new arule) a rg m in
  (o_res _ _ o, o_regs _ _ o) = row_outcome_a64 rw (negb (is_ra a)) rg m.
Proof.
  intros Hx Hf Hd Hwf Hrel Hin Hcov Hrow. cbv zeta. unfold unwind_frame_a, unwind_frame. rewrite Hx.
  destruct (a_fresh_lookup_miss x (gen _ u)) as [c1 Hl]. rewrite Hl, Hf.
  assert (Hcb : fst (cb_a64 md (negb (is_ra a)) rel rg m) = row_step_a64 rw (negb (is_ra a)) rg m).
  { unfold cb_a64. rewrite Hd.
    rewrite (presentations_agree arule aregs row_step_a64 uncovered_rule_a64 sec (base_svma md)
               (negb (is_ra a)) rel rg m p PHdr Hwf Hrel).
    unfold cb_dwarf. rewrite add64p_nopanic by exact Hrel.
    destruct (hdr_lookup_spec sec (base_svma md) (base_svma md + rel) Hwf) as (Hc & _ & _).
    rewrite (Hc f Hin Hcov). cbn [fst]. unfold with_fde. rewrite Hrow. reflexivity. }
  unfold row_outcome_a64.
  destruct (cb_a64 md (negb (is_ra a)) rel rg m) as [cr ef]. cbn [fst] in Hcb. rewrite <- Hcb.
  destruct cr.
  - destruct (aexec r (negb (is_ra a)) rg m). reflexivity.
  - reflexivity.
  - destruct (aexec afallback_rule (negb (is_ra a)) rg0 m). reflexivity.
  - destruct (aexec afallback_rule (negb (is_ra a)) rg0 m). reflexivity.
  - reflexivity.
  - reflexivity.
Qed.

Definition described_a (u : aunwinder) (m : mem) (a : faddr) (rg : aregs) (ora : option N) (cfa fp' : N) : Prop :=
  exists x md rel p sec f rw,
    lookup_address a = Ok x /\ find_module amdata (mods _ u) x = Ok (Some (md, rel)) /\
    mdat md = AMDwarf p sec /\ fdes_wf sec (base_svma md) /\ base_svma md + rel < W64 /\
    In f sec /\ covers fde f_start f_end f (base_svma md + rel) /\
    row_for_address f (base_svma md + rel) = Some rw /\
    row_wf rw = true /\ aregs64 rg /\
    spec_step DW_SP DW_X29 (asp rg) (afp rg) (lr rg) rw m = Some (ora, cfa, fp') /\
    match ora with
    | None =>
      (* the root function: a caller frame whose row declares the return address undefined in the
         form the compressed rule keeps (sp-based CFA, frame pointer not saved) - see S14 *)
      is_ra a = true /\ cfa_on_fp DW_X29 rw = false /\ (forall o, r_fp rw <> ROffset o) /\
      (exists r, translate_a64 rw = Some r)
    | Some ra =>
      strip (mask rg) ra <> 0 /\
      (is_ra a = true -> asp rg < cfa /\ r_fp rw <> RUndefined /\ r_ra rw <> RSameValue) /\
      (cfa_on_fp DW_X29 rw = true -> fp' <> 0 /\ afp rg < fp' /\ asp rg < cfa)
    end.

Inductive true_chain_a (u : aunwinder) (m : mem) : faddr -> aregs -> list (N * N * N) -> Prop :=
| tca_root a rg cfa fp' :
    described_a u m a rg None cfa fp' -> true_chain_a u m a rg []
| tca_frame a rg ra cfa fp' rest :
    described_a u m a rg (Some ra) cfa fp' ->
    true_chain_a u m (RA (strip (mask rg) ra)) (after rg ra cfa fp') rest ->
    true_chain_a u m a rg ((strip (mask rg) ra, cfa, fp') :: rest).

Fixpoint walk_fresh_a (u : aunwinder) (m : mem) (a : faddr) (rg : aregs) (n : nat)
  : list (N * N * N) * res (option N) :=
  match n with
  | O => ([], Hang)
  | S k =>
    let o := unwind_frame_a u (cache_new arule) a rg m in
    match o_res _ _ o with
    | Ok (Some ra) =>
      let rg' := o_regs _ _ o in
      let '(l, r) := walk_fresh_a u m (RA ra) rg' k in ((ra, asp rg', afp rg') :: l, r)
    | r => ([], r)
    end
  end.

Lemma walk_fresh_a_S u m a rg k :
  walk_fresh_a u m a rg (S k) =
    let o := unwind_frame_a u (cache_new arule) a rg m in
    match o_res _ _ o with
    | Ok (Some ra) =>
      let rg' := o_regs _ _ o in
      let '(l, r) := walk_fresh_a u m (RA ra) rg' k in ((ra, asp rg', afp rg') :: l, r)
    | r => ([], r)
    end.
Proof. reflexivity. Qed.

Theorem walk_true_chain_a u m a rg chain :
  true_chain_a u m a rg chain ->
  walk_fresh_a u m a rg (S (length chain)) = (chain, Ok None).
Proof.
  induction 1 as [a rg cfa fp' Hd | a rg ra cfa fp' rest Hd Hnext IH]; cbn [length]; rewrite walk_fresh_a_S; cbv zeta.
  - destruct Hd as (x & md & rel & p & sec & f & rw & Hx & Hf & Hm & Hwf & Hrel & Hin & Hcov & Hrow & Hrwf & H64 & Hspec & Hra & Hnfp & Hno & Htr).
    pose proof (unwind_frame_via_row_a u a x rg m md rel p sec f rw Hx Hf Hm Hwf Hrel Hin Hcov Hrow) as Hvia.
    cbv zeta in Hvia.
    pose proof (row_step_a64_spec rw (negb (is_ra a)) rg m None cfa fp' Hrwf H64 Hspec) as Hs. cbn in Hs.
    assert (Hres : o_res _ _ (unwind_frame_a u (cache_new arule) a rg m) = Ok None).
    { rewrite <- Hs; [rewrite <- Hvia; reflexivity | rewrite Hra; reflexivity | exact Hnfp | exact Hno | exact Htr]. }
    rewrite Hres. reflexivity.
  - destruct Hd as (x & md & rel & p & sec & f & rw & Hx & Hf & Hm & Hwf & Hrel & Hin & Hcov & Hrow & Hrwf & H64 & Hspec & Hnz & Hcaller & Hfp).
    pose proof (unwind_frame_via_row_a u a x rg m md rel p sec f rw Hx Hf Hm Hwf Hrel Hin Hcov Hrow) as Hvia.
    cbv zeta in Hvia.
    pose proof (row_step_a64_spec rw (negb (is_ra a)) rg m (Some ra) cfa fp' Hrwf H64 Hspec) as Hs. cbn in Hs.
    assert (Hout : row_outcome_a64 rw (negb (is_ra a)) rg m = (Ok (Some (strip (mask rg) ra)), after rg ra cfa fp')).
    { apply Hs; [exact Hnz | | exact Hfp]. intros Hf0. apply Hcaller. destruct (is_ra a); [reflexivity | discriminate]. }
    rewrite Hout in Hvia. inversion Hvia as [[Hres Hregs]].
    rewrite Hres. rewrite Hregs. rewrite IH. reflexivity.
Qed.
