(* HostileFacts.v - C14: for ARBITRARY module data of every modelled kind (any FDE list with any
   rows, any PE tables, chains, text view), any registers and any stack, one unwind_frame call never
   panics in framehop's own code and never hangs. *)
From FH Require Import Consts Word X86 A64 DwarfRow Cfi Unwinder DwarfCb X86Dwarf A64Dwarf Pe Macho MachoCb X86Unw A64Unw
  WordFacts X86Exec A64Exec RegOrderFacts ModFacts X86Walk PeFacts.
From Coq Require Import Lia ZifyBool ZifyN ZifyNat.
Open Scope N_scope.
Arguments N.add : simpl never.
Arguments N.sub : simpl never.
Arguments N.mul : simpl never.
Arguments N.eqb : simpl never.
Arguments N.ltb : simpl never.
Arguments N.leb : simpl never.
Arguments encode : simpl never.
Arguments decode : simpl never.

Ltac inner H :=
  match type of H with
  | context [match ?x with _ => _ end] =>
    lazymatch x with
    | context [match _ with _ => _ end] => fail
    | _ => destruct x
    end
  end.

Definition safe {A} (r : res A) : Prop :=
  match r with Panic s => site_is_own s = false | Hang => False | _ => True end.

Lemma returns_safe {A} (r : res A) : returns r = true -> safe r.
Proof. destruct r; cbn; intros H; try exact I; discriminate. Qed.

(* what a callback may hand to with_cache *)
Definition cb_safe {G} (cr : cb_result rule G) : Prop :=
  match cr with
  | CbRule r => rule_ok r
  | CbPanic s => site_is_own s = false
  | CbHang => False
  | _ => True
  end.

Lemma translate_x86_ok rw r : translate_x86 rw = Some r -> rule_ok r.
Proof.
  unfold translate_x86. intros H.
  destruct r; try exact I. exfalso.
  repeat match type of H with
         | match ?x with _ => _ end = _ => destruct x; try discriminate
         | (if ?x then _ else _) = _ => destruct x; try discriminate
         end.
Qed.

Lemma row_step_x86_safe rw first rg m : cb_safe (row_step_x86 rw first rg m).
Proof.
  unfold row_step_x86. destruct (translate_x86 rw) as [r|] eqn:E.
  - cbn. eapply translate_x86_ok. exact E.
  - unfold generic_x86.
    repeat match goal with
           | |- context [match ?x with _ => _ end] => destruct x
           | |- context [if ?x then _ else _] => destruct x
           end; exact I.
Qed.

Section DwarfSafe.
Variables (R G : Type).
Variable safeR : cb_result R G -> Prop.
Variable row_step : row -> bool -> G -> mem -> cb_result R G.
Variable uncovered : R.
Hypothesis row_step_safe : forall rw first rg m, safeR (row_step rw first rg m).
Hypothesis uncovered_safe : safeR (CbRule uncovered).
Hypothesis err_safe : forall rg, safeR (CbErr rg).

Lemma cb_dwarf_safe p sec bs first rel rg m :
  safeR (fst (cb_dwarf R G row_step uncovered true p sec bs first rel rg m)).
Proof.
  assert (W : forall f svma, safeR (with_fde R G row_step uncovered f svma first rg m)).
  { intros f svma. unfold with_fde. destruct (row_for_address f svma); [apply row_step_safe | apply uncovered_safe]. }
  unfold cb_dwarf. destruct p.
  - destruct (add64p S_dwarf_svma_add bs rel); cbn [fst]; try apply err_safe.
    destruct (hdr_lookup sec a); cbn [fst]; [apply W | apply err_safe].
  - destruct (index_build sec bs); cbn [fst]; [|apply err_safe].
    destruct (index_lookup true l rel); cbn [fst]; [|apply err_safe].
    destruct (add64p S_dwarf_svma_add bs rel); cbn [fst]; try apply uncovered_safe. apply W.
  - destruct (index_build sec bs); cbn [fst]; [|apply err_safe].
    destruct (index_lookup true l rel); cbn [fst]; [|apply err_safe].
    destruct (add64p S_dwarf_svma_add bs rel); cbn [fst]; try apply uncovered_safe. apply W.
Qed.
(* the Mach-O arm: compact-unwind rules, errors, or a DWARF row *)
Variable arch_unwind : mfunction -> bool -> N -> option (list N) -> cui_result R.
Variables stub_rule start_rule : R.
Variable helper_rule : N -> R.
Hypothesis cui_safe : forall d rel first r,
  macho_cui R arch_unwind stub_rule start_rule helper_rule d rel first = CuiRule r -> safeR (CbRule r).

Lemma cb_macho_safe d bs first rel rg m :
  safeR (fst (cb_macho R G row_step uncovered arch_unwind stub_rule start_rule helper_rule d bs first rel rg m)).
Proof.
  unfold cb_macho.
  destruct (macho_cui R arch_unwind stub_rule start_rule helper_rule d rel first) as [r|off|] eqn:E; cbn [fst].
  - eapply cui_safe. exact E.
  - destruct (m_eh d) as [l|]; [|apply err_safe].
    destruct (eh_find l off) as [f|]; [|apply err_safe].
    destruct (add64p S_dwarf_svma_add bs rel); cbn [fst]; try apply uncovered_safe.
    unfold with_fde. destruct (row_for_address f a); [apply row_step_safe | apply uncovered_safe].
  - apply err_safe.
Qed.
End DwarfSafe.

(* ---------- PE ---------- *)
Lemma chain_infos_ok pe : forall fuel u, exists r, chain_infos fuel pe u = Ok r.
Proof.
  induction fuel as [|f IH]; intros u; cbn [chain_infos]; [eexists; reflexivity|].
  destruct (ui_chain u) as [rva|]; [|eexists; reflexivity].
  destruct (ui_at (pe_uinfos pe) rva) as [u'| |]; try (eexists; reflexivity).
  destruct (IH u') as [r Hr]. rewrite Hr. destruct r; eexists; reflexivity.
Qed.

Lemma rule_seq_rule_ok l r : rule_for_sequence l = Some (Ok r) -> rule_ok r.
Proof.
  unfold rule_for_sequence.
  destruct (match l with OopOff k :: t => (k, t) | _ => (0, l) end) as [k rest].
  destruct (all_pops rest) as [rs|]; [|discriminate].
  destruct (Nat.ltb 8 (length rs)); [discriminate|].
  destruct (Nat.eqb (length rs) 0 && (k =? 0)); [intros H; inversion H; exact I|].
  destruct (encode rs) as [[[cnt enc]| | |]|] eqn:E; try discriminate.
  intros H; inversion H; subst. cbn. destruct (encode_decode rs cnt enc E) as (_ & Hlt & _). exact Hlt.
Qed.

(* the epilog parser yields lea rsp,[fp+x] only for functions that declare a frame register *)
Lemma eparse_fp ip fpreg b n rest : eparse ip fpreg b = PInsn (EAddSPFromFP n) rest -> fpreg <> None.
Proof.
  unfold eparse. destruct ip as [|b0 t0]; [discriminate|].
  destruct (if N.land b0 240 =? 64 then (N.land b0 15, t0) else (0, b0 :: t0)) as [rex ip'].
  destruct fpreg as [fp|]; [intros _; discriminate|].
  intros H. exfalso. cbv zeta in H. unfold u32le in H.
  repeat (inner H; try discriminate).
Qed.

Definition no_fp_insn (i : einsn) : Prop := match i with EAddSPFromFP _ => False | _ => True end.

Lemma eparse_loop_nofp : forall fuel ip acc n insns,
  eparse_loop fuel ip None acc n = Some insns -> Forall no_fp_insn acc -> Forall no_fp_insn insns.
Proof.
  induction fuel as [|f IH]; intros ip acc n insns; cbn [eparse_loop]; [discriminate|].
  destruct (eparse ip None false) as [e| |i rest] eqn:E; [discriminate | |].
  - intros H Ha; inversion H; subst. apply Forall_rev. exact Ha.
  - destruct (Nat.leb 12 n); [discriminate|]. intros H Ha. eapply IH; [exact H|].
    constructor; [|exact Ha]. destruct i; try exact I.
    exfalso. eapply eparse_fp; [exact E | reflexivity].
Qed.

Lemma eparse_sequence_nofp ip insns : eparse_sequence ip None = Some insns -> Forall no_fp_insn insns.
Proof.
  unfold eparse_sequence. destruct (eparse ip None true) as [e| |i rest] eqn:E; [discriminate | |].
  - intros H; inversion H; constructor.
  - intros H. eapply eparse_loop_nofp; [exact H|]. constructor; [|constructor].
    destruct i; try exact I. exfalso. eapply eparse_fp; [exact E | reflexivity].
Qed.

Lemma run_epilog_checked_nopanic u insns : forall rg m,
  (ui_fpreg u = None -> Forall no_fp_insn insns) -> run_epilog true u insns rg m <> OpPanic.
Proof.
  induction insns as [|i t IH]; intros rg m Hf; cbn [run_epilog]; [discriminate|].
  assert (Ht : ui_fpreg u = None -> Forall no_fp_insn t) by (intros E; specialize (Hf E); inversion Hf; assumption).
  destruct i.
  - destruct (sp rg + n <? W64); [apply IH; exact Ht | discriminate].
  - destruct (ui_fpreg u) as [r|] eqn:E.
    + destruct (getr rg (pe_reg r) + n <? W64); [apply IH; exact Ht | discriminate].
    + exfalso. specialize (Hf eq_refl). inversion Hf as [|? ? Hi _]. exact Hi.
  - destruct (m (sp rg)); [|discriminate].
    destruct (sp rg + 8 <? W64); [apply IH; exact Ht | discriminate].
Qed.

Lemma pe_uncacheable_safe first rg0 ra rg' : @cb_safe regs (pe_uncacheable first rg0 ra rg').
Proof.
  unfold pe_uncacheable. destruct ((sp rg' =? sp rg0) && (ra =? ip rg0)); [exact I|].
  destruct (negb first && (sp rg' <=? sp rg0)); exact I.
Qed.

Lemma final_pop_safe first rg0 rg m : @cb_safe regs (final_pop true first rg0 rg m).
Proof.
  unfold final_pop. destruct (m (sp rg)); [|exact I].
  destruct (sp rg + 8 <? W64); [apply pe_uncacheable_safe | exact I].
Qed.

Lemma pe_step_raw_safe pe address first rg m : cb_safe (fst (pe_step_raw true pe address first rg m)).
Proof.
  unfold pe_step_raw.
  destruct (pe_lookup (pe_funcs pe) address None) as [f|] eqn:Elk; [|exact I].
  assert (Hbeg : rt_begin f <= address) by (eapply pe_lookup_begin; [|exact Elk]; discriminate).
  destruct (ui_at (pe_uinfos pe) (rt_uinfo f)) as [u0| |]; try exact I.
  (* the unwind-code tail *)
  assert (TAIL : cb_safe (fst
    match chain_infos CHAIN_LIMIT pe u0 with
    | Hang => (CbHang, pe_eff_alloc)
    | Ok None => (CbErr rg, pe_eff_alloc)
    | Ok (Some infos) =>
      if address <? rt_begin f then (CbPanic S_pe_own_sub, pe_eff_alloc)
      else
        let ops := all_ops (address - rt_begin f) infos in
        match rule_for_sequence (map oop_of_uop ops) with
        | Some (Ok r) => (CbRule r, pe_eff_alloc)
        | Some (Panic s) => (CbPanic s, pe_eff_alloc)
        | Some _ => (CbHang, pe_eff_alloc)
        | None =>
          match run_ops_pe u0 ops rg m with
          | OpCont rg' => (final_pop true first rg rg' m, pe_eff_alloc)
          | OpBreak ra rg' => (pe_uncacheable first rg ra rg', pe_eff_alloc)
          | OpNoStack rg' => (CbErrV rg', pe_eff_alloc)
          | OpPanic => (CbPanic S_pe_dep, pe_eff_alloc)
          end
        end
    | _ => (CbHang, pe_eff_alloc)
    end)).
  { destruct (chain_infos_ok pe CHAIN_LIMIT u0) as [r ->]. destruct r as [infos|]; [|exact I].
    destruct (address <? rt_begin f) eqn:E; [lia|]. cbv zeta.
    destruct (rule_for_sequence (map oop_of_uop (all_ops (address - rt_begin f) infos))) as [x|] eqn:Er.
    - destruct (rule_seq_ok _ _ Er) as [r ->]. cbn. eapply rule_seq_rule_ok. exact Er.
    - destruct (run_ops_pe u0 (all_ops (address - rt_begin f) infos) rg m); cbn [fst]; try exact I; try reflexivity.
      + apply final_pop_safe.
      + apply pe_uncacheable_safe. }
  destruct first; [|exact TAIL].
  destruct (rt_end f <? address); [exact I|].
  destruct (pe_text pe) as [[[lo hi] bytes]|]; [|exact I].
  destruct ((lo <=? address) && (address <? hi)); [|exact I].
  destruct (Nat.ltb (length bytes) (N.to_nat (address - lo))); [exact I|]. cbv zeta.
  destruct (Nat.ltb _ _); [exact I|].
  destruct (local_jump _ address (rt_begin f) (rt_end f)); [exact TAIL|].
  destruct (eparse_sequence _ (ui_fpreg u0)) as [insns|] eqn:Ep; [|exact TAIL].
  destruct (rule_for_sequence (map oop_of_einsn insns)) as [x|] eqn:Er.
  - destruct (rule_seq_ok _ _ Er) as [r ->]. cbn. eapply rule_seq_rule_ok. exact Er.
  - pose proof (run_epilog_checked_nopanic u0 insns rg m) as Hnp.
    destruct (run_epilog true u0 insns rg m); cbn [fst]; try exact I.
    + apply final_pop_safe.
    + apply pe_uncacheable_safe.
    + exfalso. apply Hnp; [|reflexivity]. intros E. rewrite E in Ep. eapply eparse_sequence_nofp. exact Ep.
Qed.

Lemma pe_step_safe pe address first rg m : cb_safe (fst (pe_step true pe address first rg m)).
Proof.
  pose proof (pe_step_raw_safe pe address first rg m) as H. unfold pe_step. cbn [fst].
  destruct (fst (pe_step_raw true pe address first rg m)); cbn [pe_restore]; auto.
Qed.

(* the Mach-O producers never emit a pop-registers rule *)
Definition not_pop (r : rule) : Prop := match r with OffsetSpAndPopRegisters _ _ _ => False | _ => True end.
Lemma not_pop_ok r : not_pop r -> rule_ok r.
Proof. destruct r; cbn; auto. contradiction. Qed.

Lemma pro_walk_not_pop : forall fuel rb cnt r, pro_walk_x86 fuel rb cnt = Some r -> not_pop r.
Proof.
  induction fuel as [|f IH]; intros rb cnt r; cbn [pro_walk_x86]; [discriminate|].
  intros H.
  repeat match type of H with
         | match ?x with _ => _ end = _ => destruct x; try discriminate
         | (if ?x then _ else _) = _ => destruct x; try discriminate
         end;
  try (inversion H; subst; exact I); try (eapply IH; exact H).
Qed.

Lemma analysis_x86_not_pop text pc r : analysis_x86 text pc = Some r -> not_pop r.
Proof.
  unfold analysis_x86, prologue_x86, epilogue_x86. intros H.
  destruct (is_next_expected_in_prologue (skipn pc text)).
  - destruct (pro_walk_x86 _ _ 0) as [r'|] eqn:E.
    + inversion H; subst. eapply pro_walk_not_pop. exact E.
    + repeat (inner H; try discriminate); inversion H; subst; exact I.
  - repeat (inner H; try discriminate); inversion H; subst; exact I.
Qed.

Lemma x86_macho_not_pop f first off fb r : x86_macho_unwind f first off fb = CuiRule r -> not_pop r.
Proof.
  unfold x86_macho_unwind. intros H.
  destruct first.
  - destruct fb as [b|].
    + destruct (analysis_x86 b (N.to_nat off)) as [r'|] eqn:E.
      * inversion H; subst. eapply analysis_x86_not_pop. exact E.
      * unfold frameless_rule_x86 in H.
        repeat (inner H; try discriminate); inversion H; subst; exact I.
    + unfold frameless_rule_x86 in H.
      repeat (inner H; try discriminate); inversion H; subst; exact I.
  - unfold frameless_rule_x86 in H.
    repeat (inner H; try discriminate); inversion H; subst; exact I.
Qed.

Lemma macho_cui_x86_ok d rel first r :
  macho_cui rule x86_macho_unwind JustReturn JustReturn x86_stub_helper_rule d rel first = CuiRule r -> rule_ok r.
Proof.
  unfold macho_cui. intros H. apply not_pop_ok.
  destruct (in_range (m_stubs d) rel); [destruct first; [inversion H; exact I | discriminate]|].
  destruct (in_range (m_helper d) rel).
  { destruct first; [|discriminate]. inversion H. unfold x86_stub_helper_rule.
    repeat match goal with |- context [if ?x then _ else _] => destruct x end; exact I. }
  destruct (macho_lookup d rel) as [f|]; [|destruct first; [inversion H; exact I | discriminate]].
  destruct (first && (rel =? fn_start f)); [inversion H; exact I|].
  eapply x86_macho_not_pop. exact H.
Qed.

Lemma cb_x86_safe md first rel rg m : cb_safe (fst (cb_x86 md first rel rg m)).
Proof.
  unfold cb_x86. destruct (mdat md).
  - exact I.
  - apply (cb_dwarf_safe rule regs cb_safe); [apply row_step_x86_safe | exact I | intros; exact I].
  - apply pe_step_safe.
  - apply (cb_macho_safe rule regs cb_safe); [apply row_step_x86_safe | exact I | intros; exact I |].
    intros d0 rel0 first0 r H. cbn. eapply macho_cui_x86_ok. exact H.
Qed.

Lemma find_module_ok {D} (l : list (module D)) a : exists r, find_module D l a = Ok r.
Proof.
  unfold find_module. destruct (find_cand D l a None) as [c|]; [|eexists; reflexivity].
  destruct (a <? base_avma c) eqn:E; [eexists; reflexivity|].
  unfold sub64p. destruct (base_avma c <=? a) eqn:E2; [|lia]. cbn [res_bind].
  destruct (a - base_avma c <? W32); eexists; reflexivity.
Qed.

(* every rule a cache holds came from a producer *)
Definition cache_ok (c : cache rule) : Prop := forall s e, slots _ c s = Some e -> rule_ok (e_rule _ e).

Lemma cache_new_ok : cache_ok (cache_new rule).
Proof. intros s e H. discriminate. Qed.

Lemma cache_lookup_ok c x g :
  cache_ok c ->
  cache_ok (snd (cache_lookup rule c x g)) /\
  match fst (cache_lookup rule c x g) with Hit _ r => rule_ok r | Miss _ _ => True end.
Proof.
  intros Hc. unfold cache_lookup. cbv zeta.
  destruct (slots _ c (x mod CACHE_ENTRY_COUNT)) as [e|] eqn:E; [|split; [exact Hc | exact I]].
  destruct (e_gen _ e =? g); [|split; [exact Hc | exact I]].
  destruct (e_addr _ e =? x); split; try exact Hc; try exact I. cbn. eapply Hc. exact E.
Qed.

Lemma cache_insert_ok c slot a g r : cache_ok c -> rule_ok r -> cache_ok (cache_insert rule c slot a g r).
Proof.
  intros Hc Hr s e. unfold cache_insert. cbn [slots]. destruct (s =? slot); [|apply Hc].
  intros H; inversion H; subst. exact Hr.
Qed.

(* any cache whose entries came from producers (every cache a history can build): the call is safe and
   leaves such a cache *)
Theorem unwind_frame_x_safe u c a rg m :
  cache_ok c -> faddr_wf a = true ->
  safe (o_res _ _ (unwind_frame_x u c a rg m)) /\ cache_ok (o_cache _ _ (unwind_frame_x u c a rg m)).
Proof.
  intros Hc Hwf. unfold unwind_frame_x, unwind_frame.
  assert (Hl : exists x, lookup_address a = Ok x).
  { destruct a as [x|x]; cbn [lookup_address faddr_wf] in *; [eexists; reflexivity|].
    unfold sub64p. destruct (1 <=? x) eqn:E; [eexists; reflexivity | lia]. }
  destruct Hl as [x ->].
  destruct (cache_lookup_ok c x (gen _ u) Hc) as [Hc1 Hhit].
  destruct (cache_lookup rule c x (gen _ u)) as [[r|slot] c1]; cbn [fst snd] in *.
  - pose proof (exec_total_ok r (negb (is_ra a)) rg m Hhit) as He. unfold exec_x.
    destruct (exec ra_addr_checked r (negb (is_ra a)) rg m). cbn. split; [apply returns_safe; exact He | exact Hc1].
  - destruct (find_module_ok (mods _ u) x) as [r ->]. destruct r as [[md rel]|].
    + pose proof (cb_x86_safe md (negb (is_ra a)) rel rg m) as Hs.
      destruct (cb_x86 md (negb (is_ra a)) rel rg m) as [cr ef]. cbn [fst] in Hs.
      destruct cr; cbn [cb_safe] in Hs.
      * pose proof (exec_total_ok r (negb (is_ra a)) rg m Hs) as He. unfold exec_x.
        destruct (exec ra_addr_checked r (negb (is_ra a)) rg m). cbn.
        split; [apply returns_safe; exact He | apply cache_insert_ok; assumption].
      * cbn. split; [destruct (ra =? 0); exact I | exact Hc1].
      * pose proof (exec_total_ok fallback_rule (negb (is_ra a)) rg0 m I) as He. unfold exec_x.
        destruct (exec ra_addr_checked fallback_rule (negb (is_ra a)) rg0 m). cbn.
        split; [apply returns_safe; exact He | apply cache_insert_ok; [assumption | exact I]].
      * pose proof (exec_total_ok fallback_rule (negb (is_ra a)) rg0 m I) as He. unfold exec_x.
        destruct (exec ra_addr_checked fallback_rule (negb (is_ra a)) rg0 m). cbn.
        split; [apply returns_safe; exact He | exact Hc1].
      * cbn. split; [exact Hs | exact Hc1].
      * contradiction.
    + pose proof (exec_total_ok fallback_rule (negb (is_ra a)) rg m I) as He. unfold exec_x.
      destruct (exec ra_addr_checked fallback_rule (negb (is_ra a)) rg m). cbn.
      split; [apply returns_safe; exact He | apply cache_insert_ok; [assumption | exact I]].
Qed.

(* ---------- aarch64 ---------- *)
Definition cb_safe_a {G} (cr : cb_result arule G) : Prop :=
  match cr with CbPanic s => site_is_own s = false | CbHang => False | _ => True end.

Lemma row_step_a64_safe rw first rg m : cb_safe_a (row_step_a64 rw first rg m).
Proof.
  unfold row_step_a64. destruct (translate_a64 rw); [exact I|].
  unfold generic_a64.
  repeat match goal with
         | |- context [match ?x with _ => _ end] => destruct x
         | |- context [if ?x then _ else _] => destruct x
         end; exact I.
Qed.

Lemma cb_a64_safe md first rel rg m : cb_safe_a (fst (cb_a64 md first rel rg m)).
Proof.
  unfold cb_a64. destruct (mdat md).
  - exact I.
  - apply (cb_dwarf_safe arule aregs cb_safe_a); [apply row_step_a64_safe | exact I | intros; exact I].
  - exact I.
  - apply (cb_macho_safe arule aregs cb_safe_a); [apply row_step_a64_safe | exact I | intros; exact I | intros; exact I].
Qed.

Lemma aexec_safe r first rg m : safe (fst (aexec r first rg m)).
Proof. apply returns_safe. apply aexec_total. Qed.

Theorem unwind_frame_a_safe u c a rg m :
  faddr_wf a = true -> safe (o_res _ _ (unwind_frame_a u c a rg m)).
Proof.
  intros Hwf. unfold unwind_frame_a, unwind_frame.
  assert (Hl : exists x, lookup_address a = Ok x).
  { destruct a as [x|x]; cbn [lookup_address faddr_wf] in *; [eexists; reflexivity|].
    unfold sub64p. destruct (1 <=? x) eqn:E; [eexists; reflexivity | lia]. }
  destruct Hl as [x ->].
  destruct (cache_lookup arule c x (gen _ u)) as [[r|slot] c1].
  - pose proof (aexec_safe r (negb (is_ra a)) rg m) as He.
    destruct (aexec r (negb (is_ra a)) rg m). exact He.
  - destruct (find_module_ok (mods _ u) x) as [r ->]. destruct r as [[md rel]|].
    + pose proof (cb_a64_safe md (negb (is_ra a)) rel rg m) as Hs.
      destruct (cb_a64 md (negb (is_ra a)) rel rg m) as [cr ef]. cbn [fst] in Hs.
      destruct cr; cbn [cb_safe_a] in Hs.
      * pose proof (aexec_safe r (negb (is_ra a)) rg m) as He.
        destruct (aexec r (negb (is_ra a)) rg m). exact He.
      * cbn. destruct (ra =? 0); exact I.
      * pose proof (aexec_safe afallback_rule (negb (is_ra a)) rg0 m) as He.
        destruct (aexec afallback_rule (negb (is_ra a)) rg0 m). exact He.
      * pose proof (aexec_safe afallback_rule (negb (is_ra a)) rg0 m) as He.
        destruct (aexec afallback_rule (negb (is_ra a)) rg0 m). exact He.
      * cbn. exact Hs.
      * contradiction.
    + pose proof (aexec_safe afallback_rule (negb (is_ra a)) rg m) as He.
      destruct (aexec afallback_rule (negb (is_ra a)) rg m). exact He.
Qed.

(* ---------- the same with "returns" in place of "safe" ---------- *)
Theorem unwind_frame_x_total_outside_dep u c a rg m :
  cache_ok c -> faddr_wf a = true ->
  match o_res _ _ (unwind_frame_x u c a rg m) with
  | Ok _ | Err _ => True
  | Panic s => s = S_pe_dep
  | Hang => False
  end.
Proof.
  intros Hc Hw. destruct (unwind_frame_x_safe u c a rg m Hc Hw) as [H _].
  destruct (o_res _ _ (unwind_frame_x u c a rg m)) as [x|e|s|]; cbn in H; auto.
  destruct s; try discriminate; reflexivity.
Qed.

Definition cb_ret_a {G} (cr : cb_result arule G) : Prop :=
  match cr with CbPanic _ | CbHang => False | _ => True end.

Lemma row_step_a64_ret rw first rg m : cb_ret_a (row_step_a64 rw first rg m).
Proof.
  unfold row_step_a64. destruct (translate_a64 rw); [exact I|].
  unfold generic_a64.
  repeat match goal with
         | |- context [match ?x with _ => _ end] => destruct x
         | |- context [if ?x then _ else _] => destruct x
         end; exact I.
Qed.

Lemma cb_a64_ret md first rel rg m : cb_ret_a (fst (cb_a64 md first rel rg m)).
Proof.
  unfold cb_a64. destruct (mdat md).
  - exact I.
  - apply (cb_dwarf_safe arule aregs cb_ret_a); [apply row_step_a64_ret | exact I | intros; exact I].
  - exact I.
  - apply (cb_macho_safe arule aregs cb_ret_a); [apply row_step_a64_ret | exact I | intros; exact I | intros; exact I].
Qed.

Theorem unwind_frame_a_returns u c a rg m :
  faddr_wf a = true -> returns (o_res _ _ (unwind_frame_a u c a rg m)) = true.
Proof.
  intros Hwf. unfold unwind_frame_a, unwind_frame.
  assert (Hl : exists x, lookup_address a = Ok x).
  { destruct a as [x|x]; cbn [lookup_address faddr_wf] in *; [eexists; reflexivity|].
    unfold sub64p. destruct (1 <=? x) eqn:E; [eexists; reflexivity | lia]. }
  destruct Hl as [x ->].
  destruct (cache_lookup arule c x (gen _ u)) as [[r|slot] c1].
  - pose proof (aexec_total r (negb (is_ra a)) rg m) as He.
    destruct (aexec r (negb (is_ra a)) rg m). exact He.
  - destruct (find_module_ok (mods _ u) x) as [r ->]. destruct r as [[md rel]|].
    + pose proof (cb_a64_ret md (negb (is_ra a)) rel rg m) as Hs.
      destruct (cb_a64 md (negb (is_ra a)) rel rg m) as [cr ef]. cbn [fst] in Hs.
      destruct cr; cbn [cb_ret_a] in Hs; try contradiction.
      * pose proof (aexec_total r (negb (is_ra a)) rg m) as He.
        destruct (aexec r (negb (is_ra a)) rg m). exact He.
      * cbn. destruct (ra =? 0); reflexivity.
      * pose proof (aexec_total afallback_rule (negb (is_ra a)) rg0 m) as He.
        destruct (aexec afallback_rule (negb (is_ra a)) rg0 m). exact He.
      * pose proof (aexec_total afallback_rule (negb (is_ra a)) rg0 m) as He.
        destruct (aexec afallback_rule (negb (is_ra a)) rg0 m). exact He.
    + pose proof (aexec_total afallback_rule (negb (is_ra a)) rg m) as He.
      destruct (aexec afallback_rule (negb (is_ra a)) rg m). exact He.
Qed.
