(* RegOrderFacts.v - register_ordering.rs: decode (encode l) = l for every duplicate-free list over
   the table, encodings stay below 8! = 40320 (so decode's r % n never meets n = 0).
   Proved by complete enumeration (109601 arrangements, vm_compute) lifted with a completeness
   lemma for the enumeration. *)
From FH Require Import Consts Word X86 X86Exec.
From Coq Require Import Lia.
Open Scope N_scope.

(* the table in the source is the table of the model (regenerated Consts.v) *)
Definition regname_of (r : reg) : regname :=
  match r with
  | RAX => N_RAX | RDX => N_RDX | RCX => N_RCX | RBX => N_RBX | RSI => N_RSI | RDI => N_RDI
  | RBP => N_RBP | RSP => N_RSP | R8 => N_R8 | R9 => N_R9 | R10 => N_R10 | R11 => N_R11
  | R12 => N_R12 | R13 => N_R13 | R14 => N_R14 | R15 => N_R15
  end.

Lemma table_matches_source : map regname_of ENCODE_REGISTERS = SRC_ENCODE_REGISTERS.
Proof. reflexivity. Qed.

Lemma reg_order_matches_source : map regname_of all_regs = SRC_REG_ORDER.
Proof. reflexivity. Qed.

Lemma reg_eq_dec (a b : reg) : {a = b} + {a <> b}.
Proof. decide equality. Defined.

Lemma reg_eqb_eq a b : reg_eqb a b = true <-> a = b.
Proof. destruct a, b; cbn; split; intros H; try reflexivity; try discriminate. Qed.

(* all duplicate-free lists of length n drawn from pool *)
Fixpoint arr (n : nat) (pool : list reg) : list (list reg) :=
  match n with
  | O => [[]]
  | S k => flat_map (fun x => map (cons x) (arr k (remove reg_eq_dec x pool))) pool
  end.

Lemma arr_complete l : forall pool, NoDup l -> incl l pool -> In l (arr (length l) pool).
Proof.
  induction l as [|x t IH]; intros pool Hnd Hin; cbn [length arr]; [now left|].
  inversion Hnd as [|? ? Hx Ht]; subst.
  apply in_flat_map. exists x. split; [apply Hin; now left|].
  apply in_map. apply IH; [exact Ht|].
  intros y Hy. apply in_in_remove; [intros ->; contradiction | apply Hin; now right].
Qed.

Definition list_reg_eqb (a b : list reg) : bool :=
  Nat.eqb (length a) (length b) && forallb (fun p => reg_eqb (fst p) (snd p)) (combine a b).

Lemma list_reg_eqb_eq a : forall b, list_reg_eqb a b = true -> a = b.
Proof.
  unfold list_reg_eqb. induction a as [|x a IH]; intros [|y b]; cbn; try discriminate; [reflexivity|].
  intros H. apply andb_prop in H. destruct H as [Hl H]. apply andb_prop in H. destruct H as [Hxy H].
  apply reg_eqb_eq in Hxy. subst. f_equal. apply IH. rewrite Hl, H. reflexivity.
Qed.

Definition roundtrip_ok (l : list reg) : bool :=
  match encode l with
  | Some (Ok (c, e)) =>
    (c =? N.of_nat (length l)) && (e <? 40320) &&
    match decode c e with Ok l' => list_reg_eqb l' l | _ => false end
  | _ => false
  end.

Definition all_arrangements : list (list reg) :=
  flat_map (fun n => arr n ENCODE_REGISTERS) [0; 1; 2; 3; 4; 5; 6; 7; 8]%nat.

Lemma all_roundtrip : forallb roundtrip_ok all_arrangements = true.
Proof. vm_compute. reflexivity. Qed.

Lemma nodup_incl_length (l : list reg) : NoDup l -> incl l ENCODE_REGISTERS -> (length l <= 8)%nat.
Proof. intros Hnd Hin. apply (NoDup_incl_length Hnd Hin). Qed.

Theorem encode_decode_roundtrip l :
  NoDup l -> incl l ENCODE_REGISTERS ->
  exists e, encode l = Some (Ok (N.of_nat (length l), e)) /\ e < 40320 /\
            decode (N.of_nat (length l)) e = Ok l.
Proof.
  intros Hnd Hin.
  assert (Hmem : In l all_arrangements).
  { unfold all_arrangements. apply in_flat_map. exists (length l). split.
    - pose proof (nodup_incl_length l Hnd Hin) as Hlen.
      destruct (length l) as [|[|[|[|[|[|[|[|[|n]]]]]]]]]; cbn; auto 10. lia.
    - apply arr_complete; assumption. }
  pose proof all_roundtrip as H. rewrite forallb_forall in H. specialize (H l Hmem).
  unfold roundtrip_ok in H.
  destruct (encode l) as [[[c e]| | |]|] eqn:Ee; try discriminate.
  apply andb_prop in H. destruct H as [H Hd]. apply andb_prop in H. destruct H as [Hc He].
  apply N.eqb_eq in Hc. apply N.ltb_lt in He. subst c.
  destruct (decode (N.of_nat (length l)) e) as [l'| | |] eqn:Ed; try discriminate.
  apply list_reg_eqb_eq in Hd. subst l'. exists e. split; [reflexivity | split; [exact He | exact Ed]].
Qed.

(* ---------- the converse: encode succeeds only on duplicate-free lists over the table ---------- *)
Lemma nth_opt_nth_error {A} (l : list A) n : nth_opt l n = nth_error l n.
Proof. revert n; induction l as [|a l IH]; intros [|n]; cbn; auto. Qed.

Definition has_nth {A} (l : list A) (n : nat) : bool :=
  match nth_error l n with Some _ => true | None => false end.

Lemma set_nth_nth {A} (l : list A) : forall n v k,
  nth_error (set_nth l n v) k = if Nat.eqb k n then (if has_nth l n then Some v else None) else nth_error l k.
Proof.
  induction l as [|a l IH]; intros n v k.
  - destruct n, k; cbn; try reflexivity. destruct (Nat.eqb k n); reflexivity.
  - destruct n as [|n], k as [|k]; cbn [set_nth nth_error Nat.eqb]; try reflexivity.
    rewrite IH. reflexivity.
Qed.

(* l[from..].swap(i, 0) exchanges positions from and from+i *)
Lemma swap_tail_nth {A} (l : list A) from i l' :
  swap_tail l from i = Some l' ->
  length l' = length l /\
  forall k, nth_error l' k =
    if Nat.eqb k (from + i) then nth_error l from
    else if Nat.eqb k from then nth_error l (from + i) else nth_error l k.
Proof.
  unfold swap_tail. rewrite !nth_opt_nth_error.
  destruct (nth_error l from) as [a|] eqn:Ea; [|discriminate].
  destruct (nth_error l (from + i)) as [b|] eqn:Eb; [|discriminate].
  intros H; inversion H; subst. split; [rewrite !set_nth_length; reflexivity|].
  assert (Hf : (from < length l)%nat) by (apply nth_error_Some; congruence).
  assert (Hfi : (from + i < length l)%nat) by (apply nth_error_Some; congruence).
  assert (H1 : has_nth l from = true) by (unfold has_nth; rewrite Ea; reflexivity).
  assert (H2 : has_nth (set_nth l from b) (from + i) = true).
  { unfold has_nth. destruct (nth_error (set_nth l from b) (from + i)) eqn:E; [reflexivity|].
    apply nth_error_None in E. rewrite set_nth_length in E. lia. }
  intros k. rewrite set_nth_nth, H2.
  destruct (Nat.eqb k (from + i)) eqn:E1; [reflexivity|].
  rewrite set_nth_nth, H1. destruct (Nat.eqb k from) eqn:E2; reflexivity.
Qed.

Lemma position_some x (l : list reg) k : position reg_eqb x l = Some k -> nth_error l k = Some x.
Proof.
  revert k. induction l as [|y t IH]; intros k; cbn [position]; [discriminate|].
  destruct (reg_eqb y x) eqn:E.
  - intros H; inversion H; subst. apply reg_eqb_eq in E. subst. reflexivity.
  - destruct (position reg_eqb x t); [|discriminate]. intros H; inversion H; subst. cbn. apply IH. reflexivity.
Qed.

Lemma nth_error_skipn {A} (l : list A) i k : nth_error (skipn i l) k = nth_error l (i + k).
Proof. revert l; induction i as [|i IH]; intros [|a l]; cbn; auto. destruct k; reflexivity. Qed.

Lemma firstn_ext {A} n : forall (l1 l2 : list A),
  (forall k, (k < n)%nat -> nth_error l1 k = nth_error l2 k) -> firstn n l1 = firstn n l2.
Proof.
  induction n as [|n IH]; intros l1 l2 H; [reflexivity|].
  pose proof (H 0%nat ltac:(lia)) as H0.
  destruct l1 as [|a l1], l2 as [|b l2]; cbn in *; try discriminate; [reflexivity|].
  inversion H0; subst. f_equal. apply IH. intros k Hk. apply (H (S k)). lia.
Qed.

Lemma firstn_S_nth {A} (l : list A) n x : nth_error l n = Some x -> firstn (S n) l = firstn n l ++ [x].
Proof.
  revert l. induction n as [|n IH]; intros [|a l] H; cbn in *; try discriminate.
  - inversion H; reflexivity.
  - f_equal. apply IH. exact H.
Qed.

Lemma NoDup_app_l {A} (l1 l2 : list A) : NoDup (l1 ++ l2) -> NoDup l1.
Proof.
  induction l1 as [|a l1 IH]; cbn; intros H; [constructor|].
  inversion H as [|? ? Ha Hn]; subst. constructor; [|apply IH; exact Hn].
  intros Hin. apply Ha. apply in_or_app. now left.
Qed.

Lemma firstn_In {A} n : forall (l : list A) y, In y (firstn n l) -> In y l.
Proof.
  induction n as [|n IH]; intros [|a l] y; cbn; try tauto.
  intros [->|H]; [now left | right; apply IH; exact H].
Qed.

(* invariant of the encoding loop: [order] is duplicate-free over the table and its first i
   entries are the registers chosen so far *)
Lemma encode_loop_inv rs : forall i order r scale R chosen,
  NoDup order -> incl order ENCODE_REGISTERS -> length order = 8%nat ->
  firstn i order = chosen -> length chosen = i ->
  encode_loop rs i order r scale = Some (Ok R) ->
  NoDup (chosen ++ rs) /\ incl (chosen ++ rs) ENCODE_REGISTERS.
Proof.
  induction rs as [|x t IH]; intros i order r scale R chosen Hnd Hin Hlen Hfirst Hcl; cbn [encode_loop].
  - intros _. rewrite app_nil_r. subst chosen. split.
    + rewrite <- (firstn_skipn i order) in Hnd. apply NoDup_app_l in Hnd. exact Hnd.
    + intros y Hy. apply Hin. apply (firstn_In i order y Hy).
  - destruct (position reg_eqb x (skipn i order)) as [idx|] eqn:Ep; [|discriminate].
    apply position_some in Ep. rewrite nth_error_skipn in Ep.
    destruct (if Nat.eqb idx 0 then Some order else swap_tail order i idx) as [order'|] eqn:Es; [|discriminate].
    destruct ((N.of_nat idx * scale <? W16) && (r + N.of_nat idx * scale <? W16) && (scale * (8 - N.of_nat i) <? W16)); [|discriminate].
    intros Hrec.
    assert (Hord : length order' = 8%nat /\ forall k, nth_error order' k =
              if Nat.eqb k (i + idx) then nth_error order i
              else if Nat.eqb k i then nth_error order (i + idx) else nth_error order k).
    { destruct (Nat.eqb idx 0) eqn:E0.
      - inversion Es; subst. apply Nat.eqb_eq in E0. subst idx. rewrite Nat.add_0_r. split; [exact Hlen|].
        intros k. destruct (Nat.eqb k i) eqn:Ek; [apply Nat.eqb_eq in Ek; subst; reflexivity | reflexivity].
      - destruct (swap_tail_nth order i idx order' Es) as [Hl Hn]. split; [congruence | exact Hn]. }
    destruct Hord as [Hlen' Hnth'].
    assert (Hi : (i + idx < 8)%nat) by (rewrite <- Hlen; apply nth_error_Some; congruence).
    assert (Hperm_in : forall y, In y order' -> In y order).
    { intros y Hy. apply In_nth_error in Hy. destruct Hy as [k Hk]. rewrite Hnth' in Hk.
      destruct (Nat.eqb k (i + idx)); [eapply nth_error_In; exact Hk|].
      destruct (Nat.eqb k i); eapply nth_error_In; exact Hk. }
    assert (Hnd' : NoDup order').
    { apply NoDup_nth_error. intros a b Ha Hab. rewrite Hlen' in Ha.
      pose proof Hnd as Hnd0. rewrite NoDup_nth_error in Hnd0.
      assert (Hb : (b < 8)%nat).
      { rewrite <- Hlen'. apply nth_error_Some. rewrite <- Hab. apply nth_error_Some. lia. }
      rewrite !Hnth' in Hab.
      set (tau := fun k => if Nat.eqb k (i + idx) then i else if Nat.eqb k i then (i + idx)%nat else k).
      assert (Ht : forall k, (if Nat.eqb k (i + idx) then nth_error order i
                  else if Nat.eqb k i then nth_error order (i + idx) else nth_error order k) = nth_error order (tau k)).
      { intros k. unfold tau. destruct (Nat.eqb k (i + idx)); [reflexivity|]. destruct (Nat.eqb k i); reflexivity. }
      rewrite !Ht in Hab.
      assert (Hta : (tau a < length order)%nat).
      { unfold tau. destruct (Nat.eqb a (i + idx)); [lia|]. destruct (Nat.eqb a i); lia. }
      specialize (Hnd0 (tau a) (tau b) Hta Hab).
      unfold tau in Hnd0.
      destruct (Nat.eqb a (i + idx)) eqn:A1; destruct (Nat.eqb b (i + idx)) eqn:B1;
        destruct (Nat.eqb a i) eqn:A2; destruct (Nat.eqb b i) eqn:B2;
        repeat match goal with H : Nat.eqb _ _ = true |- _ => apply Nat.eqb_eq in H
                              | H : Nat.eqb _ _ = false |- _ => apply Nat.eqb_neq in H end; lia. }
    assert (Hxi : nth_error order' i = Some x).
    { rewrite Hnth'. destruct (Nat.eqb i (i + idx)) eqn:E.
      - apply Nat.eqb_eq in E. assert (idx = 0)%nat by lia. subst idx. rewrite Nat.add_0_r in Ep. exact Ep.
      - rewrite Nat.eqb_refl. exact Ep. }
    assert (Hfirst' : firstn (S i) order' = chosen ++ [x]).
    { rewrite (firstn_S_nth order' i x Hxi). f_equal. rewrite <- Hfirst. apply firstn_ext.
      intros k Hk. rewrite Hnth'.
      destruct (Nat.eqb k (i + idx)) eqn:E1; [apply Nat.eqb_eq in E1; lia|].
      destruct (Nat.eqb k i) eqn:E2; [apply Nat.eqb_eq in E2; lia | reflexivity]. }
    assert (IH' := IH (S i) order' (r + N.of_nat idx * scale) (scale * (8 - N.of_nat i)) R (chosen ++ [x])
                     Hnd' (fun y Hy => Hin y (Hperm_in y Hy)) Hlen' Hfirst').
    rewrite app_length, Hcl in IH'. cbn [length] in IH'. rewrite Nat.add_1_r in IH'.
    specialize (IH' eq_refl Hrec). rewrite <- app_assoc in IH'. exact IH'.
Qed.

Theorem encode_some_wf l c e : encode l = Some (Ok (c, e)) -> NoDup l /\ incl l ENCODE_REGISTERS.
Proof.
  unfold encode. destruct (Nat.ltb 8 (length l)); [discriminate|].
  destruct (encode_loop l 0 ENCODE_REGISTERS 0 1) as [[R| | |]|] eqn:E; try discriminate.
  intros _.
  apply (encode_loop_inv l 0 ENCODE_REGISTERS 0 1 R []); try reflexivity; try exact E.
  - repeat constructor; cbn; intuition discriminate.
  - apply incl_refl.
Qed.

(* together: encode succeeds exactly on duplicate-free lists over the table, and decode inverts it *)
Theorem encode_decode l c e : encode l = Some (Ok (c, e)) ->
  c = N.of_nat (length l) /\ e < 40320 /\ decode c e = Ok l.
Proof.
  intros H. destruct (encode_some_wf l c e H) as [Hnd Hin].
  destruct (encode_decode_roundtrip l Hnd Hin) as (e' & He & Hlt & Hd).
  rewrite H in He. inversion He; subst. auto.
Qed.

(* ---------- encode never panics: the u16 arithmetic cannot overflow for at most 8 registers ---------- *)
Fixpoint ff (i : nat) : N := match i with O => 1 | S k => ff k * (8 - N.of_nat k) end.

Lemma ff_bound i : (i <= 8)%nat -> ff i <= 40320.
Proof.
  intros H. do 9 (destruct i as [|i]; [vm_compute; discriminate|]). lia.
Qed.

Lemma position_lt x (l : list reg) k : position reg_eqb x l = Some k -> (k < length l)%nat.
Proof. intros H. apply position_some in H. apply nth_error_Some. congruence. Qed.

Lemma encode_loop_ok rs : forall i order r scale,
  length order = 8%nat -> (i + length rs <= 8)%nat -> scale = ff i -> r < scale ->
  match encode_loop rs i order r scale with
  | Some (Ok R) => R < ff (i + length rs)
  | None => True
  | _ => False
  end.
Proof.
  induction rs as [|x t IH]; intros i order r scale Hlen Hi Hs Hr; cbn [encode_loop length].
  - rewrite Nat.add_0_r. subst. exact Hr.
  - destruct (position reg_eqb x (skipn i order)) as [idx|] eqn:Ep; [|exact I].
    apply position_lt in Ep. rewrite skipn_length, Hlen in Ep.
    assert (Hsw : exists order', (if Nat.eqb idx 0 then Some order else swap_tail order i idx) = Some order' /\ length order' = 8%nat).
    { destruct (Nat.eqb idx 0); [eauto|].
      destruct (swap_tail_ok order i idx) as [o' [H1 H2]]; [lia|]. exists o'. split; [exact H1 | congruence]. }
    destruct Hsw as [order' [Hsw Hlen']]. rewrite Hsw.
    assert (Hff : ff (S i) <= 40320) by (apply ff_bound; cbn [length] in Hi; lia).
    cbn [ff] in Hff. subst scale.
    assert (Hidx : N.of_nat idx <= 7 - N.of_nat i) by lia.
    assert (Hsc : ff i * (8 - N.of_nat i) < W16) by (unfold W16; lia).
    assert (Hp : N.of_nat idx * ff i <= (7 - N.of_nat i) * ff i) by (apply N.mul_le_mono_r; exact Hidx).
    assert (Hexp : (7 - N.of_nat i) * ff i + ff i = ff i * (8 - N.of_nat i)).
    { cbn [length] in Hi. replace (8 - N.of_nat i) with ((7 - N.of_nat i) + 1) by lia. lia. }
    assert (Hr' : r + N.of_nat idx * ff i < ff i * (8 - N.of_nat i)) by lia.
    destruct (N.of_nat idx * ff i <? W16) eqn:E1; [|unfold W16 in *; lia].
    destruct (r + N.of_nat idx * ff i <? W16) eqn:E2; [|unfold W16 in *; lia].
    destruct (ff i * (8 - N.of_nat i) <? W16) eqn:E3; [|lia].
    cbn [andb].
    specialize (IH (S i) order' (r + N.of_nat idx * ff i) (ff i * (8 - N.of_nat i)) Hlen').
    cbn [length] in Hi. replace (i + S (length t))%nat with (S i + length t)%nat by lia.
    apply IH; [lia | reflexivity | exact Hr'].
Qed.

Theorem encode_never_panics l : match encode l with Some (Ok _) | None => True | _ => False end.
Proof.
  unfold encode. destruct (Nat.ltb 8 (length l)) eqn:E; [exact I|].
  apply Nat.ltb_ge in E.
  pose proof (encode_loop_ok l 0 ENCODE_REGISTERS 0 1 eq_refl) as H. cbn [Nat.add] in H.
  specialize (H E eq_refl ltac:(lia)).
  destruct (encode_loop l 0 ENCODE_REGISTERS 0 1) as [[R| | |]|]; try contradiction; exact I.
Qed.
