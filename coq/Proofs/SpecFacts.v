(* SpecFacts.v - inversion of the DWARF specification step, shared by both architectures. *)
From FH Require Import Word DwarfRow DwarfSpec WordFacts.
From Coq Require Import Lia ZifyBool ZifyN.
Open Scope N_scope.

Lemma adds64c_zadd a z : a < W64 -> in_i64 z = true -> adds64c a z = zadd a z.
Proof. intros Ha Hz. rewrite adds64c_spec by assumption. reflexivity. Qed.

Lemma zadd_some a z r : zadd a z = Some r -> (Z.of_N r = Z.of_N a + z)%Z /\ r < W64.
Proof.
  unfold zadd. destruct ((0 <=? Z.of_N a + z)%Z && (Z.of_N a + z <? Z.of_N W64)%Z) eqn:E; [|discriminate].
  intros H; inversion H; subst. unfold W64 in *. lia.
Qed.

Definition fp_ok (rw : row) (m : mem) (cfa fpv fp' : N) : Prop :=
  match r_fp rw with
  | ROffset o => obind (zadd cfa o) m = Some fp'
  | RSameValue | RUndefined => fp' = fpv
  | _ => False
  end.

Definition ra_ok (rw : row) (m : mem) (cfa rav ra : N) : Prop :=
  match r_ra rw with
  | ROffset o => obind (zadd cfa o) m = Some ra
  | RSameValue => ra = rav
  | _ => False
  end.

Lemma spec_shape sp_r fp_r spv fpv rav rw m ra cfa fp' :
  spec_step sp_r fp_r spv fpv rav rw m = Some (Some ra, cfa, fp') ->
  exists cr off b,
    r_cfa rw = CfaRegOff cr off /\
    (if cr =? sp_r then Some spv else if cr =? fp_r then Some fpv else None) = Some b /\
    zadd b off = Some cfa /\ fp_ok rw m cfa fpv fp' /\ ra_ok rw m cfa rav ra.
Proof.
  unfold spec_step, fp_ok, ra_ok.
  destruct (r_ra rw); try discriminate.
  all: destruct (r_cfa rw) as [cr off|]; try discriminate.
  all: destruct (if cr =? sp_r then Some spv else if cr =? fp_r then Some fpv else None) as [b|] eqn:Eb;
       cbn [obind]; try discriminate.
  all: destruct (zadd b off) as [cfa0|] eqn:Ez; cbn [obind]; try discriminate.
  all: try (destruct (r_fp rw); try discriminate;
            match goal with |- context[obind ?a ?b] => destruct (obind a b) end; discriminate).
  - (* RSameValue *)
    destruct (r_fp rw); try discriminate.
    + intros H; inversion H; subst. exists cr, off, b. repeat split; auto.
    + intros H; inversion H; subst. exists cr, off, b. repeat split; auto.
    + destruct (obind (zadd cfa0 z) m) eqn:Ef; [|discriminate].
      intros H; inversion H; subst. exists cr, off, b. repeat split; auto.
  - (* ROffset *)
    destruct (r_fp rw); try discriminate.
    + destruct (obind (zadd cfa0 z) m) eqn:Er; [|discriminate].
      intros H; inversion H; subst. exists cr, off, b. repeat split; auto.
    + destruct (obind (zadd cfa0 z) m) eqn:Er; [|discriminate].
      intros H; inversion H; subst. exists cr, off, b. repeat split; auto.
    + destruct (obind (zadd cfa0 z0) m) eqn:Ef; [|discriminate].
      destruct (obind (zadd cfa0 z) m) eqn:Er; [|discriminate].
      intros H; inversion H; subst. exists cr, off, b. repeat split; auto.
Qed.

Lemma spec_end sp_r fp_r spv fpv rav rw m cfa fp' :
  spec_step sp_r fp_r spv fpv rav rw m = Some (None, cfa, fp') -> r_ra rw = RUndefined.
Proof.
  unfold spec_step. destruct (r_ra rw); try reflexivity.
  all: destruct (r_cfa rw) as [cr off|]; try discriminate.
  all: destruct (if cr =? sp_r then Some spv else if cr =? fp_r then Some fpv else None) as [b|];
       cbn [obind]; try discriminate.
  all: destruct (zadd b off) as [cfa0|]; cbn [obind]; try discriminate.
  all: destruct (r_fp rw); try discriminate.
  all: repeat match goal with |- context[match ?x with Some _ => _ | None => _ end] => destruct x end; discriminate.
Qed.
