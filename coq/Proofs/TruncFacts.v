(* TruncFacts.v - C11(c): reading from a truncated stack. If [m1] is [m2] with some reads failing
   (mem_le), a rule executed on m1 either reports Err(CouldNotReadStack x) for an address x that m1
   cannot read, or returns exactly what it returns on m2. *)
From FH Require Import Consts Word X86 A64 Unwinder WordFacts X86Exec A64Exec.
From Coq Require Import Lia ZifyBool ZifyN.
Open Scope N_scope.
Arguments N.add : simpl never.
Arguments N.sub : simpl never.
Arguments N.mul : simpl never.
Arguments N.eqb : simpl never.
Arguments N.ltb : simpl never.
Arguments N.leb : simpl never.
Arguments N.land : simpl never.

Definition mem_le (m1 m2 : mem) : Prop := forall a v, m1 a = Some v -> m2 a = Some v.

(* the readable window cut at [cut]: reads at or above the cut fail *)
Definition mem_cut (m : mem) (cut : N) : mem := fun a => if cut <=? a then None else m a.

Lemma mem_cut_le m cut : mem_le (mem_cut m cut) m.
Proof. intros a v. unfold mem_cut. destruct (cut <=? a); [discriminate | auto]. Qed.

Lemma mem_cut_unreadable m cut a : mem_cut m cut a = None -> m a = None \/ cut <= a.
Proof. unfold mem_cut. destruct (cut <=? a) eqn:E; [right; lia | left; assumption]. Qed.

Lemma mem_cut_below m cut a : a < cut -> mem_cut m cut a = m a.
Proof. intros H. unfold mem_cut. destruct (cut <=? a) eqn:E; [lia | reflexivity]. Qed.

Definition trunc_ok {R} (r1 : res (option N) * R) (r2 : res (option N) * R) (m1 : mem) : Prop :=
  match fst r1 with
  | Err (CouldNotReadStack x) => m1 x = None
  | _ => r1 = r2
  end.

(* ---------- x86_64 ---------- *)
Lemma exec_tail_trunc m1 m2 osp rg ns nb :
  mem_le m1 m2 ->
  trunc_ok (exec_tail ra_addr_checked osp rg m1 ns nb) (exec_tail ra_addr_checked osp rg m2 ns nb) m1.
Proof.
  intros Hle. unfold trunc_ok, exec_tail, ra_addr_checked, ok_or.
  destruct (sub64c ns 8) as [a|]; cbn; [|reflexivity].
  destruct (m1 a) as [v|] eqn:E1; cbn; [|exact E1].
  rewrite (Hle _ _ E1).
  destruct (v =? 0); [reflexivity|]. destruct ((ns =? osp) && (v =? ip rg)); reflexivity.
Qed.

Lemma pop_loop_trunc m1 m2 l : mem_le m1 m2 -> forall s rg,
  match pop_loop l s rg m1 with
  | (Err (CouldNotReadStack x), _) => m1 x = None
  | r => pop_loop l s rg m2 = r
  end.
Proof.
  intros Hle. induction l as [|r t IH]; intros s rg; cbn [pop_loop]; [reflexivity|].
  destruct (m1 s) as [v|] eqn:E1; [|exact E1]. rewrite (Hle _ _ E1).
  destruct (add64c s 8); [apply IH | reflexivity].
Qed.

Theorem exec_x_trunc m1 m2 ru first rg :
  mem_le m1 m2 -> (first = true -> forall a, a < sp rg -> m1 a = m2 a) ->
  trunc_ok (exec ra_addr_checked ru first rg m1) (exec ra_addr_checked ru first rg m2) m1.
Proof.
  intros Hle Hbelow.
  assert (T := fun osp rg0 ns nb => exec_tail_trunc m1 m2 osp rg0 ns nb Hle).
  destruct ru; cbn [exec].
  - reflexivity.
  - destruct (add64c (sp rg) 8); [apply T | reflexivity].
  - destruct first.
    + destruct (add64c (sp rg) 8); [apply T | reflexivity].
    + destruct (bp rg =? 0); [reflexivity|].
      destruct (add64c (bp rg) 16); [|reflexivity].
      destruct (n <=? sp rg); [reflexivity|].
      destruct (m1 (bp rg)) as [v|] eqn:E1; [rewrite (Hle _ _ E1); apply T | exact E1].
  - destruct (add64c (sp rg) (k * 8)); [apply T | reflexivity].
  - destruct (add64c (sp rg) (k * 8)); [|reflexivity].
    destruct (adds64c (sp rg) (y * 8)) as [loc|]; [|reflexivity].
    destruct (m1 loc) as [v|] eqn:E1.
    + rewrite (Hle _ _ E1). apply T.
    + destruct (first && (loc <? sp rg)) eqn:Ef.
      * assert (Hl : loc < sp rg) by lia. assert (Hf : first = true) by (destruct first; [reflexivity | discriminate]).
        rewrite <- (Hbelow Hf loc Hl), E1. apply T.
      * unfold trunc_ok. cbn. exact E1.
  - destruct (bp rg =? 0); [reflexivity|].
    destruct (add64c (bp rg) 16); [|reflexivity].
    destruct (n <=? sp rg); [reflexivity|].
    destruct (m1 (bp rg)) as [v|] eqn:E1; [rewrite (Hle _ _ E1); apply T | exact E1].
  - destruct (add64c (sp rg) (k * 8)); [|reflexivity].
    pose proof (decode_not_err cnt enc) as Hne.
    destruct (decode cnt enc) as [a|e|st|]; try reflexivity; [|exfalso; eapply Hne; reflexivity].
    pose proof (pop_loop_trunc m1 m2 a Hle n rg) as Hp.
    destruct (pop_loop a n rg m1) as [r rg2] eqn:E1.
    destruct r as [s2|e|st|].
    + rewrite Hp. destruct (add64c s2 8); [apply T | reflexivity].
    + destruct e; try (rewrite Hp; reflexivity). unfold trunc_ok. cbn. exact Hp.
    + rewrite Hp. reflexivity.
    + rewrite Hp. reflexivity.
Qed.

(* ---------- aarch64 ---------- *)
Lemma aexec_tail_trunc first rg nl ns nf m1 :
  trunc_ok (aexec_tail first rg nl ns nf) (aexec_tail first rg nl ns nf) m1.
Proof.
  unfold trunc_ok, aexec_tail. destruct (strip (mask rg) nl =? 0); [reflexivity|].
  destruct (negb first && (ns =? asp rg)); reflexivity.
Qed.

Theorem aexec_trunc m1 m2 ru first rg :
  mem_le m1 m2 ->
  trunc_ok (aexec ru first rg m1) (aexec ru first rg m2) m1.
Proof.
  intros Hle.
  assert (T := fun f0 nl ns nf => aexec_tail_trunc f0 rg nl ns nf m1).
  destruct ru; cbn [aexec].
  - destruct (negb first); [reflexivity | apply T].
  - destruct first; [apply T|].
    destruct (add64c (afp rg) 16); [|reflexivity].
    unfold add64p. destruct (afp rg + 8 <? W64); [|reflexivity].
    destruct (m1 (afp rg + 8)) as [v|] eqn:E1; [rewrite (Hle _ _ E1) | exact E1].
    destruct (m1 (afp rg)) as [w|] eqn:E2; [rewrite (Hle _ _ E2) | exact E2].
    destruct (w =? 0); [reflexivity|]. destruct (n <=? asp rg); [reflexivity | apply T].
  - destruct (negb first); [reflexivity|].
    destruct (add64c (asp rg) (k * 16)); [apply T | reflexivity].
  - destruct (negb first); [reflexivity|].
    destruct (add64c (asp rg) (k * 16)); [apply T | reflexivity].
  - destruct (add64c (asp rg) (k * 16)); [|reflexivity].
    destruct (adds64c (asp rg) (l * 8)) as [ll|]; [|reflexivity].
    destruct (m1 ll) as [v|] eqn:E1; [rewrite (Hle _ _ E1); apply T | exact E1].
  - destruct (add64c (asp rg) (k * 16)); [|reflexivity].
    destruct (adds64c (asp rg) (l * 8)) as [ll|]; [|reflexivity].
    destruct (m1 ll) as [v|] eqn:E1; [rewrite (Hle _ _ E1) | exact E1].
    destruct (adds64c (asp rg) (f * 8)) as [fl|]; [|reflexivity].
    destruct (m1 fl) as [w|] eqn:E2; [rewrite (Hle _ _ E2); apply T | exact E2].
  - destruct (add64c (afp rg) 16); [|reflexivity].
    unfold add64p. destruct (afp rg + 8 <? W64); [|reflexivity].
    destruct (m1 (afp rg + 8)) as [v|] eqn:E1; [rewrite (Hle _ _ E1) | exact E1].
    destruct (m1 (afp rg)) as [w|] eqn:E2; [rewrite (Hle _ _ E2) | exact E2].
    destruct (w =? 0); [reflexivity|]. destruct ((w <=? afp rg) || (n <=? asp rg)); [reflexivity | apply T].
  - destruct (add64c (afp rg) (k * 8)); [|reflexivity].
    destruct (adds64c (afp rg) (l * 8)) as [ll|]; [|reflexivity].
    destruct (m1 ll) as [v|] eqn:E1; [rewrite (Hle _ _ E1) | exact E1].
    destruct (adds64c (afp rg) (f * 8)) as [fl|]; [|reflexivity].
    destruct (m1 fl) as [w|] eqn:E2; [rewrite (Hle _ _ E2) | exact E2].
    destruct (w =? 0); [reflexivity|]. destruct ((w <=? afp rg) || (n <=? asp rg)); [reflexivity | apply T].
Qed.
