(* FpChain.v - C04, third clause: a frame-pointer chain that ends in the architecture's null
   marker is walked completely and completes with Ok(None). *)
From FH Require Import Consts Word X86 A64 Unwinder WordFacts X86Exec A64Exec A64Walk.
From Coq Require Import Lia ZifyBool ZifyN ZifyNat.
Open Scope N_scope.
Arguments N.add : simpl never.
Arguments N.eqb : simpl never.
Arguments N.ltb : simpl never.
Arguments N.leb : simpl never.
Arguments N.land : simpl never.
Arguments exec : simpl never.
Arguments aexec : simpl never.

(* ---------- x86_64: [bp] -> caller bp, [bp+8] -> return address; the chain ends when bp = 0 ---------- *)
Inductive chain_x (m : mem) : N -> list N -> Prop :=
| chain_x_end : chain_x m 0 []
| chain_x_cons b nb ra t :
    b <> 0 -> b + 16 < W64 -> m b = Some nb -> m (b + 8) = Some ra -> ra <> 0 ->
    (nb = 0 \/ b < nb) -> chain_x m nb t -> chain_x m b (ra :: t).

(* repeated execution of the frame pointer rule: the frames it yields and how it stops *)
Fixpoint fp_walk_x (m : mem) (first : bool) (fuel : nat) (rg : regs) : list N * res (option N) :=
  match fuel with
  | O => ([], Hang)
  | S f =>
    match exec ra_addr_checked UseFramePointer first rg m with
    | (Ok (Some ra), rg') => let '(l, r) := fp_walk_x m false f rg' in (ra :: l, r)
    | (r, _) => ([], r)
    end
  end.

Lemma fp_walk_x_S m first f rg :
  fp_walk_x m first (S f) rg =
    match exec ra_addr_checked UseFramePointer first rg m with
    | (Ok (Some ra), rg') => let '(l, r) := fp_walk_x m false f rg' in (ra :: l, r)
    | (r, _) => ([], r)
    end.
Proof. reflexivity. Qed.

Theorem fp_chain_walk_x m ras : forall first rg,
  chain_x m (bp rg) ras -> (bp rg = 0 \/ sp rg < bp rg + 16) ->
  fp_walk_x m first (S (length ras)) rg = (ras, Ok None).
Proof.
  induction ras as [|ra t IH]; intros first rg Hc Hsp; cbn [length]; rewrite fp_walk_x_S.
  - inversion Hc as [Hb|]; subst. rewrite fp_rule_null_end by (symmetry; assumption). reflexivity.
  - inversion Hc as [|b nb ra' t' Hb Hlt Hm Hr Hnz Hinc Ht]; subst.
    destruct Hsp as [Hz|Hsp]; [congruence|].
    rewrite (fp_rule_semantics first rg m ra nb) by assumption.
    specialize (IH false (set_bp (set_sp (set_ip rg ra) (bp rg + 16)) nb)).
    rewrite bp_final, sp_final in IH.
    rewrite IH; [reflexivity | exact Ht | destruct Hinc; [left; assumption | right; lia]].
Qed.

(* ---------- aarch64: [fp] -> caller fp, [fp+8] -> lr; the chain ends when the SAVED fp is 0,
   and that last record's lr is not reported ---------- *)
Inductive chain_a (m : mem) (k : N) : N -> list N -> Prop :=
| chain_a_last f nl : f + 16 < W64 -> m f = Some 0 -> m (f + 8) = Some nl -> chain_a m k f []
| chain_a_cons f nf nl t :
    f + 16 < W64 -> m f = Some nf -> nf <> 0 -> f < nf -> m (f + 8) = Some nl ->
    strip k nl <> 0 -> chain_a m k nf t -> chain_a m k f (strip k nl :: t).

Fixpoint fp_walk_a (m : mem) (first : bool) (fuel : nat) (rg : aregs) : list N * res (option N) :=
  match fuel with
  | O => ([], Hang)
  | S f =>
    match aexec AUseFramePointer first rg m with
    | (Ok (Some ra), rg') => let '(l, r) := fp_walk_a m false f rg' in (ra :: l, r)
    | (r, _) => ([], r)
    end
  end.

Lemma fp_walk_a_S m first f rg :
  fp_walk_a m first (S f) rg =
    match aexec AUseFramePointer first rg m with
    | (Ok (Some ra), rg') => let '(l, r) := fp_walk_a m false f rg' in (ra :: l, r)
    | (r, _) => ([], r)
    end.
Proof. reflexivity. Qed.

Theorem fp_chain_walk_a m ras : forall first rg,
  chain_a m (mask rg) (afp rg) ras -> asp rg < afp rg + 16 ->
  fp_walk_a m first (S (length ras)) rg = (ras, Ok None).
Proof.
  induction ras as [|ra t IH]; intros first rg Hc Hsp; cbn [length]; rewrite fp_walk_a_S.
  - inversion Hc as [f nl Hlt Hf Hl|]; subst.
    rewrite (a_fp_rule_null_end first rg m nl) by assumption. reflexivity.
  - inversion Hc as [|f nf nl t' Hlt Hf Hnz Hgt Hl Hra Ht]; subst.
    rewrite (a_fp_rule_semantics first rg m nl nf) by assumption.
    specialize (IH false (set_afp (set_asp (set_lr rg nl) (afp rg + 16)) nf)).
    cbn [mask afp asp set_afp set_asp set_lr] in IH.
    rewrite IH; [reflexivity | exact Ht | lia].
Qed.
