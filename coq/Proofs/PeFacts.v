(* PeFacts.v - C03: framehop's PE step against the documented unwind procedure (ms_unwind). *)
From FH Require Import Consts Word X86 Unwinder Pe X86Unw WordFacts X86Exec RegOrderFacts X86Walk X86Chain.
From Coq Require Import Lia ZifyBool ZifyN ZifyNat.
Open Scope N_scope.
Arguments N.add : simpl never.
Arguments N.sub : simpl never.
Arguments N.mul : simpl never.
Arguments N.div : simpl never.
Arguments N.eqb : simpl never.
Arguments N.ltb : simpl never.
Arguments N.leb : simpl never.
Arguments exec : simpl never.
Arguments encode : simpl never.
Arguments decode : simpl never.

(* what with_cache does with the PE callback's answer (cache aside) *)
Definition pe_outcome (pe : pe_data) (address : N) (first : bool) (rg : regs) (m : mem) : res (option N) * regs :=
  match fst (pe_step true pe address first rg m) with
  | CbRule r => exec ra_addr_checked r first rg m
  | CbUncacheable ra rg' => (if ra =? 0 then Ok None else Ok (Some ra), rg')
  | CbErr rg1 | CbErrV rg1 => exec ra_addr_checked fallback_rule first rg1 m
  | CbPanic s => (Panic s, rg)
  | CbHang => (Hang, rg)
  end.

(* the same on the step as computed ([pe_step_raw]), with [g] applied to the registers an error leaves
   behind: PeUnwinding::unwind_frame puts the entry registers back (g = fun _ => rg) *)
Definition pe_outcome_g (g : regs -> regs) (pe : pe_data) (address : N) (first : bool) (rg : regs) (m : mem)
  : res (option N) * regs :=
  match fst (pe_step_raw true pe address first rg m) with
  | CbRule r => exec ra_addr_checked r first rg m
  | CbUncacheable ra rg' => (if ra =? 0 then Ok None else Ok (Some ra), rg')
  | CbErr rg1 | CbErrV rg1 => exec ra_addr_checked fallback_rule first (g rg1) m
  | CbPanic s => (Panic s, rg)
  | CbHang => (Hang, rg)
  end.

Lemma pe_outcome_restore pe address first rg m :
  pe_outcome pe address first rg m = pe_outcome_g (fun _ => rg) pe address first rg m.
Proof.
  unfold pe_outcome, pe_outcome_g, pe_step. cbn [fst].
  destruct (fst (pe_step_raw true pe address first rg m)); reflexivity.
Qed.

(* same general-purpose registers (ip is not part of the Microsoft context the procedure updates) *)
Definition rf_eq (a b : regs) : Prop := forall r, rf a r = rf b r.

(* ---------- direct semantics of an (offset | pop)* sequence ---------- *)
Fixpoint run_oops (l : list oop) (rg : regs) (m : mem) : opres :=
  match l with
  | [] => OpCont rg
  | OopOff k :: t => if sp rg + k * 8 <? W64 then run_oops t (set_sp rg (sp rg + k * 8)) m else OpPanic
  | OopPop r :: t =>
    match m (sp rg) with
    | None => OpNoStack rg
    | Some v => if sp rg + 8 <? W64 then run_oops t (set_sp (setr rg r v) (sp rg + 8)) m else OpPanic
    end
  | OopNone :: _ => OpPanic
  end.

(* the decoded operations of a compressible sequence mean the same under both readings *)
Definition uop_aligned (o : uop) : Prop := match o with UAlloc b => b mod 8 = 0 | _ => True end.
Definition einsn_aligned (i : einsn) : Prop := match i with EAddSP b => b mod 8 = 0 | _ => True end.

Lemma run_ops_oops u ops : forall rg m,
  Forall uop_aligned ops -> Forall (fun o => oop_of_uop o <> OopNone) ops ->
  run_ops_pe u ops rg m = run_oops (map oop_of_uop ops) rg m.
Proof.
  induction ops as [|o t IH]; intros rg m Ha Hn; [reflexivity|].
  inversion Ha as [|? ? Ha1 Ha2]; inversion Hn as [|? ? Hn1 Hn2]; subst.
  cbn [run_ops_pe map]. destruct o; cbn [oop_of_uop resolve_operation] in *; try contradiction.
  - cbn [run_oops]. destruct (m (sp rg)); [|reflexivity].
    destruct (sp rg + 8 <? W64); [apply IH; assumption | reflexivity].
  - destruct (bytes / 8 <? W16) eqn:E; [|contradiction]. cbn [run_oops].
    assert (Hb : bytes / 8 * 8 = bytes) by (cbn in Ha1; lia). rewrite Hb.
    destruct (sp rg + bytes <? W64); [apply IH; assumption | reflexivity].
Qed.

Lemma run_epilog_oops u insns : forall rg m,
  Forall einsn_aligned insns -> Forall (fun o => oop_of_einsn o <> OopNone) insns ->
  run_epilog false u insns rg m = run_oops (map oop_of_einsn insns) rg m.
Proof.
  induction insns as [|o t IH]; intros rg m Ha Hn; [reflexivity|].
  inversion Ha as [|? ? Ha1 Ha2]; inversion Hn as [|? ? Hn1 Hn2]; subst.
  cbn [run_epilog map]. destruct o; cbn [oop_of_einsn] in *; try contradiction.
  - destruct (n / 8 <? W16) eqn:E; [|contradiction]. cbn [run_oops].
    assert (Hb : n / 8 * 8 = n) by (cbn in Ha1; lia). rewrite Hb.
    destruct (sp rg + n <? W64); [apply IH; assumption | reflexivity].
  - cbn [run_oops]. destruct (m (sp rg)); [|reflexivity].
    destruct (sp rg + 8 <? W64); [apply IH; assumption | reflexivity].
Qed.

(* the checked epilog simulation agrees with the unchecked one whenever the latter succeeds *)
Lemma run_epilog_checked u insns : forall rg m rg',
  run_epilog false u insns rg m = OpCont rg' -> run_epilog true u insns rg m = OpCont rg'.
Proof.
  induction insns as [|o t IH]; intros rg m rg'; cbn [run_epilog]; [auto|].
  destruct o.
  - destruct (sp rg + n <? W64); [apply IH | discriminate].
  - destruct (ui_fpreg u); [|discriminate].
    destruct (getr rg (pe_reg n0) + n <? W64); [apply IH | discriminate].
  - destruct (m (sp rg)); [|discriminate].
    destruct (sp rg + 8 <? W64); [apply IH | discriminate].
Qed.

(* ---------- a compressed rule executes like the sequence it was made from ---------- *)
Lemma all_pops_map l rs : all_pops l = Some rs -> l = map OopPop rs.
Proof.
  revert rs. induction l as [|o t IH]; intros rs; cbn [all_pops].
  - intros H; inversion H; reflexivity.
  - destruct o; try discriminate. destruct (all_pops t) as [rs'|]; [|discriminate].
    intros H; inversion H; subst. cbn. f_equal. apply IH. reflexivity.
Qed.

(* pop_loop (used by exec) against run_oops on a register file whose RSP tracks the loop's s *)
Lemma pop_loop_oops rs : forall s rg rgA m rgB,
  ~ In RSP rs -> sp rgA = s -> (forall r, r <> RSP -> rf rg r = rf rgA r) ->
  run_oops (map OopPop rs) rgA m = OpCont rgB ->
  exists rg', pop_loop rs s rg m = (Ok (sp rgB), rg') /\ s <= sp rgB /\
              ip rg' = ip rg /\ rf rg' RSP = rf rg RSP /\ (forall r, r <> RSP -> rf rg' r = rf rgB r).
Proof.
  induction rs as [|x t IH]; intros s rg rgA m rgB Hnin Hs Hrel; cbn [map run_oops pop_loop].
  - intros H; inversion H; subst. exists rg. repeat split; auto; lia.
  - rewrite Hs. destruct (m s) as [v|]; [|discriminate].
    destruct (s + 8 <? W64) eqn:E8; [|discriminate].
    intros H. unfold add64c. rewrite E8.
    assert (Hx : x <> RSP) by (intros ->; apply Hnin; now left).
    destruct (IH (s + 8) (setr rg x v) (set_sp (setr rgA x v) (s + 8)) m rgB) as (rg' & Hp & Hle & Hip & Hrsp & Hrf).
    + intros Hin; apply Hnin; now right.
    + reflexivity.
    + intros r Hr. cbn. destruct r; try contradiction; destruct x; cbn; try reflexivity; try contradiction;
        apply Hrel; discriminate.
    + exact H.
    + exists rg'. rewrite Hp. repeat split; auto; try lia.
      rewrite Hrsp. cbn. destruct x; try reflexivity. contradiction.
Qed.

Lemma incl_table_no_rsp rs : incl rs ENCODE_REGISTERS -> ~ In RSP rs.
Proof.
  intros Hi Hin. apply Hi in Hin. cbn in Hin.
  repeat (destruct Hin as [Hin|Hin]; [discriminate|]). exact Hin.
Qed.

Lemma ms_final_some rgB m ra rg2 :
  ms_final rgB m = Some (ra, rg2) -> m (sp rgB) = Some ra /\ sp rgB + 8 < W64 /\ rg2 = set_sp rgB (sp rgB + 8).
Proof.
  unfold ms_final. destruct (m (sp rgB)) as [v|]; [|discriminate].
  destruct (sp rgB + 8 <? W64) eqn:E; [|discriminate]. intros H; inversion H; subst. repeat split. lia.
Qed.

(* executing the rule made from a sequence = running the sequence, then popping the return address *)
Lemma rule_exec_oops l ru first rg m rgB ra rg2 :
  sp rg < W64 ->
  rule_for_sequence l = Some (Ok ru) -> run_oops l rg m = OpCont rgB -> ms_final rgB m = Some (ra, rg2) ->
  fst (exec ra_addr_checked ru first rg m) = (if ra =? 0 then Ok None else Ok (Some ra)) /\
  (ra <> 0 -> rf_eq (snd (exec ra_addr_checked ru first rg m)) rg2).
Proof.
  intros Hsp Hr Hrun Hfin. destruct (ms_final_some _ _ _ _ Hfin) as (Hm & H8 & ->).
  unfold rule_for_sequence in Hr.
  set (kr := match l with OopOff k :: t => (k, t) | _ => (0, l) end) in Hr.
  destruct kr as [k rest] eqn:Ekr.
  destruct (all_pops rest) as [rs|] eqn:Eap; [|discriminate].
  apply all_pops_map in Eap. subst rest.
  destruct (Nat.ltb 8 (length rs)) eqn:Elen; [discriminate|].
  (* the state after the optional stack adjustment *)
  assert (Hmid : exists rgA, sp rgA = sp rg + k * 8 /\ sp rg + k * 8 < W64 /\ (forall r, r <> RSP -> rf rg r = rf rgA r) /\
                 run_oops (map OopPop rs) rgA m = OpCont rgB).
  { unfold kr in Ekr. destruct l as [|o t].
    - inversion Ekr; subst. exists rg. repeat split; auto; lia.
    - destruct o; inversion Ekr; subst; try (exists rg; repeat split; auto; lia).
      cbn [run_oops] in Hrun. destruct (sp rg + k * 8 <? W64) eqn:E; [|discriminate].
      exists (set_sp rg (sp rg + k * 8)). repeat split; [lia | | exact Hrun].
      intros r Hr0. cbn. destruct r; try reflexivity. contradiction. }
  destruct Hmid as (rgA & HspA & Hk64 & Hrel & HrunA).
  destruct (Nat.eqb (length rs) 0 && (k =? 0)) eqn:Ejr.
  - (* JustReturn *)
    inversion Hr; subst ru. apply andb_prop in Ejr. destruct Ejr as [El Ek].
    destruct rs; [|discriminate]. cbn [map run_oops] in HrunA. inversion HrunA; subst rgB.
    assert (k = 0) by lia. subst k.
    assert (Hsame : sp rgA = sp rg) by lia.
    unfold exec. fold (sp rg). unfold add64c. rewrite Hsame in *.
    destruct (sp rg + 8 <? W64) eqn:E; [|lia].
    unfold exec_tail, ra_addr_checked, ok_or, sub64c.
    destruct (8 <=? sp rg + 8) eqn:E2; [|lia].
    replace (sp rg + 8 - 8) with (sp rg) by lia. rewrite Hm.
    destruct (ra =? 0) eqn:E0; [split; [reflexivity | lia]|].
    destruct ((sp rg + 8 =? sp rg) && (ra =? ip rg)) eqn:Ed; [lia|].
    cbn [fst snd]. split; [reflexivity|]. intros _ r. cbn.
    destruct r; try reflexivity; try (apply Hrel; discriminate).
  - (* OffsetSpAndPopRegisters *)
    pose proof (encode_never_panics rs) as Hnp.
    destruct (encode rs) as [[[cnt enc]| | |]|] eqn:Eenc; try discriminate; try contradiction.
    inversion Hr; subst ru.
    destruct (encode_decode rs cnt enc Eenc) as (Hcnt & Henc & Hdec).
    destruct (encode_some_wf rs cnt enc Eenc) as [Hnd Hincl].
    destruct (pop_loop_oops rs (sp rg + k * 8) rg rgA m rgB (incl_table_no_rsp rs Hincl) HspA Hrel HrunA)
      as (rg' & Hpl & Hle & Hip & Hrsp & Hrf).
    unfold exec. fold (sp rg). unfold add64c.
    destruct (sp rg + k * 8 <? W64) eqn:E1; [|lia].
    rewrite Hdec, Hpl. destruct (sp rgB + 8 <? W64) eqn:E2; [|lia].
    unfold exec_tail, ra_addr_checked, ok_or, sub64c.
    destruct (8 <=? sp rgB + 8) eqn:E3; [|lia].
    replace (sp rgB + 8 - 8) with (sp rgB) by lia. rewrite Hm.
    destruct (ra =? 0) eqn:E0; [split; [reflexivity | lia]|].
    destruct ((sp rgB + 8 =? sp rg) && (ra =? ip rg')) eqn:Ed; [lia|].
    cbn [fst snd]. split; [reflexivity|]. intros _ r. cbn.
    destruct r; try reflexivity; try (apply Hrf; discriminate).
Qed.

(* ---------- the unwind-code path ---------- *)
Definition is_save (o : uop) : bool := match o with USaveNonvol _ _ | USaveXmm _ => true | _ => false end.

(* a mov-save that leaves the registers the frame base is computed from alone *)
Definition save_ok (u : uinfo) (o : uop) : Prop :=
  match o with
  | USaveNonvol r _ => pe_reg r <> RSP /\ (forall fr, ui_fpreg u = Some fr -> pe_reg r <> pe_reg fr)
  | USaveXmm _ => True
  | _ => False
  end.

Lemma resolve_offset_base u rg off :
  resolve_offset u rg off = match base_of u rg with
                            | Some b => if b + off <? W64 then Some (b + off) else None
                            | None => None
                            end.
Proof.
  unfold resolve_offset, base_of. destruct (ui_fpreg u) as [r|]; [|reflexivity]. cbv zeta.
  destruct (getr rg (pe_reg r) <? ui_fpoff u); reflexivity.
Qed.

Lemma ms_op_resolve fb u rg m o :
  (is_save o = true -> fb = base_of u rg) -> ms_op fb u rg m o = resolve_operation u rg m o.
Proof.
  intros H. destruct o; try reflexivity; cbn [ms_op resolve_operation]; rewrite resolve_offset_base, <- (H eq_refl);
    destruct fb as [b|]; try reflexivity; destruct (b + off <? W64); reflexivity.
Qed.

Lemma base_of_setr u rg r v :
  r <> RSP -> (forall fr, ui_fpreg u = Some fr -> r <> pe_reg fr) -> base_of u (setr rg r v) = base_of u rg.
Proof.
  intros H1 H2. unfold base_of. destruct (ui_fpreg u) as [fr|] eqn:E.
  - specialize (H2 fr eq_refl). cbv zeta. unfold getr, setr. cbn [rf].
    destruct (reg_eqb r (pe_reg fr)) eqn:Er; [|reflexivity].
    exfalso. apply H2. destruct r, (pe_reg fr); try reflexivity; discriminate.
  - unfold sp, getr, setr. cbn [rf]. destruct (reg_eqb r RSP) eqn:Er; [|reflexivity].
    exfalso. apply H1. destruct r; try reflexivity; discriminate.
Qed.

(* the procedure's operations = what the code runs, when the mov-saves come first *)
Lemma ms_ops_saves fb u sv : forall rg m,
  Forall (save_ok u) sv -> (sv <> [] -> fb = base_of u rg) ->
  match run_ops_pe u sv rg m with
  | OpCont rg' => ms_ops fb u sv rg m = Some (inl rg') /\ base_of u rg' = base_of u rg
  | OpBreak ra rg' => False
  | _ => ms_ops fb u sv rg m = None
  end.
Proof.
  induction sv as [|o t IH]; intros rg m Hok Hfb; cbn [run_ops_pe ms_ops]; [split; reflexivity|].
  inversion Hok as [|? ? Ho Ht]; subst.
  assert (Hb : fb = base_of u rg) by (apply Hfb; discriminate).
  rewrite (ms_op_resolve fb u rg m o (fun _ => Hb)).
  destruct o; cbn [save_ok] in Ho; try contradiction.
  - destruct Ho as [Hr1 Hr2]. cbn [resolve_operation].
    destruct (resolve_offset u rg off) as [a|]; [|reflexivity].
    destruct (m a) as [v|]; [|reflexivity].
    specialize (IH (setr rg (pe_reg r) v) m Ht).
    rewrite (base_of_setr u rg (pe_reg r) v Hr1 Hr2) in IH. specialize (IH (fun _ => Hb)).
    destruct (run_ops_pe u t (setr rg (pe_reg r) v) m); auto.
  - cbn [resolve_operation].
    destruct (resolve_offset u rg off) as [a|]; [|reflexivity].
    destruct (m a) as [v|]; [|reflexivity].
    destruct (a + 8 <? W64); [|reflexivity]. destruct (m (a + 8)); [|reflexivity].
    specialize (IH rg m Ht (fun _ => Hb)). destruct (run_ops_pe u t rg m); auto.
Qed.

Lemma ms_ops_nosave fb u ops : forall rg m,
  Forall (fun o => is_save o = false) ops ->
  ms_ops fb u ops rg m = match run_ops_pe u ops rg m with
                         | OpCont rg' => Some (inl rg')
                         | OpBreak ra rg' => Some (inr (ra, rg'))
                         | _ => None
                         end.
Proof.
  induction ops as [|o t IH]; intros rg m Hn; cbn [ms_ops run_ops_pe]; [reflexivity|].
  inversion Hn as [|? ? Ho Ht]; subst.
  rewrite (ms_op_resolve fb u rg m o) by (intros H; congruence).
  destruct (resolve_operation u rg m o); try reflexivity. apply IH. exact Ht.
Qed.

Lemma run_ops_pe_app u a b : forall rg m,
  run_ops_pe u (a ++ b) rg m = match run_ops_pe u a rg m with OpCont rg' => run_ops_pe u b rg' m | r => r end.
Proof.
  induction a as [|o t IH]; intros rg m; cbn [app run_ops_pe]; [reflexivity|].
  destruct (resolve_operation u rg m o); try reflexivity. apply IH.
Qed.

Lemma ms_ops_app fb u a b : forall rg m,
  ms_ops fb u (a ++ b) rg m = match ms_ops fb u a rg m with Some (inl rg') => ms_ops fb u b rg' m | r => r end.
Proof.
  induction a as [|o t IH]; intros rg m; cbn [app ms_ops]; [reflexivity|].
  destruct (ms_op fb u rg m o); try reflexivity. apply IH.
Qed.

Lemma ms_ops_run fb u sv rest rg m :
  Forall (save_ok u) sv -> Forall (fun o => is_save o = false) rest -> (sv <> [] -> fb = base_of u rg) ->
  ms_ops fb u (sv ++ rest) rg m = match run_ops_pe u (sv ++ rest) rg m with
                                  | OpCont rg' => Some (inl rg')
                                  | OpBreak ra rg' => Some (inr (ra, rg'))
                                  | _ => None
                                  end.
Proof.
  intros Hsv Hrest Hfb. rewrite ms_ops_app, run_ops_pe_app.
  pose proof (ms_ops_saves fb u sv rg m Hsv Hfb) as H.
  destruct (run_ops_pe u sv rg m) as [rg'|ra rg'|rg'|].
  - destruct H as [-> _]. apply ms_ops_nosave. exact Hrest.
  - contradiction.
  - rewrite H. reflexivity.
  - rewrite H. reflexivity.
Qed.

Lemma resolve_fp_eq u u' rg m o :
  ui_fpreg u = ui_fpreg u' -> ui_fpoff u = ui_fpoff u' ->
  resolve_operation u rg m o = resolve_operation u' rg m o.
Proof.
  intros H1 H2. destruct o; cbn [resolve_operation]; unfold resolve_offset; rewrite ?H1, ?H2; reflexivity.
Qed.

Lemma ms_op_fp_eq fb u u' rg m o :
  ui_fpreg u = ui_fpreg u' -> ui_fpoff u = ui_fpoff u' -> ms_op fb u rg m o = ms_op fb u' rg m o.
Proof.
  intros H1 H2. destruct o; try reflexivity; cbn [ms_op]; apply resolve_fp_eq; assumption.
Qed.

Lemma ms_ops_fp_eq fb u u' ops : forall rg m,
  ui_fpreg u = ui_fpreg u' -> ui_fpoff u = ui_fpoff u' -> ms_ops fb u ops rg m = ms_ops fb u' ops rg m.
Proof.
  induction ops as [|o t IH]; intros rg m H1 H2; cbn [ms_ops]; [reflexivity|].
  rewrite (ms_op_fp_eq fb u u' rg m o H1 H2). destruct (ms_op fb u' rg m o); try reflexivity.
  apply IH; assumption.
Qed.

Lemma ops_after_false offset ops : ops_after offset false ops = map snd ops.
Proof. destruct ops as [|[o op] t]; reflexivity. Qed.

Definition same_fp (u0 u : uinfo) : Prop := ui_fpreg u = ui_fpreg u0 /\ ui_fpoff u = ui_fpoff u0.

Lemma chain_infos_head pe : forall fuel u l, chain_infos fuel pe u = Ok (Some l) -> exists t, l = u :: t.
Proof.
  destruct fuel as [|f]; intros u l; cbn [chain_infos]; [discriminate|].
  destruct (ui_chain u) as [rva|].
  - destruct (ui_at (pe_uinfos pe) rva) as [u'| |]; try discriminate.
    destruct (chain_infos f pe u') as [[l'|]|e|s|]; try discriminate.
    intros H; inversion H. eexists; reflexivity.
  - intros H; inversion H. eexists; reflexivity.
Qed.

(* following the chain as the procedure does = running the concatenated operations *)
Lemma ms_chain_ops fb pe u0 offset m : forall fuel u chained infos rg,
  chain_infos fuel pe u = Ok (Some infos) -> Forall (same_fp u0) infos ->
  ms_chain fuel fb pe u chained offset rg m =
  ms_ops fb u0 (ops_after offset (negb chained) (ui_ops u) ++ flat_map (fun v => map snd (ui_ops v)) (tl infos)) rg m.
Proof.
  induction fuel as [|f IH]; intros u chained infos rg; cbn [chain_infos ms_chain]; [discriminate|].
  destruct (ui_chain u) as [rva|] eqn:Ech.
  - destruct (ui_at (pe_uinfos pe) rva) as [u'| |] eqn:Eu; try discriminate.
    destruct (chain_infos f pe u') as [[l|]|e|s|] eqn:Ec; try discriminate.
    intros H Hall; inversion H; subst infos. inversion Hall as [|? ? Hu Hl]; subst.
    cbn [tl]. rewrite ms_ops_app.
    rewrite (ms_ops_fp_eq fb u u0 _ rg m (proj1 Hu) (proj2 Hu)).
    destruct (ms_ops fb u0 (ops_after offset (negb chained) (ui_ops u)) rg m) as [[rg'|[ra rg']]|]; try reflexivity.
    rewrite (IH u' true l rg' Ec Hl). cbn [negb]. rewrite ops_after_false.
    destruct (chain_infos_head pe f u' l Ec) as [t ->]. cbn [tl flat_map]. reflexivity.
  - intros H Hall; inversion H; subst infos. inversion Hall as [|? ? Hu Hl]; subst.
    cbn [tl flat_map]. rewrite app_nil_r.
    rewrite (ms_ops_fp_eq fb u u0 _ rg m (proj1 Hu) (proj2 Hu)).
    destruct (ms_ops fb u0 (ops_after offset (negb chained) (ui_ops u)) rg m) as [[rg'|[ra rg']]|]; reflexivity.
Qed.

(* ---------- the main theorem ---------- *)
Lemma pe_lookup_begin l a : forall prev f,
  (forall p, prev = Some p -> rt_begin p <= a) -> pe_lookup l a prev = Some f -> rt_begin f <= a.
Proof.
  induction l as [|x t IH]; intros prev f Hp; cbn [pe_lookup].
  - unfold rt_check. destruct prev as [p|]; [|discriminate].
    destruct (a <? rt_end p); [|discriminate]. intros H; inversion H; subst. apply Hp; reflexivity.
  - destruct (rt_begin x =? a) eqn:E1; [intros H; inversion H; subst; lia|].
    destruct (a <? rt_begin x) eqn:E2.
    + unfold rt_check. destruct prev as [p|]; [|discriminate].
      destruct (a <? rt_end p); [|discriminate]. intros H; inversion H; subst. apply Hp; reflexivity.
    + apply IH. intros p H; inversion H; subst. lia.
Qed.

Lemma all_pops_no_none l rs : all_pops l = Some rs -> Forall (fun o => o <> OopNone) l.
Proof. intros H. apply all_pops_map in H. subst l. induction rs; constructor; [discriminate | assumption]. Qed.

Lemma rule_seq_no_none l x : rule_for_sequence l = Some x -> Forall (fun o => o <> OopNone) l.
Proof.
  unfold rule_for_sequence.
  destruct l as [|o t]; [constructor|].
  destruct o.
  - cbn [all_pops]. discriminate.
  - destruct (all_pops t) eqn:E; [|discriminate]. intros _. constructor; [discriminate|].
    eapply all_pops_no_none; eassumption.
  - destruct (all_pops (OopPop r :: t)) eqn:E; [|discriminate]. intros _. eapply all_pops_no_none; eassumption.
Qed.

Lemma rule_seq_ok l x : rule_for_sequence l = Some x -> exists r, x = Ok r.
Proof.
  unfold rule_for_sequence.
  destruct (match l with OopOff k :: t => (k, t) | _ => (0, l) end) as [k rest].
  destruct (all_pops rest) as [rs|]; [|discriminate].
  destruct (Nat.ltb 8 (length rs)); [discriminate|].
  destruct (Nat.eqb (length rs) 0 && (k =? 0)); [intros H; inversion H; eexists; reflexivity|].
  pose proof (encode_never_panics rs) as Hnp.
  destruct (encode rs) as [[[cnt enc]| | |]|]; try discriminate; try contradiction;
    intros H; inversion H; eexists; reflexivity.
Qed.

Lemma run_oops_no_break l : forall rg m ra rg', run_oops l rg m <> OpBreak ra rg'.
Proof.
  induction l as [|o t IH]; intros rg m ra rg'; cbn [run_oops]; [discriminate|].
  destruct o; [discriminate | |].
  - destruct (sp rg + k * 8 <? W64); [apply IH | discriminate].
  - destruct (m (sp rg)); [|discriminate]. destruct (sp rg + 8 <? W64); [apply IH | discriminate].
Qed.

Lemma Forall_map_iff {A B} (f : A -> B) (P : B -> Prop) l : Forall P (map f l) -> Forall (fun x => P (f x)) l.
Proof. induction l; intros H; inversion H; subst; constructor; auto. Qed.

(* the text view a first frame needs (otherwise framehop reports MissingInstructionData) *)
Definition text_covers (pe : pe_data) (f : rtfunc) (address : N) : Prop :=
  exists lo hi bytes, pe_text pe = Some (lo, hi, bytes) /\ lo <= address < hi /\ address <= rt_end f /\
    (N.to_nat (address - lo) <= length bytes)%nat /\
    (N.to_nat (rt_end f - address) <= length (skipn (N.to_nat (address - lo)) bytes))%nat.

(* well-formed unwind data for the function at [address] *)
Definition pe_wf_at (pe : pe_data) (address : N) (first : bool) : Prop :=
  forall f u0, pe_lookup (pe_funcs pe) address None = Some f -> ui_at (pe_uinfos pe) (rt_uinfo f) = UiOk u0 ->
    (* the chain is present, finite, and keeps the frame register of the primary info *)
    (exists infos, chain_infos CHAIN_LIMIT pe u0 = Ok (Some infos) /\ Forall (same_fp u0) infos /\
                   Forall (fun u => Forall (fun o => uop_aligned (snd o)) (ui_ops u)) infos /\
                   (* mov-saves are listed first (compilers give them the end-of-prolog offset), do not target
                      rsp or the frame register, and are in force only once the frame register is established *)
                   exists sv rest, all_ops (address - rt_begin f) infos = sv ++ rest /\
                     Forall (save_ok u0) sv /\ Forall (fun o => is_save o = false) rest /\
                     (sv <> [] -> ui_fpreg u0 <> None -> established u0 (address - rt_begin f) = true)) /\
    (* stack adjustments in epilogs are multiples of 8 *)
    (forall insns, epilog_at pe f u0 address = Some insns -> Forall einsn_aligned insns) /\
    (* the frame being unwound: innermost frames need the text bytes; callers are not inside an epilog *)
    (if first then text_covers pe f address else epilog_at pe f u0 address = None).

Lemma ops_after_aligned offset b ops :
  Forall (fun o => uop_aligned (snd o)) ops -> Forall uop_aligned (ops_after offset b ops).
Proof.
  unfold ops_after. induction ops as [|[o op] t IH]; intros H; [constructor|].
  inversion H; subst. destruct (b && (offset <? o)); [apply IH; assumption|].
  cbn [map snd]. constructor; [assumption|]. clear -H3. induction t as [|[? ?] ? IHt]; [constructor|].
  inversion H3; subst. constructor; auto.
Qed.

Lemma all_ops_aligned offset infos :
  Forall (fun u => Forall (fun o => uop_aligned (snd o)) (ui_ops u)) infos -> Forall uop_aligned (all_ops offset infos).
Proof.
  unfold all_ops. destruct infos as [|u0 rest]; [constructor|]. intros H. inversion H; subst.
  apply Forall_app. split; [apply ops_after_aligned; assumption|].
  clear -H3. induction rest as [|v t IH]; [constructor|]. inversion H3; subst. cbn [flat_map].
  apply Forall_app. split; [|apply IH; assumption].
  clear -H1. induction (ui_ops v) as [|[? ?] ? IHl]; [constructor|]. inversion H1; subst. constructor; auto.
Qed.

(* the step advances: what the progress guards of the uncacheable path (C10) let through *)
Definition advances (first : bool) (rg : regs) (ra : N) (rg_ms : regs) : Prop :=
  ~ (sp rg_ms = sp rg /\ ra = ip rg) /\ (first = false -> sp rg < sp rg_ms).

Lemma pe_uncacheable_adv first rg ra rg' :
  advances first rg ra rg' -> pe_uncacheable first rg ra rg' = CbUncacheable ra (set_ip rg' ra).
Proof.
  intros [H1 H2]. unfold pe_uncacheable.
  destruct ((sp rg' =? sp rg) && (ra =? ip rg)) eqn:E; [exfalso; apply H1; lia|].
  destruct first; cbn [negb andb]; [reflexivity|].
  specialize (H2 eq_refl). destruct (sp rg' <=? sp rg) eqn:E2; [lia | reflexivity].
Qed.

Lemma pe_matches_ms_g g pe address first rg m ra rg_ms :
  sp rg < W64 -> pe_wf_at pe address first ->
  ms_unwind pe address rg m = Some (ra, rg_ms) -> advances first rg ra rg_ms ->
  fst (pe_outcome_g g pe address first rg m) = (if ra =? 0 then Ok None else Ok (Some ra)) /\
  (ra <> 0 -> rf_eq (snd (pe_outcome_g g pe address first rg m)) rg_ms).
Proof.
  intros Hsp Hwf Hms Hadv. revert Hms. unfold ms_unwind, pe_outcome_g, pe_step_raw.
  destruct (pe_lookup (pe_funcs pe) address None) as [f|] eqn:Elk.
  2:{ cbn [fst]. intros Hfin. apply (rule_exec_oops [] JustReturn first rg m rg ra rg_ms Hsp); [reflexivity | reflexivity | exact Hfin]. }
  destruct (ui_at (pe_uinfos pe) (rt_uinfo f)) as [u0| |] eqn:Eui; try discriminate.
  destruct (Hwf f u0 Elk Eui) as ((infos & Hch & Hfp & Hal & sv & rest0 & Hsplit & Hsv & Hrest & Hest) & Hepal & Hfr).
  assert (Hbeg : rt_begin f <= address) by (eapply pe_lookup_begin; [|exact Elk]; discriminate).
  (* the unwind-code path, shared by both cases *)
  assert (Hcodes : epilog_at pe f u0 address = None ->
    match ms_chain CHAIN_LIMIT (ms_frame_base u0 (address - rt_begin f) rg) pe u0 false (address - rt_begin f) rg m with
    | Some (inl rg') => ms_final rg' m | Some (inr r) => Some r | None => None end = Some (ra, rg_ms) ->
    let r := match chain_infos CHAIN_LIMIT pe u0 with
        | Hang => (CbHang, pe_eff_alloc)
        | Ok None => (CbErr rg, pe_eff_alloc)
        | Ok (Some infos) =>
          if address <? rt_begin f then (CbPanic S_pe_own_sub, pe_eff_alloc)
          else
            let ops := all_ops (address - rt_begin f) infos in
            match rule_for_sequence (map oop_of_uop ops) with
            | Some (Ok r) => (CbRule r, pe_eff_alloc)
            | Some (Panic s) => (CbPanic s, pe_eff_alloc)
            | Some _ => (CbHang, pe_eff_alloc)
            | None =>
              match run_ops_pe u0 ops rg m with
              | OpCont rg' => (final_pop true first rg rg' m, pe_eff_alloc)
              | OpBreak ra rg' => (pe_uncacheable first rg ra rg', pe_eff_alloc)
              | OpNoStack rg' => (CbErrV rg', pe_eff_alloc)
              | OpPanic => (CbPanic S_pe_dep, pe_eff_alloc)
              end
            end
        | _ => (CbHang, pe_eff_alloc)
        end in
    fst (match fst r with
      | CbRule r => exec ra_addr_checked r first rg m
      | CbUncacheable ra rg' => (if ra =? 0 then Ok None else Ok (Some ra), rg')
      | CbErr rg1 | CbErrV rg1 => exec ra_addr_checked fallback_rule first (g rg1) m
      | CbPanic s => (Panic s, rg)
      | CbHang => (Hang, rg)
      end) = (if ra =? 0 then Ok None else Ok (Some ra)) /\
    (ra <> 0 -> rf_eq (snd (match fst r with
      | CbRule r => exec ra_addr_checked r first rg m
      | CbUncacheable ra rg' => (if ra =? 0 then Ok None else Ok (Some ra), rg')
      | CbErr rg1 | CbErrV rg1 => exec ra_addr_checked fallback_rule first (g rg1) m
      | CbPanic s => (Panic s, rg)
      | CbHang => (Hang, rg)
      end)) rg_ms)).
  { intros _. rewrite Hch. destruct (chain_infos_head _ _ _ _ Hch) as [rest Hinf].
    rewrite (ms_chain_ops _ pe u0 (address - rt_begin f) m _ u0 false infos rg Hch Hfp).
    destruct (address <? rt_begin f) eqn:Eb; [lia|]. cbn [negb].
    assert (Hops : ops_after (address - rt_begin f) true (ui_ops u0) ++ flat_map (fun v => map snd (ui_ops v)) (tl infos)
                   = all_ops (address - rt_begin f) infos) by (subst infos; reflexivity).
    rewrite Hops. set (ops := all_ops (address - rt_begin f) infos).
    assert (Hopal : Forall uop_aligned ops) by (apply all_ops_aligned; exact Hal).
    assert (Hrun : ms_ops (ms_frame_base u0 (address - rt_begin f) rg) u0 ops rg m =
                   match run_ops_pe u0 ops rg m with
                   | OpCont rg' => Some (inl rg') | OpBreak ra rg' => Some (inr (ra, rg')) | _ => None end).
    { unfold ops. rewrite Hsplit. apply ms_ops_run; [exact Hsv | exact Hrest |].
      intros Hne. unfold ms_frame_base. destruct (ui_fpreg u0) as [fr|] eqn:Efr.
      - rewrite (Hest Hne) by discriminate. reflexivity.
      - unfold base_of. rewrite Efr. destruct (established u0 (address - rt_begin f)); reflexivity. }
    rewrite Hrun. cbv zeta.
    destruct (rule_for_sequence (map oop_of_uop ops)) as [x|] eqn:Er.
    - destruct (rule_seq_ok _ _ Er) as [r ->]. cbn [fst].
      pose proof (Forall_map_iff _ _ _ (rule_seq_no_none _ _ Er)) as Hnn.
      rewrite (run_ops_oops u0 ops rg m Hopal Hnn).
      destruct (run_oops (map oop_of_uop ops) rg m) as [rgB|ra' rgB|rgB|] eqn:Erun; try discriminate.
      + intros Hfin. eapply rule_exec_oops; eassumption.
      + exfalso. eapply run_oops_no_break; eassumption.
    - destruct (run_ops_pe u0 ops rg m) as [rgB|ra' rgB|rgB|] eqn:Erun; try discriminate.
      + intros Hfin. destruct (ms_final_some _ _ _ _ Hfin) as (Hm & H8 & ->).
        unfold final_pop. rewrite Hm. destruct (sp rgB + 8 <? W64) eqn:E8; [|lia].
        rewrite (pe_uncacheable_adv _ _ _ _ Hadv).
        cbn [fst snd]. split; [reflexivity | intros _ r; reflexivity].
      + intros H; inversion H; subst. rewrite (pe_uncacheable_adv _ _ _ _ Hadv).
        cbn [fst snd]. split; [reflexivity | intros _ r; reflexivity]. }
  destruct first.
  - (* innermost frame *)
    destruct Hfr as (lo & hi & bytes & Htx & Hr1 & Hr2 & Hl1 & Hl2).
    assert (Hep : epilog_at pe f u0 address =
                  if local_jump (firstn (N.to_nat (rt_end f - address)) (skipn (N.to_nat (address - lo)) bytes)) address (rt_begin f) (rt_end f)
                  then None
                  else eparse_sequence (firstn (N.to_nat (rt_end f - address)) (skipn (N.to_nat (address - lo)) bytes)) (ui_fpreg u0)).
    { unfold epilog_at. rewrite Htx. cbv zeta.
      destruct ((lo <=? address) && (address <? hi) && (address <=? rt_end f)) eqn:E; [reflexivity | lia]. }
    rewrite Htx. destruct (rt_end f <? address) eqn:E1; [lia|].
    destruct ((lo <=? address) && (address <? hi)) eqn:E2; [|lia].
    destruct (Nat.ltb (length bytes) (N.to_nat (address - lo))) eqn:E3; [apply Nat.ltb_lt in E3; lia|].
    destruct (Nat.ltb (length (skipn (N.to_nat (address - lo)) bytes)) (N.to_nat (rt_end f - address))) eqn:E4;
      [apply Nat.ltb_lt in E4; lia|].
    rewrite <- Hep.
    destruct (epilog_at pe f u0 address) as [insns|] eqn:Eep.
    + pose proof (Hepal insns eq_refl) as Hia.
      destruct (run_epilog false u0 insns rg m) as [rgB| | |] eqn:Erun; try discriminate.
      intros Hfin.
      destruct (rule_for_sequence (map oop_of_einsn insns)) as [x|] eqn:Er.
      * destruct (rule_seq_ok _ _ Er) as [r ->]. cbn [fst].
        pose proof (Forall_map_iff _ _ _ (rule_seq_no_none _ _ Er)) as Hnn.
        rewrite (run_epilog_oops u0 insns rg m Hia Hnn) in Erun.
        eapply rule_exec_oops; eassumption.
      * rewrite (run_epilog_checked u0 insns rg m rgB Erun).
        destruct (ms_final_some _ _ _ _ Hfin) as (Hm & H8 & ->).
        unfold final_pop. rewrite Hm. destruct (sp rgB + 8 <? W64) eqn:E8; [|lia].
        rewrite (pe_uncacheable_adv _ _ _ _ Hadv).
        cbn [fst snd]. split; [reflexivity | intros _ r; reflexivity].
    + apply Hcodes. reflexivity.
  - rewrite Hfr. apply Hcodes. exact Hfr.
Qed.

Theorem pe_matches_ms pe address first rg m ra rg_ms :
  sp rg < W64 -> pe_wf_at pe address first ->
  ms_unwind pe address rg m = Some (ra, rg_ms) -> advances first rg ra rg_ms ->
  fst (pe_outcome pe address first rg m) = (if ra =? 0 then Ok None else Ok (Some ra)) /\
  (ra <> 0 -> rf_eq (snd (pe_outcome pe address first rg m)) rg_ms).
Proof. rewrite pe_outcome_restore. apply pe_matches_ms_g. Qed.

(* ---------- through the unwinder: one call, then whole walks ---------- *)
Arguments cb_x86 : simpl never.
Arguments find_module : simpl never.
Arguments cache_lookup : simpl never.
Arguments pe_step : simpl never.

Lemma unwind_frame_via_pe u a x rg m md rel pe :
  lookup_address a = Ok x -> find_module mdata (mods _ u) x = Ok (Some (md, rel)) -> mdat md = MPe pe ->
  let o := unwind_frame_x u (cache_new rule) a rg m in
  (o_res _ _ o, o_regs _ _ o) = pe_outcome pe rel (negb (is_ra a)) rg m.
Proof.
  intros Hx Hf Hd. cbv zeta. unfold unwind_frame_x, unwind_frame. rewrite Hx.
  destruct (X86Walk.fresh_lookup_miss x (gen _ u)) as [c1 Hl]. rewrite Hl, Hf.
  unfold pe_outcome, cb_x86. rewrite Hd.
  destruct (pe_step true pe rel (negb (is_ra a)) rg m) as [cr ef]. cbn [fst].
  destruct cr.
  - unfold exec_x. destruct (exec ra_addr_checked r (negb (is_ra a)) rg m). reflexivity.
  - reflexivity.
  - unfold exec_x. destruct (exec ra_addr_checked fallback_rule (negb (is_ra a)) rg0 m). reflexivity.
  - unfold exec_x. destruct (exec ra_addr_checked fallback_rule (negb (is_ra a)) rg0 m). reflexivity.
  - reflexivity.
  - reflexivity.
Qed.

(* the frame at [a] lies in a PE module whose unwind data is well-formed there, and the documented
   procedure yields (ra, rg_ms) *)
Definition pe_described (u : xunwinder) (m : mem) (a : faddr) (rg : regs) (ra : N) (rg_ms : regs) : Prop :=
  exists x md rel pe,
    lookup_address a = Ok x /\ find_module mdata (mods _ u) x = Ok (Some (md, rel)) /\ mdat md = MPe pe /\
    sp rg < W64 /\ pe_wf_at pe rel (negb (is_ra a)) /\ ms_unwind pe rel rg m = Some (ra, rg_ms) /\
    advances (negb (is_ra a)) rg ra rg_ms.

Theorem pe_step_matches_procedure u m a rg ra rg_ms :
  pe_described u m a rg ra rg_ms ->
  let o := unwind_frame_x u (cache_new rule) a rg m in
  o_res _ _ o = (if ra =? 0 then Ok None else Ok (Some ra)) /\ (ra <> 0 -> rf_eq (o_regs _ _ o) rg_ms).
Proof.
  intros (x & md & rel & pe & Hx & Hf & Hd & Hsp & Hwf & Hms & Hadv). cbv zeta.
  pose proof (unwind_frame_via_pe u a x rg m md rel pe Hx Hf Hd) as Hvia. cbv zeta in Hvia.
  destruct (pe_matches_ms pe rel (negb (is_ra a)) rg m ra rg_ms Hsp Hwf Hms Hadv) as [H1 H2].
  rewrite <- Hvia in H1, H2. cbn [fst snd] in H1, H2. split; assumption.
Qed.

(* the true chain of a PE program: every activation is described; the root's return address is null *)
Inductive pe_true_chain (u : xunwinder) (m : mem) : faddr -> regs -> list (N * N * N) -> Prop :=
| ptc_root a rg rg_ms : pe_described u m a rg 0 rg_ms -> pe_true_chain u m a rg []
| ptc_frame a rg ra rg_ms rest :
    ra <> 0 -> pe_described u m a rg ra rg_ms ->
    (forall rg', rf_eq rg' rg_ms -> pe_true_chain u m (RA ra) rg' rest) ->
    pe_true_chain u m a rg ((ra, sp rg_ms, bp rg_ms) :: rest).

Theorem pe_walk_true_chain u m a rg chain :
  pe_true_chain u m a rg chain ->
  X86Chain.walk_fresh u m a rg (S (length chain)) = (chain, Ok None).
Proof.
  induction 1 as [a rg rg_ms Hd | a rg ra rg_ms rest Hnz Hd Hnext IH]; cbn [length];
    rewrite X86Chain.walk_fresh_S; cbv zeta.
  - destruct (pe_step_matches_procedure u m a rg 0 rg_ms Hd) as [Hres _]. cbv zeta in Hres.
    rewrite Hres. reflexivity.
  - destruct (pe_step_matches_procedure u m a rg ra rg_ms Hd) as [Hres Hregs]. cbv zeta in Hres, Hregs.
    rewrite Hres. destruct (ra =? 0) eqn:E0; [lia|].
    specialize (Hregs Hnz). rewrite (IH _ Hregs).
    unfold sp, bp, getr. rewrite (Hregs RSP), (Hregs RBP). reflexivity.
Qed.
