(* PeFacts.v - C03: framehop's PE step against the documented unwind procedure (ms_unwind). *)
From FH Require Import Consts Word X86 Unwinder Pe X86Unw WordFacts X86Exec RegOrderFacts.
From Coq Require Import Lia ZifyBool ZifyN ZifyNat.
Open Scope N_scope.
Arguments N.add : simpl never.
Arguments N.sub : simpl never.
Arguments N.mul : simpl never.
Arguments N.div : simpl never.
Arguments N.eqb : simpl never.
Arguments N.ltb : simpl never.
Arguments N.leb : simpl never.
Arguments exec : simpl never.
Arguments encode : simpl never.
Arguments decode : simpl never.

(* what with_cache does with the PE callback's answer (cache aside) *)
Definition pe_outcome (pe : pe_data) (address : N) (first : bool) (rg : regs) (m : mem) : res (option N) * regs :=
  match fst (pe_step true pe address first rg m) with
  | CbRule r => exec ra_addr_checked r first rg m
  | CbUncacheable ra rg' => (if ra =? 0 then Ok None else Ok (Some ra), rg')
  | CbErr rg1 | CbErrV rg1 => exec ra_addr_checked fallback_rule first rg1 m
  | CbPanic s => (Panic s, rg)
  | CbHang => (Hang, rg)
  end.

(* same general-purpose registers (ip is not part of the Microsoft context the procedure updates) *)
Definition rf_eq (a b : regs) : Prop := forall r, rf a r = rf b r.

(* ---------- direct semantics of an (offset | pop)* sequence ---------- *)
Fixpoint run_oops (l : list oop) (rg : regs) (m : mem) : opres :=
  match l with
  | [] => OpCont rg
  | OopOff k :: t => if sp rg + k * 8 <? W64 then run_oops t (set_sp rg (sp rg + k * 8)) m else OpPanic
  | OopPop r :: t =>
    match m (sp rg) with
    | None => OpNoStack rg
    | Some v => if sp rg + 8 <? W64 then run_oops t (set_sp (setr rg r v) (sp rg + 8)) m else OpPanic
    end
  | OopNone :: _ => OpPanic
  end.

(* the decoded operations of a compressible sequence mean the same under both readings *)
Definition uop_aligned (o : uop) : Prop := match o with UAlloc b => b mod 8 = 0 | _ => True end.
Definition einsn_aligned (i : einsn) : Prop := match i with EAddSP b => b mod 8 = 0 | _ => True end.

Lemma run_ops_oops u ops : forall rg m,
  Forall uop_aligned ops -> Forall (fun o => oop_of_uop o <> OopNone) ops ->
  run_ops_pe u ops rg m = run_oops (map oop_of_uop ops) rg m.
Proof.
  induction ops as [|o t IH]; intros rg m Ha Hn; [reflexivity|].
  inversion Ha as [|? ? Ha1 Ha2]; inversion Hn as [|? ? Hn1 Hn2]; subst.
  cbn [run_ops_pe map]. destruct o; cbn [oop_of_uop resolve_operation] in *; try contradiction.
  - cbn [run_oops]. destruct (m (sp rg)); [|reflexivity].
    destruct (sp rg + 8 <? W64); [apply IH; assumption | reflexivity].
  - destruct (bytes / 8 <? W16) eqn:E; [|contradiction]. cbn [run_oops].
    assert (Hb : bytes / 8 * 8 = bytes) by (cbn in Ha1; lia). rewrite Hb.
    destruct (sp rg + bytes <? W64); [apply IH; assumption | reflexivity].
Qed.

Lemma run_epilog_oops u insns : forall rg m,
  Forall einsn_aligned insns -> Forall (fun o => oop_of_einsn o <> OopNone) insns ->
  run_epilog false u insns rg m = run_oops (map oop_of_einsn insns) rg m.
Proof.
  induction insns as [|o t IH]; intros rg m Ha Hn; [reflexivity|].
  inversion Ha as [|? ? Ha1 Ha2]; inversion Hn as [|? ? Hn1 Hn2]; subst.
  cbn [run_epilog map]. destruct o; cbn [oop_of_einsn] in *; try contradiction.
  - destruct (n / 8 <? W16) eqn:E; [|contradiction]. cbn [run_oops].
    assert (Hb : n / 8 * 8 = n) by (cbn in Ha1; lia). rewrite Hb.
    destruct (sp rg + n <? W64); [apply IH; assumption | reflexivity].
  - cbn [run_oops]. destruct (m (sp rg)); [|reflexivity].
    destruct (sp rg + 8 <? W64); [apply IH; assumption | reflexivity].
Qed.

(* the checked epilog simulation agrees with the unchecked one whenever the latter succeeds *)
Lemma run_epilog_checked u insns : forall rg m rg',
  run_epilog false u insns rg m = OpCont rg' -> run_epilog true u insns rg m = OpCont rg'.
Proof.
  induction insns as [|o t IH]; intros rg m rg'; cbn [run_epilog]; [auto|].
  destruct o.
  - destruct (sp rg + n <? W64); [apply IH | discriminate].
  - destruct (ui_fpreg u); [|discriminate].
    destruct (getr rg (pe_reg n0) + n <? W64); [apply IH | discriminate].
  - destruct (m (sp rg)); [|discriminate].
    destruct (sp rg + 8 <? W64); [apply IH | discriminate].
Qed.

(* ---------- a compressed rule executes like the sequence it was made from ---------- *)
Lemma all_pops_map l rs : all_pops l = Some rs -> l = map OopPop rs.
Proof.
  revert rs. induction l as [|o t IH]; intros rs; cbn [all_pops].
  - intros H; inversion H; reflexivity.
  - destruct o; try discriminate. destruct (all_pops t) as [rs'|]; [|discriminate].
    intros H; inversion H; subst. cbn. f_equal. apply IH. reflexivity.
Qed.

(* pop_loop (used by exec) against run_oops on a register file whose RSP tracks the loop's s *)
Lemma pop_loop_oops rs : forall s rg rgA m rgB,
  ~ In RSP rs -> sp rgA = s -> (forall r, r <> RSP -> rf rg r = rf rgA r) ->
  run_oops (map OopPop rs) rgA m = OpCont rgB ->
  exists rg', pop_loop rs s rg m = (Ok (sp rgB), rg') /\ s <= sp rgB /\
              ip rg' = ip rg /\ rf rg' RSP = rf rg RSP /\ (forall r, r <> RSP -> rf rg' r = rf rgB r).
Proof.
  induction rs as [|x t IH]; intros s rg rgA m rgB Hnin Hs Hrel; cbn [map run_oops pop_loop].
  - intros H; inversion H; subst. exists rg. repeat split; auto; lia.
  - rewrite Hs. destruct (m s) as [v|]; [|discriminate].
    destruct (s + 8 <? W64) eqn:E8; [|discriminate].
    intros H. unfold add64c. rewrite E8.
    assert (Hx : x <> RSP) by (intros ->; apply Hnin; now left).
    destruct (IH (s + 8) (setr rg x v) (set_sp (setr rgA x v) (s + 8)) m rgB) as (rg' & Hp & Hle & Hip & Hrsp & Hrf).
    + intros Hin; apply Hnin; now right.
    + reflexivity.
    + intros r Hr. cbn. destruct r; try contradiction; destruct x; cbn; try reflexivity; try contradiction;
        apply Hrel; discriminate.
    + exact H.
    + exists rg'. rewrite Hp. repeat split; auto; try lia.
      rewrite Hrsp. cbn. destruct x; try reflexivity. contradiction.
Qed.

Lemma incl_table_no_rsp rs : incl rs ENCODE_REGISTERS -> ~ In RSP rs.
Proof.
  intros Hi Hin. apply Hi in Hin. cbn in Hin.
  repeat (destruct Hin as [Hin|Hin]; [discriminate|]). exact Hin.
Qed.

Lemma ms_final_some rgB m ra rg2 :
  ms_final rgB m = Some (ra, rg2) -> m (sp rgB) = Some ra /\ sp rgB + 8 < W64 /\ rg2 = set_sp rgB (sp rgB + 8).
Proof.
  unfold ms_final. destruct (m (sp rgB)) as [v|]; [|discriminate].
  destruct (sp rgB + 8 <? W64) eqn:E; [|discriminate]. intros H; inversion H; subst. repeat split. lia.
Qed.

(* executing the rule made from a sequence = running the sequence, then popping the return address *)
Lemma rule_exec_oops l ru first rg m rgB ra rg2 :
  sp rg < W64 ->
  rule_for_sequence l = Some (Ok ru) -> run_oops l rg m = OpCont rgB -> ms_final rgB m = Some (ra, rg2) ->
  fst (exec ra_addr_checked ru first rg m) = (if ra =? 0 then Ok None else Ok (Some ra)) /\
  (ra <> 0 -> rf_eq (snd (exec ra_addr_checked ru first rg m)) rg2).
Proof.
  intros Hsp Hr Hrun Hfin. destruct (ms_final_some _ _ _ _ Hfin) as (Hm & H8 & ->).
  unfold rule_for_sequence in Hr.
  set (kr := match l with OopOff k :: t => (k, t) | _ => (0, l) end) in Hr.
  destruct kr as [k rest] eqn:Ekr.
  destruct (all_pops rest) as [rs|] eqn:Eap; [|discriminate].
  apply all_pops_map in Eap. subst rest.
  destruct (Nat.ltb 8 (length rs)) eqn:Elen; [discriminate|].
  (* the state after the optional stack adjustment *)
  assert (Hmid : exists rgA, sp rgA = sp rg + k * 8 /\ sp rg + k * 8 < W64 /\ (forall r, r <> RSP -> rf rg r = rf rgA r) /\
                 run_oops (map OopPop rs) rgA m = OpCont rgB).
  { unfold kr in Ekr. destruct l as [|o t].
    - inversion Ekr; subst. exists rg. repeat split; auto; lia.
    - destruct o; inversion Ekr; subst; try (exists rg; repeat split; auto; lia).
      cbn [run_oops] in Hrun. destruct (sp rg + k * 8 <? W64) eqn:E; [|discriminate].
      exists (set_sp rg (sp rg + k * 8)). repeat split; [lia | | exact Hrun].
      intros r Hr0. cbn. destruct r; try reflexivity. contradiction. }
  destruct Hmid as (rgA & HspA & Hk64 & Hrel & HrunA).
  destruct (Nat.eqb (length rs) 0 && (k =? 0)) eqn:Ejr.
  - (* JustReturn *)
    inversion Hr; subst ru. apply andb_prop in Ejr. destruct Ejr as [El Ek].
    destruct rs; [|discriminate]. cbn [map run_oops] in HrunA. inversion HrunA; subst rgB.
    assert (k = 0) by lia. subst k.
    assert (Hsame : sp rgA = sp rg) by lia.
    unfold exec. fold (sp rg). unfold add64c. rewrite Hsame in *.
    destruct (sp rg + 8 <? W64) eqn:E; [|lia].
    unfold exec_tail, ra_addr_checked, ok_or, sub64c.
    destruct (8 <=? sp rg + 8) eqn:E2; [|lia].
    replace (sp rg + 8 - 8) with (sp rg) by lia. rewrite Hm.
    destruct (ra =? 0) eqn:E0; [split; [reflexivity | lia]|].
    destruct ((sp rg + 8 =? sp rg) && (ra =? ip rg)) eqn:Ed; [lia|].
    cbn [fst snd]. split; [reflexivity|]. intros _ r. cbn.
    destruct r; try reflexivity; try (apply Hrel; discriminate).
  - (* OffsetSpAndPopRegisters *)
    pose proof (encode_never_panics rs) as Hnp.
    destruct (encode rs) as [[[cnt enc]| | |]|] eqn:Eenc; try discriminate; try contradiction.
    inversion Hr; subst ru.
    destruct (encode_decode rs cnt enc Eenc) as (Hcnt & Henc & Hdec).
    destruct (encode_some_wf rs cnt enc Eenc) as [Hnd Hincl].
    destruct (pop_loop_oops rs (sp rg + k * 8) rg rgA m rgB (incl_table_no_rsp rs Hincl) HspA Hrel HrunA)
      as (rg' & Hpl & Hle & Hip & Hrsp & Hrf).
    unfold exec. fold (sp rg). unfold add64c.
    destruct (sp rg + k * 8 <? W64) eqn:E1; [|lia].
    rewrite Hdec, Hpl. destruct (sp rgB + 8 <? W64) eqn:E2; [|lia].
    unfold exec_tail, ra_addr_checked, ok_or, sub64c.
    destruct (8 <=? sp rgB + 8) eqn:E3; [|lia].
    replace (sp rgB + 8 - 8) with (sp rgB) by lia. rewrite Hm.
    destruct (ra =? 0) eqn:E0; [split; [reflexivity | lia]|].
    destruct ((sp rgB + 8 =? sp rg) && (ra =? ip rg')) eqn:Ed; [lia|].
    cbn [fst snd]. split; [reflexivity|]. intros _ r. cbn.
    destruct r; try reflexivity; try (apply Hrf; discriminate).
Qed.
