(* X86Row.v - C05 for x86_64: one DWARF step (translate-then-exec or generic) equals the DWARF
   semantics of the row. *)
From FH Require Import Word X86 DwarfRow DwarfSpec Cfi Unwinder X86Dwarf WordFacts X86Exec SpecFacts.
From Coq Require Import Lia ZifyBool ZifyN.
Open Scope N_scope.
Ltac Zify.zify_post_hook ::= Z.div_mod_to_equations.
Arguments N.add : simpl never.
Arguments N.sub : simpl never.
Arguments N.mul : simpl never.
Arguments N.eqb : simpl never.
Arguments N.ltb : simpl never.
Arguments N.leb : simpl never.
Arguments Z.add : simpl never.
Arguments Z.mul : simpl never.
Arguments Z.eqb : simpl never.
Arguments Z.rem : simpl never.
Arguments Z.quot : simpl never.

(* what with_cache does with the callback's answer, ignoring the cache *)
Definition row_outcome_x86 (rw : row) (first : bool) (rg : regs) (m : mem) : res (option N) * regs :=
  match row_step_x86 rw first rg m with
  | CbRule r => exec ra_addr_checked r first rg m
  | CbUncacheable ra rg' => (if ra =? 0 then Ok None else Ok (Some ra), rg')
  | CbErr rg1 | CbErrV rg1 => exec ra_addr_checked fallback_rule first rg1 m
  | CbPanic s => (Panic s, rg)
  | CbHang => (Hang, rg)
  end.

Definition regs64 (rg : regs) : Prop := ip rg < W64 /\ sp rg < W64 /\ bp rg < W64.

(* the caller's registers *)
Definition regs_after (rg rg' : regs) (ra cfa fp' : N) : Prop :=
  ip rg' = ra /\ sp rg' = cfa /\ bp rg' = fp' /\
  forall r, r <> RSP -> r <> RBP -> rf rg' r = rf rg r.

Lemma regs_after_rule rg ra ns nb : regs_after rg (set_bp (set_sp (set_ip rg ra) ns) nb) ra ns nb.
Proof. repeat split. intros r H1 H2. cbn. destruct r; try reflexivity; contradiction. Qed.

Lemma regs_after_generic rg ra ns nb : regs_after rg (set_sp (set_bp (set_ip rg ra) nb) ns) ra ns nb.
Proof. repeat split. intros r H1 H2. cbn. destruct r; try reflexivity; contradiction. Qed.

Lemma base_getreg rg cr b :
  (if cr =? DW_RSP then Some (sp rg) else if cr =? DW_RBP then Some (bp rg) else None) = Some b ->
  x86_getreg rg cr = Some b.
Proof.
  unfold x86_getreg. destruct (cr =? DW_RSP) eqn:E2.
  - assert (cr = DW_RSP) by lia. subst. intros H; exact H.
  - destruct (cr =? DW_RBP) eqn:E3; [|discriminate].
    assert (cr = DW_RBP) by lia. subst. intros H; exact H.
Qed.

(* ---------- the generic path meets the specification ---------- *)
Lemma generic_x86_spec rw first rg m ra cfa fp' :
  row_wf rw = true -> regs64 rg ->
  spec_step DW_RSP DW_RBP (sp rg) (bp rg) (ip rg) rw m = Some (Some ra, cfa, fp') ->
  ~ (cfa = sp rg /\ ra = ip rg) -> sp rg <= cfa -> (first = false -> sp rg < cfa) ->
  generic_x86 rw first rg m = CbUncacheable ra (set_sp (set_bp (set_ip rg ra) fp') cfa).
Proof.
  intros Hwf (Hip & Hsp & Hbp) Hspec Hadv Hge Hcaller.
  unfold row_wf in Hwf. apply andb_prop in Hwf. destruct Hwf as [Hwf Hwra].
  apply andb_prop in Hwf. destruct Hwf as [Hwc Hwfp].
  destruct (spec_shape _ _ _ _ _ _ _ _ _ _ Hspec) as (cr & off & b & Hc & Hb & Hz & Hfp & Hra).
  unfold generic_x86. rewrite Hc in *. cbn [cfa_rule_wf] in Hwc. cbn [eval_cfa_rule].
  rewrite (base_getreg _ _ _ Hb). cbn [obind]. unfold u64_plus_i64.
  assert (Hb64 : b < W64).
  { destruct (cr =? DW_RSP); [inversion Hb; subst; exact Hsp|].
    destruct (cr =? DW_RBP); [inversion Hb; subst; exact Hbp | discriminate]. }
  rewrite adds64c_zadd by assumption. rewrite Hz.
  destruct (zadd_some _ _ _ Hz) as [_ Hcfa].
  assert (Efp : match eval_register_rule (x86_getreg rg) (r_fp rw) cfa (bp rg) m with
                | Some v => v | None => bp rg end = fp').
  { unfold fp_ok in Hfp. destruct (r_fp rw); try contradiction; cbn [eval_register_rule reg_rule_wf] in *.
    - symmetry; exact Hfp.
    - symmetry; exact Hfp.
    - unfold u64_plus_i64. rewrite adds64c_zadd by assumption. rewrite Hfp. reflexivity. }
  assert (Era : match eval_register_rule (x86_getreg rg) (r_ra rw) cfa (ip rg) m with
                | Some v => Some v | None => obind (sub64c cfa 8) m end = Some ra).
  { unfold ra_ok in Hra. destruct (r_ra rw); try contradiction; cbn [eval_register_rule reg_rule_wf] in *.
    - subst ra. reflexivity.
    - unfold u64_plus_i64. rewrite adds64c_zadd by assumption. rewrite Hra. reflexivity. }
  rewrite Efp, Era.
  destruct ((cfa =? sp rg) && (ra =? ip rg)) eqn:Ea; [exfalso; apply Hadv; lia|].
  destruct (negb first && (cfa <=? sp rg)) eqn:Eb; [exfalso; destruct first; [discriminate | specialize (Hcaller eq_refl); cbn in Eb; lia]|]. reflexivity.
Qed.

(* ---------- each rule meets the specification of the rows it is produced from ---------- *)
Lemma exec_tail_ok osp rg m ns nb ra :
  8 <= ns -> m (ns - 8) = Some ra -> ra <> 0 -> ~ (ns = osp /\ ra = ip rg) ->
  exec_tail ra_addr_checked osp rg m ns nb = (Ok (Some ra), set_bp (set_sp (set_ip rg ra) ns) nb).
Proof.
  intros H8 Hm Hnz Hadv. unfold exec_tail, ra_addr_checked, ok_or, sub64c.
  destruct (8 <=? ns) eqn:E; [|lia]. rewrite Hm.
  destruct (ra =? 0) eqn:E0; [lia|].
  destruct ((ns =? osp) && (ra =? ip rg)) eqn:Ed; [exfalso; apply Hadv; lia | reflexivity].
Qed.

Theorem row_step_x86_spec rw first rg m ora cfa fp' :
  row_wf rw = true -> regs64 rg ->
  spec_step DW_RSP DW_RBP (sp rg) (bp rg) (ip rg) rw m = Some (ora, cfa, fp') ->
  match ora with
  | None => fst (row_outcome_x86 rw first rg m) = Ok None
  | Some ra =>
    ra <> 0 -> ~ (cfa = sp rg /\ ra = ip rg) -> sp rg <= cfa -> (first = false -> sp rg < cfa) ->
    (cfa_on_fp DW_RBP rw = true -> bp rg <> 0 /\ sp rg < cfa) ->
    fst (row_outcome_x86 rw first rg m) = Ok (Some ra) /\
    regs_after rg (snd (row_outcome_x86 rw first rg m)) ra cfa fp'
  end.
Proof.
  intros Hwf Hr64 Hspec. pose proof Hr64 as (Hip & Hsp & Hbp).
  destruct ora as [ra|].
  2:{ apply spec_end in Hspec. unfold row_outcome_x86, row_step_x86, translate_x86. rewrite Hspec. reflexivity. }
  intros Hnz Hadv Hge Hcaller Hfpg.
  destruct (translate_x86 rw) as [ru|] eqn:Et.
  2:{ unfold row_outcome_x86, row_step_x86. rewrite Et.
      rewrite (generic_x86_spec rw first rg m ra cfa fp' Hwf Hr64 Hspec Hadv Hge Hcaller).
      destruct (ra =? 0) eqn:E0; [lia|]. split; [reflexivity | apply regs_after_generic]. }
  (* translated: the rule's execution *)
  unfold row_outcome_x86, row_step_x86. rewrite Et.
  pose proof Hwf as Hwf'. unfold row_wf in Hwf'. apply andb_prop in Hwf'. destruct Hwf' as [Hwf' Hwra].
  apply andb_prop in Hwf'. destruct Hwf' as [Hwc Hwfp].
  destruct (spec_shape _ _ _ _ _ _ _ _ _ _ Hspec) as (cr & off & b & Hc & Hb & Hz & Hfp & Hra).
  unfold translate_x86 in Et. unfold ra_ok in Hra. unfold fp_ok in Hfp. unfold cfa_on_fp in Hfpg.
  rewrite Hc in *. cbn [cfa_rule_wf] in Hwc.
  destruct (r_ra rw) as [| |o| | | | |]; try contradiction; try discriminate.
  cbn [reg_rule_wf] in Hwra.
  destruct (o =? -8)%Z eqn:Eo; [|discriminate]. assert (o = (-8)%Z) by lia. subst o.
  destruct (zadd_some _ _ _ Hz) as [Hcz Hcfa].
  assert (Hra8 : 8 <= cfa /\ m (cfa - 8) = Some ra).
  { destruct (zadd cfa (-8)) as [x|] eqn:Ex; [|discriminate]. cbn [obind] in Hra.
    destruct (zadd_some _ _ _ Ex) as [Hx _]. assert (x = cfa - 8) by lia. subst x. split; [lia | exact Hra]. }
  destruct Hra8 as [H8 Hm8].
  destruct (cr =? DW_RSP) eqn:Ecr.
  - (* CFA = rsp + off *)
    inversion Hb; subst b.
    destruct (negb (Z.rem off 8 =? 0)%Z) eqn:Erem; [discriminate|].
    destruct (i64_to_u16 (divz off 8)) as [k|] eqn:Ek; [|discriminate].
    unfold i64_to_u16, in_u16z, divz in Ek.
    destruct ((0 <=? Z.quot off 8)%Z && (Z.quot off 8 <? 65536)%Z) eqn:Ek2; [|discriminate].
    inversion Ek; subst k.
    assert (Hk : sp rg + Z.to_N (Z.quot off 8) * 8 = cfa).
    { pose proof (Z.quot_rem' off 8). lia. }
    destruct (r_fp rw) as [| |fo| | | | |]; try contradiction; cbn [rule_to_cfa_offset] in Et.
    + inversion Et; subst ru. subst fp'. cbn [exec].
      unfold add64c. rewrite Hk. destruct (cfa <? W64) eqn:E64; [|lia].
      rewrite (exec_tail_ok (sp rg) rg m cfa (bp rg) ra) by assumption.
      split; [reflexivity | apply regs_after_rule].
    + inversion Et; subst ru. subst fp'. cbn [exec].
      unfold add64c. rewrite Hk. destruct (cfa <? W64) eqn:E64; [|lia].
      rewrite (exec_tail_ok (sp rg) rg m cfa (bp rg) ra) by assumption.
      split; [reflexivity | apply regs_after_rule].
    + cbn [reg_rule_wf] in Hwfp.
      destruct (addi64c off fo) as [sum|] eqn:Esum; [|discriminate].
      unfold addi64c in Esum. destruct (in_i64 (off + fo)) eqn:Ei; [|discriminate]. inversion Esum; subst sum.
      destruct (negb (Z.rem (off + fo) 8 =? 0)%Z) eqn:Erem2; [discriminate|].
      destruct (i64_to_i16 (divz (off + fo) 8)) as [y|] eqn:Ey; [|discriminate].
      unfold i64_to_i16, divz in Ey. destruct (in_i16 (Z.quot (off + fo) 8)) eqn:Ey2; [|discriminate].
      inversion Ey; subst y. inversion Et; subst ru. cbn [exec].
      unfold add64c. rewrite Hk. destruct (cfa <? W64) eqn:E64; [|lia].
      destruct (zadd cfa fo) as [loc|] eqn:El; [|discriminate]. cbn [obind] in Hfp.
      destruct (zadd_some _ _ _ El) as [Hlz Hl64].
      assert (Hloc : adds64c (sp rg) (Z.quot (off + fo) 8 * 8) = Some loc).
      { rewrite adds64c_zadd; [| exact Hsp | unfold in_i16, in_i64, I64MIN, I64MAX in *; lia].
        unfold zadd. pose proof (Z.quot_rem' (off + fo) 8).
        destruct ((0 <=? Z.of_N (sp rg) + Z.quot (off + fo) 8 * 8)%Z &&
                  (Z.of_N (sp rg) + Z.quot (off + fo) 8 * 8 <? Z.of_N W64)%Z) eqn:Ec2;
          [f_equal | exfalso]; unfold W64 in *; lia. }
      rewrite Hloc, Hfp.
      rewrite (exec_tail_ok (sp rg) rg m cfa fp' ra) by assumption.
      split; [reflexivity | apply regs_after_rule].
  - (* CFA = rbp + off *)
    destruct (cr =? DW_RBP) eqn:Ecr2; [|discriminate]. inversion Hb; subst b.
    destruct (Hfpg eq_refl) as [Hbnz Hlt].
    destruct (r_fp rw) as [| |fo| | | | |]; try contradiction; cbn [rule_to_cfa_offset] in Et; try discriminate.
    destruct ((off =? 16)%Z && (fo =? -16)%Z) eqn:E16; [|discriminate].
    assert (off = 16%Z /\ fo = (-16)%Z) by lia. destruct H; subst off fo.
    inversion Et; subst ru. cbn [exec].
    destruct (bp rg =? 0) eqn:Eb0; [lia|].
    assert (Hcfa16 : cfa = bp rg + 16) by lia.
    unfold add64c. rewrite <- Hcfa16. destruct (cfa <? W64) eqn:E64; [|lia].
    destruct (cfa <=? sp rg) eqn:Ele; [lia|].
    destruct (zadd cfa (-16)) as [loc|] eqn:El; [|discriminate]. cbn [obind] in Hfp.
    destruct (zadd_some _ _ _ El) as [Hlz _]. assert (loc = bp rg) by lia. subst loc. rewrite Hfp.
    rewrite (exec_tail_ok (sp rg) rg m cfa fp' ra) by assumption.
    split; [reflexivity | apply regs_after_rule].
Qed.
