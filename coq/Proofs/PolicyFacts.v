(* PolicyFacts.v - C15: the bounded evaluation, the rewriting that models it, agreement of the
   policies where the storage suffices, and absence of allocation sites. *)
From FH Require Import Consts Word DwarfRow Cfi Unwinder DwarfCb Pe X86 A64 X86Dwarf A64Dwarf X86Unw A64Unw Policy.
From Coq Require Import Lia.
Open Scope N_scope.
Arguments N.add : simpl never.
Arguments N.modulo : simpl never.

Section Cap.
Variable getreg : N -> option N.
Variable cap : nat.

(* the bounded evaluator = the unbounded one when the depth fits, and fails otherwise *)
Lemma eval_ops_cap_spec e : forall st, (length st <= cap)%nat ->
  eval_ops_cap getreg cap e st =
  if Nat.leb (max_depth e (length st)) cap then eval_ops getreg e st else None.
Proof.
  induction e as [|o t IH]; intros st Hl; cbn [eval_ops_cap eval_ops max_depth].
  - destruct (Nat.leb_spec (length st) cap); [reflexivity | lia].
  - destruct o.
    + (* EBreg *)
      destruct (getreg r) as [v|]; cbn [obind].
      2:{ destruct (Nat.leb _ _); reflexivity. }
      unfold push_cap. destruct (Nat.ltb_spec (length st) cap) as [Hlt|Hge]; cbn [obind].
      * rewrite IH by (cbn [length]; lia). cbn [length].
        destruct (Nat.leb_spec (max_depth t (S (length st))) cap);
          destruct (Nat.leb_spec (Nat.max (S (length st)) (max_depth t (S (length st)))) cap); try reflexivity; lia.
      * destruct (Nat.leb_spec (Nat.max (S (length st)) (max_depth t (S (length st)))) cap); [lia | reflexivity].
    + (* ELit *)
      unfold push_cap. destruct (Nat.ltb_spec (length st) cap) as [Hlt|Hge]; cbn [obind].
      * rewrite IH by (cbn [length]; lia). cbn [length].
        destruct (Nat.leb_spec (max_depth t (S (length st))) cap);
          destruct (Nat.leb_spec (Nat.max (S (length st)) (max_depth t (S (length st)))) cap); try reflexivity; lia.
      * destruct (Nat.leb_spec (Nat.max (S (length st)) (max_depth t (S (length st)))) cap); [lia | reflexivity].
    + (* EPlusUconst *)
      destruct st as [|a st']; [destruct (Nat.leb _ _); reflexivity|].
      rewrite IH by (cbn [length] in *; lia). reflexivity.
    + destruct st as [|b [|a st']]; try (destruct (Nat.leb _ _); reflexivity).
      rewrite IH by (cbn [length] in *; lia). reflexivity.
    + destruct st as [|b [|a st']]; try (destruct (Nat.leb _ _); reflexivity).
      rewrite IH by (cbn [length] in *; lia). reflexivity.
    + destruct st as [|b [|a st']]; try (destruct (Nat.leb _ _); reflexivity).
      rewrite IH by (cbn [length] in *; lia). reflexivity.
    + destruct st as [|b [|a st']]; try (destruct (Nat.leb _ _); reflexivity).
      rewrite IH by (cbn [length] in *; lia). reflexivity.
    + destruct (Nat.leb _ _); reflexivity.
    + destruct (Nat.leb _ _); reflexivity.
Qed.

Lemma eval_expr_cap_rewrite e : eval_expr_cap getreg cap e = eval_expr getreg (cap_expr cap e).
Proof.
  unfold eval_expr_cap, eval_expr, cap_expr, expr_fits.
  rewrite eval_ops_cap_spec by (cbn; lia). cbn [length].
  destruct (Nat.leb (max_depth e 0) cap); [reflexivity|].
  destruct (expr_too_long e); destruct (expr_too_long [EBad]); reflexivity.
Qed.

Lemma eval_cfa_rule_cap_rewrite c : eval_cfa_rule_cap getreg cap c = eval_cfa_rule getreg (cap_cfa cap c).
Proof. destruct c; cbn [eval_cfa_rule_cap eval_cfa_rule cap_cfa]; [reflexivity | apply eval_expr_cap_rewrite]. Qed.

Lemma eval_register_rule_cap_rewrite ru cfa val m :
  eval_register_rule_cap getreg cap ru cfa val m = eval_register_rule getreg (cap_rule cap ru) cfa val m.
Proof.
  destruct ru; cbn [eval_register_rule_cap eval_register_rule cap_rule]; try reflexivity;
    rewrite eval_expr_cap_rewrite; reflexivity.
Qed.
End Cap.

(* rows that fit are left alone *)
Lemma cap_expr_fits cap e : expr_fits cap e = true -> cap_expr cap e = e.
Proof. unfold cap_expr. intros ->. reflexivity. Qed.

Lemma cap_row_fits cap rw : row_fits cap rw = true -> cap_row cap rw = rw.
Proof.
  unfold row_fits, cap_row. intros H.
  apply andb_prop in H. destruct H as [H Hra]. apply andb_prop in H. destruct H as [Hc Hf].
  destruct rw as [c f r]. cbn [r_cfa r_fp r_ra] in *.
  f_equal.
  - destruct c; cbn [cap_cfa]; [reflexivity | rewrite cap_expr_fits by exact Hc; reflexivity].
  - destruct f; cbn [cap_rule]; try reflexivity; rewrite cap_expr_fits by exact Hf; reflexivity.
  - destruct r; cbn [cap_rule]; try reflexivity; rewrite cap_expr_fits by exact Hra; reflexivity.
Qed.

Lemma cap_fde_fits cap f : fde_fits cap f = true -> cap_fde cap f = f.
Proof.
  unfold fde_fits, cap_fde. intros H. destruct f as [s l rows ok]. cbn [f_start f_len f_rows f_ok] in *. f_equal.
  induction rows as [|[o rw] t IH]; [reflexivity|].
  cbn [forallb map fst snd] in *. apply andb_prop in H. destruct H as [H1 H2].
  rewrite (cap_row_fits cap rw H1), (IH H2). reflexivity.
Qed.

Lemma map_cap_fde_fits cap sec : forallb (fde_fits cap) sec = true -> map (cap_fde cap) sec = sec.
Proof.
  induction sec as [|f t IH]; [reflexivity|]. cbn [forallb map]. intros H.
  apply andb_prop in H. destruct H as [H1 H2]. rewrite (cap_fde_fits cap f H1), (IH H2). reflexivity.
Qed.

Lemma cap_module_x_fits md : mdata_fits (mdat md) = true -> cap_module_x md = md.
Proof.
  destruct md as [s e ba bs d]. unfold cap_module_x. cbn. intros H. f_equal.
  destruct d; cbn [cap_mdata mdata_fits] in *; try reflexivity. rewrite map_cap_fde_fits by exact H. reflexivity.
Qed.

Lemma cap_module_a_fits md : amdata_fits (mdat md) = true -> cap_module_a md = md.
Proof.
  destruct md as [s e ba bs d]. unfold cap_module_a. cbn. intros H. f_equal.
  destruct d; cbn [cap_amdata amdata_fits] in *; try reflexivity. rewrite map_cap_fde_fits by exact H. reflexivity.
Qed.

Lemma map_id_on {A} (f : A -> A) l : (forall x, In x l -> f x = x) -> map f l = l.
Proof.
  induction l as [|x t IH]; intros H; [reflexivity|]. cbn [map].
  rewrite (H x) by (left; reflexivity). rewrite IH; [reflexivity|]. intros y Hy. apply H. right. exact Hy.
Qed.

Theorem policies_agree_x u c a rg m :
  (forall md, In md (mods _ u) -> mdata_fits (mdat md) = true) ->
  unwind_frame_x (cap_unwinder_x u) c a rg m = unwind_frame_x u c a rg m.
Proof.
  intros H. unfold cap_unwinder_x. rewrite (map_id_on cap_module_x).
  - destruct u; reflexivity.
  - intros md Hin. apply cap_module_x_fits. apply H. exact Hin.
Qed.

Theorem policies_agree_a u c a rg m :
  (forall md, In md (mods _ u) -> amdata_fits (mdat md) = true) ->
  unwind_frame_a (cap_unwinder_a u) c a rg m = unwind_frame_a u c a rg m.
Proof.
  intros H. unfold cap_unwinder_a. rewrite (map_id_on cap_module_a).
  - destruct u; reflexivity.
  - intros md Hin. apply cap_module_a_fits. apply H. exact Hin.
Qed.

(* ---------- no allocation site on any path ---------- *)
Lemma cb_dwarf_no_alloc R G rs ur b p sec bs first rel rg m :
  alloc (snd (cb_dwarf R G rs ur b p sec bs first rel rg m)) = false.
Proof.
  unfold cb_dwarf.
  repeat match goal with
         | |- context [match ?x with _ => _ end] => destruct x
         | |- context [if ?x then _ else _] => destruct x
         end; reflexivity.
Qed.

Lemma cb_macho_no_alloc R G rs ur au sr st hr d bs first rel rg m :
  alloc (snd (MachoCb.cb_macho R G rs ur au sr st hr d bs first rel rg m)) = false.
Proof.
  unfold MachoCb.cb_macho.
  repeat match goal with
         | |- context [match ?x with _ => _ end] => destruct x
         end; reflexivity.
Qed.

Ltac crush_alloc :=
  repeat match goal with
         | |- context [match ?x with _ => _ end] => destruct x
         | |- context [if ?x then _ else _] => destruct x
         end; reflexivity.

Lemma pe_step_raw_no_alloc chk pe address first rg m : alloc (snd (pe_step_raw chk pe address first rg m)) = false.
Proof.
  unfold pe_step_raw.
  destruct (pe_lookup (pe_funcs pe) address None) as [f|]; [|reflexivity].
  destruct (ui_at (pe_uinfos pe) (rt_uinfo f)) as [u0| |]; try reflexivity.
  match goal with |- alloc (snd (match ?e with Some r => r | None => ?k end)) = false =>
    assert (Hk : alloc (snd k) = false);
    [| assert (He : forall r, e = Some r -> alloc (snd r) = false); [| destruct e as [r|]; [apply He; reflexivity | exact Hk]]]
  end.
  - crush_alloc.
  - intros r. destruct first; [|discriminate].
    destruct (rt_end f <? address); [intros H; inversion H; reflexivity|].
    destruct (pe_text pe) as [[[lo hi] bytes]|]; [|intros H; inversion H; reflexivity].
    destruct ((lo <=? address) && (address <? hi)); [|intros H; inversion H; reflexivity].
    destruct (Nat.ltb (length bytes) (N.to_nat (address - lo))); [intros H; inversion H; reflexivity|].
    cbv zeta.
    destruct (Nat.ltb _ _); [intros H; inversion H; reflexivity|].
    destruct (local_jump _ _ _ _); [discriminate|].
    destruct (eparse_sequence _ _) as [insns|]; [|discriminate].
    destruct (rule_for_sequence _) as [[ru|e|s|]|].
    + intros H; inversion H; reflexivity.
    + intros H; inversion H; reflexivity.
    + intros H; inversion H; reflexivity.
    + intros H; inversion H; reflexivity.
    + destruct (run_epilog chk u0 insns rg m); intros H; inversion H; reflexivity.
Qed.

Lemma pe_step_no_alloc chk pe address first rg m : alloc (snd (pe_step chk pe address first rg m)) = false.
Proof. unfold pe_step. cbn [snd]. apply pe_step_raw_no_alloc. Qed.

Lemma cb_x86_no_alloc md first rel rg m : alloc (snd (cb_x86 md first rel rg m)) = false.
Proof.
  unfold cb_x86. destruct (mdat md); [reflexivity | apply cb_dwarf_no_alloc | apply pe_step_no_alloc | apply cb_macho_no_alloc].
Qed.

Lemma cb_a64_no_alloc md first rel rg m : alloc (snd (cb_a64 md first rel rg m)) = false.
Proof.
  unfold cb_a64. destruct (mdat md); [reflexivity | apply cb_dwarf_no_alloc | reflexivity | apply cb_macho_no_alloc].
Qed.

Section Generic.
Variables (rule regs mdata : Type).
Variable exec : rule -> bool -> regs -> mem -> res (option N) * regs.
Variable fallback : rule.
Variable cb : module mdata -> bool -> N -> regs -> mem -> cb_result rule regs * eff.
Hypothesis cb_no_alloc : forall md first rel rg m, alloc (snd (cb md first rel rg m)) = false.

Lemma unwind_frame_no_alloc u c a rg m :
  alloc (o_eff _ _ (unwind_frame rule regs mdata exec fallback cb u c a rg m)) = false.
Proof.
  unfold unwind_frame.
  destruct (lookup_address a) as [x| | |]; try reflexivity.
  destruct (cache_lookup rule c x (gen _ u)) as [[r|slot] c1].
  - destruct (exec r (negb (is_ra a)) rg m). reflexivity.
  - destruct (find_module mdata (mods _ u) x) as [[[md rel]|]| | |]; try reflexivity.
    + pose proof (cb_no_alloc md (negb (is_ra a)) rel rg m) as H.
      destruct (cb md (negb (is_ra a)) rel rg m) as [cr ef]. cbn [snd] in H.
      destruct cr; try (destruct (exec _ _ _ _)); cbn [o_eff]; exact H.
    + destruct (exec fallback (negb (is_ra a)) rg m). reflexivity.
Qed.
End Generic.

Theorem no_alloc_x u c a rg m : alloc (o_eff _ _ (unwind_frame_x u c a rg m)) = false.
Proof. apply unwind_frame_no_alloc. apply cb_x86_no_alloc. Qed.

Theorem no_alloc_a u c a rg m : alloc (o_eff _ _ (unwind_frame_a u c a rg m)) = false.
Proof. apply unwind_frame_no_alloc. apply cb_a64_no_alloc. Qed.
