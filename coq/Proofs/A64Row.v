(* A64Row.v - C05 for aarch64: one DWARF step equals the DWARF semantics of the row. *)
From FH Require Import Word A64 DwarfRow DwarfSpec Cfi Unwinder A64Dwarf WordFacts A64Exec SpecFacts.
From Coq Require Import Lia ZifyBool ZifyN.
Open Scope N_scope.
Ltac Zify.zify_post_hook ::= Z.div_mod_to_equations.
Arguments N.add : simpl never.
Arguments N.sub : simpl never.
Arguments N.mul : simpl never.
Arguments N.eqb : simpl never.
Arguments N.ltb : simpl never.
Arguments N.leb : simpl never.
Arguments N.land : simpl never.
Arguments Z.add : simpl never.
Arguments Z.mul : simpl never.
Arguments Z.eqb : simpl never.
Arguments Z.rem : simpl never.
Arguments Z.quot : simpl never.

Definition row_outcome_a64 (rw : row) (first : bool) (rg : aregs) (m : mem) : res (option N) * aregs :=
  match row_step_a64 rw first rg m with
  | CbRule r => aexec r first rg m
  | CbUncacheable ra rg' => (if ra =? 0 then Ok None else Ok (Some ra), rg')
  | CbErr rg1 | CbErrV rg1 => aexec afallback_rule first rg1 m
  | CbPanic s => (Panic s, rg)
  | CbHang => (Hang, rg)
  end.

Definition aregs64 (rg : aregs) : Prop := lr rg < W64 /\ asp rg < W64 /\ afp rg < W64.

Lemma abase_getreg rg cr b :
  (if cr =? DW_SP then Some (asp rg) else if cr =? DW_X29 then Some (afp rg) else None) = Some b ->
  a64_getreg rg cr = Some b.
Proof.
  unfold a64_getreg. destruct (cr =? DW_SP) eqn:E2.
  - intros H; exact H.
  - destruct (cr =? DW_X29) eqn:E3; [|discriminate]. intros H; exact H.
Qed.

Definition after (rg : aregs) (ra cfa fp' : N) : aregs := mkaregs (mask rg) (strip (mask rg) ra) cfa fp'.

Lemma generic_a64_spec rw first rg m ra cfa fp' :
  row_wf rw = true -> aregs64 rg ->
  spec_step DW_SP DW_X29 (asp rg) (afp rg) (lr rg) rw m = Some (Some ra, cfa, fp') ->
  (first = false -> asp rg < cfa /\ r_fp rw <> RUndefined) ->
  generic_a64 rw first rg m = CbUncacheable (strip (mask rg) ra) (after rg ra cfa fp').
Proof.
  intros Hwf (Hlr & Hsp & Hfp64) Hspec Hge.
  unfold row_wf in Hwf. apply andb_prop in Hwf. destruct Hwf as [Hwf Hwra].
  apply andb_prop in Hwf. destruct Hwf as [Hwc Hwfp].
  destruct (spec_shape _ _ _ _ _ _ _ _ _ _ Hspec) as (cr & off & b & Hc & Hb & Hz & Hfp & Hra).
  unfold generic_a64. rewrite Hc in *. cbn [cfa_rule_wf] in Hwc. cbn [eval_cfa_rule].
  rewrite (abase_getreg _ _ _ Hb). cbn [obind]. unfold u64_plus_i64.
  assert (Hb64 : b < W64).
  { destruct (cr =? DW_SP); [inversion Hb; subst; exact Hsp|].
    destruct (cr =? DW_X29); [inversion Hb; subst; exact Hfp64 | discriminate]. }
  rewrite adds64c_zadd by assumption. rewrite Hz.
  destruct (zadd_some _ _ _ Hz) as [_ Hcfa].
  assert (Efp : eval_register_rule (a64_getreg rg) (r_fp rw) cfa (afp rg) m = Some fp' \/
                (eval_register_rule (a64_getreg rg) (r_fp rw) cfa (afp rg) m = None /\ r_fp rw = RUndefined /\ fp' = afp rg)).
  { unfold fp_ok in Hfp. destruct (r_fp rw); try contradiction; cbn [eval_register_rule reg_rule_wf] in *.
    - right. auto.
    - left. subst; reflexivity.
    - left. unfold u64_plus_i64. rewrite adds64c_zadd by assumption. exact Hfp. }
  assert (Era : eval_register_rule (a64_getreg rg) (r_ra rw) cfa (lr rg) m = Some ra).
  { unfold ra_ok in Hra. destruct (r_ra rw); try contradiction; cbn [eval_register_rule reg_rule_wf] in *.
    - subst ra. reflexivity.
    - unfold u64_plus_i64. rewrite adds64c_zadd by assumption. exact Hra. }
  destruct first; cbn [negb].
  - destruct Efp as [Efp|(Efp & _ & Hfp')]; rewrite Efp, Era; [|subst fp']; reflexivity.
  - destruct (Hge eq_refl) as [Hlt Hnu]. destruct (cfa <=? asp rg) eqn:El; [lia|].
    destruct Efp as [Efp|(Efp & Hu & Hfp')]; [|contradiction].
    rewrite Efp, Era. reflexivity.
Qed.

Lemma aexec_tail_ok first rg nl ns nf :
  strip (mask rg) nl <> 0 -> (first = false -> ns <> asp rg) ->
  aexec_tail first rg nl ns nf = (Ok (Some (strip (mask rg) nl)), after rg nl ns nf).
Proof.
  intros Hnz Hadv. unfold aexec_tail.
  destruct (strip (mask rg) nl =? 0) eqn:E0; [lia|].
  destruct first; cbn [negb andb]; [reflexivity|].
  destruct (ns =? asp rg) eqn:E; [exfalso; apply (Hadv eq_refl); lia | reflexivity].
Qed.

(* (offset + x)/8 as i16 denotes the slot cfa + x relative to the base register *)
Lemma slot_by_8_loc base off x y cfa loc :
  base < W64 -> in_i64 off = true -> in_i64 x = true ->
  zadd base off = Some cfa -> zadd cfa x = Some loc -> slot_by_8 off x = Some y ->
  adds64c base (y * 8) = Some loc.
Proof.
  intros Hb Ho Hx Hz Hl Hs. unfold slot_by_8, addi64c in Hs.
  destruct (in_i64 (off + x)) eqn:Ei; [|discriminate].
  destruct (negb (Z.rem (off + x) 8 =? 0)%Z) eqn:Er; [discriminate|].
  unfold i64_to_i16, divz in Hs. destruct (in_i16 (Z.quot (off + x) 8)) eqn:Ey; [|discriminate].
  inversion Hs; subst y.
  destruct (zadd_some _ _ _ Hz) as [Hcz _]. destruct (zadd_some _ _ _ Hl) as [Hlz Hl64].
  rewrite adds64c_zadd; [| exact Hb | unfold in_i16, in_i64, I64MIN, I64MAX in *; lia].
  unfold zadd. pose proof (Z.quot_rem' (off + x) 8).
  destruct ((0 <=? Z.of_N base + Z.quot (off + x) 8 * 8)%Z &&
            (Z.of_N base + Z.quot (off + x) 8 * 8 <? Z.of_N W64)%Z) eqn:Ec2;
    [f_equal | exfalso]; unfold W64 in *; lia.
Qed.

Theorem row_step_a64_spec rw first rg m ora cfa fp' :
  row_wf rw = true -> aregs64 rg ->
  spec_step DW_SP DW_X29 (asp rg) (afp rg) (lr rg) rw m = Some (ora, cfa, fp') ->
  match ora with
  | None =>
    (* known finding S14 excluded: end of stack is only honoured for caller frames whose row
       compresses to OffsetSpIfFirstFrameOtherwiseStackEndsHere *)
    first = false -> cfa_on_fp DW_X29 rw = false ->
    (forall o, r_fp rw <> ROffset o) ->
    (exists r, translate_a64 rw = Some r) ->
    fst (row_outcome_a64 rw first rg m) = Ok None
  | Some ra =>
    strip (mask rg) ra <> 0 ->
    (first = false -> asp rg < cfa /\ r_fp rw <> RUndefined /\ r_ra rw <> RSameValue) ->
    (cfa_on_fp DW_X29 rw = true -> fp' <> 0 /\ afp rg < fp' /\ asp rg < cfa) ->
    row_outcome_a64 rw first rg m = (Ok (Some (strip (mask rg) ra)), after rg ra cfa fp')
  end.
Proof.
  intros Hwf Hr64 Hspec. pose proof Hr64 as (Hlr & Hsp & Hfp64).
  destruct ora as [ra|].
  2:{ intros Hf Hnfp Hnofp [r Ht]. apply spec_end in Hspec.
      unfold row_outcome_a64, row_step_a64. rewrite Ht.
      unfold translate_a64 in Ht. unfold cfa_on_fp in Hnfp. rewrite Hspec in Ht.
      destruct (r_cfa rw) as [cr off|]; [|discriminate].
      destruct (cr =? DW_SP) eqn:Ecr.
      - destruct (negb (Z.rem off 16 =? 0)%Z); [discriminate|].
        destruct (i64_to_u16 (divz off 16)); [|discriminate].
        cbn [rule_to_cfa_offset] in Ht.
        destruct (r_fp rw) as [| |fo| | | | |]; cbn [rule_to_cfa_offset] in Ht; try discriminate.
        + inversion Ht; subst. reflexivity.
        + inversion Ht; subst. reflexivity.
      - rewrite Hnfp in Ht. discriminate. }
  intros Hnz Hcaller Hfpg.
  destruct (translate_a64 rw) as [ru|] eqn:Et.
  2:{ unfold row_outcome_a64, row_step_a64. rewrite Et.
      rewrite (generic_a64_spec rw first rg m ra cfa fp' Hwf Hr64 Hspec).
      - destruct (strip (mask rg) ra =? 0) eqn:E0; [lia | reflexivity].
      - intros Hf. destruct (Hcaller Hf) as (H1 & H2 & _). split; assumption. }
  unfold row_outcome_a64, row_step_a64. rewrite Et.
  pose proof Hwf as Hwf'. unfold row_wf in Hwf'. apply andb_prop in Hwf'. destruct Hwf' as [Hwf' Hwra].
  apply andb_prop in Hwf'. destruct Hwf' as [Hwc Hwfp].
  destruct (spec_shape _ _ _ _ _ _ _ _ _ _ Hspec) as (cr & off & b & Hc & Hb & Hz & Hfp & Hra).
  unfold translate_a64 in Et. unfold ra_ok in Hra. unfold fp_ok in Hfp. unfold cfa_on_fp in Hfpg.
  rewrite Hc in *. cbn [cfa_rule_wf] in Hwc.
  destruct (zadd_some _ _ _ Hz) as [Hcz Hcfa].
  assert (Hadv : first = false -> cfa <> asp rg).
  { intros Hf. destruct (Hcaller Hf) as (H1 & _). lia. }
  destruct (cr =? DW_SP) eqn:Ecr.
  - (* CFA = sp + off *)
    inversion Hb; subst b.
    destruct (negb (Z.rem off 16 =? 0)%Z) eqn:Erem; [discriminate|].
    destruct (i64_to_u16 (divz off 16)) as [k|] eqn:Ek; [|discriminate].
    unfold i64_to_u16, in_u16z, divz in Ek.
    destruct ((0 <=? Z.quot off 16)%Z && (Z.quot off 16 <? 65536)%Z) eqn:Ek2; [|discriminate].
    inversion Ek; subst k.
    assert (Hk : asp rg + Z.to_N (Z.quot off 16) * 16 = cfa).
    { pose proof (Z.quot_rem' off 16). lia. }
    destruct (r_ra rw) as [| |lo| | | | |] eqn:Era; try contradiction; cbn [rule_to_cfa_offset] in Et.
    + (* lr same value *)
      subst ra.
      destruct (r_fp rw) as [| |fo| | | | |] eqn:Efp; try contradiction; cbn [rule_to_cfa_offset] in Et; try discriminate.
      * inversion Et; subst ru. subst fp'. cbn [aexec].
        destruct first; cbn [negb]; [|destruct (Hcaller eq_refl) as (_ & _ & H3); congruence].
        unfold add64c. rewrite Hk. destruct (cfa <? W64) eqn:E64; [|lia].
        apply aexec_tail_ok; [exact Hnz | discriminate].
      * inversion Et; subst ru. subst fp'. cbn [aexec].
        destruct first; cbn [negb]; [|destruct (Hcaller eq_refl) as (_ & _ & H3); congruence].
        unfold add64c. rewrite Hk. destruct (cfa <? W64) eqn:E64; [|lia].
        apply aexec_tail_ok; [exact Hnz | discriminate].
    + (* lr saved *)
      cbn [reg_rule_wf] in Hwra.
      destruct (zadd cfa lo) as [ll|] eqn:Ell; [|discriminate]. cbn [obind] in Hra.
      destruct (r_fp rw) as [| |fo| | | | |] eqn:Efp; try contradiction; cbn [rule_to_cfa_offset] in Et; try discriminate.
      * destruct (slot_by_8 off lo) as [l|] eqn:Esl; [|discriminate]. inversion Et; subst ru. subst fp'.
        cbn [aexec]. unfold add64c. rewrite Hk. destruct (cfa <? W64) eqn:E64; [|lia].
        rewrite (slot_by_8_loc (asp rg) off lo l cfa ll Hsp Hwc Hwra Hz Ell Esl). rewrite Hra.
        apply aexec_tail_ok; assumption.
      * destruct (slot_by_8 off lo) as [l|] eqn:Esl; [|discriminate]. inversion Et; subst ru. subst fp'.
        cbn [aexec]. unfold add64c. rewrite Hk. destruct (cfa <? W64) eqn:E64; [|lia].
        rewrite (slot_by_8_loc (asp rg) off lo l cfa ll Hsp Hwc Hwra Hz Ell Esl). rewrite Hra.
        apply aexec_tail_ok; assumption.
      * cbn [reg_rule_wf] in Hwfp.
        destruct (zadd cfa fo) as [fl|] eqn:Efl; [|discriminate]. cbn [obind] in Hfp.
        destruct (slot_by_8 off lo) as [l|] eqn:Esl; [|discriminate].
        destruct (slot_by_8 off fo) as [f|] eqn:Esf; [|discriminate]. inversion Et; subst ru.
        cbn [aexec]. unfold add64c. rewrite Hk. destruct (cfa <? W64) eqn:E64; [|lia].
        rewrite (slot_by_8_loc (asp rg) off lo l cfa ll Hsp Hwc Hwra Hz Ell Esl). rewrite Hra.
        rewrite (slot_by_8_loc (asp rg) off fo f cfa fl Hsp Hwc Hwfp Hz Efl Esf). rewrite Hfp.
        apply aexec_tail_ok; assumption.
  - (* CFA = x29 + off *)
    destruct (cr =? DW_X29) eqn:Ecr2; [|discriminate]. inversion Hb; subst b.
    destruct (Hfpg eq_refl) as (Hfnz & Hfgt & Hsplt).
    destruct (r_ra rw) as [| |lo| | | | |] eqn:Era; try contradiction; cbn [rule_to_cfa_offset] in Et; try discriminate.
    cbn [reg_rule_wf] in Hwra.
    destruct (zadd cfa lo) as [ll|] eqn:Ell; [|discriminate]. cbn [obind] in Hra.
    destruct (r_fp rw) as [| |fo| | | | |] eqn:Efp; try contradiction; cbn [rule_to_cfa_offset] in Et; try discriminate.
    cbn [reg_rule_wf] in Hwfp.
    destruct (zadd cfa fo) as [fl|] eqn:Efl; [|discriminate]. cbn [obind] in Hfp.
    destruct (zadd_some _ _ _ Ell) as [Hllz _]. destruct (zadd_some _ _ _ Efl) as [Hflz _].
    destruct ((off =? 16)%Z && (fo =? -16)%Z && (lo =? -8)%Z) eqn:E16.
    + assert (off = 16%Z /\ fo = (-16)%Z /\ lo = (-8)%Z) by lia. destruct H as (-> & -> & ->).
      inversion Et; subst ru. cbn [aexec].
      assert (Hc16 : cfa = afp rg + 16) by lia.
      unfold add64c. rewrite <- Hc16. destruct (cfa <? W64) eqn:E64; [|lia].
      rewrite add64p_nopanic by lia.
      assert (ll = afp rg + 8) by lia. subst ll. rewrite Hra.
      assert (fl = afp rg) by lia. subst fl. rewrite Hfp.
      destruct (fp' =? 0) eqn:Ef0; [lia|].
      destruct ((fp' <=? afp rg) || (cfa <=? asp rg)) eqn:Eg; [lia|].
      apply aexec_tail_ok; [exact Hnz | intros _; lia].
    + destruct (negb (Z.rem off 8 =? 0)%Z) eqn:Erem; [discriminate|].
      destruct (i64_to_u16 (divz off 8)) as [k|] eqn:Ek; [|discriminate].
      unfold i64_to_u16, in_u16z, divz in Ek.
      destruct ((0 <=? Z.quot off 8)%Z && (Z.quot off 8 <? 65536)%Z) eqn:Ek2; [|discriminate].
      inversion Ek; subst k.
      assert (Hk : afp rg + Z.to_N (Z.quot off 8) * 8 = cfa).
      { pose proof (Z.quot_rem' off 8). lia. }
      destruct (slot_by_8 off lo) as [l|] eqn:Esl; [|discriminate].
      destruct (slot_by_8 off fo) as [f|] eqn:Esf; [|discriminate]. inversion Et; subst ru.
      cbn [aexec]. unfold add64c. rewrite Hk. destruct (cfa <? W64) eqn:E64; [|lia].
      rewrite (slot_by_8_loc (afp rg) off lo l cfa ll Hfp64 Hwc Hwra Hz Ell Esl). rewrite Hra.
      rewrite (slot_by_8_loc (afp rg) off fo f cfa fl Hfp64 Hwc Hwfp Hz Efl Esf). rewrite Hfp.
      destruct (fp' =? 0) eqn:Ef0; [lia|].
      destruct ((fp' <=? afp rg) || (cfa <=? asp rg)) eqn:Eg; [lia|].
      apply aexec_tail_ok; [exact Hnz | intros _; lia].
Qed.
