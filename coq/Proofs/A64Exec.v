(* A64Exec.v - facts about aarch64 rule execution: totality (C09), stripping (C16),
   progress (C10), non-null results (C11). *)
From FH Require Import Word A64 WordFacts.
From Coq Require Import Lia ZifyBool ZifyN ZifyNat.
Open Scope N_scope.
Ltac Zify.zify_post_hook ::= Z.div_mod_to_equations.
Arguments N.add : simpl never.
Arguments N.sub : simpl never.
Arguments N.mul : simpl never.
Arguments N.eqb : simpl never.
Arguments N.ltb : simpl never.
Arguments N.leb : simpl never.
Arguments N.land : simpl never.

Lemma strip_idem k p : strip k (strip k p) = strip k p.
Proof. unfold strip. rewrite <- N.land_assoc, N.land_diag. reflexivity. Qed.

(* "all bits outside the mask are clear"  <->  land x k = x *)
Definition stripped (k x : N) : Prop := N.land x k = x.

Lemma strip_stripped k p : stripped k (strip k p).
Proof. unfold stripped. apply strip_idem. Qed.

Lemma stripped_outside_zero k x : stripped k x -> forall i, N.testbit k i = false -> N.testbit x i = false.
Proof.
  unfold stripped. intros H i Hk. rewrite <- H. rewrite N.land_spec, Hk. apply Bool.andb_false_r.
Qed.

Lemma aexec_tail_returns first rg nl ns nf : returns (fst (aexec_tail first rg nl ns nf)) = true.
Proof.
  unfold aexec_tail. destruct (strip (mask rg) nl =? 0); [reflexivity|].
  destruct (negb first && (ns =? asp rg)); reflexivity.
Qed.

Lemma add16_then_add8 f n : add64c f 16 = Some n -> add64p S_a64_rule_fp_add f 8 = Ok (f + 8).
Proof. intros H. apply add64c_some in H. apply add64p_nopanic. lia. Qed.

Theorem aexec_total ru first rg m : returns (fst (aexec ru first rg m)) = true.
Proof.
  destruct ru; cbn [aexec].
  - destruct (negb first); [reflexivity | apply aexec_tail_returns].
  - destruct first; [apply aexec_tail_returns|].
    destruct (add64c (afp rg) 16) eqn:Ea; [|reflexivity].
    rewrite (add16_then_add8 _ _ Ea).
    destruct (m (afp rg + 8)); [|reflexivity].
    destruct (m (afp rg)); [|reflexivity].
    destruct (n1 =? 0); [reflexivity|].
    destruct (n <=? asp rg); [reflexivity | apply aexec_tail_returns].
  - destruct (negb first); [reflexivity|].
    destruct (add64c (asp rg) (k * 16)); [apply aexec_tail_returns | reflexivity].
  - destruct (negb first); [reflexivity|].
    destruct (add64c (asp rg) (k * 16)); [apply aexec_tail_returns | reflexivity].
  - destruct (add64c (asp rg) (k * 16)); [|reflexivity].
    destruct (adds64c (asp rg) (l * 8)); [|reflexivity].
    destruct (m n0); [apply aexec_tail_returns | reflexivity].
  - destruct (add64c (asp rg) (k * 16)); [|reflexivity].
    destruct (adds64c (asp rg) (l * 8)); [|reflexivity].
    destruct (m n0); [|reflexivity].
    destruct (adds64c (asp rg) (f * 8)); [|reflexivity].
    destruct (m n2); [apply aexec_tail_returns | reflexivity].
  - destruct (add64c (afp rg) 16) eqn:Ea; [|reflexivity].
    rewrite (add16_then_add8 _ _ Ea).
    destruct (m (afp rg + 8)); [|reflexivity].
    destruct (m (afp rg)); [|reflexivity].
    destruct (n1 =? 0); [reflexivity|].
    destruct ((n1 <=? afp rg) || (n <=? asp rg)); [reflexivity | apply aexec_tail_returns].
  - destruct (add64c (afp rg) (k * 8)); [|reflexivity].
    destruct (adds64c (afp rg) (l * 8)); [|reflexivity].
    destruct (m n0); [|reflexivity].
    destruct (adds64c (afp rg) (f * 8)); [|reflexivity].
    destruct (m n2); [|reflexivity].
    destruct (n3 =? 0); [reflexivity|].
    destruct ((n3 <=? afp rg) || (n <=? asp rg)); [reflexivity | apply aexec_tail_returns].
Qed.

Lemma aexec_tail_some first rg nl ns nf ra rg' :
  aexec_tail first rg nl ns nf = (Ok (Some ra), rg') ->
  ra = strip (mask rg) nl /\ ra <> 0 /\ (first = false -> ns <> asp rg) /\
  rg' = set_afp (set_asp (set_lr rg nl) ns) nf.
Proof.
  unfold aexec_tail. destruct (strip (mask rg) nl =? 0) eqn:E0; [discriminate|].
  destruct (negb first && (ns =? asp rg)) eqn:Ed; [discriminate|].
  intros H; inversion H; subst. repeat split; try lia.
  intros ->. cbn in Ed. lia.
Qed.

Lemma aexec_tail_err_regs first rg nl ns nf r rg' :
  aexec_tail first rg nl ns nf = (r, rg') -> (forall ra, r <> Ok (Some ra)) -> rg' = rg.
Proof.
  unfold aexec_tail. destruct (strip (mask rg) nl =? 0); [intros H _; now inversion H|].
  destruct (negb first && (ns =? asp rg)); [intros H _; now inversion H|].
  intros H Hn; inversion H; subst. exfalso. eapply Hn; reflexivity.
Qed.

(* Every successful step: the reported address and the lr left in the register set are the
   stripped value; the mask is unchanged; the address is non-null; for caller frames sp grows. *)
Theorem aexec_some ru first rg m ra rg' :
  aexec ru first rg m = (Ok (Some ra), rg') ->
  stripped (mask rg) ra /\ lr rg' = ra /\ mask rg' = mask rg /\ ra <> 0 /\
  (first = false -> asp rg < asp rg').
Proof.
  assert (T : forall nl ns nf, asp rg <= ns ->
              aexec_tail first rg nl ns nf = (Ok (Some ra), rg') ->
              stripped (mask rg) ra /\ lr rg' = ra /\ mask rg' = mask rg /\ ra <> 0 /\
              (first = false -> asp rg < asp rg')).
  { intros nl ns nf Hle H. apply aexec_tail_some in H. destruct H as (-> & Hnz & Hadv & ->).
    cbn. repeat split; auto using strip_stripped.
    intros Hf. specialize (Hadv Hf). lia. }
  destruct ru; cbn [aexec].
  - destruct (negb first); [discriminate|]. apply T. lia.
  - destruct first; [apply T; lia|].
    destruct (add64c (afp rg) 16) eqn:Ea; [|discriminate].
    rewrite (add16_then_add8 _ _ Ea).
    destruct (m (afp rg + 8)); [|discriminate].
    destruct (m (afp rg)); [|discriminate].
    destruct (n1 =? 0); [discriminate|].
    destruct (n <=? asp rg) eqn:El; [discriminate|]. apply T. lia.
  - destruct (negb first); [discriminate|].
    destruct (add64c (asp rg) (k * 16)) eqn:Ea; [|discriminate]. apply add64c_some in Ea.
    apply T. lia.
  - destruct (negb first); [discriminate|].
    destruct (add64c (asp rg) (k * 16)) eqn:Ea; [|discriminate]. apply add64c_some in Ea.
    apply T. lia.
  - destruct (add64c (asp rg) (k * 16)) eqn:Ea; [|discriminate]. apply add64c_some in Ea.
    destruct (adds64c (asp rg) (l * 8)); [|discriminate].
    destruct (m n0); [|discriminate]. apply T. lia.
  - destruct (add64c (asp rg) (k * 16)) eqn:Ea; [|discriminate]. apply add64c_some in Ea.
    destruct (adds64c (asp rg) (l * 8)); [|discriminate].
    destruct (m n0); [|discriminate].
    destruct (adds64c (asp rg) (f * 8)); [|discriminate].
    destruct (m n2); [|discriminate]. apply T. lia.
  - destruct (add64c (afp rg) 16) eqn:Ea; [|discriminate].
    rewrite (add16_then_add8 _ _ Ea).
    destruct (m (afp rg + 8)); [|discriminate].
    destruct (m (afp rg)); [|discriminate].
    destruct (n1 =? 0); [discriminate|].
    destruct ((n1 <=? afp rg) || (n <=? asp rg)) eqn:El; [discriminate|]. apply T. lia.
  - destruct (add64c (afp rg) (k * 8)) eqn:Ea; [|discriminate].
    destruct (adds64c (afp rg) (l * 8)); [|discriminate].
    destruct (m n0); [|discriminate].
    destruct (adds64c (afp rg) (f * 8)); [|discriminate].
    destruct (m n2); [|discriminate].
    destruct (n3 =? 0); [discriminate|].
    destruct ((n3 <=? afp rg) || (n <=? asp rg)) eqn:El; [discriminate|]. apply T. lia.
Qed.

(* ---------- PtrAuthMask constructors ---------- *)
Lemma ones64 : MAX64 = N.ones 64. Proof. reflexivity. Qed.

Lemma size_le_64 a : a < W64 -> N.size a <= 64.
Proof.
  intros H. destruct (N.eq_dec a 0) as [->|Hz]; [cbn; lia|].
  rewrite N.size_log2 by assumption.
  assert (N.log2 a < 64); [|lia]. apply N.log2_lt_pow2; [lia | exact H].
Qed.

Lemma shiftr_ones n s : s <= n -> N.shiftr (N.ones n) (n - s) = N.ones s.
Proof.
  intros H. apply N.bits_inj. intros i. rewrite N.shiftr_spec by lia.
  destruct (N.ltb_spec i s) as [Hi|Hi].
  - rewrite !N.ones_spec_low by lia. reflexivity.
  - rewrite !N.ones_spec_high by lia. reflexivity.
Qed.

(* the fixed constructor never panics and equals ones(size a) *)
Lemma mask_from_max_checked_val a : a < W64 ->
  mask_from_max_checked a = Ok (N.ones (N.size a)).
Proof.
  intros H. unfold mask_from_max_checked, shr64c0, clz64. f_equal.
  pose proof (size_le_64 a H) as Hs.
  destruct (64 - N.size a <? 64) eqn:E.
  - rewrite ones64. apply shiftr_ones. exact Hs.
  - assert (N.size a = 0) by lia.
    rewrite H0. reflexivity.
Qed.

Theorem mask_preserves a x : a < W64 -> x <= a ->
  exists k, mask_from_max_checked a = Ok k /\ N.land x k = x.
Proof.
  intros Ha Hx. eexists; split; [apply mask_from_max_checked_val; exact Ha|].
  rewrite N.land_ones. apply N.mod_small.
  destruct (N.eq_dec a 0) as [->|Hz].
  - assert (x = 0) by lia. subst. cbn. lia.
  - apply N.le_lt_trans with a; [exact Hx|]. apply N.size_gt.
Qed.

(* before the fix for S1 *)
Lemma mask_from_max_bare_refuted : mask_from_max_bare 0 = Panic S_mask_shr.
Proof. reflexivity. Qed.

Lemma mask_24_40_val : mask_24_40 = N.ones 40. Proof. reflexivity. Qed.

(* new_with_ptr_auth_mask strips lr *)
Lemma aregs_new_with_mask_stripped k l s f : stripped k (lr (aregs_new_with_mask k l s f)).
Proof. cbn. apply strip_stripped. Qed.
