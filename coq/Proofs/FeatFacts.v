(* FeatFacts.v - C19: the selected unwind-data kind does not depend on the feature set for modules
   that offer none of the sections a guarded selector looks at. *)
From Coq Require Import String List Bool.
From FH Require Import Features.
Import ListNotations.
Open Scope string_scope.

Lemma select_independent fs fs' has l :
  (forall f n r, In (Some f, n, r) l -> has n = false) -> select fs has l = select fs' has l.
Proof.
  induction l as [|[[o n] r] t IH]; intros H; [reflexivity|].
  cbn [select]. destruct o as [f|].
  - rewrite (H f n r) by (left; reflexivity). rewrite !andb_false_r.
    apply IH. intros f' n' r' Hin. apply (H f' n' r'). right. exact Hin.
  - destruct (has n); [reflexivity|].
    apply IH. intros f' n' r' Hin. apply (H f' n' r'). right. exact Hin.
Qed.

Lemma in_guarded_names (l : list (option feature * string * bool)) f n r :
  In (Some f, n, r) l -> In n (flat_map (fun x => match x with (Some _, n, _) => [n] | _ => [] end) l).
Proof.
  induction l as [|[[o m] q] t IH]; intros H; [contradiction|].
  destruct H as [H|H].
  - inversion H; subst. cbn. left. reflexivity.
  - cbn [flat_map]. apply in_or_app. right. apply IH. exact H.
Qed.

Theorem kind_independent_of_features fs fs' has :
  (forall n, In n guarded_names -> has n = false) -> module_kind fs has = module_kind fs' has.
Proof.
  intros H. apply select_independent. intros f n r Hin. apply H.
  unfold guarded_names. eapply in_guarded_names. exact Hin.
Qed.

(* the sections a DWARF / frame-pointer module offers are not looked at by any guarded selector
   (finite check over the regenerated lists) *)
Definition dwarf_names_unguarded : bool :=
  forallb (fun n => negb (in_names n SRC_NEW_UNGUARDED_NAMES)) guarded_names.

Lemma existsb_eqb_in n l : existsb (String.eqb n) l = false -> ~ In n l.
Proof.
  induction l as [|x t IH]; cbn; intros H Hin; [exact Hin|].
  apply orb_false_iff in H. destruct H as [H1 H2].
  destruct Hin as [->|Hin]; [rewrite String.eqb_refl in H1; discriminate | exact (IH H2 Hin)].
Qed.

Theorem dwarf_only_module_independent fs fs' has :
  dwarf_names_unguarded = true ->
  (forall n, has n = true -> In n SRC_NEW_UNGUARDED_NAMES) ->
  module_kind fs has = module_kind fs' has.
Proof.
  intros Hd Hhas. apply kind_independent_of_features. intros n Hin.
  destruct (has n) eqn:E; [|reflexivity]. exfalso.
  unfold dwarf_names_unguarded in Hd. rewrite forallb_forall in Hd.
  specialize (Hd n Hin). apply negb_true_iff in Hd.
  exact (existsb_eqb_in n _ Hd (Hhas n E)).
Qed.
