(* PacFrame.v - C16, second sentence, for one whole unwind_frame call: when the step is rule-based (cache hit,
   statically classified rule or error of the module's data, fallback) the rule it executes is known before any
   memory is read (rule_at); if the two stacks differ only in authentication bits of the word in that rule's
   return-address slot, the call returns the same result, the same registers and the same cache. *)
From FH Require Import Consts Word A64 Unwinder A64Unw WordFacts A64Exec HistFacts StaticFacts TruncFacts TruncWalk PacFacts.
From Coq Require Import Lia ZifyBool ZifyN.
Open Scope N_scope.
Arguments N.add : simpl never.
Arguments N.sub : simpl never.
Arguments N.mul : simpl never.
Arguments N.eqb : simpl never.
Arguments N.ltb : simpl never.
Arguments N.leb : simpl never.
Arguments N.land : simpl never.

Section F.
Variable u : aunwinder.

(* the rule a rule-based call will execute *)
Definition rule_at (c : acache) (a : faddr) : option arule :=
  match lookup_address a with
  | Ok x =>
    match cache_lookup arule c x (gen _ u) with
    | (Hit _ r, _) => Some r
    | (Miss _ _, _) =>
      match find_module amdata (mods _ u) x with
      | Ok None => Some afallback_rule
      | Ok (Some (md, rel)) =>
        match cb_static_a64 md (negb (is_ra a)) rel with
        | SRule _ r => Some r
        | SErr _ => Some afallback_rule
        | SDyn _ => None
        end
      | _ => None
      end
    end
  | _ => None
  end.

Theorem unwind_frame_signed_a c a rg m m' r :
  rule_at c a = Some r ->
  arule_wf r = true -> asp rg < W64 -> afp rg < W64 -> slots_distinct r ->
  signed_at (mask rg) (lr_slot r (negb (is_ra a)) rg) m m' ->
  let o := unwind_frame_a u c a rg m in let o' := unwind_frame_a u c a rg m' in
  o_res _ _ o' = o_res _ _ o /\ o_regs _ _ o' = o_regs _ _ o /\ o_cache _ _ o' = o_cache _ _ o.
Proof.
  intros Hr Hwf Hsp Hfp Hd Hs. cbv zeta.
  assert (EX : aexec r (negb (is_ra a)) rg m' = aexec r (negb (is_ra a)) rg m)
    by (apply aexec_signed; assumption).
  unfold rule_at in Hr. unfold unwind_frame_a, unwind_frame.
  destruct (lookup_address a) as [x| | |]; try discriminate.
  destruct (cache_lookup arule c x (gen _ u)) as [[r0|slot] c1].
  - inversion Hr; subst r0. rewrite EX. destruct (aexec r (negb (is_ra a)) rg m). cbn. auto.
  - destruct (find_module amdata (mods _ u) x) as [[[md rel]|]|e|s|]; try discriminate.
    + pose proof (cb_a64_ok md (negb (is_ra a)) rel rg m) as A. pose proof (cb_a64_ok md (negb (is_ra a)) rel rg m') as B.
      destruct (cb_static_a64 md (negb (is_ra a)) rel) as [r0| |]; [| |discriminate].
      * inversion Hr; subst r0.
        destruct (cb_a64 md (negb (is_ra a)) rel rg m) as [cr1 ef1]. destruct (cb_a64 md (negb (is_ra a)) rel rg m') as [cr2 ef2].
        cbn [fst] in A, B. subst. rewrite EX. destruct (aexec r (negb (is_ra a)) rg m). cbn. auto.
      * inversion Hr; subst r.
        destruct (cb_a64 md (negb (is_ra a)) rel rg m) as [cr1 ef1]. destruct (cb_a64 md (negb (is_ra a)) rel rg m') as [cr2 ef2].
        cbn [fst] in A, B. subst. rewrite EX. destruct (aexec afallback_rule (negb (is_ra a)) rg m). cbn. auto.
    + inversion Hr; subst r. rewrite EX. destruct (aexec afallback_rule (negb (is_ra a)) rg m). cbn. auto.
Qed.
End F.
