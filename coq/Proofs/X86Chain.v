(* X86Chain.v - C01 (row level), x86_64: walking a stack whose frames are described exactly by
   DWARF rows yields exactly the chain of return addresses, with the caller's sp / bp after every
   step, and completes with Ok(None) at the root. *)
From FH Require Import Consts Word X86 DwarfRow DwarfSpec Cfi Unwinder X86Dwarf DwarfCb X86Unw
  WordFacts X86Exec SpecFacts X86Row HistFacts CfiFacts ModFacts X86Walk.
From Coq Require Import Lia ZifyBool ZifyN.
Open Scope N_scope.
Arguments exec : simpl never.
Arguments cb_x86 : simpl never.
Arguments find_module : simpl never.
Arguments cache_lookup : simpl never.
Arguments row_step_x86 : simpl never.

(* one unwind_frame call on a fresh cache, for an address covered by FDE f whose row is rw,
   behaves as row_outcome_x86 on that row *)
Lemma unwind_frame_via_row u a x rg m md rel p sec f rw :
  lookup_address a = Ok x -> find_module mdata (mods _ u) x = Ok (Some (md, rel)) ->
  mdat md = MDwarf p sec -> fdes_wf sec (base_svma md) -> base_svma md + rel < W64 ->
  In f sec -> covers fde f_start f_end f (base_svma md + rel) ->
  row_for_address f (base_svma md + rel) = Some rw ->
  let o := unwind_frame_x u (cache_new rule) a rg m in
  (o_res _ _ o, o_regs _ _ o) = row_outcome_x86 rw (negb (is_ra a)) rg m.
Proof.
  intros Hx Hf Hd Hwf Hrel Hin Hcov Hrow. cbv zeta. unfold unwind_frame_x, unwind_frame. rewrite Hx.
  destruct (fresh_lookup_miss x (gen _ u)) as [c1 Hl]. rewrite Hl, Hf.
  assert (Hcb : fst (cb_x86 md (negb (is_ra a)) rel rg m) = row_step_x86 rw (negb (is_ra a)) rg m).
  { unfold cb_x86. rewrite Hd.
    rewrite (presentations_agree rule regs row_step_x86 uncovered_rule_x86 sec (base_svma md)
               (negb (is_ra a)) rel rg m p PHdr Hwf Hrel).
    unfold cb_dwarf. rewrite add64p_nopanic by exact Hrel.
    destruct (hdr_lookup_spec sec (base_svma md) (base_svma md + rel) Hwf) as (Hc & _ & _).
    rewrite (Hc f Hin Hcov). cbn [fst]. unfold with_fde. rewrite Hrow. reflexivity. }
  unfold row_outcome_x86.
  destruct (cb_x86 md (negb (is_ra a)) rel rg m) as [cr ef]. cbn [fst] in Hcb. rewrite <- Hcb.
  destruct cr.
  - unfold exec_x. destruct (exec ra_addr_checked r (negb (is_ra a)) rg m). reflexivity.
  - reflexivity.
  - unfold exec_x. destruct (exec ra_addr_checked fallback_rule (negb (is_ra a)) rg0 m). reflexivity.
  - unfold exec_x. destruct (exec ra_addr_checked fallback_rule (negb (is_ra a)) rg0 m). reflexivity.
  - reflexivity.
  - reflexivity.
Qed.

(* An activation: the frame's code address, the FDE row in force there, and what the DWARF
   specification yields for the registers at that point. [described u m a rg ora cfa fp'] says the
   unwinder's modules hold CFI that EXACTLY describes this frame. *)
Definition described (u : xunwinder) (m : mem) (a : faddr) (rg : regs) (ora : option N) (cfa fp' : N) : Prop :=
  exists x md rel p sec f rw,
    lookup_address a = Ok x /\ find_module mdata (mods _ u) x = Ok (Some (md, rel)) /\
    mdat md = MDwarf p sec /\ fdes_wf sec (base_svma md) /\ base_svma md + rel < W64 /\
    In f sec /\ covers fde f_start f_end f (base_svma md + rel) /\
    row_for_address f (base_svma md + rel) = Some rw /\
    row_wf rw = true /\ regs64 rg /\
    spec_step DW_RSP DW_RBP (sp rg) (bp rg) (ip rg) rw m = Some (ora, cfa, fp') /\
    match ora with
    | None => True
    | Some ra =>
      (* what a real thread satisfies: non-null return address, the caller's frame lies above *)
      ra <> 0 /\ sp rg < cfa /\ (cfa_on_fp DW_RBP rw = true -> bp rg <> 0)
    end.

(* the true chain: activation k returns to ra_k with caller registers (ra_k, cfa_k, fp_k); the
   next activation is described for every register file that holds those values (and the other
   registers of the previous one) *)
Inductive true_chain (u : xunwinder) (m : mem) : faddr -> regs -> list (N * N * N) -> Prop :=
| tc_root a rg cfa fp' :
    described u m a rg None cfa fp' -> true_chain u m a rg []
| tc_frame a rg ra cfa fp' rest :
    described u m a rg (Some ra) cfa fp' ->
    (forall rg', regs_after rg rg' ra cfa fp' -> true_chain u m (RA ra) rg' rest) ->
    true_chain u m a rg ((ra, cfa, fp') :: rest).

(* a walk that uses a fresh cache for every step (C06 shows the cache is irrelevant) *)
Fixpoint walk_fresh (u : xunwinder) (m : mem) (a : faddr) (rg : regs) (n : nat)
  : list (N * N * N) * res (option N) :=
  match n with
  | O => ([], Hang)
  | S k =>
    let o := unwind_frame_x u (cache_new rule) a rg m in
    match o_res _ _ o with
    | Ok (Some ra) =>
      let rg' := o_regs _ _ o in
      let '(l, r) := walk_fresh u m (RA ra) rg' k in ((ra, sp rg', bp rg') :: l, r)
    | r => ([], r)
    end
  end.

Lemma walk_fresh_S u m a rg k :
  walk_fresh u m a rg (S k) =
    let o := unwind_frame_x u (cache_new rule) a rg m in
    match o_res _ _ o with
    | Ok (Some ra) =>
      let rg' := o_regs _ _ o in
      let '(l, r) := walk_fresh u m (RA ra) rg' k in ((ra, sp rg', bp rg') :: l, r)
    | r => ([], r)
    end.
Proof. reflexivity. Qed.

(* C01, row level: the walk yields exactly the true chain - return address, caller sp and caller
   bp after every step - and completes with Ok(None) at the root *)
Theorem walk_true_chain u m a rg chain :
  true_chain u m a rg chain ->
  walk_fresh u m a rg (S (length chain)) = (chain, Ok None).
Proof.
  induction 1 as [a rg cfa fp' Hd | a rg ra cfa fp' rest Hd Hnext IH]; cbn [length]; rewrite walk_fresh_S; cbv zeta.
  - destruct Hd as (x & md & rel & p & sec & f & rw & Hx & Hf & Hm & Hwf & Hrel & Hin & Hcov & Hrow & Hrwf & H64 & Hspec & _).
    pose proof (unwind_frame_via_row u a x rg m md rel p sec f rw Hx Hf Hm Hwf Hrel Hin Hcov Hrow) as Hvia.
    cbv zeta in Hvia.
    pose proof (row_step_x86_spec rw (negb (is_ra a)) rg m None cfa fp' Hrwf H64 Hspec) as Hs. cbn in Hs.
    assert (Hres : o_res _ _ (unwind_frame_x u (cache_new rule) a rg m) = Ok None).
    { rewrite <- Hs. rewrite <- Hvia. reflexivity. }
    rewrite Hres. reflexivity.
  - destruct Hd as (x & md & rel & p & sec & f & rw & Hx & Hf & Hm & Hwf & Hrel & Hin & Hcov & Hrow & Hrwf & H64 & Hspec & Hnz & Hlt & Hfp).
    pose proof (unwind_frame_via_row u a x rg m md rel p sec f rw Hx Hf Hm Hwf Hrel Hin Hcov Hrow) as Hvia.
    cbv zeta in Hvia.
    pose proof (row_step_x86_spec rw (negb (is_ra a)) rg m (Some ra) cfa fp' Hrwf H64 Hspec) as Hs. cbn in Hs.
    destruct Hs as [Hres Hregs]; [exact Hnz | lia | lia | intros _; exact Hlt | intros Hc; split; [apply Hfp; exact Hc | exact Hlt] |].
    rewrite <- Hvia in Hres, Hregs. cbn [fst snd] in Hres, Hregs.
    rewrite Hres.
    specialize (IH _ Hregs). rewrite IH.
    destruct Hregs as (_ & Hsp & Hbp & _). rewrite Hsp, Hbp. reflexivity.
Qed.
