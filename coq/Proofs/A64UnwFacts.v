(* A64UnwFacts.v - C16 at the level of unwind_frame: every path (cached rule, fallback,
   generic DWARF) reports a stripped address and leaves a stripped lr; the mask never changes. *)
From FH Require Import Word A64 DwarfRow Cfi Unwinder A64Dwarf DwarfCb A64Unw WordFacts A64Exec.
From Coq Require Import Lia ZifyBool ZifyN.
Open Scope N_scope.

Lemma generic_a64_shape rw first rg m :
  match generic_a64 rw first rg m with
  | CbUncacheable ra rg' => stripped (mask rg) ra /\ lr rg' = ra /\ mask rg' = mask rg
  | CbErr rg1 => rg1 = rg
  | CbErrV rg1 => rg1 = rg
  | CbRule _ => False
  | CbPanic _ => False
  | CbHang => False
  end.
Proof.
  unfold generic_a64.
  destruct (eval_cfa_rule (a64_getreg rg) (r_cfa rw)); [|reflexivity].
  destruct (negb first).
  - destruct (n <=? asp rg); [reflexivity|].
    destruct (eval_register_rule (a64_getreg rg) (r_fp rw) n (afp rg) m); [|reflexivity].
    destruct (eval_register_rule (a64_getreg rg) (r_ra rw) n (lr rg) m); [|reflexivity].
    cbn. repeat split. apply strip_stripped.
  - cbn. repeat split. apply strip_stripped.
Qed.

Lemma row_step_a64_shape rw first rg m :
  match row_step_a64 rw first rg m with
  | CbUncacheable ra rg' => stripped (mask rg) ra /\ lr rg' = ra /\ mask rg' = mask rg
  | CbErr rg1 => rg1 = rg
  | CbErrV rg1 => rg1 = rg
  | CbRule _ => True
  | CbPanic _ => True
  | CbHang => True
  end.
Proof.
  unfold row_step_a64. destruct (translate_a64 rw); [exact I|].
  pose proof (generic_a64_shape rw first rg m) as H.
  destruct (generic_a64 rw first rg m); auto; contradiction.
Qed.

Lemma cb_a64_shape md first rel rg m :
  match fst (cb_a64 md first rel rg m) with
  | CbUncacheable ra rg' => stripped (mask rg) ra /\ lr rg' = ra /\ mask rg' = mask rg
  | CbErr rg1 => rg1 = rg
  | CbErrV rg1 => rg1 = rg
  | _ => True
  end.
Proof.
  assert (W : forall f svma,
    match with_fde arule aregs row_step_a64 uncovered_rule_a64 f svma first rg m with
    | CbUncacheable ra rg' => stripped (mask rg) ra /\ lr rg' = ra /\ mask rg' = mask rg
    | CbErr rg1 => rg1 = rg
    | CbErrV rg1 => rg1 = rg
    | _ => True end).
  { intros f svma. unfold with_fde. destruct (row_for_address f svma); [|exact I].
    pose proof (row_step_a64_shape r first rg m) as H.
    destruct (row_step_a64 r first rg m); auto. }
  unfold cb_a64. destruct (mdat md) as [|p sec| |d]; [reflexivity| |reflexivity|].
  2:{ unfold MachoCb.cb_macho.
      destruct (Macho.macho_cui _ _ _ _ _ d rel first); try reflexivity.
      destruct (Macho.m_eh d) as [l|]; [|reflexivity].
      destruct (MachoCb.eh_find l fde_offset) as [f|]; [|reflexivity].
      destruct (add64p S_dwarf_svma_add (base_svma md) rel); cbn [fst]; try exact I. apply W. }
  unfold cb_dwarf.
  destruct p.
  - destruct (add64p S_dwarf_svma_add (base_svma md) rel); cbn; try exact I; try reflexivity.
    destruct (hdr_lookup sec a); cbn; [apply W | reflexivity].
  - destruct (index_build sec (base_svma md)); cbn; [|reflexivity].
    destruct (index_lookup true l rel); cbn; [|reflexivity].
    destruct (add64p S_dwarf_svma_add (base_svma md) rel); cbn; try exact I. apply W.
  - destruct (index_build sec (base_svma md)); cbn; [|reflexivity].
    destruct (index_lookup true l rel); cbn; [|reflexivity].
    destruct (add64p S_dwarf_svma_add (base_svma md) rel); cbn; try exact I. apply W.
Qed.

Arguments aexec : simpl never.
Arguments cb_a64 : simpl never.
Arguments find_module : simpl never.
Arguments cache_lookup : simpl never.

Theorem unwind_frame_a_stripped u c a rg m ra :
  o_res _ _ (unwind_frame_a u c a rg m) = Ok (Some ra) ->
  stripped (mask rg) ra /\ lr (o_regs _ _ (unwind_frame_a u c a rg m)) = ra /\
  mask (o_regs _ _ (unwind_frame_a u c a rg m)) = mask rg.
Proof.
  unfold unwind_frame_a, unwind_frame.
  destruct (lookup_address a); cbn; try discriminate.
  destruct (cache_lookup arule c a0 (gen _ u)) as [[r|slot] c1].
  - destruct (aexec r (negb (is_ra a)) rg m) as [o rg'] eqn:E. cbn. intros ->.
    apply aexec_some in E. tauto.
  - destruct (find_module amdata (mods _ u) a0) as [[[md rel]|]|e|s|]; cbn; try discriminate.
    + pose proof (cb_a64_shape md (negb (is_ra a)) rel rg m) as Hcb.
      destruct (cb_a64 md (negb (is_ra a)) rel rg m) as [r ef]. cbn in Hcb.
      destruct r; cbn; try discriminate.
      * destruct (aexec r (negb (is_ra a)) rg m) as [o rg'] eqn:E. cbn. intros ->.
        apply aexec_some in E. tauto.
      * destruct (ra0 =? 0); [discriminate|]. intros H; inversion H; subst. tauto.
      * subst rg0. destruct (aexec afallback_rule (negb (is_ra a)) rg m) as [o rg'] eqn:E.
        cbn. intros ->. apply aexec_some in E. tauto.
      * subst rg0. destruct (aexec afallback_rule (negb (is_ra a)) rg m) as [o rg'] eqn:E.
        cbn. intros ->. apply aexec_some in E. tauto.
    + destruct (aexec afallback_rule (negb (is_ra a)) rg m) as [o rg'] eqn:E. cbn. intros ->.
      apply aexec_some in E. tauto.
Qed.
