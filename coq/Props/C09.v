(* C09 - Totality on arbitrary runtime state: never panics, overflows or hangs.
   Only theorem statements, each closed by `exact`. *)
From FH Require Import Word X86 A64 Unwinder X86Unw A64Unw X86Exec A64Exec HostileFacts.
Open Scope N_scope.

(* x86_64 rule execution: for every rule any producer can emit, every first/caller flag, every
   register file and every stack reader, exec returns Ok or Err - never Panic, never Hang. *)
Theorem C09_exec_x86_total : forall ru first rg m,
  producible ru = true -> returns (fst (exec ra_addr_checked ru first rg m)) = true.
Proof. exact exec_x_total. Qed.
Print Assumptions C09_exec_x86_total.

(* aarch64 rule execution, every rule constructor and parameter value. *)
Theorem C09_exec_a64_total : forall ru first rg m, returns (fst (aexec ru first rg m)) = true.
Proof. exact aexec_total. Qed.
Print Assumptions C09_exec_a64_total.

(* The pop-order decoder is total on everything a producer emits (and only there). *)
Theorem C09_decode_total : forall cnt enc, enc < 40320 ->
  exists l, decode cnt enc = Ok l /\ (length l <= 8)%nat.
Proof. exact decode_ok. Qed.
Print Assumptions C09_decode_total.

(* Whole calls, every module format of the model (no data, DWARF in three presentations, PE), any
   unwind data, any producible cache: unwind_frame returns Ok or Err, or - the recorded known
   finding S5_dep_pe_unwind_info - panics at the one site that is NOT framehop's code
   (pe-unwind-info's unchecked register arithmetic, reachable only through a PE module); it never
   hangs.  [safe] is exactly "Ok, Err, or a panic whose site is not framehop's own"; S_pe_dep is
   the only such site in the model. *)
Theorem C09_unwind_x86_total_outside_known : forall u c a rg m,
  cache_ok c -> faddr_wf a = true ->
  match o_res _ _ (unwind_frame_x u c a rg m) with
  | Ok _ | Err _ => True
  | Panic s => s = S_pe_dep
  | Hang => False
  end.
Proof. exact unwind_frame_x_total_outside_dep. Qed.
Print Assumptions C09_unwind_x86_total_outside_known.

(* aarch64 has no such site: Ok or Err, always. *)
Theorem C09_unwind_a64_total : forall u c a rg m,
  faddr_wf a = true -> returns (o_res _ _ (unwind_frame_a u c a rg m)) = true.
Proof. exact unwind_frame_a_returns. Qed.
Print Assumptions C09_unwind_a64_total.

(* History: the tree before the fix for S3 violated the statement. *)
Theorem C09_exec_x86_bare_refuted :
  exists ru first rg m, producible ru = true /\
    fst (exec ra_addr_bare ru first rg m) = Panic S_x86_rule_ra_sub.
Proof. exact exec_bare_refuted. Qed.
Print Assumptions C09_exec_x86_bare_refuted.

(* non-vacuity: producible rules exist in every constructor *)
Example C09_producible_examples :
  producible (OffsetSpAndPopRegisters 3 8 40319) = true /\ producible (OffsetSpAndRestoreBp 65535 (-32768)) = true.
Proof. split; reflexivity. Qed.
