(* C09 - Totality on arbitrary runtime state: never panics, overflows or hangs.
   Only theorem statements, each closed by `exact`. *)
From FH Require Import Word X86 A64 Unwinder X86Exec A64Exec.
Open Scope N_scope.

(* x86_64 rule execution: for every rule any producer can emit, every first/caller flag, every
   register file and every stack reader, exec returns Ok or Err - never Panic, never Hang. *)
Theorem C09_exec_x86_total : forall ru first rg m,
  producible ru = true -> returns (fst (exec ra_addr_checked ru first rg m)) = true.
Proof. exact exec_x_total. Qed.
Print Assumptions C09_exec_x86_total.

(* aarch64 rule execution, every rule constructor and parameter value. *)
Theorem C09_exec_a64_total : forall ru first rg m, returns (fst (aexec ru first rg m)) = true.
Proof. exact aexec_total. Qed.
Print Assumptions C09_exec_a64_total.

(* The pop-order decoder is total on everything a producer emits (and only there). *)
Theorem C09_decode_total : forall cnt enc, enc < 40320 ->
  exists l, decode cnt enc = Ok l /\ (length l <= 8)%nat.
Proof. exact decode_ok. Qed.
Print Assumptions C09_decode_total.

(* History: the tree before the fix for S3 violated the statement. *)
Theorem C09_exec_x86_bare_refuted :
  exists ru first rg m, producible ru = true /\
    fst (exec ra_addr_bare ru first rg m) = Panic S_x86_rule_ra_sub.
Proof. exact exec_bare_refuted. Qed.
Print Assumptions C09_exec_x86_bare_refuted.

(* non-vacuity: producible rules exist in every constructor *)
Example C09_producible_examples :
  producible (OffsetSpAndPopRegisters 3 8 40319) = true /\ producible (OffsetSpAndRestoreBp 65535 (-32768)) = true.
Proof. split; reflexivity. Qed.
