(* C16 - aarch64 pointer-authentication bits are stripped from everything reported. *)
From FH Require Import Word A64 Unwinder A64Unw A64Exec A64UnwFacts.
Open Scope N_scope.

(* "all bits outside the mask are clear" *)
Check stripped : N -> N -> Prop.
Theorem C16_stripped_meaning : forall k x, stripped k x ->
  forall i, N.testbit k i = false -> N.testbit x i = false.
Proof. exact stripped_outside_zero. Qed.
Print Assumptions C16_stripped_meaning.

(* every successful rule execution *)
Theorem C16_exec_stripped : forall ru first rg m ra rg',
  aexec ru first rg m = (Ok (Some ra), rg') ->
  stripped (mask rg) ra /\ lr rg' = ra /\ mask rg' = mask rg /\ ra <> 0 /\
  (first = false -> asp rg < asp rg').
Proof. exact aexec_some. Qed.
Print Assumptions C16_exec_stripped.

(* every successful unwind_frame, whichever path served it (cache hit, computed rule, fallback
   rule, generic DWARF evaluation) *)
Theorem C16_unwind_frame_stripped : forall u c a rg m ra,
  o_res _ _ (unwind_frame_a u c a rg m) = Ok (Some ra) ->
  stripped (mask rg) ra /\ lr (o_regs _ _ (unwind_frame_a u c a rg m)) = ra /\
  mask (o_regs _ _ (unwind_frame_a u c a rg m)) = mask rg.
Proof. exact unwind_frame_a_stripped. Qed.
Print Assumptions C16_unwind_frame_stripped.

(* the register-set constructor strips too *)
Theorem C16_new_with_mask_stripped : forall k l s f, stripped k (lr (aregs_new_with_mask k l s f)).
Proof. exact aregs_new_with_mask_stripped. Qed.
Print Assumptions C16_new_with_mask_stripped.

(* the max-address constructor is total and preserves every address up to the maximum,
   including 0 (no modules registered) *)
Theorem C16_mask_preserves : forall a x, a < W64 -> x <= a ->
  exists k, mask_from_max_checked a = Ok k /\ N.land x k = x.
Proof. exact mask_preserves. Qed.
Print Assumptions C16_mask_preserves.

Theorem C16_mask_from_max_bare_refuted : mask_from_max_bare 0 = Panic S_mask_shr.
Proof. exact mask_from_max_bare_refuted. Qed.
Print Assumptions C16_mask_from_max_bare_refuted.

Example C16_example : exists k, mask_from_max_checked 0 = Ok k /\ N.land 0 k = 0.
Proof. apply (mask_preserves 0 0); reflexivity. Qed.
