(* C16 - aarch64 pointer-authentication bits are stripped from everything reported. *)
From FH Require Import Consts Word A64 Unwinder A64Unw A64Exec A64UnwFacts HistFacts StaticFacts TruncWalk PacFacts PacFrame.
Open Scope N_scope.

(* "all bits outside the mask are clear" *)
Check stripped : N -> N -> Prop.
Theorem C16_stripped_meaning : forall k x, stripped k x ->
  forall i, N.testbit k i = false -> N.testbit x i = false.
Proof. exact stripped_outside_zero. Qed.
Print Assumptions C16_stripped_meaning.

(* every successful rule execution *)
Theorem C16_exec_stripped : forall ru first rg m ra rg',
  aexec ru first rg m = (Ok (Some ra), rg') ->
  stripped (mask rg) ra /\ lr rg' = ra /\ mask rg' = mask rg /\ ra <> 0 /\
  (first = false -> asp rg < asp rg').
Proof. exact aexec_some. Qed.
Print Assumptions C16_exec_stripped.

(* every successful unwind_frame, whichever path served it (cache hit, computed rule, fallback
   rule, generic DWARF evaluation) *)
Theorem C16_unwind_frame_stripped : forall u c a rg m ra,
  o_res _ _ (unwind_frame_a u c a rg m) = Ok (Some ra) ->
  stripped (mask rg) ra /\ lr (o_regs _ _ (unwind_frame_a u c a rg m)) = ra /\
  mask (o_regs _ _ (unwind_frame_a u c a rg m)) = mask rg.
Proof. exact unwind_frame_a_stripped. Qed.
Print Assumptions C16_unwind_frame_stripped.

(* a stack whose saved return address carries authentication bits unwinds like the unsigned stack:
   [lr_slot ru first rg] is the one slot the rule takes the return address from; if m' is m except that
   the word in that slot differs in bits outside the mask (signed_at), the step gives the same result
   and the same registers - for every rule whose fp and lr slots are two different slots *)
Theorem C16_signed_stack_step : forall ru first rg m m',
  arule_wf ru = true -> asp rg < W64 -> afp rg < W64 -> slots_distinct ru ->
  signed_at (mask rg) (lr_slot ru first rg) m m' ->
  aexec ru first rg m' = aexec ru first rg m.
Proof. exact aexec_signed. Qed.
Print Assumptions C16_signed_stack_step.

(* ... and for one whole call: when the step is rule-based, the rule it will execute is known before any memory is
   read ([rule_at]: the cached rule, the rule or state-independent error the module's data gives for the address -
   classification of C06 / C20 - or the fallback); if the stacks differ only in authentication bits of the word in
   that rule's return-address slot, the call returns the same result, registers and cache *)
Theorem C16_signed_stack_frame : forall u c a rg m m' r,
  rule_at u c a = Some r ->
  arule_wf r = true -> asp rg < W64 -> afp rg < W64 -> slots_distinct r ->
  signed_at (mask rg) (lr_slot r (negb (is_ra a)) rg) m m' ->
  let o := unwind_frame_a u c a rg m in let o' := unwind_frame_a u c a rg m' in
  o_res _ _ o' = o_res _ _ o /\ o_regs _ _ o' = o_regs _ _ o /\ o_cache _ _ o' = o_cache _ _ o.
Proof. exact unwind_frame_signed_a. Qed.
Print Assumptions C16_signed_stack_frame.

Example C16_signed_example :
  let rg := aregs_new_with_mask mask_24_40 0x4000 0x1000 0x1020 in
  let m := mem_of_list [(0x1020, 0x1040); (0x1028, 0x5000)] in
  let m' := mem_of_list [(0x1020, 0x1040); (0x1028, 0xab00000000005000)] in
  signed_at (mask rg) (lr_slot AUseFramePointer false rg) m m' /\
  fst (aexec AUseFramePointer false rg m') = Ok (Some 0x5000).
Proof.
  cbv zeta. split; [split|].
  - intros a Ha. cbn in Ha. unfold mem_of_list.
    destruct (N.eqb 0x1020 a) eqn:E1; [reflexivity|].
    destruct (N.eqb 0x1028 a) eqn:E2; [|reflexivity].
    exfalso. apply Ha. f_equal. apply N.eqb_eq in E2. rewrite <- E2. reflexivity.
  - intros a Ha. cbn in Ha. inversion Ha; subst. vm_compute. reflexivity.
  - vm_compute. reflexivity.
Qed.

(* the register-set constructor strips too *)
Theorem C16_new_with_mask_stripped : forall k l s f, stripped k (lr (aregs_new_with_mask k l s f)).
Proof. exact aregs_new_with_mask_stripped. Qed.
Print Assumptions C16_new_with_mask_stripped.

(* the max-address constructor is total and preserves every address up to the maximum,
   including 0 (no modules registered) *)
Theorem C16_mask_preserves : forall a x, a < W64 -> x <= a ->
  exists k, mask_from_max_checked a = Ok k /\ N.land x k = x.
Proof. exact mask_preserves. Qed.
Print Assumptions C16_mask_preserves.

Theorem C16_mask_from_max_bare_refuted : mask_from_max_bare 0 = Panic S_mask_shr.
Proof. exact mask_from_max_bare_refuted. Qed.
Print Assumptions C16_mask_from_max_bare_refuted.

Example C16_example : exists k, mask_from_max_checked 0 = Ok k /\ N.land 0 k = 0.
Proof. apply (mask_preserves 0 0); reflexivity. Qed.
