(* C01 - DWARF CFI unwinding recovers the true call chain at every instruction (row level). *)
From FH Require Import Consts Word X86 A64 DwarfRow DwarfSpec Cfi Unwinder X86Dwarf A64Dwarf DwarfCb X86Unw A64Unw
  X86Row A64Row X86Chain A64Chain.
Open Scope N_scope.

(* [true_chain u m a rg chain]: the thread stopped at frame address [a] with registers [rg] and
   stack [m]; every activation is EXACTLY described by the CFI registered in [u] (some FDE of the
   module containing the address covers it, and the DWARF specification step of the row in force
   yields that activation's return address, caller sp (= CFA) and caller bp, with the side
   conditions a real thread satisfies: non-null return address, caller frame above); the
   outermost function's row declares the return address undefined.
   Then the walk (a fresh cache per step - C06 makes the cache irrelevant) yields exactly the
   chain: return address, caller sp, caller frame pointer after every step, then Ok(None).
   Any presentation, any section order (through C12), any first/caller kind of [a]. *)
Theorem C01_walk_rows_x86 : forall u m a rg chain,
  true_chain u m a rg chain ->
  walk_fresh u m a rg (S (length chain)) = (chain, Ok None).
Proof. exact walk_true_chain. Qed.
Print Assumptions C01_walk_rows_x86.

(* aarch64: the reported addresses are the true ones with the pointer-authentication bits
   stripped (functions that sign their return address). The root function's row is of the form the
   compressed rule keeps (see known finding S14 under C05). *)
Theorem C01_walk_rows_a64 : forall u m a rg chain,
  true_chain_a u m a rg chain ->
  walk_fresh_a u m a rg (S (length chain)) = (chain, Ok None).
Proof. exact walk_true_chain_a. Qed.
Print Assumptions C01_walk_rows_a64.

(* non-vacuity: a two-function program, thread stopped inside the callee *)
Example C01_example :
  let fde1 := mkfde 4096 16 [(0, mkrow (CfaRegOff 7 16) RSameValue (ROffset (-8)))] true in
  let fde0 := mkfde 4112 16 [(0, mkrow (CfaRegOff 7 8) RSameValue RUndefined)] true in
  let md := mkmod 65536 131072 65536 0 (MDwarf POwnEh [fde0; fde1]) in
  let u := mkunw mdata [md] 0 in
  let m := mem_of_list [(1008, 69653)] in
  walk_fresh u m (IP 69636) (regs_new 69636 1000 0) 2 = ([(69653, 1016, 0)], Ok None).
Proof. vm_compute. reflexivity. Qed.
