(* C10 - Progress: caller-frame steps advance, no state repeats, walks terminate.
   Every module kind of the model: no data, DWARF, PE (after the repairs of S9b and S9c). *)
From FH Require Import Consts Word X86 A64 Unwinder X86Unw A64Unw X86Exec A64Exec X86Walk A64Walk FpChain HistFacts StaticFacts TruncWalk WalkProgress WalkStatic.
From Coq Require Import List. Import ListNotations.
Open Scope N_scope.

(* x86_64: every successful caller-frame step, whichever path served it (cache hit, computed
   rule, fallback, generic DWARF, interpreted PE unwind codes), with any cache: the stack pointer does not decrease, and if it
   stays the same the reported address is the word below it and differs from the current address. *)
Theorem C10_caller_step_x86 : forall u c x rg m ra,
  o_res _ _ (unwind_frame_x u c (RA x) rg m) = Ok (Some ra) ->
  let rg' := o_regs _ _ (unwind_frame_x u c (RA x) rg m) in
  ra <> 0 /\ ip rg' = ra /\
  (sp rg < sp rg' \/ (sp rg' = sp rg /\ 8 <= sp rg' /\ m (sp rg' - 8) = Some ra /\ ra <> ip rg)).
Proof. exact caller_step_progress_x86. Qed.
Print Assumptions C10_caller_step_x86.

(* no success while both stack pointer and code address stay unchanged *)
Theorem C10_no_self_loop_x86 : forall u c x rg m ra,
  ip rg = x ->
  o_res _ _ (unwind_frame_x u c (RA x) rg m) = Ok (Some ra) ->
  let rg' := o_regs _ _ (unwind_frame_x u c (RA x) rg m) in
  ~ (ra = x /\ sp rg' = sp rg).
Proof. exact caller_step_no_self_loop_x86. Qed.
Print Assumptions C10_no_self_loop_x86.

(* two consecutive successful caller steps strictly increase the stack pointer: hence no
   (address, sp, fp) state is visited twice and a walk has at most 2*(sp_end - sp_start)+1
   successful caller steps - it terminates whatever the memory contains *)
Theorem C10_two_steps_advance_x86 : forall u c1 c2 x rg m ra1 ra2,
  ip rg = x ->
  o_res _ _ (unwind_frame_x u c1 (RA x) rg m) = Ok (Some ra1) ->
  let rg1 := o_regs _ _ (unwind_frame_x u c1 (RA x) rg m) in
  o_res _ _ (unwind_frame_x u c2 (RA ra1) rg1 m) = Ok (Some ra2) ->
  let rg2 := o_regs _ _ (unwind_frame_x u c2 (RA ra1) rg1 m) in
  sp rg < sp rg2.
Proof. exact two_caller_steps_advance_x86. Qed.
Print Assumptions C10_two_steps_advance_x86.

(* frame-pointer steps strictly increase the stack pointer *)
Theorem C10_fp_step_strict_x86 : forall first rg m ra rg',
  exec ra_addr_checked UseFramePointer first rg m = (Ok (Some ra), rg') -> sp rg < sp rg'.
Proof. exact exec_x_fp_strict. Qed.
Print Assumptions C10_fp_step_strict_x86.

(* aarch64: every successful caller-frame step strictly increases the stack pointer *)
Theorem C10_caller_step_a64 : forall u c x rg m ra,
  o_res _ _ (unwind_frame_a u c (RA x) rg m) = Ok (Some ra) ->
  ra <> 0 /\ asp rg < asp (o_regs _ _ (unwind_frame_a u c (RA x) rg m)).
Proof. exact caller_step_progress_a64. Qed.
Print Assumptions C10_caller_step_a64.

(* ---------- whole walks through the iterator (Proofs/WalkProgress.v) ----------
   [steps exec fallback cb u m it n it']: n calls to next(), every one of which yields a frame, lead
   from iterator state it to it' (tied to iter_run, the function the correspondence executes, by
   steps_iter_run). [caller_x it]: the iterator will unwind from the return address held in ip -
   every state of a walk after its first two calls (C10_walk_reaches_caller_x86, _a64). *)
Check steps_iter_run.

Theorem C10_walk_reaches_caller_x86 : forall u m pc rg c it2,
  steps exec_x fallback_rule cb_x86 u m (iter_new _ _ pc rg c) 2 it2 -> caller_x it2.
Proof. exact walk_reaches_caller_x. Qed.
Print Assumptions C10_walk_reaches_caller_x86.

(* across the caller frames of one walk the stack pointer never decreases, and after n frames it
   has advanced by at least n/2 *)
Theorem C10_walk_sp_x86 : forall u m n it it',
  caller_x it -> steps exec_x fallback_rule cb_x86 u m it n it' ->
  caller_x it' /\ sp_of it + N.of_nat (n / 2) <= sp_of it'.
Proof. exact walk_sp_x. Qed.
Print Assumptions C10_walk_sp_x86.

(* no (address, sp, fp) state is ever visited twice *)
Theorem C10_walk_no_repeat_x86 : forall u m it i it1 j it2,
  caller_x it ->
  steps exec_x fallback_rule cb_x86 u m it i it1 -> steps exec_x fallback_rule cb_x86 u m it1 (S j) it2 ->
  (addr_of it1, sp_of it1, bp_of it1) <> (addr_of it2, sp_of it2, bp_of it2).
Proof. exact walk_no_repeat_x. Qed.
Print Assumptions C10_walk_no_repeat_x86.

(* consequently every walk terminates: with stack pointers of at most L (2^64 - 1 in the
   implementation; the model's registers are unbounded, so the width is a premise), within
   2 (L - sp) + 2 calls next() yields something other than a frame - Ok(None) or an error,
   whatever the memory contains and whatever the unwind data says *)
Theorem C10_walk_terminates_x86 : forall u m it L,
  caller_x it ->
  (forall k it', steps exec_x fallback_rule cb_x86 u m it k it' -> sp_of it' <= L) ->
  exists k it1 r it2,
    N.of_nat k <= 2 * (L - sp_of it) + 1 /\ steps exec_x fallback_rule cb_x86 u m it k it1 /\
    iter_next_x u m it1 = (r, it2) /\ forall f, r <> Ok (Some f).
Proof. exact walk_terminates_x. Qed.
Print Assumptions C10_walk_terminates_x86.

(* "walking any stack whose readable memory is finite terminates", with no premise about register width, for
   unwinders all of whose steps are rule-based (all_static: cache hits, statically classified rules and errors,
   the fallback - see C11): a successful x86_64 rule step has READ its return address from the word below the
   new sp, so with nothing readable at or above B the walk stops within 2 (B + 7 - sp) + 2 calls - at once
   when sp already lies above the readable memory *)
Theorem C10_walk_terminates_finite_memory_x86 : forall u m B it,
  all_static rule mdata cb_static_x86 u ->
  (forall a, B <= a -> m a = None) ->
  caller_x it ->
  exists k it1 r it2,
    N.of_nat k <= 2 * (B + 7 - sp_of it) + 1 /\ steps exec_x fallback_rule cb_x86 u m it k it1 /\
    iter_next_x u m it1 = (r, it2) /\ forall f, r <> Ok (Some f).
Proof. intros u m B it St Fin. exact (walk_terminates_finite_memory_x u m St B Fin it). Qed.
Print Assumptions C10_walk_terminates_finite_memory_x86.

Theorem C10_walk_reaches_caller_a64 : forall u m pc rg c it2,
  steps aexec afallback_rule cb_a64 u m (iter_new _ _ pc rg c) 2 it2 -> caller_a it2.
Proof. exact walk_reaches_caller_a. Qed.

(* aarch64: every caller frame advances the stack pointer *)
Theorem C10_walk_sp_a64 : forall u m n it it',
  caller_a it -> steps aexec afallback_rule cb_a64 u m it n it' ->
  caller_a it' /\ asp_of it + N.of_nat n <= asp_of it'.
Proof. exact walk_sp_a. Qed.
Print Assumptions C10_walk_sp_a64.

Theorem C10_walk_no_repeat_a64 : forall u m it i it1 j it2,
  caller_a it ->
  steps aexec afallback_rule cb_a64 u m it i it1 -> steps aexec afallback_rule cb_a64 u m it1 (S j) it2 ->
  (aaddr_of it1, asp_of it1, afp_of it1) <> (aaddr_of it2, asp_of it2, afp_of it2).
Proof. exact walk_no_repeat_a. Qed.
Print Assumptions C10_walk_no_repeat_a64.

Theorem C10_walk_terminates_a64 : forall u m it L,
  caller_a it ->
  (forall k it', steps aexec afallback_rule cb_a64 u m it k it' -> asp_of it' <= L) ->
  exists k it1 r it2,
    N.of_nat k <= L - asp_of it /\ steps aexec afallback_rule cb_a64 u m it k it1 /\
    iter_next_a u m it1 = (r, it2) /\ forall f, r <> Ok (Some f).
Proof. exact walk_terminates_a. Qed.
Print Assumptions C10_walk_terminates_a64.

(* the premises are met by real walks: a frame-pointer chain of three records, no modules *)
Example C10_walk_example :
  let m := mem_of_list [(100, 200); (108, 7001); (200, 300); (208, 7002); (300, 0); (308, 7003)] in
  let u := mkunw mdata [] 0 in
  exists it2 it4,
    steps exec_x fallback_rule cb_x86 u m (iter_new _ _ 5000 (regs_new 5000 96 100) (cache_new rule)) 2 it2 /\
    steps exec_x fallback_rule cb_x86 u m it2 2 it4 /\
    sp_of it2 = 116 /\ sp_of it4 = 316 /\ addr_of it4 = 7003.
Proof.
  cbv zeta. eexists. eexists. split; [|split].
  - apply steps_iter_run. split; [reflexivity|]. vm_compute. repeat constructor; eexists; reflexivity.
  - apply steps_iter_run. split; [reflexivity|]. vm_compute. repeat constructor; eexists; reflexivity.
  - vm_compute. repeat split; reflexivity.
Qed.
