(* C10 - Progress: caller-frame steps advance, no state repeats, walks terminate.
   Every module kind of the model: no data, DWARF, PE (after the repairs of S9b and S9c). *)
From FH Require Import Consts Word X86 A64 Unwinder X86Unw A64Unw X86Exec A64Exec X86Walk A64Walk.
Open Scope N_scope.

(* x86_64: every successful caller-frame step, whichever path served it (cache hit, computed
   rule, fallback, generic DWARF, interpreted PE unwind codes), with any cache: the stack pointer does not decrease, and if it
   stays the same the reported address is the word below it and differs from the current address. *)
Theorem C10_caller_step_x86 : forall u c x rg m ra,
  o_res _ _ (unwind_frame_x u c (RA x) rg m) = Ok (Some ra) ->
  let rg' := o_regs _ _ (unwind_frame_x u c (RA x) rg m) in
  ra <> 0 /\ ip rg' = ra /\
  (sp rg < sp rg' \/ (sp rg' = sp rg /\ 8 <= sp rg' /\ m (sp rg' - 8) = Some ra /\ ra <> ip rg)).
Proof. exact caller_step_progress_x86. Qed.
Print Assumptions C10_caller_step_x86.

(* no success while both stack pointer and code address stay unchanged *)
Theorem C10_no_self_loop_x86 : forall u c x rg m ra,
  ip rg = x ->
  o_res _ _ (unwind_frame_x u c (RA x) rg m) = Ok (Some ra) ->
  let rg' := o_regs _ _ (unwind_frame_x u c (RA x) rg m) in
  ~ (ra = x /\ sp rg' = sp rg).
Proof. exact caller_step_no_self_loop_x86. Qed.
Print Assumptions C10_no_self_loop_x86.

(* two consecutive successful caller steps strictly increase the stack pointer: hence no
   (address, sp, fp) state is visited twice and a walk has at most 2*(sp_end - sp_start)+1
   successful caller steps - it terminates whatever the memory contains *)
Theorem C10_two_steps_advance_x86 : forall u c1 c2 x rg m ra1 ra2,
  ip rg = x ->
  o_res _ _ (unwind_frame_x u c1 (RA x) rg m) = Ok (Some ra1) ->
  let rg1 := o_regs _ _ (unwind_frame_x u c1 (RA x) rg m) in
  o_res _ _ (unwind_frame_x u c2 (RA ra1) rg1 m) = Ok (Some ra2) ->
  let rg2 := o_regs _ _ (unwind_frame_x u c2 (RA ra1) rg1 m) in
  sp rg < sp rg2.
Proof. exact two_caller_steps_advance_x86. Qed.
Print Assumptions C10_two_steps_advance_x86.

(* frame-pointer steps strictly increase the stack pointer *)
Theorem C10_fp_step_strict_x86 : forall first rg m ra rg',
  exec ra_addr_checked UseFramePointer first rg m = (Ok (Some ra), rg') -> sp rg < sp rg'.
Proof. exact exec_x_fp_strict. Qed.
Print Assumptions C10_fp_step_strict_x86.

(* aarch64: every successful caller-frame step strictly increases the stack pointer *)
Theorem C10_caller_step_a64 : forall u c x rg m ra,
  o_res _ _ (unwind_frame_a u c (RA x) rg m) = Ok (Some ra) ->
  ra <> 0 /\ asp rg < asp (o_regs _ _ (unwind_frame_a u c (RA x) rg m)).
Proof. exact caller_step_progress_a64. Qed.
Print Assumptions C10_caller_step_a64.
