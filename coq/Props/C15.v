(* C15 - MustNotAllocateDuringUnwind really never allocates and agrees with the default. *)
From FH Require Import Consts Word DwarfRow Cfi Unwinder Pe X86Unw A64Unw Policy PolicyFacts.
Open Scope N_scope.

(* The policy reaches the unwinding code in one way: cache.rs wires MustNotAllocateDuringUnwind to
   fixed-size storages.  gimli's UnwindContext has the same capacities under both policies; the
   expression evaluation gets a stack of SOS_EVAL_STACK (regenerated from cache.rs) values instead
   of a Vec.  [eval_ops_cap] is the evaluation with a bounded stack (a push onto a full stack
   fails). *)

(* 1. The bounded evaluation is the unbounded one whenever the deepest stack the expression reaches
      fits, and fails otherwise. *)
Theorem C15_bounded_evaluation : forall getreg cap e st, (length st <= cap)%nat ->
  eval_ops_cap getreg cap e st =
  if Nat.leb (max_depth e (length st)) cap then eval_ops getreg e st else None.
Proof. exact eval_ops_cap_spec. Qed.
Print Assumptions C15_bounded_evaluation.

(* hence evaluating a row's CFA / register rules with the bounded stack is evaluating the rewritten
   row (expressions that cannot fit replaced by a failing one) with the ordinary evaluator: this is
   how the MustNot policy is run by the model ([cap_unwinder_x], [cap_unwinder_a]) *)
Theorem C15_bounded_cfa : forall getreg cap c,
  eval_cfa_rule_cap getreg cap c = eval_cfa_rule getreg (cap_cfa cap c).
Proof. exact eval_cfa_rule_cap_rewrite. Qed.
Theorem C15_bounded_rule : forall getreg cap ru cfa val m,
  eval_register_rule_cap getreg cap ru cfa val m = eval_register_rule getreg (cap_rule cap ru) cfa val m.
Proof. exact eval_register_rule_cap_rewrite. Qed.
Print Assumptions C15_bounded_cfa.
Print Assumptions C15_bounded_rule.

(* 2. Agreement: wherever the fixed storage suffices (every expression of every DWARF module of the
      unwinder fits; other formats have no policy-dependent storage), unwind_frame under MustNot
      returns exactly the outcome - result, registers, cache, effects - of the allocating policy. *)
Theorem C15_policies_agree_x86 : forall u c a rg m,
  (forall md, In md (mods _ u) -> mdata_fits (mdat md) = true) ->
  unwind_frame_x (cap_unwinder_x u) c a rg m = unwind_frame_x u c a rg m.
Proof. exact policies_agree_x. Qed.
Theorem C15_policies_agree_a64 : forall u c a rg m,
  (forall md, In md (mods _ u) -> amdata_fits (mdat md) = true) ->
  unwind_frame_a (cap_unwinder_a u) c a rg m = unwind_frame_a u c a rg m.
Proof. exact policies_agree_a. Qed.
Print Assumptions C15_policies_agree_x86.
Print Assumptions C15_policies_agree_a64.

(* 3. No allocation: the model marks every place where framehop's own code builds a heap value
      during unwinding ([alloc] of the effect); after the repair of S16 (PE collected chained infos
      and operations into Vecs) there is none, for every module format, cache state and input.
      That gimli with the fixed storages and the runtime allocate nothing is not a theorem: the
      counting allocator decides it on the real code. *)
Theorem C15_no_allocation_site_x86 : forall u c a rg m, alloc (o_eff _ _ (unwind_frame_x u c a rg m)) = false.
Proof. exact no_alloc_x. Qed.
Theorem C15_no_allocation_site_a64 : forall u c a rg m, alloc (o_eff _ _ (unwind_frame_a u c a rg m)) = false.
Proof. exact no_alloc_a. Qed.
Print Assumptions C15_no_allocation_site_x86.
Print Assumptions C15_no_allocation_site_a64.

(* non-vacuity: an expression of depth 65 fails under the bound 64 and evaluates without it; one of
   depth 64 evaluates the same under both *)
Example C15_example :
  let gr := fun r : N => if r =? 7 then Some 1000 else None in
  let e d := EBreg 7 0 :: repeat (ELit 1) (d - 1) ++ repeat EPlus (d - 1) in
  eval_expr gr (e 65%nat) = Some 1064 /\ eval_expr_cap gr 64 (e 65%nat) = None /\
  eval_expr gr (e 64%nat) = Some 1063 /\ eval_expr_cap gr 64 (e 64%nat) = Some 1063 /\
  EVAL_CAP = 64%nat.
Proof. vm_compute. auto. Qed.
