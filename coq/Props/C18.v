(* C18 - Concurrently created/modified unwinders get distinct module-set identities. *)
From FH Require Import Consts Word Atomic AtomicFacts Unwinder HistFacts.
From Coq Require Import Lia.
Open Scope N_scope.

(* The draw, as regenerated from the source on this run, is a single atomic read-modify-write. *)
Theorem C18_source_draw_is_single_rmw : SRC_DRAW_STEPS = [FetchAdd 1] /\ GEN_WIDTH = 16.
Proof. exact (conj src_draw_is_rmw gen_width). Qed.
Print Assumptions C18_source_draw_is_single_rmw.

(* For any number of threads, any number of new / add_module / remove_module operations per thread
   and ANY interleaving of their atomic steps: while at most 65536 identities have been handed
   out they are pairwise distinct. *)
Theorem C18_distinct : forall (nthreads : N -> nat) sched cell,
  cell < W16 ->
  let ts := fun i => mkthread (draws_of (nthreads i)) 0 in
  N.of_nat (length (run_sched cell ts sched)) <= 65536 ->
  NoDup (run_sched cell ts sched).
Proof. exact draws_distinct. Qed.
Print Assumptions C18_distinct.

(* If the draw were a load followed by a store, two threads can receive the same identity. *)
Theorem C18_load_store_refuted :
  let ts := fun _ : N => mkthread [Load; StoreLoadedPlus 1] 0 in
  run_sched 7 ts [0; 1; 0; 1] = [7; 7].
Proof. exact load_store_collides. Qed.
Print Assumptions C18_load_store_refuted.

(* Second sentence of the property: with distinct identities a shared cache never serves a rule
   computed for another unwinder's modules - this is the cache invariant of C06: every entry is
   tagged with an identity that denotes exactly one module list (GenInv), proved for sequential
   histories in HistFacts.history_transparent; the concurrent part is the distinctness above. *)
Check history_transparent.

Example C18_nonvacuous :
  let ts := fun i => mkthread (draws_of (if i =? 0 then 2%nat else 1%nat)) 0 in
  run_sched 65535 ts [0; 1; 0; 2] = [65535; 0; 1; 2].
Proof. vm_compute. reflexivity. Qed.
