(* C05 - One DWARF step equals DWARF semantics of the row; rule compression is lossless. *)
From FH Require Import Word X86 A64 DwarfRow DwarfSpec Cfi Unwinder X86Dwarf A64Dwarf X86Row A64Row.
Open Scope N_scope.

(* The specification: DwarfSpec.spec_step (exact integer arithmetic, defined exactly when the sums
   are addresses and the slots named by the row are readable). *)
Check spec_step : N -> N -> N -> N -> N -> row -> mem -> option (option N * N * N).

(* x86_64. [row_outcome_x86] is what unwind_frame does with the row: translate to a cacheable rule
   and execute it, or evaluate generically.  For every row of the class, every first/caller flag,
   every 64-bit register file and every reader for which the specification is defined:
   - return address undefined  -> Ok(None);
   - otherwise, outside the guard cases that other properties justify (null return address = end
     of stack, C11; no progress / stack pointer moving backwards / frame-pointer sanity, C10), the
     step returns exactly the specified return address and leaves the specified sp and bp (and
     touches no other register).
   The same conclusion holds whichever path served the row, which is the losslessness of the
   compression: both paths are proved equal to one specification. *)
Theorem C05_x86 : forall rw first rg m ora cfa fp',
  row_wf rw = true -> regs64 rg ->
  spec_step DW_RSP DW_RBP (sp rg) (bp rg) (ip rg) rw m = Some (ora, cfa, fp') ->
  match ora with
  | None => fst (row_outcome_x86 rw first rg m) = Ok None
  | Some ra =>
    ra <> 0 -> ~ (cfa = sp rg /\ ra = ip rg) -> sp rg <= cfa -> (first = false -> sp rg < cfa) ->
    (cfa_on_fp DW_RBP rw = true -> bp rg <> 0 /\ sp rg < cfa) ->
    fst (row_outcome_x86 rw first rg m) = Ok (Some ra) /\
    regs_after rg (snd (row_outcome_x86 rw first rg m)) ra cfa fp'
  end.
Proof. exact row_step_x86_spec. Qed.
Print Assumptions C05_x86.

(* aarch64; the reported address and lr are the specified value with the bits outside the mask
   cleared (C16). Excluded and recorded as known finding S14: an undefined return-address rule is
   honoured as end of stack only for caller frames whose row compresses
   (OffsetSpIfFirstFrameOtherwiseStackEndsHere); in first frames it is deliberately read as
   same-value, and the generic path in caller frames treats undefined lr / fp rules as errors. *)
Theorem C05_a64 : forall rw first rg m ora cfa fp',
  row_wf rw = true -> aregs64 rg ->
  spec_step DW_SP DW_X29 (asp rg) (afp rg) (lr rg) rw m = Some (ora, cfa, fp') ->
  match ora with
  | None =>
    first = false -> cfa_on_fp DW_X29 rw = false ->
    (forall o, r_fp rw <> ROffset o) ->
    (exists r, translate_a64 rw = Some r) ->
    fst (row_outcome_a64 rw first rg m) = Ok None
  | Some ra =>
    strip (mask rg) ra <> 0 ->
    (first = false -> asp rg < cfa /\ r_fp rw <> RUndefined /\ r_ra rw <> RSameValue) ->
    (cfa_on_fp DW_X29 rw = true -> fp' <> 0 /\ afp rg < fp' /\ asp rg < cfa) ->
    row_outcome_a64 rw first rg m = (Ok (Some (strip (mask rg) ra)), after rg ra cfa fp')
  end.
Proof. exact row_step_a64_spec. Qed.
Print Assumptions C05_a64.

(* non-vacuity: a frameless x86_64 row with an offset that does not compress (CFA = rsp+12) *)
Example C05_example :
  let rw := mkrow (CfaRegOff 7 12) RSameValue (ROffset (-8)) in
  let m := mem_of_list [(4100, 777)] in
  spec_step DW_RSP DW_RBP 4096 0 5 rw m = Some (Some 777, 4108, 0) /\
  translate_x86 rw = None /\
  fst (row_outcome_x86 rw true (regs_new 5 4096 0) m) = Ok (Some 777).
Proof. vm_compute. repeat split. Qed.
