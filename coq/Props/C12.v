(* C12 - Same CFI, any presentation: .eh_frame_hdr, generated index, .debug_frame agree. *)
From FH Require Import Word X86 A64 DwarfRow Cfi Unwinder X86Dwarf A64Dwarf DwarfCb CfiFacts.
From Coq Require Import Lia.
Open Scope N_scope.

(* [fdes_wf sec base]: FDEs (in ANY section order) with pairwise disjoint non-empty ranges whose
   starts lie in [base_svma, base_svma + 2^32) *)
Check (fdes_wf : list fde -> N -> Prop).

(* the FDE consulted is the covering one whenever one exists - for the hdr table ... *)
Theorem C12_hdr_selects_covering : forall sec base a, fdes_wf sec base ->
  (forall g, In g sec -> covers fde f_start f_end g a -> hdr_lookup sec a = Some g) /\
  ((forall g, In g sec -> ~ covers fde f_start f_end g a) ->
   match hdr_lookup sec a with Some r => ~ covers fde f_start f_end r a | None => sec = [] end) /\
  (sec = [] -> hdr_lookup sec a = None).
Proof. exact hdr_lookup_spec. Qed.
Print Assumptions C12_hdr_selects_covering.

(* ... and for framehop's own index (built by stable sort over the section order) *)
Theorem C12_index_selects_covering : forall sec base rel, fdes_wf sec base -> base + rel < W64 ->
  exists idx, index_build sec base = Some idx /\
  (forall g, In g sec -> covers fde f_start f_end g (base + rel) -> index_lookup true idx rel = Some g) /\
  ((forall g, In g sec -> ~ covers fde f_start f_end g (base + rel)) ->
   match index_lookup true idx rel with Some r => ~ covers fde f_start f_end r (base + rel) | None => sec = [] end) /\
  (sec = [] -> index_lookup true idx rel = None).
Proof. exact index_spec. Qed.
Print Assumptions C12_index_selects_covering.

(* identical callback results for every address, whichever two presentations are compared
   (covered addresses: the covering FDE's row; uncovered ones: the same "uncovered" rule;
   empty sections: the same error) - both architectures *)
Theorem C12_agree_x86 : forall sec base first rel rg m p1 p2,
  fdes_wf sec base -> base + rel < W64 ->
  fst (cb_dwarf rule regs row_step_x86 uncovered_rule_x86 true p1 sec base first rel rg m) =
  fst (cb_dwarf rule regs row_step_x86 uncovered_rule_x86 true p2 sec base first rel rg m).
Proof. exact (presentations_agree rule regs row_step_x86 uncovered_rule_x86). Qed.
Print Assumptions C12_agree_x86.

Theorem C12_agree_a64 : forall sec base first rel rg m p1 p2,
  fdes_wf sec base -> base + rel < W64 ->
  fst (cb_dwarf arule aregs row_step_a64 uncovered_rule_a64 true p1 sec base first rel rg m) =
  fst (cb_dwarf arule aregs row_step_a64 uncovered_rule_a64 true p2 sec base first rel rg m).
Proof. exact (presentations_agree arule aregs row_step_a64 uncovered_rule_a64). Qed.
Print Assumptions C12_agree_a64.

(* before the fix for S8 the own index answered differently below the first FDE *)
Example C12_s8_refuted :
  let f := mkfde 100 10 [] true in
  index_lookup false [(100, f)] 50 = None /\ index_lookup true [(100, f)] 50 = Some f /\
  hdr_lookup [f] 50 = Some f.
Proof. vm_compute. repeat split. Qed.

Example C12_nonvacuous :
  fdes_wf [mkfde 300 1 [] true; mkfde 100 50 [] true; mkfde 150 150 [] true] 100.
Proof.
  split.
  - apply pd_cons; [intros y H; repeat (destruct H as [<-|H]; [unfold disj, f_end; cbn; lia|]); destruct H|].
    apply pd_cons; [intros y H; repeat (destruct H as [<-|H]; [unfold disj, f_end; cbn; lia|]); destruct H|].
    apply pd_cons; [intros y []|apply pd_nil].
  - intros f H. repeat (destruct H as [<-|H]; [cbn; unfold W32; lia|]). destruct H.
Qed.
