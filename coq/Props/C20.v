(* C20 - The rule cache actually caches, and its statistics are exact. *)
From FH Require Import Consts Word X86 A64 Unwinder X86Unw A64Unw HistFacts StaticFacts.
From Coq Require Import Lia.
Open Scope N_scope.

Section C20.
Variables rule regs mdata : Type.
Variable exec : rule -> bool -> regs -> mem -> res (option N) * regs.
Variable fallback : rule.
Variable cb : module mdata -> bool -> N -> regs -> mem -> cb_result rule regs * eff.

(* Every unwinding call bumps exactly one of the four counters by one, and it is the one whose
   documented meaning matches the situation of the slot: empty / same identity and address (hit)
   / other module-set identity / same identity, other address. *)
Theorem C20_stats_exact : forall (u : unwinder mdata) (c : cache rule) a rg m x,
  lookup_address a = Ok x ->
  cstats _ (o_cache _ _ (unwind_frame rule regs mdata exec fallback cb u c a rg m))
  = bump (cstats _ c) (situation_of rule c x (gen _ u)).
Proof. exact (unwind_frame_stats rule regs mdata exec fallback cb). Qed.

Theorem C20_total_plus_one : forall s sit, stats_total (bump s sit) = stats_total s + 1.
Proof. exact bump_total_closed. Qed.

(* a hit reads no unwind section (and allocates nothing in framehop's own code) *)
Theorem C20_hit_no_touch : forall (u : unwinder mdata) (c : cache rule) a rg m x,
  lookup_address a = Ok x -> situation_of rule c x (gen _ u) = SitHit ->
  o_eff _ _ (unwind_frame rule regs mdata exec fallback cb u c a rg m) = no_eff.
Proof. exact (hit_no_touch rule regs mdata exec fallback cb). Qed.

(* a call that maps to another slot leaves a slot alone *)
Theorem C20_other_slot_untouched : forall (u : unwinder mdata) (c : cache rule) a rg m y s,
  lookup_address a = Ok y -> y mod CACHE_ENTRY_COUNT <> s ->
  slots _ (o_cache _ _ (unwind_frame rule regs mdata exec fallback cb u c a rg m)) s = slots _ c s.
Proof. exact (other_slot_untouched rule regs mdata exec fallback cb (fun _ _ _ => SDyn _) (fun _ => true)). Qed.

Theorem C20_filled_slot_is_hit : forall (c : cache rule) x g r,
  slots _ c (x mod CACHE_ENTRY_COUNT) = Some (mkentry _ x g r) -> situation_of rule c x g = SitHit.
Proof. exact (filled_slot_is_hit rule). Qed.
End C20.
Print Assumptions C20_stats_exact.
Print Assumptions C20_hit_no_touch.
Print Assumptions C20_other_slot_untouched.
Print Assumptions C20_filled_slot_is_hit.

(* after a call whose rule is cacheable (stable_rule = Some r), the slot holds it - per architecture,
   because "cacheable" is defined through the architecture's static classification *)
Theorem C20_fills_slot_x86 : forall kind (u : xunwinder) (c : xcache) a rg m x r,
  lookup_address a = Ok x -> negb (is_ra a) = kind x ->
  stable_rule rule mdata fallback_rule cb_static_x86 kind (mods _ u) x = Some r ->
  situation_of rule c x (gen _ u) <> SitHit ->
  slots _ (o_cache _ _ (unwind_frame_x u c a rg m)) (x mod CACHE_ENTRY_COUNT) = Some (mkentry _ x (gen _ u) r).
Proof.
  intros kind. exact (cacheable_call_fills_slot rule regs mdata exec_x fallback_rule cb_x86 cb_static_x86
                        cb_x86_ok kind).
Qed.
Print Assumptions C20_fills_slot_x86.

Theorem C20_fills_slot_a64 : forall kind (u : aunwinder) (c : acache) a rg m x r,
  lookup_address a = Ok x -> negb (is_ra a) = kind x ->
  stable_rule arule amdata afallback_rule cb_static_a64 kind (mods _ u) x = Some r ->
  situation_of arule c x (gen _ u) <> SitHit ->
  slots _ (o_cache _ _ (unwind_frame_a u c a rg m)) (x mod CACHE_ENTRY_COUNT) = Some (mkentry _ x (gen _ u) r).
Proof.
  intros kind. exact (cacheable_call_fills_slot arule aregs amdata aexec afallback_rule cb_a64 cb_static_a64
                        cb_a64_ok kind).
Qed.
Print Assumptions C20_fills_slot_a64.
