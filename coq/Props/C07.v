(* C07 - Module set semantics: containment lookup, order independence, removal. *)
From FH Require Import Word Unwinder ModFacts.
From Coq Require Import Lia.
Open Scope N_scope.

Section C07.
Variable mdata : Type.
Notation module := (module mdata).

(* [sd l]: sorted by start, non-empty ranges, pairwise disjoint - the representation invariant *)
Check (sd mdata : list module -> Prop).

(* lookup: the module whose range contains the address and the address relative to its base;
   nothing when no registered range contains it (or the base lies above it / the offset does not
   fit 32 bits); it never panics.  Since at most one module contains an address, the answer
   depends only on the SET of registered modules. *)
Theorem C07_find_spec : forall l a, sd mdata l ->
  match find_module mdata l a with
  | Ok (Some (m, rel)) => In m l /\ contains mdata m a /\ base_avma m <= a /\ rel = a - base_avma m /\ rel < W32
  | Ok None => forall m, In m l -> contains mdata m a -> a < base_avma m \/ W32 <= a - base_avma m
  | _ => False
  end.
Proof. exact (find_module_spec mdata). Qed.

Theorem C07_unique_container : forall l a m1 m2, sd mdata l -> In m1 l -> In m2 l ->
  contains mdata m1 a -> contains mdata m2 a -> m1 = m2.
Proof. exact (contains_unique mdata). Qed.

(* add: set union, invariant kept for a module disjoint from the registered ones *)
Theorem C07_add_membership : forall l m x, In x (mods_add mdata l m) <-> x = m \/ In x l.
Proof. exact (mods_add_in mdata). Qed.

Theorem C07_add_keeps_invariant : forall l m, sd mdata l -> mstart m < mend m ->
  disjoint_from mdata l m -> sd mdata (mods_add mdata l m).
Proof. exact (mods_add_sd mdata). Qed.

(* remove: exactly the module with that start disappears; an unknown start changes nothing *)
Theorem C07_remove_known : forall l s l', sd mdata l -> mods_remove mdata l s = Some l' ->
  sd mdata l' /\ (forall x, In x l' <-> In x l /\ mstart x <> s).
Proof. exact (mods_remove_some mdata). Qed.

Theorem C07_remove_unknown : forall l s, sd mdata l ->
  (mods_remove mdata l s = None <-> forall x, In x l -> mstart x <> s).
Proof. exact (mods_remove_none mdata). Qed.

(* highest known address: the largest range end, 0 when there are no modules *)
Theorem C07_max_empty : mods_max mdata [] = 0.
Proof. exact (mods_max_nil mdata). Qed.

Theorem C07_max_spec : forall l, sd mdata l -> l <> [] ->
  (exists m, In m l /\ mods_max mdata l = mend m) /\ (forall x, In x l -> mend x <= mods_max mdata l).
Proof. exact (mods_max_spec mdata). Qed.

(* and without any hypothesis about the list - unsorted, overlapping, empty or inverted ranges, as add_module
   accepts them - the lookup never answers with a module whose range does not contain the address (holds since
   the repair of S24: a module registered with an empty range used to be returned for its start address) *)
Theorem C07_only_a_container : forall l a m rel,
  find_module mdata l a = Ok (Some (m, rel)) -> In m l /\ contains mdata m a.
Proof. exact (find_module_only_container mdata). Qed.
End C07.
Print Assumptions C07_only_a_container.
Print Assumptions C07_find_spec.
Print Assumptions C07_unique_container.
Print Assumptions C07_add_membership.
Print Assumptions C07_add_keeps_invariant.
Print Assumptions C07_remove_known.
Print Assumptions C07_remove_unknown.
Print Assumptions C07_max_spec.

(* non-vacuity: ranges at both ends of the address space, base below start *)
Example C07_example :
  let a := mkmod 0 16 0 0 tt in
  let b := mkmod 18446744073709551600 18446744073709551615 18446744073709551000 0 tt in
  sd unit (mods_add unit (mods_add unit [] b) a).
Proof.
  cbn. repeat constructor; cbn; try lia; intros x [<-|[]]; cbn; lia.
Qed.

(* the input of S24: one module with the empty range [16, 16) - address 16 belongs to no module *)
Example C07_empty_range_example :
  find_module unit [mkmod 16 16 16 0 tt] 16 = Ok None.
Proof. reflexivity. Qed.

(* at the level of the unwinder (history semantics of Unwinder.v: several unwinders, one global identity counter):
   removing a start that is not registered leaves the whole world as it was - module list, module-set identity
   (so every cached rule stays valid), every other unwinder and every cache - and a clone evolves independently *)
Section C07_world.
Variables rule regs mdata : Type.
Variable exec : rule -> bool -> regs -> mem -> res (option N) * regs.
Variable fallback : rule.
Variable cb : module mdata -> bool -> N -> regs -> mem -> cb_result rule regs * eff.
Notation run_op := (run_op rule regs mdata exec fallback cb).

Theorem C07_remove_unknown_changes_nothing : forall (w : world rule mdata) u uw s,
  unws _ _ w u = Some uw -> mods_remove mdata (mods _ uw) s = None ->
  run_op w (ORemove _ _ u s) = (w, ObsGen _ (gen _ uw)).
Proof. intros w u uw s H1 H2. cbn [Unwinder.run_op]. rewrite H1, H2. reflexivity. Qed.

Theorem C07_clone_is_independent : forall (w : world rule mdata) u v uw,
  u <> v -> unws _ _ w u = Some uw ->
  let w1 := fst (run_op w (OClone _ _ u v)) in
  unws _ _ w1 v = Some uw /\
  forall md, unws _ _ (fst (run_op w1 (OAdd _ _ v md))) u = Some uw.
Proof.
  intros w u v uw Hne H1. cbn [Unwinder.run_op]. rewrite H1. cbn [fst unws].
  split.
  - unfold upd. rewrite N.eqb_refl. reflexivity.
  - intros md. unfold upd at 1. rewrite N.eqb_refl. cbn [Unwinder.draw]. cbn [fst unws next_gen caches].
    unfold upd. destruct (N.eqb u v) eqn:E; [apply N.eqb_eq in E; contradiction|]. exact H1.
Qed.
End C07_world.
Print Assumptions C07_remove_unknown_changes_nothing.
Print Assumptions C07_clone_is_independent.
