(* C04 - Frame-pointer fallback and leaf assumption when no unwind info applies.
   (no module, no data, DWARF gaps, PE; the Mach-O reason - outside __unwind_info - joins with C02.) *)
From FH Require Import Consts Word X86 A64 DwarfRow Cfi Unwinder X86Dwarf A64Dwarf DwarfCb X86Unw A64Unw
  X86Exec A64Exec CfiFacts X86Walk A64Walk FpChain.
Open Scope N_scope.

(* --- reason 1: the address lies in no registered module -> frame pointer rule --- *)
Theorem C04_no_module_x86 : forall u a x rg m,
  lookup_address a = Ok x -> find_module mdata (mods _ u) x = Ok None ->
  let o := unwind_frame_x u (cache_new rule) a rg m in
  (o_res _ _ o, o_regs _ _ o) = exec_x UseFramePointer (negb (is_ra a)) rg m.
Proof. exact no_module_uses_fp_x86. Qed.
Print Assumptions C04_no_module_x86.

Theorem C04_no_module_a64 : forall u a x rg m,
  lookup_address a = Ok x -> find_module amdata (mods _ u) x = Ok None ->
  let o := unwind_frame_a u (cache_new arule) a rg m in
  (o_res _ _ o, o_regs _ _ o) = aexec AUseFramePointer (negb (is_ra a)) rg m.
Proof. exact no_module_uses_fp_a64. Qed.
Print Assumptions C04_no_module_a64.

(* --- reasons 2/3: the module carries no unwind sections, or its index cannot be built --- *)
Theorem C04_empty_module_x86 : forall u a x rg m md rel,
  lookup_address a = Ok x -> find_module mdata (mods _ u) x = Ok (Some (md, rel)) ->
  (mdat md = MNone \/ exists p sec, mdat md = MDwarf p sec /\ p <> PHdr /\ index_build sec (base_svma md) = None) ->
  let o := unwind_frame_x u (cache_new rule) a rg m in
  (o_res _ _ o, o_regs _ _ o) = exec_x UseFramePointer (negb (is_ra a)) rg m.
Proof. exact empty_module_uses_fp_x86. Qed.
Print Assumptions C04_empty_module_x86.

Theorem C04_empty_module_a64 : forall u a x rg m md rel,
  lookup_address a = Ok x -> find_module amdata (mods _ u) x = Ok (Some (md, rel)) ->
  (mdat md = AMNone \/ exists p sec, mdat md = AMDwarf p sec /\ p <> PHdr /\ index_build sec (base_svma md) = None) ->
  let o := unwind_frame_a u (cache_new arule) a rg m in
  (o_res _ _ o, o_regs _ _ o) = aexec AUseFramePointer (negb (is_ra a)) rg m.
Proof. exact empty_module_uses_fp_a64. Qed.
Print Assumptions C04_empty_module_a64.

(* --- reason 4: a DWARF module none of whose FDEs covers the address (any presentation):
       first frame -> frameless leaf, caller frame -> frame pointer --- *)
Theorem C04_uncovered_x86 : forall u a x rg m md rel p sec,
  lookup_address a = Ok x -> find_module mdata (mods _ u) x = Ok (Some (md, rel)) ->
  mdat md = MDwarf p sec -> fdes_wf sec (base_svma md) -> sec <> [] -> base_svma md + rel < W64 ->
  (forall g, In g sec -> ~ covers fde f_start f_end g (base_svma md + rel)) ->
  let o := unwind_frame_x u (cache_new rule) a rg m in
  (o_res _ _ o, o_regs _ _ o) =
    exec_x (if is_ra a then UseFramePointer else JustReturn) (negb (is_ra a)) rg m.
Proof. exact uncovered_address_x86. Qed.
Print Assumptions C04_uncovered_x86.

Theorem C04_uncovered_a64 : forall u a x rg m md rel p sec,
  lookup_address a = Ok x -> find_module amdata (mods _ u) x = Ok (Some (md, rel)) ->
  mdat md = AMDwarf p sec -> fdes_wf sec (base_svma md) -> sec <> [] -> base_svma md + rel < W64 ->
  (forall g, In g sec -> ~ covers fde f_start f_end g (base_svma md + rel)) ->
  let o := unwind_frame_a u (cache_new arule) a rg m in
  (o_res _ _ o, o_regs _ _ o) = aexec ANoOpIfFirstFrameOtherwiseFp (negb (is_ra a)) rg m.
Proof. exact uncovered_address_a64. Qed.
Print Assumptions C04_uncovered_a64.

Theorem C04_uncovered_a64_first_is_leaf : forall rg m,
  aexec ANoOpIfFirstFrameOtherwiseFp true rg m = aexec ANoOp true rg m.
Proof. exact a_uncovered_first_is_leaf. Qed.

Theorem C04_uncovered_a64_caller_is_fp : forall rg m r rg',
  aexec AUseFramePointer false rg m = (r, rg') -> (forall e, r <> Err e) ->
  aexec ANoOpIfFirstFrameOtherwiseFp false rg m = (r, rg').
Proof. exact a_uncovered_caller_is_fp. Qed.
Print Assumptions C04_uncovered_a64_caller_is_fp.

(* --- reasons 5/6 (PE): no function-table entry -> frameless leaf in EVERY frame (functions without
   unwind data do not touch rsp or non-volatile registers); PE module on aarch64 -> frame pointer --- *)
Theorem C04_no_pdata_entry_is_leaf_x86 : forall u a x rg m md rel pe,
  lookup_address a = Ok x -> find_module mdata (mods _ u) x = Ok (Some (md, rel)) ->
  mdat md = MPe pe -> Pe.pe_lookup (Pe.pe_funcs pe) rel None = None ->
  let o := unwind_frame_x u (cache_new rule) a rg m in
  (o_res _ _ o, o_regs _ _ o) = exec_x JustReturn (negb (is_ra a)) rg m.
Proof. exact no_pdata_entry_is_leaf_x86. Qed.
Print Assumptions C04_no_pdata_entry_is_leaf_x86.

Theorem C04_pe_on_aarch64_uses_fp : forall u a x rg m md rel,
  lookup_address a = Ok x -> find_module amdata (mods _ u) x = Ok (Some (md, rel)) -> mdat md = AMPe ->
  let o := unwind_frame_a u (cache_new arule) a rg m in
  (o_res _ _ o, o_regs _ _ o) = aexec AUseFramePointer (negb (is_ra a)) rg m.
Proof. exact pe_on_aarch64_uses_fp. Qed.
Print Assumptions C04_pe_on_aarch64_uses_fp.

(* --- what the two conventions compute --- *)
Theorem C04_fp_rule_x86 : forall first rg m ra nb,
  bp rg <> 0 -> bp rg + 16 < W64 -> sp rg < bp rg + 16 ->
  m (bp rg) = Some nb -> m (bp rg + 8) = Some ra -> ra <> 0 ->
  exec ra_addr_checked UseFramePointer first rg m =
    (Ok (Some ra), set_bp (set_sp (set_ip rg ra) (bp rg + 16)) nb).
Proof. exact fp_rule_semantics. Qed.

Theorem C04_leaf_rule_x86 : forall first rg m ra,
  m (sp rg) = Some ra -> ra <> 0 -> sp rg + 8 < W64 ->
  exec ra_addr_checked JustReturn first rg m =
    (Ok (Some ra), set_bp (set_sp (set_ip rg ra) (sp rg + 8)) (bp rg)).
Proof. exact leaf_rule_semantics. Qed.

Theorem C04_fp_rule_a64 : forall first rg m nl nf,
  afp rg + 16 < W64 -> asp rg < afp rg + 16 ->
  m (afp rg + 8) = Some nl -> m (afp rg) = Some nf -> nf <> 0 -> afp rg < nf ->
  strip (mask rg) nl <> 0 ->
  aexec AUseFramePointer first rg m =
    (Ok (Some (strip (mask rg) nl)), set_afp (set_asp (set_lr rg nl) (afp rg + 16)) nf).
Proof. exact a_fp_rule_semantics. Qed.

Theorem C04_leaf_rule_a64 : forall rg m,
  strip (mask rg) (lr rg) <> 0 ->
  aexec ANoOp true rg m = (Ok (Some (strip (mask rg) (lr rg))), set_afp (set_asp (set_lr rg (lr rg)) (asp rg)) (afp rg)).
Proof. exact a_leaf_rule_semantics. Qed.
Print Assumptions C04_fp_rule_x86.
Print Assumptions C04_fp_rule_a64.

(* --- a frame-pointer chain ending in the null marker is walked completely and completes with
       Ok(None): x86_64 tests the CURRENT bp for null (every record's return address is
       reported), aarch64 tests the SAVED fp (the last record's lr is not reported) --- *)
Theorem C04_fp_chain_x86 : forall m ras first rg,
  chain_x m (bp rg) ras -> (bp rg = 0 \/ sp rg < bp rg + 16) ->
  fp_walk_x m first (S (length ras)) rg = (ras, Ok None).
Proof. exact fp_chain_walk_x. Qed.
Print Assumptions C04_fp_chain_x86.

Theorem C04_fp_chain_a64 : forall m ras first rg,
  chain_a m (mask rg) (afp rg) ras -> asp rg < afp rg + 16 ->
  fp_walk_a m first (S (length ras)) rg = (ras, Ok None).
Proof. exact fp_chain_walk_a. Qed.
Print Assumptions C04_fp_chain_a64.

Example C04_chain_example :
  let m := mem_of_list [(100, 200); (108, 7001); (200, 0); (208, 7002)] in
  chain_x m 100 [7001; 7002].
Proof.
  cbn. eapply chain_x_cons with (nb := 200); try reflexivity; try discriminate; try (right; reflexivity).
  eapply chain_x_cons with (nb := 0); try reflexivity; try discriminate; try (left; reflexivity).
Qed.
