(* C14 - Corrupt or hostile unwind data never panics framehop's own code. *)
From FH Require Import Consts Word X86 A64 Unwinder X86Unw A64Unw X86Exec HostileFacts Create DwarfRow.
From Coq Require Import Lia.
Open Scope N_scope.

(* [safe r]: the call returned (Ok / Err) or panicked inside a dependency - never in framehop's own
   code, and it did return. *)
Check (eq_refl : @safe (option N) (Panic S_pe_dep) = (site_is_own S_pe_dep = false)).
Check (eq_refl : @safe (option N) Hang = False).

(* x86_64.  For EVERY unwinder - any number of modules, each with any data of a modelled kind: any
   list of FDEs with any rows and expressions in any presentation, any PE function table, unwind
   infos, chains (cyclic, over-long, dangling), any text view whether or not it matches its stated
   range, or no data - every constructible frame address, every register file, every stack reader,
   and every cache whose entries were produced by earlier calls ([cache_ok]; an empty cache is, and
   the call keeps it so): unwind_frame never panics in framehop's own code and never hangs. *)
Theorem C14_unwind_x86 : forall u c a rg m,
  cache_ok c -> faddr_wf a = true ->
  safe (o_res _ _ (unwind_frame_x u c a rg m)) /\ cache_ok (o_cache _ _ (unwind_frame_x u c a rg m)).
Proof. exact unwind_frame_x_safe. Qed.
Print Assumptions C14_unwind_x86.

Theorem C14_fresh_cache_ok : cache_ok (cache_new rule).
Proof. exact cache_new_ok. Qed.

(* aarch64: every rule value executes totally, so any cache will do. *)
Theorem C14_unwind_a64 : forall u c a rg m,
  faddr_wf a = true -> safe (o_res _ _ (unwind_frame_a u c a rg m)).
Proof. exact unwind_frame_a_safe. Qed.
Print Assumptions C14_unwind_a64.

(* Module creation and the per-call range arithmetic on inconsistent section ranges: total after
   the fixes; the unfixed arithmetic is refuted by a section one byte below the image base. *)
Theorem C14_section_ranges_total : forall base lo hi,
  (exists r, pe_rva_range true base lo hi = Ok r) /\ (exists r, macho_rel_range true base lo hi = Ok r).
Proof.
  intros base lo hi. unfold pe_rva_range, macho_rel_range.
  destruct ((lo <? base) || (hi <? base)); [split; eexists; reflexivity|].
  destruct ((lo - base <? W32) && (hi - base <? W32)); split; eexists; reflexivity.
Qed.
Print Assumptions C14_section_ranges_total.

Theorem C14_section_ranges_bare_refuted :
  pe_rva_range false 4096 4095 8192 = Panic S_create_sub /\ macho_rel_range false 4096 4095 8192 = Panic S_create_sub.
Proof. split; reflexivity. Qed.

(* The expression evaluator runs under a bound (regenerated from eval_expr's body on every run: if the source stops
   setting one, EXPR_MAX_ITERATIONS becomes None and this theorem fails).  A bounded evaluator cannot be kept busy
   by a backward DW_OP_skip / DW_OP_bra - which is how hostile CFI hung unwind_frame before the fix for S22; the
   model's expressions are straight-line, for them the bound reads: longer than the bound means failure. *)
Theorem C14_expression_evaluation_is_bounded :
  exists k, EXPR_MAX_ITERATIONS = Some k /\
            forall getreg e, k < N.of_nat (length e) -> eval_expr getreg e = None.
Proof.
  unfold eval_expr, expr_too_long. destruct EXPR_MAX_ITERATIONS as [k|] eqn:E; [|discriminate E].
  exists k. split; [reflexivity|]. intros getreg e H. destruct (k <? N.of_nat (length e)) eqn:L; [reflexivity | lia].
Qed.
Print Assumptions C14_expression_evaluation_is_bounded.

(* the walk over chained unwind infos is bounded by a constant of the source (regenerated on every run; a loop that
   compares its counter with nothing - the tree before the repair of S11e - makes this fail): cyclic chains end *)
Theorem C14_chain_walk_is_bounded : exists k, PE_CHAIN_LIMIT = Some k /\ CHAIN_LIMIT = N.to_nat k /\ (0 < k)%N.
Proof. unfold CHAIN_LIMIT. destruct PE_CHAIN_LIMIT as [k|] eqn:E; [|discriminate E]. exists k. repeat split. inversion E; subst; reflexivity. Qed.
Print Assumptions C14_chain_walk_is_bounded.

(* non-vacuity: a self-chained unwind info, a function entry that ends before it begins and a text
   view shorter than its range - all answered with the frame-pointer fallback, not a panic *)
Example C14_example :
  let ui := mkui None 0 [(4, UAlloc 8)] (Some 12288) in
  let pe := mkpe [mkrt 4096 4000 12288; mkrt 8192 8300 12288] [(12288, Some ui)] (Some (4096, 16384, [195; 195])) in
  let u := mkunw mdata [mkmod 65536 131072 65536 0 (MPe pe)] 0 in
  let m := mem_of_list [(1000, 2000); (1008, 70000)] in
  let r1 := o_res _ _ (unwind_frame_x u (cache_new rule) (IP 69632) (regs_new 69632 900 1000) m) in
  let r2 := o_res _ _ (unwind_frame_x u (cache_new rule) (RA 73730) (regs_new 73730 900 1000) m) in
  r1 = Ok (Some 70000) /\ r2 = Ok (Some 70000).
Proof. vm_compute. auto. Qed.
