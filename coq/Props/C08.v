(* C08 - Position independence under module relocation (theorem) and stack relocation (oracle). *)
From FH Require Import Consts Word X86 A64 Unwinder X86Unw A64Unw ModFacts RelocFacts.
Open Scope N_scope.

(* [moved d md]: the same module mapped d bytes higher - range and base address moved together,
   stated base and unwind data unchanged. *)
Check moved.

(* lookup: the moved address falls into the moved module with the SAME relative address *)
Theorem C08_lookup_relocated : forall mdata l l' a md d rel,
  sd mdata l -> sd mdata l' ->
  find_module mdata l a = Ok (Some (md, rel)) -> In (moved mdata d md) l' ->
  find_module mdata l' (a + d) = Ok (Some (moved mdata d md, rel)).
Proof. exact find_module_relocated. Qed.
Print Assumptions C08_lookup_relocated.

(* one step at the moved address on the relocated unwinder (any other modules, each moved by its
   own delta or not at all) returns exactly the original result and registers: the frames a walk
   produces differ only by the load-address delta of the module they belong to *)
Theorem C08_step_relocated_x86 : forall (u u' : xunwinder) a a' x d md rel rg m,
  sd mdata (mods _ u) -> sd mdata (mods _ u') ->
  lookup_address a = Ok x -> lookup_address a' = Ok (x + d) -> is_ra a' = is_ra a ->
  find_module mdata (mods _ u) x = Ok (Some (md, rel)) -> In (moved mdata d md) (mods _ u') ->
  let o := unwind_frame_x u (cache_new rule) a rg m in
  let o' := unwind_frame_x u' (cache_new rule) a' rg m in
  o_res _ _ o' = o_res _ _ o /\ o_regs _ _ o' = o_regs _ _ o.
Proof. exact unwind_frame_relocated_x86. Qed.
Print Assumptions C08_step_relocated_x86.

Theorem C08_step_relocated_a64 : forall (u u' : aunwinder) a a' x d md rel rg m,
  sd amdata (mods _ u) -> sd amdata (mods _ u') ->
  lookup_address a = Ok x -> lookup_address a' = Ok (x + d) -> is_ra a' = is_ra a ->
  find_module amdata (mods _ u) x = Ok (Some (md, rel)) -> In (moved amdata d md) (mods _ u') ->
  let o := unwind_frame_a u (cache_new arule) a rg m in
  let o' := unwind_frame_a u' (cache_new arule) a' rg m in
  o_res _ _ o' = o_res _ _ o /\ o_regs _ _ o' = o_regs _ _ o.
Proof. exact unwind_frame_relocated_a64. Qed.
Print Assumptions C08_step_relocated_a64.

(* addresses outside every module stay outside after a uniform move *)
Theorem C08_uncovered_relocated : forall mdata l a d,
  sd mdata l -> find_module mdata l a = Ok None ->
  (forall m, In m l -> contains mdata m a -> False) ->
  forall l', sd mdata l' -> (forall m', In m' l' -> exists m, In m l /\ m' = moved mdata d m) ->
  match find_module mdata l' (a + d) with Ok None => True | _ => False end.
Proof. exact find_module_none_uniform. Qed.
Print Assumptions C08_uncovered_relocated.
