(* C08 - Position independence under module relocation (theorem) and stack relocation (theorem for
   every cached rule of both architectures and for walks over rules; oracle for the rest). *)
From FH Require Import Consts Word X86 A64 Unwinder X86Unw A64Unw ModFacts RelocFacts ShiftFacts ShiftFrame ShiftStatic ShiftWalk MachoWf HistFacts StaticFacts Pe DwarfRow Cfi X86Dwarf DwarfCb Macho MachoCb.
Open Scope N_scope.

(* [moved d md]: the same module mapped d bytes higher - range and base address moved together,
   stated base and unwind data unchanged. *)
Check moved.

(* lookup: the moved address falls into the moved module with the SAME relative address *)
Theorem C08_lookup_relocated : forall mdata l l' a md d rel,
  sd mdata l -> sd mdata l' ->
  find_module mdata l a = Ok (Some (md, rel)) -> In (moved mdata d md) l' ->
  find_module mdata l' (a + d) = Ok (Some (moved mdata d md, rel)).
Proof. exact find_module_relocated. Qed.
Print Assumptions C08_lookup_relocated.

(* one step at the moved address on the relocated unwinder (any other modules, each moved by its
   own delta or not at all) returns exactly the original result and registers: the frames a walk
   produces differ only by the load-address delta of the module they belong to *)
Theorem C08_step_relocated_x86 : forall (u u' : xunwinder) a a' x d md rel rg m,
  sd mdata (mods _ u) -> sd mdata (mods _ u') ->
  lookup_address a = Ok x -> lookup_address a' = Ok (x + d) -> is_ra a' = is_ra a ->
  find_module mdata (mods _ u) x = Ok (Some (md, rel)) -> In (moved mdata d md) (mods _ u') ->
  let o := unwind_frame_x u (cache_new rule) a rg m in
  let o' := unwind_frame_x u' (cache_new rule) a' rg m in
  o_res _ _ o' = o_res _ _ o /\ o_regs _ _ o' = o_regs _ _ o.
Proof. exact unwind_frame_relocated_x86. Qed.
Print Assumptions C08_step_relocated_x86.

Theorem C08_step_relocated_a64 : forall (u u' : aunwinder) a a' x d md rel rg m,
  sd amdata (mods _ u) -> sd amdata (mods _ u') ->
  lookup_address a = Ok x -> lookup_address a' = Ok (x + d) -> is_ra a' = is_ra a ->
  find_module amdata (mods _ u) x = Ok (Some (md, rel)) -> In (moved amdata d md) (mods _ u') ->
  let o := unwind_frame_a u (cache_new arule) a rg m in
  let o' := unwind_frame_a u' (cache_new arule) a' rg m in
  o_res _ _ o' = o_res _ _ o /\ o_regs _ _ o' = o_regs _ _ o.
Proof. exact unwind_frame_relocated_a64. Qed.
Print Assumptions C08_step_relocated_a64.

(* addresses outside every module stay outside after a uniform move *)
Theorem C08_uncovered_relocated : forall mdata l a d,
  sd mdata l -> find_module mdata l a = Ok None ->
  (forall m, In m l -> contains mdata m a -> False) ->
  forall l', sd mdata l' -> (forall m', In m' l' -> exists m, In m l /\ m' = moved mdata d m) ->
  match find_module mdata l' (a + d) with Ok None => True | _ => False end.
Proof. exact find_module_none_uniform. Qed.
Print Assumptions C08_uncovered_relocated.

(* ---- stack relocation.  The thread's stack [lo, hi) is placed s bytes higher: every word (register
   or memory) that points into [lo, hi] moves by s, every other word (code, null, scratch) is
   unchanged and lies at least DIST = 2^20 bytes away from both stacks; [shm m] is the relocated
   memory, [sh] the relocation of a value.  One rule execution then gives the same kind of
   outcome, the return address relocated by [sh] (unchanged for code), the new stack pointer
   exactly + s, every other register relocated, and read errors naming the corresponding address. *)
Theorem C08_stack_relocated_x86_rule : forall lo hi s,
  2 * DIST <= lo -> lo <= hi -> hi + s + 2 * DIST < W64 ->
  forall ru first rg rg' m,
  mem_ok lo hi s m -> rule_wf ru = true -> rrel lo hi s rg rg' -> vok lo hi s rg -> spok lo hi rg ->
  out_rel lo hi s (exec ra_addr_checked ru first rg m) (exec ra_addr_checked ru first rg' (shm lo hi s m)).
Proof. exact exec_x_stack_shift. Qed.
Print Assumptions C08_stack_relocated_x86_rule.

(* whole walks served from cached rules: frame by frame the same, up to the offsets *)
Theorem C08_stack_relocated_x86_walk : forall lo hi s,
  2 * DIST <= lo -> lo <= hi -> hi + s + 2 * DIST < W64 ->
  forall m, mem_ok lo hi s m -> forall rs first rg rg',
  Forall (fun r => rule_wf r = true) rs -> rrel lo hi s rg rg' -> vok lo hi s rg -> spok lo hi rg ->
  Forall2 (res_rel lo hi s) (fst (run_rules rs first rg m)) (fst (run_rules rs first rg' (shm lo hi s m))) /\
  rrel lo hi s (snd (run_rules rs first rg m)) (snd (run_rules rs first rg' (shm lo hi s m))).
Proof. exact run_rules_stack_shift. Qed.
Print Assumptions C08_stack_relocated_x86_walk.

(* aarch64: k is the pointer-authentication mask, which must keep every address up to the top of
   both stacks; words used as return addresses stay of their kind when stripped ([cok]) *)
Theorem C08_stack_relocated_a64_rule : forall lo hi s,
  2 * DIST <= lo -> lo <= hi -> hi + s + 2 * DIST < W64 ->
  forall k, (forall v, v <= hi + s -> strip k v = v) ->
  forall ru first rg rg' m,
  mem_ok_a lo hi s k m -> arule_wf ru = true -> arel lo hi s k rg rg' -> avok lo hi s k rg ->
  lo <= asp rg -> asp rg + s + 2 * DIST < W64 ->
  aout_rel lo hi s k (aexec ru first rg m) (aexec ru first rg' (shm lo hi s m)).
Proof. exact aexec_stack_shift. Qed.
Print Assumptions C08_stack_relocated_a64_rule.

(* one whole unwind_frame call (x86_64): whenever the module's callback answers independently of the registers
   and the stack - the same well-formed rule, or the same kind of error - the call is equivariant and leaves the
   SAME cache (nothing that is cached mentions the stack).  That is every call except the two uncacheable
   evaluations (DWARF rows that do not compress, PE unwind codes). *)
Theorem C08_stack_relocated_x86_frame : forall lo hi s,
  2 * DIST <= lo -> lo <= hi -> hi + s + 2 * DIST < W64 ->
  forall (u : xunwinder) (c : xcache) a rg rg' m,
  mem_ok lo hi s m -> rrel lo hi s rg rg' -> vok lo hi s rg -> spok lo hi rg ->
  (forall x r c1, lookup_address a = Ok x -> cache_lookup rule c x (gen _ u) = (Hit rule r, c1) -> rule_wf r = true) ->
  (forall x md rel, lookup_address a = Ok x -> find_module mdata (mods _ u) x = Ok (Some (md, rel)) ->
     cb_rel lo hi s (cb_x86 md (negb (is_ra a)) rel rg m) (cb_x86 md (negb (is_ra a)) rel rg' (shm lo hi s m))) ->
  let o := unwind_frame_x u c a rg m in
  let o' := unwind_frame_x u c a rg' (shm lo hi s m) in
  out_rel lo hi s (o_res _ _ o, o_regs _ _ o) (o_res _ _ o', o_regs _ _ o') /\
  o_cache _ _ o = o_cache _ _ o' /\ o_eff _ _ o = o_eff _ _ o'.
Proof. exact unwind_frame_x_stack_shift. Qed.
Print Assumptions C08_stack_relocated_x86_frame.

Theorem C08_stack_relocated_a64_frame : forall lo hi s,
  2 * DIST <= lo -> lo <= hi -> hi + s + 2 * DIST < W64 ->
  forall k, (forall v, v <= hi + s -> strip k v = v) ->
  forall (u : aunwinder) (c : acache) a rg rg' m,
  mem_ok_a lo hi s k m -> arel lo hi s k rg rg' -> avok lo hi s k rg -> aspok lo s rg ->
  (forall x r c1, lookup_address a = Ok x -> cache_lookup arule c x (gen _ u) = (Hit arule r, c1) -> arule_wf r = true) ->
  (forall x md rel, lookup_address a = Ok x -> find_module amdata (mods _ u) x = Ok (Some (md, rel)) ->
     cb_rel_a lo hi s k (cb_a64 md (negb (is_ra a)) rel rg m) (cb_a64 md (negb (is_ra a)) rel rg' (shm lo hi s m))) ->
  let o := unwind_frame_a u c a rg m in
  let o' := unwind_frame_a u c a rg' (shm lo hi s m) in
  aout_rel lo hi s k (o_res _ _ o, o_regs _ _ o) (o_res _ _ o', o_regs _ _ o') /\
  o_cache _ _ o = o_cache _ _ o' /\ o_eff _ _ o = o_eff _ _ o'.
Proof. exact unwind_frame_a_stack_shift. Qed.
Print Assumptions C08_stack_relocated_a64_frame.

(* the callback condition holds for modules without data, for every Mach-O entry that does not defer to DWARF,
   and a DWARF row that compresses gives the same well-formed rule for both states *)
Check cb_rel_none.
Check cb_rel_dwarf.      (* DWARF modules all of whose rows compress, in every presentation *)
Check cb_rel_a_none.

(* Mach-O, both architectures: every address whose entry does not defer to DWARF - opcode translation, prologue and
   epilogue analysis, stubs, stub helpers, function starts.  That the rule produced is well-formed (fits the
   compressed fields) is proved, not assumed: MachoWf.v *)
Theorem C08_callback_macho_x86 : forall lo hi s (md : xmodule) d first rel rg rg' m,
  mdat md = MMacho d -> rrel lo hi s rg rg' -> vok lo hi s rg -> spok lo hi rg ->
  (forall off, macho_cui rule x86_macho_unwind JustReturn JustReturn x86_stub_helper_rule d rel first <> CuiNeedDwarf off) ->
  cb_rel lo hi s (cb_x86 md first rel rg m) (cb_x86 md first rel rg' (shm lo hi s m)).
Proof. exact cb_rel_macho. Qed.
Print Assumptions C08_callback_macho_x86.

Theorem C08_callback_macho_a64 : forall lo hi s k (md : amodule) d first rel rg rg' m,
  mdat md = AMMacho d -> arel lo hi s k rg rg' -> avok lo hi s k rg -> aspok lo s rg ->
  (forall off, macho_cui arule a64_macho_unwind ANoOp ANoOp a64_stub_helper_rule d rel first <> CuiNeedDwarf off) ->
  cb_rel_a lo hi s k (cb_a64 md first rel rg m) (cb_a64 md first rel rg' (shm lo hi s m)).
Proof. exact cb_rel_a_macho. Qed.
Print Assumptions C08_callback_macho_a64.

Theorem C08_callback_dwarf_a64 : forall lo hi s k (md : amodule) p sec first rel rg rg' m,
  mdat md = AMDwarf p sec -> rows_compress_a sec -> arel lo hi s k rg rg' -> avok lo hi s k rg -> aspok lo s rg ->
  cb_rel_a lo hi s k (cb_a64 md first rel rg m) (cb_a64 md first rel rg' (shm lo hi s m)).
Proof. exact cb_rel_a_dwarf. Qed.
Print Assumptions C08_callback_dwarf_a64.

Theorem C08_macho_rules_fit_x86 : forall d rel first r,
  macho_cui rule x86_macho_unwind JustReturn JustReturn x86_stub_helper_rule d rel first = CuiRule r -> rule_wf r = true.
Proof. exact x86_macho_rules_wf. Qed.
Theorem C08_macho_rules_fit_a64 : forall d rel first r,
  macho_cui arule a64_macho_unwind ANoOp ANoOp a64_stub_helper_rule d rel first = CuiRule r -> arule_wf r = true.
Proof. exact a64_macho_rules_wf. Qed.
Print Assumptions C08_macho_rules_fit_x86.
Print Assumptions C08_macho_rules_fit_a64.
Theorem C08_compressible_row_ignores_the_stack : forall f svma first rg rg' m m',
  (forall rw, row_for_address f svma = Some rw -> translate_x86 rw <> None) ->
  exists r, with_fde rule regs row_step_x86 uncovered_rule_x86 f svma first rg m = CbRule r /\
            with_fde rule regs row_step_x86 uncovered_rule_x86 f svma first rg' m' = CbRule r /\ rule_wf r = true.
Proof. exact with_fde_rel. Qed.
Print Assumptions C08_compressible_row_ignores_the_stack.

(* The callback premise in general: the static classification of the callbacks (StaticFacts.v; the one C06 and C20
   rest on) says for (module, role, relative address) whether the answer is a rule, a state-independent error or a
   state-dependent evaluation.  In the first two cases - every format: PE steps that compress into the pop rule,
   compact-unwind entries incl. those that defer to DWARF rows that compress - the relocated state is answered the
   same way. *)
Theorem C08_callback_static_x86 : forall lo hi s (md : xmodule) first rel rg rg' m,
  static_ok_x86 md first rel -> rrel lo hi s rg rg' -> vok lo hi s rg -> spok lo hi rg ->
  cb_rel lo hi s (cb_x86 md first rel rg m) (cb_x86 md first rel rg' (shm lo hi s m)).
Proof. exact cb_rel_static. Qed.
Print Assumptions C08_callback_static_x86.
Theorem C08_callback_static_a64 : forall lo hi s k (md : amodule) first rel rg rg' m,
  static_ok_a64 md first rel -> arel lo hi s k rg rg' -> avok lo hi s k rg -> aspok lo s rg ->
  cb_rel_a lo hi s k (cb_a64 md first rel rg m) (cb_a64 md first rel rg' (shm lo hi s m)).
Proof. exact cb_rel_a_static. Qed.
Print Assumptions C08_callback_static_a64.
(* e.g. a PE function with two pushes and an allocation, stopped in its body: the cached pop rule *)
Example C08_static_pe_example :
  let ui := mkui None 0 [(6, UAlloc 32); (2, UPop 3); (1, UPop 5)] None in
  let pe := mkpe [mkrt 4096 4200 12288] [(12288, Some ui)] None in
  static_ok_x86 (mkmod 65536 131072 65536 0 (MPe pe)) false 4150.
Proof. vm_compute. reflexivity. Qed.

(* a whole walk through the iterator WITH its cache (x86_64): an unwinder whose callbacks are static in the sense above for every
   address (no data; DWARF whose rows compress; compact unwind; PE steps that compress), a cache that holds well-formed
   rules (every cache that only such unwinders filled: the invariant is part of the induction).  As long as the
   frames reported so far are code addresses (not words that point into the stack), the relocated walk reports the
   same frames, ends the same way (a read error names the moved address) and leaves the SAME cache. *)
Theorem C08_stack_relocated_x86_iter : forall lo hi s,
  2 * DIST <= lo -> lo <= hi -> hi + s + 2 * DIST < W64 ->
  forall (u : xunwinder) m, mem_ok lo hi s m -> unw_rule_only u -> forall n it it',
  it_rel lo hi s it it' ->
  Forall (good lo hi) (removelast (fst (iter_run_x u m it n))) ->
  Forall2 (ires_rel lo hi s) (fst (iter_run_x u m it n)) (fst (iter_run_x u (shm lo hi s m) it' n)) /\
  i_cache _ _ (snd (iter_run_x u (shm lo hi s m) it' n)) = i_cache _ _ (snd (iter_run_x u m it n)).
Proof. exact iter_run_x_stack_shift. Qed.
Print Assumptions C08_stack_relocated_x86_iter.
Check walk_premises_hold.

(* the same on aarch64, with one more premise: rules that take the return address from lr read no memory, so that the
   sp of every state of the ORIGINAL walk lies in the stack is asked of the walk ([sp_ok_run]) rather than derived *)
Theorem C08_stack_relocated_a64_iter : forall lo hi s,
  2 * DIST <= lo -> lo <= hi -> hi + s + 2 * DIST < W64 ->
  forall k, (forall v, v <= hi + s -> strip k v = v) ->
  forall (u : aunwinder) m, mem_ok_a lo hi s k m -> aunw_rule_only u -> forall n it it',
  ait_rel lo hi s k it it' -> sp_ok_run lo s u m it n ->
  Forall (agood lo hi) (removelast (fst (iter_run_a u m it n))) ->
  Forall2 (aires_rel lo hi s) (fst (iter_run_a u m it n)) (fst (iter_run_a u (shm lo hi s m) it' n)) /\
  i_cache _ _ (snd (iter_run_a u (shm lo hi s m) it' n)) = i_cache _ _ (snd (iter_run_a u m it n)).
Proof. exact iter_run_a_stack_shift. Qed.
Print Assumptions C08_stack_relocated_a64_iter.
Check walk_a_premises_hold.

(* the premises are satisfiable by a real-looking two-frame stack moved by 4 GiB *)
Check shift_premises_hold.
