(* C03 - PE x64 unwinding is exact in prolog, body, epilog and matches the MS procedure. *)
From FH Require Import Word X86 Unwinder Pe X86Unw X86Chain PeFacts.
From Coq Require Import Lia.
Open Scope N_scope.

(* The specification: Pe.ms_unwind, the documented procedure in exact arithmetic - function-table
   lookup (no entry = leaf: pop the return address); when the address lies in an epilog
   (add rsp / lea rsp,[fp+x], pops, then ret or jmp) simulate the rest of it; otherwise undo the
   unwind codes whose prolog offset has been reached (UWOP_PUSH_NONVOL, ALLOC_SMALL/LARGE, SET_FPREG,
   SAVE_NONVOL, SAVE_XMM128, PUSH_MACHFRAME), then those of every chained info, then pop the return
   address. *)
Check ms_unwind : pe_data -> N -> regs -> mem -> option (N * regs).

(* Well-formed unwind data at an address (PeFacts.pe_wf_at): the chain of UNWIND_INFOs is present,
   finite and keeps the primary info's frame register; stack adjustments are multiples of 8; an
   innermost frame has its text bytes available ([first] = true), a caller frame is not itself
   inside an epilog (the procedure would simulate it; framehop looks for epilogs in first frames
   only). *)
Check pe_wf_at : pe_data -> N -> bool -> Prop.

(* One step, differential part: for ARBITRARY registers and stack on which the documented
   procedure succeeds, Unwinder::unwind_frame returns the same return address (null = end of
   stack, C11) and leaves the same sixteen general-purpose registers - through the cacheable
   compressed rule (OffsetSpAndPopRegisters / JustReturn) and through the uncacheable path alike. *)
Theorem C03_step_matches_procedure : forall u m a rg ra rg_ms,
  pe_described u m a rg ra rg_ms ->
  let o := unwind_frame_x u (cache_new rule) a rg m in
  o_res _ _ o = (if ra =? 0 then Ok None else Ok (Some ra)) /\ (ra <> 0 -> rf_eq (o_regs _ _ o) rg_ms).
Proof. exact pe_step_matches_procedure. Qed.
Print Assumptions C03_step_matches_procedure.

(* Walks: when every activation is described by the PE data (so that the procedure yields its true
   return address and caller registers) and the root's return address is null, the walk yields
   exactly the chain - return address, caller rsp, caller rbp per step - then Ok(None). *)
Theorem C03_walk : forall u m a rg chain,
  pe_true_chain u m a rg chain ->
  walk_fresh u m a rg (S (length chain)) = (chain, Ok None).
Proof. exact pe_walk_true_chain. Qed.
Print Assumptions C03_walk.

(* the compressed rule alone: executing the rule made from (offset | pop)* equals running the
   sequence and popping the return address - for every sequence the encoder accepts *)
Theorem C03_rule_is_lossless : forall l ru first rg m rgB ra rg2,
  sp rg < W64 ->
  rule_for_sequence l = Some (Ok ru) -> run_oops l rg m = OpCont rgB -> ms_final rgB m = Some (ra, rg2) ->
  fst (exec ra_addr_checked ru first rg m) = (if ra =? 0 then Ok None else Ok (Some ra)) /\
  (ra <> 0 -> rf_eq (snd (exec ra_addr_checked ru first rg m)) rg2).
Proof. exact rule_exec_oops. Qed.
Print Assumptions C03_rule_is_lossless.

(* non-vacuity: push rbp; push rbx; sub rsp,48; mov [rsp+40],rsi - called from a root whose return
   address is what the procedure finds; the thread is in the callee's body (caller-kind address, so
   no text bytes are needed) *)
Definition ex_pe : pe_data :=
  mkpe [mkrt 4096 4160 12288]
       [(12288, Some (mkui None 0 [(13, USaveNonvol 6 40); (8, UAlloc 48); (4, UPop 3); (2, UPop 5)] None))] None.
Definition ex_u : xunwinder := mkunw mdata [mkmod 65536 131072 65536 0 (MPe ex_pe)] 0.
Definition ex_m : mem := mem_of_list [(1040, 33); (1048, 11); (1056, 22); (1064, 70000)].

Example C03_example_described :
  exists rg_ms, pe_described ex_u ex_m (RA 69680) (regs_new 69680 1000 0) 70000 rg_ms /\
                rf rg_ms RSP = 1072 /\ rf rg_ms RBP = 22 /\ rf rg_ms RBX = 11 /\ rf rg_ms RSI = 33.
Proof.
  eexists. split.
  - exists 69679, (mkmod 65536 131072 65536 0 (MPe ex_pe)), 4143, ex_pe.
    split; [reflexivity|]. split; [vm_compute; reflexivity|]. split; [reflexivity|].
    split; [vm_compute; reflexivity|]. split; [|split; [vm_compute; reflexivity | split; [intros [H _]; vm_compute in H; discriminate | intros _; vm_compute; reflexivity]]].
    intros f u0 Hlk Hui. vm_compute in Hlk. inversion Hlk; subst f. vm_compute in Hui. inversion Hui; subst u0.
    split; [|split; [intros insns H; vm_compute in H; discriminate | reflexivity]].
    eexists. split; [vm_compute; reflexivity|]. split; [repeat constructor|]. split; [repeat constructor|].
    exists [USaveNonvol 6 40], [UAlloc 48; UPop 3; UPop 5].
    split; [vm_compute; reflexivity|]. split; [|split].
    + apply Forall_cons; [|apply Forall_nil]. split; [discriminate | intros fr H; discriminate].
    + repeat (apply Forall_cons; [reflexivity|]). apply Forall_nil.
    + intros _ H. exfalso. apply H. reflexivity.
  - vm_compute. auto.
Qed.

Example C03_example_step :
  o_res _ _ (unwind_frame_x ex_u (cache_new rule) (RA 69680) (regs_new 69680 1000 0) ex_m) = Ok (Some 70000).
Proof. vm_compute. reflexivity. Qed.
