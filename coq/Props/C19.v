(* C19 - Every feature combination builds (incl. no_std) and unwinds identically. *)
From Coq Require Import String List Bool.
From FH Require Import Features FeatFacts.
Import ListNotations.
Open Scope string_scope.

(* What a theorem can carry here: the ONLY place where the features decide what a module's unwind
   data is, ModuleUnwindDataInternal::new, is regenerated from the source as the ordered list of
   (guarding feature, section) selectors.  For every two feature sets and every module that offers
   only sections the unguarded (DWARF) part looks at - or none (frame-pointer unwinding) - the
   selected kind is the same; everything downstream (the model of unwind_frame) is a function of
   that kind and has no feature parameter.  That the eight subsets BUILD, and that the compiled
   code indeed behaves identically, is decided on the real code by the check (eight builds, one
   battery, digests compared) - a theorem cannot exhibit a build failure. *)
Theorem C19_kind_independent : forall fs fs' has,
  (forall n, has n = true -> In n SRC_NEW_UNGUARDED_NAMES) ->
  module_kind fs has = module_kind fs' has.
Proof. intros fs fs' has. apply dwarf_only_module_independent. vm_compute. reflexivity. Qed.
Print Assumptions C19_kind_independent.

(* the general form: any module that offers none of the feature-only sections *)
Theorem C19_kind_independent_general : forall fs fs' has,
  (forall n, In n guarded_names -> has n = false) -> module_kind fs has = module_kind fs' has.
Proof. exact kind_independent_of_features. Qed.
Print Assumptions C19_kind_independent_general.

(* non-vacuity: with .eh_frame and .eh_frame_hdr only, all-features and no-features pick the same
   kind; and the features DO matter for a module that offers .pdata *)
Example C19_example :
  let has := fun n => orb (String.eqb n ".eh_frame") (String.eqb n ".eh_frame_hdr") in
  module_kind (fun _ => true) has = KUnguarded ".eh_frame" /\
  module_kind (fun _ => false) has = KUnguarded ".eh_frame" /\
  module_kind (fun _ => true) (fun n => orb (String.eqb n ".pdata") (String.eqb n ".eh_frame")) = KGuarded FPe ".pdata" /\
  module_kind (fun _ => false) (fun n => orb (String.eqb n ".pdata") (String.eqb n ".eh_frame")) = KUnguarded ".eh_frame".
Proof. vm_compute. auto. Qed.

(* the classification of DWARF errors (cached fallback or not) does not depend on a feature: no arm of
   depends_on_registers_or_stack that mentions a DWARF error is feature-guarded (regenerated from error.rs; a `#[cfg]`
   in front of an arm guards every alternative of its or-pattern - seeded change C19-3) *)
Example C19_dwarf_error_classification_unguarded :
  match SRC_STATE_DEPENDENT_ERRORS with
  | Some l => forallb (fun x => match x with
                                | (Some _, n) => negb (String.prefix "Dwarf::" n)
                                | (None, _) => true
                                end) l = true
  | None => False
  end.
Proof. reflexivity. Qed.
