(* C17 - iter_frames is exactly the fold of unwind_frame, starts at pc, stays finished. *)
From FH Require Import Word Unwinder IterFacts.
Open Scope N_scope.

Section C17.
Variables rule regs mdata : Type.
Variable exec : rule -> bool -> regs -> mem -> res (option N) * regs.
Variable fallback : rule.
Variable cb : module mdata -> bool -> N -> regs -> mem -> cb_result rule regs * eff.

(* n+1 calls of next() on a new iterator: first the pc, then exactly what a caller obtains by
   calling unwind_frame in a loop from the same registers and cache (fold_spec): return
   addresses as frames, a null return address as Err(ReturnAddressIsNull), the same final
   Ok(None) / Err. Holds for every architecture instance, unwinder, reader, cache. *)
Theorem C17_iter_is_fold : forall u m pc rg c n,
  fst (iter_run rule regs mdata exec fallback cb u m (iter_new _ _ pc rg c) (S n))
  = Ok (Some (IP pc)) :: fold_spec rule regs mdata exec fallback cb u m (IP pc) rg c n.
Proof. exact (iter_is_fold rule regs mdata exec fallback cb). Qed.

Theorem C17_no_null_frame : forall u m n a rg c f,
  In (Ok (Some f)) (fold_spec rule regs mdata exec fallback cb u m a rg c n) ->
  exists x, f = RA x /\ x <> 0.
Proof. exact (fold_spec_no_null rule regs mdata exec fallback cb). Qed.

Theorem C17_done_persists : forall u m n a rg c i,
  nth_error (fold_spec rule regs mdata exec fallback cb u m a rg c n) i = Some (Ok None) ->
  forall j, (i <= j < n)%nat ->
  nth_error (fold_spec rule regs mdata exec fallback cb u m a rg c n) j = Some (Ok None).
Proof. exact (fold_spec_done_persists rule regs mdata exec fallback cb). Qed.
End C17.
Print Assumptions C17_iter_is_fold.
Print Assumptions C17_no_null_frame.
Print Assumptions C17_done_persists.
