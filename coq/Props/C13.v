(* C13 - Return addresses are looked up at address-1, instruction pointers exactly. *)
From FH Require Import Word Unwinder IterFacts.
Open Scope N_scope.

Theorem C13_lookup_ip : forall a, lookup_address (IP a) = Ok a.
Proof. exact lookup_ip. Qed.
Print Assumptions C13_lookup_ip.

Theorem C13_lookup_ra : forall a, 0 < a -> lookup_address (RA a) = Ok (a - 1).
Proof. exact lookup_ra. Qed.
Print Assumptions C13_lookup_ra.

(* the subtraction can never underflow for an address the API can construct *)
Theorem C13_lookup_total : forall f, faddr_wf f = true -> exists x, lookup_address f = Ok x /\ x < W64.
Proof. exact lookup_total. Qed.
Print Assumptions C13_lookup_total.

Theorem C13_ra_nonzero : forall a f, from_return_address a = Some f -> f = RA a /\ a <> 0.
Proof. exact from_return_address_wf. Qed.
Print Assumptions C13_ra_nonzero.
