(* C06 - Cache transparency: results never depend on what the cache has seen. *)
From FH Require Import Consts Word X86 A64 Unwinder X86Unw A64Unw HistFacts StaticFacts.
From Coq Require Import Lia.
Open Scope N_scope.

Lemma gen_init_lt : GEN_INIT < W16. Proof. reflexivity. Qed.

(* Any history of new / add_module / remove_module / clone / new cache / unwind_frame over any
   number of unwinders and caches, starting from process start, with at most 65 536 operations
   (each draws at most one module-set identity) and each lookup address used consistently as
   instruction pointer or as return address ([kind]): every unwinding call observes the same
   (result, registers) as the same call made with a freshly created cache.
   [fresh_list] replays the history and, at each unwind, asks the model with [cache_new]. *)
Theorem C06_transparent_x86 : forall (kind : N -> bool) ops,
  Forall (op_consistent regs mdata kind) ops -> N.of_nat (length ops) <= 65536 ->
  Forall2 (obs_eq regs)
    (snd (run_ops_x (world0 rule mdata GEN_INIT) ops))
    (fresh_list rule regs mdata exec_x fallback_rule cb_x86 (world0 rule mdata GEN_INIT) ops).
Proof.
  intros kind ops Hc Hl.
  exact (history_transparent rule regs mdata exec_x fallback_rule cb_x86 cb_static_x86 cb_x86_ok
           kind GEN_INIT gen_init_lt ops _ _ 0
           (inv0 rule mdata fallback_rule cb_static_x86 kind GEN_INIT gen_init_lt) Hc Hl).
Qed.
Print Assumptions C06_transparent_x86.

Theorem C06_transparent_a64 : forall (kind : N -> bool) ops,
  Forall (op_consistent aregs amdata kind) ops -> N.of_nat (length ops) <= 65536 ->
  Forall2 (obs_eq aregs)
    (snd (run_ops_a (world0 arule amdata GEN_INIT) ops))
    (fresh_list arule aregs amdata aexec afallback_rule cb_a64 (world0 arule amdata GEN_INIT) ops).
Proof.
  intros kind ops Hc Hl.
  exact (history_transparent arule aregs amdata aexec afallback_rule cb_a64 cb_static_a64 cb_a64_ok
           kind GEN_INIT gen_init_lt ops _ _ 0
           (inv0 arule amdata afallback_rule cb_static_a64 kind GEN_INIT gen_init_lt) Hc Hl).
Qed.
Print Assumptions C06_transparent_a64.

(* what obs_eq says about an unwinding call *)
Check (eq_refl : obs_eq regs (ObsUnwind _ (Ok None) (regs_new 0 0 0) (mkstats 0 0 0 0) no_eff)
                              (ObsUnwind _ (Ok None) (regs_new 0 0 0) (mkstats 9 9 9 9) (mkeff true true))
               = (Ok None = Ok None /\ regs_new 0 0 0 = regs_new 0 0 0)).

(* the consistency hypothesis is necessary: the cached rule is computed with the first call's
   is_first_frame but keyed without it (lookup address 16 serves IP 16 and RA 17) *)
Example C06_consistency_needed :
  let md := mkmod 0 100 0 0
              (MDwarf POwnEh [mkfde 0 50 [(0, mkrow (CfaRegOff 7 8) RSameValue (ROffset (-8)))] true]) in
  let u := mkunw mdata [md] 0 in
  let m := mem_of_list [(1000, 777); (2008, 888); (2000, 3000)] in
  let rg := regs_new 16 1000 2000 in
  let c1 := o_cache _ _ (unwind_frame_x u (cache_new rule) (IP 60) rg m) in   (* caches the uncovered rule for 60 *)
  o_res _ _ (unwind_frame_x u c1 (RA 61) rg m) = o_res _ _ (unwind_frame_x u (cache_new rule) (RA 61) rg m).
Proof. vm_compute. reflexivity. Qed.

(* ---------- the tie of the error classification to the source ----------
   Which callback errors are "caused by this call's registers or stack" (the fallback runs but is NOT cached: CbErrV in
   the model, fix for S7) is decided in error.rs by UnwinderError::depends_on_registers_or_stack. Its `true` arms are
   regenerated from the source on every run (Generated/FeatConsts.v); this is the list the model's CbErrV sites
   transcribe (X86Dwarf.generic_x86, A64Dwarf.generic_a64, Pe.pe_step). A change of that function breaks this
   statement before any input is run. *)
From FH Require Import FeatConsts.
From Coq Require Import String List.
Import ListNotations.
Example C06_state_dependent_errors_as_modelled :
  SRC_STATE_DEPENDENT_ERRORS =
    Some [(None, "Dwarf::StackPointerMovedBackwards"%string); (None, "Dwarf::DidNotAdvance"%string);
          (None, "Dwarf::CouldNotRecoverCfa"%string); (None, "Dwarf::CouldNotRecoverReturnAddress"%string);
          (None, "Dwarf::CouldNotRecoverFramePointer"%string);
          (Some FPe, "Pe::MissingStackData"%string); (Some FPe, "Pe::StackPointerMovedBackwards"%string);
          (Some FPe, "Pe::DidNotAdvance"%string)].
Proof. reflexivity. Qed.
