(* C11 - End of stack is told apart from truncation; null is never a frame. *)
From FH Require Import Consts Word X86 A64 Unwinder X86Unw A64Unw X86Exec A64Exec A64Walk IterFacts ModFacts HistFacts StaticFacts TruncFacts TruncWalk DwarfRow Cfi X86Dwarf StaticSuff.
From Coq Require Import List. Import ListNotations.
Open Scope N_scope.

(* (a) the iterator never yields a null frame (generic in the architecture) *)
Check fold_spec_no_null.

(* (b) rule execution completes with Ok(None) only at a root marker:
   x86_64: the end-of-stack rule (return address undefined), a null frame pointer before a
   frame-pointer step, or a null word in the return-address slot *)
Theorem C11_ok_none_x86 : forall ru first rg m rg',
  exec ra_addr_checked ru first rg m = (Ok None, rg') ->
  ru = EndOfStack \/
  ((ru = UseFramePointer \/ (ru = JustReturnIfFirstFrameOtherwiseFp /\ first = false)) /\ bp rg = 0) \/
  (exists ns, 8 <= ns /\ m (ns - 8) = Some 0).
Proof. exact exec_x_none. Qed.
Print Assumptions C11_ok_none_x86.

(* aarch64: the stack-ends-here rule in a caller frame (return address undefined), a null saved
   frame pointer in a frame-pointer step, or a return address that is null after stripping *)
Theorem C11_ok_none_a64 : forall ru first rg m rg',
  aexec ru first rg m = (Ok None, rg') ->
  (exists k, ru = AOffsetSpIfFirstFrameOtherwiseStackEndsHere k /\ first = false) \/
  ((ru = AUseFramePointer \/ (ru = ANoOpIfFirstFrameOtherwiseFp /\ first = false) \/
    exists k f l, ru = AUseFramepointerWithOffsets k f l) /\ exists a, m a = Some 0) \/
  (exists nl, strip (mask rg) nl = 0).
Proof. exact aexec_none. Qed.
Print Assumptions C11_ok_none_a64.

(* successful steps never report null *)
Theorem C11_some_nonnull_x86 : forall ru first rg m ra rg',
  exec ra_addr_checked ru first rg m = (Ok (Some ra), rg') ->
  ra <> 0 /\ ip rg' = ra /\ sp rg <= sp rg' /\ ~ (sp rg' = sp rg /\ ra = ip rg).
Proof. exact exec_x_some. Qed.

(* (c) truncation: [mem_cut m cut] makes every read at or above [cut] fail. A rule executed on
   the truncated stack either names an address it could not read, or returns exactly what it
   returns on the full stack (so the frames before the error are a prefix of the true chain). *)
Theorem C11_truncation_x86 : forall m cut ru first rg,
  sp rg <= cut ->
  trunc_ok (exec ra_addr_checked ru first rg (mem_cut m cut)) (exec ra_addr_checked ru first rg m) (mem_cut m cut).
Proof.
  intros m cut ru first rg Hsp.
  exact (exec_x_trunc (mem_cut m cut) m ru first rg (mem_cut_le m cut)
           (fun _ a Ha => mem_cut_below m cut a (N.lt_le_trans _ _ _ Ha Hsp))).
Qed.
Print Assumptions C11_truncation_x86.

Theorem C11_truncation_a64 : forall m cut ru first rg,
  trunc_ok (aexec ru first rg (mem_cut m cut)) (aexec ru first rg m) (mem_cut m cut).
Proof. intros m cut ru first rg. exact (aexec_trunc (mem_cut m cut) m ru first rg (mem_cut_le m cut)). Qed.
Print Assumptions C11_truncation_a64.

(* the unreadable address of the error lies at or above the cut (or was unreadable anyway) *)
Theorem C11_error_names_cut : forall m cut a, mem_cut m cut a = None -> m a = None \/ cut <= a.
Proof. exact mem_cut_unreadable. Qed.
Print Assumptions C11_error_names_cut.

(* ---------- (c) at the level of unwind_frame and of whole walks (Proofs/TruncWalk.v) ----------
   "Rule-based step": served from the cache, by a rule that the module's unwind data gives for the
   address whatever the registers and the stack hold, or by the fallback rule - [all_static u]: every
   address of every module of u is answered that way (the classification cb_static_* is the one C06 and
   C20 rest on; it is proved exact for every format in Proofs/StaticFacts.v). m1 is m2 with some reads
   failing. One call either names an address m1 cannot read or returns on m1 what it returns on m2:
   result, registers and cache. *)
Theorem C11_frame_truncation_x86 : forall u m1 m2 c a rg,
  mem_le m1 m2 -> all_static rule mdata cb_static_x86 u ->
  (negb (is_ra a) = true -> forall x, x < sp rg -> m1 x = m2 x) ->
  frame_trunc rule regs m1 (unwind_frame_x u c a rg m1) (unwind_frame_x u c a rg m2).
Proof. intros u m1 m2 c a rg Hle St Hp. exact (unwind_frame_trunc_x u m1 m2 Hle St c a rg Hp). Qed.
Print Assumptions C11_frame_truncation_x86.

Theorem C11_frame_truncation_a64 : forall u m1 m2 c a rg,
  mem_le m1 m2 -> all_static arule amdata cb_static_a64 u ->
  frame_trunc arule aregs m1 (unwind_frame_a u c a rg m1) (unwind_frame_a u c a rg m2).
Proof. intros u m1 m2 c a rg Hle St. exact (unwind_frame_trunc_a u m1 m2 Hle St c a rg). Qed.
Print Assumptions C11_frame_truncation_a64.

(* whole walks, as their user sees them (results up to and including the first that is not a frame):
   the walk over the stack cut at [cut] equals the walk over the full stack, or equals it up to a call
   that reports Err(CouldNotReadStack x) with x unreadable - the frames before it are a prefix of the
   true chain *)
Theorem C11_walk_truncation_x86 : forall u m cut n pc rg c,
  all_static rule mdata cb_static_x86 u -> sp rg <= cut ->
  walk_trunc_ok (mem_cut m cut)
    (until_stop (fst (iter_run_x u (mem_cut m cut) (iter_new _ _ pc rg c) n)))
    (until_stop (fst (iter_run_x u m (iter_new _ _ pc rg c) n))).
Proof. exact walk_cut_x. Qed.
Print Assumptions C11_walk_truncation_x86.

Theorem C11_walk_truncation_a64 : forall u m1 m2 n it,
  mem_le m1 m2 -> all_static arule amdata cb_static_a64 u ->
  walk_trunc_ok m1 (until_stop (fst (iter_run_a u m1 it n))) (until_stop (fst (iter_run_a u m2 it n))).
Proof. intros u m1 m2 n it Hle St. exact (walk_trunc_a u m1 m2 Hle St n it). Qed.
Print Assumptions C11_walk_truncation_a64.

(* the premise is met: an unwinder whose only module has no unwind data answers every address statically *)
Example C11_all_static_example :
  all_static rule mdata cb_static_x86 (mkunw mdata [mkmod 0x1000 0x2000 0x1000 0 MNone] 0).
Proof.
  intros x first md rel H. destruct (find_module_only_container _ _ _ _ _ H) as [[<-|[]] _]. cbn. discriminate.
Qed.

(* which unwinders are rule-based throughout? A condition that can be read off the modules (Proofs/StaticSuff.v):
   every module has no unwind data or DWARF CFI - any presentation - all of whose rows compress into a rule *)
Theorem C11_rule_based_sufficient_x86 : forall u : xunwinder,
  (forall md, In md (mods _ u) -> module_rule_based_x86 md) -> all_static rule mdata cb_static_x86 u.
Proof. exact all_static_x86. Qed.
Print Assumptions C11_rule_based_sufficient_x86.

Theorem C11_rule_based_sufficient_a64 : forall u : aunwinder,
  (forall md, In md (mods _ u) -> module_rule_based_a64 md) -> all_static arule amdata cb_static_a64 u.
Proof. exact all_static_a64. Qed.
Print Assumptions C11_rule_based_sufficient_a64.

Example C11_rule_based_dwarf_example :
  let f := mkfde 0x1000 0x40 [(0, mkrow (CfaRegOff DW_RSP 8) RSameValue (ROffset (-8)));
                              (4, mkrow (CfaRegOff DW_RSP 32) RSameValue (ROffset (-8)));
                              (9, mkrow (CfaRegOff DW_RSP 40) (ROffset (-16)) (ROffset (-8)))] true in
  all_static rule mdata cb_static_x86 (mkunw mdata [mkmod 0x400000 0x402000 0x400000 0 (MDwarf POwnEh [f])] 7).
Proof.
  cbv zeta. apply all_static_x86. intros md [<-|[]]. unfold module_rule_based_x86. cbn [mdat].
  intros f [<-|[]] rw Hrw. cbn [f_rows map snd] in Hrw.
  destruct Hrw as [<-|[<-|[<-|[]]]]; vm_compute; discriminate.
Qed.
