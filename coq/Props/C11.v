(* C11 - End of stack is told apart from truncation; null is never a frame. *)
From FH Require Import Consts Word X86 A64 Unwinder X86Unw A64Unw X86Exec A64Exec A64Walk IterFacts TruncFacts.
Open Scope N_scope.

(* (a) the iterator never yields a null frame (generic in the architecture) *)
Check fold_spec_no_null.

(* (b) rule execution completes with Ok(None) only at a root marker:
   x86_64: the end-of-stack rule (return address undefined), a null frame pointer before a
   frame-pointer step, or a null word in the return-address slot *)
Theorem C11_ok_none_x86 : forall ru first rg m rg',
  exec ra_addr_checked ru first rg m = (Ok None, rg') ->
  ru = EndOfStack \/
  ((ru = UseFramePointer \/ (ru = JustReturnIfFirstFrameOtherwiseFp /\ first = false)) /\ bp rg = 0) \/
  (exists ns, 8 <= ns /\ m (ns - 8) = Some 0).
Proof. exact exec_x_none. Qed.
Print Assumptions C11_ok_none_x86.

(* aarch64: the stack-ends-here rule in a caller frame (return address undefined), a null saved
   frame pointer in a frame-pointer step, or a return address that is null after stripping *)
Theorem C11_ok_none_a64 : forall ru first rg m rg',
  aexec ru first rg m = (Ok None, rg') ->
  (exists k, ru = AOffsetSpIfFirstFrameOtherwiseStackEndsHere k /\ first = false) \/
  ((ru = AUseFramePointer \/ (ru = ANoOpIfFirstFrameOtherwiseFp /\ first = false) \/
    exists k f l, ru = AUseFramepointerWithOffsets k f l) /\ exists a, m a = Some 0) \/
  (exists nl, strip (mask rg) nl = 0).
Proof. exact aexec_none. Qed.
Print Assumptions C11_ok_none_a64.

(* successful steps never report null *)
Theorem C11_some_nonnull_x86 : forall ru first rg m ra rg',
  exec ra_addr_checked ru first rg m = (Ok (Some ra), rg') ->
  ra <> 0 /\ ip rg' = ra /\ sp rg <= sp rg' /\ ~ (sp rg' = sp rg /\ ra = ip rg).
Proof. exact exec_x_some. Qed.

(* (c) truncation: [mem_cut m cut] makes every read at or above [cut] fail. A rule executed on
   the truncated stack either names an address it could not read, or returns exactly what it
   returns on the full stack (so the frames before the error are a prefix of the true chain). *)
Theorem C11_truncation_x86 : forall m cut ru first rg,
  sp rg <= cut ->
  trunc_ok (exec ra_addr_checked ru first rg (mem_cut m cut)) (exec ra_addr_checked ru first rg m) (mem_cut m cut).
Proof.
  intros m cut ru first rg Hsp.
  exact (exec_x_trunc (mem_cut m cut) m ru first rg (mem_cut_le m cut)
           (fun a Ha => mem_cut_below m cut a (N.lt_le_trans _ _ _ Ha Hsp))).
Qed.
Print Assumptions C11_truncation_x86.

Theorem C11_truncation_a64 : forall m cut ru first rg,
  trunc_ok (aexec ru first rg (mem_cut m cut)) (aexec ru first rg m) (mem_cut m cut).
Proof. intros m cut ru first rg. exact (aexec_trunc (mem_cut m cut) m ru first rg (mem_cut_le m cut)). Qed.
Print Assumptions C11_truncation_a64.

(* the unreadable address of the error lies at or above the cut (or was unreadable anyway) *)
Theorem C11_error_names_cut : forall m cut a, mem_cut m cut a = None -> m a = None \/ cut <= a.
Proof. exact mem_cut_unreadable. Qed.
Print Assumptions C11_error_names_cut.
