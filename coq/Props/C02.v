(* C02 - Compact-unwind + instruction analysis is exact in prologues and epilogues. *)
From FH Require Import Consts Word X86 A64 Unwinder Macho MachoCb X86Unw A64Unw X86Exec MachoFacts MachoGrammar A64Enc A64Grammar.
From Coq Require Import Lia.
Open Scope N_scope.

(* ---- x86_64, function bodies: what each opcode kind yields ---- *)
(* [in_body_x86 first off fb]: a caller frame, or an innermost frame where the analysers recognise
   neither a prologue nor an epilogue - the situation the compact-unwind opcode describes. *)

(* Frameless (UNWIND_X86_64_MODE_STACK_IMMD): for EVERY frame size and EVERY register list a compiler
   can emit (distinct registers of the six, any order, permutation-encoded as the format specifies),
   the rule built from the opcode, executed on a frame laid out as the format says (return address on
   top, pushed registers below it in pop order), returns the return address, rsp + size and the
   caller's rbp. *)
Theorem C02_x86_frameless_exact : forall f first off fb rl rg m ra bpv,
  in_body_x86 first off fb ->
  let op := fn_opcode f in
  let size := N.land (N.shiftr op 16) 255 * 8 in
  N.land (N.shiftr op 24) 15 = 2 ->
  NoDup rl -> incl rl [1; 2; 3; 4; 5; 6] ->
  N.land (N.shiftr op 10) 7 = N.of_nat (length rl) -> N.land op 1023 = perm_encode rl ->
  8 * (N.of_nat (length rl) + 1) <= size -> sp rg + size < W64 -> ra <> 0 ->
  frameless_layout size rl rg m ra bpv ->
  exists r, x86_macho_unwind f first off fb = CuiRule r /\
    exec ra_addr_checked r first rg m = (Ok (Some ra), set_bp (set_sp (set_ip rg ra) (sp rg + size)) bpv).
Proof. exact x86_frameless_immediate_exact. Qed.
Print Assumptions C02_x86_frameless_exact.

(* the register permutation: the decoder inverts the specified encoder on every emit-able list *)
Theorem C02_permutation_roundtrip : forall l,
  NoDup l -> incl l [1; 2; 3; 4; 5; 6] ->
  decode_permutation (N.of_nat (length l)) (perm_encode l) = Some l.
Proof. exact permutation_roundtrip. Qed.
Print Assumptions C02_permutation_roundtrip.

(* frame-based entries use the frame-pointer rule (whose semantics is C04_fp_rule_x86);
   DWARF-deferred entries hand the FDE over (whose rows are C05 / C01) *)
Theorem C02_x86_frame_based : forall f first off fb,
  in_body_x86 first off fb -> N.land (N.shiftr (fn_opcode f) 24) 15 = 1 ->
  x86_macho_unwind f first off fb = CuiRule UseFramePointer.
Proof. exact x86_frame_based. Qed.
Theorem C02_x86_dwarf_deferred : forall f first off fb,
  in_body_x86 first off fb -> N.land (N.shiftr (fn_opcode f) 24) 15 = 4 ->
  x86_macho_unwind f first off fb = CuiNeedDwarf (N.land (fn_opcode f) 16777215).
Proof. exact x86_dwarf_deferred. Qed.
Print Assumptions C02_x86_frame_based.
Print Assumptions C02_x86_dwarf_deferred.

(* ---- x86_64, prologues and epilogues: the analysers on the compiler grammar ---- *)
(* Prologue  [push rbp; mov rbp, rsp]? ; push r* ; [sub rsp, N]?   Epilogue  pop r* ; ret.
   For ANY number of pushes of ANY of the sixteen registers, a thread stopped at ANY boundary:
   the analyser returns a rule, and the rule executed on the machine state reached at that boundary
   yields the return address, the caller's rsp (= rsp at entry + 8) and the caller's rbp. *)
Theorem C02_x86_prologue_before_frame_pointer : forall done after first rg m ra sp0,
  regs_ok done -> N.of_nat (length done) + 1 < W16 ->
  is_next_expected_in_prologue after = true ->
  8 * N.of_nat (length done) <= sp0 -> sp rg = sp0 - 8 * N.of_nat (length done) ->
  m sp0 = Some ra -> ra <> 0 -> sp0 + 8 < W64 ->
  prologue_x86 (enc_pushes done ++ after) (length (enc_pushes done)) = Some (OffsetSp (N.of_nat (length done) + 1)) /\
  exec ra_addr_checked (OffsetSp (N.of_nat (length done) + 1)) first rg m =
    (Ok (Some ra), set_bp (set_sp (set_ip rg ra) (sp0 + 8)) (bp rg)).
Proof. exact prologue_frameless_exact. Qed.
Print Assumptions C02_x86_prologue_before_frame_pointer.

Theorem C02_x86_prologue_after_frame_pointer : forall done after first rg m ra sp0 bp0,
  regs_ok done -> N.of_nat (length done) < W16 ->
  is_next_expected_in_prologue after = true ->
  8 < sp0 -> bp rg = sp0 - 8 -> sp rg <= bp rg ->
  m (sp0 - 8) = Some bp0 -> m sp0 = Some ra -> ra <> 0 -> sp0 + 8 < W64 ->
  prologue_x86 ([85; 72; 137; 229] ++ enc_pushes done ++ after) (length ([85; 72; 137; 229] ++ enc_pushes done))
    = Some UseFramePointer /\
  exec ra_addr_checked UseFramePointer first rg m =
    (Ok (Some ra), set_bp (set_sp (set_ip rg ra) (sp0 + 8)) bp0).
Proof. exact prologue_frame_exact. Qed.
Print Assumptions C02_x86_prologue_after_frame_pointer.

(* the next instruction of every prologue position is recognised as such *)
Theorem C02_x86_next_instruction : forall r n more,
  (r < 16 -> (4 <= length (enc_push r ++ more))%nat -> is_next_expected_in_prologue (enc_push r ++ more) = true) /\
  ((1 <= length more)%nat -> is_next_expected_in_prologue (MOV_RBP_RSP ++ more) = true) /\
  is_next_expected_in_prologue (enc_sub n ++ more) = true.
Proof. intros r n more. split; [apply next_push | split; [apply next_mov | apply next_sub]]. Qed.

Theorem C02_x86_epilogue : forall pre todo more first rg m ra bpv,
  regs_ok todo -> N.of_nat (length todo) < 32768 ->
  let n := N.of_nat (length todo) in
  sp rg + 8 * n + 8 < W64 -> m (sp rg + 8 * n) = Some ra -> ra <> 0 ->
  (forall j, rbp_slot todo 0 None = Some j -> m (sp rg + 8 * j) = Some bpv) ->
  (rbp_slot todo 0 None = None -> bpv = bp rg) ->
  epilogue_x86 (pre ++ enc_pops todo ++ 195 :: more) (length pre) = Some (epilogue_rule todo) /\
  exec ra_addr_checked (epilogue_rule todo) first rg m =
    (Ok (Some ra), set_bp (set_sp (set_ip rg ra) (sp rg + 8 * n + 8)) bpv).
Proof. exact epilogue_exact. Qed.
Print Assumptions C02_x86_epilogue.

(* non-vacuity: push r15; push rbx; sub rsp, 24 - stopped after the first push (2 bytes: 41 57) *)
Example C02_example :
  let text := [65; 87; 83; 72; 131; 236; 24; 144; 144; 144; 72; 131; 196; 24; 91; 65; 95; 195] in
  prologue_x86 text 2 = Some (OffsetSp 2) /\
  epilogue_x86 text 14 = Some (OffsetSp 3) /\
  analysis_x86 text 7 = None /\
  enc_pushes [15] = [65; 87] /\ enc_pops [3; 15] ++ [195] = [91; 65; 95; 195].
Proof. vm_compute. auto. Qed.

(* ======================================================================= arm64 (Proofs/A64Grammar.v)
   Prologue grammar:  [pacibsp] ; (stp xa, xb, [sp, #-n]! | stp xa, xb, [sp, #n] | sub sp, sp, #n)* ; add x29, sp, #n     (xa, xb among x19..x30)
   Epilogue grammar:  (add sp, sp, #n | ldp xa, xb, [sp, #n] | ldp xa, xb, [sp], #n)* ; (ret | retab | b target)
   with the real A64 encodings (A64Enc.v; bit-field facts by enumeration of the operand space). *)

(* stopped anywhere in the prologue before the frame pointer is set up: the thread entered with (sp0, lr0, fp0)
   and executed [done]; the analyser's rule, run on the registers it has NOW, gives the caller's frame.
   [sign] is what pacibsp does to lr: any function that stripping undoes. *)
Theorem C02_a64_prologue_exact : forall k sign, (forall v, strip k (sign v) = strip k v) ->
  forall done nxt rest sp0 lr0 fp0 m,
  Forall pvalid done -> nvalid nxt -> words_ok rest ->
  (psum done < 1048576)%Z -> (psum done mod 16 = 0)%Z -> (psum done <= Z.of_N sp0)%Z -> sp0 < W64 ->
  (nneeds_sub nxt = true -> psum done <> 0%Z) ->
  strip k lr0 <> 0 ->
  let st := prun sign done (sp0, lr0) in
  let rg := mkaregs k (snd st) (fst st) fp0 in
  exists ru, prologue_a64 (bytes_of (map penc done ++ nenc nxt :: rest)) (4 * length done) = Some ru /\
  aexec ru true rg m = (Ok (Some (strip k lr0)), mkaregs k (strip k lr0) sp0 fp0).
Proof. exact prologue_a64_exact. Qed.
Print Assumptions C02_a64_prologue_exact.

(* stopped at any instruction of the epilogue: the analyser's rule, run on the current registers, produces
   exactly what running the rest of the epilogue on the machine produces *)
Theorem C02_a64_epilogue_exact : forall pre x l t more k sp0 fp0 lr0 m,
  words_ok pre -> Forall evalid (x :: l) -> tvalid t ->
  let sF := run_spec (x :: l) s0 in
  let MF := mrun m (x :: l) (mkmst sp0 fp0 lr0) in
  term_ok t sF ->
  (es_sp sF < 1048576)%Z -> (es_sp sF mod 16 = 0)%Z ->
  loc_ok m sp0 (es_fp sF) -> loc_ok m sp0 (es_lr sF) -> (es_fp sF <> None -> es_lr sF <> None) ->
  (262144 <= Z.of_N sp0)%Z -> sp0 + 2097152 < W64 ->
  strip k (m_lr MF) <> 0 ->
  exists ru,
    epilogue_a64 (bytes_of (pre ++ eenc x :: map eenc l ++ tenc t :: more)) (4 * length pre) = Some ru /\
    aexec ru true (mkaregs k lr0 sp0 fp0) m = (Ok (Some (strip k (m_lr MF))), mkaregs k (strip k (m_lr MF)) (m_sp MF) (m_fp MF)).
Proof. exact epilogue_a64_exact. Qed.
Print Assumptions C02_a64_epilogue_exact.

(* at the return instruction, and at a tail-call branch right after the instruction that raised sp, everything
   has been restored: the rule is NoOp (return address in lr) *)
Theorem C02_a64_at_ret : forall pre t more, words_ok pre -> (t = TRet \/ t = TRetab) ->
  epilogue_a64 (bytes_of (pre ++ tenc t :: more)) (4 * length pre) = Some ANoOp.
Proof. exact epilogue_a64_at_ret. Qed.
Print Assumptions C02_a64_at_ret.

Theorem C02_a64_at_tail_call : forall pre x i more,
  words_ok pre -> evalid x -> (match x with ELdpOff _ _ _ => False | _ => True end) -> i < 67108864 ->
  epilogue_a64 (bytes_of ((pre ++ [eenc x]) ++ enc_b i :: more)) (4 * length (pre ++ [eenc x])) = Some ANoOp.
Proof. exact epilogue_a64_at_tail_call. Qed.
Print Assumptions C02_a64_at_tail_call.

(* the grammars are inhabited by clang's frames *)
Check prologue_example.
Check epilogue_example.
