(* Extract.v - extraction of the executable model to OCaml for the correspondence check.
   Only ExtrOcamlBasic is used (bool, option, unit, list, prod, sumbool, sumor mapped to OCaml's);
   N, Z, positive, nat stay the extracted inductive types; no Extract Constant. *)
From FH Require Import Consts Word X86 A64 Unwinder DwarfRow Cfi X86Dwarf A64Dwarf DwarfCb Pe X86Unw A64Unw Policy.
Require Extraction.
Require ExtrOcamlBasic.
Extraction Language OCaml.
Set Extraction Optimize.
Extraction "model.ml"
  mem_of_list site_is_own
  regs_new exec_x encode decode
  aexec mask_from_max_checked mask_24_40 mask_no_strip aregs_new_with_mask
  cache_new world0 run_op_x run_op_a iter_new iter_run_x iter_run_a
  unwind_frame_x unwind_frame_a
  translate_x86 translate_a64 ms_unwind cap_mdata cap_amdata
  prologue_x86 epilogue_x86 analysis_x86 prologue_a64 epilogue_a64 analysis_a64
  CACHE_ENTRY_COUNT.
