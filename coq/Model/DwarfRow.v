(* DwarfRow.v - what framehop does with one row of a DWARF CFI table:
   dwarf.rs eval_cfa_rule / eval_register_rule / eval_expr (gimli's evaluator by contract, for a
   small expression language), and the architecture-independent row type. *)
From FH Require Export Word.
From FH Require Import Consts.
Open Scope N_scope.

(* a small DWARF expression language; gimli's semantics for 8-byte generic values *)
Inductive eop :=
| EBreg (r : N) (off : Z)      (* DW_OP_bregN off : reg + off, wrapping *)
| ELit (n : N)                 (* DW_OP_litN / constu *)
| EPlusUconst (n : N)
| EPlus
| EAnd
| EShl
| EGe                          (* signed comparison, pushes 0/1 *)
| EDeref                       (* RequiresMemory: framehop gives up -> None *)
| EBad.                        (* anything gimli rejects *)

Definition expr := list eop.

Definition sx64 (v : N) : Z := if v <? 9223372036854775808 then Z.of_N v else (Z.of_N v - Z.of_N W64)%Z.

Definition expr_too_long (e : expr) : bool :=
  match EXPR_MAX_ITERATIONS with Some k => k <? N.of_nat (length e) | None => false end.

Section Eval.
Variable getreg : N -> option N.       (* DwarfUnwindRegs::get *)

Fixpoint eval_ops (e : expr) (st : list N) : option (list N) :=
  match e with
  | [] => Some st
  | o :: t =>
    match o, st with
    | EBreg r off, _ =>
      obind (getreg r) (fun v => eval_ops t (add64w v (z_as_u64 off) :: st))
    | ELit n, _ => eval_ops t (n mod W64 :: st)
    | EPlusUconst n, a :: st' => eval_ops t (add64w a (n mod W64) :: st')
    | EPlus, b :: a :: st' => eval_ops t (add64w a b :: st')
    | EAnd, b :: a :: st' => eval_ops t (N.land a b :: st')
    | EShl, b :: a :: st' =>
      eval_ops t ((if b <? 64 then (N.shiftl a b) mod W64 else 0) :: st')
    | EGe, b :: a :: st' =>
      eval_ops t ((if (sx64 b <=? sx64 a)%Z then 1 else 0) :: st')
    | _, _ => None
    end
  end.

(* eval_expr: the address of the last piece; an empty stack gives Location::Empty -> None.
   The evaluator is given a bound on the number of operations it executes (fix for S22: without it a
   backward DW_OP_skip / DW_OP_bra was evaluated forever); the model's operations are straight-line,
   one iteration each, so an expression fails exactly when it is longer than the bound.
   [EXPR_MAX_ITERATIONS] is regenerated from eval_expr's body (Generated/Consts.v). *)
Definition eval_expr (e : expr) : option N :=
  if expr_too_long e then None else
  match eval_ops e [] with
  | Some (top :: _) => Some top
  | _ => None
  end.

Inductive cfa_rule := CfaRegOff (r : N) (off : Z) | CfaExpr (e : expr).
Inductive reg_rule :=
| RUndefined | RSameValue | ROffset (z : Z) | RValOffset (z : Z) | RRegister (r : N)
| RExpr (e : expr) | RValExpr (e : expr) | RArchitectural.

Record row := mkrow { r_cfa : cfa_rule; r_fp : reg_rule; r_ra : reg_rule }.

(* checked_add_signed(val, offset)   (fix for S17; before it was
   u64::try_from(i64::try_from(val).ok()?.checked_add(offset)?).ok(), kept as u64_plus_i64_old) *)
Definition u64_plus_i64 (val : N) (off : Z) : option N := adds64c val off.
Definition u64_plus_i64_old (val : N) (off : Z) : option N :=
  obind (u64_to_i64 val) (fun v => obind (addi64c v off) i64_to_u64).

Definition eval_cfa_rule (c : cfa_rule) : option N :=
  match c with
  | CfaRegOff r off => obind (getreg r) (fun v => u64_plus_i64 v off)
  | CfaExpr e => eval_expr e
  end.

Definition eval_register_rule (ru : reg_rule) (cfa val : N) (m : mem) : option N :=
  match ru with
  | RUndefined => None
  | RSameValue => Some val
  | ROffset off => obind (u64_plus_i64 cfa off) m
  | RValOffset off => u64_plus_i64 cfa off
  | RRegister r => getreg r
  | RExpr e => obind (eval_expr e) m
  | RValExpr e => eval_expr e
  | RArchitectural => None
  end.
End Eval.

(* register_rule_to_cfa_offset *)
Definition rule_to_cfa_offset (ru : reg_rule) : option (option Z) :=
  match ru with
  | RUndefined | RSameValue => Some None
  | ROffset o => Some (Some o)
  | _ => None
  end.

(* DWARF offsets are i64 *)
Definition reg_rule_wf (ru : reg_rule) : bool :=
  match ru with
  | ROffset z | RValOffset z => in_i64 z
  | _ => true
  end.
Definition cfa_rule_wf (c : cfa_rule) : bool :=
  match c with CfaRegOff r z => in_i64 z | CfaExpr _ => true end.
Definition row_wf (r : row) : bool :=
  cfa_rule_wf (r_cfa r) && reg_rule_wf (r_fp r) && reg_rule_wf (r_ra r).
