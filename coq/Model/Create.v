(* Create.v - C14: the address arithmetic framehop does on section ranges when a module is created
   (unwinder.rs, ModuleUnwindDataInternal::new, PE) and when a Mach-O module is unwound through
   (unwind_frame_impl: __stubs / __stub_helper ranges).  [checked] = after the fixes for S11. *)
From FH Require Export Word.
Open Scope N_scope.

(* SVMA range of a PE section -> RVA range; None: the section is ignored *)
Definition pe_rva_range (checked : bool) (base lo hi : N) : res (option (N * N)) :=
  if (lo <? base) || (hi <? base) then (if checked then Ok None else Panic S_create_sub)
  else if (lo - base <? W32) && (hi - base <? W32) then Ok (Some (lo - base, hi - base)) else Ok None.

(* Mach-O: (start - base_svma) as u32, (end - base_svma) as u32 ; (0, 0) = no such section *)
Definition macho_rel_range (checked : bool) (base lo hi : N) : res (N * N) :=
  if (lo <? base) || (hi <? base) then (if checked then Ok (0, 0) else Panic S_create_sub)
  else if checked then (if (lo - base <? W32) && (hi - base <? W32) then Ok (lo - base, hi - base) else Ok (0, 0))
       else Ok ((lo - base) mod W32, (hi - base) mod W32).
