(* A64Unw.v - the aarch64 unwinder instance. *)
From FH Require Export Word A64 DwarfRow Cfi Unwinder A64Dwarf DwarfCb Macho MachoCb.
Open Scope N_scope.

Inductive amdata :=
| AMNone
| AMDwarf (p : pres) (sec : list fde)
| AMPe                        (* PE module on aarch64: PeUnwinderError::Aarch64Unsupported *)
| AMMacho (d : macho_data).

Definition amodule := module amdata.

Definition cb_a64 (md : amodule) (first : bool) (rel : N) (rg : aregs) (m : mem)
  : cb_result arule aregs * eff :=
  match mdat md with
  | AMNone => (CbErr rg, no_eff)
  | AMDwarf p sec =>
    cb_dwarf arule aregs row_step_a64 uncovered_rule_a64 true p sec (base_svma md) first rel rg m
  | AMPe => (CbErr rg, no_eff)
  | AMMacho d =>
    cb_macho arule aregs row_step_a64 uncovered_rule_a64 a64_macho_unwind ANoOp ANoOp a64_stub_helper_rule
             d (base_svma md) first rel rg m
  end.

Definition aunwinder := unwinder amdata.
Definition acache := cache arule.
Definition unwind_frame_a (u : aunwinder) (c : acache) (a : faddr) (rg : aregs) (m : mem) :=
  unwind_frame arule aregs amdata aexec afallback_rule cb_a64 u c a rg m.
Definition iter_next_a := iter_next arule aregs amdata aexec afallback_rule cb_a64.
Definition iter_run_a := iter_run arule aregs amdata aexec afallback_rule cb_a64.
Definition run_ops_a := run_ops arule aregs amdata aexec afallback_rule cb_a64.
Definition run_op_a := run_op arule aregs amdata aexec afallback_rule cb_a64.
