(* X86.v - x86_64 registers, register_ordering.rs, unwind_rule.rs (exec), mirrored arm by arm. *)
From FH Require Export Word.
Open Scope N_scope.

(* unwindregs.rs: enum Reg, in discriminant order *)
Inductive reg := RAX | RDX | RCX | RBX | RSI | RDI | RBP | RSP
               | R8 | R9 | R10 | R11 | R12 | R13 | R14 | R15.

Definition reg_idx (r : reg) : N :=
  match r with
  | RAX => 0 | RDX => 1 | RCX => 2 | RBX => 3 | RSI => 4 | RDI => 5 | RBP => 6 | RSP => 7
  | R8 => 8 | R9 => 9 | R10 => 10 | R11 => 11 | R12 => 12 | R13 => 13 | R14 => 14 | R15 => 15
  end.

Definition all_regs : list reg :=
  [RAX; RDX; RCX; RBX; RSI; RDI; RBP; RSP; R8; R9; R10; R11; R12; R13; R14; R15].

Definition reg_eqb (a b : reg) : bool := N.eqb (reg_idx a) (reg_idx b).

Record regs := mkregs { ip : N; rf : reg -> N }.

Definition getr (rg : regs) (r : reg) : N := rf rg r.
Definition setr (rg : regs) (r : reg) (v : N) : regs :=
  mkregs (ip rg) (fun r' => if reg_eqb r r' then v else rf rg r').
Definition set_ip (rg : regs) (v : N) : regs := mkregs v (rf rg).
Definition sp (rg : regs) := getr rg RSP.
Definition bp (rg : regs) := getr rg RBP.
Definition set_sp (rg : regs) v := setr rg RSP v.
Definition set_bp (rg : regs) v := setr rg RBP v.

(* UnwindRegsX86_64::new(ip, sp, bp): all other registers zero *)
Definition regs_new (i s b : N) : regs :=
  set_bp (set_sp (mkregs i (fun _ => 0)) s) b.

(* ---------- register_ordering.rs ---------- *)
Definition ENCODE_REGISTERS : list reg := [RBX; RBP; RDI; RSI; R12; R13; R14; R15].

(* list helpers mirroring slice operations; out-of-range = panic *)
Fixpoint nth_opt {A} (l : list A) (n : nat) : option A :=
  match l, n with
  | [], _ => None
  | x :: _, O => Some x
  | _ :: t, S k => nth_opt t k
  end.

Fixpoint set_nth {A} (l : list A) (n : nat) (v : A) : list A :=
  match l, n with
  | [], _ => []
  | _ :: t, O => v :: t
  | x :: t, S k => x :: set_nth t k v
  end.

(* l[from..].swap(i, 0) *)
Definition swap_tail {A} (l : list A) (from i : nat) : option (list A) :=
  match nth_opt l from, nth_opt l (from + i) with
  | Some a, Some b => Some (set_nth (set_nth l from b) (from + i) a)
  | _, _ => None
  end.

(* decode: while r != 0 { index = r % n; swap; r /= n; n -= 1 }.
   Fuel: r strictly decreases when n >= 2; n = 1 gives r/1 = r with n -> 0, then r % 0 panics.
   We recurse on fuel 17 (u16 has 16 bits; at most 8 iterations before n reaches 0). *)
Fixpoint decode_loop (fuel : nat) (rs : list reg) (r n : N) : res (list reg) :=
  match fuel with
  | O => Hang
  | S f =>
    if r =? 0 then Ok rs
    else if n =? 0 then Panic S_regorder_rem
    else
      let index := r mod n in
      let rs' := if index =? 0 then Some rs
                 else swap_tail rs (N.to_nat (8 - n)) (N.to_nat index) in
      match rs' with
      | None => Panic S_regorder_idx
      | Some rs'' => decode_loop f rs'' (r / n) (n - 1)
      end
  end.

Definition decode (count enc : N) : res (list reg) :=
  res_bind (decode_loop 18 ENCODE_REGISTERS enc 8)
           (fun rs => Ok (firstn (N.to_nat count) rs)).   (* truncate *)

Fixpoint position {A} (eqb : A -> A -> bool) (x : A) (l : list A) : option nat :=
  match l with
  | [] => None
  | y :: t => if eqb y x then Some O
              else match position eqb x t with Some k => Some (S k) | None => None end
  end.

(* encode: for (i, reg): index = reg_order[i..].position(reg)?; swap; r += index*scale; scale *= 8 - i
   r and scale are u16; the products stay below 2^16 for at most 8 registers (proved). We model the
   u16 arithmetic as panicking. *)
Fixpoint encode_loop (regsl : list reg) (i : nat) (order : list reg) (r scale : N)
  : option (res N) :=
  match regsl with
  | [] => Some (Ok r)
  | x :: t =>
    match position reg_eqb x (skipn i order) with
    | None => None
    | Some index =>
      match (if Nat.eqb index 0 then Some order else swap_tail order i index) with
      | None => Some (Panic S_regorder_idx)
      | Some order' =>
        let prod := N.of_nat index * scale in
        let r' := r + prod in
        let scale' := scale * (8 - N.of_nat i) in
        if (prod <? W16) && (r' <? W16) && (scale' <? W16)
        then encode_loop t (S i) order' r' scale'
        else Some (Panic S_regorder_rem)
      end
    end
  end.

Definition encode (l : list reg) : option (res (N * N)) :=
  if Nat.ltb 8 (length l) then None
  else match encode_loop l 0 ENCODE_REGISTERS 0 1 with
       | None => None
       | Some (Ok r) => Some (Ok (N.of_nat (length l), r))
       | Some (Err e) => Some (Err e)
       | Some (Panic s) => Some (Panic s)
       | Some Hang => Some Hang
       end.

(* ---------- unwind_rule.rs ---------- *)
Inductive rule :=
| EndOfStack
| JustReturn
| JustReturnIfFirstFrameOtherwiseFp
| OffsetSp (k : N)
| OffsetSpAndRestoreBp (k : N) (y : Z)
| UseFramePointer
| OffsetSpAndPopRegisters (k cnt enc : N).

Definition rule_eqb (a b : rule) : bool :=
  match a, b with
  | EndOfStack, EndOfStack => true
  | JustReturn, JustReturn => true
  | JustReturnIfFirstFrameOtherwiseFp, JustReturnIfFirstFrameOtherwiseFp => true
  | OffsetSp k, OffsetSp k' => k =? k'
  | OffsetSpAndRestoreBp k y, OffsetSpAndRestoreBp k' y' => (k =? k') && (y =? y')%Z
  | UseFramePointer, UseFramePointer => true
  | OffsetSpAndPopRegisters k c e, OffsetSpAndPopRegisters k' c' e' =>
      (k =? k') && (c =? c') && (e =? e')
  | _, _ => false
  end.

(* field ranges of the Rust enum: u16 / i16 / u8 *)
Definition rule_wf (r : rule) : bool :=
  match r with
  | OffsetSp k => k <? W16
  | OffsetSpAndRestoreBp k y => (k <? W16) && in_i16 y
  | OffsetSpAndPopRegisters k c e => (k <? W16) && (c <? 256) && (e <? W16)
  | _ => true
  end.

Definition fallback_rule : rule := UseFramePointer.
Definition rule_for_stub_functions : rule := JustReturn.
Definition rule_for_function_start : rule := JustReturn.

Definition read (m : mem) (a : N) : res N :=
  match m a with Some v => Ok v | None => Err (CouldNotReadStack a) end.

(* the loop of the OffsetSpAndPopRegisters arm; registers are written as it goes *)
Fixpoint pop_loop (l : list reg) (s : N) (rg : regs) (m : mem) : res N * regs :=
  match l with
  | [] => (Ok s, rg)
  | r :: t =>
    match m s with
    | None => (Err (CouldNotReadStack s), rg)
    | Some v =>
      match add64c s 8 with
      | None => (Err IntegerOverflow, rg)
      | Some s' => pop_loop t s' (setr rg r v) m
      end
    end
  end.

(* lines 239-250, shared by all arms.  [ra_sub] is how `new_sp - 8` is computed:
   the tree as it stands uses a bare subtraction. *)
Definition exec_tail (ra_addr : N -> res N) (osp : N) (rg : regs) (m : mem) (new_sp new_bp : N)
  : res (option N) * regs :=
  match ra_addr new_sp with
  | Ok a =>
    match m a with
    | None => (Err (CouldNotReadStack a), rg)
    | Some ra =>
      if ra =? 0 then (Ok None, rg)
      else if (new_sp =? osp) && (ra =? ip rg) then (Err DidNotAdvance, rg)
      else (Ok (Some ra), set_bp (set_sp (set_ip rg ra) new_sp) new_bp)
    end
  | Err e => (Err e, rg)
  | Panic s => (Panic s, rg)
  | Hang => (Hang, rg)
  end.

(* The return-address slot computation of the current tree. After the fix: commit for S3 it is
   checked_sub(8).ok_or(IntegerOverflow); Generated/Consts.v tells which one the source has. *)
Definition ra_addr_bare (new_sp : N) : res N := sub64p S_x86_rule_ra_sub new_sp 8.
Definition ra_addr_checked (new_sp : N) : res N := ok_or (sub64c new_sp 8) IntegerOverflow.

Section Exec.
Variable ra_addr : N -> res N.

Definition exec (ru : rule) (first : bool) (rg : regs) (m : mem) : res (option N) * regs :=
  let s := sp rg in
  match ru with
  | EndOfStack => (Ok None, rg)
  | JustReturn =>
    match add64c s 8 with
    | None => (Err IntegerOverflow, rg)
    | Some ns => exec_tail ra_addr s rg m ns (bp rg)
    end
  | JustReturnIfFirstFrameOtherwiseFp =>
    if first then
      match add64c s 8 with
      | None => (Err IntegerOverflow, rg)
      | Some ns => exec_tail ra_addr s rg m ns (bp rg)
      end
    else
      let b := bp rg in
      if b =? 0 then (Ok None, rg)                 (* fix for S10 *)
      else
      match add64c b 16 with
      | None => (Err IntegerOverflow, rg)
      | Some ns =>
        if ns <=? s then (Err FpMovedBackwards, rg)
        else match m b with
             | None => (Err (CouldNotReadStack b), rg)
             | Some nb => exec_tail ra_addr s rg m ns nb
             end
      end
  | OffsetSp k =>
    match add64c s (k * 8) with
    | None => (Err IntegerOverflow, rg)
    | Some ns => exec_tail ra_addr s rg m ns (bp rg)
    end
  | OffsetSpAndRestoreBp k y =>
    match add64c s (k * 8) with
    | None => (Err IntegerOverflow, rg)
    | Some ns =>
      match adds64c s (y * 8) with
      | None => (Err IntegerOverflow, rg)
      | Some loc =>
        match m loc with
        | Some nb => exec_tail ra_addr s rg m ns nb
        | None =>
          if first && (loc <? s) then exec_tail ra_addr s rg m ns (bp rg)
          else (Err (CouldNotReadStack loc), rg)
        end
      end
    end
  | UseFramePointer =>
    let b := bp rg in
    if b =? 0 then (Ok None, rg)
    else match add64c b 16 with
         | None => (Err IntegerOverflow, rg)
         | Some ns =>
           if ns <=? s then (Err FpMovedBackwards, rg)
           else match m b with
                | None => (Err (CouldNotReadStack b), rg)
                | Some nb => exec_tail ra_addr s rg m ns nb
                end
         end
  | OffsetSpAndPopRegisters k cnt enc =>
    match add64c s (k * 8) with
    | None => (Err IntegerOverflow, rg)
    | Some s1 =>
      match decode cnt enc with
      | Ok l =>
        match pop_loop l s1 rg m with
        | (Ok s2, rg2) =>
          match add64c s2 8 with
          | None => (Err IntegerOverflow, rg2)
          | Some ns => exec_tail ra_addr s rg2 m ns (bp rg2)
          end
        | (Err e, rg2) => (Err e, rg2)
        | (Panic st, rg2) => (Panic st, rg2)
        | (Hang, rg2) => (Hang, rg2)
        end
      | Err e => (Err e, rg)
      | Panic st => (Panic st, rg)
      | Hang => (Hang, rg)
      end
    end
  end.
End Exec.
