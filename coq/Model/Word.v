(* Word.v - numeric semantics of the overflow-checked (debug) build.
   u64/u32/u16 are N with explicit range tests, i64/i32/i16 are Z.
   Every Rust operator used by framehop is mirrored by one function:
     checked_*            -> option
     bare + - * << >> []  -> res with a Panic site (what an overflow-checked build does)
   No proofs in this file. *)
From Coq Require Export NArith ZArith List Bool.
Export ListNotations.
Open Scope N_scope.

Definition W64 : N := 18446744073709551616.      (* 2^64 *)
Definition W32 : N := 4294967296.
Definition W16 : N := 65536.
Definition MAX64 : N := 18446744073709551615.

(* crate::Error *)
Inductive error :=
| CouldNotReadStack (a : N)
| FpMovedBackwards
| DidNotAdvance
| IntegerOverflow
| ReturnAddressIsNull.

(* Places where the overflow-checked build panics (bare arithmetic, slicing, unwrap)
   or where a dependency does.  own = in framehop's source files. *)
Inductive site :=
| S_x86_rule_ra_sub          (* x86_64/unwind_rule.rs  read_stack(new_sp - 8)      *)
| S_x86_dwarf_ra_sub         (* x86_64/dwarf.rs        read_stack(cfa - 8)         *)
| S_a64_rule_fp_add          (* aarch64/unwind_rule.rs read_stack(fp + 8)          *)
| S_mask_shr                 (* aarch64/unwindregs.rs  u64::MAX >> leading_zeros   *)
| S_addr_ra_sub              (* code_address.rs        u64::from(address) - 1      *)
| S_find_sub                 (* unwinder.rs            address - module.base_avma  *)
| S_dwarf_svma_add           (* dwarf.rs               base_svma + rel             *)
| S_regorder_rem             (* register_ordering.rs   r % n with n = 0            *)
| S_regorder_idx             (* register_ordering.rs   slice / swap index          *)
| S_pe_own_add               (* x86_64/pe.rs           rsp + off, rsp + 8, fp + off *)
| S_pe_own_sub               (* x86_64/pe.rs           end - address, address - begin *)
| S_pe_own_slice             (* x86_64/pe.rs, pe.rs    [..bytes], &data[offset..]  *)
| S_pe_own_expect            (* x86_64/pe.rs           expect("invalid fp register offset") *)
| S_pe_dep                   (* pe-unwind-info         resolve_operation arithmetic *)
| S_create_sub               (* unwinder.rs            section range - base_svma (module creation, stubs ranges) *)
| S_macho_stub_sub           (* unwinder.rs            stubs_range.start - base_svma *)
| S_macho_fn_sub             (* macho.rs               rel - function.start_address *)
| S_macho_split              (* instruction analysis   split_at(pc_offset)         *)
| S_macho_counter            (* x86_64 analysis        u16 counter += 1            *)
| S_macho_a64_spoff          (* aarch64 analysis       i32 sp_offset arithmetic     *)
| S_module_pe_sub            (* unwinder.rs            range.start - base_svma (PE) *)
| S_cache_stat_add           (* rule_cache.rs          u64 counter += 1            *)
| S_other.

Definition site_is_own (s : site) : bool :=
  match s with S_pe_dep => false | _ => true end.

Inductive res (A : Type) :=
| Ok (a : A)
| Err (e : error)
| Panic (s : site)
| Hang.
Arguments Ok {A} a.
Arguments Err {A} e.
Arguments Panic {A} s.
Arguments Hang {A}.

Definition res_bind {A B} (r : res A) (f : A -> res B) : res B :=
  match r with
  | Ok a => f a
  | Err e => Err e
  | Panic s => Panic s
  | Hang => Hang
  end.

Definition is_panic {A} (r : res A) : bool :=
  match r with Panic _ => true | _ => false end.
Definition is_hang {A} (r : res A) : bool :=
  match r with Hang => true | _ => false end.
Definition returns {A} (r : res A) : bool :=
  match r with Ok _ | Err _ => true | _ => false end.

(* The stack reader: a pure partial function. *)
Definition mem := N -> option N.

Fixpoint mem_of_list (l : list (N * N)) : mem :=
  fun a => match l with
           | [] => None
           | (k, v) :: t => if N.eqb k a then Some v else mem_of_list t a
           end.

(* ---- unsigned ---- *)
Definition in64 (a : N) : bool := a <? W64.

(* u64::checked_add *)
Definition add64c (a b : N) : option N :=
  if a + b <? W64 then Some (a + b) else None.
(* u64::checked_sub *)
Definition sub64c (a b : N) : option N :=
  if b <=? a then Some (a - b) else None.
(* bare a + b on u64 *)
Definition add64p (s : site) (a b : N) : res N :=
  if a + b <? W64 then Ok (a + b) else Panic s.
(* bare a - b on u64 *)
Definition sub64p (s : site) (a b : N) : res N :=
  if b <=? a then Ok (a - b) else Panic s.
(* u64::wrapping_add *)
Definition add64w (a b : N) : N := (a + b) mod W64.

(* ---- signed ---- *)
Definition I64MIN : Z := (-9223372036854775808)%Z.
Definition I64MAX : Z := 9223372036854775807%Z.
Definition in_i64 (z : Z) : bool := ((I64MIN <=? z) && (z <=? I64MAX))%Z.
Definition in_i16 (z : Z) : bool := ((-32768 <=? z) && (z <=? 32767))%Z.
Definition in_i32 (z : Z) : bool := ((-2147483648 <=? z) && (z <=? 2147483647))%Z.
Definition in_u16z (z : Z) : bool := ((0 <=? z) && (z <? 65536))%Z.
Definition in_u32z (z : Z) : bool := ((0 <=? z) && (z <? 4294967296))%Z.

(* `rhs as u64` for an i64 *)
Definition z_as_u64 (z : Z) : N := Z.to_N (z mod (Z.of_N W64)).

(* add_signed.rs, transcribed literally:
     let res = self.wrapping_add(rhs as u64);
     if (rhs >= 0 && res >= self) || (rhs < 0 && res < self) { Some(res) } else { None } *)
Definition adds64c (lhs : N) (rhs : Z) : option N :=
  let r := add64w lhs (z_as_u64 rhs) in
  if ((0 <=? rhs)%Z && (lhs <=? r)) || ((rhs <? 0)%Z && (r <? lhs))
  then Some r else None.

(* i64::try_from(u64) *)
Definition u64_to_i64 (a : N) : option Z :=
  if (Z.of_N a <=? I64MAX)%Z then Some (Z.of_N a) else None.
(* i64::checked_add *)
Definition addi64c (a b : Z) : option Z :=
  if in_i64 (a + b) then Some (a + b)%Z else None.
(* u64::try_from(i64) *)
Definition i64_to_u64 (z : Z) : option N :=
  if (0 <=? z)%Z then Some (Z.to_N z) else None.
(* u16::try_from(i64), i16::try_from(i64) *)
Definition i64_to_u16 (z : Z) : option N :=
  if in_u16z z then Some (Z.to_N z) else None.
Definition i64_to_i16 (z : Z) : option Z :=
  if in_i16 z then Some z else None.

(* Rust's `/` on signed integers truncates toward zero. *)
Definition divz (a b : Z) : Z := Z.quot a b.

(* option helpers *)
Definition obind {A B} (o : option A) (f : A -> option B) : option B :=
  match o with Some a => f a | None => None end.

Definition ok_or {A} (o : option A) (e : error) : res A :=
  match o with Some a => Ok a | None => Err e end.
