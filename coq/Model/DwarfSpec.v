(* DwarfSpec.v - the SPECIFICATION side of C05: what DWARF prescribes for a row whose CFA is
   stack-pointer or frame-pointer plus an offset and whose return-address and frame-pointer rules
   are undefined / same-value / saved at a CFA-relative slot.  Exact integer arithmetic; defined
   exactly when the sums are addresses and the named slots are readable. *)
From FH Require Export Word DwarfRow.
Open Scope N_scope.

Definition zadd (a : N) (z : Z) : option N :=
  let s := (Z.of_N a + z)%Z in
  if ((0 <=? s) && (s <? Z.of_N W64))%Z then Some (Z.to_N s) else None.

(* sp_r fp_r : the DWARF numbers of the stack and frame pointer registers;
   spv fpv rav : their current values and the current return-address register value
   (ip on x86_64, lr on aarch64).
   Result: (Some ra | None = end of stack, CFA = caller's sp, caller's fp). *)
Definition spec_step (sp_r fp_r spv fpv rav : N) (rw : row) (m : mem) : option (option N * N * N) :=
  match r_ra rw with
  | RUndefined => Some (None, 0, 0)
  | _ =>
    match r_cfa rw with
    | CfaRegOff r off =>
      let base := if r =? sp_r then Some spv else if r =? fp_r then Some fpv else None in
      obind base (fun b => obind (zadd b off) (fun cfa =>
        let ofp := match r_fp rw with
                   | ROffset o => obind (zadd cfa o) m
                   | RSameValue | RUndefined => Some fpv
                   | _ => None
                   end in
        let ora := match r_ra rw with
                   | ROffset o => obind (zadd cfa o) m
                   | RSameValue => Some rav
                   | _ => None
                   end in
        match ofp, ora with
        | Some f, Some ra => Some (Some ra, cfa, f)
        | _, _ => None
        end))
    | CfaExpr _ => None
    end
  end.

Definition cfa_on_fp (fp_r : N) (rw : row) : bool :=
  match r_cfa rw with CfaRegOff r _ => r =? fp_r | _ => false end.
