(* Macho.v - Mach-O compact unwind info: macho.rs (CompactUnwindInfoUnwinder::unwind_frame),
   x86_64/macho.rs, aarch64/macho.rs and the instruction analysers under
   {x86_64,aarch64}/instruction_analysis.  Dependency code that decides WHAT framehop sees is
   transcribed and marked (D): the function lookup of macho-unwind-info, the opcode bit fields and
   the register permutation.  Bytes are numbers < 256, instruction words little-endian. *)
From FH Require Export Word X86 A64 Unwinder DwarfRow Cfi.
Open Scope N_scope.

Record mentry := mkme { me_start : N; me_opcode : N }.

Record macho_data := mkmacho {
  m_entries : list mentry;            (* __unwind_info entries as emitted, sorted by start *)
  m_end : N;                          (* first address of the sentinel page *)
  m_stubs : N * N;                    (* __stubs range relative to the base address; (0,0) = none *)
  m_helper : N * N;                   (* __stub_helper range *)
  m_text : option (N * list N);       (* offset of the text bytes from the base address, bytes *)
  m_eh : option (list (N * fde))      (* __eh_frame: FDE offset -> FDE; None = section not supplied *)
}.

(* ---------- (D) UnwindInfo::lookup ---------- *)
Record mfunction := mkmfn { fn_start : N; fn_end : N; fn_opcode : N }.

Fixpoint lookup_entries (l : list mentry) (pc : N) (endaddr : N) (prev : option mentry) : option mfunction :=
  match l with
  | [] => match prev with Some p => Some (mkmfn (me_start p) endaddr (me_opcode p)) | None => None end
  | e :: t =>
    if pc <? me_start e then
      match prev with Some p => Some (mkmfn (me_start p) (me_start e) (me_opcode p)) | None => None end
    else lookup_entries t pc endaddr (Some e)
  end.

Definition macho_lookup (d : macho_data) (pc : N) : option mfunction :=
  if m_end d <=? pc then None else lookup_entries (m_entries d) pc (m_end d) None.

(* ---------- (D) decode_permutation_6 ---------- *)
Fixpoint nth_unused (used : list bool) (k : nat) (idx : N) : option N :=
  match used with
  | [] => None
  | u :: t => if u then nth_unused t k (idx + 1)
              else match k with O => Some idx | S k' => nth_unused t k' (idx + 1) end
  end.
Fixpoint mark_used (used : list bool) (i : nat) : list bool :=
  match used, i with
  | [], _ => []
  | _ :: t, O => true :: t
  | u :: t, S i' => u :: mark_used t i'
  end.

(* registers (compact-unwind numbers 1..6, 0 = none) in the order they are popped *)
Definition decode_permutation (count enc : N) : option (list N) :=
  if 6 <? count then None else
  let e0 := enc in
  let '(c4, e1) := if 4 <? count then (e0 mod 2, e0 / 2) else (0, e0) in
  let '(c3, e2) := if 3 <? count then (e1 mod 3, e1 / 3) else (0, e1) in
  let '(c2, e3) := if 2 <? count then (e2 mod 4, e2 / 4) else (0, e2) in
  let '(c1, e4) := if 1 <? count then (e3 mod 5, e3 / 5) else (0, e3) in
  let c0 := if 0 <? count then e4 else 0 in
  if 6 <=? c0 then None else
  let cs := [c0; c1; c2; c3; c4; 0] in
  let fix go (cs : list N) (n : nat) (used : list bool) (acc : list N) : option (list N) :=
    match n, cs with
    | O, _ => Some (rev acc)
    | S n', c :: ct =>
      match nth_unused used (N.to_nat c) 0 with
      | Some i => go ct n' (mark_used used (N.to_nat i)) ((i + 1) :: acc)
      | None => None                       (* .unwrap() in the dependency; unreachable for count <= 6 *)
      end
    | S _, [] => None
    end in
  go cs (N.to_nat count) [false; false; false; false; false; false] [].

Definition CU_RBP : N := 6.

(* saved_regs.iter().rev().flatten().position(|r| r == Rbp) *)
Fixpoint position_of (x : N) (l : list N) (i : N) : option N :=
  match l with
  | [] => None
  | y :: t => if y =? x then Some i else position_of x t (i + 1)
  end.
Definition bp_position_from_outside (regs : list N) : option N :=
  position_of CU_RBP (rev (filter (fun r => negb (r =? 0)) regs)) 0.

(* ---------- generic results ---------- *)
Inductive cui_result (R : Type) := CuiRule (r : R) | CuiNeedDwarf (fde_offset : N) | CuiErr.
Arguments CuiRule {R}. Arguments CuiNeedDwarf {R}. Arguments CuiErr {R}.

Definition sub_bytes (l : list N) (a b : N) : option (list N) :=
  (* bytes.get(a..b) *)
  if (a <=? b) && (b <=? N.of_nat (length l)) then Some (firstn (N.to_nat (b - a)) (skipn (N.to_nat a) l)) else None.

(* ========================================================================== x86_64 *)
(* ---------- x86_64/instruction_analysis/prologue.rs ---------- *)
Definition nthb (l : list N) (i : nat) : N := nth i l 0.

Definition is_next_expected_in_prologue (b : list N) : bool :=
  if Nat.ltb (length b) 4 then false else
  let b0 := nthb b 0 in let b1 := nthb b 1 in let b2 := nthb b 2 in
  (N.land b0 248 =? 80) ||
  ((N.land b0 254 =? 64) && (N.land b1 248 =? 80)) ||
  ((b0 =? 131) && (b1 =? 236)) ||
  ((b0 =? 72) && (b1 =? 131) && (b2 =? 236)) ||
  ((b0 =? 129) && (b1 =? 236)) ||
  ((b0 =? 72) && (b1 =? 129) && (b2 =? 236)) ||
  ((b0 =? 72) && (b1 =? 137) && (b2 =? 229)).

(* the backward walk; [rb] is slice_from_start reversed (last byte first); count as u16 (fix S11g) *)
Fixpoint pro_walk_x86 (fuel : nat) (rb : list N) (cnt : N) : option rule :=
  match fuel with
  | O => None
  | S f =>
    match rb with
    | 229 :: 137 :: 72 :: 85 :: _ => Some UseFramePointer          (* [0x55, 0x48, 0x89, 0xe5] *)
    | b :: t =>
      if N.land b 248 =? 80 then
        if cnt + 1 <? W16 then
          match t with
          | p :: t' => if N.land p 254 =? 64 then pro_walk_x86 f t' (cnt + 1) else pro_walk_x86 f t (cnt + 1)
          | [] => pro_walk_x86 f t (cnt + 1)
          end
        else None
      else if cnt + 1 <? W16 then Some (OffsetSp (cnt + 1)) else None
    | [] => if cnt + 1 <? W16 then Some (OffsetSp (cnt + 1)) else None
    end
  end.

Definition prologue_x86 (text : list N) (pc : nat) : option rule :=
  let from_start := firstn pc text in
  let to_end := skipn pc text in
  if is_next_expected_in_prologue to_end then pro_walk_x86 (S (length from_start)) (rev from_start) 0 else None.

(* ---------- x86_64/instruction_analysis/epilogue.rs ---------- *)
Fixpoint epi_walk_x86 (fuel : nat) (b : list N) (prev_last : option N) (cnt : N) (bp : option N) : option (N * option N) :=
  match fuel with
  | O => None
  | S f =>
    match b with
    | [] => None
    | b0 :: t =>
      if b0 =? 195 then Some (cnt, bp)                                         (* ret *)
      else if (b0 =? 235) || (b0 =? 233) || (b0 =? 255) then                   (* jmp *)
        if negb (cnt =? 0) then Some (cnt, bp)
        else match prev_last with
             | Some p => if N.land p 248 =? 88 then Some (cnt, bp) else None
             | None => None
             end
      else if b0 =? 93 then                                                    (* pop rbp *)
        if cnt + 1 <? W16 then epi_walk_x86 f t prev_last (cnt + 1) (Some cnt) else None
      else if (88 <=? b0) && (b0 <=? 95) then
        if cnt + 1 <? W16 then epi_walk_x86 f t prev_last (cnt + 1) bp else None
      else
        match t with
        | b1 :: t' =>
          if (N.land b0 254 =? 64) && (N.land b1 248 =? 88) then
            if cnt + 1 <? W16 then epi_walk_x86 f t' prev_last (cnt + 1) bp else None
          else None
        | [] => None
        end
    end
  end.

(* sp_offset_by_8 as i16 (wraps for counts >= 32768: the cast in the source) *)
Definition as_i16 (n : N) : Z := let m := n mod W16 in if m <? 32768 then Z.of_N m else (Z.of_N m - 65536)%Z.

Definition epilogue_x86 (text : list N) (pc : nat) : option rule :=
  let from_start := firstn pc text in
  let to_end := skipn pc text in
  match epi_walk_x86 (S (length to_end)) to_end (match rev from_start with p :: _ => Some p | [] => None end) 0 None with
  | None => None
  | Some (cnt, bp) =>
    if cnt =? 0 then Some JustReturn
    else if cnt + 1 <? W16 then
      match bp with
      | Some o => Some (OffsetSpAndRestoreBp (cnt + 1) (as_i16 o))
      | None => Some (OffsetSp (cnt + 1))
      end
    else None
  end.

Definition analysis_x86 (text : list N) (pc : nat) : option rule :=
  match prologue_x86 text pc with Some r => Some r | None => epilogue_x86 text pc end.

(* ---------- x86_64/macho.rs ---------- *)
Definition u32_at (l : list N) (i : N) : option N :=
  match sub_bytes l i (i + 4) with
  | Some [a; b; c; d] => Some (a + 256 * b + 65536 * c + 16777216 * d)
  | _ => None
  end.

Definition frameless_rule_x86 (stack_size : N) (regs : list N) : cui_result rule :=
  match bp_position_from_outside regs with
  | Some pos =>
    (* bp_offset_from_sp = stack_size as i32 - 16 - pos*8 ; i16::try_from(bp_offset / 8) *)
    let off := (Z.of_N stack_size - 16 - Z.of_N pos * 8)%Z in
    match i64_to_i16 (divz off 8) with
    | Some y => CuiRule (OffsetSpAndRestoreBp (stack_size / 8) y)
    | None => CuiErr
    end
  | None => CuiRule (OffsetSp (stack_size / 8))
  end.

Definition starts_with_fp_prologue (b : list N) : bool :=
  match b with 85 :: 72 :: 137 :: 229 :: _ => true | _ => false end.

Definition x86_macho_unwind (f : mfunction) (first : bool) (off_in_fn : N) (fbytes : option (list N)) : cui_result rule :=
  let op := fn_opcode f in
  let kind := N.land (N.shiftr op 24) 15 in
  let early :=
    if first then
      match fbytes with
      | Some b =>
        match analysis_x86 b (N.to_nat off_in_fn) with
        | Some r => Some (CuiRule r)
        | None => if (kind =? 0) && starts_with_fp_prologue b then Some (CuiRule UseFramePointer)
                  else if kind =? 0 then Some (CuiRule JustReturn) else None
        end
      | None => if kind =? 0 then Some (CuiRule JustReturn) else None
      end
    else None in
  match early with
  | Some r => r
  | None =>
    if kind =? 0 then CuiErr                                          (* FunctionHasNoInfo *)
    else if kind =? 1 then CuiRule UseFramePointer
    else if kind =? 2 then
      let stack_size := N.land (N.shiftr op 16) 255 * 8 in
      match decode_permutation (N.land (N.shiftr op 10) 7) (N.land op 1023) with
      | None => CuiErr                                                (* InvalidFrameless *)
      | Some regs => if stack_size =? 8 then CuiRule JustReturn else frameless_rule_x86 stack_size regs
      end
    else if kind =? 3 then
      match decode_permutation (N.land (N.shiftr op 10) 7) (N.land op 1023) with
      | None => CuiErr
      | Some regs =>
        match fbytes with
        | None => CuiErr                                              (* NoTextBytesToLookUpIndirectStackOffset *)
        | Some b =>
          match u32_at b (N.land (N.shiftr op 16) 255) with
          | None => CuiErr                                            (* IndirectStackOffsetOutOfBounds *)
          | Some imm =>
            let size := imm + N.land (N.shiftr op 13) 7 * 8 in
            if W32 <=? size then CuiErr                               (* StackAdjustOverflow *)
            else if W16 <=? size / 8 then CuiErr                      (* StackSizeDoesNotFit *)
            else
              match bp_position_from_outside regs with
              | Some pos =>
                (* stack_size_in_bytes as i32: wraps above 2^31 *)
                let sz := if size <? 2147483648 then Z.of_N size else (Z.of_N size - 4294967296)%Z in
                match i64_to_i16 (divz (sz - 16 - Z.of_N pos * 8)%Z 8) with
                | Some y => CuiRule (OffsetSpAndRestoreBp (size / 8) y)
                | None => CuiErr
                end
              | None => CuiRule (OffsetSp (size / 8))
              end
          end
        end
      end
    else if kind =? 4 then CuiNeedDwarf (N.land op 16777215)
    else CuiErr                                                       (* BadOpcodeKind *)
  end.

Definition x86_stub_helper_rule (offset : N) : rule :=
  if offset <? 9 then OffsetSp 2                 (* fix for S20: was 7, one instruction early *)
  else if offset <? 16 then OffsetSp 3
  else if (offset - 16) mod 10 <? 5 then JustReturn else OffsetSp 2.

(* ========================================================================== aarch64 *)
Definition word_at (l : list N) (i : nat) : option N :=
  match skipn i l with
  | a :: b :: c :: d :: _ => Some (a + 256 * b + 65536 * c + 16777216 * d)
  | _ => None
  end.
Definition bits (w : N) (lo n : N) : N := N.land (N.shiftr w lo) (N.ones n).
(* sign-extended imm7 scaled by 8: ((((word >> 15) & 0x7f) as i16) << 9) >> 6 *)
Definition imm7_scaled (w : N) : Z :=
  let v := bits w 15 7 in if v <? 64 then (Z.of_N v * 8)%Z else ((Z.of_N v - 128) * 8)%Z.
Definition imm12_val (w : N) : Z :=
  let v := bits w 10 12 in if bits w 22 1 =? 1 then Z.of_N (v * 4096) else Z.of_N v.
Definition i32_ok (z : Z) : bool := (-2147483648 <=? z)%Z && (z <=? 2147483647)%Z.

(* ---------- aarch64/instruction_analysis/prologue.rs ---------- *)
Inductive pro_itype := PNotExpected | PCouldBeWithSub | PVeryLikely.

Definition a_pro_itype (w : N) : pro_itype :=
  if (w =? 3573752703) || (w =? 2432697341) then PVeryLikely            (* 0xd503237f pacibsp, 0x910003fd mov x29, sp *)
  else
    let hi := N.shiftr w 22 in
    if N.land hi 761 =? 672 then                                         (* 0b1011111001 / 0b1010100000 *)
      let wb := N.land hi 6 in
      if (wb =? 0) || negb (bits w 5 5 =? 31) then PNotExpected
      else if wb =? 4 then PCouldBeWithSub else PVeryLikely
    else if N.land hi 766 =? 580 then                                    (* 0b1011111110 / 0b1001000100 *)
      let rd := bits w 0 5 in let rn := bits w 5 5 in
      let is_sub := bits w 30 1 =? 1 in
      if negb (rn =? 31) || negb (rd =? (if is_sub then 31 else 29)) then PNotExpected else PVeryLikely
    else PNotExpected.

(* reverse_step_instruction: Some new_offset = ValidPrologueInstruction, None = unexpected *)
Definition a_pro_rstep (w : N) (spo : Z) : option Z :=
  if w =? 3573752703 then Some spo
  else if N.land (N.shiftr w 22) 761 =? 672 then
    let wb := bits w 23 2 in
    if wb =? 0 then None
    else if negb (bits w 5 5 =? 31) then None
    else if (wb =? 3) || (wb =? 1) then
      let v := (spo - imm7_scaled w)%Z in if i32_ok v then Some v else None
    else Some spo
  else if bits w 23 9 =? 418 then                                        (* 0b110100010: sub imm *)
    if negb (bits w 0 5 =? 31) || negb (bits w 5 5 =? 31) then None
    else let v := (spo + imm12_val w)%Z in if i32_ok v then Some v else None
  else None.

(* the backward loop over the words of slice_from_start (last word first);
   Some None = ProbablyAlreadyInBody (frame pointer already set up: fix for S18) *)
Fixpoint a_pro_walk (ws : list N) (spo : Z) : option Z :=
  match ws with
  | [] => Some spo
  | w :: t =>
    if N.land w 4290774015 =? 2432697341 then None                       (* & 0xffc003ff == 0x910003fd *)
    else match a_pro_rstep w spo with
         | Some spo' => a_pro_walk t spo'
         | None => Some spo
         end
  end.

Fixpoint words_of (l : list N) : list N :=
  match l with
  | a :: b :: c :: d :: t => (a + 256 * b + 65536 * c + 16777216 * d) :: words_of t
  | _ => []
  end.

Definition u16_of_z (z : Z) : option N := if (0 <=? z)%Z && (z <? 65536)%Z then Some (Z.to_N z) else None.

Definition prologue_a64 (text : list N) (pc : nat) : option arule :=
  let from_start := firstn pc text in
  let to_end := skipn pc text in
  match word_at to_end 0 with
  | None => None
  | Some nw =>
    match a_pro_itype nw with
    | PNotExpected => None
    | ty =>
      match a_pro_walk (rev (words_of from_start)) 0 with
      | None => None
      | Some spo =>
        match ty with
        | PCouldBeWithSub => if (spo =? 0)%Z then None else
            match u16_of_z (divz spo 16) with Some k => Some (if k =? 0 then ANoOp else AOffsetSp k) | None => None end
        | _ => match u16_of_z (divz spo 16) with Some k => Some (if k =? 0 then ANoOp else AOffsetSp k) | None => None end
        end
      end
    end
  end.

(* ---------- aarch64/instruction_analysis/epilogue.rs ---------- *)
Inductive epi_itype := ENotExpected | ECouldBeTailCall (k : N) | ECouldBeAuthTail (k : N) | EVeryLikely.

Definition a_epi_itype (w : N) : epi_itype :=
  if (w =? 3596551104) || (w =? 3596554239) then EVeryLikely             (* ret 0xd65f03c0, retab 0xd65f0fff *)
  else if w =? 3573752831 then ECouldBeAuthTail 0                        (* autibsp 0xd50323ff *)
  else if w =? 3390965712 then ECouldBeAuthTail 4                        (* eor x16, lr, lr, lsl #1  0xca1e07d0 *)
  else if w =? 3069182032 then ECouldBeAuthTail 8                        (* tbz 0xb6f00050 *)
  else if w =? 3560476192 then ECouldBeAuthTail 12                       (* brk 0xd4388e20 *)
  else if (N.shiftr w 26 =? 5) || (N.land w 4294966303 =? 3592355840) then ECouldBeTailCall 16   (* b / br: & 0xfffffc1f == 0xd61f0000 *)
  else if (N.land (bits w 23 9) 455 =? 389) && (bits w 0 5 =? 16) then ECouldBeAuthTail 16       (* mov x16, #imm *)
  else if (N.land w 4294966272 =? 3609135104) && (bits w 0 5 =? 16) then ECouldBeAuthTail 20     (* braa xX, x16: & 0xfffffc00 == 0xd71f0800 *)
  else if N.land (N.shiftr w 22) 761 =? 673 then                         (* ldp 0b1010100001 *)
    if (bits w 23 2 =? 0) || negb (bits w 5 5 =? 31) then ENotExpected else EVeryLikely
  else if bits w 23 9 =? 290 then                                        (* add imm 0b100100010 *)
    if negb (bits w 0 5 =? 31) || negb (bits w 5 5 =? 31) then ENotExpected else EVeryLikely
  else ENotExpected.

Definition adjusts_sp (w : N) : bool :=
  ((N.land (N.shiftr w 22) 763 =? 675) && (bits w 5 5 =? 31)) ||         (* 0b1011111011 / 0b1010100011 *)
  ((bits w 23 9 =? 290) && (bits w 0 5 =? 31) && (bits w 5 5 =? 31)).

Definition is_auth_tail_call (b : list N) : bool :=
  if Nat.ltb (length b) 16 then false else
  match b with
  | 208 :: 7 :: 30 :: 202 :: 80 :: 0 :: 240 :: 182 :: 32 :: 142 :: 56 :: 212 :: rest =>
    match word_at rest 0 with
    | None => false
    | Some w =>
      if N.shiftr w 26 =? 5 then true
      else if Nat.ltb (length b) 20 then false
      else if negb ((N.land (bits w 23 9) 455 =? 389) && (bits w 0 5 =? 16)) then false
      else match word_at rest 4 with
           | Some w2 => (N.land w2 4294966272 =? 3609135104) && (bits w2 0 5 =? 16)
           | None => false
           end
    end
  | _ => false
  end.

Record epi_state := mkes { es_sp : Z; es_fp : option Z; es_lr : option Z }.
Inductive epi_step := ENeedMore (s : epi_state) | EBody | EReturn | ETail | EAuthTail.

Definition a_epi_step (w : N) (s : epi_state) : epi_step :=
  if (w =? 3596551104) || (w =? 3596554239) then EReturn
  else if w =? 3573752831 then EAuthTail
  else if N.shiftr w 26 =? 5 then (if (es_sp s =? 0)%Z then EBody else ETail)
  else if N.land (N.shiftr w 22) 761 =? 673 then
    let wb := bits w 23 2 in
    if wb =? 0 then EBody
    else if negb (bits w 5 5 =? 31) then EBody
    else
      let post := wb =? 1 in let pre := wb =? 3 in
      let after := (es_sp s + imm7_scaled w)%Z in
      if negb (i32_ok after) then EBody else
      let loc := if post then es_sp s else after in
      let loc2 := (loc + 8)%Z in
      if negb (i32_ok loc2) then EBody else
      let r1 := bits w 0 5 in let r2 := bits w 10 5 in
      let fp1 := if r1 =? 29 then Some loc else es_fp s in
      let lr1 := if r1 =? 29 then es_lr s else if r1 =? 30 then Some loc else es_lr s in
      let fp2 := if r2 =? 29 then Some loc2 else fp1 in
      let lr2 := if r2 =? 29 then lr1 else if r2 =? 30 then Some loc2 else lr1 in
      ENeedMore (mkes (if pre || post then after else es_sp s) fp2 lr2)
  else if bits w 23 9 =? 290 then
    if negb (bits w 0 5 =? 31) || negb (bits w 5 5 =? 31) then EBody
    else let v := (es_sp s + imm12_val w)%Z in if i32_ok v then ENeedMore (mkes v (es_fp s) (es_lr s)) else EBody
  else EBody.

Fixpoint a_epi_loop (fuel : nat) (w : N) (rest : list N) (s : epi_state) : option epi_state :=
  match fuel with
  | O => None
  | S f =>
    match a_epi_step w s with
    | ENeedMore s' =>
      match word_at rest 0 with
      | Some w' => a_epi_loop f w' (skipn 4 rest) s'
      | None => None                                   (* ReachedFunctionEndWithoutReturn *)
      end
    | EBody => None
    | EReturn | ETail => Some s
    | EAuthTail => if is_auth_tail_call rest then Some s else None
    end
  end.

Definition i16_of_z (z : Z) : option Z := if (-32768 <=? z)%Z && (z <=? 32767)%Z then Some z else None.

Definition a_epi_rule (s : epi_state) : option arule :=
  match u16_of_z (divz (es_sp s) 16) with
  | None => None
  | Some k =>
    match es_fp s, es_lr s with
    | None, None => Some (if k =? 0 then ANoOp else AOffsetSp k)
    | None, Some l => match i16_of_z (divz l 8) with Some l8 => Some (AOffsetSpAndRestoreLr k l8) | None => None end
    | Some _, None => None
    | Some f, Some l =>
      match i16_of_z (divz f 8), i16_of_z (divz l 8) with
      | Some f8, Some l8 => Some (AOffsetSpAndRestoreFpAndLr k f8 l8)
      | _, _ => None
      end
    end
  end.

Definition found0 : option arule := Some ANoOp.    (* FoundReturnOrTailCall { 0, None, None } *)

Definition epilogue_a64 (text : list N) (pc : nat) : option arule :=
  let b := skipn pc text in
  match word_at b 0 with
  | None => None
  | Some w =>
    let rest := skipn 4 b in
    let auth_at (k : N) : bool :=
      if Nat.leb (N.to_nat k) pc then
        let ab := skipn (pc - N.to_nat k) text in
        match ab with
        | 255 :: 35 :: 3 :: 213 :: after => is_auth_tail_call after
        | _ => false
        end
      else false in
    match a_epi_itype w with
    | ENotExpected => None
    | ECouldBeTailCall k =>
      if auth_at k then found0
      else if Nat.leb 4 pc then
        match word_at (skipn (pc - 4) text) 0 with
        | Some pw => if adjusts_sp pw then found0 else None
        | None => None
        end
      else None
    | ECouldBeAuthTail k => if auth_at k then found0 else None
    | EVeryLikely =>
      match a_epi_loop (S (length b)) w rest (mkes 0 None None) with
      | Some s => a_epi_rule s
      | None => None
      end
    end
  end.

Definition analysis_a64 (text : list N) (pc : nat) : option arule :=
  match prologue_a64 text pc with Some r => Some r | None => epilogue_a64 text pc end.

(* ---------- aarch64/macho.rs ---------- *)
Definition a64_macho_unwind (f : mfunction) (first : bool) (off_in_fn : N) (fbytes : option (list N)) : cui_result arule :=
  let op := fn_opcode f in
  let kind := N.land (N.shiftr op 24) 15 in
  let early :=
    if first then
      if kind =? 0 then Some (CuiRule ANoOp)
      else match fbytes with
           | Some b => match analysis_a64 b (N.to_nat off_in_fn) with Some r => Some (CuiRule r) | None => None end
           | None => None
           end
    else None in
  match early with
  | Some r => r
  | None =>
    if kind =? 0 then CuiErr
    else if kind =? 2 then
      if first then
        let size := bits op 12 12 * 16 in
        let size16 := size mod W16 in                                   (* as u16 *)
        if size16 =? 0 then CuiRule ANoOp else CuiRule (AOffsetSp (size16 / 16))
      else CuiErr                                                        (* CallerCannotBeFrameless *)
    else if kind =? 3 then CuiNeedDwarf (N.land op 16777215)
    else if kind =? 4 then CuiRule AUseFramePointer
    else CuiErr
  end.

Definition a64_stub_helper_rule (offset : N) : arule :=
  if offset <? 12 then ANoOp else if offset <? 24 then AOffsetSp 1 else ANoOp.

(* ========================================================================== macho.rs *)
Section MachoStep.
Variables (R G : Type).
Variable arch_unwind : mfunction -> bool -> N -> option (list N) -> cui_result R.
Variable stub_rule : R.               (* rule_for_stub_functions *)
Variable start_rule : R.              (* rule_for_function_start *)
Variable helper_rule : N -> R.

Definition in_range (r : N * N) (a : N) : bool := (fst r <=? a) && (a <? snd r).

Definition function_bytes (d : macho_data) (f : mfunction) : option (list N) :=
  match m_text d with
  | None => None
  | Some (off, bytes) =>
    if (fn_start f <? off) || (fn_end f <? off) then None
    else sub_bytes bytes (fn_start f - off) (fn_end f - off)
  end.

Definition macho_cui (d : macho_data) (rel : N) (first : bool) : cui_result R :=
  if in_range (m_stubs d) rel then (if first then CuiRule stub_rule else CuiErr)
  else if in_range (m_helper d) rel then (if first then CuiRule (helper_rule (rel - fst (m_helper d))) else CuiErr)
  else
    match macho_lookup d rel with
    | None => if first then CuiRule stub_rule else CuiErr       (* AddressOutsideRange *)
    | Some f =>
      if first && (rel =? fn_start f) then CuiRule start_rule
      else arch_unwind f first (rel - fn_start f) (function_bytes d f)
    end.
End MachoStep.
