(* Atomic.v - C18: threads as sequences of atomic steps over one u16 cell
   (GLOBAL_MODULES_GENERATION). The step list of one "draw" is regenerated from the body of
   next_global_modules_generation() (Generated/Consts.v: SRC_DRAW_STEPS). *)
From FH Require Export Word.
From FH Require Import Consts.
Open Scope N_scope.

(* a thread: its remaining atomic steps and the value its last Load saw *)
Record thread := mkthread { steps : list astep; loaded : N }.

(* one atomic step: new cell, new thread, value handed out (if this step completes a draw) *)
Definition step1 (cell : N) (t : thread) : option (N * thread * option N) :=
  match steps t with
  | [] => None
  | FetchAdd k :: r => Some ((cell + k) mod W16, mkthread r (loaded t), Some cell)
  | Load :: r => Some (cell, mkthread r cell, None)
  | StoreLoadedPlus k :: r => Some ((loaded t + k) mod W16, mkthread r (loaded t), Some (loaded t))
  | Unknown :: r => Some (cell, mkthread r (loaded t), None)
  end.

Definition tmap := N -> thread.
Definition tupd (m : tmap) (i : N) (t : thread) : tmap := fun j => if j =? i then t else m j.

(* run a schedule (the order in which threads take their next atomic step) *)
Fixpoint run_sched (cell : N) (ts : tmap) (sched : list N) : list N :=
  match sched with
  | [] => []
  | i :: rest =>
    match step1 cell (ts i) with
    | None => run_sched cell ts rest
    | Some (cell', t', out) =>
      let tl := run_sched cell' (tupd ts i t') rest in
      match out with Some v => v :: tl | None => tl end
    end
  end.

(* a thread performing n operations (new / add_module / remove_module of a known start: one draw each) *)
Fixpoint draws_of (n : nat) : list astep :=
  match n with O => [] | S k => SRC_DRAW_STEPS ++ draws_of k end.
