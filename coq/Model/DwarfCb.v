(* DwarfCb.v - the DWARF arms of unwind_frame_impl (unwinder.rs) + DwarfUnwinder (dwarf.rs):
   FDE selection for the three presentations, row selection, row step. Arch-generic. *)
From FH Require Export Word DwarfRow Cfi Unwinder.
Open Scope N_scope.

Section DwarfCb.
Variables rule regs : Type.
Variable row_step : row -> bool -> regs -> mem -> cb_result rule regs.
Variable uncovered : rule.

Definition dw_eff := mkeff true false.

Definition with_fde (f : fde) (svma : N) (first : bool) (rg : regs) (m : mem)
  : cb_result rule regs :=
  match row_for_address f svma with
  | None => CbRule uncovered
  | Some rw => row_step rw first rg m
  end.

(* [s8] : index_lookup's behaviour below the first FDE (true = fixed tree) *)
Definition cb_dwarf (s8 : bool) (p : pres) (sec : list fde) (base_svma : N)
           (first : bool) (rel : N) (rg : regs) (m : mem) : cb_result rule regs * eff :=
  match p with
  | PHdr =>
    match add64p S_dwarf_svma_add base_svma rel with
    | Ok svma =>
      match hdr_lookup sec svma with
      | None => (CbErr rg, dw_eff)                  (* EhFrameHdrCouldNotFindAddress *)
      | Some f => (with_fde f svma first rg m, dw_eff)
      end
    | _ => (CbErr rg, dw_eff)                       (* checked_add: fix for S11 (was a panic) *)
    end
  | POwnEh | POwnDebug =>
    match index_build sec base_svma with
    | None => (CbErr rg, no_eff)                    (* ModuleUnwindDataInternal::None *)
    | Some idx =>
      match index_lookup s8 idx rel with
      | None => (CbErr rg, dw_eff)                  (* DwarfCfiIndexCouldNotFindAddress; the
                                                       section slice was already taken *)
      | Some f =>
        match add64p S_dwarf_svma_add base_svma rel with
        | Ok svma => (with_fde f svma first rg m, dw_eff)
        | _ => (CbRule uncovered, dw_eff)           (* checked_add: no FDE can cover it (fix for S11) *)
        end
      end
    end
  end.
End DwarfCb.
