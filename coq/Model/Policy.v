(* Policy.v - C15: what MustNotAllocateDuringUnwind changes.  cache.rs wires the policy to
   StoreOnStack storages: gimli's UnwindContext (register rules per row, remember-stack depth: the
   same capacities as the heap version) and the expression evaluation (stack of SOS_EVAL_STACK
   values; the allocating policy uses Vecs).  So the only place where the policy can change a
   result is a DWARF expression whose evaluation needs a deeper stack: the push fails and the
   evaluation is reported as failed.  [eval_ops_cap] transcribes the bounded evaluation; the
   MustNot model of an unwinder is the ordinary model run on modules whose rows had the
   expressions that cannot fit replaced by a failing one ([cap_unwinder_x]); Proofs/PolicyFacts.v
   proves that this rewriting is exactly the bounded evaluation. *)
From FH Require Import Consts Word DwarfRow Cfi Unwinder Pe X86Unw A64Unw.
Open Scope N_scope.

Section EvalCap.
Variable getreg : N -> option N.
Variable cap : nat.

Definition push_cap (v : N) (st : list N) : option (list N) :=
  if Nat.ltb (length st) cap then Some (v :: st) else None.

Fixpoint eval_ops_cap (e : expr) (st : list N) : option (list N) :=
  match e with
  | [] => Some st
  | o :: t =>
    match o, st with
    | EBreg r off, _ =>
      obind (getreg r) (fun v => obind (push_cap (add64w v (z_as_u64 off)) st) (eval_ops_cap t))
    | ELit n, _ => obind (push_cap (n mod W64) st) (eval_ops_cap t)
    | EPlusUconst n, a :: st' => eval_ops_cap t (add64w a (n mod W64) :: st')
    | EPlus, b :: a :: st' => eval_ops_cap t (add64w a b :: st')
    | EAnd, b :: a :: st' => eval_ops_cap t (N.land a b :: st')
    | EShl, b :: a :: st' =>
      eval_ops_cap t ((if b <? 64 then (N.shiftl a b) mod W64 else 0) :: st')
    | EGe, b :: a :: st' =>
      eval_ops_cap t ((if (sx64 b <=? sx64 a)%Z then 1 else 0) :: st')
    | _, _ => None
    end
  end.

Definition eval_expr_cap (e : expr) : option N :=
  if expr_too_long e then None else
  match eval_ops_cap e [] with
  | Some (top :: _) => Some top
  | _ => None
  end.

Definition eval_cfa_rule_cap (c : cfa_rule) : option N :=
  match c with
  | CfaRegOff r off => obind (getreg r) (fun v => u64_plus_i64 v off)
  | CfaExpr e => eval_expr_cap e
  end.

Definition eval_register_rule_cap (ru : reg_rule) (cfa val : N) (m : mem) : option N :=
  match ru with
  | RExpr e => obind (eval_expr_cap e) m
  | RValExpr e => eval_expr_cap e
  | _ => eval_register_rule getreg ru cfa val m
  end.
End EvalCap.

(* the deepest stack an expression reaches when started at depth d (failures aside) *)
Fixpoint max_depth (e : expr) (d : nat) : nat :=
  match e with
  | [] => d
  | o :: t =>
    match o with
    | EBreg _ _ | ELit _ => Nat.max (S d) (max_depth t (S d))
    | EPlusUconst _ => max_depth t d
    | EPlus | EAnd | EShl | EGe => max_depth t (pred d)
    | EDeref | EBad => d
    end
  end.

Definition expr_fits (cap : nat) (e : expr) : bool := Nat.leb (max_depth e 0) cap.
Definition cap_expr (cap : nat) (e : expr) : expr := if expr_fits cap e then e else [EBad].
Definition cap_cfa (cap : nat) (c : cfa_rule) : cfa_rule :=
  match c with CfaExpr e => CfaExpr (cap_expr cap e) | _ => c end.
Definition cap_rule (cap : nat) (ru : reg_rule) : reg_rule :=
  match ru with RExpr e => RExpr (cap_expr cap e) | RValExpr e => RValExpr (cap_expr cap e) | _ => ru end.
Definition cap_row (cap : nat) (rw : row) : row :=
  mkrow (cap_cfa cap (r_cfa rw)) (cap_rule cap (r_fp rw)) (cap_rule cap (r_ra rw)).
Definition cap_fde (cap : nat) (f : fde) : fde :=
  mkfde (f_start f) (f_len f) (map (fun x => (fst x, cap_row cap (snd x))) (f_rows f)) (f_ok f).

Definition EVAL_CAP : nat := N.to_nat SOS_EVAL_STACK.

Definition cap_mdata (d : mdata) : mdata :=
  match d with MDwarf p sec => MDwarf p (map (cap_fde EVAL_CAP) sec) | _ => d end.
Definition cap_amdata (d : amdata) : amdata :=
  match d with AMDwarf p sec => AMDwarf p (map (cap_fde EVAL_CAP) sec) | _ => d end.
Definition cap_module_x (md : xmodule) : xmodule :=
  mkmod (mstart md) (mend md) (base_avma md) (base_svma md) (cap_mdata (mdat md)).
Definition cap_module_a (md : amodule) : amodule :=
  mkmod (mstart md) (mend md) (base_avma md) (base_svma md) (cap_amdata (mdat md)).
Definition cap_unwinder_x (u : xunwinder) : xunwinder := mkunw mdata (map cap_module_x (mods _ u)) (gen _ u).
Definition cap_unwinder_a (u : aunwinder) : aunwinder := mkunw amdata (map cap_module_a (mods _ u)) (gen _ u).

(* every expression of the module fits the fixed storage *)
Definition row_fits (cap : nat) (rw : row) : bool :=
  (match r_cfa rw with CfaExpr e => expr_fits cap e | _ => true end) &&
  (match r_fp rw with RExpr e | RValExpr e => expr_fits cap e | _ => true end) &&
  (match r_ra rw with RExpr e | RValExpr e => expr_fits cap e | _ => true end).
Definition fde_fits (cap : nat) (f : fde) : bool := forallb (fun x => row_fits cap (snd x)) (f_rows f).
Definition mdata_fits (d : mdata) : bool :=
  match d with MDwarf _ sec => forallb (fde_fits EVAL_CAP) sec | _ => true end.
Definition amdata_fits (d : amdata) : bool :=
  match d with AMDwarf _ sec => forallb (fde_fits EVAL_CAP) sec | _ => true end.
