(* Unwinder.v - code_address.rs, rule_cache.rs, the module list, with_cache / unwind_frame,
   the iterator, and the history semantics (several unwinders, several caches, one global
   generation counter).  Generic in the architecture (Section variables). *)
From FH Require Export Word.
From FH Require Import Consts.
Open Scope N_scope.

(* ---------- code_address.rs ---------- *)
Inductive faddr := IP (a : N) | RA (a : N).      (* RA a: a <> 0 by construction (NonZeroU64) *)

Definition from_return_address (a : N) : option faddr :=
  if a =? 0 then None else Some (RA a).
Definition faddr_address (f : faddr) : N := match f with IP a | RA a => a end.
Definition is_ra (f : faddr) : bool := match f with RA _ => true | IP _ => false end.
(* address_for_lookup: bare `- 1`; unreachable underflow because RA carries a NonZeroU64 *)
Definition lookup_address (f : faddr) : res N :=
  match f with
  | IP a => Ok a
  | RA a => sub64p S_addr_ra_sub a 1
  end.
Definition faddr_wf (f : faddr) : bool :=
  match f with IP a => a <? W64 | RA a => (0 <? a) && (a <? W64) end.

(* effects of one unwinding call, used by C15 / C20 *)
Record eff := mkeff { touched : bool; alloc : bool }.
Definition no_eff := mkeff false false.

Section Generic.
Variables rule regs mdata : Type.
Variable exec : rule -> bool -> regs -> mem -> res (option N) * regs.
Variable fallback : rule.

(* what the per-module callback (unwind_frame_impl) hands back to with_cache *)
Inductive cb_result :=
| CbRule (r : rule)
| CbUncacheable (ra : N) (rg : regs)
| CbErr (rg : regs)            (* error that does not depend on this call's registers/stack:
                                  the fallback rule is cached *)
| CbErrV (rg : regs)           (* error caused by this call's registers/stack (fix for S7): the
                                  fallback runs but is not cached; regs because the PE generic
                                  path writes registers before it can fail *)
| CbPanic (s : site)
| CbHang.

Record module := mkmod { mstart : N; mend : N; base_avma : N; base_svma : N; mdat : mdata }.

(* unwind_frame_impl: module, is_first_frame, rel_lookup_address, regs, reader *)
Variable cb : module -> bool -> N -> regs -> mem -> cb_result * eff.

(* ---------- rule_cache.rs ---------- *)
Record entry := mkentry { e_addr : N; e_gen : N; e_rule : rule }.
Record stats := mkstats { hit : N; miss_empty : N; miss_wrong_modules : N; miss_wrong_address : N }.
Record cache := mkcache { slots : N -> option entry; cstats : stats }.

Definition cache_new : cache := mkcache (fun _ => None) (mkstats 0 0 0 0).

Inductive cache_result := Hit (r : rule) | Miss (slot : N).

Definition cache_lookup (c : cache) (a g : N) : cache_result * cache :=
  let slot := a mod CACHE_ENTRY_COUNT in
  let st := cstats c in
  match slots c slot with
  | None =>
    (Miss slot, mkcache (slots c)
       (mkstats (hit st) (miss_empty st + 1) (miss_wrong_modules st) (miss_wrong_address st)))
  | Some e =>
    if e_gen e =? g then
      if e_addr e =? a then
        (Hit (e_rule e), mkcache (slots c)
           (mkstats (hit st + 1) (miss_empty st) (miss_wrong_modules st) (miss_wrong_address st)))
      else
        (Miss slot, mkcache (slots c)
           (mkstats (hit st) (miss_empty st) (miss_wrong_modules st) (miss_wrong_address st + 1)))
    else
      (Miss slot, mkcache (slots c)
         (mkstats (hit st) (miss_empty st) (miss_wrong_modules st + 1) (miss_wrong_address st)))
  end.

Definition cache_insert (c : cache) (slot a g : N) (r : rule) : cache :=
  mkcache (fun s => if s =? slot then Some (mkentry a g r) else slots c s) (cstats c).

(* ---------- module list (sorted by mstart) ---------- *)
(* Vec::binary_search_by_key + insert / remove / index, by the contract of binary search on a
   list sorted by duplicate-free keys: Ok(i) for the element with the key, Err(i) with i the
   insertion point.  The three users are written as direct recursions over the sorted list. *)

(* add_module: insert at Ok(i) / Err(i) *)
Fixpoint mods_add (l : list module) (m : module) : list module :=
  match l with
  | [] => [m]
  | x :: t => if mstart x =? mstart m then m :: x :: t
              else if mstart m <? mstart x then m :: x :: t
              else x :: mods_add t m
  end.

(* remove_module: only when the search returns Ok(i) *)
Fixpoint mods_remove (l : list module) (start : N) : option (list module) :=
  match l with
  | [] => None
  | x :: t => if mstart x =? start then Some t
              else if start <? mstart x then None
              else match mods_remove t start with
                   | Some t' => Some (x :: t')
                   | None => None
                   end
  end.

(* modules.last().map_or(0, |m| m.avma_range.end) *)
Fixpoint mods_max (l : list module) : N :=
  match l with
  | [] => 0
  | m :: t => match t with [] => mend m | _ => mods_max t end
  end.

(* find_module_for_address, first half: Ok(i) -> modules[i] unless its end <= address (an empty range);
   Err(0) -> None; Err(i) -> modules[i-1] unless its end <= address *)
Definition check_end (prev : option module) (a : N) : option module :=
  match prev with
  | Some p => if mend p <=? a then None else Some p
  | None => None
  end.

Fixpoint find_cand (l : list module) (a : N) (prev : option module) : option module :=
  match l with
  | [] => check_end prev a
  | x :: t => if mstart x =? a then check_end (Some x) a        (* Ok(i): the end test too (repair S24: empty ranges) *)
              else if a <? mstart x then check_end prev a
              else find_cand t a (Some x)
  end.

Definition find_module (l : list module) (a : N) : res (option (module * N)) :=
  match find_cand l a None with
  | None => Ok None
  | Some m =>
    if a <? base_avma m then Ok None
    else res_bind (sub64p S_find_sub a (base_avma m))
           (fun rel => if rel <? W32 then Ok (Some (m, rel)) else Ok None)
  end.

(* ---------- unwinder ---------- *)
Record unwinder := mkunw { mods : list module; gen : N }.

Record outcome := mkout { o_res : res (option N); o_regs : regs; o_cache : cache; o_eff : eff }.

(* with_cache + unwind_frame *)
Definition unwind_frame (u : unwinder) (c : cache) (a : faddr) (rg : regs) (m : mem) : outcome :=
  let first := negb (is_ra a) in
  match lookup_address a with
  | Ok x =>
    match cache_lookup c x (gen u) with
    | (Hit r, c1) =>
      let '(o, rg') := exec r first rg m in mkout o rg' c1 no_eff
    | (Miss slot, c1) =>
      match find_module (mods u) x with
      | Ok None =>
        let c2 := cache_insert c1 slot x (gen u) fallback in
        let '(o, rg') := exec fallback first rg m in mkout o rg' c2 no_eff
      | Ok (Some (md, rel)) =>
        match cb md first rel rg m with
        | (CbRule r, ef) =>
          let c2 := cache_insert c1 slot x (gen u) r in
          let '(o, rg') := exec r first rg m in mkout o rg' c2 ef
        | (CbUncacheable ra rg', ef) =>
          (* a null return address ends the stack (fix for S15) *)
          mkout (if ra =? 0 then Ok None else Ok (Some ra)) rg' c1 ef
        | (CbErr rg1, ef) =>
          let c2 := cache_insert c1 slot x (gen u) fallback in
          let '(o, rg') := exec fallback first rg1 m in mkout o rg' c2 ef
        | (CbErrV rg1, ef) =>
          let '(o, rg') := exec fallback first rg1 m in mkout o rg' c1 ef
        | (CbPanic s, ef) => mkout (Panic s) rg c1 ef
        | (CbHang, ef) => mkout Hang rg c1 ef
        end
      | Err e => mkout (Err e) rg c1 no_eff
      | Panic s => mkout (Panic s) rg c1 no_eff
      | Hang => mkout Hang rg c1 no_eff
      end
    end
  | Err e => mkout (Err e) rg c no_eff
  | Panic s => mkout (Panic s) rg c no_eff
  | Hang => mkout Hang rg c no_eff
  end.

(* ---------- UnwindIterator ---------- *)
Inductive istate := Initial (pc : N) | Unwinding (a : faddr) | Done.
Record iter := mkiter { i_state : istate; i_regs : regs; i_cache : cache }.

Definition iter_new (pc : N) (rg : regs) (c : cache) : iter := mkiter (Initial pc) rg c.

Definition iter_next (u : unwinder) (m : mem) (it : iter) : res (option faddr) * iter :=
  match i_state it with
  | Initial pc => (Ok (Some (IP pc)), mkiter (Unwinding (IP pc)) (i_regs it) (i_cache it))
  | Done => (Ok None, it)
  | Unwinding a =>
    let o := unwind_frame u (i_cache it) a (i_regs it) m in
    match o_res o with
    | Ok (Some ra) =>
      match from_return_address ra with
      | Some fa => (Ok (Some fa), mkiter (Unwinding fa) (o_regs o) (o_cache o))
      | None => (Err ReturnAddressIsNull, mkiter (Unwinding a) (o_regs o) (o_cache o))
      end
    | Ok None => (Ok None, mkiter Done (o_regs o) (o_cache o))
    | Err e => (Err e, mkiter (Unwinding a) (o_regs o) (o_cache o))
    | Panic s => (Panic s, mkiter (Unwinding a) (o_regs o) (o_cache o))
    | Hang => (Hang, mkiter (Unwinding a) (o_regs o) (o_cache o))
    end
  end.

(* n calls to next *)
Fixpoint iter_run (u : unwinder) (m : mem) (it : iter) (n : nat)
  : list (res (option faddr)) * iter :=
  match n with
  | O => ([], it)
  | S k => let '(r, it') := iter_next u m it in
           let '(rs, it'') := iter_run u m it' k in (r :: rs, it'')
  end.

(* ---------- history semantics ---------- *)
Definition upd {A} (f : N -> option A) (k : N) (v : A) : N -> option A :=
  fun x => if x =? k then Some v else f x.

Record world := mkworld { next_gen : N; unws : N -> option unwinder; caches : N -> option cache }.
Definition world0 (g0 : N) : world := mkworld g0 (fun _ => None) (fun _ => None).

(* GLOBAL_MODULES_GENERATION.fetch_add(1, Relaxed): returns the old value, wraps at 2^16 *)
Definition draw (w : world) : N * world :=
  (next_gen w, mkworld ((next_gen w + 1) mod W16) (unws w) (caches w)).

Inductive op :=
| ONew (u : N)
| OAdd (u : N) (md : module)
| ORemove (u : N) (start : N)
| OClone (u v : N)
| ONewCache (c : N)
| OUnwind (u c : N) (a : faddr) (rg : regs) (m : mem)
| OMax (u : N).

Inductive obs :=
| ObsNone
| ObsBad                                  (* op referred to an unknown id *)
| ObsGen (g : N)
| ObsMax (x : N)
| ObsUnwind (r : res (option N)) (rg : regs) (st : stats) (e : eff).

Definition run_op (w : world) (o : op) : world * obs :=
  match o with
  | ONew u =>
    let '(g, w1) := draw w in
    (mkworld (next_gen w1) (upd (unws w1) u (mkunw [] g)) (caches w1), ObsGen g)
  | OAdd u md =>
    match unws w u with
    | None => (w, ObsBad)
    | Some uw =>
      let '(g, w1) := draw w in
      (mkworld (next_gen w1) (upd (unws w1) u (mkunw (mods_add (mods uw) md) g)) (caches w1),
       ObsGen g)
    end
  | ORemove u start =>
    match unws w u with
    | None => (w, ObsBad)
    | Some uw =>
      match mods_remove (mods uw) start with
      | None => (w, ObsGen (gen uw))
      | Some l =>
        let '(g, w1) := draw w in
        (mkworld (next_gen w1) (upd (unws w1) u (mkunw l g)) (caches w1), ObsGen g)
      end
    end
  | OClone u v =>
    match unws w u with
    | None => (w, ObsBad)
    | Some uw => (mkworld (next_gen w) (upd (unws w) v uw) (caches w), ObsGen (gen uw))
    end
  | ONewCache c => (mkworld (next_gen w) (unws w) (upd (caches w) c cache_new), ObsNone)
  | OUnwind u c a rg m =>
    match unws w u, caches w c with
    | Some uw, Some ca =>
      let o := unwind_frame uw ca a rg m in
      (mkworld (next_gen w) (unws w) (upd (caches w) c (o_cache o)),
       ObsUnwind (o_res o) (o_regs o) (cstats (o_cache o)) (o_eff o))
    | _, _ => (w, ObsBad)
    end
  | OMax u =>
    match unws w u with
    | None => (w, ObsBad)
    | Some uw => (w, ObsMax (mods_max (mods uw)))
    end
  end.

Fixpoint run_ops (w : world) (l : list op) : world * list obs :=
  match l with
  | [] => (w, [])
  | o :: t => let '(w1, ob) := run_op w o in
              let '(w2, obs) := run_ops w1 t in (w2, ob :: obs)
  end.

End Generic.

Arguments CbRule {rule regs} r.
Arguments CbUncacheable {rule regs} ra rg.
Arguments CbErr {rule regs} rg.
Arguments CbErrV {rule regs} rg.
Arguments CbPanic {rule regs} s.
Arguments CbHang {rule regs}.
Arguments mkmod {mdata}.
Arguments mstart {mdata}.
Arguments mend {mdata}.
Arguments base_avma {mdata}.
Arguments base_svma {mdata}.
Arguments mdat {mdata}.
