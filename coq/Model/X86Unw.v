(* X86Unw.v - the x86_64 unwinder instance: module data kinds and unwind_frame_impl. *)
From FH Require Export Word X86 DwarfRow Cfi Unwinder X86Dwarf DwarfCb Pe Macho MachoCb.
Open Scope N_scope.

Inductive mdata :=
| MNone
| MDwarf (p : pres) (sec : list fde)
| MPe (pe : pe_data)
| MMacho (d : macho_data).

Definition xmodule := module mdata.

(* the tree as it stands (fixes applied) *)
Definition exec_x := exec ra_addr_checked.

Definition cb_x86 (md : xmodule) (first : bool) (rel : N) (rg : regs) (m : mem)
  : cb_result rule regs * eff :=
  match mdat md with
  | MNone => (CbErr rg, no_eff)
  | MDwarf p sec =>
    cb_dwarf rule regs row_step_x86 uncovered_rule_x86 true p sec (base_svma md) first rel rg m
  | MPe pe => pe_step true pe rel first rg m
  | MMacho d =>
    cb_macho rule regs row_step_x86 uncovered_rule_x86 x86_macho_unwind JustReturn JustReturn x86_stub_helper_rule
             d (base_svma md) first rel rg m
  end.

Definition xunwinder := unwinder mdata.
Definition xcache := cache rule.
Definition unwind_frame_x (u : xunwinder) (c : xcache) (a : faddr) (rg : regs) (m : mem) :=
  unwind_frame rule regs mdata exec_x fallback_rule cb_x86 u c a rg m.
Definition iter_next_x := iter_next rule regs mdata exec_x fallback_rule cb_x86.
Definition iter_run_x := iter_run rule regs mdata exec_x fallback_rule cb_x86.
Definition run_ops_x := run_ops rule regs mdata exec_x fallback_rule cb_x86.
Definition run_op_x := run_op rule regs mdata exec_x fallback_rule cb_x86.
