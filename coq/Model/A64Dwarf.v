(* A64Dwarf.v - aarch64/dwarf.rs: translate_into_unwind_rule and the generic evaluation path. *)
From FH Require Export Word A64 DwarfRow Cfi Unwinder.
Open Scope N_scope.

Definition DW_SP : N := 31.
Definition DW_X29 : N := 29.
Definition DW_X30 : N := 30.

Definition a64_getreg (rg : aregs) (r : N) : option N :=
  if r =? DW_SP then Some (asp rg)
  else if r =? DW_X29 then Some (afp rg)
  else if r =? DW_X30 then Some (lr rg)
  else None.

(* (offset + x) / 8 as i16, only when the sum is a multiple of 8 and does not overflow *)
Definition slot_by_8 (off x : Z) : option Z :=
  match addi64c off x with
  | None => None
  | Some sum => if negb (Z.rem sum 8 =? 0)%Z then None else i64_to_i16 (divz sum 8)
  end.

Definition translate_a64 (rw : row) : option arule :=
  match r_cfa rw with
  | CfaRegOff r off =>
    if r =? DW_SP then
      if negb (Z.rem off 16 =? 0)%Z then None else
      match i64_to_u16 (divz off 16) with
      | None => None
      | Some k =>
        match rule_to_cfa_offset (r_ra rw), rule_to_cfa_offset (r_fp rw) with
        | None, _ => None
        | Some _, None => None
        | Some None, Some (Some _) => None                       (* RestoringFpButNotLr *)
        | Some None, Some None =>
          match r_ra rw with
          | RUndefined => Some (AOffsetSpIfFirstFrameOtherwiseStackEndsHere k)
          | _ => Some (AOffsetSp k)
          end
        | Some (Some lo), Some None =>
          match slot_by_8 off lo with
          | None => None
          | Some l => Some (AOffsetSpAndRestoreLr k l)
          end
        | Some (Some lo), Some (Some fo) =>
          match slot_by_8 off lo with
          | None => None
          | Some l =>
            match slot_by_8 off fo with
            | None => None
            | Some f => Some (AOffsetSpAndRestoreFpAndLr k f l)
            end
          end
        end
      end
    else if r =? DW_X29 then
      match rule_to_cfa_offset (r_ra rw) with
      | Some (Some lo) =>
        match rule_to_cfa_offset (r_fp rw) with
        | Some (Some fo) =>
          if (off =? 16)%Z && (fo =? -16)%Z && (lo =? -8)%Z then Some AUseFramePointer
          else
            if negb (Z.rem off 8 =? 0)%Z then None else
            match i64_to_u16 (divz off 8) with
            | None => None
            | Some k =>
              match slot_by_8 off lo with
              | None => None
              | Some l =>
                match slot_by_8 off fo with
                | None => None
                | Some f => Some (AUseFramepointerWithOffsets k f l)
                end
              end
            end
        | _ => None
        end
      | _ => None
      end
    else None
  | CfaExpr _ => None
  end.

Definition uncovered_rule_a64 : arule := ANoOpIfFirstFrameOtherwiseFp.

Definition generic_a64 (rw : row) (first : bool) (rg : aregs) (m : mem) : cb_result arule aregs :=
  match eval_cfa_rule (a64_getreg rg) (r_cfa rw) with
  | None => CbErrV rg
  | Some cfa =>
    let l := lr rg in let f := afp rg in let s := asp rg in
    if negb first then
      if cfa <=? s then CbErrV rg                              (* StackPointerMovedBackwards *)
      else match eval_register_rule (a64_getreg rg) (r_fp rw) cfa f m with
           | None => CbErrV rg
           | Some nf =>
             match eval_register_rule (a64_getreg rg) (r_ra rw) cfa l m with
             | None => CbErrV rg
             | Some nl =>
               let rg' := set_lr (set_asp (set_afp rg nf) cfa) nl in
               CbUncacheable (lr rg') rg'                      (* regs.lr(): fix for S2 *)
             end
           end
    else
      let nf := match eval_register_rule (a64_getreg rg) (r_fp rw) cfa f m with
                | Some v => v | None => f end in
      let nl := match eval_register_rule (a64_getreg rg) (r_ra rw) cfa l m with
                | Some v => v | None => l end in
      let rg' := set_lr (set_asp (set_afp rg nf) cfa) nl in
      CbUncacheable (lr rg') rg'
  end.

Definition row_step_a64 (rw : row) (first : bool) (rg : aregs) (m : mem) : cb_result arule aregs :=
  match translate_a64 rw with
  | Some r => CbRule r
  | None => generic_a64 rw first rg m
  end.
