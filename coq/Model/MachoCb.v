(* MachoCb.v - the CompactUnwindInfoAndEhFrame arm of unwind_frame_impl (unwinder.rs): the compact
   unwind step, and the hand-off to DWARF for entries that defer to __eh_frame. Arch-generic. *)
From FH Require Export Word DwarfRow Cfi Unwinder DwarfCb Macho.
Open Scope N_scope.

Section MachoCb.
Variables rule regs : Type.
Variable row_step : row -> bool -> regs -> mem -> cb_result rule regs.
Variable uncovered : rule.
Variable arch_unwind : mfunction -> bool -> N -> option (list N) -> cui_result rule.
Variable stub_rule start_rule : rule.
Variable helper_rule : N -> rule.

Definition macho_eff := mkeff true false.

Fixpoint eh_find (l : list (N * fde)) (off : N) : option fde :=
  match l with
  | [] => None
  | (o, f) :: t => if o =? off then Some f else eh_find t off
  end.

Definition cb_macho (d : macho_data) (base_svma : N) (first : bool) (rel : N) (rg : regs) (m : mem)
  : cb_result rule regs * eff :=
  match macho_cui rule arch_unwind stub_rule start_rule helper_rule d rel first with
  | CuiRule r => (CbRule r, macho_eff)
  | CuiErr => (CbErr rg, macho_eff)
  | CuiNeedDwarf off =>
    match m_eh d with
    | None => (CbErr rg, macho_eff)                         (* NoDwarfData *)
    | Some l =>
      match eh_find l off with
      | None => (CbErr rg, macho_eff)                       (* FdeFromOffsetFailed *)
      | Some f =>
        match add64p S_dwarf_svma_add base_svma rel with
        | Ok svma => (with_fde rule regs row_step uncovered f svma first rg m, macho_eff)
        | _ => (CbRule uncovered, macho_eff)
        end
      end
    end
  end.
End MachoCb.
