(* X86Dwarf.v - x86_64/dwarf.rs: translate_into_unwind_rule and the generic evaluation path. *)
From FH Require Export Word X86 DwarfRow Cfi Unwinder.
Open Scope N_scope.

Definition DW_RA : N := 16.
Definition DW_RSP : N := 7.
Definition DW_RBP : N := 6.

(* impl DwarfUnwindRegs for UnwindRegsX86_64 *)
Definition x86_getreg (rg : regs) (r : N) : option N :=
  if r =? DW_RA then Some (ip rg)
  else if r =? DW_RSP then Some (sp rg)
  else if r =? DW_RBP then Some (bp rg)
  else None.

(* translate_into_unwind_rule; None = ConversionError (use the generic path).
   Offsets that are not multiples of 8 are not representable (fix for S6); the sum
   offset + bp_cfa_offset is a checked add. *)
Definition translate_x86 (rw : row) : option rule :=
  match r_ra rw with
  | RUndefined => Some EndOfStack
  | ROffset o =>
    if (o =? -8)%Z then
      match r_cfa rw with
      | CfaRegOff r off =>
        if r =? DW_RSP then
          if negb (Z.rem off 8 =? 0)%Z then None else
          match i64_to_u16 (divz off 8) with
          | None => None
          | Some k =>
            match rule_to_cfa_offset (r_fp rw) with
            | None => None
            | Some None => Some (OffsetSp k)
            | Some (Some bo) =>
              match addi64c off bo with
              | None => None
              | Some sum =>
                if negb (Z.rem sum 8 =? 0)%Z then None else
                match i64_to_i16 (divz sum 8) with
                | None => None
                | Some y => Some (OffsetSpAndRestoreBp k y)
                end
              end
            end
          end
        else if r =? DW_RBP then
          match rule_to_cfa_offset (r_fp rw) with
          | Some (Some bo) =>
            if (off =? 16)%Z && (bo =? -16)%Z then Some UseFramePointer else None
          | _ => None
          end
        else None
      | CfaExpr _ => None
      end
    else None
  | _ => None
  end.

Definition uncovered_rule_x86 : rule := JustReturnIfFirstFrameOtherwiseFp.

(* the generic path of DwarfUnwinding::unwind_frame (after translation failed) *)
Definition generic_x86 (rw : row) (first : bool) (rg : regs) (m : mem) : cb_result rule regs :=
  match eval_cfa_rule (x86_getreg rg) (r_cfa rw) with
  | None => CbErrV rg                                         (* CouldNotRecoverCfa *)
  | Some cfa =>
    let i := ip rg in let b := bp rg in let s := sp rg in
    let new_bp := match eval_register_rule (x86_getreg rg) (r_fp rw) cfa b m with
                  | Some v => v | None => b end in
    let ora := match eval_register_rule (x86_getreg rg) (r_ra rw) cfa i m with
               | Some ra => Some ra
               | None => obind (sub64c cfa 8) m          (* checked_sub: fix for S4 *)
               end in
    match ora with
    | None => CbErrV rg                                       (* CouldNotRecoverReturnAddress *)
    | Some ra =>
      if (cfa =? s) && (ra =? i) then CbErrV rg               (* DidNotAdvance *)
      else if negb first && (cfa <=? s) then CbErrV rg        (* StackPointerMovedBackwards (<=: fix for S9a) *)
      else CbUncacheable ra (set_sp (set_bp (set_ip rg ra) new_bp) cfa)
    end
  end.

Definition row_step_x86 (rw : row) (first : bool) (rg : regs) (m : mem) : cb_result rule regs :=
  match translate_x86 rw with
  | Some r => CbRule r
  | None => generic_x86 rw first rg m
  end.
