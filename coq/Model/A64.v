(* A64.v - aarch64 registers, PtrAuthMask, unwind_rule.rs (exec), mirrored arm by arm. *)
From FH Require Export Word.
Open Scope N_scope.

(* ---------- unwindregs.rs ---------- *)
Record aregs := mkaregs { mask : N; lr : N; asp : N; afp : N }.

Definition strip (k p : N) : N := N.land p k.

Definition mask_no_strip : N := MAX64.
Definition mask_24_40 : N := N.shiftr MAX64 24.

(* u64::leading_zeros *)
Definition clz64 (a : N) : N := 64 - N.size a.

(* `u64::MAX >> n` : overflow-checked build panics for n >= 64 *)
Definition shr64p (s : site) (a n : N) : res N :=
  if n <? 64 then Ok (N.shiftr a n) else Panic s.
(* u64::checked_shr(n).unwrap_or(0) *)
Definition shr64c0 (a n : N) : N :=
  if n <? 64 then N.shiftr a n else 0.

Definition mask_from_max_bare (a : N) : res N := shr64p S_mask_shr MAX64 (clz64 a).
Definition mask_from_max_checked (a : N) : res N := Ok (shr64c0 MAX64 (clz64 a)).

Definition aregs_new (l s f : N) : aregs := mkaregs mask_no_strip l s f.
Definition aregs_new_with_mask (k l s f : N) : aregs := mkaregs k (strip k l) s f.

Definition set_lr (rg : aregs) (v : N) : aregs := mkaregs (mask rg) (strip (mask rg) v) (asp rg) (afp rg).
Definition set_asp (rg : aregs) (v : N) : aregs := mkaregs (mask rg) (lr rg) v (afp rg).
Definition set_afp (rg : aregs) (v : N) : aregs := mkaregs (mask rg) (lr rg) (asp rg) v.

(* ---------- unwind_rule.rs ---------- *)
Inductive arule :=
| ANoOp
| ANoOpIfFirstFrameOtherwiseFp
| AOffsetSp (k : N)
| AOffsetSpIfFirstFrameOtherwiseStackEndsHere (k : N)
| AOffsetSpAndRestoreLr (k : N) (l : Z)
| AOffsetSpAndRestoreFpAndLr (k : N) (f l : Z)
| AUseFramePointer
| AUseFramepointerWithOffsets (k : N) (f l : Z).

Definition arule_eqb (a b : arule) : bool :=
  match a, b with
  | ANoOp, ANoOp => true
  | ANoOpIfFirstFrameOtherwiseFp, ANoOpIfFirstFrameOtherwiseFp => true
  | AOffsetSp k, AOffsetSp k' => k =? k'
  | AOffsetSpIfFirstFrameOtherwiseStackEndsHere k,
    AOffsetSpIfFirstFrameOtherwiseStackEndsHere k' => k =? k'
  | AOffsetSpAndRestoreLr k l, AOffsetSpAndRestoreLr k' l' => (k =? k') && (l =? l')%Z
  | AOffsetSpAndRestoreFpAndLr k f l, AOffsetSpAndRestoreFpAndLr k' f' l' =>
      (k =? k') && (f =? f')%Z && (l =? l')%Z
  | AUseFramePointer, AUseFramePointer => true
  | AUseFramepointerWithOffsets k f l, AUseFramepointerWithOffsets k' f' l' =>
      (k =? k') && (f =? f')%Z && (l =? l')%Z
  | _, _ => false
  end.

Definition arule_wf (r : arule) : bool :=
  match r with
  | AOffsetSp k | AOffsetSpIfFirstFrameOtherwiseStackEndsHere k => k <? W16
  | AOffsetSpAndRestoreLr k l => (k <? W16) && in_i16 l
  | AOffsetSpAndRestoreFpAndLr k f l | AUseFramepointerWithOffsets k f l =>
      (k <? W16) && in_i16 f && in_i16 l
  | _ => true
  end.

Definition afallback_rule : arule := AUseFramePointer.
Definition arule_for_stub_functions : arule := ANoOp.
Definition arule_for_function_start : arule := ANoOp.

(* lines 224-235 *)
Definition aexec_tail (first : bool) (rg : aregs) (new_lr new_sp new_fp : N)
  : res (option N) * aregs :=
  let ra := strip (mask rg) new_lr in
  if ra =? 0 then (Ok None, rg)
  else if negb first && (new_sp =? asp rg) then (Err DidNotAdvance, rg)
  else (Ok (Some ra), set_afp (set_asp (set_lr rg new_lr) new_sp) new_fp).

Definition aexec (ru : arule) (first : bool) (rg : aregs) (m : mem) : res (option N) * aregs :=
  let l := lr rg in let s := asp rg in let f := afp rg in
  match ru with
  | ANoOp =>
    if negb first then (Err DidNotAdvance, rg) else aexec_tail first rg l s f
  | ANoOpIfFirstFrameOtherwiseFp =>
    if first then aexec_tail first rg l s f
    else match add64c f 16 with
         | None => (Err IntegerOverflow, rg)
         | Some ns =>
           match add64p S_a64_rule_fp_add f 8 with
           | Ok f8 =>
             match m f8 with
             | None => (Err (CouldNotReadStack f8), rg)
             | Some nl =>
               match m f with
               | None => (Err (CouldNotReadStack f), rg)
               | Some nf =>
                 if nf =? 0 then (Ok None, rg)          (* fix for S10 *)
                 else if ns <=? s then (Err FpMovedBackwards, rg)
                 else aexec_tail first rg nl ns nf
               end
             end
           | Err e => (Err e, rg) | Panic st => (Panic st, rg) | Hang => (Hang, rg)
           end
         end
  | AOffsetSpIfFirstFrameOtherwiseStackEndsHere k =>
    if negb first then (Ok None, rg)
    else match add64c s (k * 16) with
         | None => (Err IntegerOverflow, rg)
         | Some ns => aexec_tail first rg l ns f
         end
  | AOffsetSp k =>
    if negb first then (Err DidNotAdvance, rg)
    else match add64c s (k * 16) with
         | None => (Err IntegerOverflow, rg)
         | Some ns => aexec_tail first rg l ns f
         end
  | AOffsetSpAndRestoreLr k lo =>
    match add64c s (k * 16) with
    | None => (Err IntegerOverflow, rg)
    | Some ns =>
      match adds64c s (lo * 8) with
      | None => (Err IntegerOverflow, rg)
      | Some ll =>
        match m ll with
        | None => (Err (CouldNotReadStack ll), rg)
        | Some nl => aexec_tail first rg nl ns f
        end
      end
    end
  | AOffsetSpAndRestoreFpAndLr k fo lo =>
    match add64c s (k * 16) with
    | None => (Err IntegerOverflow, rg)
    | Some ns =>
      match adds64c s (lo * 8) with
      | None => (Err IntegerOverflow, rg)
      | Some ll =>
        match m ll with
        | None => (Err (CouldNotReadStack ll), rg)
        | Some nl =>
          match adds64c s (fo * 8) with
          | None => (Err IntegerOverflow, rg)
          | Some fl =>
            match m fl with
            | None => (Err (CouldNotReadStack fl), rg)
            | Some nf => aexec_tail first rg nl ns nf
            end
          end
        end
      end
    end
  | AUseFramePointer =>
    match add64c f 16 with
    | None => (Err IntegerOverflow, rg)
    | Some ns =>
      match add64p S_a64_rule_fp_add f 8 with
      | Ok f8 =>
        match m f8 with
        | None => (Err (CouldNotReadStack f8), rg)
        | Some nl =>
          match m f with
          | None => (Err (CouldNotReadStack f), rg)
          | Some nf =>
            if nf =? 0 then (Ok None, rg)
            else if (nf <=? f) || (ns <=? s) then (Err FpMovedBackwards, rg)
            else aexec_tail first rg nl ns nf
          end
        end
      | Err e => (Err e, rg) | Panic st => (Panic st, rg) | Hang => (Hang, rg)
      end
    end
  | AUseFramepointerWithOffsets k fo lo =>
    match add64c f (k * 8) with
    | None => (Err IntegerOverflow, rg)
    | Some ns =>
      match adds64c f (lo * 8) with
      | None => (Err IntegerOverflow, rg)
      | Some ll =>
        match m ll with
        | None => (Err (CouldNotReadStack ll), rg)
        | Some nl =>
          match adds64c f (fo * 8) with
          | None => (Err IntegerOverflow, rg)
          | Some fl =>
            match m fl with
            | None => (Err (CouldNotReadStack fl), rg)
            | Some nf =>
              if nf =? 0 then (Ok None, rg)
              else if (nf <=? f) || (ns <=? s) then (Err FpMovedBackwards, rg)
              else aexec_tail first rg nl ns nf
            end
          end
        end
      end
    end
  end.
