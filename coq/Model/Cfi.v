(* Cfi.v - FDE selection: .eh_frame_hdr (gimli's table, by contract), framehop's own
   DwarfCfiIndex (dwarf.rs), and the row of an FDE that covers an address (gimli, by contract). *)
From FH Require Export Word DwarfRow.
Open Scope N_scope.

(* One FDE: [f_start, f_start + f_len) in SVMA space, with its table of rows.
   f_rows: (offset of the row's first address from f_start, row), ascending, first offset 0.
   f_ok = false models an FDE whose CIE/instructions gimli cannot evaluate at all. *)
Record fde := mkfde { f_start : N; f_len : N; f_rows : list (N * row); f_ok : bool }.

Inductive pres := PHdr | POwnEh | POwnDebug.

(* gimli: initial_address <= a < end_address, where end_address = initial_address.wrapping_add(len): an FDE whose
   range runs past 2^64 contains nothing *)
Definition fde_contains (f : fde) (a : N) : bool :=
  (f_start f <=? a) && (a <? (f_start f + f_len f) mod W64).

(* gimli: the row whose [start,end) contains the address; rows partition the FDE's range *)
Fixpoint row_at (rows : list (N * row)) (off : N) (cur : option row) : option row :=
  match rows with
  | [] => cur
  | (o, r) :: t => if o <=? off then row_at t off (Some r) else cur
  end.

(* unwind_info_for_fde: None = UnwindInfoForAddressFailed (-> "uncovered" rule) *)
Definition row_for_address (f : fde) (svma : N) : option row :=
  if f_ok f && fde_contains f svma then row_at (f_rows f) (svma - f_start f) None else None.

(* --- stable insertion sort by key (the contract of sort_by_key) --- *)
Fixpoint insert_sorted {A} (key : A -> N) (x : A) (l : list A) : list A :=
  match l with
  | [] => [x]
  | y :: t => if key x <? key y then x :: l else y :: insert_sorted key x t
  end.
Definition sort_by_key {A} (key : A -> N) (l : list A) : list A :=
  fold_left (fun acc x => insert_sorted key x acc) l [].

(* the last element whose key is <= a (elements are scanned in ascending key order) *)
Fixpoint last_le_by {A} (key : A -> N) (l : list A) (a : N) (cur : option A) : option A :=
  match l with
  | [] => cur
  | f :: t => if key f <=? a then last_le_by key t a (Some f) else cur
  end.

(* --- .eh_frame_hdr: binary search table, sorted by initial location (producer's job);
       gimli returns the last entry with start <= address, the first entry when there is none,
       and an error for an empty table --- *)
Definition hdr_lookup (sec : list fde) (svma : N) : option fde :=
  match sort_by_key f_start sec with
  | [] => None
  | f0 :: t => last_le_by f_start (f0 :: t) svma (Some f0)
  end.

(* --- DwarfCfiIndex::try_new: (relative pc, fde) for every FDE, in section order, then
       sort_by_key; fails when pc < base_svma or pc - base_svma does not fit u32 --- *)
Fixpoint index_entries (sec : list fde) (base_svma : N) : option (list (N * fde)) :=
  match sec with
  | [] => Some []
  | f :: t =>
    match sub64c (f_start f) base_svma with
    | None => None
    | Some rel =>
      if rel <? W32 then
        match index_entries t base_svma with
        | Some l => Some ((rel, f) :: l)
        | None => None
        end
      else None
    end
  end.

Definition index_build (sec : list fde) (base_svma : N) : option (list (N * fde)) :=
  match index_entries sec base_svma with
  | Some l => Some (sort_by_key fst l)
  | None => None
  end.

(* fde_offset_for_relative_address.  [first_if_below] distinguishes the tree before the fix for
   S8 (Err(0) => None) from the fixed one (an address below the first FDE selects the first FDE,
   whose range check then fails, exactly like gimli's table). *)
Definition index_lookup (first_if_below : bool) (idx : list (N * fde)) (rel : N) : option fde :=
  match idx with
  | [] => None
  | e0 :: _ =>
    if rel <? fst e0 then (if first_if_below then Some (snd e0) else None)
    else option_map snd (last_le_by fst idx rel None)
  end.
