(* Features.v - C19: which unwind-data kind ModuleUnwindDataInternal::new selects, as a function of
   the enabled cargo features and of the sections a module offers.  The selector list (guarding
   feature, section name, order) is REGENERATED from the source on every run (Generated/FeatConsts.v);
   the unguarded DWARF part is a function of the offered sections only. *)
From Coq Require Import String List Bool.
From FH Require Export FeatConsts.
Import ListNotations.
Open Scope string_scope.

Definition fset := feature -> bool.

Inductive kind :=
| KGuarded (f : feature) (n : string)      (* a format that exists only with feature f (Mach-O compact unwind, PE) *)
| KUnguarded (n : string)                  (* chosen by an unguarded selector on section n (DWARF presentations) *)
| KNoData.                                 (* ModuleUnwindDataInternal::None *)

Fixpoint select (fs : fset) (has : string -> bool) (l : list (option feature * string * bool)) : kind :=
  match l with
  | [] => KNoData
  | (Some f, n, _) :: t => if fs f && has n then KGuarded f n else select fs has t
  | (None, n, _) :: t => if has n then KUnguarded n else select fs has t
  end.

Definition module_kind (fs : fset) (has : string -> bool) : kind := select fs has SRC_NEW_SELECTORS.

(* section names that only a feature-guarded selector looks at *)
Definition guarded_names : list string :=
  flat_map (fun x => match x with (Some _, n, _) => [n] | _ => [] end) SRC_NEW_SELECTORS.

Definition in_names (n : string) (l : list string) : bool := existsb (String.eqb n) l.
