(* Pe.v - PE x64 unwinding: framehop's x86_64/pe.rs and pe.rs, over the values pe-unwind-info
   hands to it.  Dependency code that decides WHAT framehop sees is transcribed and marked (D):
   .pdata lookup, the epilog instruction parser, resolve_operation.  [ms_unwind] is the documented
   Microsoft unwind procedure as transcribed by pe-unwind-info's own unwind_frame (the
   specification side of C03). *)
From FH Require Export Word X86 Unwinder.
From FH Require Import Consts.
Open Scope N_scope.

(* PE register numbers -> framehop's Reg (convert_pe_register) *)
Definition pe_reg (n : N) : reg :=
  match n with
  | 0 => RAX | 1 => RCX | 2 => RDX | 3 => RBX | 4 => RSP | 5 => RBP | 6 => RSI | 7 => RDI
  | 8 => R8 | 9 => R9 | 10 => R10 | 11 => R11 | 12 => R12 | 13 => R13 | 14 => R14 | _ => R15
  end.

(* UnwindOperation (D: decoded from unwind codes by pe-unwind-info) *)
Inductive uop :=
| UPop (r : N)                       (* PopNonVolatile(reg)  - UWOP_PUSH_NONVOL *)
| UAlloc (bytes : N)                 (* UnStackAlloc(u32)    - UWOP_ALLOC_SMALL / LARGE *)
| USetFp                             (* RestoreSPFromFP      - UWOP_SET_FPREG *)
| USaveNonvol (r : N) (off : N)      (* ReadNonVolatile(reg, StackFrameOffset) *)
| USaveXmm (off : N)                 (* ReadXMM *)
| UMachFrame (err : bool).           (* PopMachineFrame *)

Record uinfo := mkui {
  ui_fpreg : option N;               (* frame_register(): None when the raw field is 0 *)
  ui_fpoff : N;                      (* frame_register_offset(): raw * 16 *)
  ui_ops : list (N * uop);           (* (prolog offset, operation), in unwind-code order *)
  ui_chain : option N                (* CHAININFO: unwind_info_address of the chained RUNTIME_FUNCTION *)
}.

Record rtfunc := mkrt { rt_begin : N; rt_end : N; rt_uinfo : N }.

Record pe_data := mkpe {
  pe_funcs : list rtfunc;                       (* .pdata, sorted by begin (binary search contract) *)
  pe_uinfos : list (N * option uinfo);          (* rva -> parsed UNWIND_INFO (None = parse error); absent = not in .rdata/.xdata *)
  pe_text : option (N * N * list N)             (* .text: rva range [lo, hi) and its bytes *)
}.

(* ---------- (D) FunctionTableEntries::lookup ---------- *)
Definition rt_check (prev : option rtfunc) (a : N) : option rtfunc :=
  match prev with Some p => if a <? rt_end p then Some p else None | None => None end.

Fixpoint pe_lookup (l : list rtfunc) (a : N) (prev : option rtfunc) : option rtfunc :=
  match l with
  | [] => rt_check prev a
  | f :: t => if rt_begin f =? a then Some f
              else if a <? rt_begin f then rt_check prev a
              else pe_lookup t a (Some f)
  end.

Inductive ui_result := UiOk (u : uinfo) | UiMissing | UiBad.

Fixpoint ui_at (l : list (N * option uinfo)) (rva : N) : ui_result :=
  match l with
  | [] => UiMissing
  | (k, v) :: t => if k =? rva then (match v with Some u => UiOk u | None => UiBad end) else ui_at t rva
  end.

(* ---------- (D) FunctionEpilogInstruction::parse / parse_sequence ---------- *)
Inductive einsn := EAddSP (n : N) | EAddSPFromFP (n : N) | EPop (r : N).
Inductive perr := NotEnoughData | InvalidInstruction | TooManyInstructions.
Inductive presult := PErr (e : perr) | PEnd | PInsn (i : einsn) (rest : list N).

Definition u32le (l : list N) : option (N * list N) :=
  match l with
  | a :: b :: c :: d :: rest => Some (a + 256 * b + 65536 * c + 16777216 * d, rest)
  | _ => None
  end.

Definition eparse (ip0 : list N) (fpreg : option N) (allow_add_sp : bool) : presult :=
  match ip0 with
  | [] => PErr NotEnoughData
  | b0 :: t0 =>
    let '(rex, ip) := if N.land b0 240 =? 64 then (N.land b0 15, t0) else (0, ip0) in
    let w := negb (N.land rex 8 =? 0) in
    let try_add :=
      if allow_add_sp && (3 <=? N.of_nat (length ip)) then
        match ip with
        | i0 :: i1 :: i2 :: rest3 =>
          if w && (i0 =? 129) && (i1 =? 196) then
            Some (match u32le (i2 :: rest3) with
                  | Some (v, rest) => PInsn (EAddSP v) rest
                  | None => PErr NotEnoughData
                  end)
          else if w && (i0 =? 131) && (i1 =? 196) then Some (PInsn (EAddSP i2) rest3)
          else
            match fpreg with
            | Some fp =>
              if w && (N.land rex 1 =? N.shiftr fp 3) && (i0 =? 141) then
                if N.land i1 63 =? N.lor 32 (N.land fp 7) then
                  let op_mod := N.shiftr i1 6 in
                  if op_mod =? 1 then Some (PInsn (EAddSPFromFP i2) rest3)
                  else if op_mod =? 2 then
                    Some (match u32le (i2 :: rest3) with
                          | Some (v, rest) => PInsn (EAddSPFromFP v) rest
                          | None => PErr NotEnoughData
                          end)
                  else Some (PErr InvalidInstruction)
                else Some (PErr InvalidInstruction)
              else None
            | None => None
            end
        | _ => None
        end
      else None in
    match try_add with
    | Some r => r
    | None =>
      match ip with
      | i0 :: i1 :: rest2 =>
        if (i0 =? 143) && (N.land i1 248 =? 192) then
          PInsn (EPop (N.lor (N.land i1 7) (N.shiftl (N.land rex 1) 3))) rest2
        else if N.land i0 248 =? 88 then
          PInsn (EPop (N.lor (N.land i0 7) (N.shiftl (N.land rex 1) 3))) (i1 :: rest2)
        else if i0 =? 195 then PEnd
        else if (i0 =? 235) || (i0 =? 233) then PEnd
        else if i0 =? 255 then
          (let mo := N.land i1 248 in if (mo =? 32) || (mo =? 40) then PEnd else PErr InvalidInstruction)
        else PErr InvalidInstruction
      | [i0] =>
        if N.land i0 248 =? 88 then PInsn (EPop (N.lor (N.land i0 7) (N.shiftl (N.land rex 1) 3))) []
        else if i0 =? 195 then PEnd
        else PErr InvalidInstruction
      | [] => PErr InvalidInstruction
      end
    end
  end.

(* x86_64/pe.rs relative_jump_target (fix for S23): the target RVA of a `jmp rel8` / `jmp rel32` at the start of the
   bytes (u32 wrapping arithmetic), and whether it stays strictly inside the function: such a jump is an ordinary
   branch, not the tail call that ends an epilog *)
Definition rel_jump_target (bytes : list N) (address : N) : option N :=
  match bytes with
  | b0 :: rel :: t =>
    if b0 =? 235 then Some ((address + 2 + (if rel <? 128 then rel else rel + (W32 - 256))) mod W32)
    else if b0 =? 233 then
      match t with
      | b1 :: b2 :: b3 :: _ => Some ((address + 5 + (rel + 256 * b1 + 65536 * b2 + 16777216 * b3)) mod W32)
      | _ => None
      end
    else None
  | _ => None
  end.
Definition local_jump (bytes : list N) (address fbegin fend : N) : bool :=
  match rel_jump_target bytes address with
  | Some tg => (fbegin <? tg) && (tg <? fend)
  | None => false
  end.

(* FUNCTION_EPILOG_LIMIT = 12; fuel = length of the byte string (every instruction consumes one) *)
Fixpoint eparse_loop (fuel : nat) (ip : list N) (fpreg : option N) (acc : list einsn) (n : nat)
  : option (list einsn) :=
  match fuel with
  | O => None
  | S f =>
    match eparse ip fpreg false with
    | PErr _ => None
    | PEnd => Some (rev acc)
    | PInsn i rest => if Nat.leb 12 n then None else eparse_loop f rest fpreg (i :: acc) (S n)
    end
  end.

Definition eparse_sequence (ip : list N) (fpreg : option N) : option (list einsn) :=
  match eparse ip fpreg true with
  | PErr _ => None
  | PEnd => Some []
  | PInsn i rest => eparse_loop (S (length rest)) rest fpreg [i] 1
  end.

(* ---------- unwind_rule.rs: for_sequence_of_offset_or_pop ---------- *)
Inductive oop := OopNone | OopOff (k : N) | OopPop (r : reg).

Definition oop_of_einsn (i : einsn) : oop :=
  match i with
  | EAddSP off => if off / 8 <? W16 then OopOff (off / 8) else OopNone
  | EPop r => OopPop (pe_reg r)
  | _ => OopNone
  end.

Definition oop_of_uop (o : uop) : oop :=
  match o with
  | UAlloc off => if off / 8 <? W16 then OopOff (off / 8) else OopNone
  | UPop r => OopPop (pe_reg r)
  | _ => OopNone
  end.

Fixpoint all_pops (l : list oop) : option (list reg) :=
  match l with
  | [] => Some []
  | OopPop r :: t => match all_pops t with Some rs => Some (r :: rs) | None => None end
  | _ :: _ => None
  end.

Definition rule_for_sequence (l : list oop) : option (res rule) :=
  let '(k, rest) := match l with OopOff k :: t => (k, t) | _ => (0, l) end in
  match all_pops rest with
  | None => None
  | Some rs =>
    if Nat.ltb 8 (length rs) then None              (* ArrayVec<Reg, 8>::try_push fails *)
    else if (Nat.eqb (length rs) 0) && (k =? 0) then Some (Ok JustReturn)
    else match encode rs with
         | None => None
         | Some (Ok (cnt, enc)) => Some (Ok (OffsetSpAndPopRegisters k cnt enc))
         | Some (Panic s) => Some (Panic s)
         | Some (Err e) => Some (Err e)
         | Some Hang => Some Hang
         end
  end.

(* ---------- (D) UnwindInfoHeader::resolve_operation; bare arithmetic = S_pe_dep ---------- *)
Inductive opres := OpCont (rg : regs) | OpBreak (ra : N) (rg : regs) | OpNoStack (rg : regs) | OpPanic.

Definition resolve_offset (u : uinfo) (rg : regs) (off : N) : option N :=
  match ui_fpreg u with
  | Some r =>
    let v := getr rg (pe_reg r) in
    if v <? ui_fpoff u then None
    else if v - ui_fpoff u + off <? W64 then Some (v - ui_fpoff u + off) else None
  | None => if sp rg + off <? W64 then Some (sp rg + off) else None
  end.

Definition resolve_operation (u : uinfo) (rg : regs) (m : mem) (o : uop) : opres :=
  match o with
  | UPop r =>
    match m (sp rg) with
    | None => OpNoStack rg
    | Some v =>
      let rg1 := setr rg (pe_reg r) v in
      if sp rg + 8 <? W64 then OpCont (set_sp rg1 (sp rg + 8)) else OpPanic
    end
  | UAlloc bytes => if sp rg + bytes <? W64 then OpCont (set_sp rg (sp rg + bytes)) else OpPanic
  | USetFp =>
    match ui_fpreg u with
    | Some r =>
      let v := getr rg (pe_reg r) in
      if v <? ui_fpoff u then OpPanic else OpCont (set_sp rg (v - ui_fpoff u))
    | None => OpCont rg
    end
  | USaveNonvol r off =>
    match resolve_offset u rg off with
    | None => OpPanic
    | Some a => match m a with Some v => OpCont (setr rg (pe_reg r) v) | None => OpNoStack rg end
    end
  | USaveXmm off =>
    match resolve_offset u rg off with
    | None => OpPanic
    | Some a =>
      match m a with
      | None => OpNoStack rg
      | Some _ => if a + 8 <? W64 then (match m (a + 8) with Some _ => OpCont rg | None => OpNoStack rg end)
                  else OpPanic
      end
    end
  | UMachFrame err =>
    let off := if err then 8 else 0 in
    (* read_stack(rsp + offset)? ; read_stack(rsp + offset + 24)? - in this order *)
    if sp rg + off <? W64 then
      match m (sp rg + off) with
      | None => OpNoStack rg
      | Some ra =>
        if sp rg + off + 24 <? W64 then
          match m (sp rg + off + 24) with
          | None => OpNoStack rg
          | Some nsp => OpBreak ra (set_sp rg nsp)
          end
        else OpPanic
      end
    else OpPanic
  end.

(* ---------- x86_64/pe.rs: PeUnwinding::unwind_frame ---------- *)
(* the chained infos, walked with core::iter::successors: at most [fuel] = CHAIN_LIMIT infos *)
(* regenerated from x86_64/pe.rs on every run (Generated/Consts.v PE_CHAIN_LIMIT); 32 = RtlVirtualUnwind's own limit *)
Definition CHAIN_LIMIT : nat := match PE_CHAIN_LIMIT with Some n => N.to_nat n | None => 32 end.
Fixpoint chain_infos (fuel : nat) (pe : pe_data) (u : uinfo) : res (option (list uinfo)) :=
  match fuel with
  | O => Ok None                      (* more than CHAINED_INFO_LIMIT infos: UnwindInfoParseError (fix for S11: was a hang) *)
  | S f =>
    match ui_chain u with
    | None => Ok (Some [u])
    | Some rva =>
      match ui_at (pe_uinfos pe) rva with
      | UiOk u' =>
        match chain_infos f pe u' with
        | Ok (Some l) => Ok (Some (u :: l))
        | r => r
        end
      | _ => Ok None                 (* MissingUnwindInfoData / UnwindInfoParseError *)
      end
    end
  end.

Definition ops_after (offset : N) (first_info : bool) (ops : list (N * uop)) : list uop :=
  (* skip_while(i == 0 && prolog_offset > offset) *)
  let fix skip (l : list (N * uop)) :=
    match l with
    | [] => []
    | (o, op) :: t => if first_info && (offset <? o) then skip t else map snd l
    end in skip ops.

Definition all_ops (offset : N) (infos : list uinfo) : list uop :=
  match infos with
  | [] => []
  | u0 :: rest => ops_after offset true (ui_ops u0) ++ flat_map (fun u => map snd (ui_ops u)) rest
  end.

Fixpoint run_ops_pe (u0 : uinfo) (ops : list uop) (rg : regs) (m : mem) : opres :=
  match ops with
  | [] => OpCont rg
  | o :: t =>
    match resolve_operation u0 rg m o with
    | OpCont rg' => run_ops_pe u0 t rg' m
    | r => r
    end
  end.

(* the epilog simulation written in x86_64/pe.rs itself (own code): [checked] = after the fix for
   the own-code half of S5 (checked_add -> MissingStackData) *)
Fixpoint run_epilog (checked : bool) (u0 : uinfo) (l : list einsn) (rg : regs) (m : mem) : opres :=
  match l with
  | [] => OpCont rg
  | EAddSP off :: t =>
    if sp rg + off <? W64 then run_epilog checked u0 t (set_sp rg (sp rg + off)) m
    else if checked then OpNoStack rg else OpPanic
  | EAddSPFromFP off :: t =>
    match ui_fpreg u0 with
    | None => OpPanic                                   (* expect("invalid fp register offset") *)
    | Some r =>
      let v := getr rg (pe_reg r) in
      if v + off <? W64 then run_epilog checked u0 t (set_sp rg (v + off)) m
      else if checked then OpNoStack rg else OpPanic
    end
  | EPop r :: t =>
    match m (sp rg) with
    | None => OpNoStack rg
    | Some v =>
      let rg1 := setr rg (pe_reg r) v in
      if sp rg + 8 <? W64 then run_epilog checked u0 t (set_sp rg1 (sp rg + 8)) m
      else if checked then OpNoStack rg1 else OpPanic
    end
  end.

(* uncacheable_step: the progress checks of the DWARF generic path, then regs.set_ip (fix for S9b:
   before it the step was returned unchecked and ip was left stale) *)
Definition pe_uncacheable (first : bool) (rg0 : regs) (ra : N) (rg' : regs) : cb_result rule regs :=
  if (sp rg' =? sp rg0) && (ra =? ip rg0) then CbErrV rg'                 (* DidNotAdvance *)
  else if negb first && (sp rg' <=? sp rg0) then CbErrV rg'               (* StackPointerMovedBackwards *)
  else CbUncacheable ra (set_ip rg' ra).

(* final: ra = read [rsp]; rsp += 8 *)
Definition final_pop (checked : bool) (first : bool) (rg0 : regs) (rg : regs) (m : mem) : cb_result rule regs :=
  match m (sp rg) with
  | None => CbErrV rg
  | Some ra =>
    if sp rg + 8 <? W64 then pe_uncacheable first rg0 ra (set_sp rg (sp rg + 8))
    else if checked then CbErrV rg else CbPanic S_pe_own_add
  end.

Definition pe_eff_alloc := mkeff true false.
Definition pe_eff := mkeff true false.

Definition pe_step_raw (checked : bool) (pe : pe_data) (address : N) (first : bool) (rg : regs) (m : mem)
  : cb_result rule regs * eff :=
  match pe_lookup (pe_funcs pe) address None with
  | None => (CbRule JustReturn, pe_eff)                 (* no function table entry: leaf *)
  | Some f =>
    match ui_at (pe_uinfos pe) (rt_uinfo f) with
    | UiMissing | UiBad => (CbErr rg, pe_eff)
    | UiOk u0 =>
      let epi :=
        if first then
          if rt_end f <? address then Some (CbErr rg, pe_eff)         (* checked_sub: fix for S11 *)
          else
            match pe_text pe with
            | None => Some (CbErr rg, pe_eff)                         (* MissingInstructionData *)
            | Some (lo, hi, bytes) =>
              if (lo <=? address) && (address <? hi) then
                let off := N.to_nat (address - lo) in
                if Nat.ltb (length bytes) off then Some (CbErr rg, pe_eff)     (* data.get(offset..): fix for S11 *)
                else
                  let rest := skipn off bytes in
                  let n := N.to_nat (rt_end f - address) in
                  if Nat.ltb (length rest) n then Some (CbErr rg, pe_eff)      (* .get(..bytes): fix for S11 *)
                  else
                    match (if local_jump (firstn n rest) address (rt_begin f) (rt_end f) then None
                           else eparse_sequence (firstn n rest) (ui_fpreg u0)) with
                    | None => None
                    | Some insns =>
                      match rule_for_sequence (map oop_of_einsn insns) with
                      | Some (Ok r) => Some (CbRule r, pe_eff)
                      | Some (Panic s) => Some (CbPanic s, pe_eff)
                      | Some _ => Some (CbHang, pe_eff)
                      | None =>
                        match run_epilog checked u0 insns rg m with
                        | OpCont rg' => Some (final_pop checked first rg rg' m, pe_eff)
                        | OpBreak ra rg' => Some (pe_uncacheable first rg ra rg', pe_eff)
                        | OpNoStack rg' => Some (CbErrV rg', pe_eff)
                        | OpPanic => Some (CbPanic S_pe_own_add, pe_eff)
                        end
                      end
                    end
              else Some (CbErr rg, pe_eff)
            end
        else None in
      match epi with
      | Some r => r
      | None =>
        match chain_infos CHAIN_LIMIT pe u0 with
        | Hang => (CbHang, pe_eff_alloc)
        | Ok None => (CbErr rg, pe_eff_alloc)
        | Ok (Some infos) =>
          if address <? rt_begin f then (CbPanic S_pe_own_sub, pe_eff_alloc)
          else
            let ops := all_ops (address - rt_begin f) infos in
            match rule_for_sequence (map oop_of_uop ops) with
            | Some (Ok r) => (CbRule r, pe_eff_alloc)
            | Some (Panic s) => (CbPanic s, pe_eff_alloc)
            | Some _ => (CbHang, pe_eff_alloc)
            | None =>
              match run_ops_pe u0 ops rg m with
              | OpCont rg' => (final_pop checked first rg rg' m, pe_eff_alloc)
              | OpBreak ra rg' => (pe_uncacheable first rg ra rg', pe_eff_alloc)
              | OpNoStack rg' => (CbErrV rg', pe_eff_alloc)
              | OpPanic => (CbPanic S_pe_dep, pe_eff_alloc)
              end
            end
        | _ => (CbHang, pe_eff_alloc)
        end
      end
    end
  end.

(* PeUnwinding::unwind_frame: when the step fails the registers are put back to what they were on
   entry, so that the frame-pointer fallback starts from this frame's registers (fix: before it,
   pops and frame-register restores done before the failure were left behind) *)
Definition pe_restore (rg0 : regs) (cr : cb_result rule regs) : cb_result rule regs :=
  match cr with CbErr _ => CbErr rg0 | CbErrV _ => CbErrV rg0 | x => x end.

Definition pe_step (checked : bool) (pe : pe_data) (address : N) (first : bool) (rg : regs) (m : mem)
  : cb_result rule regs * eff :=
  (pe_restore rg (fst (pe_step_raw checked pe address first rg m)), snd (pe_step_raw checked pe address first rg m)).

(* ---------- the documented procedure (x64 exception handling, "Unwind procedure"), the SPEC of C03 ---------- *)
(* Returns Some (ra, regs) or None (failure); arithmetic is exact: None on wrap-around.
   The frame base against which UWOP_SAVE_NONVOL / SAVE_XMM128 offsets are taken is fixed on entry:
   rsp when the function has no frame register or has not established it yet, else fpreg - 16*offset. *)
Definition is_setfp (o : uop) : bool := match o with USetFp => true | _ => false end.
Definition established (u0 : uinfo) (offset : N) : bool :=
  (match ui_chain u0 with Some _ => true | None => false end) || existsb is_setfp (ops_after offset true (ui_ops u0)).
Definition base_of (u : uinfo) (rg : regs) : option N :=
  match ui_fpreg u with
  | Some r => let v := getr rg (pe_reg r) in if v <? ui_fpoff u then None else Some (v - ui_fpoff u)
  | None => Some (sp rg)
  end.
Definition ms_frame_base (u0 : uinfo) (offset : N) (rg : regs) : option N :=
  if established u0 offset then base_of u0 rg else Some (sp rg).

Definition ms_op (fb : option N) (u : uinfo) (rg : regs) (m : mem) (o : uop) : opres :=
  match o with
  | USaveNonvol r off =>
    match fb with
    | None => OpPanic
    | Some b =>
      if b + off <? W64 then match m (b + off) with Some v => OpCont (setr rg (pe_reg r) v) | None => OpNoStack rg end
      else OpPanic
    end
  | USaveXmm off =>
    match fb with
    | None => OpPanic
    | Some b =>
      if b + off <? W64 then
        match m (b + off) with
        | None => OpNoStack rg
        | Some _ => if b + off + 8 <? W64 then (match m (b + off + 8) with Some _ => OpCont rg | None => OpNoStack rg end)
                    else OpPanic
        end
      else OpPanic
    end
  | _ => resolve_operation u rg m o
  end.

Fixpoint ms_ops (fb : option N) (u : uinfo) (ops : list uop) (rg : regs) (m : mem) : option (regs + (N * regs)) :=
  match ops with
  | [] => Some (inl rg)
  | o :: t =>
    match ms_op fb u rg m o with
    | OpCont rg' => ms_ops fb u t rg' m
    | OpBreak ra rg' => Some (inr (ra, rg'))
    | _ => None
    end
  end.

Fixpoint ms_chain (fuel : nat) (fb : option N) (pe : pe_data) (u : uinfo) (chained : bool) (offset : N) (rg : regs) (m : mem)
  : option (regs + (N * regs)) :=
  match fuel with
  | O => None
  | S f =>
    match ms_ops fb u (ops_after offset (negb chained) (ui_ops u)) rg m with
    | Some (inl rg') =>
      match ui_chain u with
      | None => Some (inl rg')
      | Some rva =>
        match ui_at (pe_uinfos pe) rva with
        | UiOk u' => ms_chain f fb pe u' true offset rg' m
        | _ => None
        end
      end
    | r => r
    end
  end.

Definition ms_final (rg : regs) (m : mem) : option (N * regs) :=
  match m (sp rg) with
  | Some ra => if sp rg + 8 <? W64 then Some (ra, set_sp rg (sp rg + 8)) else None
  | None => None
  end.

(* the epilog the procedure sees at [address] (None: not in an epilog, or the bytes are not available) *)
Definition epilog_at (pe : pe_data) (f : rtfunc) (u0 : uinfo) (address : N) : option (list einsn) :=
  match pe_text pe with
  | Some (lo, hi, bytes) =>
    if (lo <=? address) && (address <? hi) && (address <=? rt_end f) then
      let code := firstn (N.to_nat (rt_end f - address)) (skipn (N.to_nat (address - lo)) bytes) in
      if local_jump code address (rt_begin f) (rt_end f) then None       (* a branch inside the function is no epilog *)
      else eparse_sequence code (ui_fpreg u0)
    else None
  | None => None
  end.

Definition ms_unwind (pe : pe_data) (address : N) (rg : regs) (m : mem) : option (N * regs) :=
  match pe_lookup (pe_funcs pe) address None with
  | None => ms_final rg m
  | Some f =>
    match ui_at (pe_uinfos pe) (rt_uinfo f) with
    | UiOk u0 =>
      match epilog_at pe f u0 address with
      | Some insns =>
        match run_epilog false u0 insns rg m with
        | OpCont rg' => ms_final rg' m
        | _ => None
        end
      | None =>
        match ms_chain CHAIN_LIMIT (ms_frame_base u0 (address - rt_begin f) rg) pe u0 false (address - rt_begin f) rg m with
        | Some (inl rg') => ms_final rg' m
        | Some (inr r) => Some r
        | None => None
        end
      end
    | _ => None
    end
  end.
