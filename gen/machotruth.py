"""machotruth.py - ground truth for Mach-O compact unwind + instruction analysis (C02).

Programs are synthesized from the standard compiler prologue / epilogue shapes of x86_64 and arm64
with REAL instruction encodings; __unwind_info is encoded as the linker does (header, common
encodings, first-level index with sentinel, regular and compressed second-level pages, optionally
merging adjacent functions with equal encodings); DWARF-deferred functions get an __eh_frame FDE
whose rows are derived per instruction boundary; __stubs / __stub_helper sections follow the
layouts dyld uses.  A machine executes calls, prologues and epilogues, so the chain of return
addresses and the caller's sp / fp at every call are known by construction."""
import struct
from fhgen import *

M64 = (1 << 64) - 1

# ------------------------------------------------------------------ x86_64 encodings
RAX, RCX, RDX, RBX, RSP, RBP, RSI, RDI = range(8)
CU_X86 = {RBX: 1, 12: 2, 13: 3, 14: 4, 15: 5, RBP: 6}       # compact-unwind register numbers

def x_push(r): return bytes([0x50 + r]) if r < 8 else bytes([0x41, 0x50 + r - 8])
def x_pop(r): return bytes([0x58 + r]) if r < 8 else bytes([0x41, 0x58 + r - 8])
def x_sub_rsp(n): return bytes([0x48, 0x83, 0xEC, n]) if n < 128 else bytes([0x48, 0x81, 0xEC]) + struct.pack("<I", n)
def x_add_rsp(n): return bytes([0x48, 0x83, 0xC4, n]) if n < 128 else bytes([0x48, 0x81, 0xC4]) + struct.pack("<I", n)
X_MOV_RBP_RSP = bytes([0x48, 0x89, 0xE5])
X_RET = bytes([0xC3])
X_FILL = [bytes([0x90]), bytes([0x31, 0xC0]), bytes([0x48, 0x89, 0xD8]), bytes([0x85, 0xC0]), bytes([0x48, 0x8B, 0x04, 0x24]),
          bytes([0x0F, 0x1F, 0x40, 0x00]), bytes([0x89, 0xC7])]

# ------------------------------------------------------------------ arm64 encodings
def a_word(w): return struct.pack("<I", w & 0xffffffff)
def a_stp_pre(rt, rt2, imm):      # stp rt, rt2, [sp, #imm]!   (imm negative multiple of 8)
    return a_word(0xA9800000 | (((imm // 8) & 0x7f) << 15) | (rt2 << 10) | (31 << 5) | rt)
def a_stp_off(rt, rt2, imm):      # stp rt, rt2, [sp, #imm]
    return a_word(0xA9000000 | (((imm // 8) & 0x7f) << 15) | (rt2 << 10) | (31 << 5) | rt)
def a_ldp_post(rt, rt2, imm):     # ldp rt, rt2, [sp], #imm
    return a_word(0xA8C00000 | (((imm // 8) & 0x7f) << 15) | (rt2 << 10) | (31 << 5) | rt)
def a_ldp_off(rt, rt2, imm):      # ldp rt, rt2, [sp, #imm]
    return a_word(0xA9400000 | (((imm // 8) & 0x7f) << 15) | (rt2 << 10) | (31 << 5) | rt)
def a_add_fp_sp(imm): return a_word(0x910003FD | ((imm & 0xfff) << 10))       # add x29, sp, #imm  (mov x29, sp when 0)
def a_sub_sp(imm):
    return a_word(0xD10003FF | ((imm & 0xfff) << 10)) if imm < 4096 else a_word(0xD14003FF | (((imm >> 12) & 0xfff) << 10))
def a_add_sp(imm):
    return a_word(0x910003FF | ((imm & 0xfff) << 10)) if imm < 4096 else a_word(0x914003FF | (((imm >> 12) & 0xfff) << 10))
A_RET, A_NOP, A_PACIBSP, A_RETAB = a_word(0xD65F03C0), a_word(0xD503201F), a_word(0xD503237F), a_word(0xD65F0FFF)
A_FILL = [a_word(0xD503201F), a_word(0xAA0103E0), a_word(0x52800000), a_word(0xF9400260), a_word(0x8B010000)]

# ------------------------------------------------------------------ instructions and functions
class I:
    """kind: push r | pop r | movfp | sub n | add n | ret | jmp | call | fill      (x86_64)
             stp_pre a b imm | stp_off a b imm | ldp_post a b imm | ldp_off a b imm | addfp imm | sub n | add n |
             ret | retab | pacibsp | b | bl | fill                                    (arm64)"""
    def __init__(self, kind, *a, raw=None):
        self.kind, self.a, self.raw = kind, a, raw

class Func:
    def __init__(self, arch, name, shape):
        self.arch, self.name, self.shape = arch, name, shape
        self.insns = []            # (offset, I, phase)  phase: prologue | body | epilogue
        self.length = 0
        self.opcode = 0
        self.start = 0
        self.dwarf = False
        self.can_call = True
    def emit(self, insn, phase, data):
        insn.raw = data
        self.insns.append((self.length, insn, phase))
        self.length += len(data)
    def text(self):
        return b"".join(i.raw for _, i, _ in self.insns)

def perm_encode(regs):
    """regs: compact-unwind register numbers (1..6) in the order they are popped"""
    n = len(regs)
    ren = []
    for i in range(n):
        less = sum(1 for j in range(i) if regs[j] < regs[i])
        ren.append(regs[i] - less - 1)
    if n == 6 or n == 5:
        return 120 * ren[0] + 24 * ren[1] + 6 * ren[2] + 2 * ren[3] + ren[4]
    if n == 4:
        return 60 * ren[0] + 12 * ren[1] + 3 * ren[2] + ren[3]
    if n == 3:
        return 20 * ren[0] + 4 * ren[1] + ren[2]
    if n == 2:
        return 5 * ren[0] + ren[1]
    if n == 1:
        return ren[0]
    return 0

def x_call(rng):
    hi = rng.choice([0x00, 0xFF])
    return bytes([0xE8, rng.below(256), rng.below(256), hi, hi])

def x_tail_jmp(rng):
    """the forms a tail call takes: jmp rel32, jmp rel8, jmp [rip+disp32], jmp rax"""
    # (incl. jumps to the function that lies directly behind this one - displacement 0..3: a target computed from any
    # earlier offset of this function would fall inside it; seeded change C02-x86-11)
    return rng.choice([bytes([0xE9, rng.below(256), rng.below(256), 0, 0]), bytes([0xEB, rng.below(128)]),
                       bytes([0xFF, 0x25, rng.below(256), rng.below(256), 0, 0]), bytes([0xFF, 0xE0]),
                       bytes([0xE9, rng.below(4), 0, 0, 0]), bytes([0xEB, rng.below(4)])])

def x_body(f, rng, ncalls):
    for _ in range(ncalls):
        for _ in range(rng.range(0, 3)):
            f.emit(I("fill"), "body", rng.choice(X_FILL))
        f.emit(I("call"), "body", x_call(rng))
    for _ in range(rng.range(1, 2)):
        f.emit(I("fill"), "body", rng.choice(X_FILL))

def make_x86(rng, name, shape=None, force_saved=None, near_tail=False):
    shape = shape or rng.choice(["frame", "frame", "frameless", "frameless", "indirect", "dwarf-frame", "dwarf-frameless", "null-leaf", "null-fp"])
    f = Func("x86", name, shape)
    if shape == "null-leaf":
        f.can_call = False
        for _ in range(rng.range(1, 4)):
            f.emit(I("fill"), "body", rng.choice(X_FILL))
        f.emit(I("ret"), "epilogue", X_RET)
        return f
    if shape == "frameless0":
        # a leaf that touches nothing: frameless encoding with a stack size of one word (just the return address)
        f.can_call = False
        for _ in range(rng.range(1, 4)):
            f.emit(I("fill"), "body", rng.choice(X_FILL))
        f.emit(I("ret"), "epilogue", X_RET)
        f.saved, f.alloc, f.frame = [], 0, False
        f.opcode = 0x02010000
        return f
    callee = [15, 14, 13, 12, RBX]
    if shape in ("frame", "dwarf-frame", "null-fp"):
        np_ = 0 if shape == "null-fp" else rng.range(0, 5)
        saved = callee[:np_] if rng.chance(1, 2) else sorted(rng.shuffle(list(callee))[:np_], key=lambda r: callee.index(r))
        alloc = 8 * rng.range(0, 12)
        f.emit(I("push", RBP), "prologue", x_push(RBP))
        f.emit(I("movfp"), "prologue", X_MOV_RBP_RSP)
        for r in saved:
            f.emit(I("push", r), "prologue", x_push(r))
        if alloc:
            f.emit(I("sub", alloc), "prologue", x_sub_rsp(alloc))
        x_body(f, rng, rng.range(1, 3))
        if alloc:
            f.emit(I("add", alloc), "epilogue", x_add_rsp(alloc))
        for r in reversed(saved):
            f.emit(I("pop", r), "epilogue", x_pop(r))
        f.emit(I("pop", RBP), "epilogue", x_pop(RBP))
        if rng.chance(4, 5):
            f.emit(I("ret"), "epilogue", X_RET)
        else:
            f.emit(I("jmp"), "epilogue", x_tail_jmp(rng))      # tail call after the frame has been torn down
        f.saved, f.alloc, f.frame = saved, alloc, True
        if shape == "frame":
            regs = 0
            # slot i (3 bits each, lowest first) describes address rbp - 8*offset + 8*i: the LAST pushed register first
            for i, r in enumerate(reversed(saved)):
                regs |= CU_X86[r] << (3 * i)
            f.opcode = 0x01000000 | (len(saved) << 16) | regs
        elif shape == "null-fp":
            f.opcode = 0
        else:
            f.dwarf = True
        return f
    # frameless shapes
    pool = [RBP, 15, 14, 13, 12, RBX]
    np_ = rng.range(0, 6)
    saved = [r for r in pool if r in rng.shuffle(list(pool))[:np_]]
    if rng.chance(1, 2):
        rng.shuffle(saved)                 # the format allows any push order (rbp anywhere among the saved registers)
    if force_saved is not None:
        saved = list(force_saved); np_ = len(saved)
    if shape == "indirect":
        alloc = 8 * rng.range(256, 4096) if rng.chance(1, 2) else rng.choice([0x10000, 0x10008, 0x20010, 0x7ff00])     # up to the u16 limit of 8-byte words
    else:
        alloc = 8 * rng.range(0 if np_ else 1, 24)
    f.saved, f.alloc, f.frame = saved, alloc, False
    for r in saved:
        f.emit(I("push", r), "prologue", x_push(r))
    imm_off = None
    if alloc:
        if alloc >= 128:
            imm_off = f.length + 3
        f.emit(I("sub", alloc), "prologue", x_sub_rsp(alloc))
    x_body(f, rng, rng.range(1, 3))
    if alloc:
        f.emit(I("add", alloc), "epilogue", x_add_rsp(alloc))
    for r in reversed(saved):
        f.emit(I("pop", r), "epilogue", x_pop(r))
    if near_tail == "reg":
        f.emit(I("jmp"), "epilogue", rng.choice([bytes([0xFF, 0xE0]), bytes([0xFF, 0xE1]), bytes([0xFF, 0xE2])]))    # jmp rax / rcx / rdx
    elif near_tail == "mem":
        f.emit(I("jmp"), "epilogue", bytes([0xFF, 0x25, rng.below(256), rng.below(256), 0, 0]))                          # jmp [rip+d]
    elif near_tail:
        # tail call to the function directly behind this one (see x_tail_jmp)
        f.emit(I("jmp"), "epilogue", rng.choice([bytes([0xE9, rng.below(4), 0, 0, 0]), bytes([0xEB, rng.below(4)])]))
    elif rng.chance(3, 4):
        f.emit(I("ret"), "epilogue", X_RET)
    else:
        f.emit(I("jmp"), "epilogue", x_tail_jmp(rng))      # tail call
    stack_size = alloc + 8 * (len(saved) + 1)
    pop_order = [CU_X86[r] for r in reversed(saved)]
    if shape == "dwarf-frameless":
        f.dwarf = True
    elif shape == "indirect" and imm_off is not None and imm_off < 256 and len(saved) <= 6:
        f.opcode = 0x03000000 | (imm_off << 16) | ((len(saved) + 1) << 13) | (len(saved) << 10) | perm_encode(pop_order)
    elif stack_size // 8 < 256:
        f.opcode = 0x02000000 | ((stack_size // 8) << 16) | (len(saved) << 10) | perm_encode(pop_order)
    else:
        f.dwarf = True
    return f

def a_body(f, rng, ncalls):
    for k in range(ncalls):
        for _ in range(rng.range(0, 3)):
            f.emit(I("fill"), "body", rng.choice(A_FILL))
        f.emit(I("bl"), "body", a_word(0x94000000 | rng.below(1 << 26)))
        if k == 0:
            # a reload of a spilled pair without write-back followed by a branch inside the function (the end of an `if`
            # arm): sp has not moved, the branch is no tail call (seeded change C02-a64-12 took every ldp from [sp] for
            # an instruction that adjusts sp)
            f.emit(I("fill"), "body", a_word(0xA94153F3))        # ldp x19, x20, [sp, #16]
            f.emit(I("fill"), "body", a_word(0x14000002))        # b   .+8
            f.emit(I("fill"), "body", a_word(0xD503201F))        # nop
    for _ in range(rng.range(1, 2)):
        f.emit(I("fill"), "body", rng.choice(A_FILL))

def make_a64(rng, name, shape=None, force=None):
    shape = shape or rng.choice(["frame", "frame", "frame-pairs", "frame-pairs", "frameless", "dwarf-frame", "null-leaf"])
    f = Func("a64", name, shape)
    if shape == "null-leaf":
        f.can_call = False
        for _ in range(rng.range(1, 4)):
            f.emit(I("fill"), "body", rng.choice(A_FILL))
        f.emit(I("ret"), "epilogue", A_RET)
        return f
    if shape == "frameless":
        f.can_call = False
        n = 16 * rng.range(1, 64) if rng.chance(2, 3) else rng.choice([0x1000, 0x2000, 0x3000, 0xf000, 0x1230, 0x2010, 0x5ff0])     # 4 KiB and more: sub / add with lsl #12
        if force and "alloc" in force:
            n = force["alloc"]
        # sizes that are not a multiple of 4 KiB take two instructions, in either order
        parts = [n] if n < 4096 or n % 4096 == 0 else [n & ~0xfff, n & 0xfff]
        if len(parts) == 2 and (force or {}).get("lofirst", rng.chance(1, 2)):
            parts.reverse()
        for part in parts:
            f.emit(I("sub", part), "prologue", a_sub_sp(part))
        for _ in range(rng.range(1, 4)):
            f.emit(I("fill"), "body", rng.choice(A_FILL))
        for part in reversed(parts):
            f.emit(I("add", part), "epilogue", a_add_sp(part))
        if rng.chance(1, 3):
            f.emit(I("b"), "epilogue", a_word(0x14000000 | rng.below(1 << 26)))       # tail call
        else:
            f.emit(I("ret"), "epilogue", A_RET)
        f.opcode = 0x02000000 | ((n // 16) << 12)
        f.alloc = n
        return f
    signing = rng.chance(1, 4)
    npairs = rng.choice([1, 2, 3, 4, 5, 5]) if shape == "frame-pairs" else 0       # up to all five callee-saved pairs
    if force:
        signing, npairs = force.get("signing", signing), force.get("npairs", npairs)
    alloc = 16 * rng.range(0, 8) if rng.chance(3, 4) else rng.choice([0x1000, 0x2000, 0x5000, 0x1230, 0x2010, 0x5ff0])
    pairs = [(20, 19), (22, 21), (24, 23), (26, 25), (28, 27)][:npairs]
    if signing:
        f.emit(I("pacibsp"), "prologue", A_PACIBSP)
    subfirst = (force or {}).get("subfirst", rng.chance(1, 3))
    if subfirst:
        # the other layout compilers use: one `sub sp` for the whole frame (locals at the bottom), the pairs and
        # the frame record stored with signed offsets, `add x29, sp, #n`; torn down by loads and one `add sp`
        local = 16 * rng.range(0, (504 - 16 * (npairs + 1)) // 16)
        tot = local + 16 * (npairs + 1)
        f.emit(I("sub", tot), "prologue", a_sub_sp(tot))
        for k, (a, b) in enumerate(pairs):
            f.emit(I("stp_off", a, b, local + 16 * k), "prologue", a_stp_off(a, b, local + 16 * k))
        f.emit(I("stp_off", 29, 30, local + 16 * npairs), "prologue", a_stp_off(29, 30, local + 16 * npairs))
        f.emit(I("addfp", local + 16 * npairs), "prologue", a_add_fp_sp(local + 16 * npairs))
        alloc = 0
    elif npairs == 0:
        f.emit(I("stp_pre", 29, 30, -16), "prologue", a_stp_pre(29, 30, -16))
        f.emit(I("addfp", 0), "prologue", a_add_fp_sp(0))
    else:
        # the frame record sits at the top of the frame (CFA = fp + 16): the first store's writeback covers
        # exactly the saved pairs; locals are allocated by a separate sub sp
        tot = 16 * (npairs + 1)
        a, b = pairs[0]
        f.emit(I("stp_pre", a, b, -tot), "prologue", a_stp_pre(a, b, -tot))
        for k, (a, b) in enumerate(pairs[1:], 1):
            f.emit(I("stp_off", a, b, 16 * k), "prologue", a_stp_off(a, b, 16 * k))
        f.emit(I("stp_off", 29, 30, 16 * npairs), "prologue", a_stp_off(29, 30, 16 * npairs))
        f.emit(I("addfp", 16 * npairs), "prologue", a_add_fp_sp(16 * npairs))
        f.pre_tot = tot
    # locals of 4 KiB and more that are not a multiple of 4 KiB take two instructions (sub #hi, lsl #12; sub #lo)
    parts = [alloc] if alloc < 4096 or alloc % 4096 == 0 else [alloc & ~0xfff, alloc & 0xfff]
    for part in (parts if alloc else []):
        f.emit(I("sub", part), "prologue", a_sub_sp(part))
    a_body(f, rng, rng.range(1, 3))
    for part in (parts if alloc else []):
        f.emit(I("add", part), "epilogue", a_add_sp(part))
    if subfirst:
        f.emit(I("ldp_off", 29, 30, local + 16 * npairs), "epilogue", a_ldp_off(29, 30, local + 16 * npairs))
        for k, (a, b) in reversed(list(enumerate(pairs))):
            f.emit(I("ldp_off", a, b, local + 16 * k), "epilogue", a_ldp_off(a, b, local + 16 * k))
        f.emit(I("add", tot), "epilogue", a_add_sp(tot))
    elif npairs == 0:
        f.emit(I("ldp_post", 29, 30, 16), "epilogue", a_ldp_post(29, 30, 16))
    else:
        tot = f.pre_tot
        f.emit(I("ldp_off", 29, 30, 16 * npairs), "epilogue", a_ldp_off(29, 30, 16 * npairs))
        for k, (a, b) in reversed(list(enumerate(pairs[1:], 1))):
            f.emit(I("ldp_off", a, b, 16 * k), "epilogue", a_ldp_off(a, b, 16 * k))
        a, b = pairs[0]
        f.emit(I("ldp_post", a, b, tot), "epilogue", a_ldp_post(a, b, tot))
    if not signing and rng.chance(1, 4):
        f.emit(I("b"), "epilogue", a_word(0x14000000 | rng.below(1 << 26)))           # tail call
    elif signing and ((force or {}).get("authtail") or rng.chance(1, 2)):
        # arm64e authenticated tail call: autibsp; eor x16, lr, lr, lsl #1; tbz x16, #62, +8; brk #0xc471; then
        # b target  |  mov x16, #imm; braa xN, x16     (all of it belongs to the epilogue: everything is restored)
        f.emit(I("autibsp"), "epilogue", a_word(0xD50323FF))
        f.emit(I("fill"), "epilogue", a_word(0xCA1E07D0))
        f.emit(I("fill"), "epilogue", a_word(0xB6F00050))
        f.emit(I("fill"), "epilogue", a_word(0xD4388E20))
        if rng.chance(1, 2):
            f.emit(I("b"), "epilogue", a_word(0x14000000 | rng.below(1 << 26)))
        else:
            f.emit(I("fill"), "epilogue", a_word(0xD2800010 | (rng.below(1 << 16) << 5)))          # mov x16, #imm
            f.emit(I("braa"), "epilogue", a_word(0xD71F0800 | (rng.below(16) << 5) | 16))
        f.authtail = True
    else:
        f.emit(I("retab" if signing else "ret"), "epilogue", A_RETAB if signing else A_RET)
    f.signing, f.alloc, f.npairs = signing, alloc, npairs
    if shape.startswith("dwarf"):
        f.dwarf = True
    else:
        f.opcode = 0x04000000 | ((1 << npairs) - 1)
    return f

# ------------------------------------------------------------------ the machine
class St:
    def __init__(self, arch, rng, top):
        self.arch, self.mem = arch, {}
        self.sp, self.fp, self.lr = top, rng.u64() & 0xfffffffffff0, 0
        self.regs = {r: rng.u64() for r in (RBX, 12, 13, 14, 15, 19, 20, 21, 22, 23, 24, 25, 26, 27, 28)}

def step(st, insn, func):
    k, a = insn.kind, insn.a
    if st.arch == "x86":
        if k == "push":
            st.sp -= 8; st.mem[st.sp] = st.fp if a[0] == RBP else st.regs[a[0]]
        elif k == "pop":
            v = st.mem[st.sp]; st.sp += 8
            if a[0] == RBP: st.fp = v
            else: st.regs[a[0]] = v
        elif k == "movfp":
            st.fp = st.sp
        elif k == "sub":
            st.sp -= a[0]
        elif k == "add":
            st.sp += a[0]
    else:
        def rd(r): return st.fp if r == 29 else (st.lr if r == 30 else st.regs[r])
        def wr(r, v):
            if r == 29: st.fp = v
            elif r == 30: st.lr = v
            else: st.regs[r] = v
        if k == "stp_pre":
            st.sp += a[2]; st.mem[st.sp] = rd(a[0]); st.mem[st.sp + 8] = rd(a[1])
        elif k == "stp_off":
            st.mem[st.sp + a[2]] = rd(a[0]); st.mem[st.sp + a[2] + 8] = rd(a[1])
        elif k == "ldp_post":
            wr(a[0], st.mem[st.sp]); wr(a[1], st.mem[st.sp + 8]); st.sp += a[2]
        elif k == "ldp_off":
            wr(a[0], st.mem[st.sp + a[2]]); wr(a[1], st.mem[st.sp + a[2] + 8])
        elif k == "addfp":
            st.fp = st.sp + a[0]
        elif k == "sub":
            st.sp -= a[0]
        elif k == "add":
            st.sp += a[0]
        elif k == "pacibsp":
            if st.lr:
                st.lr = st.lr | getattr(st, "pac", 0)
        elif k == "retab":
            pass

def run_to(st, func, upto, rng):
    """execute func from its entry up to (not including) instruction index upto; calls are stepped over"""
    clobbered = False
    for i, (off, insn, phase) in enumerate(func.insns):
        if i == upto:
            return
        if phase == "body" and not clobbered:
            clobbered = True
            for r in getattr(func, "saved", []):
                if r != RBP:
                    st.regs[r] = rng.u64()
                elif func.arch == "x86" and not getattr(func, "frame", False):
                    st.fp = rng.u64()          # a frameless function saves rbp in order to use it as a scratch register
            if func.arch == "x86" and getattr(func, "frame", False) and func.alloc and rng.chance(1, 3):
                st.sp -= 16 * rng.range(1, 6)            # dynamic allocation in frame-pointer functions
            if func.arch == "a64" and func.can_call:
                st.lr = rng.u64() & 0xfffffffffffc       # lr is scratch once it has been saved
        if func.arch == "x86" and insn.kind == "add" and getattr(func, "frame", False):
            # frame-pointer functions restore rsp from rbp (lea rsp,[rbp-8n]); the bytes say add rsp,N
            st.sp = st.fp - 8 * len(func.saved) - func.alloc
        step(st, insn, func)

def make_program(rng, arch, nfuncs=8, force_last_noreturn=False):
    mk = make_x86 if arch == "x86" else make_a64
    funcs = [mk(rng, "f%d" % i) for i in range(nfuncs)]
    need = ["frame", "frameless", "dwarf-frame", "null-leaf"] + (["indirect", "frameless0"] if arch == "x86" else ["frame-pairs"])
    for sh in need:
        if sh not in [f.shape for f in funcs]:
            funcs.append(mk(rng, "f%d" % len(funcs), sh))
    if arch == "a64":
        # the longest prologue of the grammar: pacibsp, all five callee-saved pairs, the frame record (then add x29, sub sp)
        funcs.append(make_a64(rng, "f%d" % len(funcs), "frame-pairs", force=dict(signing=True, npairs=5, subfirst=False)))
        funcs.append(make_a64(rng, "f%d" % len(funcs), "frame-pairs", force=dict(signing=rng.chance(1, 2), npairs=5, subfirst=True)))
        # a frameless function whose 4 KiB+ frame is allocated low part first (the shifted `sub` is then met mid-prologue)
        funcs.append(make_a64(rng, "f%d" % len(funcs), "frameless", force=dict(alloc=rng.choice([0x1230, 0x2010, 0x5ff0]), lofirst=True)))
        # every program has one function that ends in an authenticated tail call (arm64e)
        funcs.append(make_a64(rng, "f%d" % len(funcs), "frame-pairs", force=dict(signing=True, npairs=rng.range(1, 2), authtail=True)))
    if arch == "x86":
        # six saved registers with rbp pushed last / first (every slot of the permutation in use)
        funcs.append(make_x86(rng, "f%d" % len(funcs), "frameless", force_saved=[15, 14, 13, 12, RBX, RBP]))
        # a frameless function with three pops that ends in a tail call to its neighbour
        funcs.append(make_x86(rng, "f%d" % len(funcs), "frameless", force_saved=[RBX, 14, 15], near_tail=True))
        # ... and one each whose tail call goes through a register / through memory (`ff /4`; seeded change C02-x86-8)
        funcs.append(make_x86(rng, "f%d" % len(funcs), "frameless", force_saved=[RBX, 12], near_tail="reg"))
        funcs.append(make_x86(rng, "f%d" % len(funcs), "frameless", force_saved=[13], near_tail="mem"))
        funcs.append(make_x86(rng, "f%d" % len(funcs), rng.choice(["frameless", "indirect"]),
                              force_saved=rng.choice([[RBP, 15, 14, 13, 12, RBX], [15, 14, 13, 12, RBX, RBP], [15, 14, RBP, 13, 12, RBX]])))
        funcs.append(make_x86(rng, "f%d" % len(funcs), "indirect", force_saved=rng.choice([[RBP], [RBX, RBP], [RBP, 12, 13]])))
    for f in funcs:
        if f.dwarf:
            f.darwin_cfi = rng.chance(1, 2)
    # some functions never return: their last instruction is a call (abort, a throw helper), so the return address of
    # that call is the END of the function - the start of whatever follows it
    cand = [f for f in funcs if f.can_call and f.shape not in ("null-leaf", "null-fp", "frameless0")]
    chosen = [f for f in cand if rng.chance(1, 4)]
    for want_dwarf in (True, False):          # at least one DWARF-deferred and one compact-unwind function of this kind
        if not any(f.dwarf == want_dwarf for f in chosen):
            more = [f for f in cand if f.dwarf == want_dwarf]
            if more:
                chosen.append(rng.choice(more))
    for f in funcs:
        if f in chosen:
            k = next((i for i, (o, ins, ph) in enumerate(f.insns) if ph == "epilogue"), None)
            if k is not None and k > 0:
                f.insns = f.insns[:k]
                f.length = f.insns[-1][0] + len(f.insns[-1][1].raw)
                f.emit(I("call" if arch == "x86" else "bl"), "body", x_call(rng) if arch == "x86" else a_word(0x94000000 | rng.below(1 << 26)))
                f.noreturn = True
    # one DWARF-deferred function with Darwin-style CFI always keeps its epilogue (the noreturn choice above can take the
    # only one there is; seeded change C02-x86-6 - no instruction analysis for DWARF-deferred entries - shows only there)
    def _has_epi(f):
        return any(ph == "epilogue" for (_o, _i, ph) in f.insns)
    if not any(f.dwarf and getattr(f, "darwin_cfi", False) and _has_epi(f) and not getattr(f, "noreturn", False) for f in funcs):
        g = mk(rng, "f%d" % len(funcs), "dwarf-frame")
        g.darwin_cfi = True
        funcs.append(g)
    # the four top bits of an encoding are flags (not a function start, has an LSDA, personality index), not part of the
    # kind: entries without unwind info carry them too (seeded change C02-a64-11 compared the whole word with 0)
    for f in funcs:
        if not f.dwarf and rng.chance(1, 2):
            f.opcode |= rng.choice([0x80000000, 0x40000000, 0x30000000, 0x50000000]) if f.opcode == 0 else rng.choice([0x40000000, 0x50000000, 0x60000000])
    rng.shuffle(funcs)
    nr = [f for f in funcs if getattr(f, "noreturn", False)]
    lastnr = rng.chance(1, 2) if nr else False       # (drawn as before; the C13 stream can insist)
    if nr and (lastnr or force_last_noreturn):
        # the last function of __text ends in a call and __stubs follows it without a gap: the return address of that
        # call is the first byte of __stubs
        last = rng.choice(nr)
        funcs.remove(last); funcs.append(last)
    pos = 0x1000
    gran = 1 if arch == "x86" else 4
    for f in funcs:
        if rng.chance(1, 2):
            pos = (pos + 15) & ~15
        f.start = pos
        pos += f.length
        if rng.chance(1, 3):
            pos += gran * rng.range(1, 4)
    text_lo = 0x1000
    pad = 0xCC if arch == "x86" else 0x00
    text = bytearray([pad] * (pos - text_lo))
    for f in funcs:
        text[f.start - text_lo: f.start - text_lo + f.length] = f.text()
    # stubs and stub helper after the text
    stubs_lo = (pos + 15) & ~15
    if getattr(funcs[-1], "noreturn", False):
        pos = funcs[-1].start + funcs[-1].length
        text = text[: pos - text_lo]
        stubs_lo = (pos + 3) & ~3 if arch == "a64" else pos
    nstubs = rng.range(2, 5)
    if arch == "x86":
        stubs = b"".join(bytes([0xFF, 0x25, 0x10, 0x20, 0x00, 0x00]) for _ in range(nstubs))
        helper = bytes([0x4C, 0x8D, 0x1D, 0x3D, 0x03, 0x04, 0x00, 0x41, 0x53, 0xFF, 0x25, 0x2D, 0x03, 0x04, 0x00, 0x90]) + \
            b"".join(bytes([0x68, 0xF1, 0x61, 0, 0, 0xE9, 0xE6, 0xFF, 0xFF, 0xFF]) for _ in range(nstubs))
    else:
        stubs = b"".join(a_word(0x90000010) + a_word(0xF9400210) + a_word(0xD61F0200) for _ in range(nstubs))
        helper = a_word(0x10489491) + A_NOP + a_word(0xA9BF47F0) + A_NOP + a_word(0x58327AF0) + a_word(0xD61F0200) + \
            b"".join(a_word(0x18000050) + a_word(0x17FFFFF9) + a_word(0) for _ in range(nstubs))
    stubs_hi = stubs_lo + len(stubs)
    helper_lo = (stubs_hi + 3) & ~3
    helper_hi = helper_lo + len(helper)
    text += bytes([pad] * (stubs_lo - pos)) + stubs + bytes([pad] * (helper_lo - stubs_hi)) + helper
    return dict(arch=arch, funcs=funcs, text_lo=text_lo, text=bytes(text), stubs=(stubs_lo, stubs_hi),
                helper=(helper_lo, helper_hi), end=helper_hi)

# ------------------------------------------------------------------ DWARF rows for deferred functions
def dwarf_rows(f):
    """CFI row in force at every instruction boundary, derived from what the prologue has done so far.
    Darwin-style CFI (f.darwin_cfi) has no rows for the epilogue: the body row stays in force to the end of the
    function, and a thread stopped inside the epilogue is unwound correctly only through instruction analysis"""
    if getattr(f, "force_rows", None):
        return f.force_rows            # (C06: a deferred function whose row does not compress)
    rows = _dwarf_rows(f)
    if getattr(f, "darwin_cfi", False):
        epi = [off for (off, insn, phase) in f.insns if phase == "epilogue"]
        if epi:
            rows = [(o, r) for (o, r) in rows if o <= epi[0]]
    return rows

def _dwarf_rows(f):
    R = ARCH_REGS[f.arch]
    rows = []
    if f.arch == "x86":
        spd = 0                 # bytes pushed / allocated since entry
        fp_set = False
        bp_slot = None          # offset of the saved rbp from the CFA
        in_epilogue_fp = False
        for (off, insn, phase) in f.insns:
            if fp_set:
                row = dict(cfa=("r", R["fp"], 16), fp=("o", -16), ra=("o", -8))
            else:
                row = dict(cfa=("r", R["sp"], 8 + spd), fp=(("o", bp_slot) if bp_slot is not None else ("s",)), ra=("o", -8))
            rows.append((off, row))
            k = insn.kind
            if k == "push":
                spd += 8
                if insn.a[0] == RBP:
                    bp_slot = -8 - spd
            elif k == "pop":
                spd -= 8
                if insn.a[0] == RBP:
                    bp_slot = None; fp_set = False
            elif k == "movfp":
                fp_set = True
            elif k == "sub":
                spd += insn.a[0]
            elif k == "add":
                spd -= insn.a[0]
        return dedup(rows)
    spd = 0
    fp_set = False
    saved = False       # fp / lr saved at [cfa-16], [cfa-8]
    for (off, insn, phase) in f.insns:
        if fp_set:
            row = dict(cfa=("r", R["fp"], 16), fp=("o", -16), ra=("o", -8))
        elif saved:
            row = dict(cfa=("r", R["sp"], spd), fp=("o", -16), ra=("o", -8))
        else:
            row = dict(cfa=("r", R["sp"], spd), fp=("s",), ra=("s",))
        rows.append((off, row))
        k = insn.kind
        if k == "stp_pre":
            spd += -insn.a[2]
            if insn.a[0] == 29: saved = True
        elif k == "stp_off" and insn.a[0] == 29:
            saved = True
        elif k == "addfp":
            fp_set = True
        elif k == "sub":
            spd += insn.a[0]
        elif k == "add":
            spd -= insn.a[0]
            if fp_set: fp_set = False
        elif k == "ldp_off" and insn.a[0] == 29:
            saved = False; fp_set = False
        elif k == "ldp_post":
            if insn.a[0] == 29: saved = False
            fp_set = False
            spd -= insn.a[2]
    return dedup(rows)

def dedup(rows):
    out = []
    for off, r in rows:
        if not out or out[-1][1] != r:
            out.append((off, r))
    return out

# ------------------------------------------------------------------ __unwind_info
def build_unwind_info(entries, end_addr, rng, merge=True, compressed=None, nomerge=(3, 4)):
    """entries: [(function start, opcode)] sorted; returns the section bytes and the entries actually emitted
    (after merging adjacent entries with equal opcodes, as the linker does)"""
    ents = []
    for e in entries:
        a, op = e[0], e[1]
        keep_apart = len(e) > 2 and e[2]
        # the linker folds a function into its predecessor when the encodings are equal (never for encodings
        # that refer to the function itself: indirect stack size, DWARF)
        if merge and ents and ents[-1][1] == op and (op >> 24) & 0xf not in nomerge and not keep_apart:
            continue
        ents.append((a, op))
    # common encodings: the most frequent opcodes
    freq = {}
    for _, op in ents:
        freq[op] = freq.get(op, 0) + 1
    common = [op for op, c in sorted(freq.items(), key=lambda x: -x[1])[: rng.range(0, 3)]]
    # split into pages
    pages = []
    i = 0
    while i < len(ents):
        n = rng.range(1, 5)
        pages.append(ents[i:i + n]); i += n
    hdr_size = 28
    common_off = hdr_size
    pers_off = common_off + 4 * len(common)
    index_off = pers_off
    index_count = len(pages) + 1
    lsda_off = index_off + 12 * index_count
    page_off = lsda_off
    blobs = []
    index = []
    for pg in pages:
        first = pg[0][0]
        use_c = (compressed if compressed is not None else rng.chance(1, 2)) and all(a - first < (1 << 24) for a, _ in pg)
        if use_c:
            local = []
            recs = []
            for a, op in pg:
                if op in common:
                    idx = common.index(op)
                else:
                    if op not in local:
                        local.append(op)
                    idx = len(common) + local.index(op)
                recs.append(((idx & 0xff) << 24) | (a - first))
            body = struct.pack("<IHHHH", 3, 12, len(recs), 12 + 4 * len(recs), len(local))
            body += b"".join(struct.pack("<I", r) for r in recs) + b"".join(struct.pack("<I", o) for o in local)
        else:
            body = struct.pack("<IHH", 2, 8, len(pg)) + b"".join(struct.pack("<II", a, op) for a, op in pg)
        index.append((first, page_off, lsda_off))
        blobs.append(body)
        page_off += len(body)
    index.append((end_addr, 0, lsda_off))
    out = struct.pack("<IIIIIII", 1, common_off, len(common), pers_off, 0, index_off, index_count)
    out += b"".join(struct.pack("<I", o) for o in common)
    out += b"".join(struct.pack("<III", *e) for e in index)
    out += b"".join(blobs)
    return out, ents

def module_macho(script, mid, prog, base, base_svma, rng, merge=True, with_text=True, seg=False):
    """adds the `mod` line: A view = macho <functions as emitted> <stubs> <helper> <text> <eh_frame FDEs>"""
    arch = prog["arch"]
    funcs = sorted(prog["funcs"], key=lambda f: f.start)
    # __eh_frame for the DWARF-deferred functions
    fdes = []
    for f in funcs:
        if f.dwarf:
            fdes.append(dict(start=base_svma + f.start, len=f.length, rows=dwarf_rows(f), func=f))
    eh_svma = base_svma + 0x200000
    eh, offs = build_eh_frame(fdes, arch, None, 1, None) if fdes else (b"", {})
    for i, d in enumerate(fdes):
        d["func"].opcode = (0x04000000 if arch == "x86" else 0x03000000) | offs[i]
    # a function without unwind info that nevertheless sets up a frame pointer is kept apart from its
    # neighbours (folding it with another info-less function makes the entry's bytes ambiguous)
    entries = []
    for k, f in enumerate(funcs):
        op = f.opcode
        entries.append((f.start, op, f.shape == "null-fp" or (k > 0 and funcs[k - 1].shape == "null-fp")))
    ui, ents = build_unwind_info(entries, prog["end"], rng, merge=merge, nomerge=((3, 4) if arch == "x86" else (3,)))
    secs = [("__unwind_info", ui, None)]
    if fdes:
        secs.append(("__eh_frame", eh, (eh_svma, eh_svma + len(eh))))
    secs.append(("__stubs", None, (base_svma + prog["stubs"][0], base_svma + prog["stubs"][1])))
    secs.append(("__stub_helper", None, (base_svma + prog["helper"][0], base_svma + prog["helper"][1])))
    if with_text:
        nm = "seg:__TEXT" if seg else "__text"
        secs.append((nm, prog["text"], (base_svma + prog["text_lo"], base_svma + prog["text_lo"] + len(prog["text"]))))
    a = ["macho", str(len(ents))]
    for (s0, op) in ents:
        a += [hx(s0), hx(op)]
    a += [hx(prog["end"]), hx(prog["stubs"][0]), hx(prog["stubs"][1]), hx(prog["helper"][0]), hx(prog["helper"][1])]
    if with_text:
        a += ["text", hx(prog["text_lo"]), hexs(prog["text"])]
    else:
        a += ["notext"]
    if fdes:
        a += ["eh", str(len(fdes))]
        for i, d in enumerate(fdes):
            a += [hx(offs[i])] + fdes_tokens([d])[1:]
    else:
        a += ["noeh"]
    b = [str(len(secs))]
    for name, data, rngs in secs:
        b += [name, hexs(data) if data is not None else "-"] + ([hx(rngs[0]), hx(rngs[1])] if rngs else ["-", "-"])
    end = base + prog["end"] + 0x100
    script.add("mod %s %s %s %s %s A %s B %s" % (mid, hx(base), hx(end), hx(base), hx(base_svma), " ".join(a), " ".join(b)))
    return ents

# ------------------------------------------------------------------ scenarios
def make_scenario(rng, prog, base, top, depth, inner=None):
    """inner = (function, instruction index) forces the innermost frame and its interruption point"""
    arch = prog["arch"]
    funcs = prog["funcs"]
    callers = [f for f in funcs if f.can_call]
    st = St(arch, rng, top)
    st.pac = 0x5a << 56 if arch == "a64" else 0
    chain_funcs = [rng.choice(callers) for _ in range(depth - 1)] + [inner[0] if inner else rng.choice(funcs)]
    frames = []
    # thread start: null return address
    if arch == "x86":
        st.sp -= 8; st.mem[st.sp] = 0
    else:
        st.lr = 0
        st.fp = 0
    ra_in = 0
    caller_state = None
    for d, f in enumerate(chain_funcs):
        innermost = d == depth - 1
        if not innermost:
            sites = [i for i, (off, insn, ph) in enumerate(f.insns) if insn.kind in ("call", "bl")]
            i = rng.choice(sites)
            run_to(st, f, i, rng)
            off, insn, ph = f.insns[i]
            ra = base + f.start + off + len(insn.raw)
            frames.append(dict(func=f, ra=ra_in, pc=ra, kind="caller", sp=st.sp, fp=st.fp, lr=st.lr, caller=caller_state))
            caller_state = (st.sp, st.fp)
            if arch == "x86":
                st.sp -= 8; st.mem[st.sp] = ra
            else:
                st.lr = ra
            ra_in = ra
        else:
            i = inner[1] if inner else rng.below(len(f.insns))
            run_to(st, f, i, rng)
            off, insn, ph = f.insns[i]
            frames.append(dict(func=f, ra=ra_in, pc=base + f.start + off, kind="first", sp=st.sp, fp=st.fp, lr=st.lr,
                               caller=caller_state, phase=ph, insn=insn.kind, index=i))
    frames.reverse()
    return dict(mem=st.mem, frames=frames)
