"""fhgen.py - shared generator library: PRNG, boundary values, section encoders
(.eh_frame / .eh_frame_hdr / .debug_frame), script writer.  Every random choice comes from one
xorshift64* state seeded by VERIF_SEED, so a run replays exactly."""
import struct

M64 = (1 << 64) - 1

class Rng:
    def __init__(self, seed):
        self.s = (seed * 0x9E3779B97F4A7C15 + 0x1234567) & M64 or 0x1
    def u64(self):
        x = self.s
        x ^= x >> 12; x &= M64
        x ^= (x << 25) & M64
        x ^= x >> 27
        self.s = x
        return (x * 0x2545F4914F6CDD1D) & M64
    def below(self, n):
        return self.u64() % n if n > 0 else 0
    def range(self, lo, hi):          # inclusive
        return lo + self.below(hi - lo + 1)
    def choice(self, l):
        return l[self.below(len(l))]
    def chance(self, num, den):
        return self.below(den) < num
    def shuffle(self, l):
        for i in range(len(l) - 1, 0, -1):
            j = self.below(i + 1)
            l[i], l[j] = l[j], l[i]
        return l

BOUNDARY = [0, 1, 7, 8, 9, 15, 16, 17, 0xff, 0x100, 0xfff8, 0xffff, 0x10000, (1 << 31) - 1, 1 << 31,
            (1 << 32) - 1, 1 << 32, (1 << 63) - 8, (1 << 63) - 1, 1 << 63, (1 << 63) + 8,
            M64 - 32, M64 - 16, M64 - 15, M64 - 8, M64 - 7, M64 - 1, M64]

def hexs(b):
    return b.hex() if b else "-"

def hx(v):
    return "0x%x" % v

# ---------- LEB128 ----------
def uleb(v):
    out = bytearray()
    while True:
        b = v & 0x7f
        v >>= 7
        if v:
            out.append(b | 0x80)
        else:
            out.append(b)
            return bytes(out)

def sleb(v):
    out = bytearray()
    more = True
    while more:
        b = v & 0x7f
        v >>= 7
        if (v == 0 and not (b & 0x40)) or (v == -1 and (b & 0x40)):
            more = False
        else:
            b |= 0x80
        out.append(b)
    return bytes(out)

# ---------- DWARF expressions ----------
def enc_expr(ops):
    out = bytearray()
    for o in ops:
        k = o[0]
        if k == "breg":
            r, off = o[1], o[2]
            if r < 32:
                out.append(0x70 + r)
            else:
                out.append(0x92); out += uleb(r)
            out += sleb(off)
        elif k == "lit":
            n = o[1]
            if n < 32:
                out.append(0x30 + n)
            else:
                out.append(0x10); out += uleb(n)
        elif k == "pluc":
            out.append(0x23); out += uleb(o[1])
        elif k == "plus":
            out.append(0x22)
        elif k == "and":
            out.append(0x1a)
        elif k == "shl":
            out.append(0x24)
        elif k == "ge":
            out.append(0x2a)
        elif k == "deref":
            out.append(0x06)
        elif k == "reg0":
            out.append(0x50)             # DW_OP_reg0: the result is a register location, not an address
        elif k == "stackvalue":
            out.append(0x9f)             # DW_OP_stack_value: the result is a value, not an address
        elif k == "drop":
            out.append(0x13)
        elif k == "skip":
            out.append(0x2f); out += struct.pack("<h", o[1])      # DW_OP_skip: relative to the byte after the operand
        elif k == "bra":
            out.append(0x28); out += struct.pack("<h", o[1])      # DW_OP_bra: pops; branches when non-zero
        else:
            out.append(0xff)
    return bytes(out)

def expr_tokens(ops):
    t = [str(len(ops))]
    for o in ops:
        if o[0] in ("skip", "bra"):
            t.append("branch")           # the model has no branches: an operation the (bounded) evaluator rejects
            continue
        t.append(o[0])
        t += [str(x) for x in o[1:]]
    return t

# ---------- rows ----------
# row = dict(cfa=("r", reg, off) | ("e", ops), fp=rule, ra=rule)
# rule = ("u",) | ("s",) | ("o", z) | ("vo", z) | ("reg", r) | ("e", ops) | ("ve", ops)
def enc_regrule(reg, rule):
    k = rule[0]
    if k == "u":
        return b"\x07" + uleb(reg)
    if k == "s":
        return b"\x08" + uleb(reg)
    if k == "o":
        return b"\x11" + uleb(reg) + sleb(rule[1])
    if k == "vo":
        return b"\x15" + uleb(reg) + sleb(rule[1])
    if k == "reg":
        return b"\x09" + uleb(reg) + uleb(rule[1])
    if k == "e":
        e = enc_expr(rule[1])
        return b"\x10" + uleb(reg) + uleb(len(e)) + e
    if k == "ve":
        e = enc_expr(rule[1])
        return b"\x16" + uleb(reg) + uleb(len(e)) + e
    raise ValueError(rule)

def enc_row(row, fp_reg, ra_reg):
    c = row["cfa"]
    if c[0] == "r":
        out = b"\x12" + uleb(c[1]) + sleb(c[2])          # DW_CFA_def_cfa_sf (data_align = 1)
    else:
        e = enc_expr(c[1])
        out = b"\x0f" + uleb(len(e)) + e                  # DW_CFA_def_cfa_expression
    out += enc_regrule(fp_reg, row["fp"])
    out += enc_regrule(ra_reg, row["ra"])
    return out

def rule_tokens(rule):
    k = rule[0]
    if k in ("u", "s"):
        return [k]
    if k in ("o", "vo", "reg"):
        return [k, str(rule[1])]
    return [k] + expr_tokens(rule[1])

def row_tokens(row):
    c = row["cfa"]
    t = ["r", str(c[1]), str(c[2])] if c[0] == "r" else ["e"] + expr_tokens(c[1])
    return t + rule_tokens(row["fp"]) + rule_tokens(row["ra"])

ARCH_REGS = {"x86": dict(fp=6, ra=16, sp=7), "a64": dict(fp=29, ra=30, sp=31)}

def pad_to(b, n):
    while len(b) % n:
        b += b"\x00"                                       # DW_CFA_nop
    return b

# ---------- sections ----------
# fde = dict(start=svma, len=n, rows=[(off,row),...], ok=True)
def fde_insns(f, arch):
    regs = ARCH_REGS[arch]
    out = b""
    if not f.get("ok", True):
        out += b"\x3c"                                     # unknown CFA opcode -> gimli error
    # rules for the other callee-saved registers, as every compiler emits them (framehop ignores them, gimli has
    # to keep them: one slot each in the row's rule storage)
    for k, reg in enumerate(f.get("extra_regs", ())):
        out += b"\x11" + uleb(reg) + sleb(-(0x200 + 8 * k))       # DW_CFA_offset_extended_sf
    prev = 0
    vendor_at = f.get("vendor_at") if arch == "a64" else None
    vendor_done = False
    for off, row in f["rows"]:
        if off != prev:
            out += b"\x04" + struct.pack("<I", off - prev)  # DW_CFA_advance_loc4 (code_align = 1)
            prev = off
        if vendor_at is not None and not vendor_done and off >= vendor_at:
            out += b"\x2d"                                  # DW_CFA_AARCH64_negate_ra_state
            vendor_done = True
        if off in f.get("remember_at", ()):
            out += b"\x0a"                                  # DW_CFA_remember_state (early-return epilogue)
        if off in f.get("restore_at", ()):
            out += b"\x0b"                                  # DW_CFA_restore_state
        out += enc_row(row, regs["fp"], regs["ra"])
    return out

def build_eh_frame(fdes, arch, order=None, n_cies=1, pcrel_base=None, mixed=None):
    """Returns (bytes, {fde index -> offset of the FDE in the section}).
    Empty-augmentation CIEs (absolute 8-byte addresses) unless pcrel_base is given, in which case
    "zR" CIEs with DW_EH_PE_pcrel|sdata8 are used and pcrel_base is the section's SVMA.
    mixed = (section svma, rng): all CIEs come first, each with its OWN pointer encoding (absolute
    udata8 without augmentation, zR with absptr / udata4 / pcrel|sdata4 / pcrel|sdata8), and the FDEs
    follow interleaved, so that consecutive FDEs belong to different CIEs and point back over other
    CIEs (what `ld -r` and hand-written assembly produce)."""
    ra_reg = ARCH_REGS[arch]["ra"]
    order = list(range(len(fdes))) if order is None else order
    out = b""
    offsets = {}
    n_cies = max(1, n_cies)
    if mixed is not None:
        svma, rng = mixed[0], mixed[1]
        text_svma, got_svma = (mixed[2], mixed[3]) if len(mixed) > 3 else (None, None)
        small = all(f["start"] + f["len"] < (1 << 32) for f in fdes)
        near = all(abs(f["start"] - svma) < (1 << 30) for f in fdes)
        cies = []
        for c in range(n_cies):
            encs = [None, 0x00, 0x1c] + ([0x03] if small else []) + ([0x1b] if near else [])
            if text_svma is not None and all(abs(f["start"] - text_svma) < (1 << 30) for f in fdes):
                encs += [0x2b, 0x3b]          # text-relative and data-relative (.got) function addresses
            enc = encs[(c + rng.below(len(encs))) % len(encs)] if c else rng.choice(encs)
            if c and enc == cies[0][1] and len(encs) > 1:
                enc = encs[(encs.index(enc) + 1) % len(encs)]
            cie_off = len(out)
            lsda = None
            if enc is None:
                body = struct.pack("<I", 0) + b"\x01" + b"\x00" + uleb(1) + sleb(1) + bytes([ra_reg])
            elif c % 2 == 1:
                # C++ style: personality routine and LSDA pointers ("zPLR"), the personality data-relative (to .got),
                # pc-relative or absolute; framehop has no use for either but the CIE and its FDEs must still parse
                penc = rng.choice([0x3b, 0x9b, 0x00, 0x1b])            # datarel|sdata4, indirect|pcrel|sdata4, absptr, pcrel|sdata4
                lsda = rng.choice([0x1b, 0x00, 0x3b])
                pptr = struct.pack("<Q", 0x123456) if penc == 0x00 else struct.pack("<i", 0x1234)
                aug = bytes([penc]) + pptr + bytes([lsda]) + bytes([enc])
                body = struct.pack("<I", 0) + b"\x01" + b"zPLR\x00" + uleb(1) + sleb(1) + bytes([ra_reg]) + uleb(len(aug)) + aug
            else:
                body = struct.pack("<I", 0) + b"\x01" + b"zR\x00" + uleb(1) + sleb(1) + bytes([ra_reg]) + uleb(1) + bytes([enc])
            body = pad_to_len(body)
            out += struct.pack("<I", len(body)) + body
            cies.append((cie_off, enc, lsda))
        for j, i in enumerate(order):
            f = fdes[i]
            cie_off, enc, lsda = cies[j % n_cies]
            fde_off = len(out)
            offsets[i] = fde_off
            cie_ptr = fde_off + 4 - cie_off
            field_addr = svma + fde_off + 8
            if enc is None or enc == 0x00:
                addr = struct.pack("<QQ", f["start"] & M64, f["len"] & M64)
            elif enc == 0x03:
                addr = struct.pack("<II", f["start"], f["len"])
            elif enc == 0x1b:
                addr = struct.pack("<i", f["start"] - field_addr) + struct.pack("<I", f["len"])
            elif enc == 0x2b:
                addr = struct.pack("<i", f["start"] - text_svma) + struct.pack("<I", f["len"])
            elif enc == 0x3b:
                addr = struct.pack("<i", f["start"] - got_svma) + struct.pack("<I", f["len"])
            else:
                addr = struct.pack("<q", f["start"] - field_addr) + struct.pack("<Q", f["len"] & M64)
            if enc is None:
                aug = b""
            elif lsda is None:
                aug = uleb(0)
            else:
                lp = struct.pack("<Q", 0x654321) if lsda == 0x00 else struct.pack("<i", 0x4321)
                aug = uleb(len(lp)) + lp
            body = struct.pack("<I", cie_ptr) + addr + aug + fde_insns(f, arch)
            body = pad_to_len(body)
            out += struct.pack("<I", len(body)) + body
        out += struct.pack("<I", 0)
        return out, offsets
    groups = [[] for _ in range(n_cies)]
    for j, i in enumerate(order):
        groups[j % n_cies].append(i)
    for g in groups:
        cie_off = len(out)
        if pcrel_base is None:
            body = struct.pack("<I", 0) + b"\x01" + b"\x00" + uleb(1) + sleb(1) + bytes([ra_reg])
        else:
            body = (struct.pack("<I", 0) + b"\x01" + b"zR\x00" + uleb(1) + sleb(1) + bytes([ra_reg])
                    + uleb(1) + b"\x1c")                   # DW_EH_PE_pcrel | DW_EH_PE_sdata8
        body = pad_to_len(body)
        out += struct.pack("<I", len(body)) + body
        for i in g:
            f = fdes[i]
            fde_off = len(out)
            offsets[i] = fde_off
            cie_ptr = fde_off + 4 - cie_off
            if pcrel_base is None:
                addr = struct.pack("<QQ", f["start"] & M64, f["len"] & M64)
                aug = b""
            else:
                field_addr = pcrel_base + fde_off + 8
                addr = struct.pack("<q", f["start"] - field_addr) + struct.pack("<Q", f["len"] & M64)
                aug = uleb(0)
            body = struct.pack("<I", cie_ptr) + addr + aug + fde_insns(f, arch)
            body = pad_to_len(body)
            out += struct.pack("<I", len(body)) + body
    out += struct.pack("<I", 0)                            # terminator
    return out, offsets

def pad_to_len(body):
    # total entry (4-byte length + body) padded to a multiple of 8
    while (len(body) + 4) % 8:
        body += b"\x00"
    return body

def build_debug_frame(fdes, arch, order=None, n_cies=1, mixed=False):
    ra_reg = ARCH_REGS[arch]["ra"]
    order = list(range(len(fdes))) if order is None else order
    out = b""
    offsets = {}
    n_cies = max(1, n_cies)
    def cie():
        body = struct.pack("<I", 0xffffffff) + b"\x01" + b"\x00" + uleb(1) + sleb(1) + bytes([ra_reg])
        body = pad_to_len(body)
        return struct.pack("<I", len(body)) + body
    def fde(i, cie_off):
        f = fdes[i]
        body = (struct.pack("<I", cie_off) + struct.pack("<QQ", f["start"] & M64, f["len"] & M64)
                + fde_insns(f, arch))
        body = pad_to_len(body)
        return struct.pack("<I", len(body)) + body
    if mixed == "fde-first" and order:
        # the section begins with an FDE; its CIE (and all others) come later - .debug_frame refers to CIEs by
        # absolute section offset, so forward references are fine (assemblers emit them for hand-written CFI)
        first_len = len(fde(order[0], 0))
        cies = []
        pos = first_len
        for c in range(n_cies):
            cies.append(pos); pos += len(cie())
        offsets[order[0]] = 0
        out += fde(order[0], cies[0])
        for c in range(n_cies):
            out += cie()
        for j, i in enumerate(order[1:], 1):
            offsets[i] = len(out)
            out += fde(i, cies[j % n_cies])
        return out, offsets
    if mixed:                                              # CIEs first, FDEs interleaved over them
        cies = []
        for c in range(n_cies):
            cies.append(len(out)); out += cie()
        for j, i in enumerate(order):
            offsets[i] = len(out)
            out += fde(i, cies[j % n_cies])
        return out, offsets
    groups = [[] for _ in range(n_cies)]
    for j, i in enumerate(order):
        groups[j % n_cies].append(i)
    for g in groups:
        cie_off = len(out)
        out += cie()
        for i in g:
            offsets[i] = len(out)
            out += fde(i, cie_off)
    return out, offsets

def build_eh_frame_hdr(fdes, offsets, eh_frame_svma, hdr_svma=None, enc="abs8", extra=()):
    """Binary search table over all FDEs, sorted by start (the producer's contract).
    extra: further table entries (start svma, offset into .eh_frame) - a table that points at things which are not FDEs"""
    ents = sorted([(f["start"], eh_frame_svma + offsets[i]) for i, f in enumerate(fdes)] +
                  [(a, eh_frame_svma + o) for a, o in extra], key=lambda e: e[0])
    if enc == "notable":
        # version 1, eh_frame_ptr udata8, fde_count_enc = table_enc = DW_EH_PE_omit: a header without search table
        return bytes([1, 0x04, 0xff, 0xff]) + struct.pack("<Q", eh_frame_svma)
    if enc == "abs8":
        out = bytes([1, 0x04, 0x03, 0x04])                 # version, eh_frame_ptr udata8, count udata4, table udata8
        out += struct.pack("<Q", eh_frame_svma)
        out += struct.pack("<I", len(ents))
        for a, p in ents:
            out += struct.pack("<QQ", a & M64, p & M64)
    else:                                                  # GNU ld layout: pcrel|sdata4, udata4, datarel|sdata4
        out = bytes([1, 0x1b, 0x03, 0x3b])
        out += struct.pack("<i", eh_frame_svma - (hdr_svma + 4))
        out += struct.pack("<I", len(ents))
        for a, p in ents:
            out += struct.pack("<ii", a - hdr_svma, p - hdr_svma)
    return out

def fdes_tokens(fdes):
    t = [str(len(fdes))]
    for f in fdes:
        t += [hx(f["start"]), hx(f["len"]), "1" if f.get("ok", True) else "0", str(len(f["rows"]))]
        for off, row in f["rows"]:
            t.append(hx(off))
            t += row_tokens(row)
    return t

# ---------- script ----------
class Script:
    def __init__(self, arch="x86", policy="may"):
        self.lines = ["config arch=%s policy=%s" % (arch, policy)]
        self.arch = arch
        self.tags = {}          # line number -> tag (path class for distinct_nontrivial)
        self.meta = {}          # line number -> arbitrary dict used by the judges
    def add(self, line, tag=None, meta=None):
        self.lines.append(line)
        n = len(self.lines)
        if tag is not None:
            self.tags[n] = tag
        if meta is not None:
            self.meta[n] = meta
        return n
    def mem(self, mid, pairs):
        t = ["mem", mid, str(len(pairs))]
        for a, v in pairs:
            t += [hx(a), hx(v)]
        return self.add(" ".join(t))
    def regs_x86(self, ip, sp, bp, other=None):
        vals = [0] * 16
        vals[7] = sp; vals[6] = bp
        if other:
            for k, v in other.items():
                vals[k] = v
        return " ".join([hx(ip)] + [hx(v) for v in vals])
    def regs_a64(self, mask, lr, sp, fp):
        return " ".join(hx(v) for v in (mask, lr, sp, fp))
    def module_none(self, mid, start, end, base_avma, base_svma):
        return self.add("mod %s %s %s %s %s A none B 0" % (mid, hx(start), hx(end), hx(base_avma), hx(base_svma)))
    def module_dwarf(self, mid, start, end, base_avma, base_svma, pres, fdes, rng=None,
                     shuffle=False, n_cies=1, eh_svma=None, hdr_svma=None, hdr_enc="abs8", pcrel=False, mixed=False, macho_names=False,
                     order=None, hdr_extra=(), eh_noaddr=False):
        if order is not None:
            order = list(order)                  # explicit section order of the FDEs
        else:
            order = list(range(len(fdes)))
            if shuffle and rng is not None:
                rng.shuffle(order)
        # the model sees the FDEs in section order
        sec_fdes = [fdes[i] for i in order]
        eh_svma = base_svma + 0x200000 if eh_svma is None else eh_svma
        hdr_svma = base_svma + 0x300000 if hdr_svma is None else hdr_svma
        secs = []
        if pres == "debug":
            data, offs = build_debug_frame(sec_fdes, self.arch, None, n_cies,
                                           "fde-first" if mixed and rng is not None and len(sec_fdes) % 2 == 1 else mixed)
            secs.append((".debug_frame", data, None))
        else:
            text_svma, got_svma = base_svma + 0x800, base_svma + 0x280000
            # every other mixed image does NOT state where .text / .got lie: pointers relative to them (function
            # addresses, personality routines, LSDAs) are then relative to 0, as gimli's BaseAddresses start out
            nobases = bool(mixed and rng is not None and ((start >> 12) + len(sec_fdes)) % 2 == 1)
            if nobases:
                text_svma, got_svma = 0, 0
            data, offs = build_eh_frame(sec_fdes, self.arch, None, n_cies, eh_svma if pcrel else None,
                                        (eh_svma, rng, text_svma, got_svma) if mixed and rng is not None else None)
            # eh_noaddr: the module does not state where .eh_frame lies (only its bytes): enough when nothing in the CFI
            # is relative to the section itself
            secs.append((".eh_frame", data, None if (eh_noaddr and not pcrel and not (mixed and rng is not None)) else (eh_svma, eh_svma + len(data))))
            if mixed and rng is not None and not nobases:
                # the address ranges of the sections that relative pointer encodings refer to
                secs.append((".text", None, (text_svma, text_svma + 0x100000)))
                secs.append((".got", None, (got_svma, got_svma + 0x100)))
            if pres == "hdr":
                hdr = build_eh_frame_hdr(sec_fdes, offs, eh_svma, hdr_svma, hdr_enc, hdr_extra)
                secs.append((".eh_frame_hdr", hdr, (hdr_svma, hdr_svma + len(hdr))))
        a = ["dwarf", pres] + fdes_tokens(sec_fdes)
        b = [str(len(secs))]
        for name, data, rngs in secs:
            if macho_names and name in (".eh_frame", ".eh_frame_hdr"):
                name = "_" + name.replace(".", "_")        # a DWARF-only image whose sections carry the Mach-O spelling
            # section ranges are u64 in the API: a range that would end beyond the address space is clipped
            b += [name, hexs(data)] + ([hx(min(rngs[0], M64)), hx(min(rngs[1], M64))] if rngs else ["-", "-"])
        return self.add("mod %s %s %s %s %s A %s B %s" % (mid, hx(start), hx(end), hx(base_avma), hx(base_svma),
                                                         " ".join(a), " ".join(b)))
    def text(self):
        return "\n".join(self.lines) + "\n"

# ---------- PE x64: .pdata / UNWIND_INFO / text ----------
# uinfo = dict(fpreg=None|n, fpoff=multiple of 16 (0..240), ops=[(prolog_off, op), ...], chain=None|rva, prolog=size)
# op = ("pop", reg) | ("alloc", bytes) | ("setfp",) | ("save", reg, off) | ("savexmm", off) | ("mach", err)
def enc_uinfo(u, chained_rt=None):
    codes = bytearray()
    nslots = 0
    for off, op in u["ops"]:
        k = op[0]
        if k == "pop":
            codes += bytes([off & 0xff, 0 | (op[1] << 4)]); nslots += 1
        elif k == "alloc":
            b = op[1]
            if b % 8 == 0 and 8 <= b <= 128 and not op[2:]:
                codes += bytes([off & 0xff, 2 | (((b // 8) - 1) << 4)]); nslots += 1
            elif b % 8 == 0 and b // 8 < 65536 and not op[2:]:
                codes += bytes([off & 0xff, 1 | (0 << 4)]) + struct.pack("<H", b // 8); nslots += 2
            else:
                codes += bytes([off & 0xff, 1 | (1 << 4)]) + struct.pack("<I", b); nslots += 3
        elif k == "setfp":
            codes += bytes([off & 0xff, 3]); nslots += 1
        elif k == "save":
            r, o = op[1], op[2]
            if o % 8 == 0 and o // 8 < 65536:
                codes += bytes([off & 0xff, 4 | (r << 4)]) + struct.pack("<H", o // 8); nslots += 2
            else:
                codes += bytes([off & 0xff, 5 | (r << 4)]) + struct.pack("<I", o); nslots += 3
        elif k == "savexmm":
            o = op[1]
            if o % 16 == 0 and o // 16 < 65536:
                codes += bytes([off & 0xff, 8 | (6 << 4)]) + struct.pack("<H", o // 16); nslots += 2
            else:
                codes += bytes([off & 0xff, 9 | (6 << 4)]) + struct.pack("<I", o); nslots += 3
        elif k == "mach":
            codes += bytes([off & 0xff, 10 | ((1 if op[1] else 0) << 4)]); nslots += 1
        else:
            raise ValueError(op)
    flags = 4 if chained_rt is not None else 0
    fp = u.get("fpreg") or 0
    hdr = bytes([1 | (flags << 3), u.get("prolog", 0) & 0xff, nslots & 0xff, (fp & 0xf) | (((u.get("fpoff", 0) // 16) & 0xf) << 4)])
    out = hdr + bytes(codes)
    if chained_rt is not None:
        out += struct.pack("<III", *chained_rt)
    return out

def uop_tokens(op):
    k = op[0]
    if k == "pop":
        return ["pop", str(op[1])]
    if k == "alloc":
        return ["alloc", str(op[1])]
    if k == "setfp":
        return ["setfp"]
    if k == "save":
        return ["save", str(op[1]), str(op[2])]
    if k == "savexmm":
        return ["savexmm", str(op[1])]
    return ["mach", "1" if op[1] else "0"]

def build_pe(funcs, uinfos, text_lo, text_bytes, xdata_rva=0x80000, rdata_ids=(), text_hi=None, no_xdata=False):
    """funcs = [(begin, end, uinfo_id)] sorted by begin; uinfos = {id: uinfo dict}; chain refers to ids.
    Unwind infos whose id is in rdata_ids are placed in .rdata, which ends exactly where .xdata begins.
    Returns (sections list for the B view, abstract tokens for the A view)."""
    ids = sorted(uinfos)
    rd = [i for i in ids if i in rdata_ids]
    xd = [i for i in ids if i not in rdata_ids]
    def size(i):
        u = uinfos[i]
        return (len(enc_uinfo(u, (0, 0, 0) if u.get("chain") is not None else None)) + 3) & ~3
    rlen = sum(size(i) for i in rd)
    rdata_rva = xdata_rva - rlen
    rva = {}
    pos = rdata_rva
    for i in rd:
        rva[i] = pos; pos += size(i)
    assert pos == xdata_rva
    for i in xd:
        rva[i] = pos; pos += size(i)
    blob = bytearray(pos - rdata_rva)
    for i in ids:
        u = uinfos[i]
        ch = u.get("chain")
        b = enc_uinfo(u, (u.get("chain_begin", 0), u.get("chain_end", 0), rva[ch]) if ch is not None else None)
        blob[rva[i] - rdata_rva: rva[i] - rdata_rva + len(b)] = b
    rdata, xdata = bytes(blob[:rlen]), bytes(blob[rlen:])
    pdata = b"".join(struct.pack("<III", b, e, rva[u]) for (b, e, u) in funcs)
    secs = [(".pdata", pdata, None)]
    if rd:
        secs.append((".rdata", rdata, (rdata_rva, rdata_rva + len(rdata))))
    if (xd or not rd) and not (no_xdata and not xdata):
        # no_xdata: an image that has a function table but neither .xdata nor .rdata (nothing to describe: the table is
        # empty, or its owner did not hand the other sections over)
        secs.append((".xdata", xdata, (xdata_rva, xdata_rva + len(xdata))))
    if text_hi is None and text_bytes is not None:
        text_hi = text_lo + len(text_bytes)
    if text_bytes is not None:
        # text_hi may disagree with the length of the data (inconsistent section range)
        secs.append((".text", bytes(text_bytes), (text_lo, text_hi)))
    a = ["pe", str(len(funcs))]
    for (b, e, u) in funcs:
        a += [hx(b), hx(e), hx(rva[u])]
    a.append(str(len(ids)))
    for i in ids:
        u = uinfos[i]
        a += [hx(rva[i]), "1", str(u["fpreg"]) if u.get("fpreg") else "-", str(u.get("fpoff", 0)), str(len(u["ops"]))]
        for off, op in u["ops"]:
            a.append(str(off & 0xff)); a += uop_tokens(op)
        a.append(hx(rva[u["chain"]]) if u.get("chain") is not None else "-")
    if text_bytes is not None:
        a += ["text", hx(text_lo), hx(text_hi), hexs(bytes(text_bytes))]
    else:
        a += ["notext"]
    return secs, a, rva

def module_pe(script, mid, start, end, base_avma, base_svma, funcs, uinfos, text_lo, text_bytes, xdata_rva=0x80000, rdata_ids=(), text_hi=None, no_xdata=False):
    secs, a, rva = build_pe(funcs, uinfos, text_lo, text_bytes, xdata_rva, rdata_ids, text_hi, no_xdata)
    b = [str(len(secs))]
    for name, data, rngs in secs:
        # "." = the section is present and empty (an image without a single table entry), "-" = no such section
        b += [name, hexs(data) if data else "."] + ([hx(base_svma + rngs[0]), hx(base_svma + rngs[1])] if rngs else ["-", "-"])
    script.add("mod %s %s %s %s %s A %s B %s" % (mid, hx(start), hx(end), hx(base_avma), hx(base_svma), " ".join(a), " ".join(b)))
    return rva
